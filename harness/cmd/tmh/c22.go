package main

// C22 — the grammar compiler never crashes and reports in-range diagnostics. Correspondence / search side
// (DESIGN.md §4 C22):
//
//   - the REAL compiler.Compile (and gen.Generate for grammars that compile) runs in CHILD processes
//     (`tmh C22-child`: inputs framed on stdin, one JSON result per input on fd 3; a worker keeps its child
//     for many inputs, restarts it after a crash, kills it when an input exceeds its time limit;
//     GOMEMLIMIT set) on the five shipped grammars, the grammars of compiler/testdata, generated grammars
//     (RandGram + Gram.TM / tmArrows, the feature grammars of c18RandGrammar) and MUTATIONS of all of them;
//   - outcome per input: ok | errors | syntax error | crash (panic / log.Fatal / os.Exit / runtime fatal /
//     timeout, first line of the message, innermost textmapper frame);
//   - checks made here in Go, independently of the Lean model: no crash; every status.Error carries the
//     path given to Compile and 0 <= offset <= endoffset <= len(text), and its (line, column) equal a direct
//     recomputation from the offset; a tm.SyntaxError's range and line likewise;
//   - the same cases go to the Lean model (`diag`, `synerr`: lineCol of every reported offset; `maperr`:
//     the regexp error translation; `outcome`: the total model; `site`: crash-site classification).
//
// Errors WITHOUT a position: status.AddError turns a non-status error into status.Error{SourceRange{}}
// ("I/O errors don't originate in source code") and Error.Error() prints such errors without a location
// (Filename == ""). compiler.Compile does no I/O and is given a non-empty path, and every SourceRange taken
// from a non-nil ast node carries that path; so a diagnostic with an empty range can only come from a nil
// origin node, i.e. from a diagnostic anchored at an optional sub-node that is absent. Its line:column 0:0 is
// NOT the line:column of its offset 0 (1:1) and it does not name the compiled file: a violation of the
// property ("every diagnostic is in range and its line/column match its offsets"), reported as such
// (`diagnostic-without-location`). The oracle requires of EVERY diagnostic: file name == the path given to
// Compile, 0 <= offset <= endoffset <= len(text), line >= 1, column >= 1 and (line, column) == lineCol(offset).

import (
	"bufio"
	"bytes"
	"context"
	"crypto/sha256"
	"encoding/json"
	"fmt"
	"io"
	"math/rand"
	"os"
	"os/exec"
	"path/filepath"
	"regexp"
	"runtime"
	"runtime/debug"
	"sort"
	"strconv"
	"strings"
	"sync"
	"time"

	"github.com/inspirer/textmapper/compiler"
	"github.com/inspirer/textmapper/gen"
	"github.com/inspirer/textmapper/lex"
	"github.com/inspirer/textmapper/parsers/tm"
	"github.com/inspirer/textmapper/status"
)

func init() {
	props["C22"] = c22
	if len(os.Args) >= 2 && os.Args[1] == "C22-child" {
		c22Child()
		os.Exit(0)
	}
}

// ---- child ----------------------------------------------------------------------------------------

type c22Err struct {
	Off, End, Line, Col int
	File                string
	Msg                 string
}

type c22Res struct {
	ID    int
	Kind  string // ok | errors | synerr | othererr | panic (recovered in the child) | crash (set by the parent)
	Errs  []c22Err
	Msg   string // first line of the panic / fatal message, or the non-status error
	Where string // innermost textmapper frame of a panic
	Stage string // compile | generate (where the crash happened)
	Gen   string // "" (not generated) | ok | error
	// parent only
	CrashKind string // panic | log.Fatal | os.Exit | runtime-fatal | timeout | killed
	Millis    int64
}

type c22Nop struct{}

func (c22Nop) Write(filename, content string) error { return nil }

func c22FirstLine(s string) string {
	s = strings.TrimSpace(s)
	if i := strings.IndexByte(s, '\n'); i >= 0 {
		s = s[:i]
	}
	if len(s) > 300 {
		s = s[:300]
	}
	return s
}

// c22Frame: innermost frame of the panicking goroutine that belongs to the repository under test.
func c22Frame() string {
	pcs := make([]uintptr, 64)
	n := runtime.Callers(3, pcs)
	frames := runtime.CallersFrames(pcs[:n])
	for {
		f, more := frames.Next()
		if strings.Contains(f.Function, "inspirer/textmapper/") {
			fn := f.Function[strings.Index(f.Function, "inspirer/textmapper/")+len("inspirer/textmapper/"):]
			return fn
		}
		if !more {
			return ""
		}
	}
}

func c22RunOne(id int, path, content string) (res c22Res) {
	res = c22Res{ID: id, Stage: "compile"}
	defer func() {
		if r := recover(); r != nil {
			res.Kind = "panic"
			res.Msg = c22FirstLine(fmt.Sprint(r))
			res.Where = c22Frame()
		}
	}()
	g, err := compiler.Compile(context.Background(), path, content, compiler.Params{})
	if err != nil {
		switch e := err.(type) {
		case tm.SyntaxError:
			res.Kind = "synerr"
			res.Errs = []c22Err{{Off: e.Offset, End: e.Endoffset, Line: e.Line, Msg: e.Error()}}
		case status.Status:
			res.Kind = "errors"
			for _, x := range e {
				res.Errs = append(res.Errs, c22Err{x.Origin.Offset, x.Origin.EndOffset, x.Origin.Line, x.Origin.Column, x.Origin.Filename, x.Msg})
			}
		case *status.Error:
			res.Kind = "errors"
			res.Errs = []c22Err{{e.Origin.Offset, e.Origin.EndOffset, e.Origin.Line, e.Origin.Column, e.Origin.Filename, e.Msg}}
		default:
			res.Kind = "othererr"
			res.Msg = c22FirstLine(fmt.Sprintf("%T: %v", err, err))
		}
		return res
	}
	res.Kind = "ok"
	if g != nil && g.TargetLang != "" {
		res.Stage = "generate"
		if err := gen.Generate(g, c22Nop{}, gen.Options{}); err != nil {
			res.Gen = "error"
			res.Msg = c22FirstLine(err.Error())
		} else {
			res.Gen = "ok"
		}
	}
	return res
}

// c22Child: frames `<id> <pathlen> <len>\n<path><content>` on stdin; one JSON line per input on fd 3.
func c22Child() {
	// Unbounded recursion ends in `fatal error: stack overflow` once the goroutine stack reaches the limit
	// (default 1 GB, reached after 10-40 s of stack copying on a busy machine). 64 MB is still far more than
	// any legitimate recursion over inputs of at most a few hundred KB needs (the deepest nesting generated
	// here is ~4000 levels, a few MB of stack), and is detected within a second or two.
	debug.SetMaxStack(64 << 20)
	out := os.NewFile(3, "results")
	if out == nil {
		fmt.Fprintln(os.Stderr, "C22-child: fd 3 missing")
		os.Exit(3)
	}
	in := bufio.NewReaderSize(os.Stdin, 1<<20)
	enc := json.NewEncoder(out)
	for {
		hdr, err := in.ReadString('\n')
		if err != nil {
			return
		}
		var id, pl, n int
		if _, err := fmt.Sscanf(hdr, "%d %d %d", &id, &pl, &n); err != nil {
			fmt.Fprintln(os.Stderr, "C22-child: bad header", hdr)
			os.Exit(3)
		}
		buf := make([]byte, pl+n)
		if _, err := io.ReadFull(in, buf); err != nil {
			return
		}
		res := c22RunOne(id, string(buf[:pl]), string(buf[pl:]))
		if enc.Encode(&res) != nil {
			return
		}
	}
}

// ---- parent: workers ------------------------------------------------------------------------------

type c22Worker struct {
	self    string
	cmd     *exec.Cmd
	stdin   io.WriteCloser
	results *bufio.Reader
	resFile *os.File
	errMu   sync.Mutex
	errBuf  bytes.Buffer
	errDone chan struct{}
	lines   chan []byte
	Starts  int
}

func (w *c22Worker) start() error {
	pr, pw, err := os.Pipe()
	if err != nil {
		return err
	}
	cmd := exec.Command(w.self, "C22-child")
	cmd.Env = append(os.Environ(), "GOMEMLIMIT=1GiB", "GOTRACEBACK=single")
	cmd.ExtraFiles = []*os.File{pw}
	stdin, err := cmd.StdinPipe()
	if err != nil {
		return err
	}
	stderr, err := cmd.StderrPipe()
	if err != nil {
		return err
	}
	cmd.Stdout = io.Discard
	if err := cmd.Start(); err != nil {
		return err
	}
	pw.Close()
	w.cmd, w.stdin, w.resFile = cmd, stdin, pr
	w.errBuf.Reset()
	w.errDone = make(chan struct{})
	go func(done chan struct{}) {
		buf := make([]byte, 32<<10)
		for {
			n, err := stderr.Read(buf)
			if n > 0 {
				w.errMu.Lock()
				if w.errBuf.Len() < 1<<20 {
					w.errBuf.Write(buf[:n])
				}
				w.errMu.Unlock()
			}
			if err != nil {
				close(done)
				return
			}
		}
	}(w.errDone)
	w.lines = make(chan []byte, 1)
	go func(ch chan []byte, r *os.File) {
		br := bufio.NewReaderSize(r, 1<<20)
		for {
			line, err := br.ReadBytes('\n')
			if len(line) > 0 && err == nil {
				ch <- line
			}
			if err != nil {
				close(ch)
				return
			}
		}
	}(w.lines, pr)
	w.Starts++
	return nil
}

func (w *c22Worker) stop() {
	if w.cmd == nil {
		return
	}
	w.stdin.Close()
	w.cmd.Process.Kill()
	w.cmd.Wait()
	w.resFile.Close()
	w.cmd = nil
}

// first frame of a Go traceback that belongs to the repository under test
var c22FrameRE = regexp.MustCompile(`(?m)^github\.com/inspirer/textmapper/([^\s(]+(?:\(\*[A-Za-z0-9_]+\))?[^\s(]*)\(`)

var c22LogStamp = regexp.MustCompile(`^\d{4}/\d{2}/\d{2} \d{2}:\d{2}:\d{2}(\.\d+)? `)

// run gives one input to the child and waits for its result (at most limit).
func (w *c22Worker) run(id int, path, content string, limit time.Duration) c22Res {
	t0 := time.Now()
	if w.cmd == nil {
		if err := w.start(); err != nil {
			return c22Res{ID: id, Kind: "crash", CrashKind: "harness", Msg: "cannot start child: " + err.Error()}
		}
	}
	w.errMu.Lock()
	w.errBuf.Reset()
	w.errMu.Unlock()
	frame := append([]byte(fmt.Sprintf("%d %d %d\n", id, len(path), len(content))), path...)
	frame = append(frame, content...)
	go func(in io.Writer) { in.Write(frame) }(w.stdin) // a dead child must not block us
	timer := time.NewTimer(limit)
	defer timer.Stop()
	select {
	case line, ok := <-w.lines:
		if ok {
			var res c22Res
			if err := json.Unmarshal(line, &res); err == nil && res.ID == id {
				res.Millis = time.Since(t0).Milliseconds()
				if res.Kind == "panic" {
					res.CrashKind = "panic"
				}
				return res
			}
			w.stop()
			return c22Res{ID: id, Kind: "crash", CrashKind: "harness", Msg: "garbled result: " + c22FirstLine(string(line))}
		}
		// the child died while working on this input
		w.stdin.Close()
		select { // stderr must be drained before Wait closes the pipe
		case <-w.errDone:
		case <-time.After(2 * time.Second):
		}
		err := w.cmd.Wait()
		w.resFile.Close()
		w.cmd = nil
		w.errMu.Lock()
		text := w.errBuf.String()
		w.errMu.Unlock()
		res := c22Res{ID: id, Kind: "crash", Millis: time.Since(t0).Milliseconds()}
		code := -1
		if ee, ok := err.(*exec.ExitError); ok {
			code = ee.ExitCode()
		} else if err == nil {
			code = 0
		}
		var msgLines []string
		for _, l := range strings.Split(text, "\n") {
			l = strings.TrimRight(l, "\r ")
			if l == "" || strings.Contains(l, "WARNING:") {
				continue
			}
			msgLines = append(msgLines, l)
		}
		switch {
		case strings.Contains(text, "fatal error:"):
			res.CrashKind = "runtime-fatal"
			for _, l := range msgLines {
				if strings.HasPrefix(l, "fatal error:") {
					res.Msg = l
					break
				}
			}
		case strings.Contains(text, "panic:") && strings.Contains(text, "goroutine "):
			res.CrashKind = "panic"
			for _, l := range msgLines {
				if strings.HasPrefix(l, "panic:") {
					res.Msg = l
					break
				}
			}
		case code == 1 && len(msgLines) > 0 && c22LogStamp.MatchString(msgLines[len(msgLines)-1]):
			res.CrashKind = "log.Fatal"
			res.Msg = c22LogStamp.ReplaceAllString(msgLines[len(msgLines)-1], "")
		default:
			res.CrashKind = fmt.Sprintf("os.Exit(%d)", code)
			if len(msgLines) > 0 {
				res.Msg = msgLines[len(msgLines)-1]
			}
		}
		res.Msg = c22FirstLine(res.Msg)
		// innermost frame of the repository under test; for a stack overflow the frame that occurs most often
		// in the (abbreviated) traceback, i.e. the function that recurses
		if ms := c22FrameRE.FindAllStringSubmatch(text, -1); len(ms) > 0 {
			res.Where = ms[0][1]
			if res.CrashKind == "runtime-fatal" {
				cnt := map[string]int{}
				for _, m := range ms {
					cnt[m[1]]++
					if cnt[m[1]] > cnt[res.Where] {
						res.Where = m[1]
					}
				}
			}
		}
		return res
	case <-timer.C:
		w.stop()
		return c22Res{ID: id, Kind: "crash", CrashKind: "timeout", Msg: fmt.Sprintf("no result after %v", limit), Millis: time.Since(t0).Milliseconds()}
	}
}

// ---- inputs ---------------------------------------------------------------------------------------

type c22Input struct {
	Name  string // seed + mutation description (no blanks)
	Kind  string // bucket for the distribution
	Aim   string // directed inputs: substring of the diagnostic format the input is aimed at
	Text  string
	Heavy bool // derived from js.tm: long time limit
	// maperr inputs: the pattern literal and its options
	Pattern  string
	PatOpts  lex.CharsetOptions
	IsMapErr bool
}

var c22Shipped = []string{
	"parsers/json/json.tm",
	"parsers/simple/simple.tm",
	"parsers/test/test.tm",
	"parsers/tm/textmapper.tm",
	"parsers/js/js.tm",
}

var c22TokRE = regexp.MustCompile(`\s+|[A-Za-z_][A-Za-z0-9_\-]*|'(?:[^'\\\n]|\\.)*'|"(?:[^"\\\n]|\\.)*"|/(?:[^/\\\n\s]|\\.)+/|::|->|%%|%[a-z\-]+|\(\?=|\d+|.|\n`)

func c22Tokens(text string) []string { return c22TokRE.FindAllString(text, -1) }

var c22Vocabulary = []string{
	":: lexer", ":: parser", "::", "%input", "%left", "%right", "%nonassoc", "%generate", "%assert", "%interface", "%flag",
	"%lookahead", "%s", "%x", "%empty", "%prec", "%expect", "%expect-rr", "%inject", "%param", "%%", "set(", "(?=", "->", "separator",
	"as", "no-eoi", "empty", "nonempty", "class", "space", "returns", "inline", "void", "lalr(2)", "lalr(3)", "lalr(9)", "lalr(0)", ".greedy", ".lr0", ".foo",
	"[", "]", "(", ")", "{", "}", "<", ">", "|", ";", ":", ",", "=", "?", "*", "+", "!", "&", "~", "$", "@", "/", "'", "\"", "\\", "%", "-1", "0", "true", "false",
	"error", "invalid_token", "eoi", "input", "language", "go", "cc", "ts", "first", "last", "follow", "precede", "(?= !", "<*>", "<initial>", "+?", "*?", "/rr",
	"{ $$ = $1 }", "{ ${left()} }", "[Flag]", "[!Flag]", "<+Flag>", "<~Flag>", "<Flag=true>", "Flag", "(a | b)", "()", "(  )+", "(separator ',')+", "-> Node/Flag,Other", "-> Node as Sel",
}

var c22BadBytes = []string{"\xff", "\xc0\x80", "\xed\xa0\x80", "\x80", "\xf8\x88\x80\x80\x80", "\x00", "\xef\xbb\xbf", "\xe2\x28\xa1", "\r", "\x1b", "\u2028", "é", "\U0001F600"}

type c22Opt struct {
	name string
	typ  string // bool int string strings extra
}

var c22Options = []c22Opt{
	{"package", "string"}, {"genCopyright", "bool"}, {"scanBytes", "bool"}, {"caseInsensitive", "bool"}, {"tokenLine", "bool"},
	{"tokenLineOffset", "bool"}, {"tokenColumn", "bool"}, {"nonBacktracking", "bool"}, {"flexMode", "bool"}, {"genParser", "bool"},
	{"optInstantiationSuffix", "string"}, {"aliasIncludesOptSuffix", "bool"}, {"cancellable", "bool"}, {"cancellableFetch", "bool"},
	{"writeBison", "bool"}, {"recursiveLookaheads", "bool"}, {"tokenStream", "bool"}, {"eventBased", "bool"}, {"genSelector", "bool"},
	{"fixWhitespace", "bool"}, {"debugParser", "bool"}, {"optimizeTables", "bool"}, {"minimizeDFA", "bool"}, {"defaultReduce", "bool"},
	{"noEmptyRules", "bool"}, {"maxLookahead", "int"}, {"disableSyntax", "strings"}, {"expansionLimit", "int"}, {"expansionWarn", "int"},
	{"eventFields", "bool"}, {"eventAST", "bool"}, {"extraTypes", "extra"}, {"customImpl", "strings"}, {"fileNode", "string"},
	{"nodePrefix", "string"}, {"lang", "string"}, {"namespace", "string"}, {"includeGuardPrefix", "string"}, {"filenamePrefix", "string"},
	{"abseilIncludePrefix", "string"}, {"dirIncludePrefix", "string"}, {"parseParams", "strings"}, {"variantStackEntry", "bool"},
	{"trackReduces", "bool"}, {"maxRuleSizeForOrdinalRef", "int"}, {"skipByteOrderMark", "bool"}, {"noSuchOption", "bool"},
}

var c22OptValues = []string{
	"true", "false", "0", "1", "-1", "5", "99999999999999999999", "2147483648", `""`, `"x"`, `"a b"`, `"\x"`, `"unterminated`, `'x'`, "[]", `["a"]`, `["a", 5]`,
	`[true]`, `["A -> B"]`, `["->"]`, `["A -> "]`, `["9x"]`, `["A -> B -> C", "A"]`, `[["a"]]`, "x", "foo.bar", "", "=", `["NestedChoice", "Templates", "List", "Nope"]`,
	`["Choice"]`, `["Reference"]`, `["Sequence", "Optional", "Set", "Lookahead", "Command", "Arrow", "Assign", "Append", "StateMarker", "Prec"]`,
}

// c22Mutate applies 1..k random mutation operators.
func c22Mutate(r *rand.Rand, text string, heavy bool) (string, string) {
	nops := 1
	switch x := r.Intn(10); {
	case x >= 8:
		nops = 3 + r.Intn(4)
	case x >= 5:
		nops = 2
	}
	var desc []string
	for k := 0; k < nops; k++ {
		var d string
		text, d = c22MutateOnce(r, text, heavy)
		desc = append(desc, d)
	}
	return text, strings.Join(desc, "+")
}

func c22SignificantIdx(toks []string) []int {
	var idx []int
	for i, t := range toks {
		if strings.TrimSpace(t) != "" {
			idx = append(idx, i)
		}
	}
	return idx
}

func c22MutateOnce(r *rand.Rand, text string, heavy bool) (string, string) {
	if len(text) == 0 {
		return c22Vocabulary[r.Intn(len(c22Vocabulary))], "vocab"
	}
	toks := c22Tokens(text)
	sig := c22SignificantIdx(toks)
	pickTok := func() int {
		if len(sig) == 0 {
			return 0
		}
		return sig[r.Intn(len(sig))]
	}
	join := func() string { return strings.Join(toks, "") }
	switch op := r.Intn(20); op {
	case 0, 1: // token deletion
		n := 1 + r.Intn(3)
		i := pickTok()
		for k := 0; k < n && i < len(toks); k++ {
			toks[i] = ""
			i++
		}
		return join(), "del"
	case 2: // token duplication
		i := pickTok()
		toks[i] = toks[i] + " " + toks[i]
		return join(), "dup"
	case 3, 4: // token swap / replacement by another token of the text
		i, j := pickTok(), pickTok()
		if r.Intn(2) == 0 {
			toks[i], toks[j] = toks[j], toks[i]
			return join(), "swap"
		}
		toks[i] = toks[j]
		return join(), "replace"
	case 5: // byte flip
		b := []byte(text)
		n := 1 + r.Intn(3)
		for k := 0; k < n; k++ {
			i := r.Intn(len(b))
			if r.Intn(2) == 0 {
				b[i] ^= 1 << uint(r.Intn(8))
			} else {
				b[i] = byte(r.Intn(256))
			}
		}
		return string(b), "byteflip"
	case 6: // truncation
		return text[:r.Intn(len(text))], "truncate"
	case 7, 8, 9: // insertion of tm vocabulary
		i := pickTok()
		v := c22Vocabulary[r.Intn(len(c22Vocabulary))]
		if r.Intn(2) == 0 {
			toks[i] = v + " " + toks[i]
		} else {
			toks[i] = toks[i] + " " + v
		}
		return join(), "vocab"
	case 10: // unbalanced brackets / quotes / regexps
		ch := []string{"(", ")", "{", "}", "[", "]", "'", "\"", "/", "<", ">", "(?="}[r.Intn(12)]
		if r.Intn(3) == 0 { // delete one occurrence
			var occ []int
			for i, t := range toks {
				if t == ch {
					occ = append(occ, i)
				}
			}
			if len(occ) > 0 {
				toks[occ[r.Intn(len(occ))]] = ""
				return join(), "unbalance-del"
			}
		}
		i := pickTok()
		toks[i] = ch + toks[i]
		return join(), "unbalance-ins"
	case 11: // non-UTF-8 and odd bytes
		i := r.Intn(len(text) + 1)
		return text[:i] + c22BadBytes[r.Intn(len(c22BadBytes))] + text[i:], "badbytes"
	case 12: // very long lines
		if heavy {
			return text + " ", "noop"
		}
		i := pickTok()
		n := 2000 + r.Intn(30000)
		switch r.Intn(5) {
		case 0:
			toks[i] = strings.Repeat("a", n) + toks[i]
		case 1:
			toks[i] = strings.Repeat("(", n/8) + toks[i]
		case 2:
			// at most 120 repetitions: k nested quantifiers (`a * * * …`) cost time and memory cubic in k
			// (k = 560: 2 GB, 9 s; k = 1000 would be ~12 GB), which would only produce time-outs here
			toks[i] = strings.Repeat(toks[i]+" ", 2+r.Intn(119))
		case 3:
			toks[i] = toks[i] + " " + strings.Repeat("x? ", 8+r.Intn(12)) // exponential rule expansion
		default:
			toks[i] = strings.Repeat(" ", n) + toks[i] + strings.Repeat("\t", n/4)
		}
		return join(), "longline"
	case 13, 14: // option line with a wrong type / odd value
		o := c22Options[r.Intn(len(c22Options))]
		line := o.name + " = " + c22OptValues[r.Intn(len(c22OptValues))] + "\n"
		if i := strings.Index(text, "\n::"); i >= 0 && r.Intn(5) != 0 {
			return text[:i+1] + line + text[i+1:], "option"
		}
		i := r.Intn(len(text) + 1)
		return text[:i] + "\n" + line + text[i:], "option-anywhere"
	case 15: // line deletion / duplication / swap
		lines := strings.Split(text, "\n")
		i, j := r.Intn(len(lines)), r.Intn(len(lines))
		switch r.Intn(3) {
		case 0:
			lines = append(lines[:i], lines[i+1:]...)
		case 1:
			lines[i] = lines[i] + "\n" + lines[i]
		default:
			lines[i], lines[j] = lines[j], lines[i]
		}
		return strings.Join(lines, "\n"), "line"
	case 16: // replace the target language / header
		for _, l := range []string{"(go)", "(cc)", "(ts)"} {
			if strings.Contains(text, l) {
				return strings.Replace(text, l, []string{"(go)", "(cc)", "(ts)", "(java)", "()", ""}[r.Intn(6)], 1), "lang"
			}
		}
		return "language x(go);\n" + text, "lang"
	case 17: // wrap a token into a quantifier / optional / lookahead / set / list
		i := pickTok()
		t := toks[i]
		w := []string{"(%s)+", "(%s)*", "(%s)?", "%s?", "%s+", "%s*", "(%s separator %s)+", "set(%s)", "(?= %s)", "(?= !%s)", "(%s | %s)", "%s[x]", "x=%s", "x+=%s", "(%s { })+", "%s<X>", "[F] %s", "set(~%s)", "set(first %s & ~%s)", "(%s -> N)", "%sopt", "'%s'", "(%s %s* { })+"}[r.Intn(23)]
		toks[i] = strings.ReplaceAll(w, "%s", t)
		return join(), "wrap"
	case 18: // rename one occurrence of an identifier (unresolved / miswired references)
		i := pickTok()
		toks[i] = toks[i] + []string{"x", "opt", "_", "1", "-"}[r.Intn(5)]
		return join(), "rename"
	default: // whitespace / newline surgery (line and column bookkeeping)
		i := pickTok()
		toks[i] = []string{"\n", "\r\n", "\n\n\n", "\t", " \n ", "\r"}[r.Intn(6)] + toks[i]
		return join(), "newline"
	}
}

// c22OptionGrammar: a small valid grammar with several option lines of wrong types.
func c22OptionGrammar(r *rand.Rand) string {
	var sb strings.Builder
	lang := []string{"go", "cc", "ts"}[r.Intn(3)]
	fmt.Fprintf(&sb, "language o(%s);\n\n", lang)
	n := 1 + r.Intn(5)
	for i := 0; i < n; i++ {
		o := c22Options[r.Intn(len(c22Options))]
		var v string
		if r.Intn(3) == 0 { // a value of the right type
			switch o.typ {
			case "bool":
				v = []string{"true", "false"}[r.Intn(2)]
			case "int":
				v = []string{"0", "1", "7", "100000", "-3"}[r.Intn(5)]
			case "string":
				v = []string{`"x"`, `""`, `"a/b"`, `"opt"`, `"_"`}[r.Intn(5)]
			case "strings":
				v = []string{`["a", "b"]`, `[]`, `["NestedChoice"]`, `["Templates", "List"]`}[r.Intn(4)]
			default:
				v = []string{`["A", "B -> A"]`, `["A -> A"]`, `[]`}[r.Intn(3)]
			}
		} else if (o.typ == "strings" || o.typ == "extra") && r.Intn(2) == 0 {
			v = []string{`[true]`, `["a", 5]`, `[["a"]]`, `[1, 2]`, `["a", "\x"]`, `[x]`, `["A ->"]`, `["-> A"]`, `["A -> B C"]`, `[ , ]`, `["a",]`}[r.Intn(11)]
		} else {
			v = c22OptValues[r.Intn(len(c22OptValues))]
		}
		fmt.Fprintf(&sb, "%s = %s\n", o.name, v)
	}
	sb.WriteString("\n:: lexer\n\n'a': /a/\n'b': /b/\nid: /[a-z]+/ (class)\n'kw': /kw/\nws: /[ \\n]+/ (space)\nerror:\n\n:: parser\n\n%input S;\n\n")
	sb.WriteString([]string{
		"S : 'a' B* ;\nB : 'b' | 'kw' ;\n",
		"S -> S : 'a' (B separator 'a')+ ;\nB -> B : 'b' | id ;\n",
		"S : (?= B) 'a' | B ;\nB : 'b' 'a'? ;\n",
		"S : 'a' { $$ = 1 } 'b' ;\n",
		"%flag F;\nS : B<+F> | B<~F> 'a' ;\nB<F> : [F] 'b' | [!F] 'kw' | id ;\n",
		"S {int} : a=B b+=B* { $$ = $a } ;\nB {int} : 'b' { $$ = 2 } ;\n",
		"S : set(~'a' & ~eoi)+ 'a' ;\n",
	}[r.Intn(7)])
	return sb.String()
}

var c22RegexPieces = []string{
	"(", ")", "a{2,1}", "a{", "{undefined}", "\\", "\\p{Foo}", "\\xZZ", "\\u12", "(?i", "(?x)", "a**", "|*", "[z-a]", "[a", "\\Q", "a{99999999999}", "+", "?", "*a",
	"[^\\x00-\\U0010ffff]", "\\pZ", "\\p{", "\\x{110000}", "\\8", "(?", "a{,}", "[[:foo:]]", "\\c", "é(", "日本(", "(((((", "a)b", "[\\", "{eoi}a", "a{eoi}b", "\\UFFFFFFFF", "\\x{}", "[a-\\d]",
}

// c22RegexGrammar: one lexer rule with a (probably) broken pattern at a random line/column.
func c22RegexGrammar(r *rand.Rand) (text, pattern string, opts lex.CharsetOptions) {
	var sb strings.Builder
	sb.WriteString("language re(go);\n")
	if r.Intn(4) == 0 {
		sb.WriteString("scanBytes = true\n")
		opts.ScanBytes = true
	}
	if r.Intn(4) == 0 {
		sb.WriteString("caseInsensitive = true\n")
		opts.Fold = true
	}
	sb.WriteString(strings.Repeat("\n", r.Intn(4)))
	sb.WriteString(":: lexer\n")
	sb.WriteString(strings.Repeat("\n", r.Intn(3)))
	pre := []string{"", "ab", "é", "x y", "[a-z]+", "日本", "\\/", "a|b", "(a)", "\\t"}[r.Intn(10)]
	post := []string{"", "c", "é+", "[0-9]", "|z", ")", "("}[r.Intn(7)]
	pattern = pre + c22RegexPieces[r.Intn(len(c22RegexPieces))] + post
	name := []string{"tok", "'q'", "Tok2", "a-b"}[r.Intn(4)]
	fmt.Fprintf(&sb, "%s%s:%s/%s/\n", strings.Repeat(" ", r.Intn(6)), name, strings.Repeat(" ", 1+r.Intn(3)), pattern)
	sb.WriteString("other: /x/\n")
	return sb.String(), pattern, opts
}

// ---- chaos grammars: syntactically valid, semantically arbitrary -------------------------------------

type c22Chaos struct {
	r        *rand.Rand
	terms    []string // quoted or plain terminal names
	nonterms []string
	flags    []string
	sets     []string
	typed    bool
	lang     string
	tame     bool              // avoid constructs that are certain to be rejected
	ntParam  map[string]string // nonterminal -> its template flag ("" = none)
	cur      string            // nonterminal being rendered
	hasError bool
}

func (g *c22Chaos) pick(l []string) string {
	if len(l) == 0 {
		return "a"
	}
	return l[g.r.Intn(len(l))]
}

func (g *c22Chaos) p(pct int) bool { return g.r.Intn(100) < pct }

func (g *c22Chaos) isIdent(t string) bool { return !strings.HasPrefix(t, "'") }

func (g *c22Chaos) symref(allowArgs bool) string {
	r := g.r
	x := r.Intn(100)
	if g.tame && x >= 90 {
		x = r.Intn(90)
	}
	switch {
	case x < 45:
		return g.pick(g.terms)
	case x < 90:
		n := g.pick(g.nonterms)
		name := n
		if f := g.ntParam[n]; allowArgs && f != "" && (g.tame || g.p(70)) {
			opts := []string{"<+" + f + ">", "<~" + f + ">"}
			if g.ntParam[g.cur] == f {
				opts = append(opts, "<"+f+">", "")
			}
			n += opts[r.Intn(len(opts))]
		} else if allowArgs && !g.tame && len(g.flags) > 0 && g.p(20) {
			f := g.pick(g.flags)
			n += []string{"<+" + f + ">", "<~" + f + ">", "<" + f + ">", "<" + f + ": true>", "<" + f + ": " + g.pick(g.flags) + ">", "<+" + f + ", ~" + g.pick(g.flags) + ">", "<>"}[r.Intn(7)]
		}
		if n == name && g.p(6) {
			n += "opt"
		}
		return n
	case x < 94:
		return "undefined_" + strconv.Itoa(r.Intn(3))
	case x < 96:
		return "error"
	case x < 98:
		if len(g.sets) > 0 {
			return g.pick(g.sets)
		}
		return g.pick(g.terms)
	default:
		t := g.pick(g.terms)
		if g.isIdent(t) {
			return t + "opt"
		}
		return t
	}
}

func (g *c22Chaos) setExpr(depth int) string {
	r := g.r
	if depth > 2 || g.p(45) {
		op := []string{"", "", "", "first ", "last ", "follow ", "precede ", "bogus "}[r.Intn(8)]
		if g.tame && op == "bogus " {
			op = ""
		}
		switch r.Intn(6) {
		case 0:
			return op + g.pick(g.nonterms)
		case 1:
			if len(g.sets) > 0 {
				return g.pick(g.sets)
			}
			return g.pick(g.terms)
		case 2:
			return "eoi"
		default:
			return op + g.pick(g.terms)
		}
	}
	switch r.Intn(4) {
	case 0:
		return "~" + g.setExpr(depth+1)
	case 1:
		return "(" + g.setExpr(depth+1) + " | " + g.setExpr(depth+1) + ")"
	case 2:
		return g.setExpr(depth+1) + " & " + g.setExpr(depth+1)
	default:
		return "~(" + g.setExpr(depth+1) + ")"
	}
}

func (g *c22Chaos) command() string {
	if !g.typed {
		return []string{"{ }", "{ /* c */ }", "{ foo(${first()}) }", "{ $$ = nil }", "{ \"}\" }", "{ '{' }"}[g.r.Intn(6)]
	}
	return []string{"{ $$ = $1 }", "{ $$ = $0 }", "{ $$ = $x }", "{ $$ = ${x.offset} + $2 }", "{ $$ = $9 }", "{ @$ = @1 }", "{ $$ = $x#1 }", "{ }", "{ $$ = ${self[0]} }", "{ $$ = $a + $b }"}[g.r.Intn(10)]
}

// primary: symref | ( rules ) | ( parts separator refs )+* | primary+* | $( rules ) | set(...)
func (g *c22Chaos) primary(depth int) string {
	r := g.r
	if depth > 3 {
		return g.symref(true)
	}
	switch x := r.Intn(100); {
	case x < 52:
		return g.symref(true)
	case x < 64:
		return g.primary(depth+1) + []string{"*", "+"}[r.Intn(2)]
	case x < 76:
		return "(" + g.rules(depth+1, 1+r.Intn(3)) + ")"
	case x < 88:
		sep := g.pick(g.terms)
		if !g.tame && g.p(12) {
			sep = g.symref(false) + " " + g.pick(g.terms)
		} else if g.p(8) {
			sep += " " + g.pick(g.terms)
		}
		return "(" + g.seq(depth+1) + " separator " + sep + ")" + []string{"*", "+"}[r.Intn(2)]
	case x < 97:
		return "set(" + g.setExpr(0) + ")"
	default:
		if g.tame {
			return g.symref(true)
		}
		return "$(" + g.rules(depth+1, 1) + ")"
	}
}

func (g *c22Chaos) part(depth int) string {
	r := g.r
	switch x := r.Intn(100); {
	case x < 9:
		return g.command()
	case x < 13:
		return "." + []string{"m1", "m2", "greedy", "lr0", "recoveryScope"}[r.Intn(5)]
	case x < 18:
		n := 1 + r.Intn(2)
		var ps []string
		for i := 0; i < n; i++ {
			ref := g.pick(g.nonterms)
			if !g.tame && g.p(15) {
				ref = g.symref(false)
			}
			ps = append(ps, []string{"", "!"}[r.Intn(2)]+ref)
		}
		return "(?= " + strings.Join(ps, " & ") + ")"
	}
	out := g.primary(depth)
	if g.p(10) {
		out += "[" + []string{"x", "a", "b", "name", "x"}[r.Intn(5)] + "]"
	}
	if !g.tame && g.p(2) {
		out += " as " + g.symref(false)
	}
	if g.p(12) {
		out += "?"
	}
	if g.p(10) {
		out = []string{"x", "a", "b", "left", "y"}[r.Intn(5)] + []string{"=", "+="}[r.Intn(2)] + out
	}
	return out
}

func (g *c22Chaos) seq(depth int) string {
	n := g.r.Intn(5)
	if depth > 0 && n == 0 {
		n = 1
	}
	var ps []string
	for i := 0; i < n; i++ {
		ps = append(ps, g.part(depth))
	}
	return strings.Join(ps, " ")
}

func (g *c22Chaos) rules(depth, n int) string {
	var rs []string
	for i := 0; i < n; i++ {
		var sb strings.Builder
		if f := g.ntParam[g.cur]; depth == 0 && f != "" && g.p(40) || !g.tame && len(g.flags) > 0 && g.p(8) {
			if f == "" || !g.tame && g.p(30) {
				f = g.pick(g.flags)
			}
			sb.WriteString([]string{"[" + f + "] ", "[!" + f + "] ", "[" + f + " && !" + g.pick(g.flags) + "] ", "[" + f + " == true] ", "[" + f + " || " + g.pick(g.flags) + "] ", "[" + f + " != false] ", "[" + f + " == 5] "}[g.r.Intn(7)])
		}
		body := g.seq(depth)
		if body == "" && (g.tame || g.p(50)) {
			body = "%empty"
		}
		sb.WriteString(body)
		if depth == 0 && g.p(8) {
			sb.WriteString(" %prec " + g.pick(g.terms))
		}
		if g.p(25) {
			arrows := []string{"NodeA", "NodeB", "NodeC", "NodeD", "NodeA/flagX", "NodeB/flagX,flagY", "Cat", "NodeA as Cat", "Cat as Cat"}
			if g.tame {
				arrows = arrows[:6]
			}
			sb.WriteString(" -> " + arrows[g.r.Intn(len(arrows))])
		}
		rs = append(rs, sb.String())
	}
	return strings.Join(rs, " | ")
}

// c22ChaosGrammar renders a random grammar that (usually) passes the tm parser and exercises the loader,
// templates, lookaheads, sets, lists, mid-rule actions, types, precedence and table options.
func c22ChaosGrammar(r *rand.Rand, name string) string {
	g := &c22Chaos{r: r, lang: []string{"go", "go", "go", "cc", "ts"}[r.Intn(5)], ntParam: map[string]string{}}
	g.tame = g.p(60)
	g.typed = g.lang != "ts" && g.p(50)
	var sb strings.Builder
	fmt.Fprintf(&sb, "language %s(%s);\n\n", name, g.lang)
	if g.lang == "go" {
		fmt.Fprintf(&sb, "package = \"x/%s\"\n", name)
	}
	if g.lang == "cc" {
		fmt.Fprintf(&sb, "namespace = %q\n", name)
	}
	goOnly := map[string]bool{"eventFields": true, "cancellable": true, "recursiveLookaheads": false}
	notCC := map[string]bool{"eventAST": true, "genSelector": true, "tokenStream": true, "fixWhitespace": true}
	ccOnly := map[string]bool{"flexMode": true, "trackReduces": true, "variantStackEntry": true}
	for _, o := range []string{"eventBased", "eventFields", "eventAST", "genSelector", "optimizeTables", "defaultReduce", "minimizeDFA", "writeBison", "recursiveLookaheads", "cancellable",
		"tokenStream", "fixWhitespace", "scanBytes", "caseInsensitive", "nonBacktracking", "noEmptyRules", "debugParser", "tokenLine", "tokenColumn", "aliasIncludesOptSuffix", "genParser", "flexMode", "trackReduces", "variantStackEntry"} {
		if g.tame && (goOnly[o] && g.lang != "go" || notCC[o] && g.lang == "cc" || ccOnly[o] && g.lang != "cc" || o == "flexMode" || o == "genParser") {
			continue
		}
		if g.p(12) {
			fmt.Fprintf(&sb, "%s = %v\n", o, g.p(75))
		}
	}
	if g.p(10) {
		fmt.Fprintf(&sb, "maxLookahead = %d\n", r.Intn(4))
	}
	if g.p(8) {
		fmt.Fprintf(&sb, "expansionLimit = %d\n", []int{0, 1, 3, 100}[r.Intn(4)])
	}
	if g.p(8) {
		fmt.Fprintf(&sb, "disableSyntax = [%q]\n", []string{"NestedChoice", "Templates", "List", "Optional", "Lookahead", "Set", "Arrow", "Command", "Assign"}[r.Intn(9)])
	}
	if g.p(10) {
		sb.WriteString("extraTypes = [\"Extra\", \"Extra2 -> Cat\"]\n")
	}
	if g.p(8) {
		fmt.Fprintf(&sb, "optInstantiationSuffix = %q\n", []string{"_opt", "", "Opt", "opt"}[r.Intn(4)])
	}
	sb.WriteString("\n:: lexer\n\n")
	hasSC := g.p(15)
	if hasSC {
		sb.WriteString("%s st1, st2;\n%x st3;\n")
	}
	nt := 2 + r.Intn(4)
	for i := 0; i < nt; i++ {
		ch := string(rune('a' + i))
		tname := "'" + ch + "'"
		if g.p(25) {
			tname = "T" + ch
		}
		g.terms = append(g.terms, tname)
		typ := ""
		if g.typed && g.p(40) {
			typ = " {int}"
		}
		pre := ""
		if g.p(6) && (hasSC || !g.tame) {
			pre = []string{"<st1> ", "<*> ", "<st1, st3> ", "<nope> "}[r.Intn(4)]
			if g.tame && pre == "<nope> " {
				pre = "<st2> "
			}
		}
		fmt.Fprintf(&sb, "%s%s%s: /%s/", pre, tname, typ, ch)
		if g.p(10) {
			attr := []string{" -1", " 2", " (space)", " (class)", " { $$ = 1 }", " (space)"}[r.Intn(6)]
			if g.tame && (attr == " (class)" || attr == " (space)") {
				attr = " 1"
			}
			sb.WriteString(attr)
		}
		sb.WriteString("\n")
	}
	if g.p(40) {
		sb.WriteString("id: /[a-z][a-z0-9]+/ (class)\n'kw': /kw/\n")
		g.terms = append(g.terms, "id", "'kw'")
	}
	if g.p(50) {
		sb.WriteString("ws: /[ \\n]+/ (space)\n")
	}
	if g.p(40) {
		sb.WriteString("error:\n")
		g.terms = append(g.terms, "error")
	}
	if g.p(25) {
		sb.WriteString("invalid_token:\n")
	}
	if g.p(10) {
		sb.WriteString("eoi: /\\$/\n")
	}
	if g.p(10) && (hasSC || !g.tame) {
		sb.WriteString("<st3> {\n  'q': /q/\n}\n")
	}

	if g.p(4) {
		return sb.String() // lexer only
	}
	if g.lang == "go" && g.p(25) {
		// k <= 4: resolving the conflicts of such grammars costs time exponential in k (one sample: k = 4: 2 s,
		// k = 5: 9 s, k = 8: more than 10 minutes) — slow, but it terminates; 9 is out of the accepted range
		fmt.Fprintf(&sb, "\n:: parser lalr(%d)\n\n", []int{1, 2, 2, 3, 4, 9}[r.Intn(6)])
	} else {
		sb.WriteString("\n:: parser\n\n")
	}
	nn := 2 + r.Intn(5)
	for i := 0; i < nn; i++ {
		g.nonterms = append(g.nonterms, fmt.Sprintf("N%d", i))
	}
	if g.p(45) {
		nf := 1 + r.Intn(2)
		for i := 0; i < nf; i++ {
			f := fmt.Sprintf("F%d", i)
			g.flags = append(g.flags, f)
			mod, def := []string{"", "", "", "lookahead "}[r.Intn(4)], []string{"", " = true", " = false", " = 5", " = \"s\""}[r.Intn(5)]
			if g.tame {
				mod, def = "", []string{"", " = true", " = false"}[r.Intn(3)]
			}
			fmt.Fprintf(&sb, "%%%sflag %s%s;\n", mod, f, def)
		}
	}
	if !g.tame {
		g.sets = []string{"s0"}
	}
	if g.p(35) {
		if g.p(50) {
			g.sets = []string{"s0"} // visible to its own definition: recursive sets
		}
		fmt.Fprintf(&sb, "%%generate s0 = set(%s);\n", g.setExpr(0))
		g.sets = []string{"s0"}
	}
	if g.p(10) {
		fmt.Fprintf(&sb, "%%assert %s set(%s);\n", []string{"empty", "nonempty"}[r.Intn(2)], g.setExpr(0))
	}
	for _, n := range g.nonterms {
		if len(g.flags) > 0 && g.p(35) {
			g.ntParam[n] = g.pick(g.flags)
		}
	}
	if g.tame || g.p(85) {
		var ins []string
		for i, n := 0, 1+r.Intn(2); i < n; i++ {
			in := g.pick(g.nonterms)
			for k := 0; k < 8 && g.tame && g.ntParam[in] != ""; k++ {
				in = g.pick(g.nonterms)
			}
			if g.p(8) && !g.tame {
				in = g.pick(g.terms)
			}
			if g.p(25) {
				in += " no-eoi"
			}
			ins = append(ins, in)
		}
		fmt.Fprintf(&sb, "%%input %s;\n", strings.Join(ins, ", "))
	}
	if g.p(30) {
		fmt.Fprintf(&sb, "%%%s %s %s;\n", []string{"left", "right", "nonassoc"}[r.Intn(3)], g.pick(g.terms), g.pick(g.terms))
	}
	if g.p(12) {
		fmt.Fprintf(&sb, "%%interface %s;\n", []string{"Cat", "NodeA", "Cat, Cat2"}[r.Intn(3)])
	}
	if g.p(8) {
		fmt.Fprintf(&sb, "%%inject %s -> %s;\n", g.pick(g.terms), []string{"NodeA", "Tok", "Tok/flagX"}[r.Intn(3)])
	}
	if g.p(10) {
		fmt.Fprintf(&sb, "%%expect %d;\n", r.Intn(3))
	}
	if g.p(6) {
		fmt.Fprintf(&sb, "%%expect-rr %d;\n", r.Intn(3))
	}
	sb.WriteString("\n")
	for _, n := range g.nonterms {
		g.cur = n
		head := n
		kw := ""
		if !g.tame && g.p(5) {
			kw = []string{"inline ", "extend "}[r.Intn(2)]
			head = kw + head
		}
		if f := g.ntParam[n]; f != "" && kw != "extend " {
			head += "<" + f + ">"
		} else if !g.tame && g.p(6) && kw != "extend " {
			head += "<flag X" + []string{"", " = true", " = false"}[r.Intn(3)] + ">"
		}
		if g.typed && g.p(50) && kw == "" {
			head += " {int}"
		}
		if g.p(30) {
			head += " -> " + []string{"NodeA", "NodeB", "Cat", "NodeC/flagX"}[r.Intn(4)]
		}
		fmt.Fprintf(&sb, "%s :\n    %s ;\n\n", head, strings.ReplaceAll(g.rules(0, 1+r.Intn(4)), " | ", "\n  | "))
	}
	if g.p(5) {
		sb.WriteString("%%\n\n{{define \"foo\"}}bar{{end}}\n")
	}
	return sb.String()
}

// ---- known crashes --------------------------------------------------------------------------------

type c22Known struct {
	Token   string
	Witness string
	What    string
	Match   func(res c22Res) bool
	Active  bool
}

const c22HeaderGo = "language w(go);\n\npackage = \"w\"\neventBased = true\n"

func c22KnownCrashes(repo string) []*c22Known {
	testTm, _ := os.ReadFile(filepath.Join(repo, "parsers/test/test.tm"))
	lalrk := strings.Replace(string(testTm), "eventBased = true", "eventBased = true\noptimizeTables = true", 1)
	return []*c22Known{
		{
			Token:   "[C22-recursive-set-instantiate]",
			Witness: "language w(go);\n\n:: lexer\n\n'c': /c/\n\n:: parser\n\n%flag F;\n%generate s0 = set('c' | s0);\n%input N;\n\nN : 'c' ;\n",
			What:    "compiler.Compile dies with `fatal error: stack overflow` (unbounded recursion in syntax.(*instantiator).doSet): a named token set that refers to itself, `%generate s0 = set('c' | s0);`, in a grammar with at least one template parameter (without one, Instantiate is skipped and the same grammar compiles)",
			Match: func(res c22Res) bool {
				return res.CrashKind == "runtime-fatal" && strings.Contains(res.Msg, "stack overflow") && strings.Contains(res.Where, "doSet")
			},
		},
		{
			Token:   "[C22-argrefs-stale-after-instantiate]",
			Witness: "language w(go);\n\n:: lexer\n\n'a': /a/\n'b': /b/\n\n:: parser\n\n%flag F;\n%input S;\n\nU : 'a' ;\nS : X { } ;\nX : 'b' ;\n",
			What:    "compiler.Compile panics (index out of range in syntax.(*Model).Rearrange): syntax.Instantiate renumbers the nonterminals (here it drops the unused U) but leaves the symbols recorded in the ArgRefs of semantic actions in the old numbering; any template parameter makes Instantiate run",
			Match: func(res c22Res) bool {
				return res.CrashKind == "panic" && strings.Contains(res.Msg, "index out of range") && strings.Contains(res.Where, "Rearrange")
			},
		},
		{
			Token:   "[C22-greedy-lookback]",
			Witness: "language w(go);\n\n:: lexer\n\n'a': /a/\n'b': /b/\n\n:: parser\n\n%input N1;\n\nN1 : ('a'? (.greedy N1 'b'))* | ;\n",
			What:    "compiler.Compile exits through log.Fatal(\"internal error\") in lalr buildLA (addLookback): a .greedy marker drops the completed item of a rule from the state its right-hand side leads to, and the lookback pass still expects the reduction there",
			Match: func(res c22Res) bool {
				return res.CrashKind == "log.Fatal" && res.Msg == "internal error"
			},
		},
		{
			Token:   "[C22-addtypes-minus-one]",
			Witness: c22HeaderGo + "\n:: lexer\n\n'a': /a/\n'b': /b/\n\n:: parser\n\n%input N0;\n\nN0 : ('a' 'b'* { })+ ;\n",
			What:    "compiler.Compile panics (index out of range [-1] in compiler.addTypes): a command inside a list element that also contains a nested list keeps ArgRef.Symbol = -1, because syntax.updateArgRefs only visits the rule that contains the outer list",
			Match: func(res c22Res) bool {
				return res.CrashKind == "panic" && strings.Contains(res.Msg, "index out of range [-1]") && strings.Contains(res.Where, "addTypes")
			},
		},
		{
			Token:   "[C22-lalrk-optimize]",
			Witness: lalrk,
			What:    "compiler.Compile exits through log.Fatal(\"internal invariant violated: rule index out of range\") in lalr.Optimize: optimizeTables = true on a `:: parser lalr(2)` grammar whose reduce/reduce conflict is resolved by deeper lookahead (parsers/test/test.tm + optimizeTables)",
			Match: func(res c22Res) bool {
				return res.CrashKind == "log.Fatal" && strings.Contains(res.Msg, "rule index out of range")
			},
		},
		{
			Token:   "[C22-bison-stringify]",
			Witness: c22HeaderGo + "writeBison = true\n\n:: lexer\n\n'a': /a/\n'b': /b/\n\n:: parser\n\n%input S;\n\nS : 'a' { /* mid */ } 'b' ;\n",
			What:    "gen.Generate exits through log.Fatalf(\"cannot stringify kind=2\") in grammar.ExprString: writeBison = true with any mid-rule action (the extracted nonterminal's rule carries a Choice as its Value)",
			Match: func(res c22Res) bool {
				return res.CrashKind == "log.Fatal" && strings.Contains(res.Msg, "cannot stringify kind=")
			},
		},
	}
}

// ---- the check ------------------------------------------------------------------------------------

func c22LineCol(text string, off int) (int, int) {
	pre := text[:off]
	return 1 + strings.Count(pre, "\n"), off - (strings.LastIndexByte(pre, '\n') + 1) + 1
}

func c22Bucket(res c22Res) string {
	msg := regexp.MustCompile(`\d+`).ReplaceAllString(res.Msg, "N")
	if len(msg) > 80 {
		msg = msg[:80]
	}
	return res.CrashKind + "|" + res.Stage + "|" + res.Where + "|" + msg
}

const c22Path = "verif.tm"

func c22(c *Ctx) {
	repo := os.Getenv("VERIF_REPO")
	if repo == "" {
		repo = "/repo"
	}
	c.Rule = "inputs for the real compiler.Compile (+ gen.Generate when it compiles), run in child processes with a per-input time limit: the 5 shipped grammars, the grammars of compiler/testdata (error markers removed), " +
		"generated grammars (RandGram rendered by Gram.TM with random table options / lalr(k) / precedence / recovery, tmArrows with nested arrows and optionals, the feature grammars of c18RandGrammar: class rules, aliases, lists with separators, optionals, nested choices with mid-rule actions, lalr(2), state markers, token sets, template flags, go/ts/cc), " +
		"CHAOS grammars (syntactically valid, semantically arbitrary: random options, start conditions, typed terminals, template flags with arguments and predicates, lookaheads, named and inline sets with first/last/follow/precede and complements, lists with separators, nested choices, optionals, aliases, assignments, mid-rule and final commands, state markers, arrows with flags and selectors, %prec, %inject, %assert, %expect, lalr(k), undefined references), small grammars with option lines of wrong types, grammars with one broken regular expression at a random position (maperr: the harness computes the lex.ParseError with the real lex.ParseRegexp and compares the reported range with the model's translation), and MUTATIONS of all of these (1 operator 50%, 2 30%, 3-6 20%): " +
		"token deletion / duplication / swap / replacement by another token, byte flips, truncation, insertion of tm punctuation and keywords, unbalanced brackets / quotes / regexps, non-UTF-8 and control bytes, very long lines and deep nesting, option lines with wrong types, line surgery, target language change, wrapping a token into a quantifier / list / set / lookahead / alias, renamed references, newline surgery. " +
		"Non-trivial = the input got past the tm parser (compiled, or returned located diagnostics, or crashed); distinct by text. A tm.SyntaxError outcome is trivial for the compiler but its range and line are still checked. " +
		"DIRECTED inputs: for every diagnostic site of compiler/ that the grammar syntax can reach (and several of syntax/ and lalr/) hand-written inputs aimed at it, with the optional sub-nodes of the construct absent and present and redeclarations in both orders, their mutants, and two systematic families (pairs of declarations of one terminal differing in type / ID / attribute / priority / start conditions / command / presence of the pattern, in both orders; pairs of declarations of one nonterminal differing in inline/extend, parameters, alias, type, report clause). Every returned diagnostic is attributed to the most specific Errorf format of compiler/, syntax/, lalr/, lex/ (inventory by go/parser on the tree under test); formats never reached are listed in extra.diagnostic_formats_never_reached. " +
		"Known crashes are probed on one fixed witness each at start-up and reported through that witness only while the real code still crashes; crashes of the random stream with the same signature (message + frame) are then counted as known-class and not reported again."

	self, err := os.Executable()
	must(err)
	nWorkers := runtime.NumCPU() / 2
	if nWorkers < 2 {
		nWorkers = 2
	}
	if nWorkers > 8 {
		nWorkers = 8
	}

	// debugging aid: C22_ONLY=<file>[,<file>…] runs just these inputs through a child and prints the results
	if only := os.Getenv("C22_ONLY"); only != "" {
		w := &c22Worker{self: self}
		for _, f := range strings.Split(only, ",") {
			b, err := os.ReadFile(f)
			must(err)
			res := w.run(0, c22Path, string(b), 300*time.Second)
			j, _ := json.Marshal(res)
			fmt.Printf("%s: %s\n", f, j)
		}
		w.stop()
		return
	}

	// ---- crash-site inventory of the tree under test
	c22Sites(c, repo)

	// ---- known crashes: start-up probe
	probe := &c22Worker{self: self}
	known := c22KnownCrashes(repo)
	for _, k := range known {
		res := probe.run(-1, c22Path, k.Witness, 120*time.Second)
		k.Active = res.CrashKind != "" && k.Match(res)
		c.Extra["probe "+k.Token] = fmt.Sprintf("%s %s %s", res.Kind, res.CrashKind, res.Msg)
		if k.Active {
			c.Violate(fmt.Sprintf("%s %s: %s (%s)", k.Token, k.What, res.CrashKind, res.Msg), k.Token+"\n"+k.Witness)
			c.Count("known-crash-confirmed")
		} else {
			// fixed (or changed): the witness joins the ordinary stream below
			c.Count("known-crash-not-reproduced")
		}
	}
	probe.stop()

	// ---- inputs
	var inputs []c22Input
	add := func(in c22Input) { inputs = append(inputs, in) }
	type seed struct {
		name, text string
		heavy      bool
	}
	var seeds []seed
	for _, rel := range c22Shipped {
		b, err := os.ReadFile(filepath.Join(repo, rel))
		if err != nil {
			c.Notes = append(c.Notes, "cannot read "+rel)
			continue
		}
		s := seed{filepath.Base(rel), string(b), strings.Contains(rel, "/js/")}
		seeds = append(seeds, s)
		add(c22Input{Name: s.name, Kind: "shipped", Text: s.text, Heavy: s.heavy})
	}
	var testdata []seed
	if ents, err := os.ReadDir(filepath.Join(repo, "compiler/testdata")); err == nil {
		for _, e := range ents {
			if strings.HasSuffix(e.Name(), ".tm") || strings.HasSuffix(e.Name(), ".tmerr") {
				b, err := os.ReadFile(filepath.Join(repo, "compiler/testdata", e.Name()))
				if err == nil {
					t := strings.NewReplacer("«", "", "»", "").Replace(string(b))
					testdata = append(testdata, seed{e.Name(), t, false})
					add(c22Input{Name: e.Name(), Kind: "testdata", Text: t})
				}
			}
		}
	}
	for _, k := range known {
		if !k.Active {
			add(c22Input{Name: "witness" + k.Token, Kind: "former-known-crash", Text: k.Witness})
		}
	}

	mutants := func(kind string, s seed, n int) {
		for i := 0; i < n; i++ {
			t, d := c22Mutate(c.Rng, s.text, s.heavy)
			add(c22Input{Name: s.name + ":" + d, Kind: kind, Text: t, Heavy: s.heavy})
		}
	}
	for _, s := range seeds {
		switch {
		case s.heavy:
			mutants("mut-shipped-js", s, c.N(2, 24))
		case strings.Contains(s.name, "textmapper"):
			mutants("mut-shipped", s, c.N(30, 900))
		default:
			mutants("mut-shipped", s, c.N(40, 1200))
		}
	}
	for _, s := range testdata {
		mutants("mut-testdata", s, c.N(6, 150))
	}
	// generated grammars and their mutants
	nGen := c.N(60, 1500)
	for i := 0; i < nGen; i++ {
		cfg := GramCfg{MaxNT: 4, MaxNN: 4, MaxRules: 3, MaxRHS: 4, MultiInput: c.Rng.Intn(3) == 0, Prec: c.Rng.Intn(3) == 0, PEmpty: 0.15}
		g := RandGram(c.Rng, cfg)
		var text string
		if c.Rng.Intn(3) == 0 {
			text = tmArrows(c.Rng, g, fmt.Sprintf("g%d", i), TMOpts{Optimize: c.Rng.Intn(2) == 0, FixWhitespace: c.Rng.Intn(4) == 0, Space: c.Rng.Intn(2) == 0})
		} else {
			o := TMOpts{Optimize: c.Rng.Intn(2) == 0, DefaultReduce: c.Rng.Intn(3) == 0, Minimize: c.Rng.Intn(3) == 0, Cancellable: c.Rng.Intn(4) == 0,
				Recovering: c.Rng.Intn(4) == 0, Space: c.Rng.Intn(2) == 0, ArrowPerRule: c.Rng.Intn(2) == 0, ExpectSR: c.Rng.Intn(3), ExpectRR: c.Rng.Intn(2)}
			if c.Rng.Intn(4) == 0 {
				o.K = 2 + c.Rng.Intn(2)
			}
			if c.Rng.Intn(5) == 0 {
				o.Extra = []string{"writeBison = true\n", "debugParser = true\n", "tokenStream = true\n", "eventFields = true\n", "genSelector = true\n", "eventAST = true\neventFields = true\n", "recursiveLookaheads = true\n"}[c.Rng.Intn(7)]
			}
			text = g.TM(fmt.Sprintf("g%d", i), o)
		}
		s := seed{fmt.Sprintf("gen%d", i), text, false}
		add(c22Input{Name: s.name, Kind: "generated", Text: text})
		mutants("mut-generated", s, 2)
	}
	nFeat := c.N(30, 800)
	for i := 0; i < nFeat; i++ {
		text, _ := c18RandGrammar(c.Rng, fmt.Sprintf("f%d", i))
		s := seed{fmt.Sprintf("feat%d", i), text, false}
		add(c22Input{Name: s.name, Kind: "feature", Text: text})
		mutants("mut-feature", s, 4)
	}
	for i, n := 0, c.N(180, 9000); i < n; i++ {
		s := seed{fmt.Sprintf("chaos%d", i), c22ChaosGrammar(c.Rng, fmt.Sprintf("c%d", i)), false}
		add(c22Input{Name: s.name, Kind: "chaos", Text: s.text})
		mutants("mut-chaos", s, 1)
	}
	for i, n := 0, c.N(60, 1500); i < n; i++ {
		add(c22Input{Name: fmt.Sprintf("opts%d", i), Kind: "options", Text: c22OptionGrammar(c.Rng)})
	}
	for i, n := 0, c.N(60, 1500); i < n; i++ {
		t, pat, o := c22RegexGrammar(c.Rng)
		add(c22Input{Name: fmt.Sprintf("regex%d", i), Kind: "regex", Text: t, Pattern: pat, PatOpts: o, IsMapErr: true})
	}
	// diagnostics aimed at: one or more inputs per diagnostic site, optional sub-nodes absent/present, both orders
	for i, d := range c22DirectedTable() {
		s := seed{fmt.Sprintf("aim%d", i), d.text, false}
		add(c22Input{Name: s.name, Kind: "directed", Text: d.text, Aim: d.aim})
		mutants("mut-directed", s, c.N(1, 8))
	}
	for i, d := range c22LexemePairs(c.Rng, c.N(60, 1200)) {
		add(c22Input{Name: fmt.Sprintf("lexpair%d", i), Kind: "directed-lexeme-pair", Text: d.text})
	}
	for i, d := range c22NontermPairs(c.Rng, c.N(40, 800)) {
		add(c22Input{Name: fmt.Sprintf("ntpair%d", i), Kind: "directed-nonterm-pair", Text: d.text})
	}
	// degenerate inputs
	for i, t := range []string{"", "\n", " ", "language", "language x(go);", "language x(go);\n:: lexer\n", "language x(go);\n:: parser\n", "language x(go);\n:: lexer\n:: parser\n",
		"language x(go);\n:: lexer\n:: parser\n%input S;\n", "language x(go);\n:: lexer\n:: parser\nS : ;\n", "language x(go);\n:: lexer\na: /a/\n:: parser\nS : S ;\n", "\xef\xbb\xbflanguage x(go);\n:: lexer\na: /a/\n",
		"language x(go);\r\n:: lexer\r\na: /a/\r\n:: parser\r\nS : a ;\r\n", "language x(go);\n:: lexer\na: /a/\n:: parser\n%input S, S;\nS : a ;\n", "language x(go);\n:: lexer\n<*> a: /a/\n<foo> b: /b/\n",
		"language x(cc);\nflexMode = true\n:: lexer\na: /a/\nb: /bb/\n'+': /+/\n", "language x(go);\neventBased = true\n:: lexer\na: /a/\n:: parser\n%input S;\nS -> S : a -> S ;\n",
		"language x(go);\n:: lexer\na: /a/\n:: parser\n%generate s = set(s);\nS : set(s) ;\n", "language x(go);\n:: lexer\na: /a/\n:: parser\n%flag F = 5;\nS<F> : [F] a ;\n", "language x(go);\n:: lexer\na: /a/\n:: parser\n%lookahead flag L;\nS : (?= S) a ;\n",
		"language x(go);\n:: lexer\na: /a/\nerror:\n:: parser\nS : error ;\n", "language x(go);\n:: lexer\neoi: /x/\ninvalid_token: /y/\n:: parser\nS : eoi invalid_token ;\n", "language x(go);\n:: lexer\na {int}: /a/\na {string}: /b/\na: /c/ (space)\n",
	} {
		add(c22Input{Name: fmt.Sprintf("edge%d", i), Kind: "edge", Text: t})
	}

	// ---- run (heavy inputs first so that they overlap with the rest)
	order := make([]int, len(inputs))
	for i := range order {
		order[i] = i
	}
	sort.SliceStable(order, func(a, b int) bool { return inputs[order[a]].Heavy && !inputs[order[b]].Heavy })
	results := make([]c22Res, len(inputs))
	limitFor := func(in c22Input) time.Duration {
		if in.Heavy {
			return 240 * time.Second
		}
		return 40 * time.Second
	}
	jobs := make(chan int)
	var wg sync.WaitGroup
	var restarts int
	var mu sync.Mutex
	var slow []string
	for w := 0; w < nWorkers; w++ {
		wg.Add(1)
		go func() {
			defer wg.Done()
			wk := &c22Worker{self: self}
			for i := range jobs {
				results[i] = wk.run(i, c22Path, inputs[i].Text, limitFor(inputs[i]))
				if results[i].CrashKind == "timeout" {
					// slow or hanging? one more try with six times the limit decides
					first := results[i].Millis
					results[i] = wk.run(i, c22Path, inputs[i].Text, 6*limitFor(inputs[i]))
					if results[i].CrashKind != "timeout" {
						mu.Lock()
						slow = append(slow, fmt.Sprintf("%s: no result after %d ms, finished in %d ms on the second try", inputs[i].Name, first, results[i].Millis))
						mu.Unlock()
					}
				}
			}
			wk.stop()
			mu.Lock()
			restarts += wk.Starts
			mu.Unlock()
		}()
	}
	for _, i := range order {
		jobs <- i
	}
	close(jobs)
	wg.Wait()
	c.Extra["child_starts"] = restarts
	sort.Strings(slow)
	for _, sl := range slow {
		c.Count("slow-input")
		if len(c.Notes) < 8 {
			c.Notes = append(c.Notes, "slow input "+sl)
		}
	}
	c.Extra["inputs"] = len(inputs)

	if d := os.Getenv("C22_DUMP"); d != "" { // debugging aid: every input with its outcome
		os.MkdirAll(d, 0o755)
		for i, in := range inputs {
			j, _ := json.Marshal(results[i])
			os.WriteFile(filepath.Join(d, fmt.Sprintf("%05d-%s-%s.tm", i, in.Kind, results[i].Kind)), []byte(in.Text+"\n\n### "+in.Name+"\n### "+string(j)+"\n"), 0o644)
		}
	}

	// ---- evaluate
	type crashInfo struct {
		res   c22Res
		input c22Input
		n     int
	}
	crashes := map[string]*crashInfo{}
	var crashOrder []string
	noPos := 0
	var slowest int64
	formats := c22ErrorSites(repo)
	// violations of the diagnostic oracle, one per (kind, diagnostic format), smallest input
	type diagViol struct{ what, text string }
	diagViols := map[string]*diagViol{}
	var diagOrder []string
	diagViolate := func(kind string, e c22Err, what, text string) {
		key := kind + "|" + regexp.MustCompile(`'[^']*'|"[^"]*"|\d+`).ReplaceAllString(e.Msg, "_")
		if ef := c22Attribute(formats, e.Msg); ef != nil {
			key = kind + "|" + ef.Format
		}
		c.Count(kind)
		if dv, ok := diagViols[key]; ok {
			if len(text) < len(dv.text) {
				dv.what, dv.text = what, text
			}
			return
		}
		diagViols[key] = &diagViol{what, text}
		diagOrder = append(diagOrder, key)
	}
	var directedMiss []string
	for i, in := range inputs {
		res := results[i]
		if res.Millis > slowest {
			slowest = res.Millis
		}
		text := in.Text
		h := fmt.Sprintf("%x", sha256.Sum256([]byte(text)))[:12]
		c.Count("input-" + in.Kind)
		id := fmt.Sprintf("%s#%s", regexp.MustCompile(`[^A-Za-z0-9_.:+#\[\]-]`).ReplaceAllString(in.Name, "_"), h)
		switch {
		case res.CrashKind != "":
			c.Count("outcome-crash")
			isKnown := false
			for _, k := range known {
				if k.Active && k.Match(res) {
					isKnown = true
					c.Count("known-class-" + k.Token)
				}
			}
			if isKnown {
				continue // reported through the witness
			}
			c.Case(fmt.Sprintf("outcome %s crash", id), "crash:"+res.CrashKind, "crash:"+h)
			b := c22Bucket(res)
			if ci, ok := crashes[b]; ok {
				ci.n++
				if len(text) < len(ci.input.Text) {
					ci.res, ci.input = res, in
				}
			} else {
				crashes[b] = &crashInfo{res, in, 1}
				crashOrder = append(crashOrder, b)
			}
			continue
		case res.Kind == "ok":
			c.Count("outcome-ok")
			if res.Gen != "" {
				c.Count("generate-" + res.Gen)
			}
			c.Case(fmt.Sprintf("outcome %s ok", id), "total", "ok:"+h)
			continue
		case res.Kind == "othererr":
			c.Count("outcome-other-error")
			c.Violate("compiler.Compile returned an error that is neither a status.Status nor a tm.SyntaxError: "+res.Msg, text)
			continue
		case res.Kind == "synerr":
			c.Count("outcome-syntax-error")
			c.Case(fmt.Sprintf("outcome %s synerr", id), "total", "")
			e := res.Errs[0]
			if e.Off < 0 || e.Off > e.End || e.End > len(text) {
				c.Violate(fmt.Sprintf("tm.SyntaxError range [%d,%d) is not inside the text (%d bytes)", e.Off, e.End, len(text)), text)
				continue
			}
			if l, _ := c22LineCol(text, e.Off); l != e.Line {
				c.Count("syntax-error-line-mismatch")
				c.Violate(fmt.Sprintf("tm.SyntaxError reports line %d for offset %d, which is on line %d", e.Line, e.Off, l), text)
			}
			c.Case(fmt.Sprintf("synerr %d %s %d %d", len(text), hexs([]byte(text[:e.End])), e.Off, e.End), strconv.Itoa(e.Line), "")
			continue
		}
		// located diagnostics
		c.Count("outcome-errors")
		c.Count(fmt.Sprintf("errors-per-input-%s", c22Log2Bucket(len(res.Errs))))
		c.Case(fmt.Sprintf("outcome %s errors", id), "total", "errors:"+h)
		var offs, ends, lines, cols []int
		maxEnd := 0
		aimed := in.Aim == ""
		for _, e := range res.Errs {
			if ef := c22Attribute(formats, e.Msg); ef != nil {
				ef.Hits++
				if in.Aim != "" && strings.Contains(ef.Format, in.Aim) {
					aimed = true
				}
			} else {
				c.Count("diagnostic-of-no-inventoried-site")
			}
			if in.Aim != "" && strings.Contains(e.Msg, in.Aim) {
				aimed = true
			}
			switch {
			case e.File == "" && e.Off == 0 && e.End == 0 && e.Line == 0 && e.Col == 0:
				noPos++
				diagViolate("diagnostic-without-location", e, fmt.Sprintf("diagnostic %q has no location: empty file name, range [0,0), line:column 0:0 (offset 0 is at 1:1) — it is anchored at a syntax node that is absent", e.Msg), text)
			case e.File != c22Path:
				diagViolate("diagnostic-wrong-file", e, fmt.Sprintf("diagnostic %q carries file name %q instead of the path given to Compile", e.Msg, e.File), text)
			case e.Off < 0 || e.Off > e.End || e.End > len(text):
				diagViolate("diagnostic-out-of-range", e, fmt.Sprintf("diagnostic %q has range [%d,%d) outside the text (%d bytes)", e.Msg, e.Off, e.End, len(text)), text)
			case e.Line < 1 || e.Col < 1:
				diagViolate("diagnostic-line-column-mismatch", e, fmt.Sprintf("diagnostic %q reports %d:%d; lines and columns are 1-based", e.Msg, e.Line, e.Col), text)
			default:
				if l, col := c22LineCol(text, e.Off); l != e.Line || col != e.Col {
					diagViolate("diagnostic-line-column-mismatch", e, fmt.Sprintf("diagnostic %q reports %d:%d for offset %d, which is at %d:%d", e.Msg, e.Line, e.Col, e.Off, l, col), text)
				}
			}
			offs, ends, lines, cols = append(offs, e.Off), append(ends, e.End), append(lines, e.Line), append(cols, e.Col)
			if e.End > maxEnd {
				maxEnd = e.End
			}
		}
		if in.Kind == "directed" {
			if aimed {
				c.Count("directed-reached-its-site")
			} else {
				c.Count("directed-missed-its-site")
				directedMiss = append(directedMiss, in.Name+" ("+in.Aim+")")
			}
		}
		if len(offs) > 0 {
			if maxEnd > len(text) || maxEnd < 0 {
				maxEnd = len(text)
			}
			for _, o := range offs {
				if o > maxEnd && o <= len(text) {
					maxEnd = o
				}
			}
			if len(text) <= 8192 {
				maxEnd = len(text) // small inputs are sent whole (the case line then identifies the grammar)
			}
			c.Case(fmt.Sprintf("diag %d %s %s %s", len(text), hexs([]byte(text[:maxEnd])), c22Ints(offs), c22Ints(ends)), c22Ints(lines)+" "+c22Ints(cols), "")
		}
		if in.IsMapErr {
			c22MapErr(c, in, res)
		}
	}
	c.Extra["slowest_input_ms"] = slowest
	c.Extra["errors_without_position"] = noPos
	for _, key := range diagOrder {
		dv := diagViols[key]
		c.Violate(dv.what, dv.text)
	}
	// directed inputs whose outcome was not "errors" at all
	for i, in := range inputs {
		if in.Kind == "directed" && results[i].Kind != "errors" && results[i].CrashKind == "" {
			c.Count("directed-missed-its-site")
			directedMiss = append(directedMiss, in.Name+" ("+in.Aim+": outcome "+results[i].Kind+")")
		}
	}
	sort.Strings(directedMiss)
	c.Extra["directed_missed"] = directedMiss
	// which diagnostic sites were reached
	var unhit []string
	nSites, nSitesHit := 0, 0
	for _, ef := range formats {
		nSites += len(ef.Sites)
		if ef.Hits > 0 {
			nSitesHit += len(ef.Sites)
			c.Count("diagnostic-formats-reached")
		} else {
			c.Count("diagnostic-formats-never-reached")
			unhit = append(unhit, strings.Join(ef.Sites, ",")+" "+strconv.Quote(ef.Format))
		}
	}
	c.Extra["diagnostic_formats"] = len(formats)
	c.Extra["diagnostic_sites"] = nSites
	c.Extra["diagnostic_sites_in_reached_formats"] = nSitesHit
	c.Extra["diagnostic_formats_never_reached"] = unhit

	// ---- report new crashes (smallest input per signature, shrunk)
	shrinker := &c22Worker{self: self}
	for _, b := range crashOrder {
		ci := crashes[b]
		text := ci.input.Text
		if len(text) < 40000 && ci.res.CrashKind != "timeout" {
			text = c22Shrink(shrinker, text, func(r c22Res) bool { return r.CrashKind != "" && c22Bucket(r) == b }, c.N(120, 400))
		}
		where := ci.res.Where
		if where != "" {
			where = " in " + where
		}
		c.Violate(fmt.Sprintf("compiler crashed (%s during %s%s): %s [%d input(s) of this run, first: %s]", ci.res.CrashKind, ci.res.Stage, where, ci.res.Msg, ci.n, ci.input.Name), text)
	}
	shrinker.stop()
	c.Extra["crash_signatures"] = len(crashOrder)
}

func c22Log2Bucket(n int) string {
	switch {
	case n <= 1:
		return "1"
	case n <= 3:
		return "2-3"
	case n <= 10:
		return "4-10"
	}
	return "11+"
}

func c22Ints(l []int) string {
	if len(l) == 0 {
		return "-"
	}
	return ints(l)
}

// c22MapErr ties `mapRegexError` to parsePattern: the harness parses the pattern with the real
// lex.ParseRegexp, locates the literal in the text and compares the range reported by Compile.
func c22MapErr(c *Ctx, in c22Input, res c22Res) {
	_, err := lex.ParseRegexp(in.Pattern, in.PatOpts)
	pe, ok := err.(lex.ParseError)
	if !ok {
		c.Count("regex-valid")
		return
	}
	lit := "/" + in.Pattern + "/"
	off := strings.Index(in.Text, lit)
	if off < 0 {
		return
	}
	line, col := c22LineCol(in.Text, off)
	for _, e := range res.Errs {
		if e.Msg == pe.Error() && e.Off >= off && e.End <= off+len(lit) {
			c.Count("regex-error-mapped")
			if pe.Offset < pe.EndOffset {
				c.Count("regex-error-range-nonempty")
			} else {
				c.Count("regex-error-range-empty")
			}
			c.Case(fmt.Sprintf("maperr %d %d %d %d %d %d %d", off, off+len(lit), line, col, len(in.Pattern), pe.Offset, pe.EndOffset),
				fmt.Sprintf("%d %d %d %d", e.Off, e.End, e.Line, e.Col), "maperr:"+in.Pattern)
			return
		}
	}
	c.Count("regex-error-not-found")
	found := false
	for _, e := range res.Errs {
		if e.Msg == pe.Error() {
			found = true
			c.Violate(fmt.Sprintf("regexp diagnostic %q has range [%d,%d), outside the pattern literal [%d,%d)", e.Msg, e.Off, e.End, off, off+len(lit)), in.Text)
		}
	}
	if !found && len(c.Notes) < 8 {
		c.Notes = append(c.Notes, fmt.Sprintf("pattern /%s/: lex.ParseRegexp fails (%v) but Compile did not report it", in.Pattern, pe))
	}
}

// c22Shrink: greedy delta debugging over lines, then over tokens; at most `budget` runs.
func c22Shrink(w *c22Worker, text string, same func(c22Res) bool, budget int) string {
	deadline := time.Now().Add(time.Duration(budget/2) * time.Second)
	try := func(t string) bool {
		if budget <= 0 || time.Now().After(deadline) {
			budget = 0
			return false
		}
		budget--
		return same(w.run(-2, c22Path, t, 20*time.Second))
	}
	pass := func(parts []string, sep string) []string {
		for chunk := len(parts) / 2; chunk >= 1; chunk /= 2 {
			for i := 0; i+chunk <= len(parts) && budget > 0; {
				cand := append(append([]string(nil), parts[:i]...), parts[i+chunk:]...)
				if try(strings.Join(cand, sep)) {
					parts = cand
				} else {
					i += chunk
				}
			}
		}
		return parts
	}
	lines := pass(strings.Split(text, "\n"), "\n")
	text = strings.Join(lines, "\n")
	if budget > 0 && len(text) < 4000 {
		toks := pass(c22Tokens(text), "")
		text = strings.Join(toks, "")
	}
	return text
}

var c22SiteRE = regexp.MustCompile(`⟨"([^"]*)", "([^"]*)", "([^"]*)", (\d+), "([^"]*)", "((?:[^"\\]|\\.)*)", "([^"]*)"⟩`)

// c22Sites runs tools/factgen on the tree under test (private output file) and emits one case per crash site.
func c22Sites(c *Ctx, repo string) {
	root := ""
	for _, start := range []string{c.Out, func() string { s, _ := os.Executable(); return s }(), func() string { s, _ := os.Getwd(); return s }()} {
		d, _ := filepath.Abs(start)
		for d != "/" && d != "." && d != "" {
			if _, err := os.Stat(filepath.Join(d, "tools", "factgen", "main.go")); err == nil {
				root = d
				break
			}
			d = filepath.Dir(d)
		}
		if root != "" {
			break
		}
	}
	if root == "" {
		c.Notes = append(c.Notes, "tools/factgen not found from the output directory: site cases skipped (the Lean obligations still check the inventory)")
		return
	}
	tmp, err := os.MkdirTemp("", "tmh-c22-")
	if err != nil {
		return
	}
	defer os.RemoveAll(tmp)
	out := filepath.Join(tmp, "Generated.lean")
	cmd := exec.Command("go", "run", ".", "-repo", repo, "-out", out, "-force")
	cmd.Dir = filepath.Join(root, "tools", "factgen")
	if b, err := cmd.CombinedOutput(); err != nil {
		c.Notes = append(c.Notes, "tools/factgen failed: "+string(b))
		return
	}
	b, err := os.ReadFile(out)
	if err != nil {
		return
	}
	text := string(b)
	i := strings.Index(text, "def fatalSites ")
	if i < 0 {
		return
	}
	body := text[i:]
	if j := strings.Index(body, "\n\n"); j >= 0 {
		body = body[:j]
	}
	for _, m := range c22SiteRE.FindAllStringSubmatch(body, -1) {
		c.Case(fmt.Sprintf("site %s %s %s %s %s %s", m[1], m[2], m[3], m[4], m[5], m[7]), "classified", "site:"+m[1]+":"+m[2]+":"+m[4])
		c.Count("crash-sites")
	}
}
