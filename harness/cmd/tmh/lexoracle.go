package main

// A tokenizer computed from the TEXT of the lexer rules alone, independent of /repo (no lex.Compile,
// no lex.ParseRegexp, no charset code): a small parser for the regular-expression subset the sampled
// grammars use, Brzozowski derivatives over the decoded characters (runes, or bytes with scanBytes),
// own case folding (unicode.SimpleFold orbits; ASCII letters only in byte mode). It is the
// "documented meaning of the rules" oracle of C11: longest match among the rules active in the start
// condition, ties by priority (a keyword beats its (class) rule), space rules skipped, no match ->
// invalid_token over the characters consumed while some rule was still viable (one character at
// least), EOI at the end.

import (
	"fmt"
	"strconv"
	"strings"
	"unicode"
	"unicode/utf8"
)

type rxKind int

const (
	rxEmpty rxKind = iota // the empty language
	rxEps                 // the empty string
	rxSetK                // one character of a set
	rxCat
	rxAlt
	rxStar
	rxEOIK // the end-of-input pseudo symbol
)

type rxSet struct {
	neg    bool
	ranges [][2]rune
	tables []*unicode.RangeTable
	fold   bool
	ascii  bool // byte mode: only ASCII letters fold
}

func (s *rxSet) rawHas(r rune) bool {
	for _, rg := range s.ranges {
		if rg[0] <= r && r <= rg[1] {
			return true
		}
	}
	for _, t := range s.tables {
		if unicode.Is(t, r) {
			return true
		}
	}
	return false
}

func (s *rxSet) has(r rune) bool {
	in := s.rawHas(r)
	if !in && s.fold && (!s.ascii || r < 0x80) {
		for f := unicode.SimpleFold(r); f != r; f = unicode.SimpleFold(f) {
			if s.rawHas(f) {
				in = true
				break
			}
		}
	}
	return in != s.neg
}

type rxNode struct {
	kind rxKind
	set  *rxSet
	a, b *rxNode
}

var (
	rxEmptyN = &rxNode{kind: rxEmpty}
	rxEpsN   = &rxNode{kind: rxEps}
	rxEoiN   = &rxNode{kind: rxEOIK}
)

func rxMkCat(a, b *rxNode) *rxNode {
	if a.kind == rxEmpty || b.kind == rxEmpty {
		return rxEmptyN
	}
	if a.kind == rxEps {
		return b
	}
	if b.kind == rxEps {
		return a
	}
	return &rxNode{kind: rxCat, a: a, b: b}
}

func rxMkAlt(a, b *rxNode) *rxNode {
	if a.kind == rxEmpty {
		return b
	}
	if b.kind == rxEmpty {
		return a
	}
	if a == b {
		return a
	}
	return &rxNode{kind: rxAlt, a: a, b: b}
}

func rxMkStar(a *rxNode) *rxNode {
	if a.kind == rxEmpty || a.kind == rxEps {
		return rxEpsN
	}
	if a.kind == rxStar {
		return a
	}
	return &rxNode{kind: rxStar, a: a}
}

func (n *rxNode) nullable() bool {
	switch n.kind {
	case rxEps, rxStar:
		return true
	case rxCat:
		return n.a.nullable() && n.b.nullable()
	case rxAlt:
		return n.a.nullable() || n.b.nullable()
	}
	return false
}

// rxEOISym is the pseudo character passed to deriv for the end of the input.
const rxEOISym rune = -1

func (n *rxNode) deriv(c rune) *rxNode {
	switch n.kind {
	case rxSetK:
		if c != rxEOISym && n.set.has(c) {
			return rxEpsN
		}
		return rxEmptyN
	case rxEOIK:
		if c == rxEOISym {
			return rxEpsN
		}
		return rxEmptyN
	case rxCat:
		d := rxMkCat(n.a.deriv(c), n.b)
		if n.a.nullable() {
			return rxMkAlt(d, n.b.deriv(c))
		}
		return d
	case rxAlt:
		return rxMkAlt(n.a.deriv(c), n.b.deriv(c))
	case rxStar:
		return rxMkCat(n.a.deriv(c), n)
	}
	return rxEmptyN
}

// ---- parser ----

type rxParser struct {
	src   []rune
	pos   int
	bytes bool
	fold  bool
	err   error
}

func (p *rxParser) fail(format string, args ...any) {
	if p.err == nil {
		p.err = fmt.Errorf(format, args...)
	}
}

func (p *rxParser) peek() rune {
	if p.pos < len(p.src) {
		return p.src[p.pos]
	}
	return -1
}

func (p *rxParser) single(r rune) *rxNode {
	return &rxNode{kind: rxSetK, set: &rxSet{ranges: [][2]rune{{r, r}}, fold: p.fold, ascii: p.bytes}}
}

// literal character of the pattern text
func (p *rxParser) literal(r rune) *rxNode {
	if p.bytes && r >= 0x80 {
		// matched as its UTF-8 bytes, never folded
		var n *rxNode = rxEpsN
		for _, b := range []byte(string(r)) {
			n = rxMkCat(n, &rxNode{kind: rxSetK, set: &rxSet{ranges: [][2]rune{{rune(b), rune(b)}}}})
		}
		return n
	}
	return p.single(r)
}

func rxHex(s []rune) (rune, bool) {
	v, err := strconv.ParseUint(string(s), 16, 32)
	return rune(v), err == nil
}

// escape parses after the backslash: either one character or a Unicode table.
func (p *rxParser) escape() (r rune, tab *unicode.RangeTable) {
	c := p.peek()
	p.pos++
	switch c {
	case 't':
		return '\t', nil
	case 'n':
		return '\n', nil
	case 'r':
		return '\r', nil
	case 'f':
		return '\f', nil
	case 'v':
		return '\v', nil
	case 'a':
		return '\a', nil
	case 'x', 'u':
		n := 2
		if c == 'u' {
			n = 4
		}
		if p.pos+n > len(p.src) {
			p.fail("short escape")
			return 0, nil
		}
		v, ok := rxHex(p.src[p.pos : p.pos+n])
		if !ok {
			p.fail("bad hex escape")
		}
		p.pos += n
		return v, nil
	case 'p':
		if p.peek() != '{' {
			p.fail("unsupported \\p")
			return 0, nil
		}
		end := p.pos
		for end < len(p.src) && p.src[end] != '}' {
			end++
		}
		name := string(p.src[p.pos+1 : end])
		p.pos = end + 1
		if t, ok := unicode.Categories[name]; ok {
			return 0, t
		}
		p.fail("unsupported property %s", name)
		return 0, nil
	case -1:
		p.fail("dangling backslash")
		return 0, nil
	}
	if c < 0x80 && (c >= 'a' && c <= 'z' || c >= 'A' && c <= 'Z' || c >= '0' && c <= '9') {
		p.fail("unsupported escape \\%c", c)
		return 0, nil
	}
	return c, nil
}

func (p *rxParser) class() *rxNode {
	set := &rxSet{fold: p.fold, ascii: p.bytes}
	if p.peek() == '^' {
		set.neg = true
		p.pos++
	}
	for {
		c := p.peek()
		if c == -1 {
			p.fail("unterminated class")
			return rxEmptyN
		}
		if c == ']' {
			p.pos++
			break
		}
		p.pos++
		lo := c
		if c == '\\' {
			r, tab := p.escape()
			if tab != nil {
				set.tables = append(set.tables, tab)
				continue
			}
			lo = r
		} else if c == '.' || c == '[' {
			p.fail("unsupported character in class")
			return rxEmptyN
		}
		hi := lo
		if p.peek() == '-' && p.pos+1 < len(p.src) && p.src[p.pos+1] != ']' {
			p.pos++
			h := p.peek()
			p.pos++
			if h == '\\' {
				r, tab := p.escape()
				if tab != nil {
					p.fail("table as range end")
				}
				h = r
			}
			hi = h
		}
		set.ranges = append(set.ranges, [2]rune{lo, hi})
	}
	return &rxNode{kind: rxSetK, set: set}
}

func (p *rxParser) atom() *rxNode {
	c := p.peek()
	p.pos++
	switch c {
	case '(':
		if p.peek() == '?' {
			p.fail("unsupported group flags")
		}
		n := p.alt()
		if p.peek() != ')' {
			p.fail("missing )")
		}
		p.pos++
		return n
	case '[':
		return p.class()
	case '.':
		return &rxNode{kind: rxSetK, set: &rxSet{neg: true, ranges: [][2]rune{{'\n', '\n'}}}}
	case '\\':
		r, tab := p.escape()
		if tab != nil {
			// a standalone property is not folded by the real parser; the categories used here are
			// closed under simple case folding except for marks, which the class form covers
			return &rxNode{kind: rxSetK, set: &rxSet{tables: []*unicode.RangeTable{tab}}}
		}
		if p.bytes && r >= 0x80 {
			return &rxNode{kind: rxSetK, set: &rxSet{ranges: [][2]rune{{r, r}}}}
		}
		return p.single(r)
	case '{':
		if strings.HasPrefix(string(p.src[p.pos:]), "eoi}") {
			p.pos += 4
			return rxEoiN
		}
		p.fail("unsupported {")
		return rxEmptyN
	case '*', '+', '?', '|', ')', -1:
		p.fail("unexpected %q", c)
		return rxEmptyN
	}
	return p.literal(c)
}

func (p *rxParser) repeat() *rxNode {
	n := p.atom()
	for {
		switch p.peek() {
		case '*':
			p.pos++
			n = rxMkStar(n)
		case '+':
			p.pos++
			n = rxMkCat(n, rxMkStar(n))
		case '?':
			p.pos++
			n = rxMkAlt(rxEpsN, n)
		case '{':
			if !strings.HasPrefix(string(p.src[p.pos:]), "{eoi}") {
				p.fail("unsupported quantifier")
				return n
			}
			return n
		default:
			return n
		}
	}
}

func (p *rxParser) cat() *rxNode {
	var n *rxNode = rxEpsN
	for p.err == nil {
		c := p.peek()
		if c == -1 || c == '|' || c == ')' {
			break
		}
		n = rxMkCat(n, p.repeat())
	}
	return n
}

func (p *rxParser) alt() *rxNode {
	n := p.cat()
	for p.err == nil && p.peek() == '|' {
		p.pos++
		n = rxMkAlt(n, p.cat())
	}
	return n
}

func rxParse(pat string, bytes, fold bool) (*rxNode, error) {
	p := &rxParser{src: []rune(pat), bytes: bytes, fold: fold}
	n := p.alt()
	if p.err == nil && p.pos != len(p.src) {
		p.fail("trailing input at %d", p.pos)
	}
	return n, p.err
}

// ---- tokenizer ----

type rxRule struct {
	name  string
	re    *rxNode
	scs   []int
	prec  int
	space bool
}

type rxLexer struct {
	g     *lexGram
	rules []rxRule
}

func buildRxLexer(g *lexGram) (*rxLexer, error) {
	l := &rxLexer{g: g}
	for _, r := range g.Rules {
		re, err := rxParse(r.pat, g.Opts.ScanBytes, g.Opts.Fold)
		if err != nil {
			return nil, fmt.Errorf("%s: %v", r.name, err)
		}
		prec := 0
		if r.prio != "" {
			prec, _ = strconv.Atoi(r.prio)
		}
		prec *= 2
		if r.attr == "(class)" {
			prec--
		}
		l.rules = append(l.rules, rxRule{name: r.name, re: re, scs: g.scIndexes(r.sc), prec: prec, space: r.attr == "(space)"})
	}
	return l, nil
}

// tokenize returns the token sequence the rules define, or ok=false when two different tokens tie
// (such grammars are rejected by the compiler; the oracle does not judge them).
func (l *rxLexer) tokenize(state int, text string, limit int) (ret []lexNamedTok, ok bool) {
	off := 0
	if !l.g.Opts.NoBOM && strings.HasPrefix(text, "\xef\xbb\xbf") {
		off = 3
	}
	var active []int
	for i, r := range l.rules {
		for _, sc := range r.scs {
			if sc == state {
				active = append(active, i)
				break
			}
		}
	}
	for len(ret) < limit {
		if off >= len(text) {
			// rules that match at the very end through {eoi} alone are not sampled
			return append(ret, lexNamedTok{"eoi", off, off}), true
		}
		cur := make([]*rxNode, len(active))
		for k, i := range active {
			cur[k] = l.rules[i].re
		}
		best, bestEnd, bestPrec, tie := -1, -1, 0, false
		pos := off
		consumed := off // end of the last character consumed while some rule was viable
		accept := func(at int) {
			for k, n := range cur {
				if n.nullable() {
					r := l.rules[active[k]]
					switch {
					case at > bestEnd || (at == bestEnd && r.prec > bestPrec):
						best, bestEnd, bestPrec, tie = active[k], at, r.prec, false
					case at == bestEnd && r.prec == bestPrec && l.rules[best].name != r.name:
						tie = true
					}
				}
			}
		}
		for pos < len(text) {
			var c rune
			w := 1
			if l.g.Opts.ScanBytes {
				c = rune(text[pos])
			} else {
				c, w = utf8.DecodeRuneInString(text[pos:])
			}
			alive := false
			next := make([]*rxNode, len(cur))
			for k, n := range cur {
				next[k] = n.deriv(c)
				if next[k].kind != rxEmpty {
					alive = true
				}
			}
			if !alive {
				break
			}
			cur = next
			pos += w
			consumed = pos
			accept(pos)
		}
		if pos >= len(text) {
			// end of input: {eoi} may complete a match without consuming anything
			for k, n := range cur {
				cur[k] = n.deriv(rxEOISym)
			}
			accept(pos)
		}
		if tie {
			return ret, false
		}
		if best < 0 {
			end := consumed
			if end == off {
				if l.g.Opts.ScanBytes {
					end = off + 1
				} else {
					_, w := utf8.DecodeRuneInString(text[off:])
					end = off + w
				}
			}
			ret = append(ret, lexNamedTok{"invalid_token", off, end})
			off = end
			continue
		}
		if bestEnd == off {
			return ret, false // empty match ({eoi} only): not sampled
		}
		if !l.rules[best].space {
			ret = append(ret, lexNamedTok{l.rules[best].name, off, bestEnd})
		}
		off = bestEnd
	}
	return ret, true
}
