package main

// C20 part 2b: parser REUSE. One Parser value is initialised once and parses several inputs (a
// supported pattern, see the BenchmarkParser functions of the shipped parsers). State left behind by
// a parse that stopped on a syntax error (e.g. skipped tokens still pending) must not reach the
// listener stream of the next parse: the stream of the second parse has to be well nested within the
// second input and identical to the stream a fresh Parser reports.

import (
	"context"
	"fmt"
	"strings"

	"github.com/inspirer/textmapper/parsers/js"
	tmjson "github.com/inspirer/textmapper/parsers/json"
	tmtest "github.com/inspirer/textmapper/parsers/test"
	"github.com/inspirer/textmapper/parsers/tm"
)

func init() { c20Parts["reuse"] = c20Reuse }

// c20rParser is a long-lived parser: parse reports into *sink.
type c20rParser struct {
	parse func(ctx context.Context, src string) error
	sink  *[]c20Ev
	errs  *int
}

// c20rJsMode: entry point of the js parser used by the next parse (0 module, 1 type snippet, 2 expression snippet)
var c20rJsMode int

func c20rNew(name string) *c20rParser {
	sink := new([]c20Ev)
	errs := new(int)
	switch name {
	case "json":
		l := new(tmjson.Lexer)
		p := new(tmjson.Parser)
		p.Init(func(nt tmjson.NodeType, off, end int) { *sink = append(*sink, c20Ev{int(nt), off, end}) })
		return &c20rParser{func(ctx context.Context, src string) error { l.Init(src); return p.Parse(l) }, sink, errs}
	case "test":
		l := new(tmtest.Lexer)
		p := new(tmtest.Parser)
		p.Init(func(nt tmtest.NodeType, _ tmtest.NodeFlags, off, end int) { *sink = append(*sink, c20Ev{int(nt), off, end}) })
		return &c20rParser{func(ctx context.Context, src string) error { l.Init(src); return p.ParseTest(ctx, l) }, sink, errs}
	case "tm":
		lst := func(nt tm.NodeType, off, end int) { *sink = append(*sink, c20Ev{int(nt), off, end}) }
		s := new(tm.TokenStream)
		p := new(tm.Parser)
		p.Init(func(tm.SyntaxError) bool { *errs++; return true }, lst)
		return &c20rParser{func(ctx context.Context, src string) error { s.Init(src, lst); return p.ParseFile(ctx, s) }, sink, errs}
	case "js":
		lst := func(nt js.NodeType, off, end int) { *sink = append(*sink, c20Ev{int(nt), off, end}) }
		s := new(js.TokenStream)
		p := new(js.Parser)
		p.Init(func(js.SyntaxError) bool { *errs++; return true }, lst)
		return &c20rParser{func(ctx context.Context, src string) error {
			s.Init(src, lst)
			switch c20rJsMode {
			case 1:
				return p.ParseTypeSnippet(ctx, s)
			case 2:
				return p.ParseExpressionSnippet(ctx, s)
			}
			return p.ParseModule(ctx, s)
		}, sink, errs}
	}
	return nil
}

// skipped tokens (comments, invalid tokens) of each language and tokens that are likely to be a
// syntax error wherever they are put
var c20rSkipped = map[string][]string{
	"json": {"/* a long comment */", "/*c*/", "/* %d */", "%%%", "#", "@ @ @", "'"},
	"test": {"/* a long comment */", "/*c*/", "// line comment\n", "/* %d */", "Zabc\\u12", "Zq\\", "#"},
	"tm":   {"/* a long comment */", "# comment\n", "/* %d */", "'", "\"abc", "`"},
	"js":   {"/* a long comment */", "// comment\n", "/* %d */", "#!", "\\", "0x"},
}
var c20rBad = map[string][]string{
	"json": {"}", "]", ":", ",", "", "{ :", "]]"},
	"test": {"}", ")", "(", "", "..", ";;", "{ )"},
	"tm":   {"}", ")", "::", "", "%%", "= =", "|"},
	"js":   {"}", ")", "", "=>", "] ]", "..", "for ("},
}

func c20rBroken(c *Ctx, name string, m *c20sMut) string {
	base := m.seed()
	if c.Rng.Intn(3) == 0 {
		base = m.mutate()
	}
	if len(base) > 400 {
		base = base[:400]
	}
	cut := 0
	if len(base) > 0 {
		cut = c.Rng.Intn(len(base) + 1)
	}
	var sb strings.Builder
	sb.WriteString(base[:cut])
	for k := 1 + c.Rng.Intn(2); k > 0; k-- {
		sk := c20rSkipped[name][c.Rng.Intn(len(c20rSkipped[name]))]
		if strings.Contains(sk, "%d") {
			sk = fmt.Sprintf(sk, 0) // placeholder replaced by a long filler
			sk = strings.Replace(sk, "0", strings.Repeat("x", c.Rng.Intn(120)), 1)
		}
		sb.WriteString(" ")
		sb.WriteString(sk)
	}
	sb.WriteString(" ")
	sb.WriteString(c20rBad[name][c.Rng.Intn(len(c20rBad[name]))])
	if c.Rng.Intn(4) == 0 {
		sb.WriteString(base[cut:])
	}
	return sb.String()
}

func c20rEqual(a, b []c20Ev) bool {
	if len(a) != len(b) {
		return false
	}
	for i := range a {
		if a[i] != b[i] {
			return false
		}
	}
	return true
}

func c20Reuse(c *Ctx) {
	if c20sMuts == nil {
		return
	}
	restore := c20sQuietStderr() // a semantic action of parsers/test prints
	defer restore()
	n := c.N(1200, 20000)
	for _, name := range []string{"json", "test", "tm", "js"} {
		m := c20sMuts[name]
		if m == nil {
			continue
		}
		reused := c20rNew(name)
		budget := n
		if name == "tm" || name == "js" {
			budget = n / 4 // token-stream parsers reset their pending tokens in TokenStream.Init
		}
		timeouts := 0
		for i := 0; i < budget && timeouts < 3; i++ {
			var first string
			switch c.Rng.Intn(10) {
			case 0:
				first = m.mutate()
			case 1:
				first = m.random()
			default:
				first = c20rBroken(c, name, m)
			}
			second := m.seed()
			for try := 0; try < 3 && len(second) < len(first) && c.Rng.Intn(4) != 0; try++ {
				second = m.seed() // prefer a second input that reaches past the first one's tokens
			}
			if c.Rng.Intn(5) == 0 {
				second = m.mutate()
			}
			if len(second) > 3000 {
				second = second[:3000]
			}
			mode1, mode2 := 0, 0
			if name == "js" || name == "tm" {
				// also SHORT second inputs (shorter than what the stream remembers of the first one)
				switch c.Rng.Intn(6) {
				case 0:
					second = ""
				case 1:
					second = []string{"a", "x y", "1", " ", "a\nb"}[c.Rng.Intn(5)]
				}
			}
			if name == "js" {
				mode1, mode2 = c.Rng.Intn(3), c.Rng.Intn(3)
			}
			var evs2, evsF []c20Ev
			var err2, errF error
			firstFailed := false
			r := c20sGuard(func(ctx context.Context, _ *c20sRun) {
				*reused.sink = nil
				c20rJsMode = mode1
				firstFailed = reused.parse(ctx, first) != nil || *reused.errs > 0
				*reused.errs = 0
				*reused.sink = nil
				c20rJsMode = mode2
				err2 = reused.parse(ctx, second)
				evs2 = *reused.sink
				*reused.sink = nil
				fresh := c20rNew(name)
				errF = fresh.parse(ctx, second)
				evsF = *fresh.sink
			})
			desc := fmt.Sprintf("%s: one Parser and one TokenStream value, first input %q (entry %d), then second input %q (entry %d)", name, first, mode1, second, mode2)
			if r.panicked || r.timeout {
				if r.timeout {
					timeouts++
					c.Violate("reused shipped parser does not terminate", desc)
				} else {
					c.Violate("reused shipped parser panicked: "+r.panicVal, desc)
				}
				reused = c20rNew(name)
				continue
			}
			if firstFailed {
				c.Count("reuse " + name + ": second parse after a failed / recovered first parse")
			} else {
				c.Count("reuse " + name + ": second parse after a clean first parse")
			}
			if msg := c20Direct(evs2, len(second)); msg != "" {
				c.Violate("second parse of a reused Parser ("+name+"): "+msg, desc)
			}
			if !c20rEqual(evs2, evsF) || (err2 == nil) != (errF == nil) {
				c.Violate(fmt.Sprintf("state leaks between parses: a reused %s Parser reports %s (err=%v) on the second input, a fresh Parser reports %s (err=%v)", name, c20sShort(c20EvsStr(evs2)), err2, c20sShort(c20EvsStr(evsF)), errF), desc)
			}
			if firstFailed && i%40 == 0 && len(evs2) <= 400 {
				verdict := "nested"
				if c20Direct(evs2, len(second)) != "" {
					verdict = "not-nested"
				}
				c.Case(fmt.Sprintf("nest %d %s", len(second), c20EvsStr(evs2)), verdict, "reuse\x00"+name+"\x00"+first+"\x00"+second)
			}
		}
	}
}
