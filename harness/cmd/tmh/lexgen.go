package main

// Shared by C11 and C12: sampled lexer grammars, the batch runner for generated lexer packages
// (one scratch module under $TMPDIR, ONE go build, inputs over stdin), the protocol rendering of a
// compiled lexer for the Lean model (Model/DriverC11.lean), and helpers for the Go-side oracles.

import (
	"bufio"
	"bytes"
	"context"
	"fmt"
	"math/rand"
	"os"
	"os/exec"
	"path/filepath"
	"strconv"
	"strings"
	"time"
	"unicode/utf8"

	"github.com/inspirer/textmapper/grammar"
	"github.com/inspirer/textmapper/lex"
	"github.com/inspirer/textmapper/status"
)

// lexFirstWords keeps the first n words of a message (distribution keys).
func lexFirstWords(s string, n int) string {
	f := strings.Fields(s)
	if len(f) > n {
		f = f[:n]
	}
	return strings.Join(f, " ")
}

// lexIsASCII reports whether s consists of ASCII bytes only.
func lexIsASCII(s string) bool {
	for i := 0; i < len(s); i++ {
		if s[i] >= 0x80 {
			return false
		}
	}
	return true
}

// ---- lexer grammar generator ----

type lexOpts struct {
	TokenLine, TokenLineOffset, TokenColumn, ScanBytes, NonBacktracking, NoBOM, Fold bool
}

type lexRule struct {
	sc    string // "" or "<a, b> "
	name  string
	pat   string
	prio  string
	attr  string // "(space)" "(class)" ""
	code  string
	frags []string // texts that exercise the rule
}

type lexGram struct {
	Name   string
	Opts   lexOpts
	Decls  []string // %s / %x lines
	NState int
	// start conditions in declaration order (initial first) and whether each is inclusive (%s)
	SCNames   []string
	Inclusive []bool
	// number of pattern-less token declarations in front of the rules
	Predeclared int
	Rules       []lexRule
	Frags       []string
	Tags        []string // features, for the distribution
	// class of inputs the Go oracles must leave alone while a known defect is present
	NonASCIIKwBytes bool
}

func (g *lexGram) TM(forceRuleMode bool) string {
	var sb strings.Builder
	fmt.Fprintf(&sb, "language %s(go);\n\nlang = %q\npackage = \"gp/%s\"\n", g.Name, g.Name, g.Name)
	o := g.Opts
	if !o.TokenLine {
		sb.WriteString("tokenLine = false\n")
	}
	if o.TokenLineOffset {
		sb.WriteString("tokenLineOffset = true\n")
	}
	if o.TokenColumn {
		sb.WriteString("tokenColumn = true\n")
	}
	if o.ScanBytes {
		sb.WriteString("scanBytes = true\n")
	}
	if o.NonBacktracking {
		sb.WriteString("nonBacktracking = true\n")
	}
	if o.NoBOM {
		sb.WriteString("skipByteOrderMark = false\n")
	}
	if o.Fold {
		sb.WriteString("caseInsensitive = true\n")
	}
	sb.WriteString("\n:: lexer\n\n")
	for _, d := range g.Decls {
		sb.WriteString(d + "\n")
	}
	for i := 0; i < g.Predeclared; i++ {
		// tokens without a pattern: token ids and rule ids of the later lexemes differ
		fmt.Fprintf(&sb, "reserved%d:\n", i)
	}
	forced := false
	for _, r := range g.Rules {
		fmt.Fprintf(&sb, "%s%s: /%s/", r.sc, r.name, r.pat)
		if r.prio != "" {
			sb.WriteString(" " + r.prio)
		}
		if r.attr != "" {
			sb.WriteString(" " + r.attr)
		}
		code := r.code
		if forceRuleMode && !forced && r.attr == "" && code == "" {
			code = "{ }"
			forced = true
		}
		if code != "" {
			sb.WriteString(" " + code)
		}
		sb.WriteString("\n")
	}
	return sb.String()
}

var c11Keywords = []string{"if", "in", "int", "is", "for", "fn", "func", "else", "elif", "e", "do", "done", "a", "ab", "abc", "while", "when", "with", "x", "y", "xy", "yx", "return", "let", "var", "val", "nil", "not", "and", "or", "like", "skip", "task", "break", "ok", "select", "k", "s", "sk"}
var c11UniKeywords = []string{"été", "é", "для", "да", "中", "中文", "naïve", "ça", "ΑΒ", "😀"}

func pick[T any](r *rand.Rand, l []T) T { return l[r.Intn(len(l))] }

func genLexGram(r *rand.Rand, name string, hashBuggy bool) *lexGram {
	g := &lexGram{Name: name, NState: 1}
	o := &g.Opts
	o.TokenLine = r.Intn(5) != 0
	o.TokenColumn = r.Intn(2) == 0
	o.TokenLineOffset = r.Intn(6) == 0
	o.ScanBytes = r.Intn(4) == 0
	o.NoBOM = r.Intn(6) == 0
	o.Fold = r.Intn(4) == 0
	if o.Fold && r.Intn(2) == 0 {
		o.ScanBytes = true // scanBytes x caseInsensitive: ASCII-only folding
	}
	tag := func(s string) { g.Tags = append(g.Tags, s) }
	add := func(rl lexRule) {
		g.Rules = append(g.Rules, rl)
		g.Frags = append(g.Frags, rl.frags...)
	}

	// start conditions
	scs := []string{""}
	g.SCNames, g.Inclusive = []string{"initial"}, []bool{true}
	switch r.Intn(5) {
	case 4:
		// inclusive start conditions WITHOUT an explicit `initial` (it is implicitly the first one)
		if r.Intn(2) == 0 {
			g.Decls = append(g.Decls, "%s sa;")
			g.SCNames, g.Inclusive = []string{"initial", "sa"}, []bool{true, true}
			g.NState = 2
			scs = []string{"", "<sa> ", "<initial> ", "", "<*> "}
		} else {
			g.Decls = append(g.Decls, "%s sa, sb;")
			g.SCNames, g.Inclusive = []string{"initial", "sa", "sb"}, []bool{true, true, true}
			g.NState = 3
			scs = []string{"", "<sa> ", "<sb> ", "<initial, sb> ", "", "<*> "}
		}
		tag("inclusive-sc-implicit-initial")
	case 0:
		g.Decls = append(g.Decls, "%s initial, sa;")
		g.SCNames, g.Inclusive = []string{"initial", "sa"}, []bool{true, true}
		g.NState = 2
		scs = []string{"", "<sa> ", "<initial> ", "<initial, sa> ", "<*> "}
		tag("inclusive-sc")
	case 1:
		g.Decls = append(g.Decls, "%x xb;")
		g.SCNames, g.Inclusive = []string{"initial", "xb"}, []bool{true, false}
		g.NState = 2
		scs = []string{"", "<xb> ", "<initial, xb> ", "<*> ", "<xb> "}
		tag("exclusive-sc")
		if r.Intn(2) == 0 {
			g.Decls = append(g.Decls, "%s sc;")
			g.SCNames, g.Inclusive = []string{"initial", "xb", "sc"}, []bool{true, false, true}
			g.NState = 3
			scs = append(scs, "<sc> ", "<xb, sc> ")
		}
	}
	sc := func() string { return pick(r, scs) }

	if r.Intn(3) == 0 {
		g.Predeclared = 1 + r.Intn(3)
		tag("predeclared-tokens")
	}
	// whitespace
	switch r.Intn(5) {
	case 0:
		add(lexRule{sc: "<*> ", name: "ws", pat: `[ \t]+`, attr: "(space)", frags: []string{" ", "  ", "\t"}})
		add(lexRule{sc: "<*> ", name: "nl", pat: `\r?\n`, frags: []string{"\n", "\r\n"}})
	case 1:
		add(lexRule{name: "ws", pat: `[ \t\r\n]+`, attr: "(space)", frags: []string{" ", "\n", " \n "}})
	default:
		add(lexRule{sc: "<*> ", name: "ws", pat: `[ \t\r\n]+`, attr: "(space)", frags: []string{" ", "\n", "\n\n", " \n\t"}})
	}
	g.Frags = append(g.Frags, " ", "\n", " ", "\n")

	// comments
	if r.Intn(3) == 0 {
		attr := "(space)"
		if r.Intn(3) == 0 {
			attr = ""
		}
		add(lexRule{sc: sc(), name: "lcomment", pat: `\/\/[^\n]*`, attr: attr, frags: []string{"// c\n", "//", "//x"}})
		tag("line-comment")
	}
	if r.Intn(3) == 0 {
		add(lexRule{sc: sc(), name: "bcomment", pat: `\/\*([^*]|\*+[^*\/])*\*+\/`, attr: "(space)", frags: []string{"/* c */", "/*\n*/", "/* unterminated", "/**/", "/*/"}})
		tag("block-comment")
	}

	// identifiers + keywords
	nonASCIIKw := false
	idKind := r.Intn(10)
	withClass := r.Intn(4) != 0
	var idPat string
	var idFrags []string
	switch {
	case o.ScanBytes && idKind < 5:
		idPat = `[a-z\x80-\xff]+`
		idFrags = []string{"foo", "b", "zz", "é", "\xe9t\xe9", "\xff"}
		nonASCIIKw = true
	case o.ScanBytes:
		idPat = `[a-zA-Z_][a-zA-Z_0-9]*`
		idFrags = []string{"foo", "b", "A1", "_x"}
	case idKind < 3:
		idPat = `[a-zA-Z_][a-zA-Z_0-9]*`
		idFrags = []string{"foo", "b", "A1", "_x"}
	case idKind < 6:
		idPat = `[\p{L}_][\p{L}\p{Nd}_]*`
		idFrags = []string{"foo", "bär", "я", "中文x", "_1", "ǅ", "𝒳"}
		nonASCIIKw = true
		tag("unicode-class")
	case idKind < 8:
		idPat = `[a-zа-яéèçï]+`
		idFrags = []string{"foo", "для", "é", "naïve"}
		nonASCIIKw = true
	default:
		idPat = `[^\x00-\x40\[-\x60{-\x7f]+`
		idFrags = []string{"foo", "中", "😀", "é"}
		nonASCIIKw = true
		tag("negated-class")
	}
	idSC := sc()
	// several rules for the token `id` across start conditions: the (class) rule with its keywords in
	// <initial>, a second rule for the SAME token (plain / with code / another class rule) in another
	// start condition, where the keywords are not reserved
	otherID := ""
	otherKind := 0
	otherFirst := false
	if g.NState > 1 && r.Intn(2) == 0 {
		idSC = "<initial> "
		otherID = "<" + g.SCNames[1+r.Intn(g.NState-1)] + "> "
		otherKind = r.Intn(4)
		otherFirst = r.Intn(4) == 0
		tag("token-rules-across-start-conditions")
	}
	addOther := func() {
		pat := []string{`[a-z_][a-z_0-9\-]*`, `[a-z]+`, idPat}[r.Intn(3)]
		switch otherKind {
		case 0, 1:
			add(lexRule{sc: otherID, name: "id", pat: pat, frags: []string{"if", "else", "a-b", "x_1"}})
		case 2:
			add(lexRule{sc: otherID, name: "id", pat: pat, code: "{ $$ = 2 }", frags: []string{"if", "in", "a-b"}})
		default:
			add(lexRule{sc: otherID, name: "id", pat: pat, attr: "(class)", frags: []string{"if", "only", "a-b"}})
			add(lexRule{sc: otherID, name: "'only'", pat: "only", frags: []string{"only", "only1"}})
		}
	}
	if otherID != "" && otherFirst {
		addOther()
	}
	nKw := []int{0, 1, 2, 3, 5, 9, 12, 20}[r.Intn(8)]
	if otherID != "" && nKw == 0 {
		nKw = 3
	}
	var kws []string
	seen := map[string]bool{}
	for len(kws) < nKw {
		var kw string
		if nonASCIIKw && r.Intn(3) == 0 {
			kw = pick(r, c11UniKeywords)
		} else {
			kw = pick(r, c11Keywords)
		}
		if o.ScanBytes && hashBuggy && !lexIsASCII(kw) {
			continue // the class of fixes/C11-bytes-hash.diff: sampled only by the dedicated mirror grammar
		}
		if !seen[kw] {
			seen[kw] = true
			kws = append(kws, kw)
		}
	}
	if len(kws) == 0 || o.Fold {
		// a class rule without specialisations is rejected by the compiler; with caseInsensitive the
		// keyword patterns are no constants, so keywords stay ordinary rules above a low-priority id
		withClass = false
	}
	if withClass {
		add(lexRule{sc: idSC, name: "id", pat: idPat, attr: "(class)", frags: idFrags})
		tag("class-rule")
	} else {
		add(lexRule{sc: idSC, name: "id", pat: idPat, prio: "-1", frags: idFrags})
	}
	for _, kw := range kws {
		add(lexRule{sc: idSC, name: "'" + kw + "'", pat: reQuote(kw), frags: []string{kw, kw, kw + "x", strings.ToUpper(kw)}})
		if !lexIsASCII(kw) {
			tag("non-ascii-keyword")
			if o.ScanBytes {
				g.NonASCIIKwBytes = true
			}
		}
	}
	if len(kws) > 8 {
		tag("keywords>8")
	}
	if withClass && r.Intn(2) == 0 {
		// constant lexemes that START with a text the class rule matches and continue with characters it
		// does not: no specialisations of the class rule, they must stay rules of their own
		ext := [][2]string{{"a-b", `a-b`}, {"if+", `if\+`}, {"ab.cd", `ab\.cd`}, {"do!", `do!`}, {"e=", `e=`}, {"x1", `x1`}, {"in?", `in\?`}}
		r.Shuffle(len(ext), func(a, b int) { ext[a], ext[b] = ext[b], ext[a] })
		for _, e := range ext[:1+r.Intn(3)] {
			add(lexRule{sc: idSC, name: "'" + e[0] + "'", pat: e[1], frags: []string{e[0], e[0], e[0][:1], e[0][:len(e[0])-1], e[0] + "x"}})
		}
		tag("constants-extending-a-class-match")
	}
	if otherID != "" && !otherFirst {
		addOther()
	}

	// numbers
	switch r.Intn(4) {
	case 0:
		add(lexRule{sc: sc(), name: "num", pat: `[0-9]+`, frags: []string{"0", "42"}})
	case 1:
		add(lexRule{sc: sc(), name: "num", pat: `[0-9]+`, frags: []string{"0", "42"}})
		add(lexRule{sc: sc(), name: "float", pat: `[0-9]+\.[0-9]+([eE][+-]?[0-9]+)?`, frags: []string{"1.5", "1.", "2.5e", "2.5e+", "3.25e-7"}})
		tag("backtracking")
	case 2:
		// two rules, one token: forces rule ids (tmToken)
		s := sc()
		add(lexRule{sc: s, name: "num", pat: `[1-9][0-9]*`, frags: []string{"7", "42"}})
		add(lexRule{sc: s, name: "num", pat: `0x[0-9a-f]+`, frags: []string{"0x1f", "0x", "0"}})
		add(lexRule{sc: s, name: "zero", pat: `0`, frags: []string{"0"}})
		tag("shared-token")
	}

	// operators
	ops := [][]string{{"+", `\+`}, {"++", `\+\+`}, {"+=", `\+=`}, {".", `\.`}, {"...", `\.\.\.`}, {"-", `-`}, {"->", `->`}, {"-->", `-->`},
		{"<", `<`}, {"<<=", `<<=`}, {"(", `\(`}, {")", `\)`}, {"{", `\{`}, {"}", `\}`}, {"=", `=`}, {"==", `==`}, {"===", `===`}, {"/", `\/`}, {"*", `\*`}}
	nOps := r.Intn(8)
	seenOp := map[string]bool{}
	for i := 0; i < nOps; i++ {
		op := pick(r, ops)
		if seenOp[op[0]] {
			continue
		}
		seenOp[op[0]] = true
		add(lexRule{sc: sc(), name: "'" + op[0] + "'", pat: op[1], frags: []string{op[0], op[0]}})
	}
	if seenOp["..."] || seenOp["-->"] || seenOp["<<="] || seenOp["==="] {
		tag("backtracking")
	}

	// strings
	switch r.Intn(5) {
	case 0:
		add(lexRule{sc: sc(), name: "str", pat: `"([^"\\\n]|\\.)*"`, frags: []string{`"s"`, `""`, `"a\"b"`, `"unterminated`, "\"x\ny\""}})
		tag("string")
	case 1:
		s := sc()
		add(lexRule{sc: s, name: "str", pat: `"([^"\\\n]|\\.)*"`, frags: []string{`"s"`, `"é"`, `"unterminated`, `"\`}})
		add(lexRule{sc: s, name: "invalid_token", pat: `"([^"\\\n]|\\.)*`, frags: nil})
		tag("explicit-invalid-token")
	}

	// {eoi} inside a pattern
	if r.Intn(8) == 0 {
		pat := `#[^\n]*(\n|{eoi})`
		if !lexEoiLoopDefect() && r.Intn(2) == 0 {
			// {eoi} under a repetition: sampled only when the tables of the probe grammar have no cycle
			// on the EOI column (known finding C12-eoi-loop: Next() does not return)
			pat = `#[^\n]*(\n|{eoi})+`
			tag("eoi-in-repetition")
		}
		add(lexRule{sc: sc(), name: "hashline", pat: pat, frags: []string{"#x\n", "#last", "#", "#a\n\n"}})
		tag("eoi-pattern")
	}
	// code without effect on positions (forces rule ids)
	if r.Intn(8) == 0 {
		add(lexRule{sc: sc(), name: "at", pat: `@`, code: "{ $$ = 1 }", frags: []string{"@"}})
		tag("code-action")
	}
	// C1 controls: distinguishes the rune U+0080 from an invalid byte 0x80 (RuneError)
	if !o.ScanBytes && r.Intn(4) == 0 {
		add(lexRule{sc: sc(), name: "c1", pat: `[\x80-\x9f]+`, prio: "1", frags: []string{"\u0080", "\u009f\u0080", "\x80", "\x9f"}})
		tag("c1-controls")
	}
	// any other character
	if r.Intn(6) == 0 {
		add(lexRule{sc: sc(), name: "other", pat: `[^\x00-\x7f]`, prio: "-2", frags: []string{"é", "中"}})
	}
	// several short tokens that are prefixes of ONE longer rule with a shared tail: when the long match
	// fails after 1..n tail characters the lexer must fall back to the token it started with
	if r.Intn(3) == 0 {
		s := sc()
		tails := [][3]string{{`[~^%]::!`, "::!", ":"}, {`(~|\^|%)::*!`, "::!", ":"}, {`[~^%]:;:!`, ":;:!", ":;"}}
		t := tails[r.Intn(len(tails))]
		add(lexRule{sc: s, name: "'~'", pat: `~`, frags: []string{"~", "~" + t[2]}})
		add(lexRule{sc: s, name: "'^'", pat: `\^`, frags: []string{"^", "^" + t[2], "^" + t[1][:len(t[1])-1]}})
		add(lexRule{sc: s, name: "'%'", pat: `%`, frags: []string{"%", "%" + t[2], "%" + t[1]}})
		add(lexRule{sc: s, name: "tail3", pat: t[0], frags: []string{"~" + t[1], "^" + t[1], "%" + t[1][:2], "~:", "^::", "%^:~:", ":", "!"}})
		tag("shared-tail-prefix-tokens")
	}
	if o.Fold {
		// upper-case and mixed-case spellings, in particular K and S (their fold orbits pass through
		// U+212A / U+017F before reaching the other ASCII case)
		var more []string
		for _, f := range g.Frags {
			if up := strings.ToUpper(f); up != f {
				more = append(more, up)
				more = append(more, strings.ToUpper(f[:1])+f[1:])
			}
		}
		g.Frags = append(g.Frags, more...)
		g.Frags = append(g.Frags, "K", "S", "Sky", "KISS", "tasK", "ſ", "\u212a", "SELECT", "Like")
		tag("case-insensitive")
		if o.ScanBytes {
			tag("case-insensitive x scanBytes")
		}
	}
	o.NonBacktracking = r.Intn(12) == 0
	g.Frags = append(g.Frags, "é", "я", "中", "😀", "\xff", "\xc3", "\xed\xa0\x80", "\xc0\x80", "\xf4\x90\x80\x80", "\xe2\x82", "\xef\xbb\xbf", "$", "%", "\x00", "\x7f", "\x80", "\u0080")
	return g
}

func reQuote(s string) string {
	var sb strings.Builder
	for _, r := range s {
		if r < 0x80 && !(r >= 'a' && r <= 'z' || r >= 'A' && r <= 'Z' || r >= '0' && r <= '9') {
			sb.WriteByte('\\')
		}
		sb.WriteRune(r)
	}
	return sb.String()
}

func genLexText(r *rand.Rand, frags []string) string {
	var sb strings.Builder
	if r.Intn(6) == 0 {
		sb.WriteString("\xef\xbb\xbf")
	}
	n := r.Intn(14)
	if r.Intn(10) == 0 {
		n = 0
	}
	for i := 0; i < n; i++ {
		switch k := r.Intn(20); {
		case k < 15:
			sb.WriteString(pick(r, frags))
		case k < 17:
			sb.WriteByte(byte(r.Intn(256)))
		case k < 18:
			sb.WriteRune(rune(r.Intn(0x3000)))
		default:
			sb.WriteString(" ")
		}
	}
	return sb.String()
}

// ---- batch of generated lexer packages with its own runner ----

type genLexer struct {
	GP    *GenParser
	Multi bool
	Line  bool
	Col   bool
}

type lexBatch struct {
	Dir    string
	Lexers []*genLexer
	bin    string
}

func newLexBatch() (*lexBatch, error) {
	dir, err := os.MkdirTemp("", "tmverif-lex-")
	if err != nil {
		return nil, err
	}
	return &lexBatch{Dir: dir}, nil
}

func (b *lexBatch) Close() { os.RemoveAll(b.Dir) }

func (b *lexBatch) Add(gp *GenParser) {
	o := gp.G.Options
	b.Lexers = append(b.Lexers, &genLexer{GP: gp, Multi: len(gp.G.Lexer.StartConditions) > 1, Line: o.TokenLine, Col: o.TokenColumn})
}

func lexRunnerSrc(gl *genLexer) string {
	var sb strings.Builder
	name := gl.GP.Name
	fmt.Fprintf(&sb, "func run_%s(state int, text string) (out string) {\n", name)
	sb.WriteString("\tvar sb strings.Builder\n\tdefer func() { if r := recover(); r != nil { out = sb.String() + \"panic\" } }()\n")
	fmt.Fprintf(&sb, "\tvar l %s.Lexer\n\tl.Init(text)\n", name)
	if gl.Multi {
		sb.WriteString("\tl.State = state\n")
	}
	line, col := "0", "0"
	if gl.Line {
		line = "l.Line()"
	}
	if gl.Col {
		col = "l.Column()"
	}
	// tokens until the first EOI (at most len+3), then two further calls (mirrors DriverC11.tokenizeX)
	fmt.Fprintf(&sb, `	n, extra, first := len(text)+3, 2, true
	for n > 0 {
		tok := int(l.Next())
		s, e := l.Pos()
		if !first {
			sb.WriteByte(',')
		}
		first = false
		fmt.Fprintf(&sb, "%%d:%%d:%%d:%%d:%%d", tok, s, e, %s, %s)
		if tok == 0 {
			if extra == 0 {
				break
			}
			n = extra
			extra--
		} else {
			n--
		}
	}
	return sb.String()
}

`, line, col)
	return sb.String()
}

func (b *lexBatch) Build() error {
	if err := os.WriteFile(filepath.Join(b.Dir, "go.mod"), []byte("module gp\n\ngo 1.25\n"), 0o644); err != nil {
		return err
	}
	var main strings.Builder
	main.WriteString("package main\n\nimport (\n\t\"bufio\"\n\t\"fmt\"\n\t\"os\"\n\t\"strconv\"\n\t\"strings\"\n")
	for _, gl := range b.Lexers {
		fmt.Fprintf(&main, "\t%s \"gp/%s\"\n", gl.GP.Name, gl.GP.Name)
	}
	main.WriteString(")\n\n")
	for _, gl := range b.Lexers {
		for fn, content := range gl.GP.Files {
			p := filepath.Join(b.Dir, gl.GP.Name, fn)
			if err := os.MkdirAll(filepath.Dir(p), 0o755); err != nil {
				return err
			}
			if err := os.WriteFile(p, []byte(content), 0o644); err != nil {
				return err
			}
		}
		main.WriteString(lexRunnerSrc(gl))
	}
	main.WriteString("var runners = map[string]func(int, string) string{\n")
	for _, gl := range b.Lexers {
		fmt.Fprintf(&main, "\t%q: run_%s,\n", gl.GP.Name, gl.GP.Name)
	}
	main.WriteString("}\n\n")
	main.WriteString(`func main() {
	sc := bufio.NewScanner(os.Stdin)
	sc.Buffer(make([]byte, 1<<20), 1<<26)
	w := bufio.NewWriter(os.Stdout)
	defer w.Flush()
	for sc.Scan() {
		parts := strings.SplitN(sc.Text(), "\t", 3)
		if len(parts) != 3 {
			fmt.Fprintln(w, "badline")
			continue
		}
		state, _ := strconv.Atoi(parts[1])
		text, err := strconv.Unquote(parts[2])
		if err != nil {
			fmt.Fprintln(w, "badquote")
			continue
		}
		r, ok := runners[parts[0]]
		if !ok {
			fmt.Fprintln(w, "norunner")
			continue
		}
		fmt.Fprintln(w, r(state, text))
		w.Flush()
	}
}
`)
	if err := os.WriteFile(filepath.Join(b.Dir, "main.go"), []byte(main.String()), 0o644); err != nil {
		return err
	}
	b.bin = filepath.Join(b.Dir, "runner")
	cmd := exec.Command("go", "build", "-o", b.bin, ".")
	cmd.Dir = b.Dir
	cmd.Env = append(os.Environ(), "GOFLAGS=-mod=mod", "GOPROXY=off")
	out, err := cmd.CombinedOutput()
	if err != nil {
		return fmt.Errorf("go build of generated lexers failed: %v\n%s", err, tail(string(out), 3000))
	}
	return nil
}

type lexReq struct {
	Lexer string
	State int
	Text  string
}

func (b *lexBatch) Run(reqs []lexReq) []string { return b.RunTimeout(reqs, 10*time.Minute) }

// RunTimeout is Run with a deadline: requests that got no answer (the runner was killed) yield "crash".
func (b *lexBatch) RunTimeout(reqs []lexReq, d time.Duration) []string {
	var in bytes.Buffer
	for _, r := range reqs {
		fmt.Fprintf(&in, "%s\t%d\t%s\n", r.Lexer, r.State, strconv.Quote(r.Text))
	}
	ctx, cancel := context.WithTimeout(context.Background(), d)
	defer cancel()
	cmd := exec.CommandContext(ctx, b.bin)
	cmd.Stdin = &in
	cmd.Env = append(os.Environ(), "GOMEMLIMIT=2GiB")
	out, _ := cmd.Output()
	res := make([]string, 0, len(reqs))
	sc := bufio.NewScanner(bytes.NewReader(out))
	sc.Buffer(make([]byte, 1<<20), 1<<26)
	for sc.Scan() {
		res = append(res, sc.Text())
	}
	for len(res) < len(reqs) {
		res = append(res, "crash")
	}
	return res
}

// ---- protocol rendering of a compiled lexer ----

type lexVariant struct{ ColFix, HashFix, SkipFix bool }

func (v lexVariant) String() string { return b2s(v.ColFix) + b2s(v.HashFix) + b2s(v.SkipFix) }

// lexProto renders everything the Lean model needs: options, tables (symbol map + the arrays the
// templates emit, obtained from the same methods the templates call), rule/token maps.
func lexProto(v lexVariant, o *grammar.Options, lx *grammar.Lexer, spaceActions []int, exempt []int) string {
	t := lx.Tables
	var starts, targets []int
	for _, e := range t.SymbolMap {
		starts = append(starts, int(e.Start))
		targets = append(targets, int(e.Target))
	}
	var btA, btN []int
	for _, b := range t.Backtrack {
		btA = append(btA, b.Action)
		btN = append(btN, b.NextState)
	}
	useMap := t.LastMapEntry().Start > 2048
	var runeClass []int
	ranges := "_"
	if useMap {
		runeClass = t.SymbolArr(256)
		ranges = protoRanges(t.CompressedMap(256))
	} else {
		runeClass = t.SymbolArr(0)
	}
	rt := "x"
	if lx.RuleToken != nil {
		rt = ints(lx.RuleToken)
	}
	ca := "_"
	if len(lx.ClassActions) > 0 {
		var rows []string
		for _, a := range lx.ClassActions {
			var kv []string
			for _, k := range sortedKeys(a.Custom) {
				kv = append(kv, fmt.Sprintf("%s=%d", hexs([]byte(k)), a.Custom[k]))
			}
			m := "-"
			if len(kv) > 0 {
				m = strings.Join(kv, ",")
			}
			rows = append(rows, fmt.Sprintf("%d@%s", a.Action, m))
		}
		ca = strings.Join(rows, ";")
	}
	opts := b2s(o.TokenLine) + b2s(o.TokenLineOffset) + b2s(o.TokenColumn) + b2s(o.ScanBytes) + b2s(o.SkipByteOrderMark)
	return fmt.Sprintf("lex %s %s %s %d %s %s %s %s %s %s %s %s %s %d %s %d %s %s %s",
		v, opts, b2s(len(lx.StartConditions) > 1), t.NumSymbols, ints(starts), ints(targets), ints(t.StateMap), ints(t.Dfa),
		ints(btA), ints(btN), ints(runeClass), b2s(useMap), ranges, int(t.LastMapEntry().Target), rt, lx.InvalidToken,
		ints(spaceActions), ca, ints(exempt))
}

func protoRanges(rs []lex.CompressedEntry) string {
	if len(rs) == 0 {
		return "_"
	}
	var rows []string
	for _, e := range rs {
		vs := "-"
		if len(e.Vals) > 0 {
			var p []string
			for _, v := range e.Vals {
				p = append(p, strconv.Itoa(v))
			}
			vs = strings.Join(p, ".")
		}
		rows = append(rows, fmt.Sprintf("%d:%d:%d:%s", e.Lo, e.Hi, e.DefaultVal, vs))
	}
	return strings.Join(rows, ";")
}

// ---- Go-side oracles ----

type lexTok struct{ Tok, S, E, Line, Col int }

func parseSeq(s string) ([]lexTok, bool) {
	if s == "" {
		return nil, true
	}
	var ret []lexTok
	for _, p := range strings.Split(s, ",") {
		f := strings.Split(p, ":")
		if len(f) != 5 {
			return ret, false
		}
		var t lexTok
		t.Tok, _ = strconv.Atoi(f[0])
		t.S, _ = strconv.Atoi(f[1])
		t.E, _ = strconv.Atoi(f[2])
		t.Line, _ = strconv.Atoi(f[3])
		t.Col, _ = strconv.Atoi(f[4])
		ret = append(ret, t)
	}
	return ret, true
}

// checkPositions recomputes line/column of every token from the text. Returns "" or a description.
// colAfterNL=false: columns are checked on the first line only (class of the known column defect).
func checkPositions(text string, seq []lexTok, line, col, colAfterNL bool) string {
	for _, t := range seq {
		if t.S < 0 || t.S > len(text) || t.E < t.S || t.E > len(text) {
			return fmt.Sprintf("token %d has offsets [%d,%d) outside the text of length %d", t.Tok, t.S, t.E, len(text))
		}
		nl := strings.Count(text[:t.S], "\n")
		if line && t.Line != 1+nl {
			return fmt.Sprintf("token %d at offset %d: Line() = %d, want %d", t.Tok, t.S, t.Line, 1+nl)
		}
		if col && (colAfterNL || nl == 0) {
			want := t.S - (strings.LastIndexByte(text[:t.S], '\n') + 1) + 1
			if t.Col != want {
				return fmt.Sprintf("token %d at offset %d: Column() = %d, want %d", t.Tok, t.S, t.Col, want)
			}
		}
	}
	return ""
}

// scanTokenize is the documented tokenization computed with the REAL lex.Tables.Scan on tables that
// still carry rule ids (lx.RuleToken != nil): (tok, start, end) until EOI.
func scanTokenize(o *grammar.Options, lx *grammar.Lexer, space map[int]bool, state int, text string, limit int) []lexTok {
	var ret []lexTok
	off := 0
	if o.SkipByteOrderMark && strings.HasPrefix(text, "\xef\xbb\xbf") {
		off = 3
	}
	class := map[int]map[string]int{}
	for _, ca := range lx.ClassActions {
		class[ca.Action] = ca.Custom
	}
	sc := 0
	if len(lx.StartConditions) > 1 {
		sc = state
	}
	for len(ret) < limit {
		size, act := lx.Tables.Scan(sc, text[off:])
		if act == 0 {
			if size == 0 {
				if off >= len(text) {
					ret = append(ret, lexTok{Tok: 0, S: off, E: off})
					return ret
				}
				w := 1
				if !o.ScanBytes {
					_, w = utf8.DecodeRuneInString(text[off:])
				}
				size = w
			}
			ret = append(ret, lexTok{Tok: lx.RuleToken[0], S: off, E: off + size})
			off += size
			continue
		}
		if m, ok := class[act]; ok {
			if a, ok := m[text[off:off+size]]; ok {
				act = a
			}
		}
		if space[act] {
			off += size
			continue
		}
		ret = append(ret, lexTok{Tok: lx.RuleToken[act], S: off, E: off + size})
		off += size
	}
	return ret
}

func eoiFinalGo(t *lex.Tables) bool {
	start := t.ActionStart()
	for s := 0; s*t.NumSymbols < len(t.Dfa); s++ {
		if t.Dfa[s*t.NumSymbols] > start {
			return false
		}
	}
	return true
}

func sameTokens(a, b []lexTok) bool {
	if len(a) != len(b) {
		return false
	}
	for i := range a {
		if a[i].Tok != b[i].Tok || a[i].S != b[i].S || a[i].E != b[i].E {
			return false
		}
	}
	return true
}

func untilEOI(seq []lexTok) []lexTok {
	for i, t := range seq {
		if t.Tok == 0 {
			return seq[:i+1]
		}
	}
	return seq
}

func fmtToks(seq []lexTok) string {
	var p []string
	for _, t := range seq {
		p = append(p, fmt.Sprintf("%d[%d,%d)", t.Tok, t.S, t.E))
	}
	return strings.Join(p, " ")
}

func spaceSet(g *grammar.Grammar) (map[int]bool, []int) {
	l := g.SpaceActions()
	m := map[int]bool{}
	for _, a := range l {
		m[a] = true
	}
	return m, l
}

// lexTokenID returns the token number of a lexer-only grammar's terminal.
func lexTokenID(gp *GenParser, name string) int {
	for i, s := range gp.G.Syms {
		if s.Name == name {
			return i
		}
	}
	return -1
}

// ---- rule-level reference (independent of compiler/lexer.go) ----

type lexNode struct{ line int }

func (n lexNode) SourceRange() status.SourceRange {
	return status.SourceRange{Filename: "ref", Line: n.line + 1, Column: 1}
}

type lexNoResolver struct{}

func (lexNoResolver) Resolve(name string) *lex.Pattern { return nil }

// lexRef is the documented meaning of a lexGram, built WITHOUT the grammar compiler: every lexeme is
// one lex.Rule (its own action), active in the start conditions its prefix names (no prefix: all
// inclusive ones), with its priority; a (class) rule only loses ties against other rules (its
// keywords). lex.Compile + lex.Tables.Scan turn the rules into a tokenizer (that part is C09).
type lexRef struct {
	t     *lex.Tables
	names []string
	space []bool
	g     *lexGram
}

func (g *lexGram) scIndexes(prefix string) []int {
	p := strings.TrimSpace(prefix)
	var ret []int
	if p == "" {
		for i, inc := range g.Inclusive {
			if inc {
				ret = append(ret, i)
			}
		}
		return ret
	}
	p = strings.Trim(p, "<>")
	if p == "*" {
		for i := range g.SCNames {
			ret = append(ret, i)
		}
		return ret
	}
	for _, n := range strings.Split(p, ",") {
		n = strings.TrimSpace(n)
		for i, name := range g.SCNames {
			if name == n {
				ret = append(ret, i)
			}
		}
	}
	return ret
}

func buildLexRef(g *lexGram) (ref *lexRef, err error) {
	defer func() {
		if r := recover(); r != nil {
			err = fmt.Errorf("panic: %v", r)
		}
	}()
	opts := lex.CharsetOptions{ScanBytes: g.Opts.ScanBytes, Fold: g.Opts.Fold}
	ref = &lexRef{g: g}
	var rules []*lex.Rule
	for i, r := range g.Rules {
		re, perr := lex.ParseRegexp(r.pat, opts)
		if perr != nil {
			return nil, perr
		}
		prec := 0
		if r.prio != "" {
			prec, _ = strconv.Atoi(r.prio)
		}
		prec *= 2
		if r.attr == "(class)" {
			prec--
		}
		rules = append(rules, &lex.Rule{
			Pattern:         &lex.Pattern{Name: r.name, RE: re, Text: r.pat, Origin: lexNode{i}},
			Resolver:        lexNoResolver{},
			StartConditions: g.scIndexes(r.sc),
			Precedence:      prec,
			Action:          i + 2,
			Origin:          lexNode{i},
		})
		ref.names = append(ref.names, r.name)
		ref.space = append(ref.space, r.attr == "(space)")
	}
	ref.t, err = lex.Compile(rules, g.Opts.ScanBytes, true)
	if err != nil {
		return nil, err
	}
	return ref, nil
}

type lexNamedTok struct {
	Name string
	S, E int
}

// tokenize returns (token name, start, end) until EOI according to the rules.
func (ref *lexRef) tokenize(state int, text string, limit int) []lexNamedTok {
	var ret []lexNamedTok
	off := 0
	if !ref.g.Opts.NoBOM && strings.HasPrefix(text, "\xef\xbb\xbf") {
		off = 3
	}
	if state >= len(ref.t.StateMap) {
		return nil
	}
	for len(ret) < limit {
		size, act := ref.t.Scan(state, text[off:])
		if act == 0 {
			if size == 0 {
				if off >= len(text) {
					return append(ret, lexNamedTok{"eoi", off, off})
				}
				size = 1
				if !ref.g.Opts.ScanBytes {
					_, size = utf8.DecodeRuneInString(text[off:])
				}
			}
			ret = append(ret, lexNamedTok{"invalid_token", off, off + size})
			off += size
			continue
		}
		if !ref.space[act-2] {
			ret = append(ret, lexNamedTok{ref.names[act-2], off, off + size})
		}
		off += size
	}
	return ret
}

// ---- probes shared by C11 and C12 ----

const lexEoiLoopProbe = `language pq(go);
lang = "pq"
package = "gp/pq"
:: lexer
ws: /[ ]+/ (space)
a: /a/
q: /b{eoi}+/
`

// eoiColumnCycle reports whether following the EOI column (checkpoints included) from some state
// never reaches a final action: the generated Next() then spins at the end of the input.
func eoiColumnCycle(t *lex.Tables) bool {
	n := len(t.Dfa) / t.NumSymbols
	start := t.ActionStart()
	for s := 0; s < n; s++ {
		cur := s
		ok := false
		for step := 0; step <= n+1; step++ {
			e := t.Dfa[cur*t.NumSymbols]
			if e <= start {
				ok = true
				break
			}
			if e < 0 {
				cur = t.Backtrack[-1-e].NextState
			} else {
				cur = e
			}
		}
		if !ok {
			return true
		}
	}
	return false
}

var lexEoiLoopState int // 0 unknown, 1 defect present, 2 absent

// lexEoiLoopDefect compiles the probe grammar with the real compiler and looks for a cycle on the EOI
// column of its tables (static; the dynamic confirmation with a timeout is part of ./check C12).
func lexEoiLoopDefect() bool {
	if lexEoiLoopState == 0 {
		lexEoiLoopState = 2
		gp := compileTM("pq", lexEoiLoopProbe, TMOpts{})
		if gp.Err == nil && gp.G.Lexer != nil && gp.G.Lexer.Tables != nil && eoiColumnCycle(gp.G.Lexer.Tables) {
			lexEoiLoopState = 1
		}
	}
	return lexEoiLoopState == 1
}
