package main

import (
	"fmt"
	"math/rand"
	"os"
	"sort"
	"strconv"
	"strings"

	"github.com/inspirer/textmapper/lalr"
	"github.com/inspirer/textmapper/syntax"
)

func init() { props["C21"] = c21 }

// ---------------------------------------------------------------------------------------------
// Grammar rendering: a conflict-free random CFG decorated with the constructs syntax/types.go
// analyses: nested arrows with REUSED node type names (so that phrases get merged), named fields
// `f=X`, `f+=X`, optional parts, lists (`X+`, `X*`, `(X separator 'c')+`), categories (%interface),
// reported terminals (%inject on a grammar terminal) and an injected space token (comments).

type c21Opts struct {
	Comment  bool  // injected space token '#'
	Reported []int // terminals reported as nodes
	FileNode bool
	Optimize bool
	// EmptyNodes allows arrows over ranges that can derive the empty string (finding [C21-empty-node]).
	EmptyNodes bool
	// SepReported allows a reported terminal as list separator (finding [C21-separator-token]).
	SepReported bool
	// TokenSetName names one category `TokenSet` (finding [C21-tokenset-interface]).
	TokenSetName bool
}

func c21TM(r *rand.Rand, g *Gram, name string, o *c21Opts) string {
	var sb strings.Builder
	fmt.Fprintf(&sb, "language %s(go);\n\nlang = %q\npackage = \"gp/%s\"\neventBased = true\neventFields = true\neventAST = true\n", name, name, name)
	if o.Optimize {
		sb.WriteString("optimizeTables = true\n")
	}
	nTypes := 3 + r.Intn(6)
	nFields := 1 + r.Intn(3)
	typeName := func() string { return fmt.Sprintf("T%d", 1+r.Intn(nTypes)) }
	fieldName := func() string { return fmt.Sprintf("f%d", 1+r.Intn(nFields)) }
	reported := map[int]bool{}
	for _, t := range o.Reported {
		reported[t] = true
	}
	sym := func(s int) string {
		if s < g.NT {
			return "'" + g.SymName(s) + "'"
		}
		return g.SymName(s)
	}
	var order []int
	seen := map[int]bool{}
	for _, rl := range g.Rules {
		if !seen[rl.LHS] {
			seen[rl.LHS] = true
			order = append(order, rl.LHS)
		}
	}
	start := g.Inputs[0].Sym
	nullable := g.Nullable()
	// list separator: a reported terminal only once the probe of class [C21-separator-token] passes
	sepTerm := 0
	for tries := 0; tries < 20 && sepTerm == 0; tries++ {
		if t := 1 + r.Intn(g.NT-1); !reported[t] || o.SepReported {
			sepTerm = t
		}
	}
	// Nonterminals whose rules will ALL carry a whole-rule arrow: the start symbol (one root node) and
	// category candidates. Their bodies must not be able to derive the empty string (unless EmptyNodes).
	ruleNullable := func(rl GRule) bool {
		for _, s := range rl.RHS {
			if s < g.NT || !nullable[s] {
				return false
			}
		}
		return true
	}
	allTyped := map[int]bool{}
	for _, lhs := range order {
		ok := lhs == start || r.Intn(2) == 0
		for _, rl := range g.Rules {
			if rl.LHS == lhs && ruleNullable(rl) && !o.EmptyNodes {
				ok = false
			}
		}
		allTyped[lhs] = ok
	}
	cat := map[int]string{}
	for _, lhs := range order {
		if allTyped[lhs] && lhs != start && r.Intn(3) != 0 {
			cat[lhs] = "Cat" + g.SymName(lhs)
			if o.TokenSetName {
				cat[lhs] = "TokenSet"
				o.TokenSetName = false
			}
		}
	}
	// element decoration; the second result says whether the element can derive the empty string
	// (arrows over possibly-empty ranges are the avoided class [C21-empty-node], see c21()).
	elem := func(s int, keep bool) (string, bool) {
		txt := sym(s)
		null := s >= g.NT && nullable[s]
		_, isCat := cat[s]
		oneField := isCat || reported[s]
		nodeish := s >= g.NT || reported[s]
		if nodeish {
			switch k := r.Intn(12); {
			case k == 0:
				txt += "+"
			case k == 1 && !keep:
				txt += "*"
				null = true
			case k == 2 && sepTerm != 0:
				txt = fmt.Sprintf("(%s separator '%s')+", txt, g.SymName(sepTerm))
			case k == 3 && !keep:
				txt += "?"
				null = true
			}
		} else if r.Intn(10) == 0 && !keep {
			txt += "?"
			null = true
		}
		if oneField {
			switch r.Intn(5) {
			case 0:
				txt = fieldName() + "=" + txt
			case 1:
				txt = fieldName() + "+=" + txt
			}
		}
		return txt, null
	}
	var render func(rhs []int, depth int, keep bool) (string, bool)
	render = func(rhs []int, depth int, keep bool) (string, bool) {
		if len(rhs) == 0 {
			return "", true
		}
		if depth < 2 && r.Intn(2) == 0 {
			s := r.Intn(len(rhs))
			e := s + 1 + r.Intn(len(rhs)-s)
			inner, inull := render(rhs[s:e], depth+1, keep)
			wrapped, wnull := inner, inull
			if !inull || o.EmptyNodes {
				wrapped = fmt.Sprintf("(%s -> %s)", inner, typeName())
				switch k := r.Intn(8); {
				case k <= 1 && !keep:
					wrapped += "?"
					wnull = true
				case k == 2:
					wrapped += "+"
				case k == 3 && !keep:
					wrapped += "*"
					wnull = true
				}
				switch r.Intn(5) {
				case 0:
					wrapped = fieldName() + "=" + wrapped
				case 1:
					wrapped = fieldName() + "+=" + wrapped
				}
			}
			var parts []string
			null := wnull
			if s > 0 {
				t, n := render(rhs[:s], depth+1, keep)
				parts = append(parts, t)
				null = null && n
			}
			parts = append(parts, wrapped)
			if e < len(rhs) {
				t, n := render(rhs[e:], depth+1, keep)
				parts = append(parts, t)
				null = null && n
			}
			return strings.Join(parts, " "), null
		}
		var parts []string
		null := true
		for _, s := range rhs {
			if o.EmptyNodes && r.Intn(4) == 0 {
				parts = append(parts, fmt.Sprintf("( -> %s)", typeName())) // an explicitly empty node (never last in a rule)
			}
			t, n := elem(s, keep)
			parts = append(parts, t)
			null = null && n
		}
		return strings.Join(parts, " "), null
	}
	bodies := make([]string, len(g.Rules))
	bodyNull := make([]bool, len(g.Rules))
	for i, rl := range g.Rules {
		// keep = do not add ?/* decorations (the body of an all-typed nonterminal stays non-nullable)
		bodies[i], bodyNull[i] = render(rl.RHS, 0, allTyped[rl.LHS] && !o.EmptyNodes)
	}
	ruleArrow := make([]string, len(g.Rules))
	for i, rl := range g.Rules {
		if bodyNull[i] && !o.EmptyNodes {
			continue
		}
		if allTyped[rl.LHS] || r.Intn(3) != 0 {
			if o.FileNode && rl.LHS == start {
				ruleArrow[i] = "File"
			} else {
				ruleArrow[i] = typeName()
			}
		}
	}
	// fileNode: the File arrow must be on every rule of the start symbol, and the start symbol must not
	// be used inside rules (the parser does not report File; the builder adds it once around everything)
	fileOK := true
	for i, rl := range g.Rules {
		if rl.LHS == start && ruleArrow[i] != "File" {
			fileOK = false
		}
		for _, s := range rl.RHS {
			if s == start {
				fileOK = false
			}
		}
	}
	if o.FileNode && !fileOK {
		o.FileNode = false
		for i := range ruleArrow {
			if ruleArrow[i] == "File" {
				ruleArrow[i] = typeName()
			}
		}
	}
	if o.FileNode {
		sb.WriteString("fileNode = \"File\"\n")
	}
	sb.WriteString("\n::lexer\n\nWhiteSpace: /[ ]+/ (space)\n")
	if o.Comment {
		sb.WriteString("Comment: /#/ (space)\n")
	}
	for t := 1; t < g.NT; t++ {
		fmt.Fprintf(&sb, "'%s': /%s/\n", g.SymName(t), g.SymName(t))
	}
	sb.WriteString("\n::parser\n\n")
	fmt.Fprintf(&sb, "%%input %s;\n\n", g.SymName(start))
	if o.Comment {
		sb.WriteString("%inject Comment -> Comment;\n")
	}
	for _, t := range o.Reported {
		fmt.Fprintf(&sb, "%%inject '%s' -> Tok%s;\n", g.SymName(t), strings.ToUpper(g.SymName(t)))
	}
	var cats []string
	for _, c := range cat {
		cats = append(cats, c)
	}
	sort.Strings(cats)
	for _, c := range cats {
		fmt.Fprintf(&sb, "%%interface %s;\n", c)
	}
	sb.WriteString("\n")
	for _, lhs := range order {
		if c, ok := cat[lhs]; ok {
			fmt.Fprintf(&sb, "%s -> %s :\n", g.SymName(lhs), c)
		} else {
			fmt.Fprintf(&sb, "%s :\n", g.SymName(lhs))
		}
		first := true
		for i, rl := range g.Rules {
			if rl.LHS != lhs {
				continue
			}
			if first {
				sb.WriteString("    ")
				first = false
			} else {
				sb.WriteString("  | ")
			}
			if len(rl.RHS) == 0 {
				sb.WriteString("%empty")
			} else {
				sb.WriteString(bodies[i])
			}
			if ruleArrow[i] != "" {
				fmt.Fprintf(&sb, " -> %s", ruleArrow[i])
			}
			sb.WriteString("\n")
		}
		sb.WriteString(";\n")
	}
	return sb.String()
}

// c21BaseGram draws a plain CFG in which every nonterminal is reachable from N0 (layered references
// with occasional back references = recursion), all nonterminals productive, LALR(1) conflict-free.
func c21BaseGram(c *Ctx) *Gram {
	r := c.Rng
	for tries := 0; tries < 300; tries++ {
		g := &Gram{Shape: "c21"}
		g.NT = 3 + r.Intn(4)
		g.NN = 2 + r.Intn(4)
		for n := 0; n < g.NN; n++ {
			nr := 1 + r.Intn(3)
			for k := 0; k < nr; k++ {
				var rhs []int
				if n == 0 || r.Intn(10) != 0 {
					ln := 1 + r.Intn(4)
					for j := 0; j < ln; j++ {
						switch {
						case r.Intn(100) < 45:
							rhs = append(rhs, 1+r.Intn(g.NT-1))
						case n+1 < g.NN && r.Intn(4) != 0:
							rhs = append(rhs, g.NT+n+1+r.Intn(g.NN-n-1))
						default:
							rhs = append(rhs, g.NT+r.Intn(g.NN))
						}
					}
				}
				g.Rules = append(g.Rules, GRule{LHS: g.NT + n, RHS: rhs})
			}
		}
		// every Nj (j>0) is referenced from some Ni with i<j
		for j := 1; j < g.NN; j++ {
			ref := false
			for _, rl := range g.Rules {
				if rl.LHS < g.NT+j {
					for _, s := range rl.RHS {
						ref = ref || s == g.NT+j
					}
				}
			}
			if !ref {
				var cands []int
				for i, rl := range g.Rules {
					if rl.LHS < g.NT+j {
						cands = append(cands, i)
					}
				}
				i := cands[r.Intn(len(cands))]
				rhs := g.Rules[i].RHS
				at := r.Intn(len(rhs) + 1)
				g.Rules[i].RHS = append(append(append([]int(nil), rhs[:at]...), g.NT+j), rhs[at:]...)
			}
		}
		g.Inputs = []GInput{{Sym: g.NT, Eoi: true}}
		if !g.AllProductive() || g.Nullable()[g.NT] {
			continue
		}
		if _, err, pan := compileLalr(g.Lalr(), lalr.Options{}); pan != "" || err != nil {
			continue
		}
		return g
	}
	return nil
}

// ---------------------------------------------------------------------------------------------
// Views of the compiled grammar

// c21Gram converts the COMPILED rules (after the compiler's expansion of ?, lists, …) into a Gram in
// the compiled symbol numbering; used to derive sentences.
func c21Gram(gp *GenParser) *Gram {
	p := gp.G.Parser
	g := &Gram{NT: p.NumTerminals, NN: len(gp.G.Syms) - p.NumTerminals}
	for _, r := range p.Rules {
		var rhs []int
		for _, s := range r.RHS {
			if !s.IsStateMarker() {
				rhs = append(rhs, int(s))
			}
		}
		g.Rules = append(g.Rules, GRule{LHS: int(r.LHS), RHS: rhs})
	}
	for _, in := range p.Inputs {
		if !in.Synthetic {
			g.Inputs = append(g.Inputs, GInput{Sym: p.NumTerminals + in.Nonterm, Eoi: !in.NoEoi})
		}
	}
	return g
}

// c21HasEmptyRange: some node range of the COMPILED grammar (rule type or reported sub-range) can derive
// the empty string — the input class of finding [C21-empty-node].
func c21HasEmptyRange(gp *GenParser) bool {
	g := c21Gram(gp)
	nul := g.Nullable()
	p := gp.G.Parser
	for i, r := range p.Rules {
		rhs := g.Rules[i].RHS
		allNull := func(s, e int) bool {
			for _, x := range rhs[s:e] {
				if !nul[x] {
					return false
				}
			}
			return true
		}
		if r.Type >= 0 && allNull(0, len(rhs)) {
			return true
		}
		if r.Action != 0 && r.Action < len(p.Actions) {
			for _, rep := range p.Actions[r.Action].Report {
				if rep.Start <= rep.End && rep.End <= len(rhs) && allNull(rep.Start, rep.End) {
					return true
				}
			}
		}
	}
	return false
}

func c21TermText(gp *GenParser, s int) string {
	n := gp.G.Syms[s].Name
	return strings.Trim(n, "'")
}

// c21Sentences: all sentences of at most maxAll tokens (leftmost expansion with pruning) plus random ones.
func c21Sentences(r *rand.Rand, g *Gram, start int, maxAll, capAll, nRand int) [][]int {
	const inf = 1 << 20
	minLen := make([]int, g.NT+g.NN)
	for s := range minLen {
		if s < g.NT {
			minLen[s] = 1
		} else {
			minLen[s] = inf
		}
	}
	for ch := true; ch; {
		ch = false
		for _, rl := range g.Rules {
			t := 0
			for _, s := range rl.RHS {
				t += minLen[s]
				if t > inf {
					t = inf
				}
			}
			if t < minLen[rl.LHS] {
				minLen[rl.LHS] = t
				ch = true
			}
		}
	}
	byLHS := map[int][]int{}
	for i, rl := range g.Rules {
		byLHS[rl.LHS] = append(byLHS[rl.LHS], i)
	}
	seen := map[string]bool{}
	var out [][]int
	steps := 0
	var rec func(prefix []int, rest []int, depth int)
	rec = func(prefix []int, rest []int, depth int) {
		steps++
		if steps > 20000 || len(out) >= capAll || depth > 40 {
			return
		}
		need := len(prefix)
		for _, s := range rest {
			need += minLen[s]
			if need > maxAll {
				return
			}
		}
		for len(rest) > 0 && rest[0] < g.NT {
			prefix = append(prefix, rest[0])
			rest = rest[1:]
		}
		if len(rest) == 0 {
			k := ints(prefix)
			if !seen[k] {
				seen[k] = true
				out = append(out, append([]int(nil), prefix...))
			}
			return
		}
		for _, ri := range byLHS[rest[0]] {
			nr := append(append([]int(nil), g.Rules[ri].RHS...), rest[1:]...)
			rec(append([]int(nil), prefix...), nr, depth+1)
		}
	}
	rec(nil, []int{start}, 0)
	for i := 0; i < nRand; i++ {
		if s, ok := g.RandSentence(r, start, 3+r.Intn(10)); ok && len(s) <= 16 {
			k := ints(s)
			if !seen[k] {
				seen[k] = true
				out = append(out, s)
			}
		}
	}
	return out
}

// c21Text renders a sentence; comments (injected tokens) go between tokens, and before the first / after
// the last token only when `edges` (fileNode grammars: otherwise they are additional roots and ast.Parse
// answers "exactly one root node is expected").
func c21Text(r *rand.Rand, gp *GenParser, w []int, comment, edges bool) string {
	var sb strings.Builder
	for i, s := range w {
		if i > 0 {
			sb.WriteString(" ")
		}
		if comment && (i > 0 || edges) && r.Intn(5) == 0 {
			sb.WriteString("# ")
		}
		if r.Intn(6) == 0 {
			sb.WriteString(" ")
		}
		sb.WriteString(c21TermText(gp, s))
	}
	if comment && edges && r.Intn(6) == 0 {
		sb.WriteString(" #")
	}
	if r.Intn(6) == 0 {
		sb.WriteString(" ")
	}
	return sb.String()
}

// ---------------------------------------------------------------------------------------------
// Types as the templates see them

type c21Types struct {
	gp       *GenParser
	types    *syntax.Types
	index    map[string]int // range type name -> NodeType value (1-based)
	cats     map[string][]string
	injected map[int]bool // NodeType values of space tokens (comments): excluded from coverage
	reported map[int]bool // NodeType values of reported grammar terminals
	soft     int
}

func newC21Types(gp *GenParser) *c21Types {
	t := &c21Types{gp: gp, types: gp.G.Parser.Types, index: map[string]int{}, cats: map[string][]string{}, injected: map[int]bool{}, reported: map[int]bool{}}
	for i, rt := range t.types.RangeTypes {
		t.index[rt.Name] = i + 1
	}
	for _, c := range t.types.Categories {
		t.cats[c.Name] = c.Types
	}
	for _, mt := range gp.G.Parser.MappedTokens {
		sym := gp.G.Syms[mt.Token]
		if sym.Space || sym.Name == "invalid_token" {
			t.injected[t.index[mt.Name]] = true
		} else {
			t.reported[t.index[mt.Name]] = true
		}
	}
	return t
}

// expand mirrors gen.expandSelector + the NodeType numbering of go_listener (sorted, deduplicated).
func (t *c21Types) expand(sel []string) []int {
	set := map[int]bool{}
	for _, s := range sel {
		if l, ok := t.cats[s]; ok {
			for _, n := range l {
				if id, ok := t.index[n]; ok {
					set[id] = true
				}
			}
			continue
		}
		if id, ok := t.index[s]; ok {
			set[id] = true
		}
	}
	var ret []int
	for id := range set {
		ret = append(ret, id)
	}
	sort.Ints(ret)
	return ret
}

func joinInts(l []int, sep, empty string) string {
	if len(l) == 0 {
		return empty
	}
	ps := make([]string, len(l))
	for i, v := range l {
		ps[i] = strconv.Itoa(v)
	}
	return strings.Join(ps, sep)
}

// fieldsStr: `sel+sel/req/list/after` joined by ',' ; `_` when there are no fields.
func (t *c21Types) fieldsStr(rt *syntax.RangeType) string {
	if len(rt.Fields) == 0 {
		return "_"
	}
	var fs []string
	for _, f := range rt.Fields {
		fs = append(fs, fmt.Sprintf("%s/%s/%s/%d", joinInts(t.expand(f.Selector), "+", "-"), b2s(f.IsRequired), b2s(f.IsList), f.FetchAfter))
	}
	return strings.Join(fs, ",")
}

// grammarStr: `<nterms> <rules> <toktypes>`; rule = lhs:rhs:type:reports, reports = t/s/e joined by '+'.
func (t *c21Types) grammarStr() string {
	g := t.gp.G
	p := g.Parser
	var rules []string
	for _, r := range p.Rules {
		var rhs []int
		for _, s := range r.RHS {
			if !s.IsStateMarker() {
				rhs = append(rhs, int(s))
			}
		}
		ty := 0
		if r.Type >= 0 {
			ty = r.Type + 1
		}
		reps := "-"
		if r.Action != 0 && r.Action < len(p.Actions) {
			var rs []string
			for _, rep := range p.Actions[r.Action].Report {
				rs = append(rs, fmt.Sprintf("%d/%d/%d", rep.Type+1, rep.Start, rep.End))
			}
			if len(rs) > 0 {
				reps = strings.Join(rs, "+")
			}
		}
		rules = append(rules, fmt.Sprintf("%d:%s:%d:%s", int(r.LHS), ints(rhs), ty, reps))
	}
	var toks []string
	for _, mt := range p.MappedTokens {
		sym := g.Syms[mt.Token]
		if sym.Space || sym.Name == "invalid_token" {
			continue
		}
		toks = append(toks, fmt.Sprintf("%d:%d", mt.Token, t.index[mt.Name]))
	}
	ts := "-"
	if len(toks) > 0 {
		ts = strings.Join(toks, ",")
	}
	rs := "_"
	if len(rules) > 0 {
		rs = strings.Join(rules, ";")
	}
	return fmt.Sprintf("%d %s %s", p.NumTerminals, rs, ts)
}

func (t *c21Types) typesStr() string {
	var ts []string
	for i := range t.types.RangeTypes {
		ts = append(ts, t.fieldsStr(&t.types.RangeTypes[i]))
	}
	return fmt.Sprintf("%d %s", len(ts), strings.Join(ts, ";"))
}

// ---------------------------------------------------------------------------------------------
// Judging one runner output against Parser.Types (independent of the Lean validator)

type c21Node struct {
	typ      int
	off, end int
	kids     []int
	acc      map[string]string
	accOrder []string
}

func c21ParseOut(out string) ([]c21Node, bool) {
	fs := strings.Fields(out)
	if len(fs) == 0 || fs[0] != "ok" {
		return nil, false
	}
	var nodes []c21Node
	for _, f := range fs[1:] {
		ps := strings.SplitN(f, "|", 5)
		if len(ps) != 5 {
			return nil, false
		}
		n := c21Node{acc: map[string]string{}}
		n.typ, _ = strconv.Atoi(ps[0])
		n.off, _ = strconv.Atoi(ps[1])
		n.end, _ = strconv.Atoi(ps[2])
		if ps[3] != "-" {
			for _, k := range strings.Split(ps[3], ",") {
				v, _ := strconv.Atoi(k)
				n.kids = append(n.kids, v)
			}
		}
		for _, a := range strings.Split(ps[4], ";") {
			if a == "" {
				continue
			}
			kv := strings.SplitN(a, "=", 2)
			if len(kv) == 2 {
				n.acc[kv[0]] = kv[1]
				n.accOrder = append(n.accOrder, kv[0])
			}
		}
		nodes = append(nodes, n)
	}
	return nodes, true
}

func inInts(l []int, v int) bool {
	for _, x := range l {
		if x == v {
			return true
		}
	}
	return false
}

// judgeNode returns the violations of property C21 visible at one node and the canonical accessor
// answer (`r0 r1 …`, one entry per field: indices, `-` absent, `.` empty list, `!` panic).
func (t *c21Types) judgeNode(n *c21Node) (viol []string, answer string) {
	v, s, a := t.judgeNode2(n)
	t.soft += len(s)
	return v, a
}

func (t *c21Types) judgeNode2(n *c21Node) (viol, soft []string, answer string) {
	if n.typ < 1 || n.typ > len(t.types.RangeTypes) {
		return []string{fmt.Sprintf("node of unknown type %d in the tree", n.typ)}, nil, "?"
	}
	rt := &t.types.RangeTypes[n.typ-1]
	if _, bad := n.acc["F"]; bad {
		viol = append(viol, fmt.Sprintf("factory To…Node panicked on a %s node", rt.Name))
	}
	covered := make([]bool, len(n.kids))
	var ans []string
	for _, f := range rt.Fields {
		m := c21Title(f.Name)
		v, ok := n.acc[m]
		if !ok {
			viol = append(viol, fmt.Sprintf("accessor %s.%s was not called (harness)", rt.Name, m))
			ans = append(ans, "?")
			continue
		}
		sel := t.expand(f.Selector)
		desc := fmt.Sprintf("%s.%s() [selector %v, required=%v, list=%v, fetchAfter=%d]", rt.Name, m, f.Selector, f.IsRequired, f.IsList, f.FetchAfter)
		if v == "!" {
			viol = append(viol, "accessor "+desc+" panicked")
			ans = append(ans, "!")
			continue
		}
		flag := ""
		if !f.IsList && !f.IsRequired && len(v) > 0 {
			flag = v[len(v)-1:]
			v = v[:len(v)-1]
		}
		ans = append(ans, v)
		var idxs []int
		bad := false
		if v != "-" && v != "." {
			for _, p := range strings.Split(v, ",") {
				if p == "?" {
					viol = append(viol, "accessor "+desc+" returned a node that is not a child of the receiver")
					bad = true
					continue
				}
				if p == "-" {
					viol = append(viol, "accessor "+desc+" returned an invalid (nil) node inside a list")
					bad = true
					continue
				}
				i, err := strconv.Atoi(p)
				if err != nil || i < 0 || i >= len(n.kids) {
					viol = append(viol, "accessor "+desc+" unparsable result "+p)
					bad = true
					continue
				}
				idxs = append(idxs, i)
			}
		}
		if bad {
			continue
		}
		for _, i := range idxs {
			covered[i] = true
			if !inInts(sel, n.kids[i]) {
				viol = append(viol, fmt.Sprintf("accessor %s returned a node of type %s outside its declared selector", desc, t.typeName(n.kids[i])))
			}
		}
		switch {
		case f.IsList:
			if f.IsRequired && len(idxs) == 0 {
				// Parser.Types says `(X)+`; the accessor itself cannot fail. Recorded separately (see c21()).
				soft = append(soft, "list accessor "+desc+" is declared non-empty `(…)+` in Parser.Types but returned an empty list [C21-required-list-empty]")
			}
		case f.IsRequired:
			if len(idxs) != 1 {
				viol = append(viol, "required accessor "+desc+" returned an invalid (nil) node")
			}
		default:
			if (flag == "+") != (len(idxs) == 1) {
				viol = append(viol, "optional accessor "+desc+" presence flag "+flag+" does not match the returned node")
			}
		}
	}
	for i, k := range n.kids {
		if !covered[i] && !t.injected[k] {
			viol = append(viol, fmt.Sprintf("child #%d (%s) of a %s node is not returned by any accessor", i, t.typeName(k), rt.Name))
		}
	}
	return viol, soft, strings.Join(ans, " ")
}

func (t *c21Types) typeName(id int) string {
	if id >= 1 && id <= len(t.types.RangeTypes) {
		return t.types.RangeTypes[id-1].Name
	}
	return fmt.Sprintf("node(%d)", id)
}

// pretty tree for violation reports
func (t *c21Types) describe(nodes []c21Node) string {
	var ps []string
	for _, n := range nodes {
		var ks []string
		for _, k := range n.kids {
			ks = append(ks, t.typeName(k))
		}
		ps = append(ps, fmt.Sprintf("%s[%d,%d)(%s)", t.typeName(n.typ), n.off, n.end, strings.Join(ks, " ")))
	}
	return strings.Join(ps, " ")
}

func (t *c21Types) nontrivial() bool {
	for _, rt := range t.types.RangeTypes {
		if len(rt.Fields) >= 2 {
			return true
		}
	}
	return false
}

// ---------------------------------------------------------------------------------------------

type c21Item struct {
	g  *Gram // compiled grammar view
	gp *GenParser
	t  *c21Types
	o  *c21Opts
	// fieldsOnly: the grammar has a possibly-empty node (only generated once the [C21-empty-node] probe
	// passes): the non-emptiness condition of checkTypes does not apply, `fields` = checkFields is asked.
	fieldsOnly bool
}

// c21Witnesses: one minimal grammar + input per known defect class. They are run against the real code at
// start-up (c21Probe); while a class misbehaves it is reported once with its token and the random stream
// avoids exactly that class; once the probe passes the stream includes the class.
var c21Witnesses = []struct{ class, rules, input, note string }{
	{"C21-empty-node", "S -> Root : ( -> Emp) ('a' -> X) 'b' ;", "a b",
		"the AST builder (go_ast_parse.go.tmpl addNode) nests by offsets: the empty node Emp[0,0) becomes a child of the following sibling X[0,1)"},
	{"C21-empty-node", "S -> Root : ('a' (N -> T) -> P) 'b' ;\nN : 'a' | %empty ;", "a b",
		"the AST builder nests by offsets: the empty node T[2,2) at the end of P[0,2) is left outside its parent"},
	{"C21-separator-token", "%inject ',' -> Comma;\nS -> Root : (E separator ',')+ ;\nE -> E : 'a' ;", "a , a",
		"syntax/types.go exprPhrase ignores the separator (List.Sub[1]): the reported separator nodes belong to no field"},
	{"C21-required-list-empty", "S -> Root : (A -> TA) | 'c' (B -> TB) ;\nA : ('a' -> X) B ;\nB : A ('b' -> Y) | (',' -> Z) ;", "c ,",
		"syntax/types.go nontermPhrase caches the phrase of the SCC root for every member: TB is declared `(X)+`"},
	{"C21-tokenset-interface", "%interface TokenSet;\nS -> Root : 'b' E? ;\nE -> TokenSet : 'a' -> A ;", "b",
		"go_ast.go.tmpl omits `func (NilNode) tokenSetNode()` for any category NAMED TokenSet, also a user-declared one"},
}

func c21WitnessTM(name, rules string) string {
	return fmt.Sprintf("language %s(go);\n\nlang = %q\npackage = \"gp/%s\"\neventBased = true\neventFields = true\neventAST = true\n\n::lexer\n\nWhiteSpace: /[ ]+/ (space)\n'a': /a/\n'b': /b/\n'c': /c/\n',': /,/\n\n::parser\n\n%%input S;\n\n%s\n", name, name, name, rules)
}

// c21Probe runs the witnesses on the real code and returns the set of classes that still misbehave.
// Hard classes are reported once (c.Violate, token first); [C21-required-list-empty] is only counted: the
// generated Go API does not mark a list as required (the accessor returns a slice for `(X)+` and `(X)*`
// alike; IsRequired of a list field only shows in the descriptor comment of listener.go), so nothing a
// user can rely on breaks.
func c21Probe(c *Ctx) map[string]bool {
	bad := map[string]bool{}
	b, err := newAstBatch()
	if err != nil {
		c.Notes = append(c.Notes, err.Error())
		return bad
	}
	defer b.Close()
	type pitem struct {
		w  int
		gp *GenParser
		t  *c21Types
	}
	var items []pitem
	for i, w := range c21Witnesses {
		name := fmt.Sprintf("w%d", i)
		gp := compileTM(name, c21WitnessTM(name, w.rules), TMOpts{})
		if gp.Err != nil || gp.G == nil || gp.G.Parser.Types == nil {
			// the compiler no longer accepts the witness: the class cannot occur
			c.Count("probe [" + w.class + "]: witness rejected by the compiler")
			continue
		}
		b.Add(gp)
		items = append(items, pitem{i, gp, newC21Types(gp)})
	}
	if len(items) == 0 {
		return bad
	}
	if err := b.Build(); err != nil {
		c.Violate("C21 probe grammars do not build: "+firstN(err.Error(), 600), items[0].gp.TM)
		for _, w := range c21Witnesses {
			bad[w.class] = true
		}
		return bad
	}
	var reqs []astReq
	for _, it := range items {
		reqs = append(reqs, astReq{Parser: it.gp.Name, Text: c21Witnesses[it.w].input})
	}
	outs := b.Run(reqs)
	for i, it := range items {
		w := c21Witnesses[it.w]
		nodes, ok := c21ParseOut(outs[i])
		var viol, soft []string
		if !ok {
			viol = append(viol, "ast runner answered "+firstN(outs[i], 100))
		}
		for k := range nodes {
			v, s, _ := it.t.judgeNode2(&nodes[k])
			viol = append(viol, v...)
			soft = append(soft, s...)
		}
		input := fmt.Sprintf("input %q, tree %s; rules: %s ; types: %s", w.input, it.t.describe(nodes), strings.ReplaceAll(w.rules, "\n", " "), it.t.descriptors())
		switch {
		case len(viol) > 0 && w.class == "C21-required-list-empty":
			bad[w.class] = true
			c.Violate("["+w.class+"] "+viol[0], input)
		case len(viol) > 0:
			if !bad[w.class] {
				c.Violate("["+w.class+"] "+viol[0]+" ("+w.note+")", input)
			}
			bad[w.class] = true
			c.Count("probe [" + w.class + "] fails: class avoided by the generator")
		case len(soft) > 0:
			bad[w.class] = true
			c.Count("probe [" + w.class + "] present: " + soft[0] + " — counted only: the generated Go API does not distinguish `(X)+` from `(X)*` (slice result; IsRequired of a list is only a comment in listener.go)")
		default:
			c.Count("probe [" + w.class + "] passes: class included in the random stream")
		}
	}
	return bad
}

func c21(c *Ctx) {
	c.Rule = "random CFGs in which every nonterminal is reachable from the start symbol (2-5 nonterminals, 2-5 terminals, empty rules, back references = recursion; LALR(1) conflict-free, all productive) decorated with nested arrows whose node type names are drawn WITH reuse from a pool of 3-8 names (merged phrases, multi-type selectors, fields of equal selector -> FetchAfter chains), named fields f=X / f+=X on single-field elements, optional parts, lists (X+, X*, (X separator t)+, (… -> T)+), categories (%interface on nonterminals whose rules all carry an arrow), reported terminals (%inject on grammar terminals), an injected comment token (placed between tokens of the inputs) and fileNode; compiled by the REAL compiler with eventFields+eventAST (grammars it rejects — overlapping fields, several fields behind an assignment, conflicts introduced by the decoration — are counted and skipped; up to 40 decorations per base grammar). Two of five grammars come, in rotation, from four hand-shaped random families written directly as .tm (c21fam.go, own PRNG per grammar): `cycle` = recursion through 2-4 nonterminals (mostly 3-4) with no arrow inside the cycle, random entry member, each member contributing a node / a terminal / nothing (SCC detection in nontermPhrase: all fields of the enclosing node must become lists); `groups` = one node with ordered named fields in 2-3 separate groups of overlapping node types — a plain node, a category, or category-less UNION selectors built from helper nonterminals `U: gN=(t -> X) | gN=(u -> Y)` over partly overlapping subsets —, the last field of a group optional or a list at random (FetchAfter chains of fixConflictingFields, selector variables of go_ast.go.tmpl); `sharednt` = a helper nonterminal H without arrow whose named field merges m = 1..7 node types, used (mostly H first) from 2-3 typed parents that each add their own alternative to the same field, directly or through a transparent nonterminal, declarations in random order, `Root: Par | Par Par` so that every alternative of every parent is among the enumerated sentences (mergeFields vs the phrase cache); `shared` = reported terminals sharing one node name with other %inject lines in between (shape X…Y…X forced in 3 of 4), or named like a field-less node an arrow produces, used inside typed rules (token -> range type binding in resolveTypes). A generated package that does not build is reported and the rest of the batch is still run. Per grammar: (1) `validate`: Parser.Types + compiled rules/reports -> Lean checkTypes (hypothesis of C21_checkTypes_sound; textmapper.tm and, in the thorough tier, js.tm go through `fields` = checkFields because they contain a possibly-empty node); (2) END TO END, independent of the validator: the generated ast packages are built in one batch and for every sentence of the compiled grammar up to 6 tokens (cap 300) plus 40 random sentences the whole tree is walked and EVERY accessor of EVERY node is called (calls generated from Parser.Types, each under recover) and the factory To<Lang>Node on every node: panic, invalid required node, node outside the receiver's children, node type outside the expanded selector, presence flag mismatch, child (other than an injected token) returned by no accessor -> violation with grammar and input; (3) `access`: what the real accessors returned vs Lean `access` (mirror of the template chain) on the observed child sequence, judged by the property on disagreement; (4) `seqs`: every observed child sequence of a T node must be in L(approx g T) (ties `layout`/ChildSeq to the offset-based tree builder). non-trivial = grammar with a node type of >= 2 fields; distinct by grammar text. KNOWN DEFECT CLASSES: at start-up one minimal witness grammar per class is run against the real code (probe); while a class misbehaves it is reported ONCE with its token and the random stream avoids exactly that class, once its probe passes the stream includes it. [C21-empty-node] a reported range or typed rule that can derive the empty string (the AST builder nests by offsets: an empty node becomes a child of the following sibling or leaves its parent) — avoided by skipping grammars whose COMPILED rules contain such a range; [C21-separator-token] a reported terminal used as a list separator (exprPhrase ignores List.Sub[1], the separator nodes are returned by no accessor) — avoided by drawing separators from unreported terminals; [C21-tokenset-interface] an interface the grammar itself names `TokenSet` (the template omits `func (NilNode) tokenSetNode()`, an absent optional field of that category panics) — avoided by never using that name; [C21-required-list-empty] a list field declared `(X)+` that can be empty (phrase cache shared by all members of a recursive SCC) — COUNTED, not a violation: the generated Go API returns a slice for `(X)+` and `(X)*` alike, IsRequired of a list field only appears in the descriptor comment of listener.go.; further families: twins (lists whose elements are structurally identical and differ only in the node name after ->), inputs (a second, mostly no-eoi %input whose subtree has fields of its own; every user input is an entry point of the runner: input 0 through the generated ast.Parse, further inputs through a builder copy VerifParse added to the scratch package), catopt (category rules `-> Value` with optional parts, which the compiler must reject or handle)"
	if f := os.Getenv("TMH_C21_FILE"); f != "" {
		c21Debug(c, f)
		return
	}
	bad := c21Probe(c)
	nG := c.N(40, 400)
	batchSize := c.N(40, 80)
	c21Shipped(c)
	famN := 0
	for done := 0; done < nG; done += batchSize {
		var items []*c21Item
		for k := 0; k < batchSize && done+k < nG; k++ {
			if k%5 == 1 || k%5 == 3 || k%5 == 4 {
				// three of five grammars come from the hand-shaped families (c21fam.go), in rotation
				for tries := 0; tries < 20; tries++ {
					name := fmt.Sprintf("t%d", done+k)
					o := &c21Opts{Comment: c.Rng.Intn(3) == 0}
					// own PRNG per family grammar: tuning one family does not shift the others
					fr := rand.New(rand.NewSource(c.Seed*1000003 + int64(done+k)*7919 + int64(tries)))
					fam, tm := c21Family(fr, famN, name, o.Comment)
					gp := compileTM(name, tm, TMOpts{})
					if gp.Err != nil {
						c.Count("family " + fam + ": compiler rejects: " + firstWords(c21ErrClass(errSummary(gp.Err)), 7))
						continue
					}
					if gp.G.Parser.Types == nil || len(gp.G.Parser.Types.RangeTypes) == 0 || c21HasEmptyRange(gp) {
						continue
					}
					c.Count("family " + fam)
					items = append(items, &c21Item{g: c21Gram(gp), gp: gp, t: newC21Types(gp), o: o})
					break
				}
				famN++ // next family, also when this one produced nothing (e.g. every variant rejected)
				continue
			}
			var g *Gram
			for tries := 0; tries < 40; tries++ {
				if tries%10 == 0 {
					g = c21BaseGram(c)
				}
				if g == nil {
					continue
				}
				o := &c21Opts{Comment: c.Rng.Intn(2) == 0, FileNode: c.Rng.Intn(6) == 0, Optimize: c.Rng.Intn(4) == 0,
					EmptyNodes:   !bad["C21-empty-node"] && c.Rng.Intn(2) == 0,
					SepReported:  !bad["C21-separator-token"],
					TokenSetName: !bad["C21-tokenset-interface"] && c.Rng.Intn(4) == 0}
				for t := 1; t < g.NT; t++ {
					if c.Rng.Intn(4) == 0 {
						o.Reported = append(o.Reported, t)
					}
				}
				name := fmt.Sprintf("t%d", done+k)
				gp := compileTM(name, c21TM(c.Rng, g, name, o), TMOpts{})
				if gp.Err != nil {
					c.Count("compiler rejects: " + firstWords(c21ErrClass(errSummary(gp.Err)), 7))
					continue
				}
				if gp.G.Parser.Types == nil || len(gp.G.Parser.Types.RangeTypes) == 0 {
					continue
				}
				if c21HasEmptyRange(gp) && bad["C21-empty-node"] {
					c.Count("avoided: a reported range can derive the empty string [C21-empty-node]")
					continue
				}
				items = append(items, &c21Item{g: c21Gram(gp), gp: gp, t: newC21Types(gp), o: o, fieldsOnly: c21HasEmptyRange(gp)})
				break
			}
		}
		c21RunBatch(c, items)
	}
}

// c21Shipped: the validator on the real Parser.Types of the shipped grammars that use eventFields
// (their generated packages live in /repo and are not rebuilt here).
func c21Shipped(c *Ctx) {
	repo := os.Getenv("VERIF_REPO")
	if repo == "" {
		repo = "/repo"
	}
	// parsers/test/test.tm is left out: its semantic actions call p.listener by hand (PlusExpr inside
	// `customPlus -> __ignoreContent`, Int7/Int9), which the annotated-grammar model does not see.
	files := []string{"parsers/tm/textmapper.tm"}
	if c.Tier == "thorough" {
		files = append(files, "parsers/js/js.tm")
	}
	for _, f := range files {
		b, err := os.ReadFile(repo + "/" + f)
		if err != nil {
			c.Notes = append(c.Notes, err.Error())
			continue
		}
		gp := compileTM("shipped", string(b), TMOpts{})
		if gp.G == nil || gp.G.Parser == nil || gp.G.Parser.Types == nil {
			c.Notes = append(c.Notes, f+": "+errSummary(gp.Err))
			continue
		}
		t := newC21Types(gp)
		c.Count("shipped grammars validated")
		c.Debugf("validate shipped %s", f)
		op := "validate"
		if c21HasEmptyRange(gp) {
			// both shipped grammars contain a possibly-empty node (tm: `rule0: predicate? rhsParts? reportClause? -> Rule`,
			// test: `( -> Bar)`, `(empty1 -> Empty1)`): only the field part of the validator applies
			c.Count("shipped grammar with a possibly-empty node range (" + f + "): field part only")
			op = "fields"
		}
		c.Case(fmt.Sprintf("%s %s %s", op, t.grammarStr(), t.typesStr()), "ok", f)
	}
}

func c21ErrClass(s string) string {
	switch {
	case strings.Contains(s, "contain overlapping sets"):
		return "fields with overlapping node types"
	case strings.Contains(s, "multiple fields found behind"):
		return "multiple fields behind an assignment"
	case strings.Contains(s, "conflicts:"):
		return "LALR conflicts (decoration changed the language)"
	case strings.Contains(s, "must produce exactly one node"):
		return "category expression must produce exactly one node"
	}
	// drop quoted fragments so that the buckets stay few
	var sb strings.Builder
	inq := false
	for _, ch := range s {
		if ch == '\'' {
			inq = !inq
			continue
		}
		if !inq {
			sb.WriteRune(ch)
		}
	}
	return sb.String()
}

func c21RunBatch(c *Ctx, items []*c21Item) {
	if len(items) == 0 {
		return
	}
	b, err := newAstBatch()
	if err != nil {
		c.Notes = append(c.Notes, err.Error())
		return
	}
	defer b.Close()
	for _, it := range items {
		b.Add(it.gp)
	}
	if err := b.Build(); err != nil {
		// find the packages that do not build (one by one, only on failure), report the first and go on
		// with the others
		var good []*c21Item
		reported := false
		for _, it := range items {
			b1, _ := newAstBatch()
			b1.Add(it.gp)
			e1 := b1.Build()
			b1.Close()
			if e1 == nil {
				good = append(good, it)
				continue
			}
			c.Count("generated package does not build")
			if !reported {
				reported = true
				c.Violate("generated ast package (or the accessor calls generated from Parser.Types) does not build: "+firstN(e1.Error(), 600), it.gp.TM+"\ntypes: "+it.t.descriptors())
			}
		}
		if !reported {
			c.Violate("batch of generated ast packages does not build: "+firstN(err.Error(), 600), items[0].gp.TM)
			return
		}
		if len(good) < len(items) {
			c21RunBatch(c, good)
		}
		return
	}
	var reqs []astReq
	var metas []*c21Item
	for _, it := range items {
		// every user input of the grammar is an entry point (ast.Parse for the first, Parse<Input> for the others)
		for idx, in := range it.g.Inputs {
			if idx > 0 {
				c.Count("trees parsed through a further input")
			}
			for _, w := range c21Sentences(c.Rng, it.g, in.Sym, 6, 300, 40) {
				reqs = append(reqs, astReq{Parser: it.gp.Name, Text: c21Text(c.Rng, it.gp, w, it.o.Comment, it.o.FileNode), Input: idx})
				metas = append(metas, it)
			}
		}
	}
	outs := b.Run(reqs)
	accSeen := map[string]bool{}
	seqSeen := map[*c21Item]map[string]bool{}
	violated := map[*c21Item]bool{}
	for i, it := range metas {
		out := outs[i]
		text := reqs[i].Text
		nodes, ok := c21ParseOut(out)
		if !ok {
			switch {
			case out == "syntax":
				c.Count("sentence rejected by the generated parser")
			case strings.HasPrefix(out, "error:"):
				c.Count("parse " + out)
			default:
				c.Violate("ast runner failed: "+firstN(out, 200), fmt.Sprintf("input %q with grammar:\n%s", text, it.gp.TM))
			}
			continue
		}
		c.Count("trees walked")
		for k := range nodes {
			n := &nodes[k]
			viol, ans := it.t.judgeNode(n)
			if len(viol) > 0 && !violated[it] {
				violated[it] = true
				c.Violate(viol[0], fmt.Sprintf("input %q%s, node %s[%d,%d) with children (%s); grammar:\n%s\ntypes: %s", text, c21Entry(it, reqs[i].Input), it.t.typeName(n.typ), n.off, n.end, it.t.kidNames(n), it.gp.TM, it.t.descriptors()))
			}
			if n.typ < 1 || n.typ > len(it.t.types.RangeTypes) {
				continue
			}
			rt := &it.t.types.RangeTypes[n.typ-1]
			// grammar-produced children only (the model has no injected tokens)
			var kids []int
			for _, kd := range n.kids {
				if !it.t.injected[kd] {
					kids = append(kids, kd)
				}
			}
			if seqSeen[it] == nil {
				seqSeen[it] = map[string]bool{}
			}
			if !it.t.reported[n.typ] && !it.t.injected[n.typ] { // token nodes are leaves, not ranges of the grammar
				seqSeen[it][fmt.Sprintf("%d:%s", n.typ, ints(kids))] = true
			}
			if len(rt.Fields) > 0 {
				line := fmt.Sprintf("access %s %s", it.t.fieldsStr(rt), ints(n.kids))
				if !accSeen[line] {
					accSeen[line] = true
					c.Count("access cases")
					c.Case(line, ans, "")
				}
			}
		}
	}
	for _, it := range items {
		if it.t.soft > 0 {
			c.Count("grammars where a `(X)+` list accessor returned an empty list [C21-required-list-empty] (not a violation, see rule)")
		}
		key := ""
		if it.t.nontrivial() {
			key = it.gp.TM
		}
		c.Count("grammars validated")
		c.Debugf("validate %s", it.gp.TM)
		op := "validate"
		if it.fieldsOnly {
			op = "fields"
		}
		c.Case(fmt.Sprintf("%s %s %s", op, it.t.grammarStr(), it.t.typesStr()), "ok", key)
		if m := seqSeen[it]; len(m) > 0 {
			var ks []string
			for k := range m {
				ks = append(ks, k)
			}
			sort.Strings(ks)
			c.Debugf("seqs %s", it.gp.TM)
			c.Case(fmt.Sprintf("seqs %s %s", it.t.grammarStr(), strings.Join(ks, ";")), "ok", "")
		}
	}
}

func c21Entry(it *c21Item, idx int) string {
	if idx == 0 {
		return ""
	}
	return fmt.Sprintf(" parsed through input #%d (%s)", idx, it.gp.G.Syms[it.g.Inputs[idx].Sym].Name)
}

func (t *c21Types) kidNames(n *c21Node) string {
	var ks []string
	for _, k := range n.kids {
		ks = append(ks, t.typeName(k))
	}
	return strings.Join(ks, " ")
}

func (t *c21Types) descriptors() string {
	var ps []string
	for i := range t.types.RangeTypes {
		rt := &t.types.RangeTypes[i]
		ps = append(ps, rt.Name+": "+rt.Descriptor())
	}
	return strings.Join(ps, "; ")
}

// c21Debug: TMH_C21_FILE=<grammar.tm> [TMH_C21_INPUTS="a b|c d"] runs one grammar verbosely.
func c21Debug(c *Ctx, file string) {
	b, err := os.ReadFile(file)
	if err != nil {
		c.Notes = append(c.Notes, err.Error())
		return
	}
	gp := compileTM("dbg", string(b), TMOpts{})
	if gp.Err != nil {
		fmt.Println("compile error:", gp.Err)
		return
	}
	t := newC21Types(gp)
	fmt.Println("types:", t.descriptors())
	for i := range t.types.RangeTypes {
		rt := &t.types.RangeTypes[i]
		fmt.Printf("  %d %s: %s\n", i+1, rt.Name, t.fieldsStr(rt))
	}
	fmt.Println("validate", t.grammarStr(), t.typesStr())
	ab, _ := newAstBatch()
	defer ab.Close()
	ab.Add(gp)
	if err := ab.Build(); err != nil {
		fmt.Println(err)
		return
	}
	var reqs []astReq
	if in := os.Getenv("TMH_C21_INPUTS"); in != "" {
		for _, s := range strings.Split(in, "|") {
			reqs = append(reqs, astReq{Parser: "dbg", Text: s})
		}
	} else {
		g := c21Gram(gp)
		for _, w := range c21Sentences(c.Rng, g, g.Inputs[0].Sym, 5, 60, 10) {
			reqs = append(reqs, astReq{Parser: "dbg", Text: c21Text(c.Rng, gp, w, false, false)})
		}
	}
	outs := ab.Run(reqs)
	for i, o := range outs {
		fmt.Printf("%q => %s\n", reqs[i].Text, o)
		if nodes, ok := c21ParseOut(o); ok {
			fmt.Println("   ", t.describe(nodes))
			for k := range nodes {
				v, ans := t.judgeNode(&nodes[k])
				if len(v) > 0 {
					fmt.Println("    VIOLATION:", v, "answer", ans)
				}
			}
		}
	}
}
