package main

import (
	"fmt"
	"os"
	"sort"
	"strings"

	"github.com/inspirer/textmapper/util/container"
	"github.com/inspirer/textmapper/util/set"
)

func init() { props["C25"] = c25 }

func c25(c *Ctx) {
	c25Closure(c)
	c.Rule += " || BITSET: IntSet.BitSet(size) for finite/co-finite sets over universes at the 32-bit word boundaries (31..33, 63..65, 96, 128) and random sizes, every bit compared with membership || SET ALGEBRA: random finite/co-finite sets over universes 0..u (u<=12, densities 0..1, plus empty/full edge cases) fed to container.Merge/Intersect; non-trivial = both operands non-empty; distinct by (op, operands)"
	// IntSet.BitSet at word boundaries: universes of 31..33, 63..65, 96, 128 elements and others
	for i, nb := 0, c.N(400, 8000); i < nb; i++ {
		size := []int{31, 32, 33, 63, 64, 65, 96, 128, 1 + c.Rng.Intn(140)}[c.Rng.Intn(9)]
		p := []float64{0, 0.02, 0.2, 0.8, 1}[c.Rng.Intn(5)]
		s := container.IntSet{Inverse: c.Rng.Intn(2) == 0, Set: sortedSubset(c.Rng, size-1, p)}
		bs := s.BitSet(size)
		var sb strings.Builder
		for v := 0; v < size; v++ {
			if bs.Get(v) {
				sb.WriteByte('1')
			} else {
				sb.WriteByte('0')
			}
		}
		c.Count(fmt.Sprintf("bitset size%%32==0: %v", size%32 == 0))
		line := fmt.Sprintf("bitset %s %s %d", b2s(s.Inverse), ints(s.Set), size)
		c.Case(line, sb.String(), line)
	}
	n := c.N(4000, 200000)
	for i := 0; i < n; i++ {
		u := 1 + c.Rng.Intn(12)
		mk := func() container.IntSet {
			p := []float64{0, 0.2, 0.5, 0.8, 1}[c.Rng.Intn(5)]
			return container.IntSet{Inverse: c.Rng.Intn(2) == 0, Set: sortedSubset(c.Rng, u, p)}
		}
		a, b := mk(), mk()
		op := []string{"merge", "inter"}[c.Rng.Intn(2)]
		var res container.IntSet
		reuse := make([]int, 0, 4)
		if op == "merge" {
			res = container.Merge(a, b, reuse)
		} else {
			res = container.Intersect(a, b, reuse)
		}
		line := fmt.Sprintf("%s %s %s %s %s", op, b2s(a.Inverse), ints(a.Set), b2s(b.Inverse), ints(b.Set))
		key := ""
		if len(a.Set) > 0 && len(b.Set) > 0 {
			key = line
		}
		c.Count(fmt.Sprintf("%s inv=%s%s", op, b2s(a.Inverse), b2s(b.Inverse)))
		c.Case(line, fmt.Sprintf("%s %s", b2s(res.Inverse), ints(res.Set)), key)
		// direct oracle (search for a failing input of the property itself): brute-force membership
		for v := -1; v <= u+1; v++ {
			in := func(s container.IntSet) bool {
				f := false
				for _, x := range s.Set {
					if x == v {
						f = true
					}
				}
				return f != s.Inverse
			}
			want := in(a) || in(b)
			if op == "inter" {
				want = in(a) && in(b)
			}
			if in(res) != want {
				c.Violate(fmt.Sprintf("element %d: membership in result is %v, set semantics say %v", v, in(res), want), line)
				break
			}
		}
	}
}

// ---------------------------------------------------------------------------------------------
// set-equation closure (util/set/closure.go)

// c25Sys is one equation system as the public API builds it.
type c25Sys struct {
	ops   []int   // 0 union (Add), 1 intersection, 2 complement
	edges [][]int // successors, in the order the API calls add them
	inits [][]int // the slice given to Add
}

func (s *c25Sys) line() string {
	in := make([]string, len(s.inits))
	for i, r := range s.inits {
		in[i] = ints(r)
	}
	ii := "_"
	if len(in) > 0 {
		ii = strings.Join(in, ";")
	}
	return fmt.Sprintf("closure %s %s %s", ints(s.ops), intss(s.edges), ii)
}

// run builds the system through NewClosure/Add/Include/Intersect/Complement and calls Compute.
func (s *c25Sys) run(bufSize int) (answer string, sets []container.IntSet, isErr bool) {
	defer func() {
		if r := recover(); r != nil {
			answer, sets, isErr = "panic", nil, false
		}
	}()
	cl := set.NewClosure(bufSize)
	fs := make([]*set.FutureSet, len(s.ops))
	for i, op := range s.ops {
		switch op {
		case 0:
			fs[i] = cl.Add(append([]int(nil), s.inits[i]...))
		case 1:
			var args []*set.FutureSet
			for _, e := range s.edges[i] {
				args = append(args, fs[e])
			}
			fs[i] = cl.Intersect(args...)
		case 2:
			fs[i] = cl.Complement(fs[s.edges[i][0]], nil)
		}
	}
	for i, op := range s.ops {
		if op == 0 {
			for _, e := range s.edges[i] {
				fs[i].Include(fs[e])
			}
		}
	}
	err := cl.Compute()
	if err != nil {
		idx := map[*set.FutureSet]int{}
		for i, f := range fs {
			idx[f] = i
		}
		seen := map[int]bool{}
		var bad []int
		for _, f := range err.(set.ClosureError) {
			if !seen[idx[f]] {
				seen[idx[f]] = true
				bad = append(bad, idx[f])
			}
		}
		sort.Ints(bad)
		return "error " + ints(bad), nil, true
	}
	parts := make([]string, len(fs))
	for i, f := range fs {
		parts[i] = b2s(f.IntSet.Inverse) + ":" + ints(f.IntSet.Set)
		sets = append(sets, f.IntSet)
	}
	if len(parts) == 0 {
		return "ok _", sets, false
	}
	return "ok " + strings.Join(parts, ";"), sets, false
}

// oracle: brute force over the universe 0..u (u itself is never mentioned: it stands for every
// unmentioned integer). Returns (error expected, least solution as bit masks per node).
func (s *c25Sys) oracle(u int) (bool, []uint32) {
	n := len(s.ops)
	reach := make([][]bool, n)
	for i := range reach {
		reach[i] = make([]bool, n)
		for _, e := range s.edges[i] {
			reach[i][e] = true
		}
	}
	for k := 0; k < n; k++ {
		for i := 0; i < n; i++ {
			for j := 0; j < n; j++ {
				if reach[i][k] && reach[k][j] {
					reach[i][j] = true
				}
			}
		}
	}
	for v := 0; v < n; v++ {
		if s.ops[v] == 2 && reach[v][v] {
			return true, nil
		}
	}
	full := uint32(1)<<uint(u+1) - 1
	val := make([]uint32, n)
	done := make([]bool, n)
	same := func(a, b int) bool { return a == b || (reach[a][b] && reach[b][a]) }
	for left := n; left > 0; {
		// pick a node whose component only depends on finished nodes
		pick := -1
		for v := 0; v < n && pick < 0; v++ {
			if done[v] {
				continue
			}
			ok := true
			for w := 0; w < n; w++ {
				if !done[w] && !same(v, w) && reach[v][w] {
					ok = false
				}
			}
			if ok {
				pick = v
			}
		}
		var comp []int
		for w := 0; w < n; w++ {
			if same(pick, w) {
				comp = append(comp, w)
			}
		}
		for _, v := range comp {
			val[v] = 0
			if s.ops[v] == 0 {
				for _, x := range s.inits[v] {
					val[v] |= 1 << uint(x)
				}
			}
		}
		for changed := true; changed; {
			changed = false
			for _, v := range comp {
				var nv uint32
				switch s.ops[v] {
				case 0:
					nv = val[v]
					for _, e := range s.edges[v] {
						nv |= val[e]
					}
				case 1:
					nv = full
					for _, e := range s.edges[v] {
						nv &= val[e]
					}
				case 2:
					nv = full &^ val[s.edges[v][0]]
				}
				if nv != val[v] {
					val[v] = nv
					changed = true
				}
			}
		}
		for _, v := range comp {
			done[v] = true
			left--
		}
	}
	return false, val
}

func c25Mask(s container.IntSet, u int) uint32 {
	var m uint32
	for _, x := range s.Set {
		if x >= 0 && x <= u {
			m |= 1 << uint(x)
		}
	}
	if s.Inverse {
		m = (uint32(1)<<uint(u+1) - 1) &^ m
	}
	return m
}

// c25AliasWitness: ~{3} & {1,2,3} with a reuse buffer large enough to hold the operands.
func c25AliasWitness() (*c25Sys, int) {
	return &c25Sys{ops: []int{0, 0, 2, 1}, edges: [][]int{nil, nil, {0}, {2, 1}}, inits: [][]int{{3}, {1, 2, 3}, nil, nil}}, 10
}

func c25GenSys(c *Ctx, u int) *c25Sys {
	r := c.Rng
	var n int
	switch k := r.Intn(20); {
	case k == 0:
		n = r.Intn(2) // 0 or 1 node
	case k <= 2:
		n = 2
	default:
		n = 3 + r.Intn(10)
	}
	s := &c25Sys{ops: make([]int, n), edges: make([][]int, n), inits: make([][]int, n)}
	pInter := []float64{0, 0.15, 0.3}[r.Intn(3)]
	pCompl := []float64{0, 0.1, 0.25}[r.Intn(3)]
	for i := 0; i < n; i++ {
		x := r.Float64()
		switch {
		case i > 0 && x < pInter:
			s.ops[i] = 1
			k := []int{0, 1, 2, 2, 2, 3, 3, 4}[r.Intn(8)]
			for j := 0; j < k; j++ {
				s.edges[i] = append(s.edges[i], r.Intn(i))
			}
		case i > 0 && x < pInter+pCompl:
			s.ops[i] = 2
			s.edges[i] = []int{r.Intn(i)}
		default:
			s.ops[i] = 0
			s.inits[i] = sortedSubset(r, u, []float64{0, 0.15, 0.4, 0.8}[r.Intn(4)])
		}
	}
	// intersections: complement (or other non-union) operands first, half of the time
	for i := 0; i < n; i++ {
		if s.ops[i] == 1 && r.Intn(2) == 0 {
			sort.SliceStable(s.edges[i], func(a, b int) bool { return s.ops[s.edges[i][a]] == 2 && s.ops[s.edges[i][b]] != 2 })
		}
	}
	// planted shape: a union cycle whose members have base sets with large elements and edges that leave
	// the cycle towards sets with smaller elements
	if n >= 4 && r.Intn(5) == 0 {
		var us []int
		for i := 0; i < n; i++ {
			if s.ops[i] == 0 {
				us = append(us, i)
			}
		}
		if len(us) >= 3 {
			r.Shuffle(len(us), func(a, b int) { us[a], us[b] = us[b], us[a] })
			k := 2 + r.Intn(3)
			if k > len(us)-1 {
				k = len(us) - 1
			}
			cyc, out := us[:k], us[k:]
			for j, v := range cyc {
				s.edges[v] = append(s.edges[v], cyc[(j+1)%k])
				s.inits[v] = nil
				for x := u / 2; x < u; x++ {
					if r.Intn(2) == 0 {
						s.inits[v] = append(s.inits[v], x)
					}
				}
				if r.Intn(3) != 0 {
					o := out[r.Intn(len(out))]
					s.edges[v] = append(s.edges[v], o)
					s.inits[o] = nil
					for x := 0; x < (u+1)/2; x++ {
						if r.Intn(3) != 0 {
							s.inits[o] = append(s.inits[o], x)
						}
					}
				}
			}
		}
	}
	// Include edges of union nodes: forward (acyclic) and backward (cycles through later nodes)
	dens := []float64{0.05, 0.15, 0.3}[r.Intn(3)]
	back := []float64{0, 0.1, 0.3}[r.Intn(3)]
	for i := 0; i < n; i++ {
		if s.ops[i] != 0 {
			continue
		}
		for j := 0; j < n; j++ {
			p := dens
			if j >= i {
				p = back
			}
			if r.Float64() < p {
				s.edges[i] = append(s.edges[i], j)
			}
		}
	}
	return s
}

func c25Closure(c *Ctx) {
	findings := os.Getenv("VERIF_FINDINGS") != ""
	c.Rule = "CLOSURE: random equation systems built through the public API of util/set (0-12 nodes, mostly 3-12; Add with random subsets of 0..u-1, u<=8; " +
		"Intersect of 0-4 earlier nodes; Complement of an earlier node; Include edges forward and backward so that cycles run through unions, intersections and complements; " +
		"single-node, two-node and empty systems) run through the real NewClosure(0)/Compute and compared with the mirror; every system is also solved by a brute-force oracle " +
		"(Warshall reachability, components in dependency order, Kleene iteration on bit masks over 0..u where u stands for all unmentioned integers) and run again with " +
		"two other scratch-buffer sizes, NewClosure(1..3) and NewClosure(u+1 .. 3u+8) (storage reuse: results that fit the buffer alias it), each compared with the oracle; a fifth of the systems " +
		"contain a planted union cycle of 2-4 members with non-empty base sets and edges leaving the cycle towards sets with smaller elements; intersections put complement operands first half of the time; non-trivial = at least 3 nodes and one dependency cycle or intersection/complement node; distinct by system."
	// probe: storage reuse in slowClosure
	w, wu := c25AliasWitness()
	_, wsets, _ := w.run(wu)
	aliasDefect := len(wsets) != 4 || c25Mask(wsets[3], 4) != 0b00110
	c.Extra["closure_alias_probe_failed"] = aliasDefect
	if aliasDefect {
		c.Notes = append(c.Notes, "alias probe FAILED on the real set.Closure: NewClosure(10), ~{3} & {1,2,3} = "+fmt.Sprint(wsets[len(wsets)-1])+
			" (expected [1 2]); systems with an intersection node are run with a reuse buffer only under VERIF_FINDINGS=1 [C25-intersect-alias]")
		c.Rule += " AVOIDED CLASS (known defect [C25-intersect-alias], probe failed): runs with NewClosure(bufSize>0) of systems that have an intersection node with at least two operands whose " +
			"FIRST operand is co-finite in the least solution (any such node when an error is expected); these runs are only counted. Also avoided: a single-node system " +
			"consisting of Intersect() alone (Compute does nothing below two nodes; finding [C25-single-node])."
		{
			c.Violate("[C25-intersect-alias] slowClosure intersects into the reuse buffer that holds its own left operand: NewClosure(10); x=Add{3}; y=Add{1,2,3}; Intersect(Complement(x), y) = "+
				fmt.Sprint(wsets[len(wsets)-1])+", set semantics say [1 2]", "[C25-intersect-alias] "+w.line()+" bufSize=10")
		}
	}
	n := c.N(3000, 120000)
	for i := 0; i < n; i++ {
		u := 1 + c.Rng.Intn(8)
		s := c25GenSys(c, u)
		if len(s.ops) == 1 && s.ops[0] != 0 {
			continue
		}
		line := s.line()
		ans, sets, isErr := s.run(0)
		nontrivial := false
		wantErr, least := s.oracle(u)
		hasCycle := wantErr
		special := false
		for v, op := range s.ops {
			if op != 0 {
				special = true
			}
			for _, e := range s.edges[v] {
				if e == v {
					hasCycle = true
				}
			}
		}
		if len(s.ops) >= 3 && (special || hasCycle) {
			nontrivial = true
		}
		key := ""
		if nontrivial {
			key = line
		}
		switch {
		case ans == "panic":
			c.Count("closure panic")
		case isErr:
			c.Count("closure error")
		case special:
			c.Count(fmt.Sprintf("closure ok with inter/compl n=%d", min(len(s.ops)/4*4, 12)))
		default:
			c.Count("closure ok unions only")
		}
		c.Case(line, ans, key)
		// oracle 1: brute force
		check := func(tag string, ans string, sets []container.IntSet, isErr bool, bufSize int) bool {
			in := fmt.Sprintf("%s%s bufSize=%d", tag, line, bufSize)
			if ans == "panic" {
				c.Violate("Compute panics", in)
				return false
			}
			if isErr != wantErr {
				c.Violate(fmt.Sprintf("error reported = %v, but a complement node reaches itself = %v", isErr, wantErr), in)
				return false
			}
			if isErr {
				return true
			}
			for v := range s.ops {
				if got := c25Mask(sets[v], u); got != least[v] {
					c.Violate(fmt.Sprintf("node %d = %v, i.e. %b over 0..%d, but the least solution is %b", v, sets[v], got, u, least[v]), in)
					return false
				}
			}
			return true
		}
		if len(s.ops) >= 2 || len(s.ops) == 0 || s.ops[0] == 0 {
			check("", ans, sets, isErr, 0)
		}
		// oracle 2: the same system with storage reuse (scratch buffers of other sizes)
		inClass := false // the avoided class of [C25-intersect-alias]
		for v, op := range s.ops {
			if op == 1 && len(s.edges[v]) >= 2 {
				if wantErr || least[s.edges[v][0]]>>uint(u)&1 == 1 {
					inClass = true
				}
			}
		}
		for _, bs := range []int{1 + c.Rng.Intn(3), u + 1 + c.Rng.Intn(2*u+8)} {
			ans2, sets2, isErr2 := s.run(bs)
			switch {
			case inClass && aliasDefect && !findings:
				c.Count("closure bufSize>0 skipped (avoided class)")
			case inClass && aliasDefect:
				if ans2 != ans {
					check("[C25-intersect-alias] ", ans2, sets2, isErr2, bs)
				}
			default:
				if len(s.ops) >= 2 || len(s.ops) == 0 || s.ops[0] == 0 {
					if check("", ans2, sets2, isErr2, bs) {
						c.Count("closure bufSize>0 agrees with the oracle")
					}
				}
			}
		}
	}
	if findings {
		one := &c25Sys{ops: []int{1}, edges: [][]int{nil}, inits: [][]int{nil}}
		ans, _, _ := one.run(0)
		two := &c25Sys{ops: []int{1, 0}, edges: [][]int{nil, nil}, inits: [][]int{nil, nil}}
		ans2, _, _ := two.run(0)
		if ans != "ok 1:-" {
			c.Violate("[C25-single-node] Compute does nothing on a closure with fewer than two nodes: Intersect() alone stays "+ans+
				" while the same node in a two-node closure becomes "+ans2, "[C25-single-node] "+one.line())
		}
	}
}
