package main

import (
	"fmt"

	"github.com/inspirer/textmapper/util/container"
)

func init() { props["C25"] = c25 }

func c25(c *Ctx) {
	c.Rule = "random finite/co-finite sets over universes 0..u (u<=12, densities 0..1, plus empty/full edge cases) fed to container.Merge/Intersect; non-trivial = both operands non-empty; distinct by (op, operands)"
	n := c.N(4000, 200000)
	for i := 0; i < n; i++ {
		u := 1 + c.Rng.Intn(12)
		mk := func() container.IntSet {
			p := []float64{0, 0.2, 0.5, 0.8, 1}[c.Rng.Intn(5)]
			return container.IntSet{Inverse: c.Rng.Intn(2) == 0, Set: sortedSubset(c.Rng, u, p)}
		}
		a, b := mk(), mk()
		op := []string{"merge", "inter"}[c.Rng.Intn(2)]
		var res container.IntSet
		reuse := make([]int, 0, 4)
		if op == "merge" {
			res = container.Merge(a, b, reuse)
		} else {
			res = container.Intersect(a, b, reuse)
		}
		line := fmt.Sprintf("%s %s %s %s %s", op, b2s(a.Inverse), ints(a.Set), b2s(b.Inverse), ints(b.Set))
		key := ""
		if len(a.Set) > 0 && len(b.Set) > 0 {
			key = line
		}
		c.Count(fmt.Sprintf("%s inv=%s%s", op, b2s(a.Inverse), b2s(b.Inverse)))
		c.Case(line, fmt.Sprintf("%s %s", b2s(res.Inverse), ints(res.Set)), key)
		// direct oracle (search for a failing input of the property itself): brute-force membership
		for v := -1; v <= u+1; v++ {
			in := func(s container.IntSet) bool {
				f := false
				for _, x := range s.Set {
					if x == v {
						f = true
					}
				}
				return f != s.Inverse
			}
			want := in(a) || in(b)
			if op == "inter" {
				want = in(a) && in(b)
			}
			if in(res) != want {
				c.Violate(fmt.Sprintf("element %d: membership in result is %v, set semantics say %v", v, in(res), want), line)
				break
			}
		}
	}
}
