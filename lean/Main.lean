import TmVerif.Model.Proto
import TmVerif.Model.Drivers

/-! Line-protocol driver `tmv`: reads one case per line on stdin (`<prop> <op> <args…>`),
answers one line per case. Imports models only (core Lean; no Mathlib) so it links as an exe. -/
open TmVerif

def dispatch (line : String) : String :=
  let toks := (line.splitOn " ").filter (· ≠ "")
  match toks with
  | [] => "bad-op"
  | p :: rest =>
    match dispatchProp p rest with
    | some s => s
    | none => "bad-op"

partial def loop (h : IO.FS.Stream) (out : IO.FS.Stream) : IO Unit := do
  let line ← h.getLine
  if line.isEmpty then return ()
  let l := (line.dropEndWhile (fun c => c == '\n' || c == '\r')).toString
  out.putStrLn (dispatch l)
  loop h out

def main : IO Unit := do
  let out ← IO.getStdout
  loop (← IO.getStdin) out
  out.flush
