import TmVerif.Model.IntSet
import TmVerif.Proofs.IntSet
import TmVerif.Props.C25
