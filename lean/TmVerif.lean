-- Library root. Modules are built by name (`lake build TmVerif.Props.Cxx tmv`), see setup.sh and check.
import TmVerif.Model.Proto
