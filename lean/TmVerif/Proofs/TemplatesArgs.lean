/-
C14, arguments of a reference: the arguments `resolveRef` makes explicit (propagation by name,
defaults) and the order `sortArgs` puts them in leave the meaning of the reference unchanged.
-/
import TmVerif.Proofs.Templates
namespace TmVerif.Templates
open TmVerif.CFG

/-! ### generic -/

inductive All2 {α β : Type} (R : α → β → Prop) : List α → List β → Prop
  | nil : All2 R [] []
  | cons {a : α} {b : β} {l : List α} {l' : List β} : R a b → All2 R l l' → All2 R (a :: l) (b :: l')

theorem mapM_forall2 {α β : Type} {f : α → Option β} :
    ∀ {l : List α} {l' : List β}, l.mapM f = some l' → All2 (fun x y => f x = some y) l l'
  | [], l', h => by
    simp at h
    subst h
    exact All2.nil
  | a :: l, l', h => by
    rw [List.mapM_cons] at h
    cases h1 : f a with
    | none => simp [h1] at h
    | some y =>
      cases h2 : l.mapM f with
      | none => simp [h1, h2] at h
      | some ys =>
        simp [h1, h2] at h
        subst h
        exact All2.cons h1 (mapM_forall2 h2)

theorem forall2_get {α β : Type} {R : α → β → Prop} :
    ∀ {l : List α} {l' : List β}, All2 R l l' → ∀ (i : Nat) (x : α), l[i]? = some x → ∃ y, l'[i]? = some y ∧ R x y
  | _, _, .nil, i, x, h => by simp at h
  | _, _, .cons hr ht, i, x, h => by
    cases i with
    | zero => simp at h; subst h; exact ⟨_, by simp, hr⟩
    | succ i => simp at h; simpa using forall2_get ht i x h

theorem forall2_get' {α β : Type} {R : α → β → Prop} :
    ∀ {l : List α} {l' : List β}, All2 R l l' → ∀ (i : Nat) (y : β), l'[i]? = some y → ∃ x, l[i]? = some x ∧ R x y
  | _, _, .nil, i, x, h => by simp at h
  | _, _, .cons hr ht, i, x, h => by
    cases i with
    | zero => simp at h; subst h; exact ⟨_, by simp, hr⟩
    | succ i => simp at h; simpa using forall2_get' ht i x h

theorem forall2_mem {α β : Type} {R : α → β → Prop} :
    ∀ {l : List α} {l' : List β}, All2 R l l' → ∀ x ∈ l, ∃ y ∈ l', R x y
  | _, _, .nil, x, h => by cases h
  | _, _, .cons hr ht, x, h => by
    rcases List.mem_cons.mp h with rfl | h
    · exact ⟨_, List.mem_cons_self, hr⟩
    · obtain ⟨y, hy, hxy⟩ := forall2_mem ht x h
      exact ⟨y, List.mem_cons_of_mem _ hy, hxy⟩

theorem forall2_mem' {α β : Type} {R : α → β → Prop} :
    ∀ {l : List α} {l' : List β}, All2 R l l' → ∀ y ∈ l', ∃ x ∈ l, R x y
  | _, _, .nil, x, h => by cases h
  | _, _, .cons hr ht, x, h => by
    rcases List.mem_cons.mp h with rfl | h
    · exact ⟨_, List.mem_cons_self, hr⟩
    · obtain ⟨y, hy, hxy⟩ := forall2_mem' ht x h
      exact ⟨y, List.mem_cons_of_mem _ hy, hxy⟩

theorem nodupNat_nodup : ∀ {l : List Nat}, nodupNat l = true → l.Nodup
  | [], _ => List.nodup_nil
  | a :: l, h => by
    simp [nodupNat] at h
    exact List.nodup_cons.mpr ⟨h.1, nodupNat_nodup h.2⟩

/-! ### findArg and sorting -/

def pars (l : List Arg) : List Nat := l.map (·.param)

theorem findArg_cons (a : Arg) (l : List Arg) (p : Nat) :
    findArg (a :: l) p = if a.param = p then some a.v else findArg l p := by
  by_cases h : a.param = p
  · simp [findArg, List.find?, h]
  · have : (a.param == p) = false := by simpa using h
    simp [findArg, List.find?, h, this]

theorem findArg_none_iff {l : List Arg} {p : Nat} : findArg l p = none ↔ p ∉ pars l := by
  induction l with
  | nil => simp [findArg, pars]
  | cons a l ih =>
    rw [findArg_cons]
    by_cases h : a.param = p
    · simp [h, pars]
    · simp only [h, if_false, ih, pars, List.map_cons, List.mem_cons, not_or]
      constructor
      · intro h'; exact ⟨fun e => h e.symm, h'⟩
      · intro h'; exact h'.2

theorem findArg_append (l₁ l₂ : List Arg) (p : Nat) :
    findArg (l₁ ++ l₂) p = match findArg l₁ p with
      | some v => some v
      | none => findArg l₂ p := by
  induction l₁ with
  | nil => simp [findArg]
  | cons a l ih =>
    rw [List.cons_append, findArg_cons, findArg_cons]
    by_cases h : a.param = p
    · simp [h]
    · simp [h, ih]

theorem pars_insertBy (key : Arg → Nat) (a : Arg) : ∀ (acc : List Arg) (x : Nat),
    x ∈ pars (insertBy key a acc) ↔ x = a.param ∨ x ∈ pars acc
  | [], x => by simp [insertBy, pars]
  | b :: l, x => by
    simp only [insertBy]
    by_cases h : key a < key b
    · simp [h, pars]
    · have ih := pars_insertBy key a l x
      simp only [pars] at ih
      simp only [h, if_false, pars, List.map_cons, List.mem_cons, ih]
      constructor
      · rintro (h1 | h1 | h1)
        · exact Or.inr (Or.inl h1)
        · exact Or.inl h1
        · exact Or.inr (Or.inr h1)
      · rintro (h1 | h1 | h1)
        · exact Or.inr (Or.inl h1)
        · exact Or.inl h1
        · exact Or.inr (Or.inr h1)

theorem findArg_insertBy (key : Arg → Nat) (a : Arg) (p : Nat) : ∀ (acc : List Arg), a.param ∉ pars acc →
    findArg (insertBy key a acc) p = if a.param = p then some a.v else findArg acc p
  | [], _ => by rw [insertBy, findArg_cons]
  | b :: l, hn => by
    simp only [insertBy]
    by_cases h : key a < key b
    · simp only [h, if_true]
      rw [findArg_cons]
    · simp only [h, if_false]
      have hb : b.param ≠ a.param := by
        intro e
        apply hn
        simp [pars, e]
      have hl : a.param ∉ pars l := by
        intro e
        apply hn
        simp only [pars, List.map_cons, List.mem_cons]
        exact Or.inr e
      rw [findArg_cons, findArg_insertBy key a p l hl, findArg_cons]
      by_cases hap : a.param = p
      · have : b.param ≠ p := by rw [← hap]; exact hb
        simp [hap, this]
      · simp [hap]

theorem findArg_foldl_insert (key : Arg → Nat) (p : Nat) : ∀ (l acc : List Arg), (pars l).Nodup →
    (∀ x ∈ pars l, x ∉ pars acc) →
    findArg (l.foldl (fun acc a => insertBy key a acc) acc) p = match findArg l p with
      | some v => some v
      | none => findArg acc p
  | [], acc, _, _ => by simp [findArg]
  | a :: l, acc, hnd, hdis => by
    simp only [List.foldl_cons]
    have hnd' : a.param ∉ pars l ∧ (pars l).Nodup := by
      simpa [pars] using List.nodup_cons.mp hnd
    have ha : a.param ∉ pars acc := hdis a.param (by simp [pars])
    rw [findArg_foldl_insert key p l (insertBy key a acc) hnd'.2]
    · rw [findArg_insertBy key a p acc ha, findArg_cons]
      by_cases hap : a.param = p
      · have : findArg l p = none := by rw [findArg_none_iff, ← hap]; exact hnd'.1
        simp [hap, this]
      · simp [hap]
    · intro x hx hx'
      rw [pars_insertBy] at hx'
      rcases hx' with rfl | hx'
      · exact hnd'.1 hx
      · exact hdis x (by simp only [pars, List.map_cons, List.mem_cons]; exact Or.inr hx) hx'

theorem findArg_sortBy (key : Arg → Nat) (l : List Arg) (p : Nat) (h : (pars l).Nodup) :
    findArg (sortBy key l) p = findArg l p := by
  unfold sortBy
  rw [findArg_foldl_insert key p l [] h (by simp [pars])]
  cases findArg l p <;> simp [findArg]

theorem findArg_sortArgs (tp : List Nat) (l : List Arg) (p : Nat) (h : (pars l).Nodup) :
    findArg (sortArgs tp l) p = findArg l p := by
  unfold sortArgs
  split
  · rfl
  · exact findArg_sortBy _ l p h

/-! ### the arguments added by `resolveRef` -/

/-- what `resolveRef` adds for a missing parameter `p` -/
def fillOne (g : TGrammar) (caller : Nonterm) (p : Nat) : Option Arg :=
  match caller.params.find? (fun q => g.pname q == g.pname p) with
  | some q => some (Arg.mk p (.takeFrom q))
  | none => match g.dflt p with
    | some v => some (Arg.mk p (.value v))
    | none => none

theorem fillOne_param {g : TGrammar} {caller : Nonterm} {p : Nat} {a : Arg} (h : fillOne g caller p = some a) :
    a.param = p := by
  unfold fillOne at h
  split at h
  · cases h; rfl
  · split at h
    · cases h; rfl
    · cases h

theorem filled_find {g : TGrammar} {caller : Nonterm} : ∀ {missing : List Nat} {filled : List Arg},
    missing.mapM (fillOne g caller) = some filled →
    pars filled = missing ∧
    ∀ p, p ∈ missing → ∃ a, fillOne g caller p = some a ∧ (missing.Nodup → findArg filled p = some a.v)
  | [], filled, h => by
    simp at h
    subst h
    simp [pars]
  | q :: l, filled, h => by
    rw [List.mapM_cons] at h
    cases h1 : fillOne g caller q with
    | none => simp [h1] at h
    | some a =>
      cases h2 : l.mapM (fillOne g caller) with
      | none => simp [h1, h2] at h
      | some as =>
        simp [h1, h2] at h
        subst h
        obtain ⟨ih1, ih2⟩ := filled_find h2
        have haq := fillOne_param h1
        refine ⟨by simp [pars, haq] at ih1 ⊢; exact ih1, ?_⟩
        intro p hp
        rcases List.mem_cons.mp hp with rfl | hp
        · exact ⟨a, h1, fun _ => by rw [findArg_cons]; simp [haq]⟩
        · obtain ⟨a', ha', hf⟩ := ih2 p hp
          refine ⟨a', ha', fun hnd => ?_⟩
          have hnd' := List.nodup_cons.mp hnd
          rw [findArg_cons]
          have : a.param ≠ p := by
            rw [haq]; intro e; subst e; exact hnd'.1 hp
          simp [this, hf hnd'.2]

theorem resolveRef_spec {g : TGrammar} {caller target : Nonterm} {explicit args' : List Arg}
    (h : resolveRef g caller target explicit = some args') :
    (pars explicit).Nodup ∧
    ∃ filled, (target.params.filter fun p => !(explicit.any fun a => a.param == p)).mapM (fillOne g caller) = some filled ∧
      args' = sortArgs target.params (explicit ++ filled) := by
  unfold resolveRef at h
  split at h
  · cases h
  · split at h
    · cases h
    · rename_i _ hnd
      have hnd' : (pars explicit).Nodup := by
        apply nodupNat_nodup
        simpa [pars] using hnd
      refine ⟨hnd', ?_⟩
      simp only [bind, Option.bind] at h
      split at h
      · cases h
      · rename_i filled hf
        refine ⟨filled, ?_, ?_⟩
        · exact hf
        · simpa using h.symm

/-- The environment a reference is evaluated in is the same before and after `resolveRef`: for the
source-level rule "same-named parameter of the caller, else the default" on one side and the explicit
arguments on the other. -/
theorem resolveRef_callEnv {g : TGrammar} {N k : Nat} {caller target : Nonterm}
    (hc : g.nts[N]? = some caller) (ht : g.nts[k]? = some target)
    (htp : target.params.Nodup) (hla : ∀ p ∈ target.params, g.isLA p = false)
    {explicit args' : List Arg} (h : resolveRef g caller target explicit = some args') (first : Bool) (env : Env) :
    callEnv (srcImp g) N first k env explicit = callEnv (laImp g) N first k env args' := by
  obtain ⟨hnd, filled, hf, rfl⟩ := resolveRef_spec h
  obtain ⟨hpars, hfill⟩ := filled_find hf
  have hmnd : (target.params.filter fun p => !(explicit.any fun a => a.param == p)).Nodup :=
    List.Nodup.sublist List.filter_sublist htp
  have hall : (pars (explicit ++ filled)).Nodup := by
    simp only [pars, List.map_append]
    rw [List.nodup_append]
    refine ⟨hnd, by rw [show List.map (fun x => x.param) filled = pars filled from rfl, hpars]; exact hmnd, ?_⟩
    intro x hx y hy e
    subst e
    have hy' : x ∈ pars filled := hy
    rw [hpars, List.mem_filter] at hy'
    simp only [List.any_eq_true, Bool.not_eq_true', Bool.eq_false_iff, ne_eq, not_exists, not_and] at hy'
    obtain ⟨a, ha, rfl⟩ := List.mem_map.mp hx
    exact hy'.2 a ha (by simp)
  funext p
  simp only [callEnv]
  rw [findArg_sortArgs _ _ p hall, findArg_append]
  cases he : findArg explicit p with
  | some v => rfl
  | none =>
    simp only
    have hne : p ∉ pars explicit := findArg_none_iff.mp he
    by_cases hp : p ∈ target.params
    · -- a declared parameter of the target without an explicit argument
      have hmiss : p ∈ (target.params.filter fun p => !(explicit.any fun a => a.param == p)) := by
        rw [List.mem_filter]
        refine ⟨hp, ?_⟩
        simp only [List.any_eq_true, Bool.not_eq_true', Bool.eq_false_iff, ne_eq, not_exists, not_and]
        intro a ha e
        apply hne
        simp only [pars, List.mem_map]
        exact ⟨a, ha, by simpa using e⟩
      obtain ⟨a, ha, hfa⟩ := hfill p hmiss
      rw [hfa hmnd]
      have hlap := hla p hp
      simp only [srcImp, hlap, Bool.false_eq_true, if_false, TGrammar.ntParams, ht, hc]
      have hcont : target.params.contains p = true := by simpa using hp
      simp only [hcont, if_true]
      unfold fillOne at ha
      split at ha
      · rename_i q hq
        cases ha
        simp [hq, ArgV.get]
      · rename_i hq
        split at ha
        · rename_i v hv
          cases ha
          simp [hq, hv, ArgV.get]
        · cases ha
    · -- not a parameter of the target
      have hnf : findArg filled p = none := by
        rw [findArg_none_iff, hpars, List.mem_filter]
        exact fun h => hp h.1
      rw [hnf]
      have hcont : target.params.contains p = false := by simpa using hp
      simp only [srcImp, laImp, TGrammar.ntParams, ht, hcont]
      cases g.isLA p <;> cases first <;> simp

end TmVerif.Templates

namespace TmVerif.Templates
open TmVerif.CFG

/-! ### transferring derivations between two grammars of the same shape -/

theorem All2.imp {α β : Type} {R S : α → β → Prop} (h : ∀ a b, R a b → S a b) :
    ∀ {l : List α} {l' : List β}, All2 R l l' → All2 S l l'
  | _, _, .nil => .nil
  | _, _, .cons hr ht => .cons (h _ _ hr) (All2.imp h ht)

theorem All2.flip {α β : Type} {R : α → β → Prop} :
    ∀ {l : List α} {l' : List β}, All2 R l l' → All2 (fun b a => R a b) l' l
  | _, _, .nil => .nil
  | _, _, .cons hr ht => .cons hr (All2.flip ht)

/-- the same symbol, with argument lists that denote the same environment -/
def SymRel (imp imp' : Implicit) (N : Nat) (s s' : Sym) : Prop :=
  match s, s' with
  | .t a, .t b => a = b
  | .n k args, .n k' args' =>
    k = k' ∧ ∀ first env, callEnv imp N first k env args = callEnv imp' N first k env args'
  | _, _ => False

def AltRel (imp imp' : Implicit) (N : Nat) (a a' : Alt) : Prop :=
  a'.pred = a.pred ∧ All2 (SymRel imp imp' N) a.rhs a'.rhs

theorem der_transfer {imp imp' : Implicit} {g g' : TGrammar} (hT : g'.nTerms = g.nTerms)
    (hF : ∀ N nt, g.nts[N]? = some nt → ∃ nt', g'.nts[N]? = some nt' ∧ All2 (AltRel imp imp' N) nt.alts nt'.alts)
    {N : Nat} {env : Env} {w : List Nat} (h : Der imp g N env w) : Der imp' g' N env w := by
  refine @Der.rec imp g (fun N env w _ => Der imp' g' N env w)
    (fun N env first syms w _ => ∀ syms', All2 (SymRel imp imp' N) syms syms' → DerSeq imp' g' N env first syms' w)
    ?_ ?_ ?_ ?_ N env w h
  · intro N env nt a w hnt ha hen _ ih
    obtain ⟨nt', hnt', hall⟩ := hF N nt hnt
    obtain ⟨a', ha', hp, hr⟩ := forall2_mem hall a ha
    refine Der.alt _ _ nt' a' w hnt' ha' ?_ (ih a'.rhs hr)
    unfold Alt.enabled at hen ⊢
    rw [hp]; exact hen
  · intro N env first syms' hs
    cases hs
    exact DerSeq.nil _ _ _
  · intro N env first a rest v ha _ ih syms' hs
    cases hs with
    | cons hr ht =>
      rename_i s' rest'
      cases s' with
      | t b =>
        simp only [SymRel] at hr
        subst hr
        exact DerSeq.t _ _ _ a rest' v (by rw [hT]; exact ha) (ih rest' ht)
      | n k args => simp [SymRel] at hr
  · intro N env first m args rest u v _ _ ih1 ih2 syms' hs
    cases hs with
    | cons hr ht =>
      rename_i s' rest'
      cases s' with
      | t b => simp [SymRel] at hr
      | n k args' =>
        simp only [SymRel] at hr
        obtain ⟨rfl, he⟩ := hr
        rw [he] at ih1
        exact DerSeq.n _ _ _ m args' rest' u v ih1 (ih2 rest' ht)

theorem SymRel.flip {imp imp' : Implicit} {N : Nat} {s s' : Sym} (h : SymRel imp imp' N s s') :
    SymRel imp' imp N s' s := by
  cases s <;> cases s' <;> simp only [SymRel] at h ⊢
  · exact h.symm
  · exact ⟨h.1.symm, fun f e => by rw [← h.1]; exact (h.2 f e).symm⟩

theorem AltRel.flip {imp imp' : Implicit} {N : Nat} {a a' : Alt} (h : AltRel imp imp' N a a') :
    AltRel imp' imp N a' a :=
  ⟨h.1.symm, All2.imp (fun _ _ hr => SymRel.flip hr) (All2.flip h.2)⟩

/-! ### resolveAll -/

theorem resolveNt_spec {g : TGrammar} {nt nt' : Nonterm} (h : resolveNt g nt = some nt') :
    nt'.params = nt.params ∧ nt.params.Nodup ∧ (∀ p ∈ nt.params, g.isLA p = false) ∧
    All2 (fun a a' => resolveAlt g nt a = some a') nt.alts nt'.alts := by
  unfold resolveNt at h
  simp [Option.bind_eq_some_iff] at h
  obtain ⟨⟨h1, h2⟩, alts, ha, rfl⟩ := h
  exact ⟨rfl, nodupNat_nodup h2, fun p hp => (h1 p hp).2, mapM_forall2 ha⟩

theorem resolveAlt_spec {g : TGrammar} {nt : Nonterm} {a a' : Alt} (h : resolveAlt g nt a = some a') :
    a'.pred = a.pred ∧ All2 (fun s s' => resolveSym g nt s = some s') a.rhs a'.rhs := by
  unfold resolveAlt at h
  simp [Option.bind_eq_some_iff] at h
  obtain ⟨_, rhs, hr, rfl⟩ := h
  exact ⟨rfl, mapM_forall2 hr⟩

theorem resolveAll_spec {src m : TGrammar} (h : resolveAll src = some m) :
    m.nTerms = src.nTerms ∧ m.params = src.params ∧ m.inputs = src.inputs ∧
    All2 (fun nt nt' => resolveNt src nt = some nt') src.nts m.nts := by
  unfold resolveAll at h
  simp [Option.bind_eq_some_iff] at h
  obtain ⟨_, _, nts, hn, rfl⟩ := h
  exact ⟨rfl, rfl, rfl, mapM_forall2 hn⟩

theorem resolveSym_rel {src m : TGrammar} (h : resolveAll src = some m) {N : Nat} {nt : Nonterm}
    (hN : src.nts[N]? = some nt) {s s' : Sym} (hs : resolveSym src nt s = some s') :
    SymRel (srcImp src) (laImp m) N s s' := by
  obtain ⟨_, hp, _, hall⟩ := resolveAll_spec h
  have hla : laImp m = laImp src := by
    funext c f t e p
    simp [laImp, TGrammar.isLA, hp]
  cases s with
  | t a =>
    simp only [resolveSym] at hs
    split at hs
    · cases hs; simp [SymRel]
    · cases hs
  | n k args =>
    unfold resolveSym at hs
    simp [Option.bind_eq_some_iff] at hs
    obtain ⟨target, ht, args', ha, rfl⟩ := hs
    simp only [SymRel, true_and]
    intro first env
    obtain ⟨tnt', _, htr⟩ := forall2_get hall k target ht
    obtain ⟨_, hnd, hnla, _⟩ := resolveNt_spec htr
    rw [hla]
    exact resolveRef_callEnv hN ht hnd hnla ha first env

theorem resolveAll_rel {src m : TGrammar} (h : resolveAll src = some m) :
    (∀ N nt, src.nts[N]? = some nt → ∃ nt', m.nts[N]? = some nt' ∧
      All2 (AltRel (srcImp src) (laImp m) N) nt.alts nt'.alts) ∧
    (∀ N nt', m.nts[N]? = some nt' → ∃ nt, src.nts[N]? = some nt ∧
      All2 (AltRel (srcImp src) (laImp m) N) nt.alts nt'.alts) := by
  obtain ⟨_, _, _, hall⟩ := resolveAll_spec h
  have key : ∀ N nt nt', src.nts[N]? = some nt → resolveNt src nt = some nt' →
      All2 (AltRel (srcImp src) (laImp m) N) nt.alts nt'.alts := by
    intro N nt nt' hN hr
    obtain ⟨_, _, _, halts⟩ := resolveNt_spec hr
    refine All2.imp ?_ halts
    intro a a' ha
    obtain ⟨hp, hrhs⟩ := resolveAlt_spec ha
    exact ⟨hp, All2.imp (fun s s' hs => resolveSym_rel h hN hs) hrhs⟩
  constructor
  · intro N nt hN
    obtain ⟨nt', hN', hr⟩ := forall2_get hall N nt hN
    exact ⟨nt', hN', key N nt nt' hN hr⟩
  · intro N nt' hN'
    obtain ⟨nt, hN, hr⟩ := forall2_get' hall N nt' hN'
    exact ⟨nt, hN, key N nt nt' hN hr⟩

/-- Source-level meaning (arguments by name / by default) = meaning of the loaded model (all
arguments of declared parameters explicit). -/
theorem resolveAll_sound {src m : TGrammar} (h : resolveAll src = some m) (N : Nat) (env : Env) (w : List Nat) :
    Der (srcImp src) src N env w ↔ Der (laImp m) m N env w := by
  obtain ⟨hT, _, _, _⟩ := resolveAll_spec h
  obtain ⟨hF, hB⟩ := resolveAll_rel h
  constructor
  · exact der_transfer hT hF
  · refine der_transfer hT.symm ?_
    intro N nt' hN'
    obtain ⟨nt, hN, hall⟩ := hB N nt' hN'
    exact ⟨nt, hN, All2.imp (fun _ _ hr => AltRel.flip hr) (All2.flip hall)⟩

end TmVerif.Templates
