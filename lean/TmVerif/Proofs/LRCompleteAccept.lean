/-
Helper lemmas for C01 completeness, part 4: from the entry state over the augmented rule to the
final state, and the token string of an `Input` as a `Reads` fact.
-/
import TmVerif.Proofs.LRCompleteMain
import TmVerif.Proofs.LRSoundAccept
namespace TmVerif.LRComplete
open TmVerif.LR TmVerif.CFG TmVerif.LRSound TmVerif.LRRef

theorem reads_of_get (inp : Input) : ∀ (u : List Nat) (m : Nat),
    (∀ j (h : j < u.length), symAt inp (m + j) = u[j]) → Reads inp m u
  | [], _, _ => trivial
  | a :: u, m, h => by
    refine ⟨h 0 (by simp), reads_of_get inp u (m + 1) ?_⟩
    intro j hj
    have := h (j + 1) (by simp; omega)
    rw [List.getElem_cons_succ] at this
    rw [← this]
    congr 1
    omega

/-- the first `n` tokens of the text, as symbols -/
theorem reads_take (inp : Input) (n : Nat) :
    Reads inp 0 ((inp.toks.toList.take n).map (fun tk => tk.sym.toNat)) := by
  apply reads_of_get
  intro j hj
  simp only [List.length_map, List.length_take, Array.length_toList] at hj
  have hlt : j < inp.toks.size := by omega
  rw [Nat.zero_add, symAt_lt inp hlt]
  simp

theorem initCfg_top (inp : Input) (i : Nat) : TopState (initCfg inp i) i :=
  ⟨rfl, _, [], rfl, rfl⟩

theorem initCfg_next (inp : Input) (i : Nat) : NextOk inp (initCfg inp i) 0 := by
  simp [NextOk, initCfg]

section accept
variable {g : Grammar} {t : Tables} {cc : CCert} {inp : Input}
  (hf : ComplFacts g t cc) (htok : TokOk t inp)
include hf htok

/-- eoi input: if the unread input is a sentence followed by EOI, the run accepts -/
theorem accept_eoi {i : Nat} {gi : GInput} (hgi : g.inputs[i]? = some gi)
    (heoi : gi.eoi = true) {w : List Nat} (hD : Derives g gi.sym w) (hr : Reads inp 0 w)
    (hend : symAt inp w.length = 0) :
    ∃ fuel c, run t inp i fuel = (Result.accept, c) := by
  have hpos : 0 < g.nTerms := (wfFacts hf.wf).nTermsPos
  obtain ⟨it0, hm0, hr0, hd0, _⟩ := hf.start i gi hgi
  have hrhs : rhsOf g it0.rule = [gi.sym, 0] := by
    rw [hr0, rhsOf_input hgi, if_pos heoi]
  -- over the start symbol
  have hctx : (contrib g cc it0).testBit (symAt inp (0 + w.length)) = true := by
    rw [Nat.zero_add, hend]
    unfold contrib closureContribution
    simp only
    rw [hrhs, hd0]
    apply sub_or_left
    apply firstOfSeq_head
    unfold symFirst
    rw [if_pos hpos]
    exact testBit_one_shl 0
  obtain ⟨q1, it1, c1, hst1, ⟨hm1, hru1, hd1, _⟩, hp1, hn1⟩ :=
    steps_of_derives hf htok hD i it0 (initCfg inp i) 0 hm0 (by rw [hrhs, hd0]; rfl)
      (initCfg_top inp i) (initCfg_next inp i) hr (fun _ => hctx)
  -- over EOI
  obtain ⟨q2, it2, c2, hst2, ⟨hm2, hru2, hd2, _⟩, hp2, _⟩ :=
    steps_of_derives hf htok (Derives.term 0 hpos) q1 it1 c1 (0 + w.length) hm1
      (by rw [hru1, hd1, hrhs, hd0]; rfl) hp1.top hn1
      ⟨by rw [Nat.zero_add]; exact hend, trivial⟩ (fun h => absurd h (by omega))
  have hfin := fin hf hm2 (by rw [hru2, hru1, hr0]; omega)
    (by rw [hd2, hd1, hd0, hru2, hru1, hrhs]; rfl)
  rw [hru2, hru1, hr0, Nat.add_sub_cancel_left] at hfin
  unfold run
  rw [hfin]
  exact runLoop_of_steps _ (hst1.trans hst2) hp2.1

/-- no-eoi input: if the unread input starts with a sentence, the run accepts -/
theorem accept_noeoi {i : Nat} {gi : GInput} (hgi : g.inputs[i]? = some gi)
    (heoi : gi.eoi = false) {w : List Nat} (hD : Derives g gi.sym w) (hr : Reads inp 0 w) :
    ∃ fuel c, run t inp i fuel = (Result.accept, c) := by
  have hpos : 0 < g.nTerms := (wfFacts hf.wf).nTermsPos
  have h0 : 0 < t.nTerms := by rw [hf.nTerms]; exact hpos
  obtain ⟨it0, hm0, hr0, hd0, hsub0⟩ := hf.start i gi hgi
  have hrhs : rhsOf g it0.rule = [gi.sym] := by
    rw [hr0, rhsOf_input hgi, heoi]; rfl
  have hctx : (contrib g cc it0).testBit (symAt inp (0 + w.length)) = true := by
    unfold contrib closureContribution
    simp only
    rw [hrhs, hd0]
    apply sub_or_right
    have : seqNullable cc.nullable (List.drop (0 + 1) [gi.sym]) = true := rfl
    rw [if_pos this]
    rw [heoi] at hsub0
    apply hsub0
    apply allTerms_bit
    rw [← hf.nTerms]
    exact (tok_sym htok h0 _).2
  obtain ⟨q1, it1, c1, hst1, ⟨hm1, hru1, hd1, _⟩, hp1, _⟩ :=
    steps_of_derives hf htok hD i it0 (initCfg inp i) 0 hm0 (by rw [hrhs, hd0]; rfl)
      (initCfg_top inp i) (initCfg_next inp i) hr (fun _ => hctx)
  have hfin := fin hf hm1 (by rw [hru1, hr0]; omega)
    (by rw [hd1, hd0, hru1, hrhs]; rfl)
  rw [hru1, hr0, Nat.add_sub_cancel_left] at hfin
  unfold run
  rw [hfin]
  exact runLoop_of_steps _ hst1 hp1.1

end accept

end TmVerif.LRComplete
