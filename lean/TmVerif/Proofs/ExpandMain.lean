import TmVerif.Proofs.ExpandGrammar
/-!
C13 helper lemmas, part 6: assembly — the derivation language of the mirror's plain grammar is the
least solution of the extended grammar.
-/
namespace TmVerif.Expand
open TmVerif.CFG

/-! ### the extended semantics: least solution of `X_i ⊇ ⟦e_i⟧X` -/

/-- `ρ` is closed under the extended rules: `⟦e_i⟧ρ ⊆ ρ(N_i)` for every user nonterminal -/
def PreFix (g : ExtGrammar) (ρ : Nat → Lang) : Prop :=
  ∀ i e, g.user[i]? = some e → Lang.le (den g.cx.sets ρ e) (ρ (g.cx.nT + i))

/-- the language of user nonterminal `i` in the extended notation: the least pre-fixpoint
(intersection of all environments that interpret terminals as themselves and are closed under the
extended rules) -/
def ExtLang (g : ExtGrammar) (i : Nat) : Lang :=
  fun w => ∀ ρ, TermEnv g.cx.nT ρ → PreFix g ρ → ρ (g.cx.nT + i) w

/-! ### the alternatives of every nonterminal -/

def userOut (g : ExtGrammar) : List (Option (List Expr)) :=
  (expandUsers g.cx [] (g.cx.userNames.zip g.user)).1

def finalExt (g : ExtGrammar) : List NT :=
  (expandUsers g.cx [] (g.cx.userNames.zip g.user)).2

def userAltOf (cx : Ctx) (i : Nat) (o : Option (List Expr)) (v : Expr) : List Expr :=
  match o with
  | some alts => alts
  | none => (synth cx (cx.nT + i) v).getD []

def extAltOf (cx : Ctx) (k : Nat) (nt : NT) : List Expr := (synth cx (cx.base + k) nt.value).getD []

theorem altsOf_eq (g : ExtGrammar) :
    altsOf g = ((((userOut g).zip g.user).zipIdx.map fun p => userAltOf g.cx p.2 p.1.1 p.1.2) ++
      ((finalExt g).zipIdx.map fun p => extAltOf g.cx p.2 p.1), finalExt g) := by
  unfold altsOf userOut finalExt
  generalize expandUsers g.cx [] (g.cx.userNames.zip g.user) = r
  obtain ⟨ua, ext⟩ := r
  simp only [Prod.mk.injEq, and_true]
  rfl

/-- the facts about the expansion that the assembly uses -/
structure Facts (g : ExtGrammar) : Prop where
  lenUser : g.user.length = g.cx.nU
  lenOut : (userOut g).length = g.cx.nU
  st : StOk g.cx (finalExt g)
  user : ∀ (i : Nat) (v : Expr), g.user[i]? = some v →
    ∃ o, (userOut g)[i]? = some o ∧ UserOk g.cx (finalExt g) v o
  wfUser : ∀ (i : Nat) (v : Expr), g.user[i]? = some v → wfTop g.cx.base g.cx.setTerms.length v = true

theorem facts_of_wf (g : ExtGrammar) (hwf : wfGrammar g = true) : Facts g := by
  simp only [wfGrammar, Bool.and_eq_true, beq_iff_eq, List.all_eq_true] at hwf
  obtain ⟨hlen, hall⟩ := hwf
  have hzip : ∀ u ∈ g.cx.userNames.zip g.user, wfTop g.cx.base g.cx.setTerms.length u.2 = true := by
    intro u hu
    exact hall u.2 (List.of_mem_zip hu).2
  have h := expandUsers_spec g.cx (g.cx.userNames.zip g.user) [] hzip (StOk.nil _)
  have hzlen : (g.cx.userNames.zip g.user).length = g.cx.nU := by
    simp [List.length_zip, hlen, Ctx.nU]
  refine ⟨hlen, by simpa [userOut, hzlen] using h.2.2.1, h.2.1, ?_, ?_⟩
  · intro i v hv
    have hi : i < g.cx.userNames.length := by
      have := (List.getElem?_eq_some_iff.1 hv).1
      simp only [Ctx.nU] at hlen; omega
    have : (g.cx.userNames.zip g.user)[i]? = some (g.cx.userNames[i], v) := by
      rw [List.getElem?_zip_eq_some]
      exact ⟨by simp [hi], hv⟩
    exact h.2.2.2 i _ this
  · intro i v hv
    exact hall v (List.mem_of_getElem? hv)

section
variable {g : ExtGrammar} (F : Facts g)
include F

theorem getElem?_altsOf_user {i : Nat} {v : Expr} {o : Option (List Expr)}
    (hv : g.user[i]? = some v) (ho : (userOut g)[i]? = some o) :
    (altsOf g).1[i]? = some (userAltOf g.cx i o v) := by
  rw [altsOf_eq]
  have hi : i < g.cx.nU := by
    have := (List.getElem?_eq_some_iff.1 hv).1; rw [F.lenUser] at this; exact this
  simp only
  rw [List.getElem?_append_left (by simp [List.length_zip, F.lenUser, F.lenOut]; exact hi)]
  have : ((userOut g).zip g.user)[i]? = some (o, v) := by
    rw [List.getElem?_zip_eq_some]; exact ⟨ho, hv⟩
  simp [List.getElem?_zipIdx, this]

theorem getElem?_altsOf_ext {k : Nat} {nt : NT} (hk : (finalExt g)[k]? = some nt) :
    (altsOf g).1[g.cx.nU + k]? = some (extAltOf g.cx k nt) := by
  rw [altsOf_eq]
  simp only
  rw [List.getElem?_append_right (by simp [List.length_zip, F.lenUser, F.lenOut])]
  simp [List.length_zip, F.lenUser, F.lenOut, List.getElem?_zipIdx, hk]

/-- every entry of `altsOf` is a user entry or an extracted entry -/
theorem altsOf_cases {j : Nat} {alts : List Expr} (h : (altsOf g).1[j]? = some alts) :
    (∃ v o, j < g.cx.nU ∧ g.user[j]? = some v ∧ (userOut g)[j]? = some o ∧ alts = userAltOf g.cx j o v) ∨
    (∃ k nt, j = g.cx.nU + k ∧ (finalExt g)[k]? = some nt ∧ alts = extAltOf g.cx k nt) := by
  rcases Nat.lt_or_ge j g.cx.nU with hj | hj
  · left
    have hv : ∃ v, g.user[j]? = some v := ⟨g.user[j]'(by rw [F.lenUser]; exact hj), by simp⟩
    obtain ⟨v, hv⟩ := hv
    obtain ⟨o, ho, _⟩ := F.user j v hv
    rw [getElem?_altsOf_user F hv ho] at h
    exact ⟨v, o, hj, hv, ho, by cases h; rfl⟩
  · right
    obtain ⟨k, rfl⟩ : ∃ k, j = g.cx.nU + k := ⟨j - g.cx.nU, by omega⟩
    have hlen : (altsOf g).1.length = g.cx.nU + (finalExt g).length := by
      rw [altsOf_eq]; simp [List.length_zip, F.lenUser, F.lenOut]
    have hk : k < (finalExt g).length := by
      have := (List.getElem?_eq_some_iff.1 h).1; omega
    have hnt : (finalExt g)[k]? = some ((finalExt g)[k]) := by simp [hk]
    rw [getElem?_altsOf_ext F hnt] at h
    exact ⟨k, _, rfl, hnt, by cases h; rfl⟩

end

/-! ### rules of the plain grammar -/

theorem mem_plainRules (g : ExtGrammar) (r : Rule) :
    r ∈ plainRules g ↔ ∃ j alts a, (altsOf g).1[j]? = some alts ∧ a ∈ alts ∧
      r = { lhs := g.cx.nT + j, rhs := flat a } := by
  unfold plainRules
  simp only [List.mem_flatten, List.mem_map]
  constructor
  · rintro ⟨l, ⟨⟨alts, j⟩, hmem, rfl⟩, hr⟩
    simp only [List.mem_map] at hr
    obtain ⟨a, ha, rfl⟩ := hr
    exact ⟨j, alts, a, List.mem_zipIdx_iff_getElem?.1 hmem, ha, rfl⟩
  · rintro ⟨j, alts, a, hj, ha, rfl⟩
    refine ⟨_, ⟨(alts, j), List.mem_zipIdx_iff_getElem?.2 hj, rfl⟩, ?_⟩
    simp only [List.mem_map]
    exact ⟨a, ha, rfl⟩

theorem toGrammar_rules (g : ExtGrammar) : (toGrammar g).rules.toList = plainRules g := by
  simp [toGrammar]

theorem toGrammar_nTerms (g : ExtGrammar) : (toGrammar g).nTerms = g.cx.nT := rfl

/-- the derivation language of the expanded grammar -/
def DL (g : ExtGrammar) : Nat → Lang := DLang (toGrammar g)

theorem DL_term (g : ExtGrammar) : TermEnv g.cx.nT (DL g) := by
  intro t ht
  apply Lang.ext; intro w
  constructor
  · intro h
    rcases derives_cases h with ⟨_, rfl⟩ | ⟨r, hr, hl, _⟩
    · rfl
    · rw [toGrammar_rules, mem_plainRules] at hr
      obtain ⟨j, _, _, _, _, rfl⟩ := hr
      simp at hl; omega
  · rintro rfl
    exact Derives.term t (by rw [toGrammar_nTerms]; exact ht)

/-- a nonterminal derives exactly the union of its alternatives -/
theorem DL_nt (g : ExtGrammar) {j : Nat} {alts : List Expr} (hj : (altsOf g).1[j]? = some alts)
    (hp : ∀ a ∈ alts, plain a = true) :
    DL g (g.cx.nT + j) = denAlts g.cx.sets (DL g) alts := by
  apply Lang.ext; intro w
  constructor
  · intro h
    rcases derives_cases h with ⟨hlt, _⟩ | ⟨r, hr, hl, hs⟩
    · rw [toGrammar_nTerms] at hlt; omega
    · rw [toGrammar_rules, mem_plainRules] at hr
      obtain ⟨j', alts', a, hj', ha, rfl⟩ := hr
      simp at hl
      have : j' = j := by omega
      subst this
      rw [hj] at hj'; cases hj'
      refine ⟨a, ha, ?_⟩
      rw [den_flat _ _ a (hp a ha)]; exact hs
  · rintro ⟨a, ha, hw⟩
    rw [den_flat _ _ a (hp a ha)] at hw
    have hr : ({ lhs := g.cx.nT + j, rhs := flat a } : Rule) ∈ (toGrammar g).rules.toList := by
      rw [toGrammar_rules, mem_plainRules]; exact ⟨j, alts, a, hj, ha, rfl⟩
    exact dlang_closed (toGrammar g) _ hr w hw

section
variable {g : ExtGrammar} (F : Facts g) (hsets : SetsOk g.cx)
include F hsets

omit F in
theorem setsTerm : SetsTerm g.cx := fun i hi => (hsets i hi).2

/-- the alternatives of an extracted nonterminal -/
theorem ext_alts {k : Nat} {nt : NT} (hk : (finalExt g)[k]? = some nt) :
    synth g.cx (g.cx.base + k) nt.value = some (extAltOf g.cx k nt) ∧
      ∀ a ∈ extAltOf g.cx k nt, Good (g.cx.base + (finalExt g).length) a := by
  obtain ⟨alts, ha, hg⟩ := synth_good g.cx (setsTerm hsets) k nt.value (F.st k nt hk)
  have hlt : k < (finalExt g).length := (List.getElem?_eq_some_iff.1 hk).1
  have : extAltOf g.cx k nt = alts := by simp [extAltOf, ha]
  rw [this]
  exact ⟨ha, fun a h => (hg a h).mono (by omega)⟩

/-- the alternatives of a user nonterminal -/
theorem user_alts {i : Nat} {v : Expr} {o : Option (List Expr)} (hv : g.user[i]? = some v)
    (ho : (userOut g)[i]? = some o) :
    (∀ ρ, TermEnv g.cx.nT ρ → Consistent g.cx ρ (finalExt g) →
        denAlts g.cx.sets ρ (userAltOf g.cx i o v) = den g.cx.sets ρ v) ∧
      ∀ a ∈ userAltOf g.cx i o v, Good (g.cx.base + (finalExt g).length) a := by
  obtain ⟨o', ho', hu⟩ := F.user i v hv
  rw [ho] at ho'; cases ho'
  cases o with
  | some alts => exact ⟨fun ρ _ hc => hu.1 ρ hc, hu.2⟩
  | none =>
    have hb : g.cx.nT ≤ g.cx.base := by simp [Ctx.base]
    simp only [UserOk] at hu
    rcases hu with ⟨s, rfl, hs⟩ | ⟨ps, rfl⟩
    · -- a top-level set
      have hval : ValOk g.cx 0 (.set s) := by simpa [ValOk] using hs
      obtain ⟨hne, hts⟩ := hsets s hs
      have hsyn : synth g.cx (g.cx.nT + i) (.set s) = some ((g.cx.sets s).map .ref) := by
        simp only [synth]
      have hal : userAltOf g.cx i none (.set s) = (g.cx.sets s).map .ref := by
        simp [userAltOf, hsyn]
      rw [hal]
      refine ⟨fun ρ hρ _ => ?_, fun a ha => ?_⟩
      · have := synth_den g.cx ρ hρ hsets 0 (g.cx.nT + i) (.set s) hval _ hsyn
        simpa [stepDen] using this
      · simp only [List.mem_map] at ha
        obtain ⟨t, ht, rfl⟩ := ha
        have := hts t ht
        exact good_ref (by omega)
    · have hal : userAltOf g.cx i none (.lookahead ps) = [.empty] := by simp [userAltOf, synth]
      rw [hal]
      exact ⟨fun ρ _ _ => by simp [denAlts_singleton, den],
        fun a ha => by simp at ha; subst ha; exact ⟨by simp [plain], by simp [refsLt]⟩⟩

/-- all alternatives are plain -/
theorem alts_plain {j : Nat} {alts : List Expr} (h : (altsOf g).1[j]? = some alts) :
    ∀ a ∈ alts, plain a = true := by
  rcases altsOf_cases F h with ⟨v, o, _, hv, ho, rfl⟩ | ⟨k, nt, rfl, hk, rfl⟩
  · exact fun a ha => ((user_alts F hsets hv ho).2 a ha).1
  · exact fun a ha => ((ext_alts F hsets hk).2 a ha).1

/-- the derivation language binds every extracted nonterminal to the denotation of its value -/
theorem DL_consistent : Consistent g.cx (DL g) (finalExt g) := by
  intro k nt hk
  have hval := F.st k nt hk
  obtain ⟨hsyn, hgood⟩ := ext_alts F hsets hk
  have hidx := getElem?_altsOf_ext F hk
  have hb : g.cx.nT + (g.cx.nU + k) = g.cx.base + k := by simp [Ctx.base]; omega
  have hD := DL_nt g hidx (fun a ha => (hgood a ha).1)
  rw [hb] at hD
  have hstep := synth_den g.cx (DL g) (DL_term g) hsets k (g.cx.base + k) nt.value hval _ hsyn
  rw [hstep] at hD
  -- non-list values: the step is the denotation itself
  cases hv : nt.value with
  | list ne rr elem sep =>
    rw [hv] at hD hval hsyn
    simp only [stepDen] at hD
    simp only [ValOk] at hval
    obtain ⟨hne, helem, hsep⟩ := hval
    have hne' : ne = true ∨ den g.cx.sets (DL g) sep = Lang.eps := by
      rcases hne with h | h
      · exact Or.inl h
      · right; rw [h]; simp [den]
    have hden : den g.cx.sets (DL g) (.list ne rr elem sep) =
        listDen ne (den g.cx.sets (DL g) elem) (den g.cx.sets (DL g) sep) := by
      simp [den, listDen]
    rw [hden]
    -- abbreviations
    generalize hE : den g.cx.sets (DL g) elem = E at hD hne' ⊢
    generalize hS : den g.cx.sets (DL g) sep = S at hD hne' ⊢
    -- ⊇ : the derivation language is closed under the list step
    have hge : Lang.le (listDen ne E S) (DL g (g.cx.base + k)) := by
      exact list_least ne rr E S (DL g (g.cx.base + k)) hne' (by intro w hw; rw [hD]; exact hw)
    apply Lang.le_antisymm _ hge
    -- ⊆ : `Derives` is the least environment closed under the rules
    let ρ' : Nat → Lang := fun s => if s = g.cx.base + k then listDen ne E S else DL g s
    have hρ'le : ∀ s, Lang.le (ρ' s) (DL g s) := by
      intro s
      by_cases hs : s = g.cx.base + k
      · subst hs; simp only [ρ', if_true]; exact hge
      · simp only [ρ', hs, if_false]; exact Lang.le_refl _
    have hρ'below : ∀ s, s < g.cx.base + k → ρ' s = DL g s := by
      intro s hs; simp only [ρ']; rw [if_neg (by omega)]
    have hb' : g.cx.nT ≤ g.cx.base := by simp [Ctx.base]
    have hρ'term : TermEnv g.cx.nT ρ' := by
      intro t ht; rw [hρ'below t (by omega)]; exact DL_term g t ht
    have key : ∀ {X w}, Derives (toGrammar g) X w → ρ' X w := by
      apply derives_least
      · intro a ha
        rw [toGrammar_nTerms] at ha
        rw [hρ'term a ha]
      · intro r hr
        have hr0 := hr
        rw [toGrammar_rules, mem_plainRules] at hr
        obtain ⟨j, alts, a, hj, ha, rfl⟩ := hr
        by_cases hjk : g.cx.nT + j = g.cx.base + k
        · -- a rule of the list itself
          have hjk' : j = g.cx.nU + k := by simp [Ctx.base] at hjk; omega
          subst hjk'
          rw [hidx] at hj; cases hj
          intro w hw
          show ρ' (g.cx.nT + (g.cx.nU + k)) w
          rw [hjk]
          simp only [ρ', if_true]
          apply list_closed ne rr E S hne'
          have h1 : den g.cx.sets ρ' a w := by
            rw [den_flat _ _ a (hgood a ha).1]; exact hw
          have h2 : denAlts g.cx.sets ρ' (extAltOf g.cx k nt) w := ⟨a, ha, h1⟩
          rw [synth_den g.cx ρ' hρ'term hsets k (g.cx.base + k) (.list ne rr elem sep)
            (by simp only [ValOk]; exact ⟨hne, helem, hsep⟩) _ hsyn] at h2
          simp only [stepDen] at h2
          rw [den_congr g.cx.sets (g.cx.base + k) hρ'below elem (elemOk_refsLt helem),
            den_congr g.cx.sets (g.cx.base + k) hρ'below sep hsep.2, hE, hS] at h2
          simpa [ρ'] using h2
        · intro w hw
          show ρ' (g.cx.nT + j) w
          simp only [ρ', hjk, if_false]
          exact dlang_closed (toGrammar g) _ hr0 w (SeqLang_mono hρ'le _ w hw)
    intro w hw
    have := key hw
    simpa [ρ'] using this
  | set i => rw [hv] at hD; simpa [stepDen] using hD
  | lookahead ps => rw [hv] at hD; simpa [stepDen] using hD
  | opt e => rw [hv] at hD; simpa [stepDen] using hD
  | empty => rw [hv] at hval; simp [ValOk] at hval
  | ref _ => rw [hv] at hval; simp [ValOk] at hval
  | seq _ => rw [hv] at hval; simp [ValOk] at hval
  | choice _ => rw [hv] at hval; simp [ValOk] at hval
  | arrow _ _ => rw [hv] at hval; simp [ValOk] at hval
  | assign _ _ => rw [hv] at hval; simp [ValOk] at hval
  | append _ _ => rw [hv] at hval; simp [ValOk] at hval
  | prec _ _ => rw [hv] at hval; simp [ValOk] at hval
  | command _ => rw [hv] at hval; simp [ValOk] at hval
  | marker _ => rw [hv] at hval; simp [ValOk] at hval

/-- a user nonterminal derives exactly the denotation of its expression -/
theorem DL_user {i : Nat} {v : Expr} (hv : g.user[i]? = some v) :
    DL g (g.cx.nT + i) = den g.cx.sets (DL g) v := by
  obtain ⟨o, ho, _⟩ := F.user i v hv
  have hidx := getElem?_altsOf_user F hv ho
  obtain ⟨hlang, hgood⟩ := user_alts F hsets hv ho
  rw [DL_nt g hidx (fun a ha => (hgood a ha).1)]
  exact hlang (DL g) (DL_term g) (DL_consistent F hsets)

omit hsets in
/-- `wfTop` bounds the references of a user expression by the user symbols -/
theorem user_refsLt {i : Nat} {v : Expr} (hv : g.user[i]? = some v) : refsLt g.cx.base v = true := by
  have h := F.wfUser i v hv
  cases v <;> simp only [wfTop, wfRule] at h <;> try exact wf_refsLt _ _ _ h
  · next subs =>
    simp only [refsLt]
    rw [refsLtList_iff]
    intro a ha
    have := (List.all_eq_true.1 h) a ha
    cases a <;> simp only [wfRule] at this <;> try exact wf_refsLt _ _ _ this
    · simp only [refsLt]; exact wf_refsLt _ _ _ this
  · simp only [refsLt]; exact wf_refsLt _ _ _ h

/-- the main equivalence -/
theorem derives_iff_extLang {i : Nat} (hi : i < g.cx.nU) (w : List Nat) :
    Derives (toGrammar g) (g.cx.nT + i) w ↔ ExtLang g i w := by
  have hb : g.cx.nT ≤ g.cx.base := by simp [Ctx.base]
  constructor
  · -- every derivable string lies in every closed environment
    intro hder ρ hρ hpre
    -- extend `ρ` consistently to the extracted nonterminals
    let ρ' := extendEnv g.cx ρ (finalExt g) 0
    have hbelow : ∀ s, s < g.cx.base → ρ' s = ρ s := fun s hs =>
      extendEnv_below g.cx (finalExt g) ρ 0 s (by omega)
    have hcons : Consistent g.cx ρ' (finalExt g) := by
      intro k nt hk
      have := extendEnv_consistent g.cx (finalExt g) ρ 0
        (fun j nt' h' => by simpa using valOk_refsLt (F.st j nt' h')) k nt hk
      simpa using this
    have hterm : TermEnv g.cx.nT ρ' := by
      intro t ht; rw [hbelow t (by omega)]; exact hρ t ht
    have key : ∀ {X w}, Derives (toGrammar g) X w → ρ' X w := by
      apply derives_least
      · intro a ha
        rw [toGrammar_nTerms] at ha
        rw [hterm a ha]
      · intro r hr
        rw [toGrammar_rules, mem_plainRules] at hr
        obtain ⟨j, alts, a, hj, ha, rfl⟩ := hr
        intro w hw
        show ρ' (g.cx.nT + j) w
        have hpl := alts_plain F hsets hj a ha
        have h1 : den g.cx.sets ρ' a w := by rw [den_flat _ _ a hpl]; exact hw
        rcases altsOf_cases F hj with ⟨v, o, hjU, hv, ho, rfl⟩ | ⟨k, nt, rfl, hk, rfl⟩
        · -- user rule
          have h2 : denAlts g.cx.sets ρ' (userAltOf g.cx j o v) w := ⟨a, ha, h1⟩
          rw [(user_alts F hsets hv ho).1 ρ' hterm hcons] at h2
          rw [den_congr g.cx.sets g.cx.base hbelow v (user_refsLt F hv)] at h2
          rw [hbelow _ (by simp [Ctx.base]; omega)]
          exact hpre j v hv w h2
        · -- extracted rule: closedness of the step
          have hval := F.st k nt hk
          obtain ⟨hsyn, _⟩ := ext_alts F hsets hk
          have h2 : denAlts g.cx.sets ρ' (extAltOf g.cx k nt) w := ⟨a, ha, h1⟩
          rw [synth_den g.cx ρ' hterm hsets k (g.cx.base + k) nt.value hval _ hsyn] at h2
          have hbk : g.cx.nT + (g.cx.nU + k) = g.cx.base + k := by simp [Ctx.base]; omega
          rw [hbk, hcons k nt hk]
          cases hv : nt.value with
          | list ne rr elem sep =>
            rw [hv] at h2 hval
            simp only [stepDen] at h2
            simp only [ValOk] at hval
            have hne' : ne = true ∨ den g.cx.sets ρ' sep = Lang.eps := by
              rcases hval.1 with h | h
              · exact Or.inl h
              · right; rw [h]; simp [den]
            have hself : ρ' (g.cx.base + k) =
                listDen ne (den g.cx.sets ρ' elem) (den g.cx.sets ρ' sep) := by
              rw [hcons k nt hk, hv]; simp [den, listDen]
            rw [hself] at h2
            have := list_closed ne rr _ _ hne' w h2
            simpa [den, listDen] using this
          | set _ => rw [hv] at h2; simpa [stepDen] using h2
          | lookahead _ => rw [hv] at h2; simpa [stepDen] using h2
          | opt _ => rw [hv] at h2; simpa [stepDen] using h2
          | empty => rw [hv] at hval; simp [ValOk] at hval
          | ref _ => rw [hv] at hval; simp [ValOk] at hval
          | seq _ => rw [hv] at hval; simp [ValOk] at hval
          | choice _ => rw [hv] at hval; simp [ValOk] at hval
          | arrow _ _ => rw [hv] at hval; simp [ValOk] at hval
          | assign _ _ => rw [hv] at hval; simp [ValOk] at hval
          | append _ _ => rw [hv] at hval; simp [ValOk] at hval
          | prec _ _ => rw [hv] at hval; simp [ValOk] at hval
          | command _ => rw [hv] at hval; simp [ValOk] at hval
          | marker _ => rw [hv] at hval; simp [ValOk] at hval
    have := key hder
    rwa [hbelow _ (by simp [Ctx.base]; omega)] at this
  · -- the derivation language is itself a closed environment
    intro hext
    apply hext (DL g) (DL_term g)
    intro j e he w hw
    rw [DL_user F hsets he]; exact hw

end

end TmVerif.Expand
