import TmVerif.Proofs.AstRegex
/-!
C21: accessor semantics. `access` (literal mirror of the generated `Child/Next/Children/NextAll` chain)
= `scan` (one pass, "first match after the previous step's match") = `runAcc … 0` (the automaton the
checker steps), and soundness of the closed-set check `closedOK`.
-/
namespace TmVerif.AstTypes
open Re

/-! ### `findFrom` is "the first selected child at or after `k`" (what `Child` / `Next` loop for) -/

theorem findFrom_some {sel : Sel} {w : List Nat} {k p : Nat} (h : findFrom sel w k = some p) :
    k ≤ p ∧ (∃ a, w[p]? = some a ∧ a ∈ sel) ∧
      ∀ q, k ≤ q → q < p → ∀ a, w[q]? = some a → a ∉ sel := by
  induction w generalizing k p with
  | nil => simp [findFrom] at h
  | cons b w ih =>
    cases k with
    | zero =>
      simp only [findFrom] at h
      cases hc : sel.contains b with
      | true =>
        rw [hc] at h
        simp only [if_true, Option.some.injEq] at h
        subst h
        refine ⟨Nat.le_refl _, ⟨b, by simp, by simpa using hc⟩, ?_⟩
        intro q _ hq; omega
      | false =>
        rw [hc] at h
        simp only [Bool.false_eq_true, if_false, Option.map_eq_some_iff] at h
        obtain ⟨p', hp', rfl⟩ := h
        obtain ⟨_, ⟨a, ha, hs⟩, hmin⟩ := ih hp'
        refine ⟨Nat.zero_le _, ⟨a, by simpa using ha, hs⟩, ?_⟩
        intro q _ hq a' ha'
        cases q with
        | zero =>
          simp at ha'; subst ha'
          intro hm
          have : sel.contains b = true := by simpa using hm
          rw [hc] at this; cases this
        | succ q' =>
          exact hmin q' (Nat.zero_le _) (by omega) a' (by simpa using ha')
    | succ k' =>
      simp only [findFrom, Option.map_eq_some_iff] at h
      obtain ⟨p', hp', rfl⟩ := h
      obtain ⟨hle, ⟨a, ha, hs⟩, hmin⟩ := ih hp'
      refine ⟨by omega, ⟨a, by simpa using ha, hs⟩, ?_⟩
      intro q hkq hq a' ha'
      cases q with
      | zero => omega
      | succ q' => exact hmin q' (by omega) (by omega) a' (by simpa using ha')

theorem findFrom_none {sel : Sel} {w : List Nat} {k : Nat} (h : findFrom sel w k = none) :
    ∀ q, k ≤ q → ∀ a, w[q]? = some a → a ∉ sel := by
  induction w generalizing k with
  | nil => intro q _ a ha; simp at ha
  | cons b w ih =>
    cases k with
    | zero =>
      simp only [findFrom] at h
      cases hc : sel.contains b with
      | true => rw [hc] at h; simp at h
      | false =>
        rw [hc] at h
        simp only [Bool.false_eq_true, if_false, Option.map_eq_none_iff] at h
        intro q _ a ha
        cases q with
        | zero =>
          simp at ha; subst ha
          intro hm
          have : sel.contains b = true := by simpa using hm
          rw [hc] at this; cases this
        | succ q' => exact ih h q' (Nat.zero_le _) a (by simpa using ha)
    | succ k' =>
      simp only [findFrom, Option.map_eq_none_iff] at h
      intro q hq a ha
      cases q with
      | zero => omega
      | succ q' => exact ih h q' (by omega) a (by simpa using ha)

/-! ### `access` = `scan` -/

/-- The chain started at index `k`. -/
def specFrom : List Sel → Sel → Bool → List Nat → Nat → List Nat
  | [], last, l, w, k => if l then findAllFrom last w k else (findFrom last w k).toList
  | s :: ss, last, l, w, k =>
    match findFrom s w k with
    | none => []
    | some q => specFrom ss last l w (q + 1)

theorem toList_map {α β} (f : α → β) (o : Option α) : (o.map f).toList = o.toList.map f := by
  cases o <;> rfl

theorem chain_tail (last : Sel) (l : Bool) (w : List Nat) (ss : List Sel) (p : Option Nat) :
    (if l then nextAll last w (chainNode w ss p) else (next last w (chainNode w ss p)).toList) =
      match p with
      | none => []
      | some q => specFrom ss last l w (q + 1) := by
  induction ss generalizing p with
  | nil =>
    cases p with
    | none => cases l <;> simp [chainNode, nextAll, next]
    | some q => cases l <;> simp [chainNode, nextAll, next, specFrom]
  | cons s ss ih =>
    simp only [chainNode]
    rw [ih]
    cases p with
    | none => simp [next]
    | some q =>
      simp only [next, specFrom]

theorem access_eq_specFrom (acc : Acc) (w : List Nat) :
    access acc w = specFrom acc.chain acc.last acc.isList w 0 := by
  unfold access
  cases hc : acc.chain with
  | nil => simp [specFrom, children, child]
  | cons s ss =>
    simp only []
    have := chain_tail acc.last acc.isList w ss (child s w)
    rw [this]
    simp only [child, specFrom]

theorem specFrom_shift (chain : List Sel) (last : Sel) (l : Bool) (a : Nat) (w : List Nat) (k : Nat) :
    specFrom chain last l (a :: w) (k + 1) = (specFrom chain last l w k).map (· + 1) := by
  induction chain generalizing k with
  | nil =>
    cases l
    · simp [specFrom, findFrom, toList_map]
    · simp [specFrom, findAllFrom]
  | cons s ss ih =>
    simp only [specFrom, findFrom]
    cases h : findFrom s w k with
    | none => simp
    | some q => simp [ih]

theorem specFrom_eq_scan (chain : List Sel) (last : Sel) (l : Bool) (w : List Nat) :
    specFrom chain last l w 0 = scan chain last l w := by
  induction w generalizing chain with
  | nil =>
    cases chain with
    | nil => cases l <;> simp [specFrom, findFrom, findAllFrom, scan]
    | cons s ss => simp [specFrom, findFrom, scan]
  | cons a w ih =>
    cases chain with
    | nil =>
      have ih0 := ih []
      cases l
      · simp only [specFrom, Bool.false_eq_true, if_false, findFrom, scan] at ih0 ⊢
        split
        · simp
        · rw [toList_map, ih0]
      · simp only [specFrom, if_true, findAllFrom, scan] at ih0 ⊢
        split
        · simp [ih0]
        · simp [ih0]
    | cons s ss =>
      cases hc : s.contains a with
      | true =>
        simp only [specFrom, findFrom, scan, hc, if_true]
        rw [specFrom_shift, ih]
      | false =>
        have ih1 := ih (s :: ss)
        simp only [specFrom] at ih1
        simp only [specFrom, findFrom, scan, hc, Bool.false_eq_true, if_false]
        cases h : findFrom s w 0 with
        | none => rw [h] at ih1; simp [← ih1]
        | some q =>
          have ih2 : specFrom ss last l w (q + 1) = scan (s :: ss) last l w := by
            rw [h] at ih1; exact ih1
          simp only [Option.map_some]
          rw [specFrom_shift, ih2]

/-- **The nil-safe `Child(s₀).Next(s₁)…` chain is the one-pass "first match after the previous match".** -/
theorem access_eq_scan (acc : Acc) (w : List Nat) :
    access acc w = scan acc.chain acc.last acc.isList w := by
  rw [access_eq_specFrom, specFrom_eq_scan]

/-! ### `scan` = `runAcc` -/

theorem runAcc_eq_scan (acc : Acc) (w : List Nat) (k : Nat) :
    runAcc acc k w = if k ≤ acc.chain.length then scan (acc.chain.drop k) acc.last acc.isList w else [] := by
  induction w generalizing k with
  | nil => simp [runAcc, scan]
  | cons a w ih =>
    simp only [runAcc, stepAcc]
    by_cases h1 : k < acc.chain.length
    · have hle : k ≤ acc.chain.length := Nat.le_of_lt h1
      have hd : acc.chain.drop k = acc.chain[k] :: acc.chain.drop (k + 1) := by
        rw [List.drop_eq_getElem_cons h1]
      have hg : acc.chain.getD k [] = acc.chain[k] := by simp [List.getD, h1]
      simp only [h1, if_true, hle, hd, scan, hg]
      cases hc : acc.chain[k].contains a with
      | true =>
        simp only [if_true, Bool.false_eq_true, if_false, List.nil_append]
        rw [ih (k + 1)]
        simp [Nat.succ_le_of_lt h1]
      | false =>
        simp only [Bool.false_eq_true, if_false, List.nil_append]
        rw [ih k, if_pos hle, hd]
    · by_cases h2 : k = acc.chain.length
      · subst h2
        simp only [Nat.lt_irrefl, if_false, if_true, Nat.le_refl, List.drop_length, scan]
        cases hc : acc.last.contains a with
        | true =>
          simp only [if_true]
          cases hl : acc.isList with
          | false =>
            simp only [Bool.false_eq_true, if_false]
            rw [ih]
            have : ¬ acc.chain.length + 1 ≤ acc.chain.length := Nat.not_succ_le_self _
            simp [this]
          | true =>
            simp only [if_true]
            rw [ih]
            simp [hl]
        | false =>
          simp only [Bool.false_eq_true, if_false, List.nil_append]
          rw [ih]
          simp
      · have h3 : ¬ k ≤ acc.chain.length := by omega
        simp only [h1, h2, if_false, h3, List.nil_append]
        rw [ih]
        simp [h3]

theorem runAcc_zero (acc : Acc) (w : List Nat) : runAcc acc 0 w = access acc w := by
  rw [runAcc_eq_scan, access_eq_scan]; simp

/-! ### results are typed -/

theorem scan_typed (chain : List Sel) (last : Sel) (l : Bool) (w : List Nat) :
    ∀ p ∈ scan chain last l w, ∃ a, w[p]? = some a ∧ a ∈ last := by
  induction w generalizing chain with
  | nil => intro p hp; simp [scan] at hp
  | cons a w ih =>
    intro p hp
    cases chain with
    | cons s ss =>
      simp only [scan] at hp
      split at hp
      · obtain ⟨q, hq, rfl⟩ := List.mem_map.mp hp
        simpa using ih ss q hq
      · obtain ⟨q, hq, rfl⟩ := List.mem_map.mp hp
        simpa using ih (s :: ss) q hq
    | nil =>
      simp only [scan] at hp
      split at hp
      · rename_i hc
        rcases List.mem_cons.mp hp with rfl | hp'
        · exact ⟨a, by simp, by simpa using hc⟩
        · cases l
          · simp at hp'
          · simp only [if_true] at hp'
            obtain ⟨q, hq, rfl⟩ := List.mem_map.mp hp'
            simpa using ih [] q hq
      · obtain ⟨q, hq, rfl⟩ := List.mem_map.mp hp
        simpa using ih [] q hq

theorem access_typed (acc : Acc) (w : List Nat) :
    ∀ p ∈ access acc w, ∃ a, w[p]? = some a ∧ a ∈ acc.last := by
  rw [access_eq_scan]; exact scan_typed _ _ _ _

/-! ### the product automaton -/

theorem stepAll_spec (a : Nat) : ∀ (accs : List Acc) (ks : List Nat), ks.length = accs.length →
    (stepAll accs ks a).1.length = accs.length ∧
    ((stepAll accs ks a).2 = true → ∃ ak ∈ accs.zip ks, (stepAcc ak.1 ak.2 a).2 = true) ∧
    (∀ ak' ∈ accs.zip (stepAll accs ks a).1, ∃ ak ∈ accs.zip ks, ak.1 = ak'.1 ∧ (stepAcc ak.1 ak.2 a).1 = ak'.2) ∧
    (∀ ak ∈ accs.zip ks, (ak.1, (stepAcc ak.1 ak.2 a).1) ∈ accs.zip (stepAll accs ks a).1) := by
  intro accs
  induction accs with
  | nil => intro ks h; simp [stepAll]
  | cons acc accs ih =>
    intro ks h
    cases ks with
    | nil => simp at h
    | cons k ks =>
      have hl : ks.length = accs.length := by simpa using h
      obtain ⟨i1, i2, i3, i4⟩ := ih ks hl
      simp only [stepAll]
      refine ⟨by simp [i1], ?_, ?_, ?_⟩
      · intro hc
        simp only [Bool.or_eq_true] at hc
        rcases hc with hc | hc
        · exact ⟨(acc, k), by simp, hc⟩
        · obtain ⟨ak, hak, h2⟩ := i2 hc
          exact ⟨ak, by simp [List.zip_cons_cons, hak], h2⟩
      · intro ak' hak'
        simp only [List.zip_cons_cons, List.mem_cons] at hak'
        rcases hak' with rfl | hak'
        · exact ⟨(acc, k), by simp, rfl, rfl⟩
        · obtain ⟨ak, hak, h2⟩ := i3 ak' hak'
          exact ⟨ak, by simp [List.zip_cons_cons, hak], h2⟩
      · intro ak hak
        simp only [List.zip_cons_cons, List.mem_cons] at hak ⊢
        rcases hak with rfl | hak
        · exact Or.inl rfl
        · exact Or.inr (i4 ak hak)

theorem finalOK_spec : ∀ (accs : List Acc) (ks : List Nat), finalOK accs ks = true →
    ∀ ak ∈ accs.zip ks, ak.1.required = true → ak.1.isList = false → ak.2 = ak.1.chain.length + 1 := by
  intro accs
  induction accs with
  | nil => intro ks _ ak hak; simp at hak
  | cons acc accs ih =>
    intro ks h ak hak hr hl
    cases ks with
    | nil => simp at hak
    | cons k ks =>
      simp only [finalOK, Bool.and_eq_true] at h
      simp only [List.zip_cons_cons, List.mem_cons] at hak
      rcases hak with rfl | hak
      · have hr' : acc.required = true := hr
        have hl' : acc.isList = false := hl
        have := h.1
        simp [hr', hl'] at this
        exact this
      · exact ih ks h.2 ak hak hr hl

theorem stepAcc_done (acc : Acc) (k a : Nat) (h : (stepAcc acc k a).1 = acc.chain.length + 1) :
    k = acc.chain.length + 1 ∨ (stepAcc acc k a).2 = true := by
  unfold stepAcc at h ⊢
  by_cases h1 : k < acc.chain.length
  · simp only [h1, if_true] at h
    split at h <;> omega
  · by_cases h2 : k = acc.chain.length
    · subst h2
      simp only [Nat.lt_irrefl, if_false, if_true] at h ⊢
      cases hc : acc.last.contains a with
      | true => right; simp
      | false =>
        rw [hc] at h
        simp at h
    · simp only [h1, h2, if_false] at h
      exact Or.inl h

theorem mem_dedupNat (l : List Nat) (x : Nat) : x ∈ dedupNat l ↔ x ∈ l := by
  unfold dedupNat
  suffices h : ∀ acc : List Nat, x ∈ l.foldl (fun acc x => if acc.contains x then acc else acc ++ [x]) acc ↔ x ∈ acc ∨ x ∈ l by
    simpa using h []
  induction l with
  | nil => intro acc; simp
  | cons y ys ih =>
    intro acc
    simp only [List.foldl_cons]
    rw [ih]
    by_cases hy : acc.contains y = true
    · simp only [hy, if_true, List.mem_cons]
      have : y ∈ acc := by simpa using hy
      constructor
      · rintro (h | h)
        · exact Or.inl h
        · exact Or.inr (Or.inr h)
      · rintro (h | rfl | h)
        · exact Or.inl h
        · exact Or.inl this
        · exact Or.inr h
    · have hy' : acc.contains y = false := by simpa using hy
      simp only [hy', Bool.false_eq_true, if_false, List.mem_append, List.mem_singleton, List.mem_cons,
        List.not_mem_nil, or_false]
      constructor
      · rintro ((h | h) | h)
        · exact Or.inl h
        · exact Or.inr (Or.inl h)
        · exact Or.inr (Or.inr h)
      · rintro (h | h | h)
        · exact Or.inl (Or.inl h)
        · exact Or.inl (Or.inr h)
        · exact Or.inr h

/-- Coverage and presence when the accessors start with progress `ks`. -/
def CovFrom (accs : List Acc) (ks : List Nat) (w : List Nat) : Prop :=
  ∀ p, p < w.length → ∃ ak ∈ accs.zip ks, p ∈ runAcc ak.1 ak.2 w

def PresFrom (accs : List Acc) (ks : List Nat) (w : List Nat) : Prop :=
  ∀ ak ∈ accs.zip ks, ak.1.required = true → ak.1.isList = false →
    ak.2 = ak.1.chain.length + 1 ∨ runAcc ak.1 ak.2 w ≠ []

theorem closed_sound (accs : List Acc) (S : List State) (init : State)
    (hS : closedOK accs S init = true) :
    ∀ (w : List Nat) (st : State), st ∈ S → L st.re w → CovFrom accs st.ks w ∧ PresFrom accs st.ks w := by
  unfold closedOK at hS
  rw [Bool.and_eq_true] at hS
  have hall := List.all_eq_true.mp hS.2
  intro w
  induction w with
  | nil =>
    intro st hst hL
    have h := hall st hst
    simp only [Bool.and_eq_true] at h
    refine ⟨fun p hp => by simp at hp, ?_⟩
    intro ak hak hr hl
    have hn := nullable_of_nil hL rfl
    have hf : finalOK accs st.ks = true := by
      have := h.1.2; simpa [hn] using this
    exact Or.inl (finalOK_spec accs st.ks hf ak hak hr hl)
  | cons a w ih =>
    intro st hst hL
    have h := hall st hst
    simp only [Bool.and_eq_true] at h
    have hlen : st.ks.length = accs.length := by simpa using h.1.1
    have ha : a ∈ dedupNat (syms st.re) := (mem_dedupNat _ _).mpr (first_mem_syms hL rfl)
    have hstep := List.all_eq_true.mp h.2 a ha
    have hd : L (deriv a st.re) w := L_deriv_cons hL
    simp only [stepState, Bool.or_eq_true, Bool.and_eq_true] at hstep
    have hne : ¬ ((deriv a st.re == Re.empty) = true) := by
      intro he
      have : deriv a st.re = .empty := by simpa using he
      rw [this] at hd
      exact L_empty_false hd
    rcases hstep with he | ⟨hc, hin⟩
    · exact absurd he hne
    · have hin' : ({ re := deriv a st.re, ks := (stepAll accs st.ks a).1 } : State) ∈ S := by simpa using hin
      obtain ⟨s1, s2, s3, s4⟩ := stepAll_spec a accs st.ks hlen
      obtain ⟨ihc, ihp⟩ := ih _ hin' hd
      constructor
      · intro p hp
        cases p with
        | zero =>
          obtain ⟨ak, hak, h2⟩ := s2 hc
          refine ⟨ak, hak, ?_⟩
          simp only [runAcc]
          rw [h2]; simp
        | succ q =>
          have hq : q < w.length := by simpa using hp
          obtain ⟨ak', hak', hmem⟩ := ihc q hq
          obtain ⟨ak, hak, e1, e2⟩ := s3 ak' hak'
          refine ⟨ak, hak, ?_⟩
          simp only [runAcc]
          apply List.mem_append.mpr; right
          apply List.mem_map.mpr
          refine ⟨q, ?_, rfl⟩
          rw [e2, e1]; exact hmem
      · intro ak hak hr hl
        have hm := s4 ak hak
        rcases ihp _ hm hr hl with hdone | hne'
        · rcases stepAcc_done ak.1 ak.2 a hdone with h0 | hcap
          · exact Or.inl h0
          · right
            simp only [runAcc]
            rw [hcap]; simp
        · right
          simp only [runAcc]
          intro hnil
          have := List.append_eq_nil_iff.mp hnil
          exact hne' (by simpa using this.2)

theorem mem_zip_init (accs : List Acc) (ak : Acc × Nat) :
    ak ∈ accs.zip (accs.map fun _ => 0) ↔ ak.1 ∈ accs ∧ ak.2 = 0 := by
  induction accs with
  | nil => simp
  | cons acc accs ih =>
    simp only [List.map_cons, List.zip_cons_cons, List.mem_cons, ih]
    constructor
    · rintro (rfl | ⟨h1, h2⟩)
      · exact ⟨Or.inl rfl, rfl⟩
      · exact ⟨Or.inr h1, h2⟩
    · rintro ⟨h1 | h1, h2⟩
      · left; cases ak; simp_all
      · exact Or.inr ⟨h1, h2⟩

/-- **Soundness of the per-type check**: an accepted expression has only good words. -/
theorem checkRe_sound (accs : List Acc) (re : Re) (h : checkRe accs re = true)
    (w : List Nat) (hw : L re w) : Good accs w := by
  unfold checkRe at h
  have hinit : initState accs re ∈ explore accs exploreFuel [initState accs re] [initState accs re] := by
    unfold closedOK at h
    rw [Bool.and_eq_true] at h
    simpa using h.1
  obtain ⟨hc, hp⟩ := closed_sound accs _ _ h w (initState accs re) hinit hw
  refine ⟨?_, ?_, ?_⟩
  · intro acc hacc hr hl
    have hm : (acc, 0) ∈ accs.zip ((initState accs re).ks) := (mem_zip_init accs (acc, 0)).mpr ⟨hacc, rfl⟩
    rcases hp _ hm hr hl with h0 | hne
    · simp at h0
    · rwa [runAcc_zero] at hne
  · intro acc _ p hpm
    exact access_typed acc w p hpm
  · intro p hpl
    obtain ⟨ak, hak, hmem⟩ := hc p hpl
    have := (mem_zip_init accs ak).mp hak
    refine ⟨ak.1, this.1, ?_⟩
    rw [this.2, runAcc_zero] at hmem
    exact hmem

end TmVerif.AstTypes
