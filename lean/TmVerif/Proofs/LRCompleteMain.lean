/-
Helper lemmas for C01 completeness, part 3: the classical generalisation. If a state holds an
item with the dot before `X`, `X ⇒* u`, the unread input starts with `u` and the token after `u`
is allowed by the item's context, then the runtime gets from the configuration with that state on
top to the one with `goto(s, X)` pushed and `u` consumed (`steps_of_derives`); the same for the
rest of a rule body (`steps_of_derivesSeq`). Mutual induction on the derivation.
-/
import TmVerif.Proofs.LRCompleteStep
namespace TmVerif.LRComplete
open TmVerif.LR TmVerif.CFG TmVerif.LRSound TmVerif.LRRef

theorem rule_index {g : Grammar} {r : Rule} (h : r ∈ g.rules.toList) :
    ∃ k : Nat, g.rules[k]? = some r := by
  obtain ⟨k, hk, he⟩ := List.getElem_of_mem h
  refine ⟨k, ?_⟩
  rw [Array.length_toList] at hk
  rw [Array.getElem?_eq_getElem hk]
  rw [Array.getElem_toList] at he
  rw [he]

theorem drop_cons_getElem? {l : List Nat} {d x : Nat} {rest : List Nat}
    (h : l.drop d = x :: rest) : l[d]? = some x ∧ l.drop (d + 1) = rest := by
  constructor
  · have := List.getElem?_drop (xs := l) (i := d) (j := 0)
    rw [h] at this
    simpa using this.symm
  · have : l.drop (d + 1) = (l.drop d).drop 1 := by rw [List.drop_drop]
    rw [this, h]
    rfl

section main
variable {g : Grammar} {t : Tables} {cc : CCert} {inp : Input}
  (hf : ComplFacts g t cc) (htok : TokOk t inp)
include hf htok
set_option linter.unusedSectionVars false

mutual
/-- one symbol: from the state holding `[A → α . X β, L]` over the yield of `X` -/
theorem steps_of_derives :
    ∀ {X : Nat} {u : List Nat}, Derives g X u →
      ∀ (s : Nat) (it : CItem) (c : Cfg) (m : Nat),
        it ∈ itemsOf cc s → (rhsOf g it.rule)[it.dot]? = some X →
        TopState c s → NextOk inp c m → Reads inp m u →
        (g.nTerms ≤ X → (contrib g cc it).testBit (symAt inp (m + u.length)) = true) →
        ∃ (q : Nat) (it' : CItem) (c' : Cfg), Steps t inp c c' ∧ Adv cc q it 1 it' ∧
          Pushed c' q c.stack ∧ NextOk inp c' (m + u.length)
  | _, _, .term a ha, s, it, c, m, hm, hx, htop, hn, hr, _ => by
    have h0 : 0 < t.nTerms := by rw [hf.nTerms]; omega
    obtain ⟨hneeds, q, hact, it', hadv⟩ := move_term hf hm hx ha
    have hsym : (inp.tok m).sym = (a : Int) := by
      rw [(tok_sym htok h0 m).1, hr.1]
    obtain ⟨c', hs, hp, hn'⟩ := shift_step htok hn htop.1 hneeds hsym hact
    exact ⟨q, it', c', Steps.single hs, hadv, hp, hn'⟩
  | _, u, .rule r _ hrm hs, s, it, c, m, hm, hx, htop, hn, hr, hla => by
    have h0 : 0 < t.nTerms := by
      have := (wfFacts hf.wf).nTermsPos; rw [hf.nTerms]; omega
    have hge : g.nTerms ≤ r.lhs := ((wfFacts hf.wf).rules r hrm).1
    obtain ⟨k, hk⟩ := rule_index hrm
    -- closure: the initial item of the rule is in `s`
    obtain ⟨it1, hm1, hr1, hd1, hsub1⟩ := clos hf hm hx hge hk rfl
    have hrhs1 : rhsOf g it1.rule = r.rhs := by rw [hr1]; exact rhsOf_rule hk
    have hla1 : it1.la.testBit (symAt inp (m + u.length)) = true := hsub1 _ (hla hge)
    -- walk the dot across the body
    obtain ⟨s', it2, c2, ents, hst2, ⟨hm2, hr2, hd2, hsub2⟩, htop2, hstk2, hlen2, hn2⟩ :=
      steps_of_derivesSeq hs s it1 c m hm1 (by rw [hrhs1, hd1]; rfl) htop hn hr hla1
    -- reduce
    have hk2 : g.rules[it2.rule]? = some r := by rw [hr2, hr1]; exact hk
    have hd2' : it2.dot = r.rhs.length := by rw [hd2, hd1]; omega
    obtain ⟨hlen, hsym, b, hneeds, hact⟩ := red hf hm2 hk2 hd2'
    obtain ⟨hts, hlt⟩ := tok_sym htok h0 (m + u.length)
    have hact' := hact (symAt inp (m + u.length)) (by rw [← hf.nTerms]; exact hlt)
      (hsub2 _ hla1)
    obtain ⟨q, hgoto, it', hadv⟩ := move_nt hf hm hx hge
    obtain ⟨e0, rest0, hstk0, he0⟩ := htop.2
    rw [← he0] at hgoto
    obtain ⟨c', hstep, hp, hn'⟩ := reduce_step htok h0 hn2 htop2.1 hneeds hact' hlen hsym
      (by rw [hstk2, hstk0]) hlen2 hgoto
    refine ⟨q, it', c', hst2.trans (Steps.single hstep), hadv, ?_, hn'⟩
    rw [hstk0]; exact hp
/-- the rest of a rule body: from `[A → α . β, L]` to `[A → α β ., L]` over the yield of `β` -/
theorem steps_of_derivesSeq :
    ∀ {α : List Nat} {u : List Nat}, DerivesSeq g α u →
      ∀ (s : Nat) (it : CItem) (c : Cfg) (m : Nat),
        it ∈ itemsOf cc s → (rhsOf g it.rule).drop it.dot = α →
        TopState c s → NextOk inp c m → Reads inp m u →
        it.la.testBit (symAt inp (m + u.length)) = true →
        ∃ (s' : Nat) (it' : CItem) (c' : Cfg) (ents : List Entry), Steps t inp c c' ∧
          Adv cc s' it α.length it' ∧ TopState c' s' ∧ c'.stack = ents ++ c.stack ∧
          ents.length = α.length ∧ NextOk inp c' (m + u.length)
  | _, _, .nil, s, it, c, m, hm, _, htop, hn, _, _ =>
    ⟨s, it, c, [], .refl c, ⟨hm, rfl, rfl, Sub.refl _⟩, htop, rfl, rfl, hn⟩
  | _, _, .cons X α u v hX hα, s, it, c, m, hm, hdrop, htop, hn, hr, hla => by
    obtain ⟨hx, hdrop'⟩ := drop_cons_getElem? hdrop
    obtain ⟨hr1, hr2⟩ := (reads_append inp u v m).mp hr
    have hlen : m + (u ++ v).length = m + u.length + v.length := by
      rw [List.length_append]; omega
    rw [hlen] at hla
    -- the token after the yield of `X` is allowed by the context of the item
    have hctx : (contrib g cc it).testBit (symAt inp (m + u.length)) = true := by
      by_cases hv : v = []
      · have hα' : DerivesSeq g α [] := hv ▸ hα
        rw [← hdrop'] at hα'
        rw [hv] at hla
        exact contrib_bit_nil hf it _ hα' hla
      · obtain ⟨b, v', hv'⟩ := List.exists_cons_of_ne_nil hv
        have hα' : DerivesSeq g α (b :: v') := hv' ▸ hα
        rw [← hdrop'] at hα'
        rw [hv'] at hr2
        rw [hr2.1]
        exact contrib_bit_cons hf it b v' hα'
    obtain ⟨q, it1, c1, hst1, ⟨hm1, hru1, hd1, hsub1⟩, hp1, hn1⟩ :=
      steps_of_derives hX s it c m hm hx htop hn hr1 (fun _ => hctx)
    have hdrop1 : (rhsOf g it1.rule).drop it1.dot = α := by rw [hru1, hd1]; exact hdrop'
    obtain ⟨s', it2, c2, ents, hst2, ⟨hm2, hru2, hd2, hsub2⟩, htop2, hstk2, hlen2, hn2⟩ :=
      steps_of_derivesSeq hα q it1 c1 (m + u.length) hm1 hdrop1 hp1.top hn1 hr2
        (hsub1 _ hla)
    obtain ⟨_, e, _, hstk1⟩ := hp1
    refine ⟨s', it2, c2, ents ++ [e], hst1.trans hst2,
      ⟨hm2, by rw [hru2, hru1], by rw [hd2, hd1, List.length_cons]; omega, hsub1.trans hsub2⟩,
      htop2, by rw [hstk2, hstk1, List.append_assoc]; rfl,
      by rw [List.length_append, hlen2]; rfl, by rw [hlen]; exact hn2⟩
end

end main

end TmVerif.LRComplete
