import TmVerif.Model.Bison
/-!
Helper lemmas for C30: `chunks`, the lexer on rendered lines, the parser on the rendered token stream.
-/
namespace TmVerif.Bison

theorem flatMap_congr' {f g : α → List β} {l : List α} (h : ∀ x ∈ l, f x = g x) :
    l.flatMap f = l.flatMap g := by
  induction l with
  | nil => rfl
  | cons x l ih =>
    simp only [List.flatMap_cons, h x (by simp), ih (fun y hy => h y (by simp [hy]))]

theorem takeWhile_all {p : α → Bool} {l : List α} (h : ∀ x ∈ l, p x = true) : l.takeWhile p = l := by
  induction l with
  | nil => rfl
  | cons x l ih => simp [h x (by simp), ih (fun y hy => h y (by simp [hy]))]

/-! ### chunks -/

theorem chunks_no (p : α → Bool) (l : List α) (h : ∀ x ∈ l, p x = false) : chunks p l = [l] := by
  induction l with
  | nil => rfl
  | cons x l ih =>
    have hx : p x = false := h x (by simp)
    have := ih (fun y hy => h y (by simp [hy]))
    simp [chunks, hx, this, consHead]

theorem chunks_append_sep (p : α → Bool) (l rest : List α) (c : α) (hc : p c = true)
    (h : ∀ x ∈ l, p x = false) : chunks p (l ++ c :: rest) = l :: chunks p rest := by
  induction l with
  | nil => simp [chunks, hc]
  | cons x l ih =>
    have hx : p x = false := h x (by simp)
    have := ih (fun y hy => h y (by simp [hy]))
    simp [chunks, hx, this, consHead]

/-- pieces each closed by a separator -/
theorem chunks_term (p : α → Bool) (xs : List β) (f : β → List α) (sep : α) (hs : p sep = true)
    (h : ∀ x ∈ xs, ∀ y ∈ f x, p y = false) :
    chunks p (xs.flatMap (fun x => f x ++ [sep])) = xs.map f ++ [[]] := by
  induction xs with
  | nil => rfl
  | cons x xs ih =>
    have := ih (fun y hy => h y (by simp [hy]))
    simp only [List.flatMap_cons, List.append_assoc, List.map_cons, List.cons_append, List.nil_append]
    rw [chunks_append_sep p _ _ sep hs (h x (by simp)), this]

/-- pieces separated by a separator -/
theorem chunks_sep (p : α → Bool) (a : List α) (xs : List β) (f : β → List α) (sep : α) (hs : p sep = true)
    (ha : ∀ y ∈ a, p y = false) (h : ∀ x ∈ xs, ∀ y ∈ f x, p y = false) :
    chunks p (a ++ xs.flatMap (fun x => sep :: f x)) = a :: xs.map f := by
  induction xs generalizing a with
  | nil => simp [chunks_no p a ha]
  | cons x xs ih =>
    simp only [List.flatMap_cons, List.cons_append, List.map_cons]
    rw [chunks_append_sep p _ _ sep hs ha]
    rw [ih (f x) (h x (by simp)) (fun y hy => h y (by simp [hy]))]

theorem initIfLastNil_append (l : List (List α)) : initIfLastNil (l ++ [[]]) = some l := by
  induction l with
  | nil => rfl
  | cons x l ih =>
    cases l with
    | nil => simp [initIfLastNil]
    | cons y l => simp [initIfLastNil] at ih ⊢; simp [ih]

theorem mapOpt_eq (f : α → Option β) (g : α → β) (l : List α) (h : ∀ x ∈ l, f x = some (g x)) :
    mapOpt f l = some (l.map g) := by
  induction l with
  | nil => rfl
  | cons x l ih =>
    have := ih (fun y hy => h y (by simp [hy]))
    simp [mapOpt, h x (by simp), this]

theorem mapOpt_map_eq (f : γ → Option β) (h : α → γ) (g : α → β) (l : List α)
    (hx : ∀ x ∈ l, f (h x) = some (g x)) : mapOpt f (l.map h) = some (l.map g) := by
  induction l with
  | nil => rfl
  | cons x l ih =>
    have := ih (fun y hy => hx y (by simp [hy]))
    simp [mapOpt, hx x (by simp), this]

theorem flatten_map_map (f : β → γ) (l : List (α × List β)) :
    (l.map (fun x => x.2.map f)).flatten = (l.flatMap (·.2)).map f := by
  induction l with
  | nil => rfl
  | cons x l ih => simp [List.flatMap_cons, ih]

theorem filterMap_none' {f : α → Option β} {l : List α} (h : ∀ x ∈ l, f x = none) : l.filterMap f = [] := by
  induction l with
  | nil => rfl
  | cons x l ih => simp [h x (by simp), ih (fun y hy => h y (by simp [hy]))]

theorem filterMap_some' {f : α → Option β} {g : α → β} {l : List α} (h : ∀ x ∈ l, f x = some (g x)) :
    l.filterMap f = l.map g := by
  induction l with
  | nil => rfl
  | cons x l ih => simp [h x (by simp), ih (fun y hy => h y (by simp [hy]))]

/-! ### declarations -/

theorem parseDecls_plain_append (a rest : List Word) (ha : ∀ w ∈ a, isPlain w = true) :
    parseDecls (a ++ rest) = parseDecls rest := by
  induction a with
  | nil => rfl
  | cons w a ih =>
    simp [parseDecls, ha w (by simp), ih (fun y hy => ha y (by simp [hy]))]

theorem takeWhile_plain_append (a rest : List Word) (ha : ∀ w ∈ a, isPlain w = true)
    (hr : ∀ w, rest.head? = some w → isPlain w = false) : (a ++ rest).takeWhile isPlain = a := by
  induction a with
  | nil =>
    cases rest with
    | nil => rfl
    | cons w r => simp [hr w (by simp)]
  | cons w a ih =>
    simp [ha w (by simp), ih (fun y hy => ha y (by simp [hy]))]

theorem parseDecls_lines (ls : List (Word × List Word))
    (h : ∀ d ∈ ls, isPlain d.1 = false ∧ ∀ w ∈ d.2, isPlain w = true) :
    parseDecls (ls.flatMap (fun d => d.1 :: d.2)) = ls := by
  induction ls with
  | nil => rfl
  | cons d ls ih =>
    have hd := h d (by simp)
    have ih' := ih (fun y hy => h y (by simp [hy]))
    have hhead : ∀ w, (ls.flatMap (fun d => d.1 :: d.2)).head? = some w → isPlain w = false := by
      intro w hw
      cases ls with
      | nil => simp at hw
      | cons d' ls' =>
        simp only [List.flatMap_cons, List.cons_append, List.head?_cons, Option.some.injEq] at hw
        subst hw
        exact (h d' (by simp)).1
    simp only [List.flatMap_cons, List.cons_append, parseDecls, hd.1]
    rw [takeWhile_plain_append _ _ hd.2 hhead, parseDecls_plain_append _ _ hd.2, ih']
    simp

theorem declsOk_lines (ls : List (Word × List Word)) (h : ∀ d ∈ ls, isPlain d.1 = false) :
    declsOk (ls.flatMap (fun d => d.1 :: d.2)) = true := by
  cases ls with
  | nil => rfl
  | cons d ls => simp [declsOk, h d (by simp)]

/-! ### facts about well-formed spellings -/

theorem isPlain_ne_of_pct {w k : Word} (h : isPlain w = true) (hk : k.head? = some '%') : (w == k) = false := by
  cases w with
  | nil => simp [isPlain] at h
  | cons c t =>
    cases k with
    | nil => simp
    | cons c' t' =>
      simp only [List.head?_cons, Option.some.injEq] at hk
      subst hk
      simp only [isPlain, Bool.and_eq_true, bne_iff_ne, ne_eq] at h
      simp [h.1.1.1]

theorem isPlain_ne_punct {w : Word} (h : isPlain w = true) :
    (w == kColon) = false ∧ (w == kBar) = false ∧ (w == kSemi) = false := by
  cases w with
  | nil => simp [isPlain] at h
  | cons c t =>
    simp only [isPlain, Bool.and_eq_true, bne_iff_ne, ne_eq] at h
    simp [h.1.1.2, h.1.2, h.2]

structure Good (w : Word) : Prop where
  plain : isPlain w = true
  chars : ∀ c ∈ w, goodChar c = true
  noSlash : w.head? ≠ some '/'

theorem good_of {w : Word} (h : goodName w = true) : Good w := by
  simp only [goodName, Bool.and_eq_true, List.all_eq_true, bne_iff_ne, ne_eq] at h
  exact ⟨h.1.1, h.1.2, h.2⟩

theorem Good.ne_nil {w : Word} (h : Good w) : w ≠ [] := by
  intro e; subst e; have := h.plain; simp [isPlain] at this

theorem Good.noWs {w : Word} (h : Good w) : ∀ c ∈ w, isWs c = false := by
  intro c hc
  have := h.chars c hc
  simp only [goodChar, Bool.and_eq_true, Bool.not_eq_true'] at this
  exact this.1.1

theorem Good.noOpen {w : Word} (h : Good w) : w.count '{' = 0 := by
  rw [List.count_eq_zero]
  intro hc
  have := h.chars _ hc
  simp [goodChar] at this

theorem Good.noClose {w : Word} (h : Good w) : w.count '}' = 0 := by
  rw [List.count_eq_zero]
  intro hc
  have := h.chars _ hc
  simp [goodChar] at this

theorem Good.notLine {w : Word} (h : Good w) : isLineComment w = false := by
  cases w with
  | nil => rfl
  | cons c t =>
    have := h.noSlash
    simp only [List.head?_cons, ne_eq, Option.some.injEq] at this
    simp [isLineComment, kSlashes, List.isPrefixOf, Ne.symm this]

theorem Good.notBlock {w : Word} (h : Good w) : isBlockComment w = false := by
  cases w with
  | nil => rfl
  | cons c t =>
    have := h.noSlash
    simp only [List.head?_cons, ne_eq, Option.some.injEq] at this
    simp [isBlockComment, kBlock, List.isPrefixOf, Ne.symm this]

theorem goodName_name {g : Gram} (h : g.names.all goodName = true) (i : Nat) : Good (name g i) := by
  apply good_of
  unfold name
  rw [List.getD_eq_getElem?_getD]
  cases hi : g.names[i]? with
  | none => decide
  | some w =>
    have hm : w ∈ g.names := List.mem_of_getElem? hi
    simpa using (List.all_eq_true.mp h) w hm

/-! ### the lexer on rendered lines -/

theorem mem_joinSp {ws : List Word} {c : Char} (h : c ∈ joinSp ws) : c = ' ' ∨ ∃ w ∈ ws, c ∈ w := by
  induction ws with
  | nil => simp [joinSp] at h
  | cons w ws ih =>
    cases ws with
    | nil => simp only [joinSp] at h; exact Or.inr ⟨w, by simp, h⟩
    | cons w' ws =>
      simp only [joinSp, List.mem_append, List.mem_cons] at h
      rcases h with h | h | h
      · exact Or.inr ⟨w, by simp, h⟩
      · exact Or.inl h
      · rcases ih h with h | ⟨x, hx, hc⟩
        · exact Or.inl h
        · exact Or.inr ⟨x, by simp [hx], hc⟩

theorem wordsOf_joinSp (ws : List Word) (h : ∀ w ∈ ws, ∀ c ∈ w, isWs c = false) :
    wordsOf (joinSp ws) = ws.filter (fun w => !w.isEmpty) := by
  unfold wordsOf
  induction ws with
  | nil => simp [joinSp, chunks]
  | cons w ws ih =>
    cases ws with
    | nil =>
      simp only [joinSp]
      rw [chunks_no isWs w (h w (by simp))]
    | cons w' ws =>
      simp only [joinSp]
      rw [chunks_append_sep isWs w _ ' ' (by decide) (h w (by simp))]
      rw [List.filter_cons, ih (fun x hx => h x (by simp [hx]))]
      simp [List.filter_cons]

/-- what `lexLine` leaves of a line given as words -/
def clean (l : List Word) : List Word :=
  ((l.filter (fun w => !w.isEmpty)).takeWhile (fun w => !isLineComment w)).filter (fun w => !isBlockComment w)

theorem lexLine_joinSp (l : List Word) (h : ∀ w ∈ l, ∀ c ∈ w, isWs c = false) :
    lexLine (joinSp l) = clean l := by
  simp [lexLine, clean, wordsOf_joinSp l h]

theorem chunks_unlines (ls : List (List Word)) (h : ∀ l ∈ ls, ∀ w ∈ l, ∀ c ∈ w, isWs c = false) :
    chunks isNl (unlines ls) = ls.map joinSp ++ [[]] := by
  unfold unlines
  apply chunks_term isNl ls joinSp '\n' (by decide)
  intro l hl c hc
  rcases mem_joinSp hc with e | ⟨w, hw, hcw⟩
  · subst e; decide
  · have := h l hl w hw c hcw
    simp only [isWs, Bool.or_eq_false_iff] at this
    simpa [isNl] using this.1.1.2

theorem lexY_unlines (ls : List (List Word)) (h : ∀ l ∈ ls, ∀ w ∈ l, ∀ c ∈ w, isWs c = false) :
    lexY (unlines ls) = skipBraces 0 (ls.flatMap clean) := by
  unfold lexY
  rw [chunks_unlines ls h]
  congr 1
  rw [List.flatMap_append]
  have : lexLine [] = [] := by simp [lexLine, wordsOf, chunks]
  simp only [List.flatMap_cons, List.flatMap_nil, this, List.append_nil]
  rw [List.flatMap_map]
  exact flatMap_congr' (fun l hl => lexLine_joinSp l (h l hl))

theorem skipBraces_clean (ws : List Word) (h : ∀ w ∈ ws, w.count '{' = 0 ∧ w.count '}' = 0) :
    skipBraces 0 ws = ws := by
  induction ws with
  | nil => rfl
  | cons w ws ih =>
    have hw := h w (by simp)
    simp [skipBraces, hw.1, hw.2, ih (fun x hx => h x (by simp [hx]))]

/-! ### the token stream of a rendered grammar -/

def precPart (g : Gram) (r : Rule) : List Word := if r.prec == 0 then [] else [kPrec, name g r.prec]

def bodyToks (g : Gram) (r : Rule) : List Word := if r.rhs.isEmpty then [kEmpty] else symNames g r.rhs

def altToks (g : Gram) (r : Rule) : List Word := bodyToks g r ++ precPart g r

def altsToks (g : Gram) : List Rule → List Word
  | [] => []
  | r :: rs => altToks g r ++ rs.flatMap (fun r => kBar :: altToks g r)

def groupBody (g : Gram) (grp : Nat × List Rule) : List Word := name g grp.1 :: kColon :: altsToks g grp.2

def groupToks (g : Gram) : List Word := (groups g.rules).flatMap (fun grp => groupBody g grp ++ [kSemi])

def declLines (g : Gram) : List (Word × List Word) :=
  g.inputs.map (fun i => (kStart, [name g i.nonterm])) ++
  g.prec.map (fun p => (assocWord p.assoc, p.terms.map (name g))) ++
  ((tokensWithoutPrec g).drop 1).map (fun t => (kToken, [name g t]))

def declToks (g : Gram) : List Word := (declLines g).flatMap (fun d => d.1 :: d.2)

def toks (g : Gram) : List Word := declToks g ++ kPP :: (groupToks g ++ [kPP])

def noWsW (w : Word) : Bool := w.all (fun c => !isWs c)

def keepW (w : Word) : Bool := !w.isEmpty && !isBlockComment w

theorem clean_noLine (l : List Word) (h : ∀ w ∈ l, isLineComment w = false) : clean l = l.filter keepW := by
  unfold clean
  have : (l.filter (fun w => !w.isEmpty)).takeWhile (fun w => !isLineComment w) = l.filter (fun w => !w.isEmpty) := by
    apply takeWhile_all
    intro w hw
    simp [h w (List.mem_filter.mp hw).1]
  rw [this, List.filter_filter]
  congr 1
  funext w
  simp [keepW, Bool.and_comm]

theorem Good.keep {w : Word} (h : Good w) : keepW w = true := by
  have := h.ne_nil
  simp [keepW, h.notBlock, this]

theorem Good.noWsW {w : Word} (h : Good w) : noWsW w = true := by
  simp only [Bison.noWsW, List.all_eq_true, Bool.not_eq_true']
  exact h.noWs

theorem marker_block (g : Gram) (m : Nat) : isBlockComment (markerWord g m) = true := by
  simp [markerWord, isBlockComment, kBlock, List.isPrefixOf]

theorem marker_notLine (g : Gram) (m : Nat) : isLineComment (markerWord g m) = false := by
  simp [markerWord, isLineComment, kSlashes, List.isPrefixOf]

theorem marker_noWs {g : Gram} (hm : MarkersWF g.markers) (m : Nat) : noWsW (markerWord g m) = true := by
  have : ∀ c ∈ g.markers.getD m ['?'], goodChar c = true := by
    rw [List.getD_eq_getElem?_getD]
    cases hi : g.markers[m]? with
    | none => decide
    | some w =>
      have hmem : w ∈ g.markers := List.mem_of_getElem? hi
      have := (List.all_eq_true.mp hm) w hmem
      simpa using this
  simp only [noWsW, markerWord, List.all_append, List.all_eq_true, Bool.and_eq_true, Bool.not_eq_true']
  refine ⟨⟨by decide, ?_⟩, by decide⟩
  intro c hc
  have := this c hc
  simp only [goodChar, Bool.and_eq_true, Bool.not_eq_true'] at this
  exact this.1.1

theorem filter_all {p : α → Bool} {l : List α} (h : ∀ x ∈ l, p x = true) : l.filter p = l := by
  induction l with
  | nil => rfl
  | cons x l ih => simp [h x (by simp), ih (fun y hy => h y (by simp [hy]))]

theorem clean_keep (l : List Word) (h1 : ∀ w ∈ l, isLineComment w = false) (h2 : ∀ w ∈ l, keepW w = true) :
    clean l = l := by
  rw [clean_noLine l h1, filter_all h2]

section
variable {g : Gram} (hn : g.names.all goodName = true)
include hn

theorem items_filter (rhs : List Item) : (rhs.map (itemWord g)).filter keepW = symNames g rhs := by
  induction rhs with
  | nil => rfl
  | cons it rhs ih =>
    cases it with
    | sym i => simp [itemWord, symNames, (goodName_name hn i).keep] at ih ⊢; exact ih
    | marker m => simp [itemWord, symNames, keepW, marker_block] at ih ⊢; exact ih

theorem itemWord_notLine (it : Item) : isLineComment (itemWord g it) = false := by
  cases it with
  | sym i => exact (goodName_name hn i).notLine
  | marker m => exact marker_notLine g m

theorem altWords_notLine (r : Rule) : ∀ w ∈ altWords g r, isLineComment w = false := by
  intro w hw
  simp only [altWords, List.mem_append] at hw
  rcases hw with hw | hw
  · split at hw
    · simp at hw; subst hw; decide
    · simp only [List.mem_map] at hw
      obtain ⟨it, _, rfl⟩ := hw
      exact itemWord_notLine hn it
  · split at hw
    · simp at hw
    · simp at hw
      rcases hw with rfl | rfl
      · decide
      · exact (goodName_name hn _).notLine

theorem clean_altWords (r : Rule) : clean (altWords g r) = altToks g r := by
  rw [clean_noLine _ (altWords_notLine hn r)]
  simp only [altWords, altToks, bodyToks, precPart, List.filter_append]
  congr 1
  · split
    · rfl
    · exact items_filter hn r.rhs
  · split
    · rfl
    · have := (goodName_name hn r.prec).keep
      simp [List.filter_cons, this]; decide

theorem clean_bar_altWords (r : Rule) : clean (kBar :: altWords g r) = kBar :: altToks g r := by
  have h := clean_altWords hn r
  rw [clean_noLine _ (altWords_notLine hn r)] at h
  rw [clean_noLine]
  · rw [List.filter_cons, h]; rfl
  · intro w hw
    simp only [List.mem_cons] at hw
    rcases hw with rfl | hw
    · decide
    · exact altWords_notLine hn r w hw

theorem clean_first_altWords (r : Rule) : clean ([] :: [] :: altWords g r) = altToks g r := by
  have h := clean_altWords hn r
  rw [clean_noLine _ (altWords_notLine hn r)] at h
  rw [clean_noLine]
  · rw [List.filter_cons, List.filter_cons, h]; rfl
  · intro w hw
    simp only [List.mem_cons] at hw
    rcases hw with rfl | rfl | hw
    · decide
    · decide
    · exact altWords_notLine hn r w hw

theorem clean_startLine (i : Input) : clean (startLine g i) = [kStart, name g i.nonterm] := by
  have hg := goodName_name hn i.nonterm
  have h1 := hg.notLine
  have h2 := hg.notBlock
  have h3 : (name g i.nonterm).isEmpty = false := by simpa using hg.ne_nil
  have hk1 : isLineComment kStart = false := by decide
  have hk2 : isBlockComment kStart = false := by decide
  have hk3 : isLineComment kSlashes = true := by decide
  have hk4 : kStart.isEmpty = false := by decide
  have hk5 : kSlashes.isEmpty = false := by decide
  have hk6 : kNoEoi.isEmpty = false := by decide
  cases hb : i.noEoi <;>
    simp [startLine, clean, hb, h1, h2, h3, hk1, hk2, hk3, hk4, hk5, hk6]

theorem clean_precLine (p : Prec) : clean (precLine g p) = assocWord p.assoc :: p.terms.map (name g) := by
  apply clean_keep
  · intro w hw
    simp only [precLine, List.mem_cons, List.mem_map] at hw
    rcases hw with rfl | ⟨t, _, rfl⟩
    · cases p.assoc <;> decide
    · exact (goodName_name hn t).notLine
  · intro w hw
    simp only [precLine, List.mem_cons, List.mem_map] at hw
    rcases hw with rfl | ⟨t, _, rfl⟩
    · cases p.assoc <;> decide
    · exact (goodName_name hn t).keep

theorem clean_tokenLine (t : Nat) : clean (tokenLine g t) = [kToken, name g t] := by
  apply clean_keep
  · intro w hw
    simp only [tokenLine, List.mem_cons, List.mem_nil_iff, or_false] at hw
    rcases hw with rfl | rfl
    · decide
    · exact (goodName_name hn t).notLine
  · intro w hw
    simp only [tokenLine, List.mem_cons, List.mem_nil_iff, or_false] at hw
    rcases hw with rfl | rfl
    · decide
    · exact (goodName_name hn t).keep

theorem clean_altLines (rs : List Rule) : (altLines g rs).flatMap clean = altsToks g rs := by
  cases rs with
  | nil => rfl
  | cons r rs =>
    simp only [altLines, altsToks, List.flatMap_cons, clean_first_altWords hn r, List.flatMap_map]
    congr 1
    exact flatMap_congr' (fun x _ => clean_bar_altWords hn x)

theorem clean_groupLines (grp : Nat × List Rule) :
    (groupLines g grp).flatMap clean = groupBody g grp ++ [kSemi] := by
  have hg := goodName_name hn grp.1
  have e1 : clean [] = [] := rfl
  have e2 : clean [name g grp.1, kColon] = [name g grp.1, kColon] := by
    apply clean_keep
    · intro w hw
      simp only [List.mem_cons, List.mem_nil_iff, or_false] at hw
      rcases hw with rfl | rfl
      · exact hg.notLine
      · decide
    · intro w hw
      simp only [List.mem_cons, List.mem_nil_iff, or_false] at hw
      rcases hw with rfl | rfl
      · exact hg.keep
      · decide
  have e3 : clean [kSemi] = [kSemi] := by decide
  simp only [groupLines, List.flatMap_append, List.flatMap_cons, List.flatMap_nil, e1, e2, e3,
    clean_altLines hn, groupBody, List.nil_append, List.append_nil, List.cons_append]

theorem clean_lines : (lines g).flatMap clean = kOpen :: kClose :: toks g := by
  have e1 : clean [] = [] := rfl
  have e2 : clean [kOpen] = [kOpen] := by decide
  have e3 : clean [kClose] = [kClose] := by decide
  have e4 : clean [kPP] = [kPP] := by decide
  simp only [lines, toks, declToks, declLines, groupToks, List.flatMap_append, List.flatMap_cons, List.flatMap_nil,
    List.flatMap_map, e1, e2, e3, e4, List.nil_append, List.append_nil, List.cons_append, List.append_assoc,
    List.flatMap_assoc]
  rw [flatMap_congr' (fun i _ => clean_startLine hn i), flatMap_congr' (fun p _ => clean_precLine hn p),
    flatMap_congr' (fun t _ => clean_tokenLine hn t), flatMap_congr' (fun grp _ => clean_groupLines hn grp)]

/-! ### which words occur where -/

theorem mem_symNames {w : Word} {rhs : List Item} (h : w ∈ symNames g rhs) : Good w := by
  simp only [symNames, List.mem_filterMap] at h
  obtain ⟨it, _, hit⟩ := h
  cases it with
  | sym i => simp at hit; subst hit; exact goodName_name hn i
  | marker m => simp at hit

theorem mem_altToks {w : Word} {r : Rule} (h : w ∈ altToks g r) : Good w ∨ w = kEmpty ∨ w = kPrec := by
  simp only [altToks, bodyToks, precPart, List.mem_append] at h
  rcases h with h | h
  · split at h
    · simp at h; exact Or.inr (Or.inl h)
    · exact Or.inl (mem_symNames hn h)
  · split at h
    · simp at h
    · simp at h
      rcases h with rfl | rfl
      · exact Or.inr (Or.inr rfl)
      · exact Or.inl (goodName_name hn _)

theorem mem_altsToks {w : Word} {rs : List Rule} (h : w ∈ altsToks g rs) :
    Good w ∨ w = kEmpty ∨ w = kPrec ∨ w = kBar := by
  cases rs with
  | nil => simp [altsToks] at h
  | cons r rs =>
    simp only [altsToks, List.mem_append, List.mem_flatMap, List.mem_cons] at h
    rcases h with h | ⟨x, _, rfl | h⟩
    · rcases mem_altToks hn h with h | h | h
      · exact Or.inl h
      · exact Or.inr (Or.inl h)
      · exact Or.inr (Or.inr (Or.inl h))
    · exact Or.inr (Or.inr (Or.inr rfl))
    · rcases mem_altToks hn h with h | h | h
      · exact Or.inl h
      · exact Or.inr (Or.inl h)
      · exact Or.inr (Or.inr (Or.inl h))

theorem mem_groupBody {w : Word} {grp : Nat × List Rule} (h : w ∈ groupBody g grp) :
    Good w ∨ w = kEmpty ∨ w = kPrec ∨ w = kBar ∨ w = kColon := by
  simp only [groupBody, List.mem_cons] at h
  rcases h with rfl | rfl | h
  · exact Or.inl (goodName_name hn _)
  · simp
  · rcases mem_altsToks hn h with h | h | h | h
    · exact Or.inl h
    · exact Or.inr (Or.inl h)
    · exact Or.inr (Or.inr (Or.inl h))
    · exact Or.inr (Or.inr (Or.inr (Or.inl h)))

theorem mem_groupToks {w : Word} (h : w ∈ groupToks g) :
    Good w ∨ w = kEmpty ∨ w = kPrec ∨ w = kBar ∨ w = kColon ∨ w = kSemi := by
  simp only [groupToks, List.mem_flatMap, List.mem_append, List.mem_cons, List.mem_nil_iff, or_false] at h
  obtain ⟨grp, _, h | rfl⟩ := h
  · rcases mem_groupBody hn h with h | h | h | h | h
    · exact Or.inl h
    · exact Or.inr (Or.inl h)
    · exact Or.inr (Or.inr (Or.inl h))
    · exact Or.inr (Or.inr (Or.inr (Or.inl h)))
    · exact Or.inr (Or.inr (Or.inr (Or.inr (Or.inl h))))
  · simp

theorem declLines_spec {d : Word × List Word} (h : d ∈ declLines g) :
    (d.1 = kStart ∨ d.1 = kLeft ∨ d.1 = kRight ∨ d.1 = kNonassoc ∨ d.1 = kToken) ∧ ∀ w ∈ d.2, Good w := by
  simp only [declLines, List.mem_append, List.mem_map] at h
  rcases h with (⟨i, _, rfl⟩ | ⟨p, _, rfl⟩) | ⟨t, _, rfl⟩
  · refine ⟨Or.inl rfl, ?_⟩
    intro w hw; simp at hw; subst hw; exact goodName_name hn _
  · refine ⟨?_, ?_⟩
    · cases p.assoc <;> simp [assocWord]
    · intro w hw; simp only [List.mem_map] at hw; obtain ⟨t, _, rfl⟩ := hw; exact goodName_name hn _
  · refine ⟨by simp, ?_⟩
    intro w hw; simp at hw; subst hw; exact goodName_name hn _

theorem mem_declToks {w : Word} (h : w ∈ declToks g) :
    Good w ∨ w = kStart ∨ w = kLeft ∨ w = kRight ∨ w = kNonassoc ∨ w = kToken := by
  simp only [declToks, List.mem_flatMap, List.mem_cons] at h
  obtain ⟨d, hd, rfl | h⟩ := h
  · exact Or.inr (declLines_spec hn hd).1
  · exact Or.inl ((declLines_spec hn hd).2 w h)

theorem toks_noBrace : ∀ w ∈ toks g, w.count '{' = 0 ∧ w.count '}' = 0 := by
  intro w hw
  simp only [toks, List.mem_append, List.mem_cons, List.mem_nil_iff, or_false] at hw
  rcases hw with h | rfl | h | rfl
  · rcases mem_declToks hn h with h | rfl | rfl | rfl | rfl | rfl
    · exact ⟨h.noOpen, h.noClose⟩
    all_goals decide
  · decide
  · rcases mem_groupToks hn h with h | rfl | rfl | rfl | rfl | rfl
    · exact ⟨h.noOpen, h.noClose⟩
    all_goals decide
  · decide

theorem altWords_noWs (hm : MarkersWF g.markers) (r : Rule) : ∀ w ∈ altWords g r, noWsW w = true := by
  intro w hw
  simp only [altWords, List.mem_append] at hw
  rcases hw with hw | hw
  · split at hw
    · simp at hw; subst hw; decide
    · simp only [List.mem_map] at hw
      obtain ⟨it, _, rfl⟩ := hw
      cases it with
      | sym i => exact (goodName_name hn i).noWsW
      | marker m => exact marker_noWs hm m
  · split at hw
    · simp at hw
    · simp at hw
      rcases hw with rfl | rfl
      · decide
      · exact (goodName_name hn _).noWsW

theorem lines_noWs (hm : MarkersWF g.markers) : ∀ l ∈ lines g, ∀ w ∈ l, ∀ c ∈ w, isWs c = false := by
  suffices h : ∀ l ∈ lines g, ∀ w ∈ l, noWsW w = true by
    intro l hl w hw c hc
    have := h l hl w hw
    simp only [noWsW, List.all_eq_true, Bool.not_eq_true'] at this
    exact this c hc
  intro l hl w hw
  simp only [lines, List.mem_append, List.mem_cons, List.mem_map, List.mem_flatMap, List.mem_nil_iff,
    or_false, or_assoc] at hl
  rcases hl with rfl | rfl | rfl | ⟨i, _, rfl⟩ | rfl | ⟨p, _, rfl⟩ | ⟨t, _, rfl⟩ | rfl | rfl | ⟨grp, _, h⟩ | rfl | rfl | rfl
  · simp at hw; subst hw; decide
  · simp at hw; subst hw; decide
  · simp at hw
  · simp only [startLine, List.mem_append, List.mem_cons, List.mem_nil_iff, or_false] at hw
    rcases hw with (rfl | rfl) | hw
    · decide
    · exact (goodName_name hn _).noWsW
    · split at hw
      · simp at hw; rcases hw with rfl | rfl <;> decide
      · simp at hw
  · simp at hw
  · simp only [precLine, List.mem_cons, List.mem_map] at hw
    rcases hw with rfl | ⟨t, _, rfl⟩
    · cases p.assoc <;> decide
    · exact (goodName_name hn _).noWsW
  · simp only [tokenLine, List.mem_cons, List.mem_nil_iff, or_false] at hw
    rcases hw with rfl | rfl
    · decide
    · exact (goodName_name hn _).noWsW
  · simp at hw
  · simp at hw; subst hw; decide
  · simp only [groupLines, List.mem_append, List.mem_cons, List.mem_nil_iff, or_false] at h
    rcases h with ((rfl | rfl) | h) | rfl
    · simp at hw
    · simp at hw
      rcases hw with rfl | rfl
      · exact (goodName_name hn _).noWsW
      · decide
    · cases hrs : grp.2 with
      | nil => simp [hrs, altLines] at h
      | cons r rs =>
        simp only [hrs, altLines, List.mem_cons, List.mem_map] at h
        rcases h with rfl | ⟨x, _, rfl⟩
        · simp only [List.mem_cons] at hw
          rcases hw with rfl | rfl | hw
          · decide
          · decide
          · exact altWords_noWs hn hm r w hw
        · simp only [List.mem_cons] at hw
          rcases hw with rfl | hw
          · decide
          · exact altWords_noWs hn hm x w hw
    · simp at hw; subst hw; decide
  · simp at hw
  · simp at hw; subst hw; decide
  · simp at hw

/-- the lexer reads the rendered text back as the token stream `toks g` -/
theorem lexY_render (hm : MarkersWF g.markers) : lexY (renderChars g) = toks g := by
  unfold renderChars
  rw [lexY_unlines _ (lines_noWs hn hm), clean_lines hn]
  have : skipBraces 0 (kOpen :: kClose :: toks g) = skipBraces 0 (toks g) := by
    simp [skipBraces, kOpen, kClose]
  rw [this, skipBraces_clean _ (toks_noBrace hn)]

/-! ### parsing the token stream back -/

theorem declLines_ok : ∀ d ∈ declLines g, isPlain d.1 = false ∧ ∀ w ∈ d.2, isPlain w = true := by
  intro d hd
  obtain ⟨h1, h2⟩ := declLines_spec hn hd
  refine ⟨?_, fun w hw => (h2 w hw).plain⟩
  rcases h1 with h | h | h | h | h <;> rw [h] <;> decide

omit hn in
theorem assocOf_assocWord (a : Assoc) : assocOf (assocWord a) = some a := by
  cases a <;> decide

omit hn in
theorem precsOf_declLines : precsOf (declLines g) = precOf g := by
  simp only [precsOf, declLines, List.filterMap_append, List.filterMap_map]
  rw [filterMap_none' (l := g.inputs), filterMap_some' (g := precN g) (l := g.prec), filterMap_none']
  · simp [precOf]
  · intro t _; simp only [Function.comp]; rfl
  · intro p _; simp only [Function.comp, precN, assocOf_assocWord, Option.map_some]
  · intro i _; simp only [Function.comp]; rfl

theorem mem_bodyToks {w : Word} {r : Rule} (h : w ∈ bodyToks g r) : Good w ∨ w = kEmpty := by
  simp only [bodyToks] at h
  split at h
  · simp at h; exact Or.inr h
  · exact Or.inl (mem_symNames hn h)

theorem bodyToks_filter (r : Rule) : (bodyToks g r).filter (fun w => !(w == kEmpty)) = symNames g r.rhs := by
  simp only [bodyToks]
  split
  · rename_i he
    have : r.rhs = [] := by simpa using he
    simp [this, symNames]
  · apply filter_all
    intro w hw
    simp [isPlain_ne_of_pct (mem_symNames hn hw).plain (k := kEmpty) rfl]

theorem bodyOk_bodyToks (r : Rule) : bodyOk (bodyToks g r) = true := by
  simp only [bodyOk, List.all_eq_true, Bool.or_eq_true]
  intro w hw
  rcases mem_bodyToks hn hw with h | rfl
  · exact Or.inl h.plain
  · exact Or.inr (by decide)

theorem parseAlt_altToks (lhs : Word) (r : Rule) :
    parseAlt lhs (altToks g r) =
      some ⟨lhs, symNames g r.rhs, if r.prec == 0 then none else some (name g r.prec)⟩ := by
  have hb : ∀ w ∈ bodyToks g r, (fun w => w == kPrec) w = false := by
    intro w hw
    rcases mem_bodyToks hn hw with h | rfl
    · exact isPlain_ne_of_pct h.plain rfl
    · decide
  by_cases hp : (r.prec == 0) = true
  · have hc : chunks (fun w => w == kPrec) (altToks g r) = [bodyToks g r] := by
      simp only [altToks, precPart, hp, if_true, List.append_nil]
      exact chunks_no _ _ hb
    simp only [parseAlt, hc, bodyOk_bodyToks hn r, bodyToks_filter hn r, hp, if_true]
  · have hnm := goodName_name hn r.prec
    have h1 : chunks (fun w => w == kPrec) [name g r.prec] = [[name g r.prec]] :=
      chunks_no _ _ (by intro w hw; simp at hw; subst hw; exact isPlain_ne_of_pct hnm.plain rfl)
    have hc : chunks (fun w => w == kPrec) (altToks g r) = [bodyToks g r, [name g r.prec]] := by
      simp only [altToks, precPart, if_neg hp]
      rw [chunks_append_sep _ _ _ kPrec (by decide) hb, h1]
    simp only [parseAlt, hc, bodyOk_bodyToks hn r, bodyToks_filter hn r, hnm.plain, if_neg hp, Bool.and_self, if_true]

def ruleNL (g : Gram) (lhs : Word) (r : Rule) : RuleN :=
  ⟨lhs, symNames g r.rhs, if r.prec == 0 then none else some (name g r.prec)⟩

theorem altToks_noBar {w : Word} {r : Rule} (h : w ∈ altToks g r) : (fun w => w == kBar) w = false := by
  rcases mem_altToks hn h with h | rfl | rfl
  · exact (isPlain_ne_punct h.plain).2.1
  · decide
  · decide

theorem parseGroup_body (grp : Nat × List Rule) (hne : grp.2 ≠ []) :
    parseGroup (groupBody g grp) = some (grp.2.map (ruleNL g (name g grp.1))) := by
  have hnm := goodName_name hn grp.1
  obtain ⟨l, rs⟩ := grp
  cases rs with
  | nil => exact absurd rfl hne
  | cons r rs =>
    have hc : chunks (fun w => w == kBar) (altsToks g (r :: rs)) = (r :: rs).map (altToks g) := by
      simp only [altsToks, List.map_cons]
      exact chunks_sep _ _ _ (altToks g) kBar (by decide) (fun w hw => altToks_noBar hn hw)
        (fun x _ w hw => altToks_noBar hn hw)
    have hk : (kColon == kColon) = true := by decide
    simp only [groupBody, parseGroup, hnm.plain, hk, Bool.and_self, if_true, hc]
    exact mapOpt_map_eq _ _ _ _ (fun x _ => parseAlt_altToks hn _ x)

theorem groupBody_noSemi {w : Word} {grp : Nat × List Rule} (h : w ∈ groupBody g grp) :
    (fun w => w == kSemi) w = false := by
  rcases mem_groupBody hn h with h | rfl | rfl | rfl | rfl
  · exact (isPlain_ne_punct h.plain).2.2
  all_goals decide

theorem parseRules_groups (gs : List (Nat × List Rule)) (hne : ∀ grp ∈ gs, grp.2 ≠ []) :
    parseRules (gs.flatMap (fun grp => groupBody g grp ++ [kSemi])) =
      some ((gs.map (fun grp => grp.2.map (ruleNL g (name g grp.1)))).flatten) := by
  unfold parseRules
  rw [chunks_term _ gs (groupBody g) kSemi (by decide) (fun grp _ w hw => groupBody_noSemi hn hw),
    initIfLastNil_append]
  simp only
  rw [mapOpt_map_eq parseGroup (groupBody g) (fun grp => grp.2.map (ruleNL g (name g grp.1))) gs
    (fun grp hg => parseGroup_body hn grp (hne grp hg))]
  rfl

omit hn in
theorem groupsF_spec (n : Nat) (rs : List Rule) :
    ∀ grp ∈ groupsF n rs, grp.2 ≠ [] ∧ ∀ r ∈ grp.2, r.lhs = grp.1 := by
  induction n generalizing rs with
  | zero => simp [groupsF]
  | succ n ih =>
    cases rs with
    | nil => simp [groupsF]
    | cons r rs =>
      intro grp hg
      simp only [groupsF, List.mem_cons] at hg
      rcases hg with rfl | hg
      · refine ⟨by simp, ?_⟩
        intro x hx
        simp only [List.mem_cons, List.mem_filter, beq_iff_eq] at hx
        rcases hx with rfl | ⟨_, h⟩
        · rfl
        · exact h
      · exact ih _ grp hg

omit hn in
theorem groups_spec (rs : List Rule) : ∀ grp ∈ groups rs, grp.2 ≠ [] ∧ ∀ r ∈ grp.2, r.lhs = grp.1 :=
  groupsF_spec _ rs

theorem toks_chunks : chunks (fun w => w == kPP) (toks g) = [declToks g, groupToks g, []] := by
  have h1 : ∀ w ∈ declToks g, (fun w => w == kPP) w = false := by
    intro w hw
    rcases mem_declToks hn hw with h | rfl | rfl | rfl | rfl | rfl
    · exact isPlain_ne_of_pct h.plain rfl
    all_goals decide
  have h2 : ∀ w ∈ groupToks g, (fun w => w == kPP) w = false := by
    intro w hw
    rcases mem_groupToks hn hw with h | rfl | rfl | rfl | rfl | rfl
    · exact isPlain_ne_of_pct h.plain rfl
    all_goals decide
  unfold toks
  rw [chunks_append_sep _ _ _ kPP (by decide) h1, chunks_append_sep _ _ _ kPP (by decide) h2]
  rfl

/-- the parser reads the token stream of a rendered grammar back -/
theorem parseToks_toks (ho : OrderKept g.rules) : parseToks (toks g) = some (rulesOf g, precOf g) := by
  have hspec := groups_spec g.rules
  unfold parseToks
  rw [toks_chunks hn]
  simp only
  have hd : declsOk (declToks g) = true := declsOk_lines _ (fun d hd => (declLines_ok hn d hd).1)
  have hp : parseDecls (declToks g) = declLines g := parseDecls_lines _ (declLines_ok hn)
  have hr := parseRules_groups hn (groups g.rules) (fun grp hg => (hspec grp hg).1)
  rw [hd, hp, precsOf_declLines]
  simp only [if_true, groupToks, hr, Option.map_some]
  congr 2
  -- the rules: lhs of every rule of a group is the group key, and grouping keeps the order
  have : (groups g.rules).map (fun grp => grp.2.map (ruleNL g (name g grp.1))) =
      (groups g.rules).map (fun grp => grp.2.map (ruleN g)) := by
    apply List.map_congr_left
    intro grp hg
    apply List.map_congr_left
    intro r hr
    simp [ruleNL, ruleN, (hspec grp hg).2 r hr]
  rw [this]
  unfold rulesOf
  unfold OrderKept at ho
  conv => rhs; rw [← ho]
  exact flatten_map_map _ _

end

/-! ### from spellings back to symbol indices -/

def syms (rhs : List Item) : List Nat :=
  rhs.filterMap fun
    | .sym i => some i
    | .marker _ => none

theorem symNames_eq (g : Gram) (rhs : List Item) : symNames g rhs = (syms rhs).map (name g) := by
  induction rhs with
  | nil => rfl
  | cons it rhs ih =>
    cases it with
    | sym i => simp [symNames, syms] at ih ⊢; exact ih
    | marker m => simp [symNames, syms] at ih ⊢; exact ih

theorem eraseMarkers_rhs (r : Rule) : (eraseMarkers r).rhs = (syms r.rhs).map Item.sym := by
  simp only [eraseMarkers]
  induction r.rhs with
  | nil => rfl
  | cons it rhs ih =>
    cases it with
    | sym i => simp [syms] at ih ⊢; exact ih
    | marker m => simp [syms] at ih ⊢; exact ih

theorem name_inj {g : Gram} (hnd : g.names.Nodup) {i j : Nat} (hi : i < g.names.length)
    (hj : j < g.names.length) (h : name g i = name g j) : i = j := by
  exact (List.getD_inj hi hj hnd).mp h

theorem map_inj_on {f : α → β} {l1 l2 : List α} (hf : ∀ x ∈ l1, ∀ y ∈ l2, f x = f y → x = y)
    (h : l1.map f = l2.map f) : l1 = l2 := by
  induction l1 generalizing l2 with
  | nil => cases l2 with
    | nil => rfl
    | cons y l2 => simp at h
  | cons x l1 ih =>
    cases l2 with
    | nil => simp at h
    | cons y l2 =>
      simp only [List.map_cons, List.cons.injEq] at h
      have := hf x (by simp) y (by simp) h.1
      subst this
      rw [ih (fun a ha b hb => hf a (by simp [ha]) b (by simp [hb])) h.2]

theorem map_rel {f1 : α → γ} {f2 : β → γ} {h1 : α → δ} {h2 : β → δ} {l1 : List α} {l2 : List β}
    (hr : ∀ x ∈ l1, ∀ y ∈ l2, f1 x = f2 y → h1 x = h2 y) (h : l1.map f1 = l2.map f2) :
    l1.map h1 = l2.map h2 := by
  induction l1 generalizing l2 with
  | nil => cases l2 with
    | nil => rfl
    | cons y l2 => simp at h
  | cons x l1 ih =>
    cases l2 with
    | nil => simp at h
    | cons y l2 =>
      simp only [List.map_cons, List.cons.injEq] at h ⊢
      exact ⟨hr x (by simp) y (by simp) h.1, ih (fun a ha b hb => hr a (by simp [ha]) b (by simp [hb])) h.2⟩

theorem mem_syms {i : Nat} {rhs : List Item} (h : i ∈ syms rhs) : Item.sym i ∈ rhs := by
  simp only [syms, List.mem_filterMap] at h
  obtain ⟨it, hit, he⟩ := h
  cases it with
  | sym j => simp at he; subst he; exact hit
  | marker m => simp at he

theorem inRange_rule {g : Gram} (h : inRange g = true) {r : Rule} (hr : r ∈ g.rules) :
    r.lhs < g.names.length ∧ (r.prec = 0 ∨ r.prec < g.names.length) ∧ ∀ i ∈ syms r.rhs, i < g.names.length := by
  simp only [inRange, Bool.and_eq_true, List.all_eq_true, Bool.or_eq_true, beq_iff_eq, decide_eq_true_eq] at h
  obtain ⟨⟨h1, h2⟩, h3⟩ := h.1 r hr
  refine ⟨h1, h2, ?_⟩
  intro i hi
  have := h3 _ (mem_syms hi)
  simpa using this

theorem rules_of_rulesOf {g₁ g₂ : Gram} (hnames : g₁.names = g₂.names) (hnd : g₁.names.Nodup)
    (hr₁ : inRange g₁ = true) (hr₂ : inRange g₂ = true) (h : rulesOf g₁ = rulesOf g₂) :
    g₁.rules.map eraseMarkers = g₂.rules.map eraseMarkers := by
  have hname : name g₂ = name g₁ := funext fun i => by simp [name, hnames]
  apply map_rel (f1 := ruleN g₁) (f2 := ruleN g₂) _ h
  intro r₁ hm₁ r₂ hm₂ he
  obtain ⟨a1, a2, a3⟩ := inRange_rule hr₁ hm₁
  obtain ⟨b1, b2, b3⟩ := inRange_rule hr₂ hm₂
  rw [← hnames] at b1 b2 b3
  simp only [ruleN, RuleN.mk.injEq, hname, symNames_eq] at he
  obtain ⟨e1, e2, e3⟩ := he
  have l := name_inj hnd a1 b1 e1
  have rr : syms r₁.rhs = syms r₂.rhs :=
    map_inj_on (fun x hx y hy hxy => name_inj hnd (a3 x hx) (b3 y hy) hxy) e2
  have pp : r₁.prec = r₂.prec := by
    by_cases p1 : r₁.prec = 0 <;> by_cases p2 : r₂.prec = 0
    · rw [p1, p2]
    · simp [p1, p2] at e3
    · simp [p1, p2] at e3
    · simp only [beq_iff_eq, p1, p2, if_false, Option.some.injEq] at e3
      exact name_inj hnd (a2.resolve_left p1) (b2.resolve_left p2) e3
  have : ∀ r : Rule, eraseMarkers r = ⟨r.lhs, (syms r.rhs).map Item.sym, r.prec⟩ := by
    intro r
    have := eraseMarkers_rhs r
    cases r
    simp_all [eraseMarkers]
  rw [this r₁, this r₂, l, rr, pp]

theorem prec_of_precOf {g₁ g₂ : Gram} (hnames : g₁.names = g₂.names) (hnd : g₁.names.Nodup)
    (hr₁ : inRange g₁ = true) (hr₂ : inRange g₂ = true) (h : precOf g₁ = precOf g₂) : g₁.prec = g₂.prec := by
  have hname : name g₂ = name g₁ := funext fun i => by simp [name, hnames]
  have q₁ : ∀ p ∈ g₁.prec, ∀ t ∈ p.terms, t < g₁.names.length := by
    simp only [inRange, Bool.and_eq_true, List.all_eq_true, decide_eq_true_eq] at hr₁
    exact hr₁.2
  have q₂ : ∀ p ∈ g₂.prec, ∀ t ∈ p.terms, t < g₁.names.length := by
    simp only [inRange, Bool.and_eq_true, List.all_eq_true, decide_eq_true_eq] at hr₂
    rw [hnames]; exact hr₂.2
  have := map_rel (f1 := precN g₁) (f2 := precN g₂) (h1 := id) (h2 := id) (l1 := g₁.prec) (l2 := g₂.prec) ?_ h
  · simpa using this
  intro p₁ hp₁ p₂ hp₂ he
  simp only [precN, PrecN.mk.injEq, hname] at he
  have tt : p₁.terms = p₂.terms :=
    map_inj_on (fun x hx y hy hxy => name_inj hnd (q₁ p₁ hp₁ x hx) (q₂ p₂ hp₂ y hy) hxy) he.2
  cases p₁; cases p₂
  simp_all

end TmVerif.Bison
