import TmVerif.Model.Bison
/-!
Helper lemmas for C30: `chunks`, the lexer on rendered lines, the parser on the rendered token stream.
-/
namespace TmVerif.Bison

theorem flatMap_congr' {f g : α → List β} {l : List α} (h : ∀ x ∈ l, f x = g x) :
    l.flatMap f = l.flatMap g := by
  induction l with
  | nil => rfl
  | cons x l ih =>
    simp only [List.flatMap_cons, h x (by simp), ih (fun y hy => h y (by simp [hy]))]

theorem takeWhile_all {p : α → Bool} {l : List α} (h : ∀ x ∈ l, p x = true) : l.takeWhile p = l := by
  induction l with
  | nil => rfl
  | cons x l ih => simp [h x (by simp), ih (fun y hy => h y (by simp [hy]))]

/-! ### chunks -/

theorem chunks_no (p : α → Bool) (l : List α) (h : ∀ x ∈ l, p x = false) : chunks p l = [l] := by
  induction l with
  | nil => rfl
  | cons x l ih =>
    have hx : p x = false := h x (by simp)
    have := ih (fun y hy => h y (by simp [hy]))
    simp [chunks, hx, this, consHead]

theorem chunks_append_sep (p : α → Bool) (l rest : List α) (c : α) (hc : p c = true)
    (h : ∀ x ∈ l, p x = false) : chunks p (l ++ c :: rest) = l :: chunks p rest := by
  induction l with
  | nil => simp [chunks, hc]
  | cons x l ih =>
    have hx : p x = false := h x (by simp)
    have := ih (fun y hy => h y (by simp [hy]))
    simp [chunks, hx, this, consHead]

/-- pieces each closed by a separator -/
theorem chunks_term (p : α → Bool) (xs : List β) (f : β → List α) (sep : α) (hs : p sep = true)
    (h : ∀ x ∈ xs, ∀ y ∈ f x, p y = false) :
    chunks p (xs.flatMap (fun x => f x ++ [sep])) = xs.map f ++ [[]] := by
  induction xs with
  | nil => rfl
  | cons x xs ih =>
    have := ih (fun y hy => h y (by simp [hy]))
    simp only [List.flatMap_cons, List.append_assoc, List.map_cons, List.cons_append, List.nil_append]
    rw [chunks_append_sep p _ _ sep hs (h x (by simp)), this]

/-- pieces separated by a separator -/
theorem chunks_sep (p : α → Bool) (a : List α) (xs : List β) (f : β → List α) (sep : α) (hs : p sep = true)
    (ha : ∀ y ∈ a, p y = false) (h : ∀ x ∈ xs, ∀ y ∈ f x, p y = false) :
    chunks p (a ++ xs.flatMap (fun x => sep :: f x)) = a :: xs.map f := by
  induction xs generalizing a with
  | nil => simp [chunks_no p a ha]
  | cons x xs ih =>
    simp only [List.flatMap_cons, List.cons_append, List.map_cons]
    rw [chunks_append_sep p _ _ sep hs ha]
    rw [ih (f x) (h x (by simp)) (fun y hy => h y (by simp [hy]))]

theorem initIfLastNil_append (l : List (List α)) : initIfLastNil (l ++ [[]]) = some l := by
  induction l with
  | nil => rfl
  | cons x l ih =>
    cases l with
    | nil => simp [initIfLastNil]
    | cons y l => simp [initIfLastNil] at ih ⊢; simp [ih]

theorem mapOpt_eq (f : α → Option β) (g : α → β) (l : List α) (h : ∀ x ∈ l, f x = some (g x)) :
    mapOpt f l = some (l.map g) := by
  induction l with
  | nil => rfl
  | cons x l ih =>
    have := ih (fun y hy => h y (by simp [hy]))
    simp [mapOpt, h x (by simp), this]

/-! ### facts about well-formed spellings -/

theorem isPlain_ne_of_pct {w k : Word} (h : isPlain w = true) (hk : k.head? = some '%') : (w == k) = false := by
  cases w with
  | nil => simp [isPlain] at h
  | cons c t =>
    cases k with
    | nil => simp
    | cons c' t' =>
      simp only [List.head?_cons, Option.some.injEq] at hk
      subst hk
      simp only [isPlain, Bool.and_eq_true, bne_iff_ne, ne_eq] at h
      simp [h.1.1.1]

theorem isPlain_ne_punct {w : Word} (h : isPlain w = true) :
    (w == kColon) = false ∧ (w == kBar) = false ∧ (w == kSemi) = false := by
  cases w with
  | nil => simp [isPlain] at h
  | cons c t =>
    simp only [isPlain, Bool.and_eq_true, bne_iff_ne, ne_eq] at h
    simp [h.1.1.2, h.1.2, h.2]

structure Good (w : Word) : Prop where
  plain : isPlain w = true
  chars : ∀ c ∈ w, goodChar c = true
  noSlash : w.head? ≠ some '/'

theorem good_of {w : Word} (h : goodName w = true) : Good w := by
  simp only [goodName, Bool.and_eq_true, List.all_eq_true, bne_iff_ne, ne_eq] at h
  exact ⟨h.1.1, h.1.2, h.2⟩

theorem Good.ne_nil {w : Word} (h : Good w) : w ≠ [] := by
  intro e; subst e; have := h.plain; simp [isPlain] at this

theorem Good.noWs {w : Word} (h : Good w) : ∀ c ∈ w, isWs c = false := by
  intro c hc
  have := h.chars c hc
  simp only [goodChar, Bool.and_eq_true, Bool.not_eq_true'] at this
  exact this.1.1

theorem Good.noOpen {w : Word} (h : Good w) : w.count '{' = 0 := by
  rw [List.count_eq_zero]
  intro hc
  have := h.chars _ hc
  simp [goodChar] at this

theorem Good.noClose {w : Word} (h : Good w) : w.count '}' = 0 := by
  rw [List.count_eq_zero]
  intro hc
  have := h.chars _ hc
  simp [goodChar] at this

theorem Good.notLine {w : Word} (h : Good w) : isLineComment w = false := by
  cases w with
  | nil => rfl
  | cons c t =>
    have := h.noSlash
    simp only [List.head?_cons, ne_eq, Option.some.injEq] at this
    simp [isLineComment, kSlashes, List.isPrefixOf, Ne.symm this]

theorem Good.notBlock {w : Word} (h : Good w) : isBlockComment w = false := by
  cases w with
  | nil => rfl
  | cons c t =>
    have := h.noSlash
    simp only [List.head?_cons, ne_eq, Option.some.injEq] at this
    simp [isBlockComment, kBlock, List.isPrefixOf, Ne.symm this]

theorem goodName_name {g : Gram} (h : g.names.all goodName = true) (i : Nat) : Good (name g i) := by
  apply good_of
  unfold name
  rw [List.getD_eq_getElem?_getD]
  cases hi : g.names[i]? with
  | none => decide
  | some w =>
    have hm : w ∈ g.names := List.mem_of_getElem? hi
    simpa using (List.all_eq_true.mp h) w hm

/-! ### the lexer on rendered lines -/

theorem mem_joinSp {ws : List Word} {c : Char} (h : c ∈ joinSp ws) : c = ' ' ∨ ∃ w ∈ ws, c ∈ w := by
  induction ws with
  | nil => simp [joinSp] at h
  | cons w ws ih =>
    cases ws with
    | nil => simp only [joinSp] at h; exact Or.inr ⟨w, by simp, h⟩
    | cons w' ws =>
      simp only [joinSp, List.mem_append, List.mem_cons] at h
      rcases h with h | h | h
      · exact Or.inr ⟨w, by simp, h⟩
      · exact Or.inl h
      · rcases ih h with h | ⟨x, hx, hc⟩
        · exact Or.inl h
        · exact Or.inr ⟨x, by simp [hx], hc⟩

theorem wordsOf_joinSp (ws : List Word) (h : ∀ w ∈ ws, ∀ c ∈ w, isWs c = false) :
    wordsOf (joinSp ws) = ws.filter (fun w => !w.isEmpty) := by
  unfold wordsOf
  induction ws with
  | nil => simp [joinSp, chunks]
  | cons w ws ih =>
    cases ws with
    | nil =>
      simp only [joinSp]
      rw [chunks_no isWs w (h w (by simp))]
    | cons w' ws =>
      simp only [joinSp]
      rw [chunks_append_sep isWs w _ ' ' (by decide) (h w (by simp))]
      rw [List.filter_cons, ih (fun x hx => h x (by simp [hx]))]
      simp [List.filter_cons]

/-- what `lexLine` leaves of a line given as words -/
def clean (l : List Word) : List Word :=
  ((l.filter (fun w => !w.isEmpty)).takeWhile (fun w => !isLineComment w)).filter (fun w => !isBlockComment w)

theorem lexLine_joinSp (l : List Word) (h : ∀ w ∈ l, ∀ c ∈ w, isWs c = false) :
    lexLine (joinSp l) = clean l := by
  simp [lexLine, clean, wordsOf_joinSp l h]

theorem chunks_unlines (ls : List (List Word)) (h : ∀ l ∈ ls, ∀ w ∈ l, ∀ c ∈ w, isWs c = false) :
    chunks isNl (unlines ls) = ls.map joinSp ++ [[]] := by
  unfold unlines
  apply chunks_term isNl ls joinSp '\n' (by decide)
  intro l hl c hc
  rcases mem_joinSp hc with e | ⟨w, hw, hcw⟩
  · subst e; decide
  · have := h l hl w hw c hcw
    simp only [isWs, Bool.or_eq_false_iff] at this
    simpa [isNl] using this.1.1.2

theorem lexY_unlines (ls : List (List Word)) (h : ∀ l ∈ ls, ∀ w ∈ l, ∀ c ∈ w, isWs c = false) :
    lexY (unlines ls) = skipBraces 0 (ls.flatMap clean) := by
  unfold lexY
  rw [chunks_unlines ls h]
  congr 1
  rw [List.flatMap_append]
  have : lexLine [] = [] := by simp [lexLine, wordsOf, chunks]
  simp only [List.flatMap_cons, List.flatMap_nil, this, List.append_nil]
  rw [List.flatMap_map]
  exact flatMap_congr' (fun l hl => lexLine_joinSp l (h l hl))

theorem skipBraces_clean (ws : List Word) (h : ∀ w ∈ ws, w.count '{' = 0 ∧ w.count '}' = 0) :
    skipBraces 0 ws = ws := by
  induction ws with
  | nil => rfl
  | cons w ws ih =>
    have hw := h w (by simp)
    simp [skipBraces, hw.1, hw.2, ih (fun x hx => h x (by simp [hx]))]

/-! ### the token stream of a rendered grammar -/

def precPart (g : Gram) (r : Rule) : List Word := if r.prec == 0 then [] else [kPrec, name g r.prec]

def altToks (g : Gram) (r : Rule) : List Word :=
  (if r.rhs.isEmpty then [kEmpty] else symNames g r.rhs) ++ precPart g r

def altsToks (g : Gram) : List Rule → List Word
  | [] => []
  | r :: rs => altToks g r ++ rs.flatMap (fun r => kBar :: altToks g r)

def groupBody (g : Gram) (grp : Nat × List Rule) : List Word := name g grp.1 :: kColon :: altsToks g grp.2

def groupToks (g : Gram) : List Word := (groups g.rules).flatMap (fun grp => groupBody g grp ++ [kSemi])

def declLines (g : Gram) : List (Word × List Word) :=
  g.inputs.map (fun i => (kStart, [name g i.nonterm])) ++
  g.prec.map (fun p => (assocWord p.assoc, p.terms.map (name g))) ++
  ((tokensWithoutPrec g).drop 1).map (fun t => (kToken, [name g t]))

def declToks (g : Gram) : List Word := (declLines g).flatMap (fun d => d.1 :: d.2)

def toks (g : Gram) : List Word := declToks g ++ kPP :: (groupToks g ++ [kPP])

def noWsW (w : Word) : Bool := w.all (fun c => !isWs c)

def keepW (w : Word) : Bool := !w.isEmpty && !isBlockComment w

theorem clean_noLine (l : List Word) (h : ∀ w ∈ l, isLineComment w = false) : clean l = l.filter keepW := by
  unfold clean
  have : (l.filter (fun w => !w.isEmpty)).takeWhile (fun w => !isLineComment w) = l.filter (fun w => !w.isEmpty) := by
    apply takeWhile_all
    intro w hw
    simp [h w (List.mem_filter.mp hw).1]
  rw [this, List.filter_filter]
  congr 1
  funext w
  simp [keepW, Bool.and_comm]

theorem Good.keep {w : Word} (h : Good w) : keepW w = true := by
  have := h.ne_nil
  simp [keepW, h.notBlock, this]

theorem Good.noWsW {w : Word} (h : Good w) : noWsW w = true := by
  simp only [Bison.noWsW, List.all_eq_true, Bool.not_eq_true']
  exact h.noWs

theorem marker_block (g : Gram) (m : Nat) : isBlockComment (markerWord g m) = true := by
  simp [markerWord, isBlockComment, kBlock, List.isPrefixOf]

theorem marker_notLine (g : Gram) (m : Nat) : isLineComment (markerWord g m) = false := by
  simp [markerWord, isLineComment, kSlashes, List.isPrefixOf]

theorem marker_noWs {g : Gram} (hm : MarkersWF g.markers) (m : Nat) : noWsW (markerWord g m) = true := by
  have : ∀ c ∈ g.markers.getD m ['?'], goodChar c = true := by
    rw [List.getD_eq_getElem?_getD]
    cases hi : g.markers[m]? with
    | none => decide
    | some w =>
      have hmem : w ∈ g.markers := List.mem_of_getElem? hi
      have := (List.all_eq_true.mp hm) w hmem
      simpa using this
  simp only [noWsW, markerWord, List.all_append, List.all_eq_true, Bool.and_eq_true, Bool.not_eq_true']
  refine ⟨⟨by decide, ?_⟩, by decide⟩
  intro c hc
  have := this c hc
  simp only [goodChar, Bool.and_eq_true, Bool.not_eq_true'] at this
  exact this.1.1

theorem filter_all {p : α → Bool} {l : List α} (h : ∀ x ∈ l, p x = true) : l.filter p = l := by
  induction l with
  | nil => rfl
  | cons x l ih => simp [h x (by simp), ih (fun y hy => h y (by simp [hy]))]

theorem clean_keep (l : List Word) (h1 : ∀ w ∈ l, isLineComment w = false) (h2 : ∀ w ∈ l, keepW w = true) :
    clean l = l := by
  rw [clean_noLine l h1, filter_all h2]

section
variable {g : Gram} (hn : g.names.all goodName = true)
include hn

theorem items_filter (rhs : List Item) : (rhs.map (itemWord g)).filter keepW = symNames g rhs := by
  induction rhs with
  | nil => rfl
  | cons it rhs ih =>
    cases it with
    | sym i => simp [itemWord, symNames, (goodName_name hn i).keep] at ih ⊢; exact ih
    | marker m => simp [itemWord, symNames, keepW, marker_block] at ih ⊢; exact ih

theorem itemWord_notLine (it : Item) : isLineComment (itemWord g it) = false := by
  cases it with
  | sym i => exact (goodName_name hn i).notLine
  | marker m => exact marker_notLine g m

theorem altWords_notLine (r : Rule) : ∀ w ∈ altWords g r, isLineComment w = false := by
  intro w hw
  simp only [altWords, List.mem_append] at hw
  rcases hw with hw | hw
  · split at hw
    · simp at hw; subst hw; decide
    · simp only [List.mem_map] at hw
      obtain ⟨it, _, rfl⟩ := hw
      exact itemWord_notLine hn it
  · split at hw
    · simp at hw
    · simp at hw
      rcases hw with rfl | rfl
      · decide
      · exact (goodName_name hn _).notLine

theorem clean_altWords (r : Rule) : clean (altWords g r) = altToks g r := by
  rw [clean_noLine _ (altWords_notLine hn r)]
  simp only [altWords, altToks, precPart, List.filter_append]
  congr 1
  · split
    · rfl
    · exact items_filter hn r.rhs
  · split
    · rfl
    · have := (goodName_name hn r.prec).keep
      simp [List.filter_cons, this]; decide

theorem clean_bar_altWords (r : Rule) : clean (kBar :: altWords g r) = kBar :: altToks g r := by
  have h := clean_altWords hn r
  rw [clean_noLine _ (altWords_notLine hn r)] at h
  rw [clean_noLine]
  · rw [List.filter_cons, h]; rfl
  · intro w hw
    simp only [List.mem_cons] at hw
    rcases hw with rfl | hw
    · decide
    · exact altWords_notLine hn r w hw

theorem clean_first_altWords (r : Rule) : clean ([] :: [] :: altWords g r) = altToks g r := by
  have h := clean_altWords hn r
  rw [clean_noLine _ (altWords_notLine hn r)] at h
  rw [clean_noLine]
  · rw [List.filter_cons, List.filter_cons, h]; rfl
  · intro w hw
    simp only [List.mem_cons] at hw
    rcases hw with rfl | rfl | hw
    · decide
    · decide
    · exact altWords_notLine hn r w hw

theorem clean_startLine (i : Input) : clean (startLine g i) = [kStart, name g i.nonterm] := by
  have hg := goodName_name hn i.nonterm
  have h1 := hg.notLine
  have h2 := hg.notBlock
  have h3 := hg.ne_nil
  have hk1 : isLineComment kStart = false := by decide
  have hk2 : isBlockComment kStart = false := by decide
  have hk3 : isLineComment kSlashes = true := by decide
  cases hb : i.noEoi <;>
    simp [startLine, clean, hb, List.filter_cons, List.takeWhile_cons, h1, h2, h3, hk1, hk2, hk3, kStart, kSlashes, kNoEoi]

theorem clean_precLine (p : Prec) : clean (precLine g p) = assocWord p.assoc :: p.terms.map (name g) := by
  apply clean_keep
  · intro w hw
    simp only [precLine, List.mem_cons, List.mem_map] at hw
    rcases hw with rfl | ⟨t, _, rfl⟩
    · cases p.assoc <;> decide
    · exact (goodName_name hn t).notLine
  · intro w hw
    simp only [precLine, List.mem_cons, List.mem_map] at hw
    rcases hw with rfl | ⟨t, _, rfl⟩
    · cases p.assoc <;> decide
    · exact (goodName_name hn t).keep

theorem clean_tokenLine (t : Nat) : clean (tokenLine g t) = [kToken, name g t] := by
  apply clean_keep
  · intro w hw
    simp only [tokenLine, List.mem_cons, List.mem_nil_iff, or_false] at hw
    rcases hw with rfl | rfl
    · decide
    · exact (goodName_name hn t).notLine
  · intro w hw
    simp only [tokenLine, List.mem_cons, List.mem_nil_iff, or_false] at hw
    rcases hw with rfl | rfl
    · decide
    · exact (goodName_name hn t).keep

theorem clean_altLines (rs : List Rule) : (altLines g rs).flatMap clean = altsToks g rs := by
  cases rs with
  | nil => rfl
  | cons r rs =>
    simp only [altLines, altsToks, List.flatMap_cons, clean_first_altWords hn r, List.flatMap_map]
    congr 1
    exact flatMap_congr' (fun x _ => clean_bar_altWords hn x)

theorem clean_groupLines (grp : Nat × List Rule) :
    (groupLines g grp).flatMap clean = groupBody g grp ++ [kSemi] := by
  have hg := goodName_name hn grp.1
  have e1 : clean [] = [] := rfl
  have e2 : clean [name g grp.1, kColon] = [name g grp.1, kColon] := by
    apply clean_keep
    · intro w hw
      simp only [List.mem_cons, List.mem_nil_iff, or_false] at hw
      rcases hw with rfl | rfl
      · exact hg.notLine
      · decide
    · intro w hw
      simp only [List.mem_cons, List.mem_nil_iff, or_false] at hw
      rcases hw with rfl | rfl
      · exact hg.keep
      · decide
  have e3 : clean [kSemi] = [kSemi] := by decide
  simp only [groupLines, List.flatMap_append, List.flatMap_cons, List.flatMap_nil, e1, e2, e3,
    clean_altLines hn, groupBody, List.nil_append, List.append_nil, List.cons_append]

theorem clean_lines : (lines g).flatMap clean = kOpen :: kClose :: toks g := by
  have e1 : clean [] = [] := rfl
  have e2 : clean [kOpen] = [kOpen] := by decide
  have e3 : clean [kClose] = [kClose] := by decide
  have e4 : clean [kPP] = [kPP] := by decide
  simp only [lines, toks, declToks, declLines, groupToks, List.flatMap_append, List.flatMap_cons, List.flatMap_nil,
    List.flatMap_map, e1, e2, e3, e4, List.nil_append, List.append_nil, List.cons_append, List.append_assoc,
    List.flatMap_assoc]
  rw [flatMap_congr' (fun i _ => clean_startLine hn i), flatMap_congr' (fun p _ => clean_precLine hn p),
    flatMap_congr' (fun t _ => clean_tokenLine hn t), flatMap_congr' (fun grp _ => clean_groupLines hn grp)]

end

end TmVerif.Bison
