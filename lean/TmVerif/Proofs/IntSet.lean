import TmVerif.Model.IntSet
namespace TmVerif.IntSet

theorem sortedB_iff (l : List Int) : sortedB l = true ↔ Sorted l := by
  induction l with
  | nil => simp [sortedB, Sorted]
  | cons a l ih =>
    cases l with
    | nil => simp [sortedB, Sorted]
    | cons b l => simp [sortedB, Sorted, ih]

theorem Sorted.tail {a : Int} {l : List Int} (h : Sorted (a :: l)) : Sorted l := by
  cases l with
  | nil => trivial
  | cons b l => exact h.2

theorem Sorted.head_lt {a : Int} {l : List Int} (h : Sorted (a :: l)) : ∀ x ∈ l, a < x := by
  induction l generalizing a with
  | nil => intro x hx; cases hx
  | cons b l ih =>
    intro x hx
    cases hx with
    | head => exact h.1
    | tail _ hx => exact Int.lt_trans h.1 (ih h.2 x hx)

theorem Sorted.cons {a : Int} {l : List Int} (hl : Sorted l) (h : ∀ x ∈ l, a < x) : Sorted (a :: l) := by
  cases l with
  | nil => trivial
  | cons b l => exact ⟨h b (List.mem_cons_self), hl⟩

theorem mem_combine (a b : List Int) (v : Int) : v ∈ combine a b ↔ v ∈ a ∨ v ∈ b := by
  fun_induction combine a b <;> simp_all <;> grind

theorem mem_intersect (a b : List Int) (ha : Sorted a) (hb : Sorted b) (v : Int) :
    v ∈ intersect a b ↔ v ∈ a ∧ v ∈ b := by
  fun_induction intersect a b
  · simp
  · simp
  · rename_i v' a w b hlt ih
    have := ih ha hb.tail
    have h1 := hb.head_lt
    have h2 := ha.head_lt
    simp_all; grind
  · rename_i v' a b hlt ih
    have := ih ha.tail hb
    have h1 := hb.head_lt
    have h2 := ha.head_lt
    simp_all; grind
  · rename_i v' a w b hlt hne ih
    have := ih ha.tail hb
    have h1 := hb.head_lt
    have h2 := ha.head_lt
    simp_all; grind

theorem mem_subtract (a b : List Int) (ha : Sorted a) (hb : Sorted b) (v : Int) :
    v ∈ subtract a b ↔ v ∈ a ∧ v ∉ b := by
  fun_induction subtract a b
  · simp
  · simp
  · rename_i v' a w b hlt ih
    have := ih ha hb.tail
    have h1 := hb.head_lt
    have h2 := ha.head_lt
    simp_all; grind
  · rename_i v' a b hlt ih
    have := ih ha.tail hb
    have h1 := hb.head_lt
    have h2 := ha.head_lt
    simp_all
  · rename_i v' a w b hlt hne ih
    have := ih ha.tail hb
    have h1 := hb.head_lt
    have h2 := ha.head_lt
    simp_all; grind

theorem sorted_combine (a b : List Int) (ha : Sorted a) (hb : Sorted b) : Sorted (combine a b) := by
  fun_induction combine a b
  · exact hb
  · exact ha
  · rename_i v a w b hlt ih
    refine Sorted.cons (ih ha hb.tail) ?_
    intro x hx
    rw [mem_combine] at hx
    have h1 := hb.head_lt
    have h2 := ha.head_lt
    simp_all; grind
  · rename_i v a b hlt ih
    refine Sorted.cons (ih ha.tail hb.tail) ?_
    intro x hx
    rw [mem_combine] at hx
    have h1 := hb.head_lt
    have h2 := ha.head_lt
    simp_all; grind
  · rename_i v a w b hlt hne ih
    refine Sorted.cons (ih ha.tail hb) ?_
    intro x hx
    rw [mem_combine] at hx
    have h1 := hb.head_lt
    have h2 := ha.head_lt
    simp_all; grind

theorem sorted_intersect (a b : List Int) (ha : Sorted a) (hb : Sorted b) : Sorted (intersect a b) := by
  fun_induction intersect a b
  · trivial
  · trivial
  · rename_i v a w b hlt ih; exact ih ha hb.tail
  · rename_i v a b hlt ih
    refine Sorted.cons (ih ha.tail hb) ?_
    intro x hx
    rw [mem_intersect _ _ ha.tail hb] at hx
    exact ha.head_lt x hx.1
  · rename_i v a w b hlt hne ih; exact ih ha.tail hb

theorem sorted_subtract (a b : List Int) (ha : Sorted a) (hb : Sorted b) : Sorted (subtract a b) := by
  fun_induction subtract a b
  · trivial
  · exact ha
  · rename_i v a w b hlt ih; exact ih ha hb.tail
  · rename_i v a b hlt ih; exact ih ha.tail hb
  · rename_i v a w b hlt hne ih
    refine Sorted.cons (ih ha.tail hb) ?_
    intro x hx
    rw [mem_subtract _ _ ha.tail hb] at hx
    exact ha.head_lt x hx.1

/-! ### the public operations (`Merge`, `Intersect`, `Complement`) -/

theorem mem_complement (a : IntSet) (v : Int) : a.complement.Mem v ↔ ¬ a.Mem v := by
  unfold IntSet.Mem IntSet.complement
  cases a.inverse <;> simp

theorem mem_merge (a b : IntSet) (ha : Sorted a.set) (hb : Sorted b.set) (v : Int) :
    (a.merge b).Mem v ↔ a.Mem v ∨ b.Mem v := by
  unfold IntSet.merge IntSet.Mem IntSet.empty
  have h1 := mem_combine a.set b.set v
  have h2 := mem_intersect a.set b.set ha hb v
  have h3 := mem_subtract a.set b.set ha hb v
  have h4 := mem_subtract b.set a.set hb ha v
  cases hai : a.inverse <;> cases hbi : b.inverse <;> cases hae : a.set <;> cases hbe : b.set <;>
    simp_all <;> grind

theorem mem_inter (a b : IntSet) (ha : Sorted a.set) (hb : Sorted b.set) (v : Int) :
    (a.inter b).Mem v ↔ a.Mem v ∧ b.Mem v := by
  unfold IntSet.inter IntSet.Mem IntSet.empty
  have h1 := mem_combine a.set b.set v
  have h2 := mem_intersect a.set b.set ha hb v
  have h3 := mem_subtract a.set b.set ha hb v
  have h4 := mem_subtract b.set a.set hb ha v
  cases hai : a.inverse <;> cases hbi : b.inverse <;> cases hae : a.set <;> cases hbe : b.set <;>
    simp_all <;> grind

theorem sorted_merge (a b : IntSet) (ha : Sorted a.set) (hb : Sorted b.set) :
    Sorted (a.merge b).set := by
  unfold IntSet.merge
  have h1 := sorted_combine a.set b.set ha hb
  have h2 := sorted_intersect a.set b.set ha hb
  have h3 := sorted_subtract a.set b.set ha hb
  have h4 := sorted_subtract b.set a.set hb ha
  repeat' split
  all_goals assumption

theorem sorted_inter (a b : IntSet) (ha : Sorted a.set) (hb : Sorted b.set) :
    Sorted (a.inter b).set := by
  unfold IntSet.inter
  have h1 := sorted_combine a.set b.set ha hb
  have h2 := sorted_intersect a.set b.set ha hb
  have h3 := sorted_subtract a.set b.set ha hb
  have h4 := sorted_subtract b.set a.set hb ha
  repeat' split
  all_goals first | assumption | trivial

/-- Extensionality: a sorted representation is canonical, so comparing the Go result with the
model result as lists decides equality of the denoted sets. -/
theorem sorted_ext (a b : List Int) (ha : Sorted a) (hb : Sorted b)
    (h : ∀ v, v ∈ a ↔ v ∈ b) : a = b := by
  induction a generalizing b with
  | nil =>
    cases b with
    | nil => rfl
    | cons y b => have := (h y).2 List.mem_cons_self; cases this
  | cons x a ih =>
    cases b with
    | nil => have := (h x).1 List.mem_cons_self; cases this
    | cons y b =>
      have hx := ha.head_lt
      have hy := hb.head_lt
      have hxy : x = y := by
        have h1 := (h x).1 List.mem_cons_self
        have h2 := (h y).2 List.mem_cons_self
        simp at h1 h2
        rcases h1 with h1 | h1
        · exact h1
        · rcases h2 with h2 | h2
          · exact h2.symm
          · have := hx y h2; have := hy x h1; omega
      subst hxy
      congr 1
      apply ih b ha.tail hb.tail
      intro v
      have := h v
      simp at this
      constructor
      · intro hv
        have := hx v hv
        grind
      · intro hv
        have := hy v hv
        grind

end TmVerif.IntSet
