/-
Helper lemmas for C03 exactness, part 1: bit masks, and the computed `nullable` / `firstSets` of
`Model/LRRef.lean` against the inductive `Nullable` / `First` of `Model/LRJust.lean`
(sound unconditionally: invariants of the folds; complete when `nfClosed` and `g.wf`).
-/
import TmVerif.Model.LRJust
namespace TmVerif.LRRef
open TmVerif.CFG TmVerif.LR

/-! ### bit masks -/

/-- `a ⊆ b` as sets of bits -/
def MSub (a b : Nat) : Prop := ∀ i, a.testBit i = true → b.testBit i = true

theorem subMask_msub {a b : Nat} (h : subMask a b = true) : MSub a b := by
  unfold subMask at h
  have h : a &&& b = a := by simpa using h
  intro i hi
  have : (a &&& b).testBit i = true := by rw [h]; exact hi
  rw [Nat.testBit_and] at this
  simp only [Bool.and_eq_true] at this
  exact this.2

theorem testBit_or_elim {a b i : Nat} (h : (a ||| b).testBit i = true) :
    a.testBit i = true ∨ b.testBit i = true := by
  rw [Nat.testBit_or] at h
  simpa using h

theorem testBit_or_left {a i : Nat} (b : Nat) (h : a.testBit i = true) :
    (a ||| b).testBit i = true := by
  rw [Nat.testBit_or, h]; rfl

theorem testBit_or_right {b i : Nat} (a : Nat) (h : b.testBit i = true) :
    (a ||| b).testBit i = true := by
  rw [Nat.testBit_or, h]; simp

theorem testBit_one_shl_iff (s i : Nat) : (1 <<< s).testBit i = true ↔ s = i := by
  rw [Nat.one_shiftLeft, Nat.testBit_two_pow]
  simp

theorem allTerms_testBit (g : Grammar) (a : Nat) :
    (allTerms g).testBit a = true ↔ a < g.nTerms := by
  unfold allTerms
  rw [Nat.one_shiftLeft, Nat.testBit_two_pow_sub_one]
  simp

theorem testBit_lt_of_lt_two_pow {m n a : Nat} (h : m < 2 ^ n) (ha : m.testBit a = true) : a < n := by
  rcases Nat.lt_or_ge a n with h' | h'
  · exact h'
  · have : m < 2 ^ a := Nat.lt_of_lt_of_le h (Nat.pow_le_pow_right (by decide) h')
    rw [Nat.testBit_lt_two_pow this] at ha
    cases ha

/-! ### folds with an invariant -/

theorem foldl_inv {α β : Type _} (P : β → Prop) (f : β → α → β) (l : List α) (init : β)
    (h0 : P init) (hstep : ∀ b a, a ∈ l → P b → P (f b a)) : P (l.foldl f init) := by
  induction l generalizing init with
  | nil => exact h0
  | cons x xs ih =>
    rw [List.foldl_cons]
    apply ih
    · exact hstep init x (List.mem_cons_self) h0
    · intro b a ha hb
      exact hstep b a (List.mem_cons_of_mem _ ha) hb

/-! ### nullable: sound -/

def NlSound (g : Grammar) (nl : List Nat) : Prop := ∀ x, nl.contains x = true → Nullable g x

theorem nullableRound_sound (g : Grammar) (n : List Nat) (h : NlSound g n) :
    NlSound g (nullableRound g n) := by
  unfold nullableRound
  rw [← Array.foldl_toList]
  apply foldl_inv (NlSound g)
  · exact h
  · intro acc r hr hacc
    by_cases h1 : acc.contains r.lhs = true
    · rw [if_pos h1]; exact hacc
    · rw [if_neg h1]
      by_cases h2 : (r.rhs.all fun s => acc.contains s) = true
      · rw [if_pos h2]
        intro x hx
        rw [List.contains_cons] at hx
        rcases Bool.or_eq_true _ _ ▸ hx with hx | hx
        · have : x = r.lhs := by simpa using hx
          subst this
          apply Nullable.rule r hr
          intro s hs
          rw [List.all_eq_true] at h2
          exact hacc s (h2 s hs)
        · exact hacc x hx
      · rw [if_neg h2]; exact hacc

theorem nullableFuel_sound (g : Grammar) (k : Nat) (n : List Nat) (h : NlSound g n) :
    NlSound g (nullableFuel g k n) := by
  induction k generalizing n with
  | zero => exact h
  | succ k ih =>
    rw [nullableFuel]
    split
    · exact h
    · exact ih _ (nullableRound_sound g n h)

theorem nullable_sound (g : Grammar) : NlSound g (nullable g) := by
  unfold nullable
  apply nullableFuel_sound
  intro x hx
  simp at hx

theorem seqNullable_sound {g : Grammar} {nl : List Nat} (h : NlSound g nl) {α : List Nat}
    (hα : seqNullable nl α = true) : NullableSeq g α := by
  unfold seqNullable at hα
  rw [List.all_eq_true] at hα
  intro s hs
  exact h s (hα s hs)

/-! ### FIRST: sound -/

theorem First.weaken {g : Grammar} {X a : Nat} (h : First g [X] a) (α : List Nat) :
    First g (X :: α) a := by
  generalize hl : [X] = l at h
  cases h with
  | term a' α' ha =>
    injection hl with h1 h2; subst h1
    exact First.term _ α ha
  | rule r α' a' hr hf =>
    injection hl with h1 h2; subst h1
    exact First.rule r α a hr hf
  | skip X' α' a' hn hf =>
    injection hl with h1 h2; subst h2
    cases hf

def FsSound (g : Grammar) (first : Array Nat) : Prop :=
  ∀ X a, (first.getD X 0).testBit a = true → First g [X] a

theorem firstOfSeq_sound {g : Grammar} {nl : List Nat} {first : Array Nat}
    (hn : NlSound g nl) (hf : FsSound g first) :
    ∀ (β : List Nat) (a : Nat), (firstOfSeq g nl first β).testBit a = true → First g β a
  | [], a, h => by simp [firstOfSeq] at h
  | s :: rest, a, h => by
    rw [firstOfSeq] at h
    have hhead : (if s < g.nTerms then 1 <<< s else first.getD s 0).testBit a = true →
        First g (s :: rest) a := by
      intro hb
      by_cases hs : s < g.nTerms
      · rw [if_pos hs] at hb
        have := (testBit_one_shl_iff s a).mp hb
        subst this
        exact First.term _ _ hs
      · rw [if_neg hs] at hb
        exact First.weaken (hf s a hb) rest
    split at h
    · rename_i hc
      rw [Bool.and_eq_true] at hc
      rcases testBit_or_elim h with h1 | h1
      · exact hhead h1
      · exact First.skip s rest a (hn s hc.2) (firstOfSeq_sound hn hf rest a h1)
    · exact hhead h

theorem getD_modify (arr : Array Nat) (i : Nat) (f : Nat → Nat) (X : Nat) :
    (arr.modify i f).getD X 0 = if i = X ∧ X < arr.size then f (arr.getD X 0) else arr.getD X 0 := by
  simp only [Array.getD_eq_getD_getElem?, Array.getElem?_modify]
  by_cases hX : X < arr.size
  · by_cases hi : i = X
    · subst hi; simp [hX]
    · simp [hi, hX]
  · have : arr[X]? = none := Array.getElem?_eq_none (by omega)
    simp [hX]

theorem firstRound_sound (g : Grammar) (nl : List Nat) (first : Array Nat)
    (hn : NlSound g nl) (hf : FsSound g first) : FsSound g (firstRound g nl first) := by
  unfold firstRound
  rw [← Array.foldl_toList]
  apply foldl_inv (FsSound g)
  · exact hf
  · intro acc r hr hacc X a hb
    rw [getD_modify] at hb
    split at hb
    · rename_i hc
      rcases testBit_or_elim hb with h1 | h1
      · exact hacc X a h1
      · have := firstOfSeq_sound hn hacc r.rhs a h1
        rw [← hc.1]
        exact First.rule r [] a hr this
    · exact hacc X a hb

theorem firstFuel_sound (g : Grammar) (nl : List Nat) (hn : NlSound g nl) (k : Nat)
    (first : Array Nat) (hf : FsSound g first) : FsSound g (firstFuel g nl k first) := by
  induction k generalizing first with
  | zero => exact hf
  | succ k ih =>
    rw [firstFuel]
    split
    · exact hf
    · exact ih _ (firstRound_sound g nl first hn hf)

theorem firstSets_sound (g : Grammar) : FsSound g (firstSets g (nullable g)) := by
  unfold firstSets
  apply firstFuel_sound g _ (nullable_sound g)
  intro X a hb
  have : (Array.replicate g.nSyms 0).getD X 0 = 0 := by
    simp only [Array.getD_eq_getD_getElem?, Array.getElem?_replicate]
    split <;> rfl
  rw [this] at hb
  simp at hb

/-! ### nullable and FIRST: complete, when closed under the rules -/

structure NfClosed (g : Grammar) (nl : List Nat) (first : Array Nat) : Prop where
  nullC : ∀ r ∈ g.rules.toList, seqNullable nl r.rhs = true → nl.contains r.lhs = true
  firstC : ∀ r ∈ g.rules.toList, MSub (firstOfSeq g nl first r.rhs) (first.getD r.lhs 0)
  lhsNT : ∀ r ∈ g.rules.toList, g.nTerms ≤ r.lhs

theorem nfClosed_elim {g : Grammar} (hwf : g.wf = true) (h : nfClosed g = true) :
    NfClosed g (nullable g) (firstSets g (nullable g)) := by
  unfold nfClosed at h
  simp only [List.all_eq_true, Bool.and_eq_true, Bool.or_eq_true, Bool.not_eq_true'] at h
  refine ⟨?_, ?_, ?_⟩
  · intro r hr hs
    rcases (h r hr).1 with h1 | h1
    · rw [hs] at h1; cases h1
    · exact h1
  · intro r hr
    exact subMask_msub (h r hr).2
  · intro r hr
    unfold Grammar.wf at hwf
    simp only [Bool.and_eq_true, Array.all_eq_true_iff_forall_mem, decide_eq_true_eq] at hwf
    exact (hwf.1.2 r (Array.mem_def.mpr hr)).1.1

section complete
variable {g : Grammar} {nl : List Nat} {first : Array Nat} (hc : NfClosed g nl first)
include hc

theorem nullable_complete {X : Nat} (h : Nullable g X) : nl.contains X = true := by
  induction h with
  | rule r hr _ ih =>
    apply hc.nullC r hr
    unfold seqNullable
    rw [List.all_eq_true]
    exact ih

theorem nullable_nt {X : Nat} (h : Nullable g X) : g.nTerms ≤ X := by
  cases h with
  | rule r hr _ => exact hc.lhsNT r hr

theorem seqNullable_complete {α : List Nat} (h : NullableSeq g α) : seqNullable nl α = true := by
  unfold seqNullable
  rw [List.all_eq_true]
  intro s hs
  exact nullable_complete hc (h s hs)

theorem first_complete {α : List Nat} {a : Nat} (h : First g α a) :
    (firstOfSeq g nl first α).testBit a = true := by
  induction h with
  | term a α ha =>
    rw [firstOfSeq]
    simp only [if_pos ha]
    have : (1 <<< a).testBit a = true := (testBit_one_shl_iff a a).mpr rfl
    split
    · exact testBit_or_left _ this
    · exact this
  | rule r α a hr _ ih =>
    have hb := hc.firstC r hr a ih
    have hnt := hc.lhsNT r hr
    rw [firstOfSeq]
    simp only [if_neg (show ¬ r.lhs < g.nTerms by omega)]
    split
    · exact testBit_or_left _ hb
    · exact hb
  | skip X α a hn _ ih =>
    have h1 := nullable_complete hc hn
    have h2 := nullable_nt hc hn
    rw [firstOfSeq]
    have : (decide (X ≥ g.nTerms) && nl.contains X) = true := by
      rw [Bool.and_eq_true]; exact ⟨decide_eq_true h2, h1⟩
    rw [if_pos this]
    exact testBit_or_right _ ih

end complete

end TmVerif.LRRef
