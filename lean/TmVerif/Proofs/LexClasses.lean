import TmVerif.Model.LexSpec
import TmVerif.Proofs.Charset
import TmVerif.Proofs.LexTables
import TmVerif.Proofs.LexDeriv
/-!
C09 helper lemmas, part 2: symbol classes.
* A derivative mentions only range lists of the expression it was taken from (`CsSub`), so two symbols that
  agree on the range lists of the rules have the same derivatives, forever (`deriv_congr`, `csSub_deriv`).
* `checkClasses` implies that every code point agrees with the representative of its class (`checkClasses_sound`).
-/
namespace TmVerif.LexSpec
open TmVerif.Charset TmVerif.Regex TmVerif.LexTables

/-- Every range list of `r` is empty or one of `S`. -/
def CsSub (r : Regex) (S : List Charset) : Prop := ∀ c ∈ csOf r, c = [] ∨ c ∈ S

theorem csSub_empty (S : List Charset) : CsSub empty S := by
  intro c hc
  simp [empty, csOf] at hc
  exact Or.inl hc

theorem csSub_eps (S : List Charset) : CsSub .eps S := by
  intro c hc; simp [csOf] at hc

theorem csSub_cat {a b : Regex} {S : List Charset} : CsSub (.cat a b) S ↔ CsSub a S ∧ CsSub b S := by
  unfold CsSub
  simp only [csOf, List.mem_append]
  constructor
  · intro h; exact ⟨fun c hc => h c (Or.inl hc), fun c hc => h c (Or.inr hc)⟩
  · rintro ⟨h1, h2⟩ c (hc | hc)
    · exact h1 c hc
    · exact h2 c hc

theorem csSub_alt {a b : Regex} {S : List Charset} : CsSub (.alt a b) S ↔ CsSub a S ∧ CsSub b S := by
  unfold CsSub
  simp only [csOf, List.mem_append]
  constructor
  · intro h; exact ⟨fun c hc => h c (Or.inl hc), fun c hc => h c (Or.inr hc)⟩
  · rintro ⟨h1, h2⟩ c (hc | hc)
    · exact h1 c hc
    · exact h2 c hc

theorem csSub_rep {r : Regex} {mn : Nat} {mx : Option Nat} {S : List Charset} :
    CsSub (.rep r mn mx) S ↔ CsSub r S := Iff.rfl

theorem csSub_altOf (l : List Regex) (S : List Charset) (h : ∀ r ∈ l, CsSub r S) : CsSub (altOf l) S := by
  induction l with
  | nil => exact csSub_empty S
  | cons r rs ih =>
    cases rs with
    | nil => exact h r (by simp)
    | cons r2 rs2 =>
      show CsSub (.alt r (altOf (r2 :: rs2))) S
      rw [csSub_alt]
      exact ⟨h r (by simp), ih fun x hx => h x (List.mem_cons_of_mem _ hx)⟩

theorem csSub_altList (a : Regex) (S : List Charset) (h : CsSub a S) : ∀ r ∈ altList a, CsSub r S := by
  induction a with
  | alt a b iha ihb =>
    rw [csSub_alt] at h
    intro r hr
    simp only [altList, List.mem_append] at hr
    rcases hr with hr | hr
    · exact iha h.1 r hr
    · exact ihb h.2 r hr
  | eps | cc _ | cat _ _ | rep _ _ _ | ext _ =>
    intro r hr
    simp only [altList, List.mem_singleton] at hr
    subst hr; exact h

theorem csSub_union (a b : Regex) (S : List Charset) (ha : CsSub a S) (hb : CsSub b S) :
    CsSub (union a b) S := by
  unfold union
  apply csSub_altOf
  intro r hr
  have := ((mem_unionList r _).1 hr).1
  rw [List.mem_append] at this
  rcases this with h | h
  · exact csSub_altList a S ha r h
  · exact csSub_altList b S hb r h

theorem csSub_seqR (b a : Regex) (S : List Charset) (ha : CsSub a S) (hb : CsSub b S) :
    CsSub (seqR b a) S := by
  induction a with
  | eps => exact hb
  | cat a1 a2 _ ih2 =>
    rw [csSub_cat] at ha
    simp only [seqR]
    rw [csSub_cat]
    exact ⟨ha.1, ih2 ha.2⟩
  | cc c =>
    simp only [seqR]
    split
    · exact csSub_empty S
    · rw [csSub_cat]; exact ⟨ha, hb⟩
  | alt x y ihx ihy =>
    rw [csSub_alt] at ha
    simp only [seqR]
    exact csSub_union _ _ S (ihx ha.1) (ihy ha.2)
  | rep r mn mx _ => simp only [seqR]; rw [csSub_cat]; exact ⟨ha, hb⟩
  | ext n => simp only [seqR]; rw [csSub_cat]; exact ⟨ha, hb⟩

theorem csSub_seq (a b : Regex) (S : List Charset) (ha : CsSub a S) (hb : CsSub b S) :
    CsSub (seq a b) S := by
  unfold seq
  split
  · exact csSub_empty S
  · split
    · exact ha
    · exact csSub_seqR b a S ha hb

theorem csSub_repS (r : Regex) (mn : Nat) (mx : Option Nat) (S : List Charset) (h : CsSub r S) :
    CsSub (repS r mn mx) S := by
  unfold repS
  split
  · split
    · exact csSub_eps S
    · exact csSub_empty S
  · exact h

theorem csSub_deriv (s : Int) (r : Regex) (S : List Charset) (h : CsSub r S) : CsSub (deriv s r) S := by
  induction r with
  | eps => exact csSub_empty S
  | cc c =>
    simp only [deriv]
    split
    · exact csSub_eps S
    · exact csSub_empty S
  | cat a b iha ihb =>
    rw [csSub_cat] at h
    simp only [deriv]
    split
    · exact csSub_union _ _ S (csSub_seq _ _ S (iha h.1) h.2) (ihb h.2)
    · exact csSub_seq _ _ S (iha h.1) h.2
  | alt a b iha ihb =>
    rw [csSub_alt] at h
    simp only [deriv]
    exact csSub_union _ _ S (iha h.1) (ihb h.2)
  | rep r mn mx ih =>
    simp only [deriv]
    split
    · exact csSub_empty S
    · exact csSub_seq _ _ S (ih h) (csSub_repS r _ _ S h)
  | ext n => exact csSub_empty S

/-- Symbols that agree on the range lists of `r` have the same derivative. -/
theorem deriv_congr (S : List Charset) (a b : Int) (hab : ∀ c ∈ S, memB a c = memB b c)
    (r : Regex) (h : CsSub r S) : deriv a r = deriv b r := by
  induction r with
  | eps => rfl
  | cc c =>
    have : memB a c = memB b c := by
      rcases h c (by simp [csOf]) with hc | hc
      · subst hc; rfl
      · exact hab c hc
    simp only [deriv, this]
  | cat x y ihx ihy =>
    rw [csSub_cat] at h
    simp only [deriv, ihx h.1, ihy h.2]
  | alt x y ihx ihy =>
    rw [csSub_alt] at h
    simp only [deriv, ihx h.1, ihy h.2]
  | rep r mn mx ih =>
    simp only [deriv, ih h]
  | ext n => rfl

theorem csSub_headsRep (hr r : Regex) (nr : Bool) (S : List Charset) (hhr : CsSub hr S) (hr' : CsSub r S) :
    ∀ (fuel mn : Nat) (mx : Option Nat), CsSub (headsRep hr nr r fuel mn mx) S := by
  intro fuel
  induction fuel with
  | zero =>
    intro mn mx
    simp only [headsRep]
    split
    · exact csSub_empty S
    · exact csSub_seq _ _ S hhr (csSub_repS r _ _ S hr')
  | succ fuel ih =>
    intro mn mx
    simp only [headsRep]
    split
    · exact csSub_empty S
    · split
      · exact csSub_union _ _ S (csSub_seq _ _ S hhr (csSub_repS r _ _ S hr')) (ih _ _)
      · exact csSub_seq _ _ S hhr (csSub_repS r _ _ S hr')

theorem csSub_heads (r : Regex) (S : List Charset) (h : CsSub r S) : CsSub (heads r) S := by
  induction r with
  | eps => exact csSub_empty S
  | cc c => exact h
  | cat a b iha ihb =>
    rw [csSub_cat] at h
    simp only [heads]
    split
    · exact csSub_union _ _ S (csSub_seq _ _ S (iha h.1) h.2) (ihb h.2)
    · exact csSub_seq _ _ S (iha h.1) h.2
  | alt a b iha ihb =>
    rw [csSub_alt] at h
    simp only [heads]
    exact csSub_union _ _ S (iha h.1) (ihb h.2)
  | rep r mn mx ih =>
    simp only [heads]
    exact csSub_headsRep _ r _ S (ih h) h _ _ _
  | ext n => exact csSub_empty S

theorem csSub_norm (r : Regex) (S : List Charset) (h : CsSub r S) : CsSub (norm r) S := by
  unfold norm
  split
  · exact csSub_union _ _ S (csSub_eps S) (csSub_heads r S h)
  · exact csSub_heads r S h

/-- Vectors of expressions over the range lists `S`. -/
def VecSub (D : List Regex) (S : List Charset) : Prop := ∀ d ∈ D, CsSub d S

theorem vecSub_stepVec (s : Int) (D : List Regex) (S : List Charset) (h : VecSub D S) :
    VecSub (stepVec s D) S := by
  intro d hd
  simp only [stepVec, List.mem_map] at hd
  obtain ⟨d0, hd0, rfl⟩ := hd
  exact csSub_norm _ S (csSub_deriv s d0 S (h d0 hd0))

theorem stepVec_congr (S : List Charset) (a b : Int) (hab : ∀ c ∈ S, memB a c = memB b c)
    (D : List Regex) (h : VecSub D S) : stepVec a D = stepVec b D := by
  unfold stepVec
  apply List.map_congr_left
  intro d hd
  rw [deriv_congr S a b hab d (h d hd)]

theorem vecSub_initVec (rules : List Rule) (sc : Int) : VecSub (initVec rules sc) (ruleSets rules) := by
  intro d hd
  simp only [initVec, List.mem_map] at hd
  obtain ⟨r, hr, rfl⟩ := hd
  split
  · intro c hc
    right
    simp only [ruleSets, List.mem_flatMap]
    exact ⟨r, hr, hc⟩
  · exact csSub_empty _

/-! ### `checkClasses` -/

theorem segInOut_mem (lo hi : Int) (cs : Charset) (h : segInOut lo hi cs = true) (r : Int)
    (h1 : lo ≤ r) (h2 : r ≤ hi) : memB r cs = memB lo cs := by
  unfold segInOut at h
  unfold memB
  induction cs with
  | nil => rfl
  | cons p cs ih =>
    simp only [List.all_cons, Bool.and_eq_true, Bool.or_eq_true, decide_eq_true_eq] at h
    simp only [List.any_cons]
    rw [ih h.2]
    congr 1
    rcases h.1 with (⟨a, b⟩ | a) | a
    · have e1 : decide (p.1 ≤ r) = true := by simp; omega
      have e2 : decide (r ≤ p.2) = true := by simp; omega
      have e3 : decide (p.1 ≤ lo) = true := by simp; omega
      have e4 : decide (lo ≤ p.2) = true := by simp; omega
      rw [e1, e2, e3, e4]
    · have e2 : decide (r ≤ p.2) = false := by simp; omega
      have e4 : decide (lo ≤ p.2) = false := by simp; omega
      rw [e2, e4]; simp
    · have e1 : decide (p.1 ≤ r) = false := by simp; omega
      have e3 : decide (p.1 ≤ lo) = false := by simp; omega
      rw [e1, e3]; simp

theorem checkSegs_sound (sets : List Charset) (rep : Int → Option Int) (max : Int) :
    ∀ (l : List RangeEntry), checkSegs sets rep max l = true →
    ∀ (i : Nat) (hi : i < l.length) (r : Int), l[i].start ≤ r →
      (∀ h : i + 1 < l.length, r < l[i + 1].start) → (i + 1 = l.length → r ≤ max) →
      ∃ s, rep l[i].target = some s ∧ ∀ cs ∈ sets, memB r cs = memB s cs
  | [], _, i, hi, _, _, _, _ => by simp at hi
  | e :: rest, h, i, hi, r, hlo, hhi, hmax => by
    simp only [checkSegs, Bool.and_eq_true] at h
    obtain ⟨hhead, htail⟩ := h
    cases i with
    | zero =>
      simp only [List.getElem_cons_zero] at hlo ⊢
      split at hhead
      · cases hhead
      · rename_i s hs
        refine ⟨s, hs, ?_⟩
        intro cs hcs
        have := List.all_eq_true.1 hhead cs hcs
        simp only [Bool.and_eq_true, beq_iff_eq] at this
        have hr : memB r cs = memB e.start cs := by
          apply segInOut_mem _ _ _ this.1 r hlo
          cases rest with
          | nil => exact hmax (by simp)
          | cons n rest' =>
            have := hhi (by simp)
            simp only [List.getElem_cons_succ, List.getElem_cons_zero] at this
            show r ≤ n.start - 1
            omega
        rw [hr, this.2]
    | succ i =>
      simp only [List.getElem_cons_succ] at hlo ⊢
      have hi' : i < rest.length := by simpa using hi
      apply checkSegs_sound sets rep max rest htail i hi' r hlo
      · intro h
        have := hhi (by simp; omega)
        simpa using this
      · intro h
        exact hmax (by simp; omega)

theorem exists_seg : ∀ (l : List RangeEntry) (r : Int) (hne : 0 < l.length), l[0].start ≤ r →
    ∃ (i : Nat) (hi : i < l.length), l[i].start ≤ r ∧ ∀ h : i + 1 < l.length, r < l[i + 1].start
  | [], _, hne, _ => by simp at hne
  | [e], r, _, h0 => ⟨0, by simp, h0, fun h => by simp at h⟩
  | e :: n :: rest, r, _, h0 => by
    by_cases hn : n.start ≤ r
    · obtain ⟨i, hi, h1, h2⟩ := exists_seg (n :: rest) r (by simp) hn
      refine ⟨i + 1, by simp at hi ⊢; omega, by simpa using h1, ?_⟩
      intro h
      have := h2 (by simp at h ⊢; omega)
      simpa using this
    · exact ⟨0, by simp, h0, fun _ => by simp; omega⟩

theorem repOf_nonneg_class (t : Tables) (c : Int) : c = 0 → repOf t c = some eoiSym := by
  intro h; simp [repOf, h]

/-- `checkClasses`: every code point of the scanned alphabet agrees, on every range list of the rules,
with the representative of the symbol class that `Tables.Scan` maps it to. -/
theorem checkClasses_sound (rules : List Rule) (t : Tables) (hwf : t.wf = true)
    (hc : checkClasses rules t = true) (r : Int) (h0 : 0 ≤ r) (h1 : r ≤ maxRune t.scanBytes) :
    ∃ c s, symOf t r = some c ∧ 0 ≤ c ∧ c < t.numSymbols ∧ repOf t c = some s ∧
      ∀ cs ∈ ruleSets rules, memB r cs = memB s cs := by
  have w := wf_of_wf t hwf
  have hne : 0 < t.symbolMap.toList.length := by simpa using w.map_ne
  have hs0 : t.symbolMap.toList[0].start ≤ r := by
    have := w.start0 w.map_ne
    simp only [Array.getElem_toList]
    omega
  obtain ⟨i, hi, hlo, hhi⟩ := exists_seg t.symbolMap.toList r hne hs0
  have hi' : i < t.symbolMap.size := by simpa using hi
  have hidx : symIndex t r = i := by
    apply symIndex_eq t w r i hi'
    · right; simpa using hlo
    · intro h
      have := hhi (by simpa using h)
      simpa using this
  obtain ⟨s, hs, hall⟩ := checkSegs_sound _ _ _ _ hc i hi r hlo hhi (fun _ => h1)
  refine ⟨t.symbolMap[i].target, s, ?_, (w.targets i hi').1, (w.targets i hi').2, by simpa using hs, hall⟩
  unfold symOf
  rw [hidx, Array.getElem?_eq_getElem hi']
  rfl

end TmVerif.LexSpec
