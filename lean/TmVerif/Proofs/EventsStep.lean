/-
Helper lemmas for C02, part 2: inversion of one `LRX.xstep` (no recovery, no cancellation), forward
computation of the corresponding `LR.step`.
-/
import TmVerif.Proofs.Events
namespace TmVerif.Events
open TmVerif.LR TmVerif.LRX

/-! ### fetch -/

/-- The lookahead bookkeeping shared by both runtimes: `j` tokens have been consumed; either token
`j` is already in `next` (and `pos = j+1`) or nothing is buffered (and `pos = j`). -/
def Look (inp : Input) (next : Option Tok) (pos j : Nat) : Prop :=
  (next = some (inp.tok j) ∧ pos = j + 1) ∨ (next = none ∧ pos = j)

theorem xfetch_look {inp : Input} {c : XCfg} {j : Nat} (h : Look inp c.next c.pos j) :
    c.fetch inp = ({ c with next := some (inp.tok j), pos := j + 1 }, inp.tok j) := by
  unfold XCfg.fetch
  rcases h with ⟨h1, h2⟩ | ⟨h1, h2⟩
  · rw [h1]; cases c; simp_all
  · rw [h1]; simp [h2]

theorem fetch_look {inp : Input} {c : Cfg} {j : Nat} (h : Look inp c.next c.pos j) :
    c.fetch inp = ({ c with next := some (inp.tok j), pos := j + 1 }, inp.tok j) := by
  unfold Cfg.fetch
  rcases h with ⟨h1, h2⟩ | ⟨h1, h2⟩
  · rw [h1]; cases c; simp_all
  · rw [h1]; simp [h2]

/-! ### decode -/

theorem xdecode_cases {x : XTables} {inp : Input} {cx cx1 : XCfg} {a : Act}
    (h : xdecode x inp cx = some (cx1, a)) :
    (needsTok x.t cx.state = some true ∧ cx1 = (cx.fetch inp).1 ∧
      actOf x.t (deepLA x.t inp (inp.toks.size + 2) (cx.fetch inp).1.pos) cx.state (cx.fetch inp).2.sym = some a) ∨
    (needsTok x.t cx.state = some false ∧ cx1 = cx ∧ actOf x.t (fun _ => none) cx.state 0 = some a) := by
  unfold xdecode at h
  split at h
  · cases h
  · rename_i hn
    left
    simp only [Option.map_eq_some_iff, Prod.mk.injEq] at h
    obtain ⟨a', h1, h2, h3⟩ := h
    subst h3
    exact ⟨hn, h2.symm, h1⟩
  · rename_i hn
    right
    simp only [Option.map_eq_some_iff, Prod.mk.injEq] at h
    obtain ⟨a', h1, h2, h3⟩ := h
    subst h3
    exact ⟨hn, h2.symm, h1⟩

theorem decode_tok {t : Tables} {inp : Input} {c : Cfg} {a : Act}
    (hn : needsTok t c.state = some true)
    (ha : actOf t (deepLA t inp (inp.toks.size + 2) (c.fetch inp).1.pos) c.state (c.fetch inp).2.sym = some a) :
    decode t inp c = some ((c.fetch inp).1, a) := by
  unfold decode
  rw [hn]
  simp only [ha, Option.map_some]

theorem decode_notok {t : Tables} {inp : Input} {c : Cfg} {a : Act}
    (hn : needsTok t c.state = some false)
    (ha : actOf t (fun _ => none) c.state 0 = some a) :
    decode t inp c = some (c, a) := by
  unfold decode
  rw [hn]
  simp only [ha, Option.map_some]

/-! ### `xstep` inversion -/

theorem onError_eq {x : XTables} {inp : Input} {fin : Int} {st : Bool} {c : XCfg}
    (hx : x.recovering = false) :
    onError x inp fin st c =
      .done (.syntaxError (c.fetch inp).2.off (c.fetch inp).2.endo) (c.fetch inp).1 := by
  unfold onError
  simp [hx]

theorem ite_ne' {α : Type} (c : Prop) [Decidable c] (a b v : α) (ha : a ≠ v) (hb : b ≠ v) :
    (if c then a else b) ≠ v := by
  split <;> assumption

theorem onError_not_cont {x : XTables} {inp : Input} {fin : Int} {st : Bool} {c c' : XCfg}
    (hx : x.recovering = false) : onError x inp fin st c ≠ .cont c' := by
  rw [onError_eq hx]; simp

theorem onError_not_accept {x : XTables} {inp : Input} {fin : Int} {st : Bool} {c c' : XCfg}
    (hx : x.recovering = false) : onError x inp fin st c ≠ .done .accept c' := by
  rw [onError_eq hx]; simp

/-- the reduce branch of `xstep` after decoding -/
def xreduce (x : XTables) (inp : Input) (endState : Int) (stopOnError : Bool) (c1 : XCfg) (rule : Int) : XStep :=
  match geti x.t.ruleLen rule, geti x.t.ruleSymbol rule with
  | some ln, some lhs =>
    let ln := ln.toNat
    if ln > c1.stack.length then .done .panic c1
    else
      let rhs := c1.stack.take ln
      let (c2, off, endo) : XCfg × Nat × Nat :=
        if ln = 0 then
          let (c2, tk) := c1.fetch inp
          (c2, tk.off, tk.off)
        else (c1, (rhs.getLast?.map (·.off)).getD 0, (rhs.head?.map (·.endo)).getD 0)
      match applyRuleEvents x rule ln off endo c2.stack with
      | none => .done .panic c2
      | some (evs, endo') =>
        let c2 := { c2 with evs := evs.reverse ++ c2.evs }
        let rest := c2.stack.drop ln
        match rest with
        | [] => .done .panic c2
        | top :: _ =>
          match gotoState x.t top.state lhs with
          | none => .done .panic c2
          | some q =>
            let c3 := { c2 with stack := ⟨lhs, off, endo', q⟩ :: rest, state := q }
            if q = -1 then onError x inp endState stopOnError c3 else .cont c3
  | _, _ => .done .panic c1

/-- the shift branch of `xstep` with `cancelAt = 0` -/
def xshift (x : XTables) (c1 : XCfg) (q : Int) : XStep :=
  match c1.next with
  | none => .done .panic c1
  | some tk =>
    .cont { c1 with stack := ⟨tk.sym, tk.off, tk.endo, q⟩ :: c1.stack, state := q,
                    next := if tk.sym ≠ 0 then none else c1.next,
                    recovering := c1.recovering - 1,
                    shiftCounter := if x.cancellable then c1.shiftCounter + 1 else c1.shiftCounter }

theorem xstep_eq (x : XTables) (inp : Input) (fin : Int) (st : Bool) (c : XCfg) :
    xstep x inp fin st 0 c =
      match xdecode x inp c with
      | none => .done .panic c
      | some (c1, .reduce rule) => xreduce x inp fin st c1 rule
      | some (c1, .shift q) => xshift x c1 q
      | some (c1, .error) =>
          if (x.cancellable && !x.t.optimized &&
                (match geti x.t.action c1.state, c1.next with
                 | some a, some tk =>
                   if a = -1 then true
                   else if a < -2 then lalrLookup x.t a tk.sym == some (-1) else false
                 | _, _ => false)) = true
          then onError x inp fin st { c1 with shiftCounter := c1.shiftCounter + 1 }
          else onError x inp fin st c1 := by
  unfold xstep
  split
  · simp_all
  · rename_i c1 rule h; rw [h]; rfl
  · rename_i c1 q h; rw [h]; simp only [ne_eq, not_true_eq_false, false_and, and_false, if_false]; rfl
  · rename_i c1 h; rw [h]; simp only [ne_eq, not_true_eq_false, false_and, and_false, if_false]; rfl

theorem xreduce_not_accept {x : XTables} {inp : Input} {fin : Int} {st : Bool} {c1 c' : XCfg} {rule : Int}
    (hx : x.recovering = false) :
    xreduce x inp fin st c1 rule ≠ .done .accept c' := by
  unfold xreduce
  split
  · simp only
    split
    · simp
    · split
      · simp
      · split
        · simp
        · split
          · simp
          · split
            · exact onError_not_accept hx
            · simp
  · simp

theorem xstep_not_accept {x : XTables} {inp : Input} {fin : Int} {st : Bool} {c c' : XCfg}
    (hx : x.recovering = false) :
    xstep x inp fin st 0 c ≠ .done .accept c' := by
  rw [xstep_eq]
  split
  · simp
  · exact xreduce_not_accept hx
  · unfold xshift; split <;> simp
  · exact ite_ne' _ _ _ _ (onError_not_accept hx) (onError_not_accept hx)

/-- the data of a successful reduce step -/
structure XReduce (x : XTables) (inp : Input) (c1 c' : XCfg) (rule : Int) : Prop where
  ex : ∃ (ln lhs : Int) (c2 : XCfg) (off endo endo' : Nat) (evs : List XEv) (top : Entry)
      (rest : List Entry) (q : Int),
    geti x.t.ruleLen rule = some ln ∧ geti x.t.ruleSymbol rule = some lhs ∧
    ln.toNat ≤ c1.stack.length ∧
    ((ln.toNat = 0 ∧ c2 = (c1.fetch inp).1 ∧ off = (c1.fetch inp).2.off ∧ endo = (c1.fetch inp).2.off) ∨
     (ln.toNat ≠ 0 ∧ c2 = c1 ∧ off = (((c1.stack.take ln.toNat).getLast?).map (·.off)).getD 0 ∧
        endo = (((c1.stack.take ln.toNat).head?).map (·.endo)).getD 0)) ∧
    applyRuleEvents x rule ln.toNat off endo c2.stack = some (evs, endo') ∧
    c2.stack.drop ln.toNat = top :: rest ∧
    gotoState x.t top.state lhs = some q ∧ q ≠ -1 ∧
    c' = { c2 with evs := evs.reverse ++ c2.evs, stack := ⟨lhs, off, endo', q⟩ :: top :: rest, state := q }

theorem xreduce_cont {x : XTables} {inp : Input} {fin : Int} {st : Bool} {c1 c' : XCfg} {rule : Int}
    (hx : x.recovering = false) (h : xreduce x inp fin st c1 rule = .cont c') :
    XReduce x inp c1 c' rule := by
  unfold xreduce at h
  split at h
  · rename_i ln lhs hln hlhs
    simp only at h
    split at h
    · cases h
    · rename_i hle
      by_cases h0 : ln.toNat = 0
      · simp only [h0, if_true] at h
        split at h
        · cases h
        · rename_i evs endo' hap
          split at h
          · cases h
          · rename_i top rest hrest
            split at h
            · cases h
            · rename_i q hq
              split at h
              · exact absurd h (onError_not_cont hx)
              · rename_i hq1
                injection h with h
                refine ⟨ln, lhs, (c1.fetch inp).1, (c1.fetch inp).2.off, (c1.fetch inp).2.off, endo', evs,
                  top, rest, q, hln, hlhs, by omega, Or.inl ⟨h0, rfl, rfl, rfl⟩, ?_, ?_, hq, hq1, ?_⟩
                · rw [h0]; exact hap
                · rw [h0]; exact hrest
                · rw [← h, hrest]
      · simp only [h0, if_false] at h
        split at h
        · cases h
        · rename_i evs endo' hap
          split at h
          · cases h
          · rename_i top rest hrest
            split at h
            · cases h
            · rename_i q hq
              split at h
              · exact absurd h (onError_not_cont hx)
              · rename_i hq1
                injection h with h
                exact ⟨ln, lhs, c1, _, _, endo', evs, top, rest, q, hln, hlhs, by omega,
                  Or.inr ⟨h0, rfl, rfl, rfl⟩, hap, hrest, hq, hq1, by rw [← h, hrest]⟩
  · cases h

/-- Inversion of a continuing step of the extended runtime without recovery and cancellation. -/
theorem xstep_cont {x : XTables} {inp : Input} {fin : Int} {st : Bool} {c c' : XCfg}
    (hx : x.recovering = false) (h : xstep x inp fin st 0 c = .cont c') :
    ∃ c1 a, xdecode x inp c = some (c1, a) ∧
      ((∃ q tk, a = .shift q ∧ c1.next = some tk ∧
          c' = { c1 with stack := ⟨tk.sym, tk.off, tk.endo, q⟩ :: c1.stack, state := q,
                         next := if tk.sym ≠ 0 then none else c1.next,
                         recovering := c1.recovering - 1,
                         shiftCounter := if x.cancellable then c1.shiftCounter + 1 else c1.shiftCounter }) ∨
       (∃ rule, a = .reduce rule ∧ XReduce x inp c1 c' rule)) := by
  rw [xstep_eq] at h
  split at h
  · cases h
  · rename_i c1 rule hd
    exact ⟨c1, _, hd, Or.inr ⟨rule, rfl, xreduce_cont hx h⟩⟩
  · rename_i c1 q hd
    refine ⟨c1, _, hd, Or.inl ?_⟩
    unfold xshift at h
    split at h
    · cases h
    · rename_i tk htk
      injection h with h
      exact ⟨q, tk, rfl, htk, h.symm⟩
  · exact absurd h (ite_ne' _ _ _ _ (onError_not_cont hx) (onError_not_cont hx))

/-! ### forward computation of the core runtime -/

theorem apply_shift_eq (t : Tables) (inp : Input) (c1 : Cfg) (q : Int) (tk : Tok)
    (h : c1.next = some tk) :
    apply t inp c1 (.shift q) =
      .cont { c1 with stack := ⟨tk.sym, tk.off, tk.endo, q⟩ :: c1.stack, state := q,
                      evs := .shift tk.sym tk.off tk.endo :: c1.evs,
                      next := if tk.sym ≠ 0 then none else c1.next } := by
  rw [apply, h]

theorem apply_reduce_eq (t : Tables) (inp : Input) (c1 c2 : Cfg) (rule ln lhs : Int)
    (top : Entry) (rest : List Entry) (q : Int)
    (hln : geti t.ruleLen rule = some ln) (hlhs : geti t.ruleSymbol rule = some lhs)
    (hle : ln.toNat ≤ c1.stack.length)
    (hc2 : (ln.toNat = 0 ∧ c2 = (c1.fetch inp).1) ∨ (ln.toNat ≠ 0 ∧ c2 = c1))
    (hrest : c2.stack.drop ln.toNat = top :: rest)
    (hq : gotoState t top.state lhs = some q) (hq1 : q ≠ -1) :
    ∃ off endo, apply t inp c1 (.reduce rule) =
      .cont { c2 with stack := ⟨lhs, off, endo, q⟩ :: top :: rest, state := q,
                      evs := .reduce rule off endo :: c2.evs } := by
  rw [apply]
  simp only [hln, hlhs]
  rw [if_neg (by omega)]
  rcases hc2 with ⟨h0, hc2⟩ | ⟨h0, hc2⟩
  · subst hc2
    rw [h0] at hrest
    simp only [h0, if_true]
    simp only [hrest, hq, if_neg hq1]
    exact ⟨_, _, rfl⟩
  · simp only [h0, if_false]
    subst hc2
    simp only [hrest, hq, if_neg hq1]
    exact ⟨_, _, rfl⟩

end TmVerif.Events
