import TmVerif.Model.Expand
/-!
C13 helper lemmas, part 1: language algebra, the least-fixpoint characterisation of the list
rules, and the denotation of `concat` / `multiConcat` / `Expr.Equal`.
-/
namespace TmVerif.Expand

theorem Lang.ext {A B : Lang} (h : ∀ w, A w ↔ B w) : A = B :=
  funext fun w => propext (h w)

/-- inclusion of languages -/
def Lang.le (A B : Lang) : Prop := ∀ w, A w → B w

theorem Lang.le_antisymm {A B : Lang} (h1 : Lang.le A B) (h2 : Lang.le B A) : A = B :=
  Lang.ext fun w => ⟨h1 w, h2 w⟩

theorem Lang.le_refl (A : Lang) : Lang.le A A := fun _ h => h

theorem Lang.le_trans {A B C : Lang} (h1 : Lang.le A B) (h2 : Lang.le B C) : Lang.le A C :=
  fun w h => h2 w (h1 w h)

theorem Lang.cat_mono {A A' B B' : Lang} (h1 : Lang.le A A') (h2 : Lang.le B B') :
    Lang.le (Lang.cat A B) (Lang.cat A' B') := by
  rintro w ⟨u, v, hu, hv, rfl⟩
  exact ⟨u, v, h1 u hu, h2 v hv, rfl⟩

theorem Lang.union_mono {A A' B B' : Lang} (h1 : Lang.le A A') (h2 : Lang.le B B') :
    Lang.le (Lang.union A B) (Lang.union A' B') := by
  rintro w (h | h)
  · exact Or.inl (h1 w h)
  · exact Or.inr (h2 w h)

theorem Lang.star_mono {A A' : Lang} (h : Lang.le A A') : Lang.le (Lang.star A) (Lang.star A') := by
  rintro w ⟨ws, hws, rfl⟩
  exact ⟨ws, fun x hx => h x (hws x hx), rfl⟩

theorem Lang.sepIter_mono {E E' S S' : Lang} (h1 : Lang.le E E') (h2 : Lang.le S S') :
    Lang.le (Lang.sepIter E S) (Lang.sepIter E' S') :=
  Lang.cat_mono h1 (Lang.star_mono (Lang.cat_mono h2 h1))

theorem Lang.cat_eps (A : Lang) : Lang.cat A Lang.eps = A := by
  apply Lang.ext; intro w; constructor
  · rintro ⟨u, v, hu, hv, rfl⟩
    cases hv; simpa using hu
  · intro h; exact ⟨w, [], h, rfl, by simp⟩

theorem Lang.eps_cat (A : Lang) : Lang.cat Lang.eps A = A := by
  apply Lang.ext; intro w; constructor
  · rintro ⟨u, v, hu, hv, rfl⟩
    cases hu; simpa using hv
  · intro h; exact ⟨[], w, rfl, h, by simp⟩

theorem Lang.cat_assoc (A B C : Lang) : Lang.cat (Lang.cat A B) C = Lang.cat A (Lang.cat B C) := by
  apply Lang.ext; intro w; constructor
  · rintro ⟨_, c, ⟨a, b, ha, hb, rfl⟩, hc, rfl⟩
    exact ⟨a, b ++ c, ha, ⟨b, c, hb, hc, rfl⟩, by simp⟩
  · rintro ⟨a, _, ha, ⟨b, c, hb, hc, rfl⟩, rfl⟩
    exact ⟨a ++ b, c, ⟨a, b, ha, hb, rfl⟩, hc, by simp⟩

theorem Lang.cat_none (A : Lang) : Lang.cat A Lang.none = Lang.none := by
  apply Lang.ext; intro w; constructor
  · rintro ⟨_, _, _, h, _⟩; exact h.elim
  · intro h; exact h.elim

theorem Lang.none_cat (A : Lang) : Lang.cat Lang.none A = Lang.none := by
  apply Lang.ext; intro w; constructor
  · rintro ⟨_, _, h, _, _⟩; exact h.elim
  · intro h; exact h.elim

theorem Lang.cat_union (A B C : Lang) :
    Lang.cat A (Lang.union B C) = Lang.union (Lang.cat A B) (Lang.cat A C) := by
  apply Lang.ext; intro w; constructor
  · rintro ⟨u, v, hu, (hv | hv), rfl⟩
    · exact Or.inl ⟨u, v, hu, hv, rfl⟩
    · exact Or.inr ⟨u, v, hu, hv, rfl⟩
  · rintro (⟨u, v, hu, hv, rfl⟩ | ⟨u, v, hu, hv, rfl⟩)
    · exact ⟨u, v, hu, Or.inl hv, rfl⟩
    · exact ⟨u, v, hu, Or.inr hv, rfl⟩

theorem Lang.union_cat (A B C : Lang) :
    Lang.cat (Lang.union A B) C = Lang.union (Lang.cat A C) (Lang.cat B C) := by
  apply Lang.ext; intro w; constructor
  · rintro ⟨u, v, (hu | hu), hv, rfl⟩
    · exact Or.inl ⟨u, v, hu, hv, rfl⟩
    · exact Or.inr ⟨u, v, hu, hv, rfl⟩
  · rintro (⟨u, v, hu, hv, rfl⟩ | ⟨u, v, hu, hv, rfl⟩)
    · exact ⟨u, v, Or.inl hu, hv, rfl⟩
    · exact ⟨u, v, Or.inr hu, hv, rfl⟩

theorem Lang.star_nil (A : Lang) : Lang.star A [] := ⟨[], by simp, by simp⟩

theorem Lang.star_cons {A : Lang} {x w : List Nat} (hx : A x) (hw : Lang.star A w) :
    Lang.star A (x ++ w) := by
  obtain ⟨ws, hws, rfl⟩ := hw
  refine ⟨x :: ws, ?_, by simp⟩
  intro y hy
  rcases List.mem_cons.1 hy with rfl | hy
  · exact hx
  · exact hws y hy

theorem Lang.star_snoc {A : Lang} {x w : List Nat} (hw : Lang.star A w) (hx : A x) :
    Lang.star A (w ++ x) := by
  obtain ⟨ws, hws, rfl⟩ := hw
  refine ⟨ws ++ [x], ?_, by simp⟩
  intro y hy
  rcases List.mem_append.1 hy with hy | hy
  · exact hws y hy
  · simp at hy; subst hy; exact hx

/-! ### The list rules: least solutions

`sepIter E S = E (S E)*` is the least solution of `L = L·S·E ∪ E` (left-recursive list rules) and of
`L = E·S·L ∪ E` (right-recursive); `star E` is the least solution of `L = L·E ∪ ε` and `L = E·L ∪ ε`. -/

theorem sepIter_base (E S : Lang) : Lang.le E (Lang.sepIter E S) :=
  fun w h => ⟨w, [], h, Lang.star_nil _, by simp⟩

theorem sepIter_left_closed (E S : Lang) :
    Lang.le (Lang.cat (Lang.cat (Lang.sepIter E S) S) E) (Lang.sepIter E S) := by
  rintro w ⟨_, e', ⟨_, s, ⟨e, r, he, hr, rfl⟩, hs, rfl⟩, he', rfl⟩
  refine ⟨e, r ++ (s ++ e'), he, Lang.star_snoc hr ⟨s, e', hs, he', rfl⟩, by simp⟩

theorem sepIter_left_least (E S L : Lang) (hb : Lang.le E L)
    (hs : Lang.le (Lang.cat (Lang.cat L S) E) L) : Lang.le (Lang.sepIter E S) L := by
  rintro w ⟨e, r, he, ⟨ws, hws, rfl⟩, rfl⟩
  have key : ∀ (ws : List (List Nat)) (u : List Nat), L u → (∀ x ∈ ws, Lang.cat S E x) →
      L (u ++ ws.flatten) := by
    intro ws
    induction ws with
    | nil => intro u hu _; simpa using hu
    | cons x ws ih =>
      intro u hu hx
      obtain ⟨s, e', hs', he', rfl⟩ := hx x List.mem_cons_self
      have : L (u ++ s ++ e') := hs _ ⟨u ++ s, e', ⟨u, s, hu, hs', rfl⟩, he', rfl⟩
      have := ih (u ++ s ++ e') this (fun y hy => hx y (List.mem_cons_of_mem _ hy))
      simpa using this
  exact key ws e (hb e he) hws

theorem sepIter_right_closed (E S : Lang) :
    Lang.le (Lang.cat E (Lang.cat S (Lang.sepIter E S))) (Lang.sepIter E S) := by
  rintro w ⟨e, _, he, ⟨s, _, hs, ⟨e', r, he', hr, rfl⟩, rfl⟩, rfl⟩
  refine ⟨e, (s ++ e') ++ r, he, Lang.star_cons ⟨s, e', hs, he', rfl⟩ hr, by simp⟩

theorem sepIter_right_least (E S L : Lang) (hb : Lang.le E L)
    (hs : Lang.le (Lang.cat E (Lang.cat S L)) L) : Lang.le (Lang.sepIter E S) L := by
  rintro w ⟨e, r, he, ⟨ws, hws, rfl⟩, rfl⟩
  induction ws generalizing e with
  | nil => simpa using hb e he
  | cons x ws ih =>
    obtain ⟨s, e', hs', he', rfl⟩ := hws x List.mem_cons_self
    have h1 := ih e' he' (fun y hy => hws y (List.mem_cons_of_mem _ hy))
    have := hs _ ⟨e, s ++ (e' ++ ws.flatten), he, ⟨s, _, hs', h1, rfl⟩, rfl⟩
    simpa using this

theorem star_base (E : Lang) : Lang.le Lang.eps (Lang.star E) := by
  intro w h; cases h; exact Lang.star_nil _

theorem star_left_closed (E : Lang) : Lang.le (Lang.cat (Lang.star E) E) (Lang.star E) := by
  rintro w ⟨u, v, hu, hv, rfl⟩; exact Lang.star_snoc hu hv

theorem star_right_closed (E : Lang) : Lang.le (Lang.cat E (Lang.star E)) (Lang.star E) := by
  rintro w ⟨u, v, hu, hv, rfl⟩; exact Lang.star_cons hu hv

theorem star_left_least (E L : Lang) (hb : Lang.le Lang.eps L) (hs : Lang.le (Lang.cat L E) L) :
    Lang.le (Lang.star E) L := by
  rintro w ⟨ws, hws, rfl⟩
  have key : ∀ (ws : List (List Nat)) (u : List Nat), L u → (∀ x ∈ ws, E x) → L (u ++ ws.flatten) := by
    intro ws
    induction ws with
    | nil => intro u hu _; simpa using hu
    | cons x ws ih =>
      intro u hu hx
      have : L (u ++ x) := hs _ ⟨u, x, hu, hx x List.mem_cons_self, rfl⟩
      have := ih (u ++ x) this (fun y hy => hx y (List.mem_cons_of_mem _ hy))
      simpa using this
  simpa using key ws [] (hb [] rfl) hws

theorem star_right_least (E L : Lang) (hb : Lang.le Lang.eps L) (hs : Lang.le (Lang.cat E L) L) :
    Lang.le (Lang.star E) L := by
  rintro w ⟨ws, hws, rfl⟩
  induction ws with
  | nil => exact hb [] rfl
  | cons x ws ih =>
    have h1 := ih (fun y hy => hws y (List.mem_cons_of_mem _ hy))
    have := hs _ ⟨x, ws.flatten, hws x List.mem_cons_self, h1, rfl⟩
    simpa using this

/-- without a separator `E (ε E)* ∪ ε` is `E*` -/
theorem sepIter_eps_union (E : Lang) :
    Lang.union (Lang.sepIter E Lang.eps) Lang.eps = Lang.star E := by
  apply Lang.le_antisymm
  · rintro w (h | h)
    · refine sepIter_left_least E Lang.eps (Lang.star E) ?_ ?_ w h
      · intro u hu; simpa using Lang.star_cons hu (Lang.star_nil E)
      · rw [Lang.cat_eps]; exact star_left_closed E
    · exact star_base E w h
  · refine star_left_least E _ (fun w h => Or.inr h) ?_
    rintro w ⟨u, v, (hu | hu), hv, rfl⟩
    · refine Or.inl (sepIter_left_closed E Lang.eps _ ⟨u, v, ?_, hv, rfl⟩)
      rw [Lang.cat_eps]; exact hu
    · cases hu; exact Or.inl (by simpa using sepIter_base E Lang.eps v hv)

/-- without a separator `E (ε E)*` is `E E*` -/
theorem sepIter_eps (E : Lang) : Lang.sepIter E Lang.eps = Lang.cat E (Lang.star E) := by
  unfold Lang.sepIter; rw [Lang.eps_cat]

/-! ### Denotation lemmas -/

variable (sets : Nat → List Nat) (ρ : Nat → Lang)

theorem denSeq_append (a b : List Expr) :
    denSeq sets ρ (a ++ b) = Lang.cat (denSeq sets ρ a) (denSeq sets ρ b) := by
  induction a with
  | nil => simp [denSeq, Lang.eps_cat]
  | cons x a ih => simp [denSeq, ih, Lang.cat_assoc]

theorem denAlt_eq_denAlts (es : List Expr) : denAlt sets ρ es = denAlts sets ρ es := by
  induction es with
  | nil => apply Lang.ext; intro w; simp [denAlt, denAlts, Lang.none]
  | cons e es ih =>
    apply Lang.ext; intro w
    simp only [denAlt, ih, Lang.union, denAlts, List.mem_cons]
    constructor
    · rintro (h | ⟨a, ha, h⟩)
      · exact ⟨e, Or.inl rfl, h⟩
      · exact ⟨a, Or.inr ha, h⟩
    · rintro ⟨a, (rfl | ha), h⟩
      · exact Or.inl h
      · exact Or.inr ⟨a, ha, h⟩

theorem denAlts_nil : denAlts sets ρ [] = Lang.none := by
  apply Lang.ext; intro w; simp [denAlts, Lang.none]

theorem denAlts_singleton (e : Expr) : denAlts sets ρ [e] = den sets ρ e := by
  apply Lang.ext; intro w; simp [denAlts]

theorem denAlts_append (a b : List Expr) :
    denAlts sets ρ (a ++ b) = Lang.union (denAlts sets ρ a) (denAlts sets ρ b) := by
  apply Lang.ext; intro w
  simp only [denAlts, List.mem_append, Lang.union]
  constructor
  · rintro ⟨x, (h | h), hx⟩
    · exact Or.inl ⟨x, h, hx⟩
    · exact Or.inr ⟨x, h, hx⟩
  · rintro (⟨x, h, hx⟩ | ⟨x, h, hx⟩)
    · exact ⟨x, Or.inl h, hx⟩
    · exact ⟨x, Or.inr h, hx⟩

theorem denAlts_cons (e : Expr) (a : List Expr) :
    denAlts sets ρ (e :: a) = Lang.union (den sets ρ e) (denAlts sets ρ a) := by
  have := denAlts_append sets ρ [e] a
  simpa [denAlts_singleton] using this

/-- mapping a denotation-preserving function over the alternatives -/
theorem denAlts_map (f : Expr → Expr) (h : ∀ e, den sets ρ (f e) = den sets ρ e) (a : List Expr) :
    denAlts sets ρ (a.map f) = denAlts sets ρ a := by
  apply Lang.ext; intro w
  simp only [denAlts, List.mem_map]
  constructor
  · rintro ⟨_, ⟨x, hx, rfl⟩, hw⟩; exact ⟨x, hx, by rwa [h] at hw⟩
  · rintro ⟨x, hx, hw⟩; exact ⟨f x, ⟨x, hx, rfl⟩, by rwa [h]⟩

theorem den_wrapChoice (alts : List Expr) : den sets ρ (wrapChoice alts) = denAlts sets ρ alts := by
  unfold wrapChoice
  split
  · simp [denAlts_singleton]
  · simp [den, denAlt_eq_denAlts]

theorem denSeq_concatPart (e : Expr) : denSeq sets ρ (concatPart e) = den sets ρ e := by
  cases e <;> simp [concatPart, denSeq, den, Lang.cat_eps]

theorem denSeq_flatMap_concatPart (l : List Expr) :
    denSeq sets ρ (l.flatMap concatPart) = denSeq sets ρ l := by
  induction l with
  | nil => simp
  | cons x l ih => simp [List.flatMap_cons, denSeq_append, ih, denSeq, denSeq_concatPart]

theorem den_concat (l : List Expr) : den sets ρ (concat l) = denSeq sets ρ l := by
  unfold concat
  rw [← denSeq_flatMap_concatPart]
  split
  · next h => simp [h, den, denSeq]
  · next x h => simp [h, denSeq, Lang.cat_eps]
  · simp [den]

theorem denAlts_multiConcat (a b : List Expr) :
    denAlts sets ρ (multiConcat a b) = Lang.cat (denAlts sets ρ a) (denAlts sets ρ b) := by
  apply Lang.ext; intro w
  simp only [multiConcat, denAlts, List.mem_flatMap, List.mem_map, Lang.cat]
  constructor
  · rintro ⟨_, ⟨x, hx, y, hy, rfl⟩, hw⟩
    rw [den_concat] at hw
    simp only [denSeq, Lang.cat_eps] at hw
    obtain ⟨u, v, hu, hv, rfl⟩ := hw
    exact ⟨u, v, ⟨x, hx, hu⟩, ⟨y, hy, hv⟩, rfl⟩
  · rintro ⟨u, v, ⟨x, hx, hu⟩, ⟨y, hy, hv⟩, rfl⟩
    refine ⟨concat [x, y], ⟨x, hx, y, hy, rfl⟩, ?_⟩
    rw [den_concat]
    simp only [denSeq, Lang.cat_eps]
    exact ⟨u, v, hu, hv, rfl⟩

/-! ### `Expr.Equal` is syntactic equality of the model expressions -/

theorem eqPreds_eq : ∀ (a b : List (Bool × Nat)), eqPreds a b = true → a = b
  | [], [], _ => rfl
  | [], _ :: _, h => by simp [eqPreds] at h
  | _ :: _, [], h => by simp [eqPreds] at h
  | (a, x) :: l, (b, y) :: r, h => by
    simp [eqPreds] at h
    obtain ⟨⟨h1, h2⟩, h3⟩ := h
    rw [h1, h2, eqPreds_eq l r h3]

mutual
theorem equal_eq : ∀ (a b : Expr), equal a b = true → a = b
  | .empty, b, h => by cases b <;> simp [equal] at h ⊢
  | .ref _, b, h => by cases b <;> simp [equal] at h ⊢; exact h
  | .opt a, b, h => by
    cases b <;> simp [equal] at h ⊢
    exact equal_eq a _ h
  | .seq a, b, h => by
    cases b <;> simp [equal] at h ⊢
    exact equalList_eq a _ h
  | .choice a, b, h => by
    cases b <;> simp [equal] at h ⊢
    exact equalList_eq a _ h
  | .list n r e s, b, h => by
    cases b <;> simp [equal] at h ⊢
    obtain ⟨⟨⟨h1, h2⟩, h3⟩, h4⟩ := h
    exact ⟨h1, h2, equal_eq e _ h3, equal_eq s _ h4⟩
  | .set _, b, h => by cases b <;> simp [equal] at h ⊢; exact h
  | .lookahead a, b, h => by
    cases b <;> simp [equal] at h ⊢
    exact eqPreds_eq a _ h
  | .arrow n a, b, h => by
    cases b <;> simp [equal] at h ⊢
    exact ⟨h.1, equal_eq a _ h.2⟩
  | .assign n a, b, h => by
    cases b <;> simp [equal] at h ⊢
    exact ⟨h.1, equal_eq a _ h.2⟩
  | .append n a, b, h => by
    cases b <;> simp [equal] at h ⊢
    exact ⟨h.1, equal_eq a _ h.2⟩
  | .prec n a, b, h => by
    cases b <;> simp [equal] at h ⊢
    exact ⟨h.1, equal_eq a _ h.2⟩
  | .command _, b, h => by cases b <;> simp [equal] at h ⊢; exact h
  | .marker _, b, h => by cases b <;> simp [equal] at h ⊢; exact h
theorem equalList_eq : ∀ (a b : List Expr), equalList a b = true → a = b
  | [], [], _ => rfl
  | [], _ :: _, h => by simp [equalList] at h
  | _ :: _, [], h => by simp [equalList] at h
  | a :: l, b :: r, h => by
    simp [equalList] at h
    rw [equal_eq a b h.1, equalList_eq l r h.2]
end

end TmVerif.Expand
