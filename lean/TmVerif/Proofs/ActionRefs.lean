import TmVerif.Model.ActionRefs
/-!
Helper lemmas for C16: the invariant of the mirror of `traverse` (`build`), the scoping of mid-rule
commands, the stack-slot arithmetic.
-/
namespace TmVerif.ActionRefs

/-! ### association lists -/

theorem lookup_filter_ne (m : List (Nat × Nat)) (p q : Nat) (h : q ≠ p) :
    (m.filter (fun e => e.1 != p)).lookup q = m.lookup q := by
  induction m with
  | nil => rfl
  | cons e m ih =>
    obtain ⟨a, b⟩ := e
    by_cases ha : a = p
    · subst ha
      have hq : (q == a) = false := by simpa using h
      simp [List.filter, List.lookup, hq, ih]
    · have : (a != p) = true := by simpa using ha
      simp only [List.filter, this]
      by_cases hqa : q = a
      · subst hqa; simp [List.lookup]
      · have hq : (q == a) = false := by simpa using hqa
        simp [List.lookup, hq, ih]

theorem lookup_mapSet (m : List (Nat × Nat)) (p n q : Nat) :
    (mapSet m p n).lookup q = if q = p then some n else m.lookup q := by
  unfold mapSet
  by_cases h : q = p
  · subst h; simp [List.lookup]
  · have hq : (q == p) = false := by simpa using h
    simp [List.lookup, hq, h, lookup_filter_ne m p q h]

/-- every value stored in the map -/
theorem lookup_of_mem_mapSet (m : List (Nat × Nat)) (p n : Nat) (e : Nat × Nat)
    (he : e ∈ mapSet m p n) : e = (p, n) ∨ (e ∈ m ∧ e.1 ≠ p) := by
  unfold mapSet at he
  rcases List.mem_cons.mp he with h | h
  · exact Or.inl h
  · right
    have := List.mem_filter.mp h
    exact ⟨this.1, by simpa using this.2⟩

/-! ### last occurrence of a position in the right-hand side -/

/-- `i` is the index of the last occurrence of the symbol with position `q` -/
def LastIdx (rhs : List RSym) (q i : Nat) : Prop :=
  rhs[i]? = some (.sym q) ∧ ∀ j, i < j → rhs[j]? ≠ some (.sym q)

theorem lastIdx_append_ne (rhs : List RSym) (x : RSym) (q i : Nat) (hx : x ≠ .sym q) :
    LastIdx (rhs ++ [x]) q i ↔ LastIdx rhs q i := by
  unfold LastIdx
  constructor
  · rintro ⟨h1, h2⟩
    have hi : i < rhs.length := by
      rcases Nat.lt_or_ge i rhs.length with h | h
      · exact h
      · exfalso
        rcases Nat.eq_or_lt_of_le h with h' | h'
        · rw [← h'] at h1; simp at h1; exact hx h1
        · rw [List.getElem?_eq_none (by simp; omega)] at h1; cases h1
    refine ⟨by rwa [List.getElem?_append_left hi] at h1, fun j hj hc => ?_⟩
    have hjl : j < rhs.length := by
      rcases Nat.lt_or_ge j rhs.length with h | h
      · exact h
      · rw [List.getElem?_eq_none h] at hc; cases hc
    exact h2 j hj (by rw [List.getElem?_append_left hjl]; exact hc)
  · rintro ⟨h1, h2⟩
    have hi : i < rhs.length := by
      rcases Nat.lt_or_ge i rhs.length with h | h
      · exact h
      · rw [List.getElem?_eq_none h] at h1; cases h1
    refine ⟨by rw [List.getElem?_append_left hi]; exact h1, fun j hj hc => ?_⟩
    rcases Nat.lt_or_ge j rhs.length with h | h
    · rw [List.getElem?_append_left h] at hc; exact h2 j hj hc
    · rcases Nat.eq_or_lt_of_le h with h' | h'
      · rw [← h'] at hc; simp at hc; exact hx hc
      · rw [List.getElem?_eq_none (by simp; omega)] at hc; cases hc

theorem lastIdx_append_self (rhs : List RSym) (q i : Nat) :
    LastIdx (rhs ++ [.sym q]) q i ↔ i = rhs.length := by
  unfold LastIdx
  constructor
  · rintro ⟨h1, h2⟩
    rcases Nat.lt_trichotomy i rhs.length with h | h | h
    · exact absurd (by simp) (h2 rhs.length h)
    · exact h
    · rw [List.getElem?_eq_none (by simp; omega)] at h1; cases h1
  · rintro rfl
    refine ⟨by simp, fun j hj hc => ?_⟩
    rw [List.getElem?_eq_none (by simp; omega)] at hc; cases hc

/-! ### invariant of `run` -/

structure Inv (st : TState) : Prop where
  num : st.numRefs = st.rhs.length
  map : ∀ q i, st.actualPos.lookup q = some i ↔ 0 < q ∧ LastIdx st.rhs q i
  mids : ∀ k, k < st.mids.length → st.rhs[(st.mids[k]?.map Mid.symRefCount).getD 0]? = some (.mid k)

theorem inv_init : Inv {} := by
  refine ⟨rfl, fun q i => ?_, fun k hk => absurd hk (by simp)⟩
  simp [List.lookup, LastIdx]

theorem inv_flush (st : TState) (h : Inv st) : Inv (flush st) := by
  unfold flush
  cases hp : st.pending with
  | none => simpa using h
  | some mp =>
    refine ⟨by simp [h.num], fun q i => ?_, fun k hk => ?_⟩
    · simp only
      rw [h.map q i, lastIdx_append_ne _ _ _ _ (by intro hc; cases hc)]
    · simp only at hk ⊢
      rw [List.length_append] at hk
      simp only [List.length_cons, List.length_nil] at hk
      rcases Nat.lt_or_ge k st.mids.length with hlt | hge
      · have := h.mids k hlt
        rw [List.getElem?_append_left hlt]
        have hidx : (st.mids[k]?.map Mid.symRefCount).getD 0 < st.rhs.length := by
          rcases Nat.lt_or_ge ((st.mids[k]?.map Mid.symRefCount).getD 0) st.rhs.length with h' | h'
          · exact h'
          · rw [List.getElem?_eq_none h'] at this; cases this
        rw [List.getElem?_append_left hidx]; exact this
      · have hk' : k = st.mids.length := by omega
        subst hk'
        simp

theorem inv_pushRef (st : TState) (pos : Nat) (h : Inv st) : Inv (pushRef st pos) := by
  unfold pushRef
  refine ⟨by simp [h.num], fun q i => ?_, fun k hk => ?_⟩
  · simp only
    by_cases hpos : pos > 0
    · simp only [hpos, if_true]
      rw [lookup_mapSet]
      by_cases hq : q = pos
      · subst hq
        simp only [if_true]
        rw [lastIdx_append_self, h.num]
        constructor
        · intro hh; exact ⟨hpos, (Option.some.inj hh).symm⟩
        · rintro ⟨_, rfl⟩; rfl
      · simp only [hq, if_false]
        rw [h.map q i, lastIdx_append_ne _ _ _ _ (by intro hc; injection hc with hc; exact hq hc.symm)]
    · have hp0 : pos = 0 := by omega
      subst hp0
      simp only [Nat.lt_irrefl, if_false]
      rw [h.map q i]
      constructor
      · rintro ⟨hq, hl⟩
        exact ⟨hq, (lastIdx_append_ne _ _ _ _ (by intro hc; injection hc with hc; omega)).mpr hl⟩
      · rintro ⟨hq, hl⟩
        exact ⟨hq, (lastIdx_append_ne _ _ _ _ (by intro hc; injection hc with hc; omega)).mp hl⟩
  · simp only at hk ⊢
    have := h.mids k hk
    have hidx : (st.mids[k]?.map Mid.symRefCount).getD 0 < st.rhs.length := by
      rcases Nat.lt_or_ge ((st.mids[k]?.map Mid.symRefCount).getD 0) st.rhs.length with h' | h'
      · exact h'
      · rw [List.getElem?_eq_none h'] at this; cases this
    rw [List.getElem?_append_left hidx]; exact this

theorem inv_step (st : TState) (e : Elem) (h : Inv st) : Inv (step st e) := by
  cases e with
  | ref pos => exact inv_pushRef _ _ (inv_flush _ h)
  | marker => exact ⟨h.num, h.map, h.mids⟩
  | cmd mp => exact ⟨h.num, h.map, h.mids⟩

theorem inv_run (es : List Elem) (st : TState) (h : Inv st) : Inv (run es st) := by
  induction es generalizing st with
  | nil => exact h
  | cons e es ih => exact ih _ (inv_step _ _ h)

theorem inv_build (es : List Elem) : Inv (build es) := inv_run es _ inv_init

/-! ### scoping of commands: a command sees only positions allocated before it -/

/-- every reference that follows a command with `MaxPos = M` has no position or a position `≥ M` -/
def Scoped : List Elem → Prop
  | [] => True
  | .cmd mp :: rest => (∀ p, Elem.ref p ∈ rest → p = 0 ∨ mp ≤ p) ∧ Scoped rest
  | _ :: rest => Scoped rest

/-- invariant for the mid-rule theorem: positions below the `MaxPos` of a recorded (or pending) command are
mapped below its `SymRefCount` (resp. below the current `numRefs`) -/
structure MInv (st : TState) : Prop where
  bound : ∀ e ∈ st.actualPos, e.2 < st.numRefs
  mids : ∀ m ∈ st.mids, ∀ e ∈ st.actualPos, e.1 < m.maxPos → e.2 < m.symRefCount
  srcLe : ∀ m ∈ st.mids, m.symRefCount ≤ st.numRefs

theorem minv_init : MInv {} := ⟨by simp, by simp, by simp⟩

theorem minv_flush (st : TState) (h : MInv st) (hn : st.numRefs = st.rhs.length) : MInv (flush st) := by
  unfold flush
  cases hp : st.pending with
  | none => simpa using h
  | some mp =>
    refine ⟨fun e he => ?_, fun m hm e he hlt => ?_, fun m hm => ?_⟩
    · have := h.bound e he; simp only; omega
    · simp only at hm he
      rcases List.mem_append.mp hm with hm | hm
      · exact h.mids m hm e he hlt
      · simp only [List.mem_cons, List.not_mem_nil, or_false] at hm
        subst hm; simp only; rw [← hn]; exact h.bound e he
    · simp only at hm ⊢
      rcases List.mem_append.mp hm with hm | hm
      · have := h.srcLe m hm; omega
      · simp only [List.mem_cons, List.not_mem_nil, or_false] at hm
        subst hm; simp only; omega

theorem minv_pushRef (st : TState) (pos : Nat) (h : MInv st)
    (hs : ∀ m ∈ st.mids, pos = 0 ∨ m.maxPos ≤ pos) : MInv (pushRef st pos) := by
  unfold pushRef
  by_cases hpos : pos > 0
  · simp only [hpos, if_true]
    refine ⟨fun e he => ?_, fun m hm e he hlt => ?_, fun m hm => ?_⟩
    · rcases lookup_of_mem_mapSet _ _ _ _ he with rfl | ⟨he', _⟩
      · simp
      · have := h.bound e he'; dsimp only; omega
    · rcases lookup_of_mem_mapSet _ _ _ _ he with rfl | ⟨he', _⟩
      · rcases hs m hm with h0 | hle
        · omega
        · simp only at hlt; omega
      · exact h.mids m hm e he' hlt
    · have := h.srcLe m hm; simp only; omega
  · simp only [hpos, if_false]
    exact ⟨fun e he => by have := h.bound e he; dsimp only; omega, h.mids, fun m hm => by have := h.srcLe m hm; dsimp only; omega⟩

/-- what `Scoped` means for the state reached so far: the remaining references respect every recorded and the
pending command -/
def Respects (st : TState) (es : List Elem) : Prop :=
  (∀ m ∈ st.mids, ∀ p, Elem.ref p ∈ es → p = 0 ∨ m.maxPos ≤ p) ∧
  (∀ mp, st.pending = some mp → ∀ p, Elem.ref p ∈ es → p = 0 ∨ mp ≤ p)

theorem minv_run (es : List Elem) (st : TState) (h : MInv st) (hi : Inv st) (hr : Respects st es)
    (hsc : Scoped es) : MInv (run es st) := by
  induction es generalizing st with
  | nil => exact h
  | cons e es ih =>
    cases e with
    | ref pos =>
      have hfl := minv_flush st h hi.num
      have hmids : ∀ m ∈ (flush st).mids, pos = 0 ∨ m.maxPos ≤ pos := by
        intro m hm
        unfold flush at hm
        cases hp : st.pending with
        | none => rw [hp] at hm; exact hr.1 m hm pos (List.mem_cons_self ..)
        | some mp =>
          rw [hp] at hm
          simp only at hm
          rcases List.mem_append.mp hm with hm | hm
          · exact hr.1 m hm pos (List.mem_cons_self ..)
          · simp only [List.mem_cons, List.not_mem_nil, or_false] at hm
            subst hm; exact hr.2 mp hp pos (List.mem_cons_self ..)
      refine ih _ (minv_pushRef _ _ hfl hmids) (inv_step st (.ref pos) hi) ?_ hsc
      refine ⟨fun m hm p hp => ?_, fun mp hmp => ?_⟩
      · have hm' : m ∈ (flush st).mids := hm
        unfold flush at hm'
        cases hpd : st.pending with
        | none => rw [hpd] at hm'; exact hr.1 m hm' p (List.mem_cons_of_mem _ hp)
        | some mp =>
          rw [hpd] at hm'
          simp only at hm'
          rcases List.mem_append.mp hm' with hm' | hm'
          · exact hr.1 m hm' p (List.mem_cons_of_mem _ hp)
          · simp only [List.mem_cons, List.not_mem_nil, or_false] at hm'
            subst hm'; exact hr.2 mp hpd p (List.mem_cons_of_mem _ hp)
      · have : (step st (.ref pos)).pending = none := by
          show (pushRef (flush st) pos).pending = none
          cases hpd : st.pending <;> simp [pushRef, flush, hpd]
        rw [this] at hmp; cases hmp
    | marker =>
      refine ih _ ⟨h.bound, h.mids, h.srcLe⟩ (inv_step st .marker hi) ?_ hsc
      exact ⟨fun m hm p hp => hr.1 m hm p (List.mem_cons_of_mem _ hp),
             fun mp hmp p hp => hr.2 mp hmp p (List.mem_cons_of_mem _ hp)⟩
    | cmd mp =>
      refine ih _ ⟨h.bound, h.mids, h.srcLe⟩ (inv_step st (.cmd mp) hi) ?_ hsc.2
      refine ⟨fun m hm p hp => hr.1 m hm p (List.mem_cons_of_mem _ hp), fun mp' hmp' p hp => ?_⟩
      have : mp' = mp := by
        have : (step st (.cmd mp)).pending = some mp := rfl
        rw [this] at hmp'; exact (Option.some.inj hmp').symm
      subst this
      exact hsc.1 p hp

theorem minv_build (es : List Elem) (hsc : Scoped es) : MInv (build es) :=
  minv_run es _ minv_init inv_init ⟨by simp, by simp⟩ hsc

/-! ### stack slots -/

theorem stackAt_append {β : Type} (below entries : List β) (i : Nat) (hi : i < entries.length) :
    stackAt (below ++ entries) ((entries.length : Int) - i) = entries[i]? := by
  unfold stackAt
  have h1 : (entries.length : Int) - i ≥ 1 := by omega
  have h2 : (entries.length : Int) - i ≤ ((below ++ entries).length : Int) := by
    simp only [List.length_append]; omega
  simp only [h1, h2, and_self, if_true]
  have : ((entries.length : Int) - i).toNat = entries.length - i := by omega
  rw [this]
  have hlen : (below ++ entries).length - (entries.length - i) = below.length + i := by
    simp only [List.length_append]; omega
  rw [hlen, List.getElem?_append_right (by omega)]
  congr 1; omega

theorem mem_activeOf (v : Vars) (ps : List Nat) (p : Nat) :
    p ∈ activeOf v ps ↔ p ∈ ps ∧ (v.remap.lookup p).isSome = true := by
  unfold activeOf; simp [List.mem_filter]

theorem lookup_mem (m : List (Nat × Nat)) (p i : Nat) (h : m.lookup p = some i) : (p, i) ∈ m := by
  induction m with
  | nil => cases h
  | cons e m ih =>
    obtain ⟨a, b⟩ := e
    by_cases hpa : p = a
    · subst hpa; simp [List.lookup] at h; subst h; exact List.mem_cons_self ..
    · have : (p == a) = false := by simpa using hpa
      simp [List.lookup, this] at h
      exact List.mem_cons_of_mem _ (ih h)

end TmVerif.ActionRefs
