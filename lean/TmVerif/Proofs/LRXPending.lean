import TmVerif.Model.LRXPending
import TmVerif.Proofs.EventNesting
import TmVerif.Proofs.LRXStep
import TmVerif.Proofs.LRXInv
/-!
C20 — the listener stream WITH reported skipped tokens (layer `Model/LRXPending.lean`) is well nested
for parsers without error recovery that trim trailing whitespace.

On top of the invariant `Core` of Proofs/EventNesting.lean (which is parametric in the event list):
with `L` = end of the last shifted token and `N` = offset of the next real token, every stack entry
and every reported event ends at or before `L` or starts at or after `N` (`gfE`, `gfP`: nothing
reaches into the gap between two real tokens — this is what trimming buys), and the pending tokens
lie inside that gap. A flush at the shift of the next token therefore reports ranges that are
disjoint from everything reported so far and from every stack entry; later nodes contain them or not
by the `Core` argument.
-/
namespace TmVerif.LRXPending
open TmVerif.LR TmVerif.LRX TmVerif.TreeBuilder TmVerif.EventNesting

/-- listener calls of the layered stream as builder events (list order preserved) -/
def outNodes : List PEv → List TreeBuilder.Ev
  | [] => []
  | .x (.node t o e) :: r => ⟨t, o, e⟩ :: outNodes r
  | .x (.error _ _) :: r => outNodes r
  | .ign t o e :: r => ⟨t, o, e⟩ :: outNodes r

theorem outNodes_append (a b : List PEv) : outNodes (a ++ b) = outNodes a ++ outNodes b := by
  induction a with
  | nil => rfl
  | cons e a ih =>
    cases e with
    | x e => cases e <;> simp [outNodes, ih]
    | ign t o e => simp [outNodes, ih]

theorem outNodes_reverse (a : List PEv) : outNodes a.reverse = (outNodes a).reverse := by
  induction a with
  | nil => rfl
  | cons e a ih =>
    cases e with
    | x e => cases e <;> simp [outNodes, outNodes_append, ih]
    | ign t o e => simp [outNodes, outNodes_append, ih]

theorem outNodes_mapx (l : List XEv) : outNodes (l.map PEv.x) = nodeEvs l := by
  induction l with
  | nil => rfl
  | cons e l ih => cases e <;> simp [outNodes, nodeEvs, ih]

def tokEv (t : Tok) : TreeBuilder.Ev := ⟨t.sym, t.off, t.endo⟩

theorem outNodes_ign (ts : List Tok) :
    outNodes (ts.map fun t => PEv.ign t.sym t.off t.endo) = ts.map tokEv := by
  induction ts with
  | nil => rfl
  | cons t ts ih => simp [outNodes, tokEv, ih]

theorem eraseIgn_append (a b : List PEv) : eraseIgn (a ++ b) = eraseIgn a ++ eraseIgn b := by
  induction a with
  | nil => rfl
  | cons e a ih => cases e <;> simp [eraseIgn, ih]

theorem eraseIgn_mapx (l : List XEv) : eraseIgn (l.map PEv.x) = l := by
  induction l with
  | nil => rfl
  | cons e l ih => simp [eraseIgn, ih]

theorem eraseIgn_ign (ts : List Tok) : eraseIgn (ts.map fun t => PEv.ign t.sym t.off t.endo) = [] := by
  induction ts with
  | nil => rfl
  | cons t ts ih => simp [eraseIgn, ih]

/-! ### a reduce never reaches into the gap (trimmed ranges) -/

theorem reduce_gf {x : XTables} (hx : XWF x) (ht : TrimAll x) {N L : Nat} {st : List Entry}
    {evsN : List TreeBuilder.Ev} (hc : Core N st evsN)
    (hgf : ∀ e ∈ st, e.endo ≤ L ∨ N ≤ e.off)
    {rule : Int} {ln off endo : Nat} {fs : List XEv} {endo' : Nat}
    (hln : ln ≤ st.length)
    (hinfo : 0 < ln → ∃ info, (if rule < 0 then none else x.rules[rule.toNat]?) = some info)
    (hoff : if ln = 0 then off = N ∧ endo = N
            else off = (((st.take ln).getLast?.map (·.off)).getD 0) ∧
                 endo = (((st.take ln).head?.map (·.endo)).getD 0))
    (h : applyRuleEvents x rule ln off endo st = some (fs, endo')) :
    (endo' ≤ L ∨ N ≤ off) ∧ ∀ f ∈ nodeEvs fs, f.endo ≤ L ∨ N ≤ f.off := by
  have hmeml : ∀ a ∈ (st.take ln).reverse, a ∈ st :=
    fun a ha => List.mem_of_mem_take (List.mem_reverse.1 ha)
  have hlen : (st.take ln).length = ln := by simp; omega
  rcases Nat.eq_zero_or_pos ln with h0 | hpos
  · subst h0
    simp only [if_true] at hoff
    obtain ⟨ho, he0⟩ := hoff
    rw [ho, he0] at h
    rw [ho]
    rcases applyRuleEvents_spec h with ⟨_, rfl, rfl⟩ | ⟨info, hinfo', fs0, hall, hendo, hevs⟩
    · exact ⟨.inr (Nat.le_refl _), by simp [nodeEvs]⟩
    · have hwf := hx _ (mem_rules_of_get hinfo')
      have hfs0 : fs0 = [] := by
        generalize hreps : info.reports = reps at hall
        cases hall with
        | nil => rfl
        | @cons r0 e0 _ _ hab _ =>
          exfalso
          have hr := hwf.2.1 r0 (by rw [hreps]; exact List.mem_cons_self ..)
          have hab' : repEv x.fixWhitespace (List.take 0 st) (List.take 0 st).length r0 = some e0 := by
            simpa using hab
          obtain ⟨t, o, e, _, hspec⟩ := repEv_spec hr hab'
          rcases hspec with ⟨_, A, hA, _⟩ | ⟨_, b, A, B, hA, _⟩ <;> simp at hA
      subst hfs0
      refine ⟨.inr (Nat.le_refl _), ?_⟩
      rw [hevs]
      split
      · intro f hf
        simp only [List.nil_append, nodeEvs, List.mem_singleton] at hf
        subst hf
        exact .inr (Nat.le_refl _)
      · simp [nodeEvs]
  · have hne0 : ln ≠ 0 := by omega
    simp only [hne0, if_false] at hoff
    obtain ⟨hoff1, hoff2⟩ := hoff
    have hrne : st.take ln ≠ [] := by
      intro h0; rw [h0] at hlen; simp at hlen; omega
    obtain ⟨info0, hinfo0⟩ := hinfo hpos
    rcases applyRuleEvents_spec h with ⟨hnone, _, _⟩ | ⟨info, hinfo', fs0, hall, hendo, hevs⟩
    · rw [hinfo0] at hnone; cases hnone
    · have hmem := mem_rules_of_get hinfo'
      have hwf := hx _ hmem
      have hfix : info.fixWS = true := ht.2.1 _ hmem
      have hfw : x.fixWhitespace = true := ht.1
      have hG : GSpec true (st.take ln).reverse off endo' := by
        have := gspec_of_rhs true (st.take ln) hrne
        rw [← hoff1, ← hoff2] at this
        rw [hendo, hfix]; exact this
      -- an entry that is not empty ends by L
      have nonempty_le : ∀ B ∈ st, B.off ≠ B.endo → B.endo ≤ L := by
        intro B hB hne
        have := hc.ent B hB
        rcases hgf B hB with h1 | h1
        · exact h1
        · omega
      have hentry : endo' ≤ L ∨ N ≤ off := by
        obtain ⟨A, hA0, ho, hg⟩ := hG
        simp only [if_true] at hg
        rcases hg with ⟨Lx, B, hB, hne, he, _⟩ | ⟨_, he⟩
        · exact .inl (by rw [he]; exact nonempty_le B (hmeml B (List.mem_of_getElem? hB)) hne)
        · have hAm := hmeml A (List.mem_of_getElem? hA0)
          have := hc.ent A hAm
          rcases hgf A hAm with h1 | h1
          · exact .inl (by omega)
          · exact .inr (by omega)
      refine ⟨hentry, ?_⟩
      rw [← hlen] at hall
      obtain ⟨es, rfl, hspec⟩ := reports_spec (rhsTop := st.take ln) hwf.2.1 (by
        have : (st.take ln).length = ln := hlen
        simpa [this] using hall)
      have hes : ∀ f ∈ es, f.endo ≤ L ∨ N ≤ f.off := by
        intro f hf
        obtain ⟨r, _, hr⟩ := hspec.exists_left f hf
        rw [hfw] at hr
        rcases hr with ⟨_, A, hA, o1, n1⟩ | ⟨_, b, A, B, hA, hB, sb, bt, o1, n1, _, md⟩
        · have hAm := hmeml A (List.mem_of_getElem? hA)
          have := hc.ent A hAm
          rcases hgf A hAm with h1 | h1
          · exact .inl (by omega)
          · exact .inr (by omega)
        · simp only [if_true] at md
          rcases md with md | md
          · subst md
            have hAB : A = B := by rw [hA] at hB; exact Option.some.inj hB
            subst hAB
            have hAm := hmeml A (List.mem_of_getElem? hA)
            rcases hgf A hAm with h1 | h1
            · exact .inl (by omega)
            · exact .inr (by omega)
          · exact .inl (by rw [n1]; exact nonempty_le B (hmeml B (List.mem_of_getElem? hB)) md)
      rw [hevs]
      split
      · intro f hf
        rw [nodeEvs_append, nodeEvs_map_toX] at hf
        rcases List.mem_append.1 hf with hf | hf
        · exact hes f hf
        · simp only [nodeEvs, List.mem_singleton] at hf
          subst hf
          exact hentry
      · intro f hf
        rw [nodeEvs_map_toX] at hf
        exact hes f hf

/-! ### the invariant of the layered run -/

structure PInv (p : PInput) (c : PCfg) (L : Nat) : Prop where
  next_ok : ∀ t, c.x.next = some t → 1 ≤ c.x.pos ∧ t = p.inp.tok (c.x.pos - 1)
  core : Core (NOff p.inp c.x) c.x.stack (outNodes c.out)
  lN : L ≤ NOff p.inp c.x
  gfE : ∀ e ∈ c.x.stack, e.endo ≤ L ∨ NOff p.inp c.x ≤ e.off
  gfP : ∀ q ∈ outNodes c.out, q.endo ≤ L ∨ NOff p.inp c.x ≤ q.off
  pend : ∀ t ∈ c.pending, L ≤ t.off ∧ t.off ≤ t.endo ∧ t.endo ≤ NOff p.inp c.x
  pendOrd : c.pending.Pairwise (fun a b => a.endo ≤ b.off)
  noneEmpty : c.x.next = none → c.pending = [] ∧ ∀ t ∈ p.ignAt c.x.pos, L ≤ t.off
  evsEq : eraseIgn c.out = c.x.evs

/-- events only (configurations of finished runs) -/
def PEInv (p : PInput) (c : PCfg) : Prop :=
  (∃ N, N ≤ p.inp.endOff ∧ EvsOK N (outNodes c.out)) ∧ eraseIgn c.out = c.x.evs

theorem PInv.peinv {p : PInput} (hw : InputWF p.inp) {c : PCfg} {L : Nat} (h : PInv p c L) : PEInv p c :=
  ⟨⟨_, tok_off_le_end hw _, h.core.evsOK⟩, h.evsEq⟩

theorem ignAt_facts {p : PInput} (hi : IgnWF p) (i : Nat) :
    (p.ignAt i).Pairwise (fun a b => a.endo ≤ b.off) ∧
    ∀ t ∈ p.ignAt i, t.off ≤ t.endo ∧ t.endo ≤ (p.inp.tok i).off ∧
      (0 < i → (p.inp.tok (i - 1)).endo ≤ t.off) := by
  rcases Nat.lt_or_ge i (p.inp.toks.size + 1) with h | h
  · exact hi i h
  · have : p.ignAt i = [] := by unfold PInput.ignAt; rw [if_neg (by omega)]
    rw [this]; simp

theorem pinv_init {p : PInput} (hi : IgnWF p) (start : Int) : PInv p (pinit p start) 0 := by
  have hf := ignAt_facts hi 0
  have hN : NOff p.inp (xinit p.inp start) = (p.inp.tok 0).off := by simp [NOff, nx, xinit]
  refine ⟨?_, ?_, Nat.zero_le _, ?_, by simp [pinit, outNodes], ?_, hf.1, ?_, rfl⟩
  · intro t ht
    simp only [pinit, xinit, Option.some.injEq] at ht
    exact ⟨Nat.le_refl _, ht.symm⟩
  · exact (sinv_init p.inp start).core
  · intro e he
    simp only [pinit, xinit, List.mem_singleton] at he
    subst he; exact .inl (Nat.le_refl _)
  · intro t ht
    have := hf.2 t ht
    show 0 ≤ t.off ∧ t.off ≤ t.endo ∧ t.endo ≤ NOff p.inp (xinit p.inp start)
    rw [hN]
    exact ⟨Nat.zero_le _, this.1, this.2.1⟩
  · intro hn; simp [pinit, xinit] at hn

theorem fetched_self (p : PInput) (a : Nat) : fetched p a a = [] := by simp [fetched]

theorem fetched_succ (p : PInput) (a : Nat) : fetched p a (a + 1) = p.ignAt a := by
  simp [fetched]

/-- `fetchNext` (if the next token is not there yet): its skipped tokens become pending -/
theorem pinv_fetch {p : PInput} (hi : IgnWF p) {c : PCfg} {L : Nat} (h : PInv p c L) :
    PInv p ⟨(c.x.fetch p.inp).1, c.pending ++ fetched p c.x.pos (c.x.fetch p.inp).1.pos, c.out⟩ L := by
  unfold XCfg.fetch
  split
  · simp only [fetched_self, List.append_nil]
    exact h
  · next hn =>
    have hN : NOff p.inp { c.x with next := some (p.inp.tok c.x.pos), pos := c.x.pos + 1 } = NOff p.inp c.x := by
      simp [NOff, nx, hn]
    have hNv : NOff p.inp c.x = (p.inp.tok c.x.pos).off := by simp [NOff, nx, hn]
    obtain ⟨hpe, hL⟩ := h.noneEmpty hn
    have hf := ignAt_facts hi c.x.pos
    simp only [fetched_succ, hpe, List.nil_append]
    refine ⟨?_, ?_, ?_, ?_, ?_, ?_, hf.1, ?_, h.evsEq⟩
    · intro t ht'
      simp only [Option.some.injEq] at ht'
      exact ⟨by simp, by simp [ht']⟩
    · rw [hN]; exact h.core
    · rw [hN]; exact h.lN
    · rw [hN]; exact h.gfE
    · rw [hN]; exact h.gfP
    · intro t ht
      have := hf.2 t ht
      rw [hN, hNv]
      exact ⟨hL t ht, this.1, this.2.1⟩
    · intro hn'; cases hn'

theorem fetch_idem (inp : Input) (c : XCfg) : ((c.fetch inp).1.fetch inp).1 = (c.fetch inp).1 := by
  have h := fetch_next inp c
  generalize (c.fetch inp).1 = c1 at h ⊢
  unfold XCfg.fetch
  rw [h]

/-- adding the flushed tokens (which lie in the gap) to the events -/
theorem core_addGap {N L : Nat} {st : List Entry} {evs : List TreeBuilder.Ev} (hc : Core N st evs)
    (gfE : ∀ e ∈ st, e.endo ≤ L ∨ N ≤ e.off) (gfP : ∀ q ∈ evs, q.endo ≤ L ∨ N ≤ q.off)
    (ts : List Tok) (hts : ∀ t ∈ ts, L ≤ t.off ∧ t.off ≤ t.endo ∧ t.endo ≤ N)
    (hord : ts.Pairwise (fun a b => a.endo ≤ b.off)) :
    Core N st ((ts.map tokEv).reverse ++ evs) := by
  have hmem : ∀ f ∈ ts.map tokEv, L ≤ f.off ∧ f.off ≤ f.endo ∧ f.endo ≤ N := by
    intro f hf
    obtain ⟨t, ht, rfl⟩ := List.mem_map.1 hf
    exact hts t ht
  refine ⟨hc.chain, hc.ent, ?_, ?_, ?_⟩
  · intro q hq
    rcases List.mem_append.1 hq with hq | hq
    · have := hmem q (List.mem_reverse.1 hq); omega
    · exact hc.evb q hq
  · intro q hq e he
    rcases List.mem_append.1 hq with hq | hq
    · have := hmem q (List.mem_reverse.1 hq)
      rcases gfE e he with h1 | h1
      · exact .inr (.inl (by omega))
      · exact .inl (by omega)
    · exact hc.evc q hq e he
  · rw [List.pairwise_append]
    refine ⟨?_, hc.pw, ?_⟩
    · rw [List.pairwise_reverse, List.pairwise_map]
      exact hord.imp (fun h => .inl h)
    · intro f hf q hq
      have := hmem f (List.mem_reverse.1 hf)
      rcases gfP q hq with h1 | h1
      · exact .inl (by omega)
      · exact .inr (.inl (by omega))

theorem takeWhile_all {α : Type} (p : α → Bool) : ∀ (l : List α), (∀ a ∈ l, p a = true) → l.takeWhile p = l := by
  intro l
  induction l with
  | nil => intro _; rfl
  | cons a l ih =>
    intro h
    rw [List.takeWhile_cons_of_pos (h a (List.mem_cons_self ..)), ih (fun t ht => h t (List.mem_cons_of_mem _ ht))]

theorem dropWhile_all {α : Type} (p : α → Bool) : ∀ (l : List α), (∀ a ∈ l, p a = true) → l.dropWhile p = [] := by
  intro l
  induction l with
  | nil => intro _; rfl
  | cons a l ih =>
    intro h
    rw [List.dropWhile_cons_of_pos (h a (List.mem_cons_self ..))]
    exact ih (fun t ht => h t (List.mem_cons_of_mem _ ht))

theorem flush_all (ts : List Tok) (endo : Nat) (h : ∀ t ∈ ts, t.endo ≤ endo) :
    flushSplit ts endo = (ts, []) := by
  unfold flushSplit
  rw [takeWhile_all _ ts (fun t ht => by simpa using h t ht), dropWhile_all _ ts (fun t ht => by simpa using h t ht)]

theorem next_facts {inp : Input} (hw : InputWF inp) {c : XCfg}
    (hn : ∀ t, c.next = some t → 1 ≤ c.pos ∧ t = inp.tok (c.pos - 1)) {tk : Tok} (ht : c.next = some tk) :
    tk.off = NOff inp c ∧ tk.off ≤ tk.endo ∧ tk.endo ≤ (inp.tok c.pos).off ∧
    (tk.sym = 0 → tk.off = tk.endo) := by
  have h1 := hn tk ht
  have hf := tok_facts hw (c.pos - 1)
  have hN : NOff inp c = tk.off := by simp [NOff, nx, ht, h1.2]
  have hpos : c.pos - 1 + 1 = c.pos := by omega
  rw [hpos] at hf
  rw [hN, h1.2]
  exact ⟨rfl, hf.1, hf.2.1, hf.2.2⟩

/-- shift of the fetched token followed by `flush(token)` -/
theorem pinv_shift {p : PInput} (hw : InputWF p.inp) (hi : IgnWF p) {c : PCfg} {L : Nat} (h : PInv p c L)
    {tk : Tok} (ht : c.x.next = some tk) (q : Int) (r sc : Nat) :
    PInv p ⟨{ c.x with stack := ⟨tk.sym, tk.off, tk.endo, q⟩ :: c.x.stack, state := q,
                       next := if tk.sym ≠ 0 then none else c.x.next,
                       recovering := r, shiftCounter := sc },
            [], (c.pending.reverse.map fun t => PEv.ign t.sym t.off t.endo) ++ c.out⟩ tk.endo := by
  obtain ⟨hoff, hle, hnext, hz⟩ := next_facts hw h.next_ok ht
  have hcore1 := core_addGap h.core h.gfE h.gfP c.pending h.pend h.pendOrd
  have hout : outNodes ((c.pending.reverse.map fun t => PEv.ign t.sym t.off t.endo) ++ c.out) =
      (c.pending.map tokEv).reverse ++ outNodes c.out := by
    rw [outNodes_append, outNodes_ign, List.map_reverse]
  have herase : eraseIgn ((c.pending.reverse.map fun t => PEv.ign t.sym t.off t.endo) ++ c.out) = c.x.evs := by
    rw [eraseIgn_append, eraseIgn_ign, List.nil_append]; exact h.evsEq
  have hN0 := h.lN
  -- events and entries so far end by the start of the shifted token
  have hallE : ∀ e ∈ c.x.stack, e.endo ≤ tk.endo := by
    intro e he; have := (h.core.ent e he).2; omega
  have hallP : ∀ f ∈ (c.pending.map tokEv).reverse ++ outNodes c.out, f.endo ≤ tk.endo := by
    intro f hf; have := (hcore1.evb f hf).2; omega
  by_cases hs : tk.sym ≠ 0
  · rw [if_pos hs]
    have hN' : NOff p.inp { c.x with stack := ⟨tk.sym, tk.off, tk.endo, q⟩ :: c.x.stack, state := q, next := none, recovering := r, shiftCounter := sc } = (p.inp.tok c.x.pos).off := by simp [NOff, nx]
    refine ⟨(by intro t ht'; cases ht'), ?_, ?_, ?_, ?_, by simp, by simp, ?_, herase⟩
    · rw [hN', hout]
      exact hcore1.push _ (by simp; omega) hle hnext
    · rw [hN']; exact hnext
    · intro e he
      rcases List.mem_cons.1 he with rfl | he
      · exact .inl (Nat.le_refl _)
      · exact .inl (hallE e he)
    · rw [hout]; intro f hf; exact .inl (hallP f hf)
    · intro _
      refine ⟨rfl, ?_⟩
      intro t ht'
      have hf := (ignAt_facts hi c.x.pos).2 t ht'
      have h1 := h.next_ok tk ht
      have := hf.2.2 (by omega)
      rw [← h1.2] at this
      exact this
  · rw [if_neg hs]
    have hs' : tk.sym = 0 := by simpa using hs
    have heq := hz hs'
    have hN' : NOff p.inp { c.x with stack := ⟨tk.sym, tk.off, tk.endo, q⟩ :: c.x.stack, state := q, next := c.x.next, recovering := r, shiftCounter := sc } = NOff p.inp c.x := rfl
    refine ⟨h.next_ok, ?_, ?_, ?_, ?_, by simp, by simp, ?_, herase⟩
    · rw [hN', hout]
      exact hcore1.push _ (by simp; omega) hle (by simp; omega)
    · rw [hN']; omega
    · intro e he
      rcases List.mem_cons.1 he with rfl | he
      · exact .inl (Nat.le_refl _)
      · exact .inl (hallE e he)
    · rw [hout]; intro f hf; exact .inl (hallP f hf)
    · intro hn; rw [ht] at hn; cases hn

/-- what is needed of a finished run: the stream is fine and projects to the underlying events -/
def PEOk (p : PInput) (out : List PEv) (evs : List XEv) : Prop :=
  (∃ N, N ≤ p.inp.endOff ∧ EvsOK N (outNodes out)) ∧ eraseIgn out = evs

theorem PInv.peok {p : PInput} (hw : InputWF p.inp) {c : PCfg} {L : Nat} (h : PInv p c L) :
    PEOk p c.out c.x.evs :=
  ⟨⟨_, tok_off_le_end hw _, h.core.evsOK⟩, h.evsEq⟩

theorem fetch_tok {inp : Input} {c : XCfg}
    (hn : ∀ t, c.next = some t → 1 ≤ c.pos ∧ t = inp.tok (c.pos - 1)) :
    (c.fetch inp).2.off = NOff inp (c.fetch inp).1 := by
  unfold XCfg.fetch
  split
  · next t ht =>
    have := hn t ht
    simp [NOff, nx, ht, this.2]
  · next ht => simp [NOff, nx]

theorem rule_info {x : XTables} (ht : TrimAll x) {rule lnI : Int} (hg : geti x.t.ruleLen rule = some lnI)
    (hpos : 0 < lnI.toNat) : ∃ info, (if rule < 0 then none else x.rules[rule.toNat]?) = some info := by
  unfold geti at hg
  split at hg
  · cases hg
  · next hneg =>
    have hlt := (Array.getElem?_eq_some_iff.1 hg).1
    have hget : (x.t.ruleLen[rule.toNat]?).getD 0 = lnI := by rw [hg]; rfl
    have := ht.2.2 rule.toNat hlt (by rw [hget]; omega)
    rw [if_neg hneg]
    exact ⟨x.rules[rule.toNat], Array.getElem?_eq_getElem this⟩

/-- the reduce branch (after all `fetchNext` calls of the iteration) -/
theorem reduceTail_pinv {x : XTables} (hx : XWF x) (ht : TrimAll x) {p : PInput} (hw : InputWF p.inp)
    {c2 : XCfg} {pend : List Tok} {out : List PEv} {L : Nat} (h : PInv p ⟨c2, pend, out⟩ L)
    {rule : Int} {ln : Nat} {lhs : Int} {off endo : Nat} (hln : ln ≤ c2.stack.length)
    (hinfo : 0 < ln → ∃ info, (if rule < 0 then none else x.rules[rule.toNat]?) = some info)
    (hoff : if ln = 0 then off = NOff p.inp c2 ∧ endo = NOff p.inp c2
            else off = (((c2.stack.take ln).getLast?.map (·.off)).getD 0) ∧
                 endo = (((c2.stack.take ln).head?.map (·.endo)).getD 0)) :
    ∃ new, (xreduceTail x c2 rule ln lhs off endo).cfg.evs = new ++ c2.evs ∧
      (xreduceTail x c2 rule ln lhs off endo).cfg.pos = c2.pos ∧
      (match xreduceTail x c2 rule ln lhs off endo with
       | .cont c3 => PInv p ⟨c3, pend, new.map PEv.x ++ out⟩ L
       | .err c3 => PEOk p (new.map PEv.x ++ out) c3.evs
       | .done _ c3 => PEOk p (new.map PEv.x ++ out) c3.evs) := by
  unfold xreduceTail
  split
  · exact ⟨[], rfl, rfl, by simpa using h.peok hw⟩
  · next evs endo' happ =>
    have hcore := fun q => reduce_core hx h.core hln hoff happ lhs q
    have hgf := reduce_gf hx ht h.core h.gfE hln hinfo hoff happ
    have hout : outNodes (evs.reverse.map PEv.x ++ out) = (nodeEvs evs).reverse ++ outNodes out := by
      rw [outNodes_append, outNodes_mapx, nodeEvs_reverse]
    have herase : eraseIgn (evs.reverse.map PEv.x ++ out) = evs.reverse ++ c2.evs := by
      rw [eraseIgn_append, eraseIgn_mapx]
      have := h.evsEq
      simp only at this
      rw [this]
    have hpe : PEOk p (evs.reverse.map PEv.x ++ out) (evs.reverse ++ c2.evs) :=
      ⟨⟨_, tok_off_le_end hw _, by rw [hout]; exact (hcore 0).evsOK⟩, herase⟩
    have hpinv : ∀ q, PInv p ⟨{ c2 with evs := evs.reverse ++ c2.evs, stack := ⟨lhs, off, endo', q⟩ :: c2.stack.drop ln, state := q }, pend, evs.reverse.map PEv.x ++ out⟩ L := by
      intro q
      refine ⟨h.next_ok, ?_, h.lN, ?_, ?_, h.pend, h.pendOrd, h.noneEmpty, herase⟩
      · show Core (NOff p.inp c2) _ (outNodes (evs.reverse.map PEv.x ++ out))
        rw [hout]; exact hcore q
      · intro e he
        rcases List.mem_cons.1 he with rfl | he
        · exact hgf.1
        · exact h.gfE e (List.mem_of_mem_drop he)
      · show ∀ f ∈ outNodes (evs.reverse.map PEv.x ++ out), _
        rw [hout]
        intro f hf
        rcases List.mem_append.1 hf with hf | hf
        · exact hgf.2 f (List.mem_reverse.1 hf)
        · exact h.gfP f hf
    split
    · exact ⟨evs.reverse, rfl, rfl, hpe⟩
    · split
      · exact ⟨evs.reverse, rfl, rfl, hpe⟩
      · next q _ =>
        split
        · exact ⟨evs.reverse, rfl, rfl, hpe⟩
        · exact ⟨evs.reverse, rfl, rfl, hpinv q⟩

/-! ### one iteration of the layered loop -/

def PStepOK (p : PInput) : PStep → Prop
  | .cont c => ∃ L, PInv p c L
  | .done _ c => PEOk p c.out c.x.evs

/-- the body of `pstep` as a function of the decoded action and the `xstep` result -/
def pstepOf (p : PInput) (c : PCfg) (dec : Option (XCfg × Act)) (r : XStep) : PStep :=
  let c' := stepCfg r
  let newX := c'.evs.take (c'.evs.length - c.x.evs.length)
  let pend1 := c.pending ++ fetched p c.x.pos c'.pos
  let shifted : Option Nat :=
    match dec, r with
    | some (_, .shift _), .cont c'' => (c''.stack.head?).map (·.endo)
    | _, _ => none
  let (rep, keep) := match shifted with
    | some endo => flushSplit pend1 endo
    | none => ([], pend1)
  let out := (rep.reverse.map fun t => PEv.ign t.sym t.off t.endo) ++ newX.map PEv.x ++ c.out
  match r with
  | .cont _ => .cont ⟨c', keep, out⟩
  | .done res _ => .done res ⟨c', keep, out⟩

theorem pstep_def (x : XTables) (p : PInput) (fin : Int) (stop : Bool) (c : PCfg) :
    pstep x p fin stop c = pstepOf p c (xdecode x p.inp c.x) (xstep x p.inp fin stop 0 c.x) := rfl

theorem take_new {α : Type} (new l : List α) : (new ++ l).take ((new ++ l).length - l.length) = new := by
  simp

theorem pstepOf_done (p : PInput) (c : PCfg) (dec : Option (XCfg × Act)) (res : XResult) (c' : XCfg)
    (new : List XEv) (hnew : c'.evs = new ++ c.x.evs) :
    ∃ keep, pstepOf p c dec (.done res c') = .done res ⟨c', keep, new.map PEv.x ++ c.out⟩ := by
  have htake : c'.evs.take (c'.evs.length - c.x.evs.length) = new := by rw [hnew]; exact take_new _ _
  refine ⟨c.pending ++ fetched p c.x.pos c'.pos, ?_⟩
  unfold pstepOf
  simp only [stepCfg, htake]
  rcases dec with _ | ⟨_, a⟩
  · simp
  · cases a <;> simp

theorem pstepOf_cont_noshift (p : PInput) (c : PCfg) (dec : Option (XCfg × Act)) (c' : XCfg)
    (hdec : ∀ c1 q, dec ≠ some (c1, .shift q))
    (new : List XEv) (hnew : c'.evs = new ++ c.x.evs) :
    pstepOf p c dec (.cont c') =
      .cont ⟨c', c.pending ++ fetched p c.x.pos c'.pos, new.map PEv.x ++ c.out⟩ := by
  have htake : c'.evs.take (c'.evs.length - c.x.evs.length) = new := by rw [hnew]; exact take_new _ _
  unfold pstepOf
  simp only [stepCfg, htake]
  rcases dec with _ | ⟨c1, a⟩
  · simp
  · cases a with
    | shift q => exact absurd rfl (hdec c1 q)
    | reduce r => simp
    | error => simp

theorem cF_pinv {p : PInput} (hi : IgnWF p) {c : PCfg} {L : Nat} (h : PInv p c L) {cF : XCfg}
    (hcF : cF = c.x ∨ cF = (c.x.fetch p.inp).1) :
    PInv p ⟨cF, c.pending ++ fetched p c.x.pos cF.pos, c.out⟩ L := by
  rcases hcF with rfl | rfl
  · simp only [fetched_self, List.append_nil]; exact h
  · exact pinv_fetch hi h

theorem pstep_ok {x : XTables} (hx : XWF x) (ht : TrimAll x) {p : PInput} (hw : InputWF p.inp) (hi : IgnWF p)
    (hr : x.recovering = false) (fin : Int) (stop : Bool) {c : PCfg} {L : Nat} (h : PInv p c L) :
    PStepOK p (pstep x p fin stop c) := by
  rw [pstep_def, xstep_pre]
  unfold xpre
  have onErr : ∀ c3 : XCfg, onError x p.inp fin stop c3 =
      .done (.syntaxError (c3.fetch p.inp).2.off (c3.fetch p.inp).2.endo) (c3.fetch p.inp).1 :=
    fun c3 => onError_eq_norec p.inp fin stop c3 hr
  cases hd : xdecode x p.inp c.x with
  | none =>
    simp only [XPre.run]
    obtain ⟨keep, hk⟩ := pstepOf_done p c none .panic c.x [] rfl
    rw [hk]
    simpa [PStepOK] using h.peok hw
  | some pr =>
    obtain ⟨c1, a⟩ := pr
    have hc1 := xdecode_cases hd
    have hev1 : c1.evs = c.x.evs := xdecode_evs hd
    have hp1 := cF_pinv hi h hc1
    cases a with
    | error =>
      simp only
      -- xerrorPre with cancelAt = 0, then the error exit of a parser without recovery
      have : ∃ c3 : XCfg, (xerrorPre x 0 c1).run (onError x p.inp fin stop) =
          .done (.syntaxError (c3.fetch p.inp).2.off (c3.fetch p.inp).2.endo) (c3.fetch p.inp).1 ∧ c3.evs = c1.evs := by
        unfold xerrorPre
        split
        · split
          · next hph => exact absurd hph (not_pollHit_zero c1)
          · exact ⟨{ c1 with shiftCounter := c1.shiftCounter + 1 }, by simp only [XPre.run]; exact onErr _, rfl⟩
        · exact ⟨c1, by simp only [XPre.run]; exact onErr _, rfl⟩
      obtain ⟨c3, hrun, hev3⟩ := this
      rw [hrun]
      obtain ⟨keep, hk⟩ := pstepOf_done p c (some (c1, .error)) _ (c3.fetch p.inp).1 []
        (by rw [fetch_evs, hev3, hev1]; rfl)
      rw [hk]
      simpa [PStepOK, fetch_evs, hev3, hev1] using h.peok hw
    | shift q =>
      simp only
      unfold xshiftPre
      split
      · next hph => exact absurd hph.2 (not_pollHit_zero c1)
      · split
        · simp only [XPre.run]
          obtain ⟨keep, hk⟩ := pstepOf_done p c (some (c1, .shift q)) .panic c1 [] (by rw [hev1]; rfl)
          rw [hk]
          simpa [PStepOK, hev1] using h.peok hw
        · next tk htk =>
          simp only [XPre.run]
          have hsh := pinv_shift hw hi hp1 htk q (c1.recovering - 1) (if x.cancellable then c1.shiftCounter + 1 else c1.shiftCounter)
          have hall : ∀ t ∈ c.pending ++ fetched p c.x.pos c1.pos, t.endo ≤ tk.endo := by
            intro t ht'
            have := (hp1.pend t ht').2.2
            have hf := next_facts hw hp1.next_ok htk
            simp only at this hf
            omega
          have : pstepOf p c (some (c1, .shift q))
              (.cont { c1 with stack := ⟨tk.sym, tk.off, tk.endo, q⟩ :: c1.stack, state := q, next := if tk.sym ≠ 0 then none else c1.next, recovering := c1.recovering - 1, shiftCounter := if x.cancellable then c1.shiftCounter + 1 else c1.shiftCounter }) =
              .cont ⟨{ c1 with stack := ⟨tk.sym, tk.off, tk.endo, q⟩ :: c1.stack, state := q, next := if tk.sym ≠ 0 then none else c1.next, recovering := c1.recovering - 1, shiftCounter := if x.cancellable then c1.shiftCounter + 1 else c1.shiftCounter },
                [], ((c.pending ++ fetched p c.x.pos c1.pos).reverse.map fun t => PEv.ign t.sym t.off t.endo) ++ c.out⟩ := by
            unfold pstepOf
            simp only [stepCfg, List.head?_cons, Option.map_some, hev1, Nat.sub_self, List.take_zero,
              List.map_nil, List.append_nil, flush_all _ _ hall]
          rw [this]
          exact ⟨tk.endo, hsh⟩
    | reduce rule =>
      simp only
      unfold xreducePre
      split
      · next lnI lhs hg1 hg2 =>
        split
        · simp only [XPre.run]
          obtain ⟨keep, hk⟩ := pstepOf_done p c (some (c1, .reduce rule)) .panic c1 [] (by rw [hev1]; rfl)
          rw [hk]
          simpa [PStepOK, hev1] using h.peok hw
        · next hle =>
          -- the configuration after all `fetchNext` calls of this iteration
          have key : ∀ (c2 : XCfg), (c2 = c.x ∨ c2 = (c.x.fetch p.inp).1) → ∀ (off endo : Nat),
              (if lnI.toNat = 0 then off = NOff p.inp c2 ∧ endo = NOff p.inp c2
               else off = (((c2.stack.take lnI.toNat).getLast?.map (·.off)).getD 0) ∧
                    endo = (((c2.stack.take lnI.toNat).head?.map (·.endo)).getD 0)) →
              lnI.toNat ≤ c2.stack.length →
              PStepOK p (pstepOf p c (some (c1, .reduce rule))
                ((xreduceTail x c2 rule lnI.toNat lhs off endo).run (onError x p.inp fin stop))) := by
            intro c2 hc2 off endo hoff hln
            have hp2 := cF_pinv hi h hc2
            have hev2 : c2.evs = c.x.evs := by
              rcases hc2 with rfl | rfl
              · rfl
              · exact fetch_evs _ _
            obtain ⟨new, hnew, hpos, hres⟩ := reduceTail_pinv hx ht hw hp2 hln
              (fun hpos => rule_info ht hg1 hpos) hoff (rule := rule) (lhs := lhs)
            rw [hev2] at hnew
            cases hR : xreduceTail x c2 rule lnI.toNat lhs off endo with
            | cont c3 =>
              rw [hR] at hnew hpos hres
              simp only [XPre.run, XPre.cfg] at hnew hpos hres ⊢
              rw [pstepOf_cont_noshift p c _ c3 (by intro _ _ hh; cases hh) new hnew, hpos]
              exact ⟨L, hres⟩
            | done res c3 =>
              rw [hR] at hnew hres
              simp only [XPre.run, XPre.cfg] at hnew hres ⊢
              obtain ⟨keep, hk⟩ := pstepOf_done p c (some (c1, .reduce rule)) res c3 new hnew
              rw [hk]
              exact hres
            | err c3 =>
              rw [hR] at hnew hres
              simp only [XPre.run, XPre.cfg] at hnew hres ⊢
              rw [onErr]
              obtain ⟨keep, hk⟩ := pstepOf_done p c (some (c1, .reduce rule)) _ (c3.fetch p.inp).1 new
                (by rw [fetch_evs]; exact hnew)
              rw [hk]
              simp only [PStepOK, fetch_evs]
              exact hres
          split
          · next h0 =>
            have hc2 : (c1.fetch p.inp).1 = c.x ∨ (c1.fetch p.inp).1 = (c.x.fetch p.inp).1 := by
              rcases hc1 with rfl | rfl
              · exact .inr rfl
              · exact .inr (fetch_idem _ _)
            refine key _ hc2 _ _ ?_ (by rw [h0]; exact Nat.zero_le _)
            rw [if_pos h0, fetch_tok hp1.next_ok]
            exact ⟨rfl, rfl⟩
          · next h0 =>
            refine key c1 hc1 _ _ ?_ (by omega)
            rw [if_neg h0]
            exact ⟨rfl, rfl⟩
      · simp only [XPre.run]
        obtain ⟨keep, hk⟩ := pstepOf_done p c (some (c1, .reduce rule)) .panic c1 [] (by rw [hev1]; rfl)
        rw [hk]
        simpa [PStepOK, hev1] using h.peok hw

/-! ### the loop -/

/-- the layered listener stream in time order -/
def pstream (c : PCfg) : List TreeBuilder.Ev := outNodes c.out.reverse

theorem prunLoop_ok {x : XTables} (hx : XWF x) (ht : TrimAll x) {p : PInput} (hw : InputWF p.inp) (hi : IgnWF p)
    (hr : x.recovering = false) (fin : Int) (stop : Bool) :
    ∀ (fuel : Nat) (c : PCfg) (L : Nat), PInv p c L →
      PEOk p (prunLoop x p fin stop fuel c).2.out (prunLoop x p fin stop fuel c).2.x.evs := by
  intro fuel
  induction fuel with
  | zero => intro c L h; exact h.peok hw
  | succ n ih =>
    intro c L h
    unfold prunLoop
    split
    · exact h.peok hw
    · have := pstep_ok hx ht hw hi hr fin stop h
      split
      · next c' hc' =>
        rw [hc'] at this
        obtain ⟨L', h'⟩ := this
        exact ih c' L' h'
      · next r c' hc' => rw [hc'] at this; exact this

theorem peok_wellNested {p : PInput} {c : PCfg} (h : PEOk p c.out c.x.evs) :
    WellNested p.inp.endOff (pstream c) := by
  obtain ⟨⟨N, hN, hev⟩, _⟩ := h
  unfold pstream
  rw [outNodes_reverse]
  refine ⟨?_, ?_⟩
  · intro e he
    have := hev.evb e (List.mem_reverse.1 he)
    omega
  · rw [List.pairwise_reverse]
    exact hev.pw

theorem prun_wellNested {x : XTables} (hx : XWF x) (ht : TrimAll x) {p : PInput} (hw : InputWF p.inp)
    (hi : IgnWF p) (hr : x.recovering = false) (input : Nat) (stop : Bool) (fuel : Nat) :
    WellNested p.inp.endOff (pstream (prun x p input stop fuel).2) := by
  unfold prun
  split
  · exact peok_wellNested ((pinv_init hi _).peok hw)
  · exact peok_wellNested (prunLoop_ok hx ht hw hi hr _ stop fuel _ 0 (pinv_init hi _))

/-! ### projection: the layer does not disturb the underlying run (any tables, any input) -/

theorem pstepOf_x (p : PInput) (c : PCfg) (dec : Option (XCfg × Act)) (r : XStep) :
    match pstepOf p c dec r with
    | .cont c' => r = .cont c'.x
    | .done res c' => r = .done res c'.x := by
  unfold pstepOf
  cases r <;> simp [stepCfg]

theorem pstepOf_erase (p : PInput) (c : PCfg) (dec : Option (XCfg × Act)) (r : XStep)
    (hs : c.x.evs <:+ (stepCfg r).evs) (he : eraseIgn c.out = c.x.evs) :
    match pstepOf p c dec r with
    | .cont c' => eraseIgn c'.out = c'.x.evs
    | .done _ c' => eraseIgn c'.out = c'.x.evs := by
  obtain ⟨t, ht⟩ := hs
  have htake : (stepCfg r).evs.take ((stepCfg r).evs.length - c.x.evs.length) = t := by
    rw [← ht]; exact take_new _ _
  cases r with
  | cont c' =>
    simp only [stepCfg] at ht htake
    unfold pstepOf
    simp only [stepCfg, htake, eraseIgn_append, eraseIgn_ign, eraseIgn_mapx, he, List.nil_append]
    exact ht
  | done res c' =>
    simp only [stepCfg] at ht htake
    unfold pstepOf
    simp only [stepCfg, htake, eraseIgn_append, eraseIgn_ign, eraseIgn_mapx, he, List.nil_append]
    exact ht

theorem stepCfg_eq (r : XStep) : stepCfg r = r.cfg := by cases r <;> rfl

theorem prunLoop_proj (x : XTables) (p : PInput) (fin : Int) (stop : Bool) :
    ∀ (fuel : Nat) (c : PCfg), eraseIgn c.out = c.x.evs →
      (prunLoop x p fin stop fuel c).1 = (xrunLoop x p.inp fin stop 0 fuel c.x).1 ∧
      (prunLoop x p fin stop fuel c).2.x = (xrunLoop x p.inp fin stop 0 fuel c.x).2 ∧
      eraseIgn (prunLoop x p fin stop fuel c).2.out = (xrunLoop x p.inp fin stop 0 fuel c.x).2.evs := by
  intro fuel
  induction fuel with
  | zero => intro c he; exact ⟨rfl, rfl, he⟩
  | succ n ih =>
    intro c he
    unfold prunLoop xrunLoop
    split
    · exact ⟨rfl, rfl, he⟩
    · have hx := pstepOf_x p c (xdecode x p.inp c.x) (xstep x p.inp fin stop 0 c.x)
      have hsuf : c.x.evs <:+ (stepCfg (xstep x p.inp fin stop 0 c.x)).evs := by
        rw [stepCfg_eq]; exact (xstep_moves x p.inp fin stop 0 c.x).evs_suffix
      have her := pstepOf_erase p c (xdecode x p.inp c.x) (xstep x p.inp fin stop 0 c.x) hsuf he
      rw [pstep_def]
      cases hps : pstepOf p c (xdecode x p.inp c.x) (xstep x p.inp fin stop 0 c.x) with
      | cont c' =>
        rw [hps] at hx her
        simp only at hx her ⊢
        rw [hx]
        exact ih c' her
      | done res c' =>
        rw [hps] at hx her
        simp only at hx her ⊢
        rw [hx]
        exact ⟨rfl, rfl, by rw [her]⟩

theorem prun_proj (x : XTables) (p : PInput) (input : Nat) (stop : Bool) (fuel : Nat) :
    (prun x p input stop fuel).1 = (xrun x p.inp input stop 0 fuel).1 ∧
    (prun x p input stop fuel).2.x = (xrun x p.inp input stop 0 fuel).2 ∧
    eraseIgn (prun x p input stop fuel).2.out = (xrun x p.inp input stop 0 fuel).2.evs := by
  unfold prun xrun
  cases hfin : x.t.finalStates[input]? with
  | none => exact ⟨rfl, rfl, rfl⟩
  | some fin => exact prunLoop_proj x p fin stop fuel (pinit p input) rfl

end TmVerif.LRXPending
