import TmVerif.Proofs.LexRunNext
import TmVerif.Proofs.LexRunDecode
/-!
Refinement: the loop of the generated `Next` computes what `lex.Tables.Scan` (`scanLoopG`) computes
on the rest of the input, and the hash it accumulates is the `runtimeHash` of the consumed text.
-/
namespace TmVerif.LexRun
open TmVerif.LexTables

/-! ### characters at a position -/

def charBound (sb : Bool) : Nat := if sb then 256 else 0x110000

theorem readChar_lt (sb : Bool) (b : UInt8) (rest : List UInt8) :
    (readChar sb (b :: rest)).1 < (charBound sb : Int) := by
  unfold readChar charBound
  have hb := b.toNat_lt
  cases sb with
  | true => simp only [if_true]; omega
  | false =>
    simp only [Bool.false_eq_true, if_false]
    split
    · rename_i h
      rcases decodeRune_cases b rest h with he | ⟨r, w, he, _, _, _, h5, _⟩
      · rw [he]; simp [runeError]
      · rw [he]; exact h5
    · omega

/-- The look-ahead of a lexer that is not at the end of the input. -/
theorem pinv_char {o : Opts} {v : Variant} {l : Lexer} (h : PInv o v l) (hc : 0 ≤ l.ch) :
    ∃ b rest, l.source.drop l.offset = b :: rest ∧ l.ch = (readChar o.scanBytes (b :: rest)).1 ∧
      l.scanOffset = l.offset + (readChar o.scanBytes (b :: rest)).2 := by
  have hch := h.ch
  have hso := h.so
  unfold peek at hch hso
  cases hd : l.source.drop l.offset with
  | nil => rw [hd] at hch; simp only at hch; omega
  | cons b rest => rw [hd] at hch hso; exact ⟨b, rest, rfl, hch, hso⟩

theorem pinv_eoi {o : Opts} {v : Variant} {l : Lexer} (h : PInv o v l) (hc : l.ch < 0) :
    l.source.drop l.offset = [] :=
  List.drop_eq_nil_of_le (by have := h.ch_neg_iff.mp hc; omega)

/-! ### the accumulated hash -/

structure HInv (sb : Bool) (s : Scan) (l : Lexer) : Prop where
  tok_le : l.tokenOffset ≤ l.offset
  bd : Boundary sb (l.source.drop l.tokenOffset) (l.offset - l.tokenOffset)
  hash : s.hash = runtimeHash sb (slice l.source l.tokenOffset l.offset)
  bk : s.backup = -1 ∨ s.backupHash = runtimeHash sb (slice l.source l.tokenOffset s.backupOffset)

theorem hinv_consume (o : Opts) (v : Variant) (s s1 : Scan) (l : Lexer) (hp : PInv o v l)
    (h : HInv o.scanBytes s l) (hc : 0 ≤ l.ch) (hs1 : s1.hash = s.hash)
    (hbk : s1.backup = -1 ∨ s1.backupHash = runtimeHash o.scanBytes (slice l.source l.tokenOffset s1.backupOffset)) :
    HInv o.scanBytes { s1 with hash := hashStep s1.hash l.ch } (consume o v l) := by
  obtain ⟨_, p2, p3, p4, p5, p6, _⟩ := consume_pinv o v l hp hc
  obtain ⟨b, rest, hd, hch, hso⟩ := pinv_char hp hc
  have htl := h.tok_le
  have hdd : (l.source.drop l.tokenOffset).drop (l.offset - l.tokenOffset) = b :: rest := by
    rw [List.drop_drop, Nat.add_sub_cancel' htl]; exact hd
  obtain ⟨e1, _⟩ := chars_take_extend o.scanBytes h.bd b rest hdd
  have e2 := runtimeHash_extend o.scanBytes h.bd b rest hdd
  have hk : l.offset - l.tokenOffset + (readChar o.scanBytes (b :: rest)).2 = l.scanOffset - l.tokenOffset := by
    rw [hso]; omega
  rw [hk] at e1 e2
  refine ⟨by rw [p6, p2]; omega, by rw [p5, p6, p2]; exact e1, ?_, ?_⟩
  · show hashStep s1.hash l.ch = _
    rw [p5, p6, p2, hs1, h.hash, hch]
    unfold slice
    exact e2.symm
  · rw [p5, p6]; exact hbk

theorem loop_hinv (sp : Spec) : ∀ (fuel : Nat) (s : Scan) (l : Lexer) (s' : Scan) (l' : Lexer),
    PInv sp.opts sp.v l → HInv sp.opts.scanBytes s l → loop sp fuel s l = some (s', l') →
    HInv sp.opts.scanBytes s' l' ∧ PInv sp.opts sp.v l' := by
  intro fuel
  induction fuel with
  | zero => intro s l s' l' _ _ h; simp [loop] at h
  | succ fuel ih =>
    intro s l s' l' hp hh h
    simp only [loop] at h
    split at h
    · simp only [Option.some.injEq, Prod.mk.injEq] at h
      rw [← h.1, ← h.2]; exact ⟨hh, hp⟩
    · split at h
      · -- end of input
        split at h
        · exact nomatch h
        · rename_i st hst
          split at h
          · simp only [takeCheckpoint] at h
            cases hbt : getI sp.t.backtrack (-1 - st) with
            | none => rw [hbt] at h; simp at h
            | some bt =>
              rw [hbt] at h
              simp only [Option.map_some] at h
              exact ih _ _ s' l' hp (by exact ⟨hh.tok_le, hh.bd, hh.hash, Or.inr hh.hash⟩) h
          · exact ih _ _ s' l' hp (by exact ⟨hh.tok_le, hh.bd, hh.hash, hh.bk⟩) h
      · rename_i hch
        have hc : 0 ≤ l.ch := by omega
        split at h
        · exact nomatch h
        · rename_i st hst
          split at h
          · split at h
            · exact nomatch h
            · rename_i s1 hs1
              have hpc := (consume_pinv sp.opts sp.v l hp hc).1
              split at hs1
              · simp only [takeCheckpoint] at hs1
                cases hbt : getI sp.t.backtrack (-1 - st) with
                | none => rw [hbt] at hs1; simp at hs1
                | some bt =>
                  rw [hbt] at hs1
                  simp only [Option.map_some, Option.some.injEq] at hs1
                  subst hs1
                  exact ih _ _ s' l' hpc (by exact hinv_consume sp.opts sp.v s _ l hp hh hc rfl (Or.inr hh.hash)) h
              · simp only [Option.some.injEq] at hs1
                subst hs1
                exact ih _ _ s' l' hpc (by exact hinv_consume sp.opts sp.v s _ l hp hh hc rfl hh.bk) h
          · exact ih _ _ s' l' hp (by exact ⟨hh.tok_le, hh.bd, hh.hash, hh.bk⟩) h

/-! ### the loop invariant along single steps -/

theorem linv_char_final (sp : Spec) (w : WFacts sp) (s : Scan) (l : Lexer) (e : Int) (inv : LInv sp s l)
    (hs0 : 0 ≤ s.state) (hch0 : 0 ≤ l.ch)
    (he : getI sp.t.dfa (s.state * sp.t.numSymbols + classOf sp.cm l.ch) = some e)
    (hle : e ≤ actionStart sp.t) : LInv sp { s with state := e } l := by
  obtain ⟨c0, c1⟩ := classOf_range sp.cm sp.t.numSymbols w.cm_ok l.ch
  have hneg : e < 0 := by have := actionStart_neg sp.t; omega
  refine ⟨inv.pinv, inv.tok_le, by show e < _; omega, fun _ => finalOk_of_dfa sp w _ e he hle, inv.bk, ?_⟩
  intro heq
  obtain ⟨hb, _, h3⟩ := inv.fresh heq
  refine ⟨hb, fun _ => ?_, fun h0 => absurd h0 (by show ¬ 0 ≤ e; omega)⟩
  show e = invCode sp
  rcases (h3 hs0).1 hch0 _ c0 c1 e he with h | h
  · omega
  · exact h

theorem linv_char_ckpt (sp : Spec) (w : WFacts sp) (s : Scan) (l : Lexer) (e : Int) (inv : LInv sp s l)
    (hs0 : 0 ≤ s.state) (hch0 : 0 ≤ l.ch)
    (he : getI sp.t.dfa (s.state * sp.t.numSymbols + classOf sp.cm l.ch) = some e)
    (hgt : e > actionStart sp.t) (hneg : e < 0) (bt : Checkpoint) (hbt : getI sp.t.backtrack (-1 - e) = some bt) :
    LInv sp ⟨bt.nextState, hashStep s.hash l.ch, bt.action, l.offset, s.hash⟩ (consume sp.opts sp.v l) ∧
    l.tokenOffset < l.offset ∧ 0 ≤ bt.action ∧ 0 ≤ bt.nextState := by
  obtain ⟨c0, c1⟩ := classOf_range sp.cm sp.t.numSymbols w.cm_ok l.ch
  obtain ⟨p1, p2, p3, p4, p5, p6, p7, p8, p9⟩ := consume_pinv sp.opts sp.v l inv.pinv hch0
  obtain ⟨b1, b2, b3⟩ := w.bt_ok _ bt hbt
  have htl := inv.tok_le
  have hne : l.offset ≠ l.tokenOffset := by
    intro heq
    obtain ⟨_, _, h3⟩ := inv.fresh heq
    have := (h3 hs0).1 hch0 _ c0 c1 e he
    have := invCode_le sp w
    omega
  have hlt : l.tokenOffset < l.offset := by omega
  refine ⟨⟨p1, by rw [p6, p2]; omega, b2, fun h => absurd h (by show ¬ bt.nextState < 0; omega),
      Or.inr ⟨b3, by rw [p6]; exact hlt, by rw [p2]; exact Nat.le_of_lt p3⟩, ?_⟩, hlt, (actOk_facts sp _ b3).1, b1⟩
  intro heq; rw [p6, p2] at heq; omega

theorem linv_char_move (sp : Spec) (w : WFacts sp) (s : Scan) (l : Lexer) (e : Int) (inv : LInv sp s l)
    (hch0 : 0 ≤ l.ch)
    (he : getI sp.t.dfa (s.state * sp.t.numSymbols + classOf sp.cm l.ch) = some e)
    (hnn : ¬ e < 0) :
    LInv sp { s with state := e, hash := hashStep s.hash l.ch } (consume sp.opts sp.v l) := by
  obtain ⟨p1, p2, p3, p4, p5, p6, p7, p8, p9⟩ := consume_pinv sp.opts sp.v l inv.pinv hch0
  have htl := inv.tok_le
  refine ⟨p1, by rw [p6, p2]; omega, (w.dfa_ok _ e he).1, fun h => absurd h (by show ¬ e < 0; omega), ?_, ?_⟩
  · rcases inv.bk with hb | ⟨hb1, hb2, hb3⟩
    · exact Or.inl hb
    · exact Or.inr ⟨hb1, by rw [p6]; exact hb2, by rw [p2]; show s.backupOffset ≤ _; omega⟩
  · intro heq; rw [p6, p2] at heq; omega

theorem linv_eoi_final (sp : Spec) (w : WFacts sp) (s : Scan) (l : Lexer) (e : Int) (inv : LInv sp s l)
    (hs0 : 0 ≤ s.state) (hch : l.ch < 0)
    (he : getI sp.t.dfa (s.state * sp.t.numSymbols) = some e) (hle : e ≤ actionStart sp.t) :
    LInv sp { s with state := e } l := by
  have hneg : e < 0 := by have := actionStart_neg sp.t; omega
  refine ⟨inv.pinv, inv.tok_le, by show e < _; omega, fun _ => finalOk_of_dfa sp w _ e he hle, inv.bk, ?_⟩
  intro heq
  obtain ⟨hb, _, h3⟩ := inv.fresh heq
  refine ⟨hb, fun _ => ?_, fun h0 => absurd h0 (by show ¬ 0 ≤ e; omega)⟩
  obtain ⟨f', hf'⟩ := (h3 hs0).2 hch
  cases f' with
  | zero => simp [eoiChainNC] at hf'
  | succ f' =>
    simp only [eoiChainNC, he, hle, if_true, Option.some.injEq] at hf'
    show e = invCode sp
    unfold invCode; omega

/-! ### the loop against `Tables.Scan` -/

/-- The generated class lookup agrees with the symbol map of the tables on every character the lexer
can read (`DriverC11.classMapOk`, an enumeration of all 0x110000 runes / 256 bytes). -/
def ClassOk (sp : Spec) : Prop :=
  ∀ r : Nat, r < charBound sp.opts.scanBytes → symOf sp.t (r : Int) = some (classOf sp.cm (r : Int))

theorem classOk_of (sp : Spec) (h : classMapOkUpTo sp (charBound sp.opts.scanBytes) = true) : ClassOk sp := by
  intro r hr
  simp only [classMapOkUpTo, List.all_eq_true, List.mem_range, beq_iff_eq] at h
  exact h r hr

theorem eoiFinal_spec (sp : Spec) (h : eoiFinal sp.t = true) (q : Int) (hq0 : 0 ≤ q)
    (hq : q < (numStates sp.t : Int)) (e : Int) (he : getI sp.t.dfa (q * sp.t.numSymbols) = some e) :
    e ≤ actionStart sp.t := by
  simp only [eoiFinal, List.all_eq_true, List.mem_range] at h
  have := h q.toNat (by omega)
  rw [show ((q.toNat : Nat) : Int) = q by omega, he] at this
  simpa using this

/-- The backup variables of the loop against the `size/action` results of `Scan`. -/
def BRel (s : Scan) (tok size : Nat) (action : Int) : Prop :=
  (s.backup = -1 ∧ size = 0) ∨ (0 ≤ s.backup ∧ size = s.backupOffset - tok ∧ 0 < size ∧ action = s.backup)

/-- What `Scan` returns, read off the final loop state. -/
def scanResult (sp : Spec) (s' : Scan) (l' : Lexer) : Nat × Int :=
  if actionStart sp.t - s'.state = invalidAct sp ∧ 0 ≤ s'.backup then (s'.backupOffset - l'.tokenOffset, s'.backup)
  else (l'.offset - l'.tokenOffset, actionStart sp.t - s'.state)

theorem loop_exit (sp : Spec) (fuel : Nat) (s : Scan) (l : Lexer) (s' : Scan) (l' : Lexer)
    (hneg : s.state < 0) (h : loop sp fuel s l = some (s', l')) : s' = s ∧ l' = l := by
  cases fuel with
  | zero => simp [loop] at h
  | succ fuel =>
    simp only [loop, hneg, if_true, Option.some.injEq, Prod.mk.injEq] at h
    exact ⟨h.1.symm, h.2.symm⟩

theorem scan_final (sp : Spec) (s : Scan) (l : Lexer) (st : Int) (size : Nat) (action : Int)
    (hb : BRel s l.tokenOffset size action) :
    (if actionStart sp.t - invalidAct sp = st ∧ size > 0 then some (size, action)
      else some (l.offset - l.tokenOffset, actionStart sp.t - st)) =
    some (scanResult sp { s with state := st } l) := by
  unfold scanResult
  simp only
  rcases hb with ⟨b1, b2⟩ | ⟨b1, b2, b3, b4⟩
  · have h1 : ¬ (actionStart sp.t - invalidAct sp = st ∧ size > 0) := by omega
    have h2 : ¬ (actionStart sp.t - st = invalidAct sp ∧ 0 ≤ s.backup) := by omega
    simp only [h1, h2, if_false]
  · by_cases hst : actionStart sp.t - invalidAct sp = st
    · have h1 : actionStart sp.t - invalidAct sp = st ∧ size > 0 := ⟨hst, b3⟩
      have h2 : actionStart sp.t - st = invalidAct sp ∧ 0 ≤ s.backup := ⟨by omega, b1⟩
      subst b2 b4
      simp only [h1, h2, and_self, if_true]
    · have h1 : ¬ (actionStart sp.t - invalidAct sp = st ∧ size > 0) := fun h => hst h.1
      have h2 : ¬ (actionStart sp.t - st = invalidAct sp ∧ 0 ≤ s.backup) := fun h => hst (by omega)
      simp only [h1, h2, if_false]

/-- **The loop of `Next` is `Tables.Scan`.** -/
theorem loop_scan (sp : Spec) (w : WFacts sp) (hc : ClassOk sp) (he : eoiFinal sp.t = true) :
    ∀ (fuel : Nat) (s : Scan) (l : Lexer) (s' : Scan) (l' : Lexer), LInv sp s l → 0 ≤ s.state →
    loop sp fuel s l = some (s', l') → ∀ (size : Nat) (action : Int), BRel s l.tokenOffset size action →
    scanLoopG sp.t (invalidAct sp) (chars sp.opts.scanBytes (l.source.drop l.offset))
      (l.offset - l.tokenOffset) s.state size action = some (scanResult sp s' l') := by
  intro fuel
  induction fuel with
  | zero => intro s l s' l' _ _ h; simp [loop] at h
  | succ fuel ih =>
    intro s l s' l' inv hs0 h size action hb
    have hns : ¬ s.state < 0 := by omega
    simp only [loop, hns, if_false] at h
    by_cases hch : l.ch < 0
    · -- end of input
      simp only [hch, if_true] at h
      rw [pinv_eoi inv.pinv hch, chars_nil]
      simp only [scanLoopG]
      cases hst : getI sp.t.dfa (s.state * sp.t.numSymbols) with
      | none => rw [hst] at h; exact nomatch h
      | some st =>
        rw [hst] at h
        simp only at h ⊢
        have hle := eoiFinal_spec sp he s.state hs0 inv.st_lt st hst
        have hnc : ¬ (st > actionStart sp.t ∧ st < 0) := by omega
        simp only [hnc, if_false] at h
        have hneg : st < 0 := by have := actionStart_neg sp.t; omega
        obtain ⟨e1, e2⟩ := loop_exit sp fuel _ l s' l' hneg h
        rw [e1, e2]
        exact scan_final sp s l st size action hb
    · have hch0 : 0 ≤ l.ch := by omega
      simp only [hch, if_false] at h
      obtain ⟨b, rest, hd, hchr, hso⟩ := pinv_char inv.pinv hch0
      obtain ⟨p1, p2, p3, p4, p5, p6, _⟩ := consume_pinv sp.opts sp.v l inv.pinv hch0
      have htl := inv.tok_le
      rw [hd, chars_cons]
      have hsym : symOf sp.t (readChar sp.opts.scanBytes (b :: rest)).1 = some (classOf sp.cm l.ch) := by
        rw [← hchr]
        have hlt := readChar_lt sp.opts.scanBytes b rest
        rw [← hchr] at hlt
        have := hc l.ch.toNat (by omega)
        rw [show ((l.ch.toNat : Nat) : Int) = l.ch by omega] at this
        exact this
      have hrestChars : (b :: rest).drop (readChar sp.opts.scanBytes (b :: rest)).2 =
          (consume sp.opts sp.v l).source.drop (consume sp.opts sp.v l).offset := by
        rw [p5, p2, hso, ← hd, List.drop_drop]
      have hidx : l.offset - l.tokenOffset + (readChar sp.opts.scanBytes (b :: rest)).2 =
          (consume sp.opts sp.v l).offset - (consume sp.opts sp.v l).tokenOffset := by
        rw [p2, p6, hso]; omega
      simp only [scanLoopG, hsym]
      cases hst : getI sp.t.dfa (s.state * sp.t.numSymbols + classOf sp.cm l.ch) with
      | none => rw [hst] at h; exact nomatch h
      | some st =>
        rw [hst] at h
        simp only at h ⊢
        by_cases hgt : st > actionStart sp.t
        · simp only [hgt, if_true] at h
          by_cases hneg : st < 0
          · -- checkpoint
            simp only [hneg, if_true, takeCheckpoint] at h ⊢
            cases hbt : getI sp.t.backtrack (-1 - st) with
            | none => rw [hbt] at h; simp at h
            | some bt =>
              rw [hbt] at h
              simp only [Option.map_some] at h ⊢
              obtain ⟨i1, i2, i3, i4⟩ := linv_char_ckpt sp w s l st inv hs0 hch0 hst hgt hneg bt hbt
              have := ih _ _ s' l' i1 i4 h (l.offset - l.tokenOffset) bt.action
                (Or.inr ⟨i3, by rw [p6], by omega, rfl⟩)
              rw [hrestChars, hidx]
              simp only [hgt, if_true]
              exact this
          · -- plain transition
            simp only [hneg, if_false] at h ⊢
            have i1 := linv_char_move sp w s l st inv hch0 hst hneg
            have := ih _ _ s' l' i1 (by show 0 ≤ st; omega) h size action (by rw [p6]; exact hb)
            rw [hrestChars, hidx]
            exact this
        · -- final action
          simp only [hgt, if_false] at h
          have hneg : st < 0 := by have := actionStart_neg sp.t; omega
          obtain ⟨e1, e2⟩ := loop_exit sp fuel _ l s' l' hneg h
          rw [e1, e2]
          simp only [hneg, if_true, hgt, if_false]
          exact scan_final sp s l st size action hb

/-! ### keyword specialisation: hash switch = lookup by text -/

def IsAscii (s : List UInt8) : Prop := ∀ b ∈ s, b.toNat < 0x80

theorem decodeAll_ascii (n : Nat) : ∀ (s : List UInt8), IsAscii s → decodeAll true n s = decodeAll false n s := by
  induction n with
  | zero => intro s _; rfl
  | succ n ih =>
    intro s hs
    cases s with
    | nil => rfl
    | cons b rest =>
      have hb : ¬ b.toNat ≥ 0x80 := by have := hs b (by simp); omega
      have hr : readChar true (b :: rest) = readChar false (b :: rest) := by
        simp [readChar, hb]
      simp only [decodeAll, hr]
      have hw : (readChar false (b :: rest)).2 = 1 := by simp [readChar, hb]
      rw [hw]
      simp only [List.drop_succ_cons, List.drop_zero]
      rw [ih rest (fun x hx => hs x (by simp [hx]))]

/-- The hash the generated lexer accumulates over a text equals the hash `asStringSwitch` computed for
the same text: always in rune mode, always once `stringHash` hashes bytes for byte-mode lexers, and
for ASCII texts in any case. -/
theorem runtime_hash_eq (sb hashFix : Bool) (text : List UInt8)
    (h : sb = false ∨ hashFix = true ∨ IsAscii text) :
    runtimeHash sb text = stringHash (hashFix && sb) text := by
  unfold stringHash
  cases sb with
  | false => simp
  | true =>
    cases hashFix with
    | true => rfl
    | false =>
      rcases h with h | h | h
      · exact nomatch h
      · exact nomatch h
      · simp only [Bool.false_and, runtimeHash, decodeAll_ascii _ text h]

/-- The generator's keyword hash matches the run-time hash: rune mode, or the fixed generator, or
ASCII-only keywords. -/
def HashOk (sp : Spec) : Prop :=
  sp.opts.scanBytes = false ∨ sp.v.hashFix = true ∨
  ∀ a m, (a, m) ∈ sp.classActions → ∀ k x, (k, x) ∈ m → IsAscii k

theorem classSwitch_eq_spec (sp : Spec) (hk : HashOk sp) (act : Int) (text : List UInt8) :
    classSwitch sp act (runtimeHash sp.opts.scanBytes text) text = classSpec sp act text := by
  unfold classSwitch classSpec
  split
  · rfl
  · rename_i a' m hf
    obtain ⟨hm, _⟩ := find_classAction sp act a' m hf
    cases hl : mapLookup m text with
    | some x =>
      have hmem := mapLookup_some_mem m text x hl
      have hh : sp.opts.scanBytes = false ∨ sp.v.hashFix = true ∨ IsAscii text := by
        rcases hk with h | h | h
        · exact Or.inl h
        · exact Or.inr (Or.inl h)
        · exact Or.inr (Or.inr (h a' m hm text x hmem))
      rw [runtime_hash_eq _ _ text hh]
      have := lookup_complete (genHash sp) m text x hl
      unfold genHash at this ⊢
      rw [this]
    | none =>
      cases hl' : (asStringSwitch (genHash sp) m).lookup (runtimeHash sp.opts.scanBytes text) text with
      | none => rfl
      | some x => rw [lookup_sound _ m _ text x hl'] at hl; exact nomatch hl

/-! ### one pass of `Next` against the specification -/

/-- The observable part of an outcome. -/
def absOut : Outcome → SpecOutcome
  | .restart l' => .restart l'.offset
  | .token tok l' => .token tok l'.tokenOffset l'.offset

theorem finish_valid_eq (sp : Spec) (w : WFacts sp) (k : Nat) (act : Int) (s : Scan) (l : Lexer)
    (ha : actOk sp [] act = true) :
    ∃ tok, tokenOf sp (classSwitch sp act s.hash l.text) = some tok ∧
      isInvalid sp (classSwitch sp act s.hash l.text) = false ∧
      finish sp (k + 1) act s l = some (if sp.spaceActions.contains (classSwitch sp act s.hash l.text) then
        Outcome.restart l else Outcome.token tok l) := by
  have hok := classSwitch_ok sp w act s.hash l.text ha
  obtain ⟨_, hinv, tok, htok, _⟩ := actOk_facts sp _ hok
  refine ⟨tok, htok, hinv, ?_⟩
  rw [finish]
  simp only [htok, hinv, Bool.false_eq_true, if_false]
  split <;> rfl

theorem specOnce_valid (sp : Spec) (src : List UInt8) (state : Int) (off size : Nat) (act : Int)
    (hscan : scanG sp.t (invalidAct sp) sp.opts.scanBytes (startIndex sp state) (src.drop off) = some (size, act))
    (hinv : isInvalid sp act = false) :
    specOnce sp src state off =
      match tokenOf sp (classSpec sp act (slice src off (off + size))) with
      | none => none
      | some tok =>
        if sp.spaceActions.contains (classSpec sp act (slice src off (off + size))) then some (.restart (off + size))
        else some (.token tok off (off + size)) := by
  unfold specOnce
  simp only [hscan, hinv, Bool.false_eq_true, if_false]
  rfl

theorem scanG_eq (sp : Spec) (l : Lexer) (st : Int) (hst : startState sp l = some st) (text : List UInt8) :
    scanG sp.t (invalidAct sp) sp.opts.scanBytes (startIndex sp l.state) text =
      scanLoopG sp.t (invalidAct sp) (chars sp.opts.scanBytes text) 0 st 0 0 := by
  unfold scanG startIndex
  unfold startState at hst
  cases hm : sp.multiState <;> simp only [hm, if_true, Bool.false_eq_true, if_false] at hst ⊢ <;> rw [hst] <;> rfl

/-- **One pass of the generated `Next` is one step of the specification**: scan with `Tables.Scan`,
"no match" → invalid token (one character when nothing was consumed, EOI at the end), otherwise the
keyword of a class rule by its text, space rules restart. -/
theorem nextOnce_refines (sp : Spec) (w : WFacts sp) (hc : ClassOk sp) (he : eoiFinal sp.t = true)
    (hk : HashOk sp) (l : Lexer) (hp : PInv sp.opts sp.v l) (hv : ValidState sp l) (out : Outcome)
    (h : nextOnce sp l = some out) :
    specOnce sp l.source l.state l.offset = some (absOut out) := by
  obtain ⟨st, hst, hmem⟩ := startState_ok sp w l hv
  have hst' : startState sp (beginToken sp.opts l) = some st := hst
  obtain ⟨hrow, heoi⟩ := rowOk_of_start sp w st (w.start_ok st hmem)
  have hsm : 0 ≤ st ∧ st < (numStates sp.t : Int) := by
    unfold startState at hst
    split at hst <;> exact w.sm_ok _ st hst
  have inv : LInv sp ⟨st, 0, -1, 0, 0⟩ (beginToken sp.opts l) :=
    ⟨beginToken_pinv _ _ l hp, Nat.le_refl _, hsm.2, fun h => absurd h (by show ¬ st < 0; omega), Or.inl rfl,
      fun _ => ⟨rfl, fun h => absurd h (by show ¬ st < 0; omega), fun _ => ⟨fun _ => hrow, fun _ => heoi⟩⟩⟩
  obtain ⟨s', l2, h1, h2, h3, h4⟩ := loop_total sp w (loopFuel sp (beginToken sp.opts l)) _ _ inv (Nat.le_refl _)
  -- the tokenOffset of the pass
  have htok : l2.tokenOffset = l.offset := h4.tokenOffset
  have hsrc : l2.source = l.source := h4.source
  have hinit : HInv sp.opts.scanBytes ⟨st, 0, -1, 0, 0⟩ (beginToken sp.opts l) := by
    refine ⟨Nat.le_refl _, ?_, ?_, Or.inl rfl⟩
    · show Boundary _ _ (l.offset - l.offset)
      rw [Nat.sub_self]; exact Boundary.zero _
    · show (0 : Nat) = runtimeHash _ (slice l.source l.offset l.offset)
      unfold slice; rw [Nat.sub_self]; rfl
  obtain ⟨hh, _⟩ := loop_hinv sp _ _ _ s' l2 (beginToken_pinv _ _ l hp) hinit h1
  have hscan := loop_scan sp w hc he _ _ _ s' l2 inv hsm.1 h1 0 0 (Or.inl ⟨rfl, rfl⟩)
  have hscan' : scanG sp.t (invalidAct sp) sp.opts.scanBytes (startIndex sp l.state) (l.source.drop l.offset) =
      some (scanResult sp s' l2) := by
    rw [scanG_eq sp l st hst]
    have : (beginToken sp.opts l).offset - (beginToken sp.opts l).tokenOffset = 0 := Nat.sub_self _
    rw [this] at hscan
    exact hscan
  -- `nextOnce` is `finish` on the loop result
  have hfin : finish sp 2 (actionStart sp.t - s'.state) s' l2 = some out := by
    unfold nextOnce at h
    simp only [hst', h1] at h
    exact h
  have htl := h2.tok_le
  obtain ⟨_, hfinal⟩ := h2.st_fin h3
  by_cases hact : actionStart sp.t - s'.state = invalidAct sp
  · -- "no match"
    obtain ⟨tok0, htok0, _⟩ := w.inv_tok
    rw [hact, finish] at hfin
    simp only [classSwitch_inv sp w, htok0, (isInvalid_iff sp _).mpr rfl, if_true] at hfin
    by_cases hb : s'.backup ≥ 0
    · -- restore the checkpoint
      rcases h2.bk with hb' | ⟨b1, b2, b3⟩
      · omega
      · obtain ⟨_, binv, _⟩ := actOk_facts sp _ b1
        simp only [hb, if_true, binv, Bool.not_false] at hfin
        obtain ⟨r1, r2, r3, r4, _⟩ := rewind_pinv sp.opts sp.v l2 s'.backupOffset (Nat.le_trans b3 h2.pinv.le) h2.pinv
        obtain ⟨tok, t1, t2, t3⟩ := finish_valid_eq sp w 0 s'.backup { s' with hash := s'.backupHash }
          (rewind sp.opts sp.v l2 s'.backupOffset) b1
        rw [t3] at hfin
        have hres : scanResult sp s' l2 = (s'.backupOffset - l.offset, s'.backup) := by
          unfold scanResult; rw [htok]; simp [hact, hb]
        rw [hres] at hscan'
        rw [specOnce_valid sp l.source l.state l.offset _ _ hscan' binv]
        have hend : l.offset + (s'.backupOffset - l.offset) = s'.backupOffset := by omega
        have htext : (rewind sp.opts sp.v l2 s'.backupOffset).text = slice l.source l.offset s'.backupOffset := by
          unfold Lexer.text; rw [r3, r4, r2, hsrc, htok]
        have hbh : s'.backupHash = runtimeHash sp.opts.scanBytes (slice l.source l.offset s'.backupOffset) := by
          rcases hh.bk with hb'' | hb''
          · omega
          · rw [hb'', hsrc, htok]
        have hcs : classSwitch sp s'.backup s'.backupHash (rewind sp.opts sp.v l2 s'.backupOffset).text =
            classSpec sp s'.backup (slice l.source l.offset s'.backupOffset) := by
          rw [htext, hbh]; exact classSwitch_eq_spec sp hk _ _
        simp only at t1 t3 hfin
        rw [hcs] at t1 hfin
        rw [hend, t1]
        simp only [Option.some.injEq] at hfin
        rw [← hfin]
        by_cases hsp : sp.spaceActions.contains (classSpec sp s'.backup (slice l.source l.offset s'.backupOffset)) = true
        · simp only [hsp, if_true, absOut, r2]
        · have hsp' : sp.spaceActions.contains (classSpec sp s'.backup (slice l.source l.offset s'.backupOffset)) = false := by
            simpa using hsp
          simp only [hsp', Bool.false_eq_true, if_false, absOut, r2, r4, htok]
    · simp only [hb, if_false] at hfin
      have hres : scanResult sp s' l2 = (l2.offset - l.offset, invalidAct sp) := by
        unfold scanResult; rw [htok, hact]
        have : ¬ (invalidAct sp = invalidAct sp ∧ 0 ≤ s'.backup) := by omega
        rw [if_neg this]
      rw [hres] at hscan'
      unfold specOnce
      simp only [hscan', (isInvalid_iff sp _).mpr rfl, if_true, htok0]
      by_cases heq : l2.offset = l2.tokenOffset
      · simp only [heq, if_true] at hfin
        have hsz : l2.offset - l.offset = 0 := by omega
        simp only [hsz, if_true]
        have hoff : l2.offset = l.offset := by omega
        by_cases hch : l2.ch < 0
        · obtain ⟨c1, c2⟩ := h2.pinv.ch_eoi hch
          have hnil := pinv_eoi h2.pinv hch
          rw [hsrc, hoff] at hnil
          rw [hnil]
          simp only [c1, if_true, Option.some.injEq] at hfin
          obtain ⟨r1, r2, r3, r4, _⟩ := rewind_pinv sp.opts sp.v l2 l2.scanOffset (by rw [c2]; exact h2.pinv.le) h2.pinv
          rw [← hfin]
          simp only [absOut, r2, r4]
          simp only [htok, c2, hoff]
        · have hch0 : 0 ≤ l2.ch := by omega
          obtain ⟨b, rest, hd, _, hso⟩ := pinv_char h2.pinv hch0
          rw [hsrc, hoff] at hd
          rw [hd]
          have hne : ¬ l2.ch = -1 := by omega
          simp only [hne, if_false, Option.some.injEq] at hfin
          obtain ⟨_, _, _, p4, _⟩ := consume_pinv sp.opts sp.v l2 h2.pinv hch0
          obtain ⟨r1, r2, r3, r4, _⟩ := rewind_pinv sp.opts sp.v l2 l2.scanOffset p4 h2.pinv
          rw [← hfin]
          simp only [absOut, r2, r4]
          simp only [htok, hso, hoff]
      · simp only [heq, if_false, Option.some.injEq] at hfin
        have hsz : ¬ l2.offset - l.offset = 0 := by omega
        simp only [hsz, if_false]
        rw [← hfin]
        simp only [absOut, htok]
        congr 2
        omega
  · -- a usable action
    have hok : actOk sp [] (actionStart sp.t - s'.state) = true := by
      rcases hfinal with hf | hf
      · exfalso; apply hact; rw [hf]; unfold invCode; omega
      · exact hf
    obtain ⟨_, ainv, _⟩ := actOk_facts sp _ hok
    obtain ⟨tok, t1, t2, t3⟩ := finish_valid_eq sp w 1 _ s' l2 hok
    rw [t3] at hfin
    have hres : scanResult sp s' l2 = (l2.offset - l.offset, actionStart sp.t - s'.state) := by
      unfold scanResult; rw [htok]
      have : ¬ (actionStart sp.t - s'.state = invalidAct sp ∧ 0 ≤ s'.backup) := fun h => hact h.1
      simp [this]
    rw [hres] at hscan'
    rw [specOnce_valid sp l.source l.state l.offset _ _ hscan' ainv]
    have hend : l.offset + (l2.offset - l.offset) = l2.offset := by omega
    have htext : l2.text = slice l.source l.offset l2.offset := by
      unfold Lexer.text; rw [hsrc, htok]
    have hcs : classSwitch sp (actionStart sp.t - s'.state) s'.hash l2.text =
        classSpec sp (actionStart sp.t - s'.state) (slice l.source l.offset l2.offset) := by
      rw [htext, hh.hash, hsrc, htok]; exact classSwitch_eq_spec sp hk _ _
    rw [hcs] at t1 hfin
    rw [hend, t1]
    simp only [Option.some.injEq] at hfin
    rw [← hfin]
    by_cases hsp : sp.spaceActions.contains (classSpec sp (actionStart sp.t - s'.state) (slice l.source l.offset l2.offset)) = true
    · simp only [hsp, if_true, absOut]
    · have hsp' : sp.spaceActions.contains (classSpec sp (actionStart sp.t - s'.state) (slice l.source l.offset l2.offset)) = false := by
        simpa using hsp
      simp only [hsp', Bool.false_eq_true, if_false, absOut, htok]

/-! ### the restart loop against the specification -/

theorem nextLoop_refines (sp : Spec) (w : WFacts sp) (hc : ClassOk sp) (he : eoiFinal sp.t = true)
    (hk : HashOk sp) : ∀ (fuel : Nat) (l : Lexer), PInv sp.opts sp.v l → ValidState sp l →
    ∀ (tok : Int) (l' : Lexer), nextLoop sp fuel l = some (tok, l') →
    specNextLoop sp l.source l.state fuel l.offset = some (tok, l'.tokenOffset, l'.offset) := by
  intro fuel
  induction fuel with
  | zero => intro l _ _ tok l' h; simp [nextLoop] at h
  | succ fuel ih =>
    intro l hp hv tok l' h
    obtain ⟨out, h1, h2⟩ := nextOnce_spec sp w l hp hv
    have hr := nextOnce_refines sp w hc he hk l hp hv out h1
    simp only [nextLoop, h1] at h
    simp only [specNextLoop, hr]
    cases out with
    | restart l1 =>
      simp only at h
      obtain ⟨q1, q2, q3, _⟩ := h2
      have q2' : l1.source = l.source := q2
      have q3' : l1.state = l.state := q3
      have hv1 : ValidState sp l1 := by intro hm; rw [q3']; exact hv hm
      have := ih l1 q1 hv1 tok l' h
      rw [q2', q3'] at this
      simpa [absOut] using this
    | token tok1 l1 =>
      simp only [Option.some.injEq, Prod.mk.injEq] at h
      simp only [absOut, Option.some.injEq, Prod.mk.injEq]
      exact ⟨h.1, by rw [h.2], by rw [h.2]⟩

/-- A text `[a, b)` that consists of consecutive matches of space rules, as `Tables.Scan` finds them. -/
inductive SpaceChain (sp : Spec) (src : List UInt8) (state : Int) : Nat → Nat → Prop
  | refl (a : Nat) : SpaceChain sp src state a a
  | step {a b : Nat} (size : Nat) (act : Int) :
      scanG sp.t (invalidAct sp) sp.opts.scanBytes (startIndex sp state) (src.drop a) = some (size, act) →
      isInvalid sp act = false → 0 < size →
      sp.spaceActions.contains (classSpec sp act (slice src a (a + size))) = true →
      SpaceChain sp src state (a + size) b → SpaceChain sp src state a b

theorem specOnce_restart_inv (sp : Spec) (src : List UInt8) (state : Int) (off off' : Nat)
    (h : specOnce sp src state off = some (.restart off')) :
    ∃ size act, scanG sp.t (invalidAct sp) sp.opts.scanBytes (startIndex sp state) (src.drop off) = some (size, act) ∧
      isInvalid sp act = false ∧ off' = off + size ∧
      sp.spaceActions.contains (classSpec sp act (slice src off (off + size))) = true := by
  unfold specOnce at h
  cases hs : scanG sp.t (invalidAct sp) sp.opts.scanBytes (startIndex sp state) (src.drop off) with
  | none => rw [hs] at h; exact nomatch h
  | some r =>
    obtain ⟨size, act⟩ := r
    rw [hs] at h
    simp only at h
    cases hi : isInvalid sp act with
    | true =>
      rw [hi] at h
      simp only [if_true] at h
      cases ht : tokenOf sp act with
      | none => rw [ht] at h; exact nomatch h
      | some tok =>
        rw [ht] at h
        simp only at h
        split at h
        · split at h <;> simp at h
        · simp at h
    | false =>
      rw [hi] at h
      simp only [Bool.false_eq_true, if_false] at h
      cases ht : tokenOf sp (classSpec sp act (slice src off (off + size))) with
      | none => rw [ht] at h; exact nomatch h
      | some tok =>
        rw [ht] at h
        simp only at h
        split at h
        · rename_i hsp
          simp only [Option.some.injEq, SpecOutcome.restart.injEq] at h
          exact ⟨size, act, rfl, hi, h.symm, hsp⟩
        · simp at h

theorem restarts_chain (sp : Spec) (w : WFacts sp) (hc : ClassOk sp) (he : eoiFinal sp.t = true)
    (hk : HashOk sp) (l lm : Lexer) (hr : Restarts sp l lm) :
    PInv sp.opts sp.v l → ValidState sp l →
    SpaceChain sp l.source l.state l.offset lm.offset ∧ PInv sp.opts sp.v lm ∧ ValidState sp lm ∧
    lm.source = l.source ∧ lm.state = l.state := by
  induction hr with
  | refl l => intro hp hv; exact ⟨SpaceChain.refl _, hp, hv, rfl, rfl⟩
  | @step l l1 l2 h1 _ ih =>
    intro hp hv
    obtain ⟨out, o1, o2⟩ := nextOnce_spec sp w l hp hv
    rw [h1] at o1
    simp only [Option.some.injEq] at o1
    subst o1
    obtain ⟨q1, q2, q3, q4⟩ := o2
    have q2' : l1.source = l.source := q2
    have q3' : l1.state = l.state := q3
    have q4' : l.offset < l1.offset := q4
    have hv1 : ValidState sp l1 := by intro hm; rw [q3']; exact hv hm
    obtain ⟨c, p, v, s1, s2⟩ := ih q1 hv1
    have hspec := nextOnce_refines sp w hc he hk l hp hv _ h1
    obtain ⟨size, act, e1, e2, e3, e4⟩ := specOnce_restart_inv sp l.source l.state l.offset _ hspec
    have e3' : l1.offset = l.offset + size := e3
    rw [q2', q3', e3'] at c
    exact ⟨SpaceChain.step size act e1 e2 (by omega) e4 c, p, v, s1.trans q2', s2.trans q3'⟩

end TmVerif.LexRun
