import TmVerif.Proofs.LexRunNext
import TmVerif.Proofs.LexRunDecode
/-!
Refinement: the loop of the generated `Next` computes what `lex.Tables.Scan` (`scanLoopG`) computes
on the rest of the input, and the hash it accumulates is the `runtimeHash` of the consumed text.
-/
namespace TmVerif.LexRun
open TmVerif.LexTables

/-! ### characters at a position -/

def charBound (sb : Bool) : Nat := if sb then 256 else 0x110000

theorem readChar_lt (sb : Bool) (b : UInt8) (rest : List UInt8) :
    (readChar sb (b :: rest)).1 < (charBound sb : Int) := by
  unfold readChar charBound
  have hb := b.toNat_lt
  cases sb with
  | true => simp only [if_true]; omega
  | false =>
    simp only [Bool.false_eq_true, if_false]
    split
    · rename_i h
      rcases decodeRune_cases b rest h with he | ⟨r, w, he, _, _, _, h5, _⟩
      · rw [he]; simp [runeError]
      · rw [he]; exact h5
    · omega

/-- The look-ahead of a lexer that is not at the end of the input. -/
theorem pinv_char {o : Opts} {v : Variant} {l : Lexer} (h : PInv o v l) (hc : 0 ≤ l.ch) :
    ∃ b rest, l.source.drop l.offset = b :: rest ∧ l.ch = (readChar o.scanBytes (b :: rest)).1 ∧
      l.scanOffset = l.offset + (readChar o.scanBytes (b :: rest)).2 := by
  have hch := h.ch
  have hso := h.so
  unfold peek at hch hso
  cases hd : l.source.drop l.offset with
  | nil => rw [hd] at hch; simp only at hch; omega
  | cons b rest => rw [hd] at hch hso; exact ⟨b, rest, rfl, hch, hso⟩

theorem pinv_eoi {o : Opts} {v : Variant} {l : Lexer} (h : PInv o v l) (hc : l.ch < 0) :
    l.source.drop l.offset = [] :=
  List.drop_eq_nil_of_le (by have := h.ch_neg_iff.mp hc; omega)

/-! ### the accumulated hash -/

structure HInv (sb : Bool) (s : Scan) (l : Lexer) : Prop where
  tok_le : l.tokenOffset ≤ l.offset
  bd : Boundary sb (l.source.drop l.tokenOffset) (l.offset - l.tokenOffset)
  hash : s.hash = runtimeHash sb (slice l.source l.tokenOffset l.offset)
  bk : s.backup = -1 ∨ s.backupHash = runtimeHash sb (slice l.source l.tokenOffset s.backupOffset)

theorem hinv_consume (o : Opts) (v : Variant) (s s1 : Scan) (l : Lexer) (hp : PInv o v l)
    (h : HInv o.scanBytes s l) (hc : 0 ≤ l.ch) (hs1 : s1.hash = s.hash)
    (hbk : s1.backup = -1 ∨ s1.backupHash = runtimeHash o.scanBytes (slice l.source l.tokenOffset s1.backupOffset)) :
    HInv o.scanBytes { s1 with hash := hashStep s1.hash l.ch } (consume o v l) := by
  obtain ⟨_, p2, p3, p4, p5, p6, _⟩ := consume_pinv o v l hp hc
  obtain ⟨b, rest, hd, hch, hso⟩ := pinv_char hp hc
  have htl := h.tok_le
  have hdd : (l.source.drop l.tokenOffset).drop (l.offset - l.tokenOffset) = b :: rest := by
    rw [List.drop_drop, Nat.add_sub_cancel' htl]; exact hd
  obtain ⟨e1, _⟩ := chars_take_extend o.scanBytes h.bd b rest hdd
  have e2 := runtimeHash_extend o.scanBytes h.bd b rest hdd
  have hk : l.offset - l.tokenOffset + (readChar o.scanBytes (b :: rest)).2 = l.scanOffset - l.tokenOffset := by
    rw [hso]; omega
  rw [hk] at e1 e2
  refine ⟨by rw [p6, p2]; omega, by rw [p5, p6, p2]; exact e1, ?_, ?_⟩
  · show hashStep s1.hash l.ch = _
    rw [p5, p6, p2, hs1, h.hash, hch]
    unfold slice
    exact e2.symm
  · rw [p5, p6]; exact hbk

theorem loop_hinv (sp : Spec) : ∀ (fuel : Nat) (s : Scan) (l : Lexer) (s' : Scan) (l' : Lexer),
    PInv sp.opts sp.v l → HInv sp.opts.scanBytes s l → loop sp fuel s l = some (s', l') →
    HInv sp.opts.scanBytes s' l' ∧ PInv sp.opts sp.v l' := by
  intro fuel
  induction fuel with
  | zero => intro s l s' l' _ _ h; simp [loop] at h
  | succ fuel ih =>
    intro s l s' l' hp hh h
    simp only [loop] at h
    split at h
    · simp only [Option.some.injEq, Prod.mk.injEq] at h
      rw [← h.1, ← h.2]; exact ⟨hh, hp⟩
    · split at h
      · -- end of input
        split at h
        · exact nomatch h
        · rename_i st hst
          split at h
          · simp only [takeCheckpoint] at h
            cases hbt : getI sp.t.backtrack (-1 - st) with
            | none => rw [hbt] at h; simp at h
            | some bt =>
              rw [hbt] at h
              simp only [Option.map_some] at h
              exact ih _ l s' l' hp ⟨hh.tok_le, hh.bd, hh.hash, Or.inr hh.hash⟩ h
          · exact ih _ l s' l' hp ⟨hh.tok_le, hh.bd, hh.hash, hh.bk⟩ h
      · rename_i hch
        have hc : 0 ≤ l.ch := by omega
        split at h
        · exact nomatch h
        · rename_i st hst
          split at h
          · split at h
            · exact nomatch h
            · rename_i s1 hs1
              have hpc := (consume_pinv sp.opts sp.v l hp hc).1
              split at hs1
              · simp only [takeCheckpoint] at hs1
                cases hbt : getI sp.t.backtrack (-1 - st) with
                | none => rw [hbt] at hs1; simp at hs1
                | some bt =>
                  rw [hbt] at hs1
                  simp only [Option.map_some, Option.some.injEq] at hs1
                  subst hs1
                  exact ih _ _ s' l' hpc (hinv_consume sp.opts sp.v s _ l hp hh hc rfl (Or.inr hh.hash)) h
              · simp only [Option.some.injEq] at hs1
                subst hs1
                exact ih _ _ s' l' hpc (hinv_consume sp.opts sp.v s _ l hp hh hc rfl hh.bk) h
          · exact ih _ l s' l' hp ⟨hh.tok_le, hh.bd, hh.hash, hh.bk⟩ h

end TmVerif.LexRun
