import TmVerif.Proofs.DiffApply
/-!
Helper lemmas for C27: parsing the rendered text gives back the hunks that were rendered.
-/
namespace TmVerif.Diff

/-! ### lines and text -/

theorem splitLines_line (l : Line) (rest : List Char) (h : '\n' ∉ l) :
    splitLines (l ++ '\n' :: rest) = l :: splitLines rest := by
  induction l with
  | nil => simp [splitLines]
  | cons c l ih =>
    have hc : c ≠ '\n' := fun e => h (by simp [e])
    have hl : '\n' ∉ l := fun e => h (by simp [e])
    simp only [List.cons_append]
    rw [splitLines, if_neg hc, ih hl]

theorem splitLines_flat (ls : List Line) (h : ∀ l ∈ ls, '\n' ∉ l) :
    splitLines (ls.flatMap fun l => l ++ ['\n']) = ls ++ [[]] := by
  induction ls with
  | nil => simp [splitLines]
  | cons l ls ih =>
    simp only [List.flatMap_cons, List.append_assoc, List.cons_append, List.nil_append]
    rw [splitLines_line l _ (h l (by simp)), ih (fun x hx => h x (by simp [hx]))]

theorem splitLines_noNL (t : List Char) : ∀ l ∈ splitLines t, '\n' ∉ l := by
  induction t with
  | nil => simp [splitLines]
  | cons c cs ih =>
    unfold splitLines
    split
    · intro l hl
      simp only [List.mem_cons] at hl
      rcases hl with rfl | hl
      · simp
      · exact ih l hl
    · rename_i hc
      cases hs : splitLines cs with
      | nil => simp; exact fun e => hc e.symm
      | cons x xs =>
        rw [hs] at ih
        intro l hl
        simp only [List.mem_cons] at hl
        rcases hl with rfl | hl
        · have := ih x (by simp)
          simp only [List.mem_cons, not_or]
          exact ⟨fun e => hc e.symm, this⟩
        · exact ih l (by simp [hl])

/-! ### the header -/

theorem splitAtChar_spec (c : Char) (p q : List Char) (h : c ∉ p) :
    splitAtChar c (p ++ c :: q) = some (p, q) := by
  induction p with
  | nil => simp [splitAtChar]
  | cons x p ih =>
    have hx : x ≠ c := fun e => h (by simp [e])
    have hp : c ∉ p := fun e => h (by simp [e])
    simp [splitAtChar, hx, ih hp]

theorem stripPrefix_append (p r : List Char) : stripPrefix p (p ++ r) = some r := by
  unfold stripPrefix
  have : p.isPrefixOf (p ++ r) = true := by
    rw [List.isPrefixOf_iff_prefix]
    exact List.prefix_append p r
  simp [this]

theorem stripPrefix_single (c : Char) (r : List Char) : stripPrefix [c] (c :: r) = some r :=
  stripPrefix_append [c] r

theorem natText_digits (n : Nat) : ∀ c ∈ natText n, c.isDigit = true := by
  intro c hc
  exact Nat.isDigit_of_mem_toDigits (by decide) (by decide) hc

theorem natText_not_mem (c : Char) (hc : c.isDigit = false) (n : Nat) : c ∉ natText n := by
  intro h
  have := natText_digits n c h
  rw [hc] at this
  cases this

theorem parseNatChars_natText (n : Nat) : parseNatChars (natText n) = some n := by
  unfold parseNatChars
  have h1 : natText n ≠ [] := Nat.toDigits_ne_nil
  have h2 : (natText n).all Char.isDigit = true := by
    rw [List.all_eq_true]; exact natText_digits n
  rw [if_neg (by simp [h1, h2])]
  simp [natText]

theorem parseHeader_header (h : Hunk) :
    parseHeader (hunkHeader h) = some (h.leftLine, h.leftSize, h.rightLine, h.rightSize) := by
  unfold parseHeader hunkHeader
  rw [stripPrefix_append]
  simp only
  rw [splitAtChar_spec ',' _ _ (natText_not_mem _ (by decide) _)]
  simp only
  rw [splitAtChar_spec ' ' _ _ (natText_not_mem _ (by decide) _)]
  simp only
  rw [stripPrefix_single]
  simp only
  rw [splitAtChar_spec ',' _ _ (natText_not_mem _ (by decide) _)]
  simp only
  rw [splitAtChar_spec ' ' _ _ (natText_not_mem _ (by decide) _)]
  simp [parseNatChars_natText]

theorem hunkHeader_noNL (h : Hunk) : '\n' ∉ hunkHeader h := by
  have d : ∀ n, '\n' ∉ natText n := natText_not_mem _ (by decide)
  simp [hunkHeader, d]

theorem hunkHeader_cons (h : Hunk) : ∃ r, hunkHeader h = '@' :: r := ⟨_, rfl⟩

/-! ### the body -/

/-- intro characters are the three the parser knows, lines contain no newline -/
def GoodHunk (h : Hunk) : Prop :=
  ∀ p ∈ h.body, (p.1 = ' ' ∨ p.1 = '+' ∨ p.1 = '-') ∧ '\n' ∉ p.2

theorem parse_body (body : List (Char × Line))
    (hg : ∀ p ∈ body, (p.1 = ' ' ∨ p.1 = '+' ∨ p.1 = '-')) (rest : List Line) (h0 : Hunk)
    (acc : List Hunk) :
    parseHunkLines (body.map (fun p => p.1 :: p.2) ++ rest) (some h0) acc =
      parseHunkLines rest (some { h0 with body := h0.body ++ body }) acc := by
  induction body generalizing h0 with
  | nil => simp
  | cons p body ih =>
    obtain ⟨c, l⟩ := p
    have hc := hg (c, l) (by simp)
    simp only at hc
    have hne : c ≠ '@' := by rcases hc with rfl | rfl | rfl <;> decide
    simp only [List.map_cons, List.cons_append]
    simp only [parseHunkLines, hne, if_false, hc, if_true]
    rw [ih (fun q hq => hg q (by simp [hq]))]
    simp

theorem parse_hunks (hs : List Hunk) (hg : ∀ h ∈ hs, GoodHunk h) (cur : Option Hunk)
    (acc : List Hunk) :
    parseHunkLines (hs.flatMap hunkLines) cur acc = some (acc ++ cur.toList ++ hs) := by
  induction hs generalizing cur acc with
  | nil => simp [parseHunkLines]
  | cons h hs ih =>
    simp only [List.flatMap_cons, hunkLines, List.cons_append]
    obtain ⟨r, hr⟩ := hunkHeader_cons h
    have hp := parseHeader_header h
    rw [hr] at hp
    rw [hr]
    simp only [parseHunkLines, if_true, hp]
    rw [parse_body h.body (fun p hp' => (hg h (by simp) p hp').1)]
    rw [ih (fun x hx => hg x (by simp [hx]))]
    simp

theorem hunkLines_noNL (h : Hunk) (hg : GoodHunk h) : ∀ l ∈ hunkLines h, '\n' ∉ l := by
  intro l hl
  simp only [hunkLines, List.mem_cons, List.mem_map] at hl
  rcases hl with rfl | ⟨p, hp, rfl⟩
  · exact hunkHeader_noNL h
  · obtain ⟨h1, h2⟩ := hg p hp
    simp only [List.mem_cons, not_or]
    refine ⟨?_, h2⟩
    rcases h1 with e | e | e <;> rw [e] <;> decide

theorem parsePatch_render (hs : List Hunk) (hg : ∀ h ∈ hs, GoodHunk h) :
    parsePatch (renderHunks hs) = some hs := by
  have e : renderHunks hs = (hs.flatMap hunkLines).flatMap fun l => l ++ ['\n'] := by
    simp only [renderHunks, List.flatMap_assoc]
    rfl
  unfold parsePatch
  rw [e, splitLines_flat _ (by
    intro l hl
    simp only [List.mem_flatMap] at hl
    obtain ⟨h, hh, hl⟩ := hl
    exact hunkLines_noNL h (hg h hh) l hl)]
  simp only [List.reverse_append, List.reverse_cons, List.reverse_nil, List.nil_append,
    List.singleton_append, List.reverse_reverse]
  rw [parse_hunks hs hg]
  simp

/-! ### the hunks of `LineDiff` are good -/

theorem skippedMarker_noNL (n : Nat) : '\n' ∉ skippedMarker n := by
  have d : '\n' ∉ natText n := natText_not_mem _ (by decide) _
  simp [skippedMarker, d]

theorem addPlain_good (h : Hunk) (c : Char) (ls : List Line) (hg : GoodHunk h)
    (hc : c = ' ' ∨ c = '+' ∨ c = '-') (hl : ∀ l ∈ ls, '\n' ∉ l) : GoodHunk (h.addPlain c ls) := by
  intro p hp
  simp only [Hunk.addPlain, List.mem_append, List.mem_map] at hp
  rcases hp with hp | ⟨l, hl', rfl⟩
  · exact hg p hp
  · exact ⟨hc, hl l hl'⟩

theorem add_good (h : Hunk) (c : Char) (ls : List Line) (hg : GoodHunk h)
    (hc : c = ' ' ∨ c = '+' ∨ c = '-') (hl : ∀ l ∈ ls, '\n' ∉ l) : GoodHunk (h.add c ls) := by
  unfold Hunk.add
  split
  · have g1 := addPlain_good h c (ls.take 10) hg hc (fun l hl' => hl l (List.mem_of_mem_take hl'))
    have g2 := addPlain_good _ c [skippedMarker (ls.length - 13)] g1 hc (by
      intro l hl'; simp at hl'; subst hl'; exact skippedMarker_noNL _)
    have g3 := addPlain_good _ c (ls.drop (ls.length - 3)) g2 hc
      (fun l hl' => hl l (List.mem_of_mem_drop hl'))
    intro p hp
    exact g3 p hp
  · exact addPlain_good h c ls hg hc hl

theorem slice_noNL (l : List Line) (i j : Nat) (h : ∀ x ∈ l, '\n' ∉ x) :
    ∀ x ∈ slice l i j, '\n' ∉ x := by
  intro x hx
  exact h x (List.mem_of_mem_drop (List.mem_of_mem_take hx))

def GoodState (st : LDState) : Prop := (∀ h ∈ st.out, GoodHunk h) ∧ GoodHunk st.h

theorem writeHunk_good (out : List Hunk) (h : Hunk) (ho : ∀ x ∈ out, GoodHunk x) (hh : GoodHunk h) :
    ∀ x ∈ writeHunk out h, GoodHunk x := by
  unfold writeHunk
  split
  · exact ho
  · intro x hx
    simp only [List.mem_append, List.mem_singleton] at hx
    rcases hx with hx | rfl
    · exact ho x hx
    · exact hh

theorem fresh_good (L R : Nat) : GoodHunk { leftLine := L, rightLine := R } := by
  intro p hp; simp at hp

theorem ldStep_good (a b : List Line) (st : LDState) (c : Chunk) (first last : Bool)
    (ha : ∀ x ∈ a, '\n' ∉ x) (hb : ∀ x ∈ b, '\n' ∉ x) (hg : GoodState st) :
    GoodState (ldStep a b st c first last) := by
  obtain ⟨go, gh⟩ := hg
  have g1 : GoodHunk ((st.h.add '-' (slice a st.ai (st.ai + c.del))).add '+'
      (slice b st.bi (st.bi + c.ins))) :=
    add_good _ _ _ (add_good _ _ _ gh (by simp) (slice_noNL a _ _ ha)) (by simp) (slice_noNL b _ _ hb)
  unfold ldStep
  simp only
  split
  · refine ⟨go, add_good _ _ _ ?_ (by simp) (slice_noNL a _ _ ha)⟩
    intro p hp
    exact g1 p hp
  · split
    · exact ⟨writeHunk_good _ _ go (add_good _ _ _ g1 (by simp) (slice_noNL a _ _ ha)),
        add_good _ _ _ (fresh_good _ _) (by simp) (slice_noNL a _ _ ha)⟩
    · split
      · exact ⟨writeHunk_good _ _ go (add_good _ _ _ g1 (by simp) (slice_noNL a _ _ ha)),
          add_good _ _ _ g1 (by simp) (slice_noNL a _ _ ha)⟩
      · exact ⟨go, add_good _ _ _ g1 (by simp) (slice_noNL a _ _ ha)⟩

theorem ldLoop_good (a b : List Line) (cs : List Chunk) (st : LDState) (first : Bool)
    (ha : ∀ x ∈ a, '\n' ∉ x) (hb : ∀ x ∈ b, '\n' ∉ x) (hg : GoodState st) :
    GoodState (ldLoop a b st first cs) := by
  induction cs generalizing st first with
  | nil => simpa [ldLoop] using hg
  | cons c cs ih =>
    unfold ldLoop
    exact ih _ _ (ldStep_good a b st c first _ ha hb hg)

theorem hunksOfChunks_good (a b : List Line) (cs : List Chunk)
    (ha : ∀ x ∈ a, '\n' ∉ x) (hb : ∀ x ∈ b, '\n' ∉ x) :
    ∀ h ∈ hunksOfChunks a b cs, GoodHunk h := by
  have := ldLoop_good a b cs {} true ha hb ⟨by simp, fresh_good 1 1⟩
  exact this.1

end TmVerif.Diff
