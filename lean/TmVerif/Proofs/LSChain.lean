import TmVerif.Model.LS
/-!
C23 — the interleaving model of the handler chain (`Model/LS.lean`, part (c)): the invariant
"at most one task is past its wait", its preservation by every scheduler step, and progress.
-/
namespace TmVerif.LS

variable {σ ρ ω : Type}

def Wire.note? : Wire ω → Option (Nat × ω)
  | .notes i o => some (i, o)
  | .reply _ _ => none

/-- The notifications on the wire, in the order they were written. -/
def notesOf (w : List (Wire ω)) : List (Nat × ω) := w.filterMap Wire.note?

@[simp] theorem setAt_same (f : Nat → α) (i : Nat) (a : α) : setAt f i a i = a := by simp [setAt]
theorem setAt_other (f : Nat → α) (i j : Nat) (a : α) (h : j ≠ i) : setAt f i a j = f j := by
  simp [setAt, h]

/-- Invariant of the chain: tasks below `k` have released their successor, task `k` is the only one that
may be past its wait, all later tasks are blocked; state, log, results and wire are those of the
sequential execution of the first requests. -/
structure Inv (exec : σ → ρ → σ × ω) (reqs : List ρ) (s0 : σ) (s : Sys σ ω) (k : Nat) : Prop where
  hdel : s.delivered ≤ reqs.length
  hk : k ≤ s.delivered
  hlt : ∀ j, j < k → (s.phase j).past = true
  hgt : ∀ j, k < j → s.phase j = .waiting
  hund : ∀ j, s.delivered ≤ j → s.phase j = .waiting
  hcur : (s.phase k).past = false
  hlog : s.log = List.range k ++ (if s.phase k = .executed then [k] else [])
  hst : s.st = seqState exec s0 (reqs.take s.log.length)
  hres : ∀ i, i ∈ s.log → s.result i = seqOut exec s0 reqs i
  hnotes : notesOf s.wire = s.log.filterMap (fun i => (seqOut exec s0 reqs i).map (Prod.mk i))
  hrep : ∀ i o, Wire.reply i o ∈ s.wire → seqOut exec s0 reqs i = some o

theorem inv_init (exec : σ → ρ → σ × ω) (reqs : List ρ) (s0 : σ) :
    Inv exec reqs s0 (Sys.init s0 : Sys σ ω) 0 where
  hdel := Nat.zero_le _
  hk := Nat.le_refl _
  hlt := fun j h => absurd h (Nat.not_lt_zero j)
  hgt := fun _ _ => rfl
  hund := fun _ _ => rfl
  hcur := rfl
  hlog := by simp [Sys.init]
  hst := by simp [Sys.init, seqState]
  hres := fun i h => by simp [Sys.init] at h
  hnotes := by simp [Sys.init, notesOf]
  hrep := fun i o h => by simp [Sys.init] at h

section
variable {exec : σ → ρ → σ × ω} {reqs : List ρ} {s0 : σ} {s : Sys σ ω} {k : Nat}

theorem Inv.active_eq (h : Inv exec reqs s0 s k) {i : Nat}
    (hp : s.phase i = .running ∨ s.phase i = .executed) : i = k := by
  rcases Nat.lt_trichotomy i k with hlt | heq | hgt
  · have := h.hlt i hlt
    rcases hp with hp | hp <;> rw [hp] at this <;> exact nomatch this
  · exact heq
  · have := h.hgt i hgt
    rcases hp with hp | hp <;> rw [hp] at this <;> exact nomatch this

theorem Inv.unlocked_lt (h : Inv exec reqs s0 s k) {i : Nat} (hp : (s.phase i).past = true) : i < k := by
  rcases Nat.lt_trichotomy i k with hlt | heq | hgt
  · exact hlt
  · subst heq; have := h.hcur; rw [hp] at this; exact nomatch this
  · have := h.hgt i hgt; rw [this] at hp; exact nomatch hp

theorem Inv.start_eq (h : Inv exec reqs s0 s k) {i : Nat} (hw : s.phase i = .waiting)
    (hprev : i = 0 ∨ (s.phase (i - 1)).past = true) : i = k := by
  rcases Nat.lt_trichotomy i k with hlt | heq | hgt
  · have := h.hlt i hlt; rw [hw] at this; exact nomatch this
  · exact heq
  · rcases hprev with h0 | hp
    · omega
    · have := h.unlocked_lt hp
      omega

theorem Inv.log_length (h : Inv exec reqs s0 s k) :
    s.log.length = k + (if s.phase k = .executed then 1 else 0) := by
  rw [h.hlog]
  split <;> simp

theorem Inv.mem_log_of_lt (h : Inv exec reqs s0 s k) {i : Nat} (hi : i < k) : i ∈ s.log := by
  rw [h.hlog]; simp [hi]

end

theorem seqState_take_succ (exec : σ → ρ → σ × ω) (s0 : σ) (reqs : List ρ) (k : Nat) (r : ρ)
    (hr : reqs[k]? = some r) :
    seqState exec s0 (reqs.take (k + 1)) = (exec (seqState exec s0 (reqs.take k)) r).1 := by
  unfold seqState
  rw [List.take_add_one, hr]
  simp [List.foldl_append]

/-- Every scheduler step preserves the invariant (the index moves on exactly at `unlock`). -/
theorem inv_step {exec : σ → ρ → σ × ω} {reqs : List ρ} {s0 : σ} {s s' : Sys σ ω} {k : Nat}
    (h : Inv exec reqs s0 s k) (st : Step exec reqs s s') : ∃ k', Inv exec reqs s0 s' k' := by
  cases st with
  | deliver hd =>
    exact ⟨k, { h with
      hdel := hd
      hk := Nat.le_succ_of_le h.hk
      hund := fun j hj => h.hund j (by have hj' : s.delivered + 1 ≤ j := hj; omega) }⟩
  | start i hi hw hprev =>
    have e := h.start_eq hw hprev
    subst e
    refine ⟨i, { h with
      hlt := fun j hj => by simp only [setAt_other _ _ _ _ (Nat.ne_of_lt hj)]; exact h.hlt j hj
      hgt := fun j hj => by simp only [setAt_other _ _ _ _ (Nat.ne_of_gt hj)]; exact h.hgt j hj
      hund := fun j hj => by
        have hj' : s.delivered ≤ j := hj
        have : j ≠ i := by omega
        simp only [setAt_other _ _ _ _ this]; exact h.hund j hj
      hcur := by simp [Phase.past]
      hlog := ?_ }⟩
    have := h.hlog
    rw [hw] at this
    simp only [setAt_same]
    simpa using this
  | exec i r hrun hr =>
    have e := h.active_eq (Or.inl hrun)
    subst e
    have hlog : s.log = List.range i := by
      have := h.hlog; rw [hrun] at this; simpa using this
    have hlen : s.log.length = i := by rw [hlog]; simp
    have hst : s.st = seqState exec s0 (reqs.take i) := by rw [h.hst, hlen]
    have hout : seqOut exec s0 reqs i = some (exec s.st r).2 := by
      unfold seqOut; rw [hr, hst]
    refine ⟨i, {
      hdel := h.hdel
      hk := h.hk
      hlt := fun j hj => by simp only [setAt_other _ _ _ _ (Nat.ne_of_lt hj)]; exact h.hlt j hj
      hgt := fun j hj => by simp only [setAt_other _ _ _ _ (Nat.ne_of_gt hj)]; exact h.hgt j hj
      hund := fun j hj => by
        have hi : i < s.delivered := by
          rcases Nat.lt_or_ge i s.delivered with h1 | h1
          · exact h1
          · have := h.hund i h1; rw [hrun] at this; exact nomatch this
        have hj' : s.delivered ≤ j := hj
        have : j ≠ i := by omega
        simp only [setAt_other _ _ _ _ this]; exact h.hund j hj
      hcur := by simp [Phase.past]
      hlog := by simp [hlog]
      hst := by
        simp only [List.length_append, List.length_cons, List.length_nil, hlen]
        rw [seqState_take_succ exec s0 reqs i r hr, ← hst]
      hres := fun j hj => by
        simp only [List.mem_append, List.mem_singleton] at hj
        rcases hj with hj | hj
        · have : j ≠ i := by rw [hlog] at hj; simp at hj; omega
          simp only [setAt_other _ _ _ _ this]; exact h.hres j hj
        · subst hj; simp only [setAt_same]; exact hout.symm
      hnotes := by
        have hn := h.hnotes
        simp only [notesOf] at hn ⊢
        rw [List.filterMap_append, List.filterMap_append, hn]
        simp [Wire.note?, hout]
      hrep := fun j o hj => by
        simp only [List.mem_append, List.mem_singleton] at hj
        rcases hj with hj | hj
        · exact h.hrep j o hj
        · exact nomatch hj }⟩
  | unlock i hex =>
    have e := h.active_eq (Or.inr hex)
    subst e
    have hi : i < s.delivered := by
      rcases Nat.lt_or_ge i s.delivered with h1 | h1
      · exact h1
      · have := h.hund i h1; rw [hex] at this; exact nomatch this
    have hnext : s.phase (i + 1) = .waiting := h.hgt (i + 1) (by omega)
    refine ⟨i + 1, { h with
      hk := hi
      hlt := fun j hj => by
        by_cases hji : j = i
        · subst hji; simp [Phase.past]
        · simp only [setAt_other _ _ _ _ hji]; exact h.hlt j (by omega)
      hgt := fun j hj => by
        have : j ≠ i := by omega
        simp only [setAt_other _ _ _ _ this]; exact h.hgt j (by omega)
      hund := fun j hj => by
        have hj' : s.delivered ≤ j := hj
        have : j ≠ i := by omega
        simp only [setAt_other _ _ _ _ this]; exact h.hund j hj
      hcur := by
        simp only [setAt_other _ _ _ _ (Nat.succ_ne_self i)]
        rw [hnext]; rfl
      hlog := ?_ }⟩
    have := h.hlog
    rw [hex] at this
    simp only [setAt_other _ _ _ _ (Nat.succ_ne_self i), hnext]
    rw [this, List.range_succ]
    simp
  | write i o hun hres =>
    have hi := h.unlocked_lt (i := i) (by rw [hun]; rfl)
    have hne : k ≠ i := by omega
    refine ⟨k, { h with
      hlt := fun j hj => by
        by_cases hji : j = i
        · subst hji; simp [Phase.past]
        · simp only [setAt_other _ _ _ _ hji]; exact h.hlt j hj
      hgt := fun j hj => by
        have : j ≠ i := by omega
        simp only [setAt_other _ _ _ _ this]; exact h.hgt j hj
      hund := fun j hj => by
        have hj' : s.delivered ≤ j := hj
        have : j ≠ i := by have := h.hk; omega
        simp only [setAt_other _ _ _ _ this]; exact h.hund j hj
      hcur := by simp only [setAt_other _ _ _ _ hne]; exact h.hcur
      hlog := by simp only [setAt_other _ _ _ _ hne]; exact h.hlog
      hnotes := by
        have hn := h.hnotes
        simp only [notesOf] at hn ⊢
        rw [List.filterMap_append, hn]
        simp [Wire.note?]
      hrep := fun j o' hj => by
        simp only [List.mem_append, List.mem_singleton] at hj
        rcases hj with hj | hj
        · exact h.hrep j o' hj
        · cases hj
          rw [← h.hres i (h.mem_log_of_lt hi)]
          exact hres }⟩

theorem inv_reach {exec : σ → ρ → σ × ω} {reqs : List ρ} {s0 : σ} {s : Sys σ ω}
    (h : Reach exec reqs s0 s) : ∃ k, Inv exec reqs s0 s k := by
  induction h with
  | init => exact ⟨0, inv_init exec reqs s0⟩
  | step _ st ih =>
    obtain ⟨k, hk⟩ := ih
    exact inv_step hk st

/-- No deadlock: while some request has not been answered, some step is enabled. -/
theorem inv_progress {exec : σ → ρ → σ × ω} {reqs : List ρ} {s0 : σ} {s : Sys σ ω} {k : Nat}
    (h : Inv exec reqs s0 s k) (hopen : ∃ i, i < reqs.length ∧ s.phase i ≠ .done) :
    ∃ s', Step exec reqs s s' := by
  by_cases hd : s.delivered < reqs.length
  · exact ⟨_, .deliver s hd⟩
  · have hdel : s.delivered = reqs.length := by have := h.hdel; omega
    by_cases hk : k < s.delivered
    · cases hp : s.phase k with
      | waiting =>
        refine ⟨_, .start s k hk hp ?_⟩
        cases k with
        | zero => exact Or.inl rfl
        | succ k' => exact Or.inr (h.hlt k' (by omega))
      | running =>
        have : k < reqs.length := by omega
        exact ⟨_, .exec s k reqs[k] hp (by simp [this])⟩
      | executed => exact ⟨_, .unlock s k hp⟩
      | unlocked => have := h.hcur; rw [hp] at this; exact nomatch this
      | done => have := h.hcur; rw [hp] at this; exact nomatch this
    · have hkd : k = s.delivered := by have := h.hk; omega
      obtain ⟨i, hi, hnd⟩ := hopen
      have hik : i < k := by omega
      have hpast := h.hlt i hik
      have hun : s.phase i = .unlocked := by
        cases hp : s.phase i with
        | unlocked => rfl
        | done => exact absurd hp hnd
        | waiting => rw [hp] at hpast; exact nomatch hpast
        | running => rw [hp] at hpast; exact nomatch hpast
        | executed => rw [hp] at hpast; exact nomatch hpast
      have hres := h.hres i (h.mem_log_of_lt hik)
      have hsome : ∃ o, seqOut exec s0 reqs i = some o := by
        unfold seqOut
        have : reqs[i]? = some reqs[i] := by simp [hi]
        rw [this]
        exact ⟨_, rfl⟩
      obtain ⟨o, ho⟩ := hsome
      exact ⟨_, .write s i o hun (by rw [hres, ho])⟩

end TmVerif.LS
