import TmVerif.Model.TableWidth
namespace TmVerif.TableWidth

theorem fits8 (i : Int) (h : ¬ (i < -128 ∨ i > 127)) : fitsSigned 8 i = true := by
  simp only [fitsSigned, Bool.and_eq_true, decide_eq_true_eq]; omega

theorem fits16 (i : Int) (h : ¬ (i < -32768 ∨ i > 32767)) : fitsSigned 16 i = true := by
  simp only [fitsSigned, Bool.and_eq_true, decide_eq_true_eq]; omega

theorem fits_mono8_16 (i : Int) (h : fitsSigned 8 i = true) : fitsSigned 16 i = true := by
  simp only [fitsSigned, Bool.and_eq_true, decide_eq_true_eq] at *; omega

theorem fits_mono16_32 (i : Int) (h : fitsSigned 16 i = true) : fitsSigned 32 i = true := by
  simp only [fitsSigned, Bool.and_eq_true, decide_eq_true_eq] at *; omega

theorem bpeLoop_vals (arr : List Int) (ret : Nat) (hr : ret = 8 ∨ ret = 16) :
    bpeLoop arr ret = 8 ∨ bpeLoop arr ret = 16 ∨ bpeLoop arr ret = 32 := by
  induction arr generalizing ret with
  | nil => simp [bpeLoop]; omega
  | cons i rest ih =>
    simp only [bpeLoop]
    split
    · split
      · simp
      · exact ih 16 (Or.inr rfl)
    · exact ih ret hr

/-- The accumulator never shrinks. -/
theorem bpeLoop_ge (arr : List Int) (ret : Nat) (hr : ret = 8 ∨ ret = 16) : ret ≤ bpeLoop arr ret := by
  induction arr generalizing ret with
  | nil => simp [bpeLoop]
  | cons i rest ih =>
    simp only [bpeLoop]
    split
    · split
      · omega
      · have := ih 16 (Or.inr rfl); omega
    · exact ih ret hr

theorem fits_of_le (i : Int) (w w' : Nat) (hw : w = 8 ∨ w = 16 ∨ w = 32) (hw' : w' = 8 ∨ w' = 16 ∨ w' = 32)
    (hle : w ≤ w') (h : fitsSigned w i = true) : fitsSigned w' i = true := by
  rcases hw with rfl | rfl | rfl <;> rcases hw' with rfl | rfl | rfl <;> first
    | exact h
    | omega
    | exact fits_mono8_16 i h
    | exact fits_mono16_32 i (fits_mono8_16 i h)
    | exact fits_mono16_32 i h

theorem bpeLoop_fits (arr : List Int) (ret : Nat) (hr : ret = 8 ∨ ret = 16) (h32 : allInt32 arr = true) :
    ∀ x ∈ arr, fitsSigned (bpeLoop arr ret) x = true := by
  induction arr generalizing ret with
  | nil => intro x hx; cases hx
  | cons i rest ih =>
    intro x hx
    simp only [allInt32, List.all_cons, Bool.and_eq_true] at h32
    simp only [bpeLoop]
    by_cases c1 : (i < -128 || i > 127) = true
    · by_cases c2 : (i < -32768 || i > 32767) = true
      · simp only [c1, c2, if_true]
        rcases List.mem_cons.mp hx with rfl | hx
        · exact h32.1
        · exact List.all_eq_true.mp h32.2 x hx
      · simp only [c1, c2, if_true]
        rcases List.mem_cons.mp hx with rfl | hx
        · have f16 : fitsSigned 16 x = true := fits16 x (by simpa using c2)
          exact fits_of_le x 16 _ (by simp) (by
            rcases bpeLoop_vals rest 16 (Or.inr rfl) with h | h | h <;> simp [h]) (bpeLoop_ge rest 16 (Or.inr rfl)) f16
        · exact ih 16 (Or.inr rfl) h32.2 x hx
    · simp only [c1, Bool.false_eq_true, ↓reduceIte]
      rcases List.mem_cons.mp hx with rfl | hx
      · have f8 : fitsSigned 8 x = true := fits8 x (by simpa using c1)
        have hv := bpeLoop_vals rest ret hr
        have hge := bpeLoop_ge rest ret hr
        exact fits_of_le x 8 _ (by simp) hv (by rcases hr with rfl | rfl <;> omega) f8
      · exact ih ret hr h32.2 x hx

end TmVerif.TableWidth
