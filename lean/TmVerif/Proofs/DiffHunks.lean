import TmVerif.Proofs.Diff
/-!
Helper lemmas for C27, `LineDiff` part: the rendering is empty only for equal texts.
-/
namespace TmVerif.Diff

theorem splitLines_ne_nil (t : List Char) : splitLines t ≠ [] := by
  induction t with
  | nil => simp [splitLines]
  | cons c cs ih =>
    unfold splitLines
    split
    · simp
    · split <;> simp

theorem joinLines_cons_cons (c : Char) (l : Line) (ls : List Line) :
    joinLines ((c :: l) :: ls) = c :: joinLines (l :: ls) := by
  cases ls <;> simp [joinLines]

theorem joinLines_splitLines (t : List Char) : joinLines (splitLines t) = t := by
  induction t with
  | nil => simp [splitLines, joinLines]
  | cons c cs ih =>
    unfold splitLines
    split
    case isTrue hc =>
      subst hc
      cases hs : splitLines cs with
      | nil => exact absurd hs (splitLines_ne_nil cs)
      | cons l ls => rw [hs] at ih; simp [joinLines, ih]
    case isFalse hc =>
      cases hs : splitLines cs with
      | nil => exact absurd hs (splitLines_ne_nil cs)
      | cons l ls =>
        rw [hs] at ih
        simp only
        rw [joinLines_cons_cons, ih]

theorem splitLines_injective (s t : List Char) (h : splitLines s = splitLines t) : s = t := by
  rw [← joinLines_splitLines s, ← joinLines_splitLines t, h]

theorem renderHunk_ne_nil (h : Hunk) : renderHunk h ≠ [] := by
  simp [renderHunk, hunkLines]

theorem renderHunks_eq_nil (hs : List Hunk) : renderHunks hs = [] ↔ hs = [] := by
  cases hs with
  | nil => simp [renderHunks]
  | cons h hs => simp [renderHunks, renderHunk_ne_nil]

/-! sizes only grow -/

theorem addPlain_left (h : Hunk) (c : Char) (ls : List Line) :
    (h.addPlain c ls).leftSize = h.leftSize + (if c ≠ '+' then ls.length else 0) := rfl

theorem addPlain_right (h : Hunk) (c : Char) (ls : List Line) :
    (h.addPlain c ls).rightSize = h.rightSize + (if c ≠ '-' then ls.length else 0) := rfl

theorem add_left_ge (h : Hunk) (c : Char) (ls : List Line) : h.leftSize ≤ (h.add c ls).leftSize := by
  unfold Hunk.add
  split <;> simp only [addPlain_left] <;> omega

theorem add_right_ge (h : Hunk) (c : Char) (ls : List Line) :
    h.rightSize ≤ (h.add c ls).rightSize := by
  unfold Hunk.add
  split <;> simp only [addPlain_right] <;> omega

theorem add_minus_pos (h : Hunk) (ls : List Line) (hl : ls ≠ []) : 0 < (h.add '-' ls).leftSize := by
  have : 0 < ls.length := List.length_pos_iff.mpr hl
  unfold Hunk.add
  split <;> simp [addPlain_left] <;> omega

theorem add_plus_pos (h : Hunk) (ls : List Line) (hl : ls ≠ []) : 0 < (h.add '+' ls).rightSize := by
  have : 0 < ls.length := List.length_pos_iff.mpr hl
  unfold Hunk.add
  split <;> simp [addPlain_right] <;> omega

/-- the hunk is not "empty" in the sense of `writeTo` -/
def Hunk.NonEmpty (h : Hunk) : Prop := h.leftSize ≠ 0 ∨ h.rightSize ≠ 0

theorem add_nonEmpty (h : Hunk) (c : Char) (ls : List Line) (hn : h.NonEmpty) :
    (h.add c ls).NonEmpty := by
  have := add_left_ge h c ls
  have := add_right_ge h c ls
  unfold Hunk.NonEmpty at *
  omega

theorem writeHunk_ne_nil (out : List Hunk) (h : Hunk) (hp : out ≠ [] ∨ h.NonEmpty) :
    writeHunk out h ≠ [] := by
  unfold writeHunk
  split
  case isTrue hz =>
    rcases hp with hp | hp
    · exact hp
    · unfold Hunk.NonEmpty at hp; omega
  case isFalse => simp

theorem slice_length {β : Type} (l : List β) (i n : Nat) (h : n ≤ (l.drop i).length) :
    (slice l i (i + n)).length = n := by
  unfold slice
  simp only [List.length_take, List.length_drop] at h ⊢
  omega

def LDState.Progress (st : LDState) : Prop := st.out ≠ [] ∨ st.h.NonEmpty

def Chunk.Changes (c : Chunk) : Prop := 0 < c.del + c.ins

/-- the hunk after the '-' and '+' lines of a chunk -/
def afterChanges (a b : List Line) (st : LDState) (c : Chunk) : Hunk :=
  (st.h.add '-' (slice a st.ai (st.ai + c.del))).add '+' (slice b st.bi (st.bi + c.ins))

theorem afterChanges_nonEmpty (a b : List Line) (st : LDState) (c : Chunk)
    (hd : c.del ≤ (a.drop st.ai).length) (hi : c.ins ≤ (b.drop st.bi).length)
    (h : st.h.NonEmpty ∨ c.Changes) : (afterChanges a b st c).NonEmpty := by
  unfold afterChanges
  rcases h with h | h
  · exact add_nonEmpty _ _ _ (add_nonEmpty _ _ _ h)
  · unfold Chunk.Changes at h
    by_cases hdel : 0 < c.del
    · apply add_nonEmpty
      left
      have : slice a st.ai (st.ai + c.del) ≠ [] := by
        intro e
        have := slice_length a st.ai c.del hd
        rw [e] at this; simp at this; omega
      have := add_minus_pos st.h _ this
      omega
    · right
      have : slice b st.bi (st.bi + c.ins) ≠ [] := by
        intro e
        have := slice_length b st.bi c.ins hi
        rw [e] at this; simp at this; omega
      have := add_plus_pos (st.h.add '-' (slice a st.ai (st.ai + c.del))) _ this
      omega

theorem ldStep_ai (a b : List Line) (st : LDState) (c : Chunk) (f l : Bool) :
    (ldStep a b st c f l).ai = st.ai + c.eq + c.del ∧ (ldStep a b st c f l).bi = st.bi + c.eq + c.ins := by
  unfold ldStep
  simp only
  split
  · simp
  · split
    · simp
    · split <;> simp

/-- one step keeps or creates progress, and on the last chunk something is written -/
theorem ldStep_progress (a b : List Line) (st : LDState) (c : Chunk) (first last : Bool)
    (hd : c.del ≤ (a.drop st.ai).length) (hi : c.ins ≤ (b.drop st.bi).length)
    (hf : first = true → ¬ st.Progress)
    (h : st.Progress ∨ c.Changes) :
    (ldStep a b st c first last).Progress ∧
      (last = true → (ldStep a b st c first last).out ≠ []) := by
  have hne : st.out ≠ [] ∨ (afterChanges a b st c).NonEmpty := by
    rcases h with (h | h) | h
    · exact Or.inl h
    · exact Or.inr (afterChanges_nonEmpty a b st c hd hi (Or.inl h))
    · exact Or.inr (afterChanges_nonEmpty a b st c hd hi (Or.inr h))
  unfold ldStep
  simp only
  split
  case isTrue h1 =>
    -- first chunk, pure eq: then there was progress before, impossible
    obtain ⟨hfirst, hdel, hins, _⟩ := h1
    have : ¬ c.Changes := by unfold Chunk.Changes; omega
    rcases h with h | h
    · exact absurd h (hf (by simpa using hfirst))
    · exact absurd h this
  case isFalse h1 =>
    split
    case isTrue h2 =>
      have w := writeHunk_ne_nil st.out ((afterChanges a b st c).add ' '
        (slice a (st.ai + c.eq + c.del - c.eq) (st.ai + c.eq + c.del - c.eq + 3))) (by
          rcases hne with hne | hne
          · exact Or.inl hne
          · exact Or.inr (add_nonEmpty _ _ _ hne))
      exact ⟨Or.inl w, fun _ => w⟩
    case isFalse h2 =>
      split
      case isTrue h3 =>
        have w := writeHunk_ne_nil st.out ((afterChanges a b st c).add ' '
          (slice a (st.ai + c.eq + c.del - c.eq) (min (st.ai + c.eq + c.del - c.eq + 3) a.length))) (by
            rcases hne with hne | hne
            · exact Or.inl hne
            · exact Or.inr (add_nonEmpty _ _ _ hne))
        exact ⟨Or.inl w, fun _ => w⟩
      case isFalse h3 =>
        refine ⟨?_, fun hl => absurd hl (by simpa using h3)⟩
        rcases hne with hne | hne
        · exact Or.inl hne
        · exact Or.inr (add_nonEmpty _ _ _ hne)

theorem ldLoop_out_ne_nil (a b : List Line) (cs : List Chunk) (st : LDState) (first : Bool)
    (hcs : cs ≠ []) (hv : Valid cs (a.drop st.ai) (b.drop st.bi))
    (hf : first = true → ¬ st.Progress)
    (h : st.Progress ∨ ∃ c ∈ cs, c.Changes) :
    (ldLoop a b st first cs).out ≠ [] := by
  induction cs generalizing st first with
  | nil => exact absurd rfl hcs
  | cons c cs ih =>
    obtain ⟨p1, p2, _, p4⟩ := hv
    have hd : c.del ≤ (a.drop st.ai).length := by omega
    have hi : c.ins ≤ (b.drop st.bi).length := by omega
    unfold ldLoop
    have ⟨e1, e2⟩ := ldStep_ai a b st c first cs.isEmpty
    cases cs with
    | nil =>
      have hh : st.Progress ∨ c.Changes := by
        rcases h with h | ⟨c', hc', h⟩
        · exact Or.inl h
        · simp at hc'; subst hc'; exact Or.inr h
      have := (ldStep_progress a b st c first true hd hi hf hh).2 rfl
      simpa [ldLoop] using this
    | cons c' cs' =>
      apply ih _ false (by simp)
      · rw [e1, e2]
        simp only [List.drop_drop] at p4
        have x1 : st.ai + c.eq + c.del = st.ai + (c.del + c.eq) := by omega
        have x2 : st.bi + c.eq + c.ins = st.bi + (c.ins + c.eq) := by omega
        rw [x1, x2]; exact p4
      · intro hx; cases hx
      · by_cases hq : ∃ c'' ∈ c' :: cs', c''.Changes
        · exact Or.inr hq
        · left
          have hh : st.Progress ∨ c.Changes := by
            rcases h with h | ⟨c'', hc'', h⟩
            · exact Or.inl h
            · simp only [List.mem_cons] at hc''
              rcases hc'' with hc'' | hc''
              · subst hc''; exact Or.inr h
              · exact absurd ⟨c'', by simpa using hc'', h⟩ hq
          exact (ldStep_progress a b st c first _ hd hi hf hh).1

/-- a valid script between different sequences changes something -/
theorem valid_changes (cs : List Chunk) (a b : List Line) (hv : Valid cs a b) (hne : a ≠ b) :
    ∃ c ∈ cs, c.Changes := by
  induction cs generalizing a b with
  | nil => obtain ⟨ha, hb⟩ := hv; subst ha; subst hb; exact absurd rfl hne
  | cons c cs ih =>
    by_cases hc : c.Changes
    · exact ⟨c, by simp, hc⟩
    · obtain ⟨p1, p2, p3, p4⟩ := hv
      have hd : c.del = 0 := by unfold Chunk.Changes at hc; omega
      have hi : c.ins = 0 := by unfold Chunk.Changes at hc; omega
      simp only [hd, hi, List.drop_zero, Nat.zero_add] at p3 p4
      have : a.drop c.eq ≠ b.drop c.eq := by
        intro e
        apply hne
        rw [← List.take_append_drop c.eq a, ← List.take_append_drop c.eq b, p3, e]
      obtain ⟨c', h1, h2⟩ := ih _ _ p4 this
      exact ⟨c', by simp [h1], h2⟩

theorem hunksOfChunks_ne_nil (a b : List Line) (cs : List Chunk) (hv : Valid cs a b) (hne : a ≠ b) :
    hunksOfChunks a b cs ≠ [] := by
  unfold hunksOfChunks
  have hcs : cs ≠ [] := by
    intro e; subst e
    obtain ⟨ha, hb⟩ := hv
    exact hne (ha.trans hb.symm)
  apply ldLoop_out_ne_nil a b cs {} true hcs (by simpa using hv)
  · intro _ hp
    rcases hp with hp | hp
    · exact hp rfl
    · unfold Hunk.NonEmpty at hp; simp at hp
  · exact Or.inr (valid_changes cs a b hv hne)

theorem lineDiff_nil_iff (left right : List Char) : lineDiff left right = some [] ↔ left = right := by
  constructor
  · intro h
    by_cases he : left = right
    · exact he
    · exfalso
      unfold lineDiff lineDiffHunks at h
      simp only [he, if_false] at h
      cases hl : lcs (splitLines left) (splitLines right) with
      | none => simp [hl] at h
      | some cs =>
        simp [hl, renderHunks_eq_nil] at h
        have hv := lcs_valid _ _ _ _ hl
        exact hunksOfChunks_ne_nil _ _ cs hv (fun e => he (splitLines_injective _ _ e)) h
  · intro h
    simp [lineDiff, lineDiffHunks, h, renderHunks]

end TmVerif.Diff
