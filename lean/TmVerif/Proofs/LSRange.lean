import TmVerif.Proofs.LSPos
/-!
C23 — lemmas about outgoing ranges (`diagRange`, `location`) of the language server model.
-/
namespace TmVerif.LS

theorem cutNL_spec (x : Bytes) : ∃ y, x = cutNL x ++ y ∧ NoNL (cutNL x) := by
  induction x with
  | nil => exact ⟨[], rfl, fun x hx => by simp [cutNL] at hx⟩
  | cons b t ih =>
    by_cases hb : b = 10
    · exact ⟨b :: t, by simp [cutNL, hb], fun x hx => by simp [cutNL, hb] at hx⟩
    · obtain ⟨y, hy, hn⟩ := ih
      refine ⟨y, by simp only [cutNL, hb, if_false, List.cons_append]; rw [← hy], ?_⟩
      intro x hx
      simp only [cutNL, hb, if_false, List.mem_cons] at hx
      rcases hx with rfl | hx
      · exact hb
      · exact hn x hx

theorem nlCount_le_length (s : Bytes) : nlCount s ≤ s.length := by
  induction s with
  | nil => simp [nlCount]
  | cons b t ih => simp only [nlCount, List.length_cons]; split <;> omega

theorem toU32_cast (k : Nat) (h : k < 4294967296) : toU32 (k : Int) = k := by
  unfold toU32
  omega

theorem contBytes_lt (n : Nat) : ∀ (lo hi : Nat) (t : Bytes) (v : Nat),
    contBytes n lo hi t = some v → v < 64 ^ n := by
  induction n with
  | zero => intro lo hi t v h; simp [contBytes] at h; omega
  | succ n ih =>
    intro lo hi t v h
    cases t with
    | nil => simp [contBytes] at h
    | cons b t =>
      simp only [contBytes] at h
      split at h
      · cases hc : contBytes n 0x80 0xBF t with
        | none => rw [hc] at h; exact nomatch h
        | some w =>
          rw [hc] at h
          cases h
          have := ih _ _ _ _ hc
          have hb : b % 64 < 64 := Nat.mod_lt _ (by omega)
          have : b % 64 * 64 ^ n ≤ 63 * 64 ^ n := Nat.mul_le_mul_right _ (by omega)
          rw [Nat.pow_succ]
          omega
      · exact nomatch h

/-- A rune takes at most as many UTF-16 units as UTF-8 bytes. -/
theorem units_le_width (b : Nat) (t : Bytes) :
    units (decodeRune (b :: t)).1 ≤ (decodeRune (b :: t)).2 := by
  simp only [decodeRune]
  split
  · rename_i hl
    unfold lead at hl
    split at hl
    · unfold units; split <;> omega
    · repeat' split at hl
      all_goals (simp at hl)
  · simp [units, runeError]
  · rename_i n lo hi hl
    cases hc : contBytes n lo hi t with
    | none => simp [units, runeError]
    | some v =>
      simp only
      have hv := contBytes_lt n lo hi t v hc
      unfold lead at hl
      repeat' split at hl
      all_goals (try (simp at hl; done))
      all_goals
        simp only [Lead.multi.injEq] at hl
        obtain ⟨h1, _, _⟩ := hl
        subst h1
        unfold units
        split <;> omega

theorem utf16Len_le_length (s : Bytes) : utf16Len s ≤ s.length := by
  generalize hn : s.length = n
  induction n using Nat.strongRecOn generalizing s with
  | _ n ih =>
    cases s with
    | nil => simp [utf16Len_nil]
    | cons b t =>
      rw [utf16Len_cons]
      have h1 := units_le_width b t
      have h2 := decodeRune_width_pos b t
      have h3 := decodeRune_width_le (b :: t)
      have := ih ((b :: t).drop (decodeRune (b :: t)).2).length
        (by simp only [List.length_drop]; omega) _ rfl
      simp only [List.length_drop] at this
      omega

theorem utf16Len_ascii (s : Bytes) (h : ∀ x ∈ s, x < 0x80) : utf16Len s = s.length := by
  induction s with
  | nil => simp [utf16Len_nil]
  | cons b t ih =>
    have hb : b < 0x80 := h b (by simp)
    rw [utf16Len_cons]
    have : decodeRune (b :: t) = (b, 1) := by simp [decodeRune, lead, hb]
    rw [this]
    simp only [List.drop_succ_cons, List.drop_zero, List.length_cons]
    rw [ih (fun x hx => h x (by simp [hx]))]
    have hu : units b = 1 := by unfold units; split <;> omega
    simp only [hu]
    omega

/-- Boundaries survive cutting the context behind them. -/
theorem Bnd_take {rest : Bytes} {k u : Nat} (h : Bnd rest k u) : ∀ m, k ≤ m → Bnd (rest.take m) k u := by
  induction h with
  | zero rest => intro m _; exact .zero _
  | step rest k u hne hnl hb ih =>
    intro m hm
    have hpos : 0 < (decodeRune rest).2 := by
      rcases Nat.eq_zero_or_pos (decodeRune rest).2 with h0 | h0
      · exact absurd ((decodeRune_width_zero rest).1 h0) hne
      · exact h0
    have hd : decodeRune (rest.take m) = decodeRune rest := decodeRune_take rest m (by omega) (by omega)
    have hne' : rest.take m ≠ [] := by
      cases rest with
      | nil => exact absurd rfl hne
      | cons b t =>
        obtain ⟨m', rfl⟩ : ∃ m', m = m' + 1 := ⟨m - 1, by omega⟩
        simp
    have := Bnd.step (rest.take m) k u hne' (by rw [hd]; exact hnl)
      (by rw [hd, List.drop_take]; exact ih _ (by omega))
    rw [hd] at this
    exact this

theorem utf16Len_Bnd {rest : Bytes} {k u : Nat} (h : Bnd rest k u) :
    utf16Len rest = u + utf16Len (rest.drop k) := by
  induction h with
  | zero rest => simp
  | step rest k u hne _ _ ih =>
    rw [utf16Len_ne_nil rest hne, ih, List.drop_drop]
    omega

/-- A boundary splits the UTF-16 length of a line. -/
theorem utf16Len_append_Bnd (seg rng post : Bytes) (u : Nat)
    (h : Bnd (seg ++ (rng ++ post)) seg.length u) : utf16Len (seg ++ rng) = utf16Len seg + utf16Len rng := by
  have h1 := Bnd_take h (seg.length + rng.length) (by omega)
  have e : (seg ++ (rng ++ post)).take (seg.length + rng.length) = seg ++ rng := by
    rw [← List.append_assoc]
    have : seg.length + rng.length = (seg ++ rng).length := by simp
    rw [this, List.take_left]
  rw [e] at h1
  have h2 := utf16Len_Bnd h1
  rw [List.drop_left] at h2
  rw [h2, Bnd_seg_units h1]

theorem slice_at (pre seg post : Bytes) (n : Nat) :
    slice (pre ++ seg ++ post) (pre.length + seg.length) (pre.length + seg.length + n) = post.take n := by
  unfold slice
  have : pre.length + seg.length = (pre ++ seg).length := by simp
  rw [this, List.drop_left]
  congr 1
  omega

/-- Facts about the line of an offset and of the end of a newline-free stretch behind it. -/
theorem line_facts (c : Bytes) (off n : Nat) (hn : off + n ≤ c.length)
    (hnl : NoNL (slice c off (off + n))) :
    lineCol c (off + n) = ((lineCol c off).1, (lineCol c off).2 + n) ∧
    (lineCol c off).2 ≤ off ∧ (lineCol c off).1 ≤ c.length ∧
    NoNL (slice c (off - (lineCol c off).2) (off + n)) := by
  obtain ⟨pre, seg, post, hc, ho, hp, hs⟩ := decomp_exists c off (by omega)
  subst hc; subst ho
  rw [slice_at] at hnl
  have hlen : (post.take n).length = n := by
    simp only [List.length_append] at hn
    simp only [List.length_take]; omega
  have hsplit : pre ++ seg ++ post = pre ++ (seg ++ post.take n) ++ post.drop n := by
    simp only [List.append_assoc, List.take_append_drop]
  have hs2 : NoNL (seg ++ post.take n) := by
    intro x hx
    simp only [List.mem_append] at hx
    rcases hx with hx | hx
    · exact hs x hx
    · exact hnl x hx
  have h1 := lineCol_decomp pre seg post hp hs
  have h2 := lineCol_decomp pre (seg ++ post.take n) (post.drop n) hp hs2
  rw [← hsplit] at h2
  simp only [List.length_append, hlen] at h2
  have e : pre.length + seg.length + n = pre.length + (seg.length + n) := by omega
  rw [h1, e, h2]
  refine ⟨rfl, by simp, ?_, ?_⟩
  · have := nlCount_le_length pre
    simp only [List.length_append]
    omega
  · simp only
    have e2 : pre.length + seg.length - seg.length = pre.length := by omega
    rw [e2]
    have e3 : pre.length + (seg.length + n) = pre.length + (seg ++ post.take n).length := by
      simp [hlen]
    rw [hsplit, e3, slice_decomp]
    exact hs2

/-- With a rune boundary at `off`, UTF-16 columns add up along the line. -/
theorem utf16_facts (c : Bytes) (off n : Nat) (hb : RuneBoundary c off) (hn : off + n ≤ c.length)
    (hnl : NoNL (slice c off (off + n))) :
    utf16Pos c (off + n) = ((utf16Pos c off).1, (utf16Pos c off).2 + utf16Len (slice c off (off + n))) := by
  obtain ⟨pre, seg, post, u, hc, ho, hp, hbnd⟩ := hb
  subst hc; subst ho
  rw [slice_at] at hnl ⊢
  have hs := Bnd_seg_noNL hbnd
  have hlen : (post.take n).length = n := by
    simp only [List.length_append] at hn
    simp only [List.length_take]; omega
  have hsplit : pre ++ seg ++ post = pre ++ (seg ++ post.take n) ++ post.drop n := by
    simp only [List.append_assoc, List.take_append_drop]
  have hs2 : NoNL (seg ++ post.take n) := by
    intro x hx
    simp only [List.mem_append] at hx
    rcases hx with hx | hx
    · exact hs x hx
    · exact hnl x hx
  have h1 := utf16Pos_decomp pre seg post hp hs
  have h2 := utf16Pos_decomp pre (seg ++ post.take n) (post.drop n) hp hs2
  rw [← hsplit] at h2
  simp only [List.length_append, hlen] at h2
  have e : pre.length + seg.length + n = pre.length + (seg.length + n) := by omega
  rw [h1, e, h2]
  simp only
  have hb2 : Bnd (seg ++ (post.take n ++ post.drop n)) seg.length u := by
    rw [List.take_append_drop]; exact hbnd
  rw [utf16Len_append_Bnd seg (post.take n) (post.drop n) u hb2]

theorem utf16Col_eq (c : Bytes) (off : Nat) (hle : (lineCol c off).2 ≤ off) (hoff : off ≤ c.length) :
    utf16Col c (off : Int) (((lineCol c off).2 : Nat) : Int) = ((utf16Pos c off).2 : Nat) := by
  unfold utf16Col utf16Pos
  by_cases h0 : (lineCol c off).2 = 0
  · simp [h0, slice, utf16Len_nil]
  · have h1 : ¬ (((lineCol c off).2 : Int) ≤ 0 ∨ ((lineCol c off).2 : Int) > (off : Int) ∨ (off : Int) > (c.length : Int)) := by
      omega
    rw [if_neg h1]
    have e1 : ((off : Int) - ((lineCol c off).2 : Int)).toNat = off - (lineCol c off).2 := by omega
    have e2 : (off : Int).toNat = off := by omega
    rw [e1, e2]

theorem mapM?_isSome {α β : Type} (f : α → Option β) (l : List α) (h : ∀ a ∈ l, f a ≠ none) :
    mapM? f l ≠ none := by
  induction l with
  | nil => simp [mapM?]
  | cons a l ih =>
    have ha := h a (by simp)
    have hl := ih (fun x hx => h x (by simp [hx]))
    cases hfa : f a with
    | none => exact absurd hfa ha
    | some b =>
      cases hml : mapM? f l with
      | none => exact absurd hml hl
      | some r => simp [mapM?, hfa, hml]

/-- The origin of a problem is a valid slice of the text (`0 ≤ Offset ≤ EndOffset ≤ len`). -/
def Problem.SliceOk (c : Bytes) : Problem → Prop
  | .status o => 0 ≤ o.off ∧ o.off ≤ o.stop ∧ o.stop ≤ c.length
  | .syntax _ _ => True

theorem walkCols_ne_noLine (col : Nat) : ∀ (rest : Bytes) (ret : Nat),
    walkCols col rest ret ≠ .error .noLine := by
  induction col using Nat.strongRecOn with
  | _ col ih =>
    intro rest ret
    cases col with
    | zero => rw [walkCols_zero]; exact fun h => nomatch h
    | succ col =>
      rw [walkCols_succ]
      split
      · exact fun h => nomatch h
      · split
        · cases col with
          | zero => exact fun h => nomatch h
          | succ col' => exact ih col' (by omega) _ _
        · exact ih col (by omega) _ _

def mkPos (p : Nat × Nat) : Pos := ⟨p.1, p.2⟩

/-- Length of the part of `content[off:stop]` before the first newline (`len(rng)` in `typecheck`). -/
def rngLen (c : Bytes) (o : Origin) : Nat := (cutNL (slice c o.off.toNat o.stop.toNat)).length

theorem rng_facts (c : Bytes) (o : Origin) (h : o.inDoc c = true) :
    o.off.toNat + rngLen c o ≤ c.length ∧
    slice c o.off.toNat (o.off.toNat + rngLen c o) = cutNL (slice c o.off.toNat o.stop.toNat) ∧
    NoNL (slice c o.off.toNat (o.off.toNat + rngLen c o)) := by
  simp only [Origin.inDoc, decide_eq_true_eq] at h
  obtain ⟨h0, h1, h2, _, _⟩ := h
  obtain ⟨y, hy, hn⟩ := cutNL_spec (slice c o.off.toNat o.stop.toNat)
  have hlen : (slice c o.off.toNat o.stop.toNat).length = o.stop.toNat - o.off.toNat := by
    unfold slice
    simp only [List.length_take, List.length_drop]
    omega
  have hle : rngLen c o ≤ o.stop.toNat - o.off.toNat := by
    unfold rngLen
    rw [← hlen]
    conv => rhs; rw [hy]
    simp
  have hs : slice c o.off.toNat (o.off.toNat + rngLen c o) = cutNL (slice c o.off.toNat o.stop.toNat) := by
    have e : slice c o.off.toNat (o.off.toNat + rngLen c o) =
        (slice c o.off.toNat o.stop.toNat).take (rngLen c o) := by
      unfold slice
      rw [List.take_take]
      congr 1
      omega
    rw [e]
    conv => lhs; rw [hy]
    unfold rngLen
    rw [List.take_left]
  refine ⟨by omega, hs, ?_⟩
  rw [hs]
  exact hn


theorem diagRange_isSome (m : Mode) (c : Bytes) (o : Origin)
    (h : 0 ≤ o.off ∧ o.off ≤ o.stop ∧ o.stop ≤ c.length) : diagRange m c o ≠ none := by
  unfold diagRange
  rw [if_pos h]
  simp only
  split
  · simp
  · split <;> simp

theorem utf16Col_eq_int (c : Bytes) (off : Int) (h0 : 0 ≤ off) (hle : (lineCol c off.toNat).2 ≤ off.toNat)
    (hoff : off.toNat ≤ c.length) :
    utf16Col c off (((lineCol c off.toNat).2 : Nat) : Int) = ((utf16Pos c off.toNat).2 : Nat) := by
  obtain ⟨n, rfl⟩ := Int.eq_ofNat_of_zero_le h0
  simp only [Int.toNat_natCast] at *
  exact utf16Col_eq c n hle hoff

end TmVerif.LS
