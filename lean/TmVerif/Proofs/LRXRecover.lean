import TmVerif.Proofs.LRXCancel
/-!
Error recovery (C19): transparency of the recovery machinery on runs that report no error, and
monotonicity of the reported error offsets.
-/
namespace TmVerif.LRX
open TmVerif.LR

/-! ### the pre-step does not look at the recovery parameters -/

theorem xpre_congr {x x' : XTables} (ht : x'.t = x.t) (hr : x'.rules = x.rules)
    (hf : x'.fixWhitespace = x.fixWhitespace) (hc : x'.cancellable = x.cancellable)
    (inp : Input) (k : Nat) (c : XCfg) : xpre x' inp k c = xpre x inp k c := by
  unfold xpre xdecode xreducePre xreduceTail xshiftPre xerrorPre failedShift applyRuleEvents
  simp only [ht, hr, hf, hc]

/-! ### entering the error branch of a recovering parser leaves an `error` event -/

theorem errPrelude_hasErr (inp : Input) (c : XCfg) (hc : RecInv c) : hasErr (errPrelude inp c).evs := by
  unfold errPrelude
  split
  · exact ⟨_, List.mem_cons_self, rfl⟩
  · next h0 =>
    rcases hc with h | h
    · exact absurd h h0
    · exact h

theorem onError_rec_moves {x : XTables} (inp : Input) (b : Bool) (fin : Int) (stop : Bool) (c : XCfg)
    (hr : x.recovering = true) : Moves inp (b, true) (errPrelude inp c) (onError x inp fin stop c).cfg := by
  rw [onError_eq_rec inp fin stop c hr]
  have h2 : Moves inp (b, true) (errPrelude inp c) { errPrelude inp c with recovering := 4 } :=
    .single (errPrelude_setRec inp b c)
  split
  · exact .refl _
  · split
    · exact h2
    · exact h2
    · next h => exact h2.trans (recoverFromError_moves (b, true) _ _ h)

theorem onError_hasErr {x : XTables} (inp : Input) (fin : Int) (stop : Bool) (c : XCfg)
    (hr : x.recovering = true) (hc : RecInv c) : hasErr (onError x inp fin stop c).cfg.evs :=
  hasErr_of_suffix (onError_rec_moves inp false fin stop c hr).evs_suffix (errPrelude_hasErr inp c hc)

theorem xstep_transparent {x x' : XTables} (ht : x'.t = x.t) (hrl : x'.rules = x.rules)
    (hf : x'.fixWhitespace = x.fixWhitespace) (hcn : x'.cancellable = x.cancellable)
    (hr : x.recovering = true) (inp : Input) (fin : Int) (stop stop' : Bool) (k : Nat) (c : XCfg)
    (hc : RecInv c) :
    xstep x' inp fin stop' k c = xstep x inp fin stop k c ∨ hasErr (xstep x inp fin stop k c).cfg.evs := by
  rw [xstep_pre, xstep_pre, xpre_congr ht hrl hf hcn]
  have hm := xpre_moves x inp true k c
  cases hp : xpre x inp k c with
  | cont c1 => exact .inl rfl
  | done r c1 => exact .inl rfl
  | err c1 =>
    right
    rw [hp] at hm
    exact onError_hasErr inp fin stop c1 hr (hm.recInv hc)

theorem xstep_recInv (x : XTables) (inp : Input) (fin : Int) (stop : Bool) (k : Nat) (c : XCfg)
    (hc : RecInv c) : RecInv (xstep x inp fin stop k c).cfg :=
  (xstep_moves x inp fin stop k c).recInv hc

theorem xrunLoop_transparent {x x' : XTables} (ht : x'.t = x.t) (hrl : x'.rules = x.rules)
    (hf : x'.fixWhitespace = x.fixWhitespace) (hcn : x'.cancellable = x.cancellable)
    (hr : x.recovering = true) (inp : Input) (fin : Int) (stop stop' : Bool) (k : Nat) (fuel : Nat)
    (c : XCfg) (hc : RecInv c) (r : XResult) (cf : XCfg)
    (h : xrunLoop x inp fin stop k fuel c = (r, cf)) (hne : ¬ hasErr cf.evs) :
    xrunLoop x' inp fin stop' k fuel c = (r, cf) := by
  induction fuel generalizing c with
  | zero => exact h
  | succ n ih =>
    by_cases hfin : c.state = fin
    · rw [xrunLoop_succ_fin hfin] at h ⊢; exact h
    · have hinv := xstep_recInv x inp fin stop k c hc
      have hmv := xrunLoop_moves x inp fin stop k
      rcases xstep_transparent ht hrl hf hcn hr inp fin stop stop' k c hc with he | he
      · cases hs : xstep x inp fin stop k c with
        | cont c' =>
          rw [hs] at hinv
          rw [xrunLoop_succ_cont hfin hs] at h
          rw [xrunLoop_succ_cont hfin (he.trans hs)]
          exact ih c' hinv h
        | done r' c' =>
          rw [xrunLoop_succ_done hfin hs] at h
          rw [xrunLoop_succ_done hfin (he.trans hs)]
          exact h
      · exfalso
        cases hs : xstep x inp fin stop k c with
        | cont c' =>
          rw [hs] at he
          rw [xrunLoop_succ_cont hfin hs] at h
          have := (hmv n c').evs_suffix
          rw [h] at this
          exact hne (hasErr_of_suffix this he)
        | done r' c' =>
          rw [hs] at he
          rw [xrunLoop_succ_done hfin hs] at h
          cases h
          exact hne he

theorem recInv_xinit (inp : Input) (start : Int) : RecInv (xinit inp start) := .inl rfl

theorem hasErr_iff (evs : List XEv) : hasErr evs ↔ ∃ o e, XEv.error o e ∈ evs := by
  constructor
  · rintro ⟨e, hm, he⟩
    cases e with
    | node => cases he
    | error o e => exact ⟨o, e, hm⟩
  · rintro ⟨o, e, hm⟩
    exact ⟨_, hm, rfl⟩

/-! ### reported error offsets are monotone -/

/-- offsets of the handler calls, most recent first -/
def errOffs (evs : List XEv) : List Nat :=
  evs.filterMap fun e => match e with | .error o _ => some o | .node _ _ _ => none

theorem errOffs_cons_error (o e : Nat) (evs : List XEv) : errOffs (.error o e :: evs) = o :: errOffs evs := rfl

theorem errOffs_nodes (l evs : List XEv) (h : ∀ e ∈ l, e.isNode = true) : errOffs (l ++ evs) = errOffs evs := by
  induction l with
  | nil => rfl
  | cons a l ih =>
    have ha := h a List.mem_cons_self
    cases a with
    | error => cases ha
    | node t o e =>
      show errOffs (l ++ evs) = _
      exact ih (fun e he => h e (List.mem_cons_of_mem _ he))

def MonoToks (inp : Input) : Prop := ∀ i j, i ≤ j → (inp.tok i).off ≤ (inp.tok j).off

/-- `next` is the last token fetched; every reported offset is at most its offset, and the reported
offsets are sorted -/
structure ErrInv (inp : Input) (c : XCfg) : Prop where
  next : c.next = none ∨ ∃ j, c.next = some (inp.tok j) ∧ j + 1 = c.pos
  sorted : (errOffs c.evs).Pairwise (· ≥ ·)
  bound : ∀ o ∈ errOffs c.evs, o ≤ (inp.tok (c.pos - 1)).off

theorem Move.errInv {inp b c c'} (hm : MonoToks inp) (h : Move inp b c c') (hc : ErrInv inp c) :
    ErrInv inp c' := by
  obtain ⟨h1, h2, h3⟩ := hc
  cases h with
  | fetch _ _ hn =>
    refine ⟨.inr ⟨c.pos, rfl, rfl⟩, h2, fun o ho => ?_⟩
    exact Nat.le_trans (h3 o ho) (hm _ _ (by show c.pos - 1 ≤ c.pos + 1 - 1; omega))
  | dropNext => exact ⟨.inl rfl, h2, h3⟩
  | setStack => exact ⟨h1, h2, h3⟩
  | emitNodes _ _ evs hn =>
    refine ⟨h1, ?_, ?_⟩
    · show (errOffs (evs ++ c.evs)).Pairwise _
      rw [errOffs_nodes _ _ hn]; exact h2
    · show ∀ o ∈ errOffs (evs ++ c.evs), _
      rw [errOffs_nodes _ _ hn]; exact h3
  | emitError _ _ tk hn _ =>
    have htk : tk = inp.tok (c.pos - 1) := by
      rcases h1 with h1 | ⟨j, h1, hj⟩
      · rw [h1] at hn; cases hn
      · rw [h1] at hn
        have : j = c.pos - 1 := by omega
        subst this
        exact (Option.some.inj hn).symm
    refine ⟨h1, ?_, ?_⟩
    · show (errOffs (.error tk.off tk.endo :: c.evs)).Pairwise _
      rw [errOffs_cons_error]
      refine List.Pairwise.cons ?_ h2
      intro o ho
      rw [htk]; exact h3 o ho
    · show ∀ o ∈ errOffs (.error tk.off tk.endo :: c.evs), _
      rw [errOffs_cons_error]
      intro o ho
      rcases List.mem_cons.1 ho with rfl | ho
      · rw [htk]; exact Nat.le_refl _
      · exact h3 o ho
  | setRec => exact ⟨h1, h2, h3⟩
  | shift _ _ tk q sc hn =>
    refine ⟨?_, h2, h3⟩
    show (if tk.sym ≠ 0 then none else c.next) = none ∨ ∃ j, (if tk.sym ≠ 0 then none else c.next) = _ ∧ _
    split
    · exact .inl rfl
    · exact h1
  | bump => exact ⟨h1, h2, h3⟩

theorem Moves.errInv {inp b c c'} (hm : MonoToks inp) (h : Moves inp b c c') (hc : ErrInv inp c) :
    ErrInv inp c' := by
  induction h with
  | refl => exact hc
  | tail _ hmv ih => exact hmv.errInv hm ih

theorem errInv_xinit (inp : Input) (start : Int) : ErrInv inp (xinit inp start) :=
  ⟨.inr ⟨0, rfl, rfl⟩, List.Pairwise.nil, fun _ h => by cases h⟩

theorem tok_off_le_endOff {inp : Input} (hm : MonoToks inp) (j : Nat) : (inp.tok j).off ≤ inp.endOff := by
  have h := hm j (max j inp.toks.size) (Nat.le_max_left _ _)
  have h2 : (inp.tok (max j inp.toks.size)).off = inp.endOff := by
    unfold Input.tok
    rw [Array.getElem?_eq_none (Nat.le_max_right _ _)]
  rw [h2] at h
  exact h

theorem mem_errOffs {o : Nat} {evs : List XEv} : o ∈ errOffs evs ↔ ∃ e, XEv.error o e ∈ evs := by
  unfold errOffs
  rw [List.mem_filterMap]
  constructor
  · rintro ⟨ev, hm, h⟩
    cases ev with
    | node => cases h
    | error o' e => simp only [Option.some.injEq] at h; subst h; exact ⟨e, hm⟩
  · rintro ⟨e, hm⟩
    exact ⟨_, hm, rfl⟩

/-- the list form of sortedness, spelled out on the event list (`l2` is earlier in time) -/
theorem errOffs_sorted_elim {evs l1 l2 : List XEv} {o1 e1 o2 e2 : Nat}
    (hs : (errOffs evs).Pairwise (· ≥ ·)) (h : evs = l1 ++ XEv.error o2 e2 :: l2)
    (hm : XEv.error o1 e1 ∈ l2) : o1 ≤ o2 := by
  subst h
  have : errOffs (l1 ++ XEv.error o2 e2 :: l2) = errOffs l1 ++ o2 :: errOffs l2 := by
    unfold errOffs
    rw [List.filterMap_append, List.filterMap_cons]
  rw [this] at hs
  have h2 := (List.pairwise_append.1 hs).2.1
  exact (List.pairwise_cons.1 h2).1 o1 (mem_errOffs.2 ⟨e1, hm⟩)

theorem xrun_errInv {x : XTables} {inp : Input} {input : Nat} {stop : Bool} {k fuel : Nat}
    {r : XResult} {c : XCfg} (hm : MonoToks inp) (h : xrun x inp input stop k fuel = (r, c)) :
    ErrInv inp c := by
  unfold xrun at h
  split at h
  · cases h; exact errInv_xinit inp input
  · next fin _ =>
    have := (xrunLoop_moves x inp fin stop k fuel (xinit inp input)).errInv hm (errInv_xinit inp input)
    rw [h] at this; exact this

/-- decidable form of `MonoToks`: adjacent tokens, up to and including the first EOI -/
def monoToksB (inp : Input) : Bool :=
  (List.range (inp.toks.size + 1)).all fun i => decide ((inp.tok i).off ≤ (inp.tok (i + 1)).off)

theorem monoToks_of_check {inp : Input} (h : monoToksB inp = true) : MonoToks inp := by
  have adj : ∀ i, (inp.tok i).off ≤ (inp.tok (i + 1)).off := by
    intro i
    by_cases hi : i < inp.toks.size + 1
    · unfold monoToksB at h
      rw [List.all_eq_true] at h
      have := h i (List.mem_range.2 hi)
      exact of_decide_eq_true this
    · have h1 : inp.tok i = ⟨0, inp.endOff, inp.endOff⟩ := by
        unfold Input.tok; rw [Array.getElem?_eq_none (by omega)]
      have h2 : inp.tok (i + 1) = ⟨0, inp.endOff, inp.endOff⟩ := by
        unfold Input.tok; rw [Array.getElem?_eq_none (by omega)]
      rw [h1, h2]; exact Nat.le_refl _
  intro i j hij
  induction j with
  | zero =>
    have : i = 0 := by omega
    subst this; exact Nat.le_refl _
  | succ n ih =>
    by_cases h' : i = n + 1
    · subst h'; exact Nat.le_refl _
    · exact Nat.le_trans (ih (by omega)) (adj n)

/-! ### the `recovering` counter: four shifts between two handler calls -/

/-- number of handler calls so far -/
def errCount (c : XCfg) : Nat := (errOffs c.evs).length

/-- the iteration at `c` decodes a shift action -/
def isShiftIter (x : XTables) (inp : Input) (c : XCfg) : Bool :=
  match xdecode x inp c with
  | some (_, .shift _) => true
  | _ => false

theorem Move.quiet_errOffs {inp b c c'} (h : Move inp (b, false) c c') : errOffs c'.evs = errOffs c.evs := by
  cases h with
  | emitNodes _ _ evs hn => exact errOffs_nodes _ _ hn
  | _ => rfl

theorem Moves.quiet_errOffs {inp b c c'} (h : Moves inp (b, false) c c') : errOffs c'.evs = errOffs c.evs := by
  induction h with
  | refl => rfl
  | tail _ hm ih => rw [hm.quiet_errOffs, ih]

theorem Move.quiet_recovering {inp c c'} (h : Move inp (false, false) c c') : c'.recovering = c.recovering := by
  cases h <;> rfl

theorem Moves.quiet_recovering {inp c c'} (h : Moves inp (false, false) c c') :
    c'.recovering = c.recovering := by
  induction h with
  | refl => rfl
  | tail _ hm ih => rw [hm.quiet_recovering, ih]

theorem xdecode_recovering {x : XTables} {inp : Input} {c c1 : XCfg} {a : Act}
    (h : xdecode x inp c = some (c1, a)) : c1.recovering = c.recovering := by
  rcases xdecode_cases h with h | h
  · rw [h]
  · rw [h, fetch_recovering]

theorem xpre_errOffs (x : XTables) (inp : Input) (k : Nat) (c : XCfg) :
    errOffs (xpre x inp k c).cfg.evs = errOffs c.evs :=
  (xpre_moves x inp false k c).quiet_errOffs

theorem xpre_recovering (x : XTables) (inp : Input) (k : Nat) (c : XCfg) :
    (xpre x inp k c).cfg.recovering = c.recovering ∨
      (isShiftIter x inp c = true ∧ (xpre x inp k c).cfg.recovering = c.recovering - 1) := by
  unfold xpre
  split
  · exact .inl rfl
  · next c1 rule h =>
    left
    rw [(xreducePre_moves x inp (false, false) c1 rule).quiet_recovering, xdecode_recovering h]
  · next c1 q h =>
    have hr := xdecode_recovering h
    unfold xshiftPre
    split
    · exact .inl hr
    · split
      · exact .inl hr
      · right
        exact ⟨by unfold isShiftIter; rw [h], by show c1.recovering - 1 = _; rw [hr]⟩
  · next c1 h =>
    have hr := xdecode_recovering h
    left
    unfold xerrorPre
    split
    · split <;> exact hr
    · exact hr

theorem errPrelude_errCount (inp : Input) (c : XCfg) :
    errCount (errPrelude inp c) = errCount c + (if c.recovering = 0 then 1 else 0) := by
  unfold errPrelude errCount
  split
  · show (errOffs (XEv.error _ _ :: (c.fetch inp).1.evs)).length = _
    rw [errOffs_cons_error, fetch_evs]; rfl
  · rfl

theorem onError_cont {x : XTables} {inp : Input} {fin : Int} {stop : Bool} {c c3 : XCfg}
    (h : onError x inp fin stop c = .cont c3) :
    c3.recovering = 4 ∧ errCount c3 = errCount c + (if c.recovering = 0 then 1 else 0) := by
  cases hr : x.recovering
  · rw [onError_eq_norec inp fin stop c hr] at h; cases h
  · rw [onError_eq_rec inp fin stop c hr] at h
    split at h
    · cases h
    · split at h
      · cases h
      · cases h
      · next c3' hrf =>
        cases h
        have hm := recoverFromError_moves (false, false) _ _ hrf
        refine ⟨hm.quiet_recovering, ?_⟩
        rw [← errPrelude_errCount]
        unfold errCount
        rw [hm.quiet_errOffs]

/-- accounting for one iteration that continues the loop -/
theorem xstep_potential {x : XTables} {inp : Input} {fin : Int} {stop : Bool} {k : Nat} {c c' : XCfg}
    (h4 : c.recovering ≤ 4) (h : xstep x inp fin stop k c = .cont c') :
    c'.recovering ≤ 4 ∧
      4 * errCount c' + c.recovering ≤
        4 * errCount c + c'.recovering + (if isShiftIter x inp c = true then 1 else 0) := by
  rw [xstep_pre] at h
  have he := xpre_errOffs x inp k c
  have hr := xpre_recovering x inp k c
  cases hp : xpre x inp k c with
  | cont c1 =>
    rw [hp] at h he hr
    cases h
    have he' : errCount c' = errCount c := by unfold errCount; rw [show errOffs c'.evs = _ from he]
    have hr' : c'.recovering = c.recovering ∨ (isShiftIter x inp c = true ∧ c'.recovering = c.recovering - 1) := hr
    rcases hr' with h1 | ⟨h1, h2⟩
    · rw [he', h1]; exact ⟨h4, by split <;> omega⟩
    · rw [he', h2, if_pos h1]; exact ⟨by omega, by omega⟩
  | done r c1 => rw [hp] at h; cases h
  | err c1 =>
    rw [hp] at h he hr
    have he' : errCount c1 = errCount c := by unfold errCount; rw [show errOffs c1.evs = _ from he]
    have hr' : c1.recovering = c.recovering ∨ (isShiftIter x inp c = true ∧ c1.recovering = c.recovering - 1) := hr
    obtain ⟨h3, h5⟩ := onError_cont (show onError x inp fin stop c1 = .cont c' from h)
    rw [h3, h5, he']
    refine ⟨Nat.le_refl _, ?_⟩
    rcases hr' with h1 | ⟨h1, h2⟩
    · rw [h1]; split <;> split <;> omega
    · rw [h2, if_pos h1]; split <;> omega

/-- `XIter … c c' m`: the loop gets from `c` to `c'` by some iterations, `m` of which decode a shift -/
inductive XIter (x : XTables) (inp : Input) (fin : Int) (stop : Bool) (k : Nat) : XCfg → XCfg → Nat → Prop
  | refl (c : XCfg) : XIter x inp fin stop k c c 0
  | step {c c' c'' : XCfg} {m : Nat} : c.state ≠ fin → xstep x inp fin stop k c = .cont c' →
      XIter x inp fin stop k c' c'' m →
      XIter x inp fin stop k c c'' (m + (if isShiftIter x inp c = true then 1 else 0))

theorem XIter.potential {x : XTables} {inp : Input} {fin : Int} {stop : Bool} {k : Nat} {c c' : XCfg}
    {m : Nat} (h : XIter x inp fin stop k c c' m) (h4 : c.recovering ≤ 4) :
    c'.recovering ≤ 4 ∧ 4 * errCount c' + c.recovering ≤ 4 * errCount c + c'.recovering + m := by
  induction h with
  | refl => exact ⟨h4, Nat.le_refl _⟩
  | step _ hs _ ih =>
    obtain ⟨h1, h2⟩ := xstep_potential h4 hs
    obtain ⟨h3, h5⟩ := ih h1
    exact ⟨h3, by omega⟩

/-- `XIter` describes segments of `xrunLoop` -/
theorem XIter.xrunLoop {x : XTables} {inp : Input} {fin : Int} {stop : Bool} {k : Nat} {c c' : XCfg}
    {m : Nat} (h : XIter x inp fin stop k c c' m) :
    ∃ n, ∀ fuel, xrunLoop x inp fin stop k (n + fuel) c = xrunLoop x inp fin stop k fuel c' := by
  induction h with
  | refl => exact ⟨0, fun fuel => by rw [Nat.zero_add]⟩
  | step hfin hs _ ih =>
    obtain ⟨n, hn⟩ := ih
    refine ⟨n + 1, fun fuel => ?_⟩
    rw [show n + 1 + fuel = (n + fuel) + 1 by omega, xrunLoop_succ_cont hfin hs, hn]

/-- every run of the loop is an `XIter` segment followed by the final test or a final iteration -/
theorem xrunLoop_iter (x : XTables) (inp : Input) (fin : Int) (stop : Bool) (k : Nat) (fuel : Nat)
    (c : XCfg) :
    ∃ c' m, XIter x inp fin stop k c c' m ∧
      (xrunLoop x inp fin stop k fuel c = (.fuel, c') ∨
       (c'.state = fin ∧ xrunLoop x inp fin stop k fuel c = (.accept, c')) ∨
       ∃ r cf, c'.state ≠ fin ∧ xstep x inp fin stop k c' = .done r cf ∧
         xrunLoop x inp fin stop k fuel c = (r, cf)) := by
  induction fuel generalizing c with
  | zero => exact ⟨c, 0, .refl c, .inl rfl⟩
  | succ n ih =>
    by_cases hfin : c.state = fin
    · exact ⟨c, 0, .refl c, .inr (.inl ⟨hfin, xrunLoop_succ_fin hfin⟩)⟩
    · cases hs : xstep x inp fin stop k c with
      | cont c1 =>
        obtain ⟨c', m, hi, hres⟩ := ih c1
        refine ⟨c', _, .step hfin hs hi, ?_⟩
        rw [xrunLoop_succ_cont hfin hs]
        exact hres
      | done r cf =>
        exact ⟨c, 0, .refl c, .inr (.inr ⟨r, cf, hfin, hs, xrunLoop_succ_done hfin hs⟩)⟩

theorem xpre_done_ne_accept {x : XTables} {inp : Input} {k : Nat} {c cf : XCfg} :
    xpre x inp k c ≠ .done .accept cf := by
  intro hp
  unfold xpre at hp
  split at hp
  · cases hp
  · cases xreducePre_done hp
  · unfold xshiftPre at hp
    split at hp
    · cases hp
    · split at hp <;> cases hp
  · unfold xerrorPre at hp
    split at hp
    · split at hp <;> cases hp
    · cases hp

theorem onError_done_ne_accept {x : XTables} (inp : Input) (fin : Int) (stop : Bool) (c cf : XCfg) :
    onError x inp fin stop c ≠ .done .accept cf := by
  intro h
  cases hr : x.recovering
  · rw [onError_eq_norec inp fin stop c hr] at h; cases h
  · rw [onError_eq_rec inp fin stop c hr] at h
    split at h
    · cases h
    · split at h <;> cases h

/-- an iteration never returns `accept` (acceptance is the loop's test `state = end`) -/
theorem xstep_done_ne_accept {x : XTables} {inp : Input} {fin : Int} {stop : Bool} {k : Nat} {c cf : XCfg} :
    xstep x inp fin stop k c ≠ .done .accept cf := by
  intro h
  rw [xstep_pre] at h
  cases hp : xpre x inp k c with
  | cont c1 => rw [hp] at h; cases h
  | done r c1 => rw [hp] at h; cases h; exact xpre_done_ne_accept hp
  | err c1 => rw [hp] at h; exact onError_done_ne_accept inp fin stop c1 cf h

/-- an accepting run is an `XIter` segment ending in the final state -/
theorem xrunLoop_accept_iter {x : XTables} {inp : Input} {fin : Int} {stop : Bool} {k fuel : Nat}
    {c cf : XCfg} (h : xrunLoop x inp fin stop k fuel c = (.accept, cf)) :
    ∃ m, XIter x inp fin stop k c cf m ∧ cf.state = fin := by
  obtain ⟨c', m, hi, hres⟩ := xrunLoop_iter x inp fin stop k fuel c
  rcases hres with h' | ⟨hf, h'⟩ | ⟨r, cf', _, hs, h'⟩
  · rw [h] at h'; cases h'
  · rw [h] at h'; cases h'; exact ⟨m, hi, hf⟩
  · rw [h] at h'; cases h'; exact absurd hs xstep_done_ne_accept

end TmVerif.LRX
