import TmVerif.Proofs.SetClosureSimple
/-!
`slowClosure`: Gauss–Seidel iteration over a component that contains an intersection node.
Invariant `SlowInv`: every stored set is below its own equation's right-hand side (so each update only
adds elements), union nodes keep their initial elements, nodes outside the component are untouched, and
everything stays below any assignment `b` that is closed under the component's equations.
A pass that leaves `dirty` false has recomputed every node to the value it already had: a fixpoint.
-/
namespace TmVerif.SetClosure
open TmVerif.IntSet TmVerif.Graph

/-- the value `slowClosure` computes for a union or intersection node `v` in state `x` -/
def slowRes (sys : Sys) (x : St) (v : Nat) : IntSet :=
  match opOf sys v with
  | .inter => (edgesOf sys v).foldl (fun r w => r.inter (x.get w)) ⟨true, []⟩
  | .union => (edgesOf sys v).foldl (fun r w => r.merge (x.get w)) (x.get v)
  | .compl => x.get v

theorem foldl_merge_spec (x : St) (hS : ∀ w, Sorted (x.get w).set) :
    ∀ (ws : List Nat) (acc : IntSet), Sorted acc.set →
      Sorted (ws.foldl (fun r w => r.merge (x.get w)) acc).set ∧
      ∀ e, (ws.foldl (fun r w => r.merge (x.get w)) acc).Mem e ↔ acc.Mem e ∨ ∃ w ∈ ws, (x.get w).Mem e := by
  intro ws
  induction ws with
  | nil => intro acc h; exact ⟨h, by simp⟩
  | cons w ws ih =>
    intro acc hacc
    simp only [List.foldl_cons]
    obtain ⟨h1, h2⟩ := ih (acc.merge (x.get w)) (sorted_merge _ _ hacc (hS w))
    refine ⟨h1, fun e => ?_⟩
    rw [h2 e, mem_merge _ _ hacc (hS w)]
    constructor
    · rintro ((h | h) | ⟨w', hw', h⟩)
      · exact .inl h
      · exact .inr ⟨w, by simp, h⟩
      · exact .inr ⟨w', by simp [hw'], h⟩
    · rintro (h | ⟨w', hw', h⟩)
      · exact .inl (.inl h)
      · simp only [List.mem_cons] at hw'
        rcases hw' with rfl | hw'
        · exact .inl (.inr h)
        · exact .inr ⟨w', hw', h⟩

theorem foldl_inter_spec (x : St) (hS : ∀ w, Sorted (x.get w).set) :
    ∀ (ws : List Nat) (acc : IntSet), Sorted acc.set →
      Sorted (ws.foldl (fun r w => r.inter (x.get w)) acc).set ∧
      ∀ e, (ws.foldl (fun r w => r.inter (x.get w)) acc).Mem e ↔ acc.Mem e ∧ ∀ w ∈ ws, (x.get w).Mem e := by
  intro ws
  induction ws with
  | nil => intro acc h; exact ⟨h, by simp⟩
  | cons w ws ih =>
    intro acc hacc
    simp only [List.foldl_cons]
    obtain ⟨h1, h2⟩ := ih (acc.inter (x.get w)) (sorted_inter _ _ hacc (hS w))
    refine ⟨h1, fun e => ?_⟩
    rw [h2 e, mem_inter _ _ hacc (hS w)]
    constructor
    · rintro ⟨⟨h, hw⟩, h'⟩
      refine ⟨h, fun w' hw' => ?_⟩
      simp only [List.mem_cons] at hw'
      rcases hw' with rfl | hw'
      · exact hw
      · exact h' w' hw'
    · rintro ⟨h, h'⟩
      exact ⟨⟨h, h' w (by simp)⟩, fun w' hw' => h' w' (by simp [hw'])⟩

theorem mem_univSet (e : Int) : (⟨true, []⟩ : IntSet).Mem e := by simp [IntSet.Mem]

theorem slowRes_union {sys : Sys} {x : St} {v : Nat} (hS : ∀ w, Sorted (x.get w).set)
    (h : opOf sys v = .union) :
    Sorted (slowRes sys x v).set ∧
    ∀ e, (slowRes sys x v).Mem e ↔ (x.get v).Mem e ∨ ∃ w ∈ edgesOf sys v, (x.get w).Mem e := by
  unfold slowRes; rw [h]
  exact foldl_merge_spec x hS _ _ (hS v)

theorem slowRes_inter {sys : Sys} {x : St} {v : Nat} (hS : ∀ w, Sorted (x.get w).set)
    (h : opOf sys v = .inter) :
    Sorted (slowRes sys x v).set ∧
    ∀ e, (slowRes sys x v).Mem e ↔ ∀ w ∈ edgesOf sys v, (x.get w).Mem e := by
  unfold slowRes; rw [h]
  obtain ⟨h1, h2⟩ := foldl_inter_spec x hS (edgesOf sys v) ⟨true, []⟩ (by trivial)
  refine ⟨h1, fun e => ?_⟩
  rw [h2 e]
  simp [mem_univSet]

theorem slowRes_congr {sys : Sys} {x y : St} (h : x.sets = y.sets) (v : Nat) :
    slowRes sys x v = slowRes sys y v := by
  have : St.get x = St.get y := by funext u; unfold St.get; rw [h]
  unfold slowRes
  simp only [this]

/-! ### `slowUpd` -/

theorem slowUpd_get (x : St) (d : Bool) (v : Nat) (res : IntSet) (hv : v < x.sets.length) (u : Nat) :
    (slowUpd x d v res).1.get u = if u = v then res else x.get u := by
  unfold slowUpd
  split
  · rename_i h
    by_cases huv : u = v
    · subst huv; simp [h]
    · simp [huv]
  · simp only
    rw [get_set]
    simp [hv]

theorem slowUpd_err (x : St) (d : Bool) (v : Nat) (res : IntSet) : (slowUpd x d v res).1.err = x.err := by
  unfold slowUpd; split <;> rfl

theorem slowUpd_timeout (x : St) (d : Bool) (v : Nat) (res : IntSet) :
    (slowUpd x d v res).1.timeout = x.timeout := by
  unfold slowUpd; split <;> rfl

theorem slowUpd_len (x : St) (d : Bool) (v : Nat) (res : IntSet) :
    (slowUpd x d v res).1.sets.length = x.sets.length := by
  unfold slowUpd; split <;> simp

theorem slowUpd_clean (x : St) (d : Bool) (v : Nat) (res : IntSet) (h : (slowUpd x d v res).2 = false) :
    d = false ∧ res = x.get v ∧ (slowUpd x d v res).1 = x := by
  unfold slowUpd at h ⊢
  split
  · rename_i he
    rw [if_pos he] at h
    exact ⟨h, he, rfl⟩
  · rename_i he
    rw [if_neg he] at h
    cases h

theorem slowUpd_dirty (x : St) (v : Nat) (res : IntSet) : (slowUpd x true v res).2 = true := by
  unfold slowUpd; split <;> rfl

/-! ### `slowNode` by kind of node -/

theorem slowNode_union {sys : Sys} {snap : List Nat} {x : St} {d : Bool} {v : Nat}
    (h : opOf sys v = .union) : slowNode sys snap (x, d) v = slowUpd x d v (slowRes sys x v) := by
  simp [slowNode, slowRes, h]

theorem slowNode_inter {sys : Sys} {snap : List Nat} {x : St} {d : Bool} {v : Nat}
    (h : opOf sys v = .inter) : slowNode sys snap (x, d) v = slowUpd x d v (slowRes sys x v) := by
  simp [slowNode, slowRes, h]

theorem slowNode_offender {sys : Sys} {snap : List Nat} {x : St} {d : Bool} {v w : Nat}
    (h : opOf sys v = .compl) (he : edgesOf sys v = [w]) (hw : w ∈ snap) :
    slowNode sys snap (x, d) v = ({ x with err := x.err ++ [v] }, d) := by
  simp [slowNode, h, he, hw]

/-- In a component with an intersection node every complement node has its edge inside. -/
theorem slow_compl_offends {sys : Sys} {comp snap : List Nat} {s : St} (c : CompCtx sys comp snap s)
    {q : Nat} (hq : q ∈ comp) (hqi : opOf sys q = .inter) {v : Nat} (hv : v ∈ comp)
    (hvc : opOf sys v = .compl) : ∃ w, edgesOf sys v = [w] ∧ w ∈ snap := by
  obtain ⟨w, hw⟩ := c.wf.compl1 v (c.lt v hv) hvc
  refine ⟨w, hw, ?_⟩
  rcases scc_edge_or_single c.scc hv with ⟨w0, hw0, hw0c⟩ | hsingle
  · have : w0 ∈ edgesOf sys v := hw0
    have hmem := this
    rw [hw] at this
    simp only [List.mem_singleton] at this
    subst this
    exact (c.snapIff hv hmem).2 hw0c
  · have := hsingle q hq
    subst this
    rw [hqi] at hvc; cases hvc

/-! ### the invariant -/

/-- `b` is closed under the equations of the union and intersection nodes of `comp`, and contains the
sets stored for successors outside `comp` -/
structure Above (sys : Sys) (comp : List Nat) (s0 : St) (b : Asg) : Prop where
  union : ∀ v ∈ comp, opOf sys v = .union → ∀ e, (e ∈ initOf sys v ∨ ∃ w ∈ edgesOf sys v, b w e) → b v e
  inter : ∀ v ∈ comp, opOf sys v = .inter → ∀ e, (∀ w ∈ edgesOf sys v, b w e) → b v e
  out : ∀ v ∈ comp, ∀ w ∈ edgesOf sys v, w ∉ comp → ∀ e, (s0.get w).Mem e → b w e

structure SlowInv (sys : Sys) (comp : List Nat) (s0 x : St) (b : Asg) : Prop where
  len : x.sets.length = sys.length
  sorted : ∀ v, Sorted (x.get v).set
  frame : ∀ u, u ∉ comp → x.get u = s0.get u
  lowU : ∀ v ∈ comp, opOf sys v = .union → ∀ e, e ∈ initOf sys v → (x.get v).Mem e
  upU : ∀ v ∈ comp, opOf sys v = .union → ∀ e, (x.get v).Mem e →
    e ∈ initOf sys v ∨ ∃ w ∈ edgesOf sys v, (x.get w).Mem e
  upI : ∀ v ∈ comp, opOf sys v = .inter → ∀ e, (x.get v).Mem e → ∀ w ∈ edgesOf sys v, (x.get w).Mem e
  keepC : ∀ v ∈ comp, opOf sys v = .compl → x.get v = ⟨false, []⟩
  below : ∀ v ∈ comp, ∀ e, (x.get v).Mem e → b v e

theorem slowInv_init {sys : Sys} {comp snap : List Nat} {s : St} (c : CompCtx sys comp snap s) (b : Asg)
    (hb : Above sys comp s b) : SlowInv sys comp s s b := by
  refine ⟨c.len, c.sorted, fun _ _ => rfl, ?_, ?_, ?_, ?_, ?_⟩
  · intro v hv _ e he; rw [c.fresh v hv, mem_fresh]; exact he
  · intro v hv _ e he; rw [c.fresh v hv, mem_fresh] at he; exact .inl he
  · intro v hv hop e he
    rw [c.fresh v hv, mem_fresh, c.wf.initE v (by rw [hop]; simp)] at he; cases he
  · intro v hv hop
    rw [c.fresh v hv, c.wf.initE v (by rw [hop]; simp)]
  · intro v hv e he
    rw [c.fresh v hv, mem_fresh] at he
    cases hop : opOf sys v with
    | union => exact hb.union v hv hop e (.inl he)
    | inter => rw [c.wf.initE v (by rw [hop]; simp)] at he; cases he
    | compl => rw [c.wf.initE v (by rw [hop]; simp)] at he; cases he

/-- replacing the set of a union/intersection node `v` by its recomputed value -/
theorem SlowInv.update {sys : Sys} {comp : List Nat} {s0 x : St} {b : Asg} (I : SlowInv sys comp s0 x b)
    (hb : Above sys comp s0 b) (hlt : ∀ v ∈ comp, v < sys.length) {v : Nat} (hv : v ∈ comp)
    (hop : opOf sys v ≠ .compl) (d : Bool) :
    SlowInv sys comp s0 (slowUpd x d v (slowRes sys x v)).1 b := by
  have hvl : v < x.sets.length := by rw [I.len]; exact hlt v hv
  have hget := slowUpd_get x d v (slowRes sys x v) hvl
  -- the recomputed value contains the old one and is below `b`
  have hbw : ∀ w ∈ edgesOf sys v, ∀ e, (x.get w).Mem e → b w e := by
    intro w hw e he
    by_cases hwc : w ∈ comp
    · exact I.below w hwc e he
    · rw [I.frame w hwc] at he; exact hb.out v hv w hw hwc e he
  have hres : Sorted (slowRes sys x v).set ∧ (∀ e, (x.get v).Mem e → (slowRes sys x v).Mem e) ∧
      (∀ e, (slowRes sys x v).Mem e → b v e) := by
    cases hop' : opOf sys v with
    | compl => exact absurd hop' hop
    | union =>
      obtain ⟨h1, h2⟩ := slowRes_union I.sorted hop'
      refine ⟨h1, fun e he => (h2 e).2 (.inl he), fun e he => ?_⟩
      rcases (h2 e).1 he with h | ⟨w, hw, h⟩
      · exact I.below v hv e h
      · exact hb.union v hv hop' e (.inr ⟨w, hw, hbw w hw e h⟩)
    | inter =>
      obtain ⟨h1, h2⟩ := slowRes_inter I.sorted hop'
      refine ⟨h1, fun e he => (h2 e).2 (I.upI v hv hop' e he), fun e he => ?_⟩
      exact hb.inter v hv hop' e (fun w hw => hbw w hw e ((h2 e).1 he w hw))
  obtain ⟨hsrt, hgrow, hbel⟩ := hres
  have hmono : ∀ u e, (x.get u).Mem e → ((slowUpd x d v (slowRes sys x v)).1.get u).Mem e := by
    intro u e he
    rw [hget u]
    split
    · rename_i huv; subst huv; exact hgrow e he
    · exact he
  refine ⟨by rw [slowUpd_len]; exact I.len, ?_, ?_, ?_, ?_, ?_, ?_, ?_⟩
  · intro u; rw [hget u]; split
    · exact hsrt
    · exact I.sorted u
  · intro u hu
    rw [hget u, if_neg (fun e : u = v => hu (e ▸ hv))]
    exact I.frame u hu
  · intro u hu hopu e he
    exact hmono u e (I.lowU u hu hopu e he)
  · intro u hu hopu e he
    have hold : e ∈ initOf sys u ∨ ∃ w ∈ edgesOf sys u, (x.get w).Mem e := by
      rw [hget u] at he
      split at he
      · rename_i huv; subst huv
        rcases ((slowRes_union I.sorted hopu).2 e).1 he with h | h
        · exact I.upU u hu hopu e h
        · exact .inr h
      · exact I.upU u hu hopu e he
    rcases hold with h | ⟨w, hw, h⟩
    · exact .inl h
    · exact .inr ⟨w, hw, hmono w e h⟩
  · intro u hu hopu e he w hw
    apply hmono w e
    rw [hget u] at he
    split at he
    · rename_i huv; subst huv
      exact ((slowRes_inter I.sorted hopu).2 e).1 he w hw
    · exact I.upI u hu hopu e he w hw
  · intro u hu hopu
    rw [hget u, if_neg (fun e : u = v => hop (e ▸ hopu))]
    exact I.keepC u hu hopu
  · intro u hu e he
    rw [hget u] at he
    split at he
    · rename_i huv; subst huv; exact hbel e he
    · exact I.below u hu e he

theorem SlowInv.addErr {sys : Sys} {comp : List Nat} {s0 x : St} {b : Asg} (I : SlowInv sys comp s0 x b)
    (v : Nat) : SlowInv sys comp s0 { x with err := x.err ++ [v] } b :=
  ⟨I.len, I.sorted, I.frame, I.lowU, I.upU, I.upI, I.keepC, I.below⟩

/-! ### one pass -/

/-- facts about one pass `for _, v := range component` over a part `vs` of the component -/
structure PassOk (sys : Sys) (comp snap : List Nat) (s0 : St) (b : Asg) (vs : List Nat) (x : St) (d : Bool)
    (r : St × Bool) : Prop where
  inv : SlowInv sys comp s0 r.1 b
  err : ∃ extra, r.1.err = x.err ++ extra ∧ (∀ e ∈ extra, e ∈ vs ∧ Offends sys snap e) ∧
    ((∃ v ∈ vs, opOf sys v = .compl) → extra ≠ [])
  tmo : r.1.timeout = x.timeout
  dirty : d = true → r.2 = true
  clean : r.2 = false → r.1.sets = x.sets ∧ ∀ v ∈ vs, opOf sys v ≠ .compl → slowRes sys x v = x.get v

theorem slow_pass {sys : Sys} {comp snap : List Nat} {s0 : St} (c : CompCtx sys comp snap s0) {b : Asg}
    (hb : Above sys comp s0 b) {q : Nat} (hq : q ∈ comp) (hqi : opOf sys q = .inter) :
    ∀ (vs : List Nat), (∀ v ∈ vs, v ∈ comp) → ∀ (x : St) (d : Bool), SlowInv sys comp s0 x b →
      PassOk sys comp snap s0 b vs x d (vs.foldl (slowNode sys snap) (x, d)) := by
  intro vs
  induction vs with
  | nil =>
    intro _ x d I
    exact ⟨I, ⟨[], by simp, by simp, by simp⟩, rfl, fun h => h, fun _ => ⟨rfl, by simp⟩⟩
  | cons v vs ih =>
    intro hvs x d I
    have hv : v ∈ comp := hvs v (by simp)
    have hvs' : ∀ u ∈ vs, u ∈ comp := fun u hu => hvs u (by simp [hu])
    simp only [List.foldl_cons]
    by_cases hop : opOf sys v = .compl
    · obtain ⟨w, he, hw⟩ := slow_compl_offends c hq hqi hv hop
      rw [slowNode_offender hop he hw]
      have P := ih hvs' { x with err := x.err ++ [v] } d (I.addErr v)
      obtain ⟨extra, h1, h2, _⟩ := P.err
      refine ⟨P.inv, ⟨[v] ++ extra, by rw [h1]; simp, ?_, fun _ => by simp⟩, P.tmo, P.dirty, ?_⟩
      · intro e he'
        simp only [List.mem_append, List.mem_singleton] at he'
        rcases he' with rfl | he'
        · exact ⟨by simp, hop, w, by rw [he]; simp, hw⟩
        · exact ⟨by simp [(h2 e he').1], (h2 e he').2⟩
      · intro hr
        obtain ⟨h3, h4⟩ := P.clean hr
        refine ⟨h3, fun u hu hopu => ?_⟩
        simp only [List.mem_cons] at hu
        rcases hu with rfl | hu
        · exact absurd hop hopu
        · exact (slowRes_congr (y := { x with err := x.err ++ [v] }) rfl u).trans (h4 u hu hopu)
    · have hnode : slowNode sys snap (x, d) v = slowUpd x d v (slowRes sys x v) := by
        cases hop' : opOf sys v with
        | compl => exact absurd hop' hop
        | union => exact slowNode_union hop'
        | inter => exact slowNode_inter hop'
      rw [hnode]
      have I' := I.update hb c.lt hv hop d
      have P := ih hvs' (slowUpd x d v (slowRes sys x v)).1 (slowUpd x d v (slowRes sys x v)).2 I'
      obtain ⟨extra, h1, h2, h3⟩ := P.err
      refine ⟨P.inv, ⟨extra, by rw [h1, slowUpd_err], ?_, ?_⟩, by rw [P.tmo, slowUpd_timeout], ?_, ?_⟩
      · intro e he'; exact ⟨by simp [(h2 e he').1], (h2 e he').2⟩
      · rintro ⟨u, hu, hopu⟩
        simp only [List.mem_cons] at hu
        rcases hu with rfl | hu
        · exact absurd hopu hop
        · exact h3 ⟨u, hu, hopu⟩
      · intro hd
        apply P.dirty
        subst hd
        exact slowUpd_dirty x v _
      · intro hr
        obtain ⟨h4, h5⟩ := P.clean hr
        have hcl : (slowUpd x d v (slowRes sys x v)).2 = false := by
          cases hh : (slowUpd x d v (slowRes sys x v)).2 with
          | false => rfl
          | true => rw [P.dirty hh] at hr; cases hr
        obtain ⟨_, h6, h7⟩ := slowUpd_clean x d v _ hcl
        refine ⟨h4.trans (by rw [h7]), fun u hu hopu => ?_⟩
        simp only [List.mem_cons] at hu
        rcases hu with rfl | hu
        · exact h6
        · have := h5 u hu hopu
          rw [h7] at this
          exact this

/-! ### the loop -/

structure LoopOk (sys : Sys) (comp snap : List Nat) (s0 : St) (b : Asg) (x t : St) : Prop where
  inv : SlowInv sys comp s0 t b
  err : ∃ extra, t.err = x.err ++ extra ∧ (∀ e ∈ extra, e ∈ comp ∧ Offends sys snap e)
  tmo : x.timeout = true → t.timeout = true
  fix : t.timeout = false → ∀ v ∈ comp, opOf sys v ≠ .compl → slowRes sys t v = t.get v

theorem slow_loop {sys : Sys} {comp snap : List Nat} {s0 : St} (c : CompCtx sys comp snap s0) {b : Asg}
    (hb : Above sys comp s0 b) {q : Nat} (hq : q ∈ comp) (hqi : opOf sys q = .inter) :
    ∀ (fuel : Nat) (x : St), SlowInv sys comp s0 x b →
      LoopOk sys comp snap s0 b x (slowLoop sys comp snap fuel x) := by
  intro fuel
  induction fuel with
  | zero =>
    intro x I
    exact ⟨⟨I.len, I.sorted, I.frame, I.lowU, I.upU, I.upI, I.keepC, I.below⟩, ⟨[], by simp [slowLoop], by simp⟩,
      fun _ => rfl, fun h => by simp [slowLoop] at h⟩
  | succ fuel ih =>
    intro x I
    have P := slow_pass c hb hq hqi comp (fun _ h => h) x false I
    simp only [slowLoop]
    generalize comp.foldl (slowNode sys snap) (x, false) = r at P
    obtain ⟨extra, h1, h2, _⟩ := P.err
    split
    · have L := ih r.1 P.inv
      obtain ⟨extra', h3, h4⟩ := L.err
      refine ⟨L.inv, ⟨extra ++ extra', by rw [h3, h1]; simp, ?_⟩, ?_, L.fix⟩
      · intro e he
        simp only [List.mem_append] at he
        rcases he with he | he
        · exact h2 e he
        · exact h4 e he
      · intro hx; apply L.tmo; rw [P.tmo]; exact hx
    · rename_i hd
      have hd' : r.2 = false := by cases h : r.2 with
        | false => rfl
        | true => exact absurd h hd
      obtain ⟨h3, h4⟩ := P.clean hd'
      refine ⟨P.inv, ⟨extra, h1, h2⟩, fun hx => by rw [P.tmo]; exact hx, fun _ v hv hop => ?_⟩
      have := h4 v hv hop
      rw [← slowRes_congr h3] at this
      rw [this]
      unfold St.get; rw [h3]

/-- an offender in the component is recorded in the first pass -/
theorem slow_offend {sys : Sys} {comp snap : List Nat} {s0 : St} (c : CompCtx sys comp snap s0)
    {q : Nat} (hq : q ∈ comp) (hqi : opOf sys q = .inter) (fuel : Nat)
    (hoff : ∃ v ∈ comp, opOf sys v = .compl) :
    (slowLoop sys comp snap (fuel + 1) s0).err ≠ [] := by
  have hb : Above sys comp s0 (fun _ _ => True) := ⟨fun _ _ _ _ _ => trivial, fun _ _ _ _ _ => trivial,
    fun _ _ _ _ _ _ _ => trivial⟩
  have I := slowInv_init c _ hb
  have P := slow_pass c hb hq hqi comp (fun _ h => h) s0 false I
  simp only [slowLoop]
  generalize comp.foldl (slowNode sys snap) (s0, false) = r at P
  obtain ⟨extra, h1, _, h3⟩ := P.err
  have hne : r.1.err ≠ [] := by
    rw [h1]; intro h; exact h3 hoff (List.append_eq_nil_iff.1 h).2
  split
  · obtain ⟨extra', h4, _⟩ := (slow_loop c hb hq hqi fuel r.1 P.inv).err
    rw [h4]; intro h; exact hne (List.append_eq_nil_iff.1 h).1
  · exact hne

/-! ### termination: a potential that every dirty pass increases -/

/-- total size of the component's sets, measured inside the elements the system mentions plus one
point for "everything else" -/
def pot (sys : Sys) (comp : List Nat) (x : St) : Nat :=
  (comp.map fun v => mu (mlist sys) (x.get v)).sum

theorem pot_le (sys : Sys) (comp : List Nat) (x : St) :
    pot sys comp x ≤ comp.length * (mentioned sys + 1) := by
  unfold pot
  induction comp with
  | nil => simp
  | cons v comp ih =>
    have := mu_le (mlist sys) (x.get v)
    rw [mlist_length] at this
    simp only [List.map_cons, List.sum_cons, List.length_cons]
    rw [Nat.add_mul]
    omega

theorem sum_map_le (f g : Nat → Nat) (v : Nat) (h1 : ∀ u, u ≠ v → g u = f u) (h2 : f v ≤ g v) :
    ∀ (l : List Nat), (l.map f).sum ≤ (l.map g).sum
  | [] => by simp
  | a :: l => by
    have := sum_map_le f g v h1 h2 l
    simp only [List.map_cons, List.sum_cons]
    by_cases ha : a = v
    · subst ha; omega
    · rw [h1 a ha]; omega

theorem sum_map_lt (f g : Nat → Nat) (v : Nat) (h1 : ∀ u, u ≠ v → g u = f u) (h2 : f v + 1 ≤ g v) :
    ∀ (l : List Nat), v ∈ l → (l.map f).sum + 1 ≤ (l.map g).sum
  | [], h => by cases h
  | a :: l, h => by
    simp only [List.map_cons, List.sum_cons]
    by_cases ha : a = v
    · subst ha
      have := sum_map_le f g a h1 (by omega) l
      omega
    · have hv : v ∈ l := by
        simp only [List.mem_cons] at h
        rcases h with h | h
        · exact absurd h.symm ha
        · exact h
      have := sum_map_lt f g v h1 h2 l hv
      rw [h1 a ha]; omega

theorem slowRes_tidy {sys : Sys} {x : St} (hT : ∀ w, Tidy sys (x.get w)) (v : Nat) :
    Tidy sys (slowRes sys x v) := by
  unfold slowRes
  split
  · exact foldl_pres (Tidy sys) _ (fun b w hb => hb.inter (hT w)) _ _
      ⟨by trivial, by intro e he; cases he⟩
  · exact foldl_pres (Tidy sys) _ (fun b w hb => hb.merge (hT w)) _ _ (hT v)
  · exact hT v

theorem slowRes_grows {sys : Sys} {comp : List Nat} {s0 x : St} {b : Asg} (I : SlowInv sys comp s0 x b)
    {v : Nat} (hv : v ∈ comp) (hop : opOf sys v ≠ .compl) :
    ∀ e, (x.get v).Mem e → (slowRes sys x v).Mem e := by
  intro e he
  cases hop' : opOf sys v with
  | compl => exact absurd hop' hop
  | union => exact ((slowRes_union I.sorted hop').2 e).2 (.inl he)
  | inter => exact ((slowRes_inter I.sorted hop').2 e).2 (I.upI v hv hop' e he)

theorem slowUpd_pot {sys : Sys} {comp : List Nat} {s0 x : St} {b : Asg} (I : SlowInv sys comp s0 x b)
    (hB : Bounded sys x) (hlt : ∀ v ∈ comp, v < sys.length) {v : Nat} (hv : v ∈ comp)
    (hop : opOf sys v ≠ .compl) (d : Bool) :
    Bounded sys (slowUpd x d v (slowRes sys x v)).1 ∧
    pot sys comp x ≤ pot sys comp (slowUpd x d v (slowRes sys x v)).1 ∧
    ((slowUpd x d v (slowRes sys x v)).2 = true →
      d = true ∨ pot sys comp x + 1 ≤ pot sys comp (slowUpd x d v (slowRes sys x v)).1) := by
  have hvl : v < x.sets.length := by rw [I.len]; exact hlt v hv
  have hget := slowUpd_get x d v (slowRes sys x v) hvl
  have hT : ∀ w, Tidy sys (x.get w) := fun w => ⟨I.sorted w, hB w⟩
  have hres := slowRes_tidy hT v
  have hgrow := slowRes_grows I hv hop
  have hne : ∀ u, u ≠ v → mu (mlist sys) ((slowUpd x d v (slowRes sys x v)).1.get u) = mu (mlist sys) (x.get u) := by
    intro u hu; rw [hget u, if_neg hu]
  have hvv : (slowUpd x d v (slowRes sys x v)).1.get v = slowRes sys x v := by rw [hget v, if_pos rfl]
  refine ⟨?_, ?_, ?_⟩
  · intro u
    rw [hget u]
    split
    · exact hres.2
    · exact hB u
  · unfold pot
    apply sum_map_le _ _ v hne
    rw [hvv]
    exact mu_mono _ hgrow
  · intro hd
    by_cases hdd : d = true
    · exact .inl hdd
    · right
      have hneq : slowRes sys x v ≠ x.get v := by
        intro he
        unfold slowUpd at hd
        rw [if_pos he] at hd
        exact hdd hd
      unfold pot
      apply sum_map_lt _ _ v hne _ comp hv
      rw [hvv]
      apply Classical.byContradiction
      intro hlt'
      have hle : mu (mlist sys) (slowRes sys x v) ≤ mu (mlist sys) (x.get v) := by omega
      exact hneq (eq_of_mu_le (mlist sys) (I.sorted v) hres.1 (hB v) hres.2 hgrow hle).symm

theorem slow_pass_pot {sys : Sys} {comp snap : List Nat} {s0 : St} (c : CompCtx sys comp snap s0) {b : Asg}
    (hb : Above sys comp s0 b) {q : Nat} (hq : q ∈ comp) (hqi : opOf sys q = .inter) :
    ∀ (vs : List Nat), (∀ v ∈ vs, v ∈ comp) → ∀ (x : St) (d : Bool), SlowInv sys comp s0 x b → Bounded sys x →
      Bounded sys (vs.foldl (slowNode sys snap) (x, d)).1 ∧
      pot sys comp x ≤ pot sys comp (vs.foldl (slowNode sys snap) (x, d)).1 ∧
      ((vs.foldl (slowNode sys snap) (x, d)).2 = true →
        d = true ∨ pot sys comp x + 1 ≤ pot sys comp (vs.foldl (slowNode sys snap) (x, d)).1) := by
  intro vs
  induction vs with
  | nil => intro _ x d _ hB; exact ⟨hB, Nat.le_refl _, fun h => .inl h⟩
  | cons v vs ih =>
    intro hvs x d I hB
    have hv : v ∈ comp := hvs v (by simp)
    have hvs' : ∀ u ∈ vs, u ∈ comp := fun u hu => hvs u (by simp [hu])
    simp only [List.foldl_cons]
    by_cases hop : opOf sys v = .compl
    · obtain ⟨w, he, hw⟩ := slow_compl_offends c hq hqi hv hop
      rw [slowNode_offender hop he hw]
      exact ih hvs' { x with err := x.err ++ [v] } d (I.addErr v) hB
    · have hnode : slowNode sys snap (x, d) v = slowUpd x d v (slowRes sys x v) := by
        cases hop' : opOf sys v with
        | compl => exact absurd hop' hop
        | union => exact slowNode_union hop'
        | inter => exact slowNode_inter hop'
      rw [hnode]
      obtain ⟨hB1, hp1, hs1⟩ := slowUpd_pot I hB c.lt hv hop d
      have I' := I.update hb c.lt hv hop d
      obtain ⟨hB2, hp2, hs2⟩ := ih hvs' (slowUpd x d v (slowRes sys x v)).1 (slowUpd x d v (slowRes sys x v)).2 I' hB1
      have hp2' : pot sys comp (slowUpd x d v (slowRes sys x v)).1 ≤
          pot sys comp (vs.foldl (slowNode sys snap) (slowUpd x d v (slowRes sys x v))).1 := hp2
      have hs2' : (vs.foldl (slowNode sys snap) (slowUpd x d v (slowRes sys x v))).2 = true →
          (slowUpd x d v (slowRes sys x v)).2 = true ∨ pot sys comp (slowUpd x d v (slowRes sys x v)).1 + 1 ≤
            pot sys comp (vs.foldl (slowNode sys snap) (slowUpd x d v (slowRes sys x v))).1 := hs2
      refine ⟨hB2, Nat.le_trans hp1 hp2', fun hr => ?_⟩
      rcases hs2' hr with h | h
      · rcases hs1 h with h' | h'
        · exact .inl h'
        · exact .inr (by omega)
      · exact .inr (by omega)

theorem slow_loop_tmo {sys : Sys} {comp snap : List Nat} {s0 : St} (c : CompCtx sys comp snap s0) {b : Asg}
    (hb : Above sys comp s0 b) {q : Nat} (hq : q ∈ comp) (hqi : opOf sys q = .inter) :
    ∀ (fuel : Nat) (x : St), SlowInv sys comp s0 x b → Bounded sys x →
      comp.length * (mentioned sys + 1) < pot sys comp x + fuel →
      (slowLoop sys comp snap fuel x).timeout = x.timeout ∧ Bounded sys (slowLoop sys comp snap fuel x) := by
  intro fuel
  induction fuel with
  | zero =>
    intro x _ _ hf
    have := pot_le sys comp x
    omega
  | succ fuel ih =>
    intro x I hB hf
    have P := slow_pass c hb hq hqi comp (fun _ h => h) x false I
    obtain ⟨hB1, hp1, hs1⟩ := slow_pass_pot c hb hq hqi comp (fun _ h => h) x false I hB
    simp only [slowLoop]
    generalize comp.foldl (slowNode sys snap) (x, false) = r at P hB1 hp1 hs1
    split
    · rename_i hd
      have hgain : pot sys comp x + 1 ≤ pot sys comp r.1 := by
        rcases hs1 hd with h | h
        · cases h
        · exact h
      obtain ⟨h1, h2⟩ := ih r.1 P.inv hB1 (by omega)
      exact ⟨by rw [h1, P.tmo], h2⟩
    · exact ⟨P.tmo, hB1⟩

theorem slow_stepOk {sys : Sys} {comp snap : List Nat} {s : St} (c : CompCtx sys comp snap s)
    {q : Nat} (hq : q ∈ comp) (hqi : opOf sys q = .inter) (fuel : Nat)
    (hf : comp.length * (mentioned sys + 1) < fuel + 1) :
    StepOk sys comp snap s (slowLoop sys comp snap (fuel + 1) s) := by
  have hb : Above sys comp s (fun _ _ => True) := ⟨fun _ _ _ _ _ => trivial, fun _ _ _ _ _ => trivial,
    fun _ _ _ _ _ _ _ => trivial⟩
  have L := slow_loop c hb hq hqi (fuel + 1) s (slowInv_init c _ hb)
  obtain ⟨extra, h1, h2⟩ := L.err
  have hT := fun hB => slow_loop_tmo c hb hq hqi (fuel + 1) s (slowInv_init c _ hb) hB (by omega)
  refine ⟨L.inv.len, L.inv.sorted, L.inv.frame, ⟨extra, h1, h2⟩, ?_, L.tmo, fun hB => (hT hB).2,
    fun hB h => by rw [(hT hB).1]; exact h⟩
  rintro ⟨v, hv, ho⟩
  exact slow_offend c hq hqi fuel ⟨v, hv, ho.1⟩

theorem slow_good {sys : Sys} {comp snap : List Nat} {s : St} (c : CompCtx sys comp snap s)
    {q : Nat} (hq : q ∈ comp) (hqi : opOf sys q = .inter) (fuel : Nat)
    (herr : (slowLoop sys comp snap (fuel + 1) s).err = [])
    (htmo : (slowLoop sys comp snap (fuel + 1) s).timeout = false) :
    CompGood sys comp (slowLoop sys comp snap (fuel + 1) s) := by
  have hnc : ∀ v ∈ comp, opOf sys v ≠ .compl := by
    intro v hv hop
    exact slow_offend c hq hqi fuel ⟨v, hv, hop⟩ herr
  have hbT : Above sys comp s (fun _ _ => True) := ⟨fun _ _ _ _ _ => trivial, fun _ _ _ _ _ => trivial,
    fun _ _ _ _ _ _ _ => trivial⟩
  have L := slow_loop c hbT hq hqi (fuel + 1) s (slowInv_init c _ hbT)
  have hfix := L.fix htmo
  refine ⟨?_, ?_⟩
  · intro v hv
    cases hop : opOf sys v with
    | compl => exact absurd hop (hnc v hv)
    | union =>
      rw [eqAt_union hop]
      intro x
      have hf := hfix v hv (by rw [hop]; simp)
      have hspec := (slowRes_union L.inv.sorted hop).2 x
      constructor
      · exact L.inv.upU v hv hop x
      · rintro (h | h)
        · exact L.inv.lowU v hv hop x h
        · show ((slowLoop sys comp snap (fuel + 1) s).get v).Mem x
          rw [← hf]; exact hspec.2 (.inr h)
    | inter =>
      rw [eqAt_inter hop]
      intro x
      have hf := hfix v hv (by rw [hop]; simp)
      have hspec := (slowRes_inter L.inv.sorted hop).2 x
      show ((slowLoop sys comp snap (fuel + 1) s).get v).Mem x ↔ _
      rw [← hf]; exact hspec
  · intro b hb hbo v hv x hx
    have hA : Above sys comp s b := by
      refine ⟨?_, ?_, ?_⟩
      · intro u hu hop e he; exact ((eqAt_union hop).1 (hb u hu) e).2 he
      · intro u hu hop e he; exact ((eqAt_inter hop).1 (hb u hu) e).2 he
      · intro u hu w hw hwc e he
        apply (hbo u hu w hw hwc).1 e
        show ((slowLoop sys comp snap (fuel + 1) s).get w).Mem e
        rw [L.inv.frame w hwc]; exact he
    have L' := slow_loop c hA hq hqi (fuel + 1) s (slowInv_init c _ hA)
    exact L'.inv.below v hv x hx

end TmVerif.SetClosure
