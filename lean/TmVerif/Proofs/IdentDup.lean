import TmVerif.Model.Ident
/-!
Helper lemmas for C28 (core Lean only): the resolver's `ids` map tracks exactly the IDs of `Syms`,
and a `dup` error is in the status iff two entries of `Syms` share an ID.
-/
namespace TmVerif.Ident

def hasDup (errs : List Err) : Bool := errs.any Err.isDup

def idsOf (syms : List Sym) : List Str := syms.map (·.id)

/-- resolver invariant -/
structure RInv (st : RState) : Prop where
  ids_iff : ∀ i, (st.ids.lookup i).isSome = true ↔ i ∈ idsOf st.syms
  dup_iff : hasDup st.errs = true ↔ ¬ (idsOf st.syms).Nodup

theorem nodup_snoc (l : List Str) (x : Str) : (l ++ [x]).Nodup ↔ l.Nodup ∧ x ∉ l := by
  simp only [List.nodup_append, List.mem_singleton, forall_eq, List.nodup_cons, List.not_mem_nil,
    not_false_eq_true, List.nodup_nil, and_self, true_and]
  constructor
  · rintro ⟨h1, h2⟩; exact ⟨h1, fun hx => h2 x hx rfl⟩
  · rintro ⟨h1, h2⟩; exact ⟨h1, fun a ha hax => h2 (hax ▸ ha)⟩

theorem rinv_empty : RInv {} := by
  constructor
  · intro i; simp [idsOf, List.lookup]
  · simp [hasDup, idsOf]

/-- registering a symbol `(n, i)`: `ids[i] = n`, and a `dup` error iff `i` was already in `ids` -/
theorem rinv_add (st st' : RState) (n i : Str) (h : RInv st)
    (hs : st'.syms = st.syms ++ [⟨n, i⟩]) (hi : st'.ids = (i, n) :: st.ids)
    (he : hasDup st'.errs = (hasDup st.errs || (st.ids.lookup i).isSome)) : RInv st' := by
  constructor
  · intro j
    rw [hi, hs]
    simp only [idsOf, List.map_append, List.map_cons, List.map_nil, List.mem_append,
      List.mem_singleton, List.lookup_cons]
    by_cases hj : j = i
    · subst hj; simp
    · have : (j == i) = false := by simpa using hj
      simp only [this, hj, or_false]
      exact h.ids_iff j
  · rw [he, hs]
    simp only [idsOf, List.map_append, List.map_cons, List.map_nil, Bool.or_eq_true]
    rw [nodup_snoc, h.dup_iff, h.ids_iff]
    simp only [idsOf]
    constructor
    · rintro (h1 | h1)
      · exact fun h2 => h1 h2.1
      · exact fun h2 => h2.2 h1
    · intro h1
      by_cases h2 : (List.map (fun x => x.id) st.syms).Nodup
      · right
        by_cases h3 : i ∈ List.map (fun x => x.id) st.syms
        · exact h3
        · exact absurd ⟨h2, h3⟩ h1
      · left; exact h2

theorem hasDup_append (a b : List Err) : hasDup (a ++ b) = (hasDup a || hasDup b) := by
  simp [hasDup, List.any_append]

theorem addToken_inv (st : RState) (name id : Str) (space : Bool) (h : RInv st) :
    RInv (addToken st name id space) := by
  unfold addToken
  split
  · have h1 : hasDup (if ((st.spaces.lookup name).getD false != space) = true
        then st.errs ++ [.spaceMix name] else st.errs) = hasDup st.errs := by
      split
      · rw [hasDup_append]; simp [hasDup, Err.isDup]
      · rfl
    dsimp only
    split
    · exact ⟨h.ids_iff, by rw [hasDup_append, h1]; simpa [hasDup, Err.isDup] using h.dup_iff⟩
    · exact ⟨h.ids_iff, by rw [h1]; exact h.dup_iff⟩
  · apply rinv_add st _ name (if id = [] then produce name .upperCase else id) h rfl rfl
    dsimp only
    split
    · next hl => rw [hasDup_append, hl]; simp [hasDup, Err.isDup]
    · next hl => rw [hl]; simp

theorem addNonterm_inv (st : RState) (name : Str) (h : RInv st) : RInv (addNonterm st name) := by
  apply rinv_add st _ name (produce name .camelCase) h rfl rfl
  unfold addNonterm
  dsimp only
  have h1 : hasDup (if hasName st name then st.errs ++ [.dupName name] else st.errs) = hasDup st.errs := by
    split
    · rw [hasDup_append]; simp [hasDup, Err.isDup]
    · rfl
  split
  · next hl => rw [hasDup_append, h1, hl]; simp [hasDup, Err.isDup]
  · next hl => rw [h1, hl]; simp

theorem addNonterm_syms (st : RState) (name : Str) :
    (addNonterm st name).syms = st.syms ++ [⟨name, produce name .camelCase⟩] := rfl

theorem foldl_addNonterm (acc : List Str) (st : RState) (h : RInv st) :
    RInv (acc.foldl addNonterm st) ∧
      idsOf (acc.foldl addNonterm st).syms = idsOf st.syms ++ acc.map (fun n => produce n .camelCase) := by
  induction acc generalizing st with
  | nil => simp [h]
  | cons n acc ih =>
    obtain ⟨h1, h2⟩ := ih (addNonterm st n) (addNonterm_inv st n h)
    refine ⟨h1, ?_⟩
    rw [List.foldl_cons, h2, addNonterm_syms]
    simp [idsOf]

theorem addFlexToken_inv (st : RState) (t : Str × Str × Bool) (h : RInv st) : RInv (addFlexToken st t) := by
  unfold addFlexToken
  split
  · exact ⟨h.ids_iff, by rw [hasDup_append]; simpa [hasDup, Err.isDup] using h.dup_iff⟩
  · exact addToken_inv _ _ _ _ h

theorem foldl_inv_of {α} (f : RState → α → RState) (hf : ∀ st a, RInv st → RInv (f st a))
    (l : List α) (st : RState) (h : RInv st) : RInv (l.foldl f st) := by
  induction l generalizing st with
  | nil => exact h
  | cons a l ih => exact ih _ (hf st a h)

theorem tokenPhase_inv (d : Decls) : RInv (tokenPhase d) := by
  unfold tokenPhase
  split
  · exact foldl_inv_of _ addFlexToken_inv _ _
      (addToken_inv _ _ _ _ (addToken_inv _ _ _ _ (addToken_inv _ _ _ _ rinv_empty)))
  · exact foldl_inv_of _ (fun st t h => addToken_inv st t.1 (lexemeId t.2.1) t.2.2 h) _ _
      (addToken_inv _ _ _ _ (addToken_inv _ _ _ _ rinv_empty))

/-- `collectNonterms`: the error list grows, and a `dup` error is added iff a newly accepted
nonterminal's ID is already in `ids`. -/
theorem collect_facts (st : RState) (nts acc0 : List Str) (errs0 : List Err) :
    ∃ new more, collectNonterms st nts acc0 errs0 = (acc0 ++ new, errs0 ++ more) ∧
      (hasDup more = true ↔ ∃ n ∈ new, (st.ids.lookup (produce n .camelCase)).isSome = true) := by
  induction nts generalizing acc0 errs0 with
  | nil => exact ⟨[], [], by simp [collectNonterms], by simp [hasDup]⟩
  | cons name rest ih =>
    unfold collectNonterms
    split
    · obtain ⟨new, more, e, hm⟩ := ih acc0 (errs0 ++ [.redecl name])
      refine ⟨new, .redecl name :: more, by rw [e]; simp, ?_⟩
      rw [← hm]; simp [hasDup, Err.isDup]
    · split
      · obtain ⟨new, more, e, hm⟩ := ih acc0 (errs0 ++ [.redecl name])
        refine ⟨new, .redecl name :: more, by rw [e]; simp, ?_⟩
        rw [← hm]; simp [hasDup, Err.isDup]
      · dsimp only
        split
        · next prev hl =>
          obtain ⟨new, more, e, hm⟩ := ih (acc0 ++ [name]) (errs0 ++ [.dup name prev])
          refine ⟨name :: new, .dup name prev :: more, by rw [e]; simp, ?_⟩
          constructor
          · intro _; exact ⟨name, by simp, by rw [hl]; rfl⟩
          · intro _; simp [hasDup, Err.isDup]
        · next hl =>
          obtain ⟨new, more, e, hm⟩ := ih (acc0 ++ [name]) errs0
          refine ⟨name :: new, more, by rw [e]; simp, ?_⟩
          rw [hm]
          constructor
          · rintro ⟨n, hn, h⟩; exact ⟨n, by simp [hn], h⟩
          · rintro ⟨n, hn, h⟩
            rcases List.mem_cons.1 hn with rfl | hn
            · rw [hl] at h; simp at h
            · exact ⟨n, hn, h⟩

end TmVerif.Ident
