import TmVerif.Model.Graph
/-!
Helper lemmas for C26: the generic for-loop invariant rule, `Transpose` (edge counts), and the
Warshall closure of `matrix.go` (sound, monotone, complete by induction on the pivot index).
-/
namespace TmVerif.Graph

theorem succs_modify (ret : Graph) (to u src : Nat) :
    succs (ret.modify to (· ++ [src])) u
      = if to = u ∧ u < ret.length then succs ret u ++ [src] else succs ret u := by
  unfold succs
  rw [List.getElem?_modify]
  by_cases h : u < ret.length
  · simp [h]
  · simp [h]

theorem length_addEdges (ret : Graph) (src : Nat) (es : List Nat) :
    (addEdges ret src es).length = ret.length := by
  induction es generalizing ret with
  | nil => rfl
  | cons to es ih => simp [addEdges, ih]

theorem count_addEdges (ret : Graph) (src : Nat) (es : List Nat) (u v : Nat) :
    (succs (addEdges ret src es) u).count v
      = (succs ret u).count v + if v = src ∧ u < ret.length then es.count u else 0 := by
  induction es generalizing ret with
  | nil => simp [addEdges]
  | cons to es ih =>
    simp only [addEdges, ih, succs_modify, List.length_modify]
    by_cases h1 : to = u <;> by_cases h2 : u < ret.length <;> by_cases h3 : v = src <;>
      simp [h1, h2, h3, List.count_cons, List.count_append] <;> omega

theorem length_transposeFrom (ret : Graph) (src : Nat) (rest : Graph) :
    (transposeFrom ret src rest).length = ret.length := by
  induction rest generalizing ret src with
  | nil => rfl
  | cons es rest ih => simp [transposeFrom, ih, length_addEdges]

theorem count_transposeFrom (ret : Graph) (src : Nat) (rest : Graph) (u v : Nat) :
    (succs (transposeFrom ret src rest) u).count v
      = (succs ret u).count v + if src ≤ v ∧ u < ret.length then (succs rest (v - src)).count u else 0 := by
  induction rest generalizing ret src with
  | nil => simp [transposeFrom, succs]
  | cons es rest ih =>
    simp only [transposeFrom, ih, count_addEdges, length_addEdges]
    by_cases h2 : u < ret.length
    · by_cases h3 : v = src
      · subst h3; simp [h2, succs]; omega
      · by_cases h4 : src ≤ v
        · have h5 : src + 1 ≤ v := by omega
          have h6 : v - src = (v - (src + 1)) + 1 := by omega
          simp [h2, h3, h4, h5, succs, h6]
        · have h5 : ¬ src + 1 ≤ v := by omega
          simp [h2, h3, h4, h5]
    · simp [h2]

theorem length_transpose (g : Graph) : (transpose g).length = g.length := by
  simp [transpose, length_transposeFrom]

theorem succs_ge (g : Graph) (u : Nat) (h : g.length ≤ u) : succs g u = [] := by
  simp [succs, h]

theorem count_transpose (g : Graph) (u v : Nat) (hu : u < g.length) :
    (succs (transpose g) u).count v = (succs g v).count u := by
  unfold transpose
  rw [count_transposeFrom]
  have : succs (List.replicate g.length []) u = [] := by simp [succs, hu]
  simp [this, hu]


/-! ### Warshall closure -/

theorem forUpTo_inv {σ : Type} (P : Nat → σ → Prop) (k : Nat) (f : Nat → σ → σ) (s : σ)
    (h0 : P 0 s) (hs : ∀ x s, x < k → P x s → P (x + 1) (f x s)) : P k (forUpTo k f s) := by
  induction k with
  | zero => exact h0
  | succ k ih =>
    simp only [forUpTo]
    exact hs k _ (Nat.lt_succ_self k) (ih (fun x s hx hp => hs x s (Nat.lt_succ_of_lt hx) hp))

namespace Matrix

theorem idx_lt {n a b : Nat} (ha : a < n) (hb : b < n) : a * n + b < n * n := by
  have h := Nat.mul_le_mul_right n (show a + 1 ≤ n from ha)
  rw [Nat.add_mul] at h
  omega

theorem idx_inj {n a b i e : Nat} (hb : b < n) (he : e < n) :
    a * n + b = i * n + e ↔ a = i ∧ b = e := by
  constructor
  · intro h
    have key : a = i := by
      rcases Nat.lt_trichotomy a i with h1 | h1 | h1
      · have := Nat.mul_le_mul_right n (show a + 1 ≤ i from h1)
        rw [Nat.add_mul] at this; omega
      · exact h1
      · have := Nat.mul_le_mul_right n (show i + 1 ≤ a from h1)
        rw [Nat.add_mul] at this; omega
    subst key
    exact ⟨rfl, by omega⟩
  · rintro ⟨rfl, rfl⟩; rfl

/-- well-shaped `n × n` matrix -/
def Ok (m : Matrix) (n : Nat) : Prop := m.n = n ∧ m.set.size = n * n

/-- `m'` has the same shape and at least the edges of `m` -/
def Le (m m' : Matrix) : Prop := m'.n = m.n ∧ m'.set.size = m.set.size ∧ ∀ a b, m.hasEdge a b = true → m'.hasEdge a b = true

theorem Le.refl (m : Matrix) : Le m m := ⟨rfl, rfl, fun _ _ h => h⟩
theorem Le.trans {a b c : Matrix} (h1 : Le a b) (h2 : Le b c) : Le a c :=
  ⟨h2.1.trans h1.1, h2.2.1.trans h1.2.1, fun x y h => h2.2.2 x y (h1.2.2 x y h)⟩
theorem Le.ok {m m' : Matrix} {n : Nat} (h : Le m m') (hm : Ok m n) : Ok m' n :=
  ⟨h.1.trans hm.1, h.2.1.trans hm.2⟩

theorem le_addEdge (m : Matrix) (i e : Nat) : Le m (m.addEdge i e) := by
  refine ⟨rfl, by simp [addEdge], ?_⟩
  intro a b h
  simp only [hasEdge, addEdge] at *
  rw [Array.getElem?_setIfInBounds]
  split
  · split
    · rfl
    · rename_i h1 h2
      rw [← h1] at h
      simp [Array.getElem?_eq_none (Nat.le_of_not_lt h2)] at h
  · exact h

theorem hasEdge_addEdge_self {m : Matrix} {n i e : Nat} (hm : Ok m n) (hi : i < n) (he : e < n) :
    (m.addEdge i e).hasEdge i e = true := by
  simp only [hasEdge, addEdge]
  rw [Array.getElem?_setIfInBounds]
  have := idx_lt hi he
  simp [hm.1, hm.2, this]

theorem hasEdge_addEdge {m : Matrix} {n i e a b : Nat} (hm : Ok m n) (he : e < n) (hb : b < n)
    (h : (m.addEdge i e).hasEdge a b = true) : m.hasEdge a b = true ∨ (a = i ∧ b = e) := by
  simp only [hasEdge, addEdge] at *
  rw [Array.getElem?_setIfInBounds] at h
  split at h
  · rename_i h1
    rw [hm.1] at h1
    right
    have := (idx_inj (n := n) he hb).1 h1
    exact ⟨this.1.symm, this.2.symm⟩
  · left; exact h

end Matrix

/-- paths whose intermediate vertices are all `< k` -/
inductive PathLt (E : Nat → Nat → Prop) : Nat → Nat → Nat → Prop
  | edge {k a b} : E a b → PathLt E k a b
  | trans {k a b c} : c < k → PathLt E k a c → PathLt E k c b → PathLt E k a b

theorem PathLt.split_aux {E : Nat → Nat → Prop} {k' a b : Nat} (h : PathLt E k' a b) :
    ∀ k, k' = k + 1 → PathLt E k a b ∨ (PathLt E k a k ∧ PathLt E k k b) := by
  induction h with
  | edge h => intro k _; exact .inl (.edge h)
  | @trans a b c hc p1 p2 ih1 ih2 =>
    intro k hk
    subst hk
    have ih1 := ih1 k rfl
    have ih2 := ih2 k rfl
    by_cases hck : c = k
    · subst hck
      have h1 : PathLt E c a c := by rcases ih1 with h | h; exact h; exact h.1
      have h2 : PathLt E c c b := by rcases ih2 with h | h; exact h; exact h.2
      exact .inr ⟨h1, h2⟩
    · have hc' : c < k := by omega
      rcases ih1 with h1 | ⟨h1, h1'⟩ <;> rcases ih2 with h2 | ⟨h2, h2'⟩
      · exact .inl (.trans hc' h1 h2)
      · exact .inr ⟨.trans hc' h1 h2, h2'⟩
      · exact .inr ⟨h1, .trans hc' h1' h2⟩
      · exact .inr ⟨h1, h2'⟩

theorem PathLt.split {E : Nat → Nat → Prop} {k a b : Nat} (h : PathLt E (k + 1) a b) :
    PathLt E k a b ∨ (PathLt E k a k ∧ PathLt E k k b) := h.split_aux k rfl

theorem transGen_trans {α : Type} {r : α → α → Prop} {a b c : α}
    (h1 : Relation.TransGen r a b) (h2 : Relation.TransGen r b c) : Relation.TransGen r a c := by
  induction h2 with
  | single h => exact .tail h1 h
  | tail _ h ih => exact .tail ih h

theorem transGen_head {α : Type} {r : α → α → Prop} {a b c : α}
    (h1 : r a b) (h2 : Relation.TransGen r b c) : Relation.TransGen r a c :=
  transGen_trans (.single h1) h2

theorem transGen_mono {α : Type} {r r' : α → α → Prop} (h : ∀ a b, r a b → r' a b) {a b : α}
    (p : Relation.TransGen r a b) : Relation.TransGen r' a b := by
  induction p with
  | single e => exact .single (h _ _ e)
  | tail _ e ih => exact .tail ih (h _ _ e)

theorem PathLt.of_transGen {E : Nat → Nat → Prop} {n a b : Nat} (hE : ∀ a b, E a b → b < n)
    (h : Relation.TransGen E a b) : PathLt E n a b := by
  induction h with
  | single h => exact .edge h
  | @tail b c p e ih =>
    have hb : b < n := by
      cases p with
      | single h => exact hE _ _ h
      | tail _ h => exact hE _ _ h
    exact .trans hb ih (.edge e)

theorem PathLt.transGen {E : Nat → Nat → Prop} {k a b : Nat} (h : PathLt E k a b) :
    Relation.TransGen E a b := by
  induction h with
  | edge h => exact .single h
  | trans _ _ _ ih1 ih2 => exact transGen_trans ih1 ih2

namespace Matrix

/-- every edge of `s` between vertices `< n` is in `R` -/
def Sub (R : Nat → Nat → Prop) (n : Nat) (s : Matrix) : Prop :=
  ∀ a b, a < n → b < n → s.hasEdge a b = true → R a b

theorem closureE_spec {R : Nat → Nat → Prop} (hR : ∀ a b c, R a b → R b c → R a c)
    {n i j : Nat} {m : Matrix} (hm : Ok m n) (hi : i < n) (hj : j < n)
    (hji : m.hasEdge j i = true) (hsub : Sub R n m) :
    Le m (closureE n i j m) ∧ Sub R n (closureE n i j m) ∧
      ∀ e, e < n → m.hasEdge i e = true → (closureE n i j m).hasEdge j e = true := by
  have key := forUpTo_inv
    (fun x s => Le m s ∧ Sub R n s ∧ ∀ e, e < x → m.hasEdge i e = true → s.hasEdge j e = true)
    n (fun e m => if m.hasEdge i e then m.addEdge j e else m) m
    ⟨Le.refl m, hsub, fun e he => absurd he (Nat.not_lt_zero e)⟩
    (by
      intro x s hx ⟨hle, hs, hdone⟩
      have hsok : Ok s n := hle.ok hm
      by_cases hix : s.hasEdge i x = true
      · simp only [hix, if_true]
        refine ⟨hle.trans (le_addEdge s j x), ?_, ?_⟩
        · intro a b ha hb hab
          rcases hasEdge_addEdge hsok hx hb hab with h | ⟨rfl, rfl⟩
          · exact hs a b ha hb h
          · exact hR _ _ _ (hs _ _ hj hi (hle.2.2 _ _ hji)) (hs _ _ hi hx hix)
        · intro e he hie
          by_cases hex : e = x
          · subst hex; exact hasEdge_addEdge_self hsok hj hx
          · exact (le_addEdge s j x).2.2 _ _ (hdone e (by omega) hie)
      · simp only [hix]
        refine ⟨hle, hs, ?_⟩
        intro e he hie
        by_cases hex : e = x
        · subst hex; exact absurd (hle.2.2 _ _ hie) hix
        · exact hdone e (by omega) hie)
  exact key

theorem closureJ_spec {R : Nat → Nat → Prop} (hR : ∀ a b c, R a b → R b c → R a c)
    {n i : Nat} {m : Matrix} (hm : Ok m n) (hi : i < n) (hsub : Sub R n m) :
    Le m (closureJ n i m) ∧ Sub R n (closureJ n i m) ∧
      ∀ j e, j < n → e < n → m.hasEdge j i = true → m.hasEdge i e = true →
        (closureJ n i m).hasEdge j e = true := by
  have key := forUpTo_inv
    (fun x s => Le m s ∧ Sub R n s ∧
      ∀ j e, j < x → e < n → m.hasEdge j i = true → m.hasEdge i e = true → s.hasEdge j e = true)
    n (fun j m => if !m.hasEdge j i then m else closureE n i j m) m
    ⟨Le.refl m, hsub, fun j _ hj => absurd hj (Nat.not_lt_zero j)⟩
    (by
      intro x s hx ⟨hle, hs, hdone⟩
      have hsok : Ok s n := hle.ok hm
      by_cases hxi : s.hasEdge x i = true
      · simp only [hxi, Bool.not_true, Bool.false_eq_true, if_false]
        obtain ⟨l1, l2, l3⟩ := closureE_spec hR hsok hi hx hxi hs
        refine ⟨hle.trans l1, l2, ?_⟩
        intro j e hj he hji hie
        by_cases hjx : j = x
        · subst hjx; exact l3 e he (hle.2.2 _ _ hie)
        · exact l1.2.2 _ _ (hdone j e (by omega) he hji hie)
      · have : s.hasEdge x i = false := by simpa using hxi
        simp only [this, Bool.not_false, if_true]
        refine ⟨hle, hs, ?_⟩
        intro j e hj he hji hie
        by_cases hjx : j = x
        · subst hjx; exact absurd (hle.2.2 _ _ hji) hxi
        · exact hdone j e (by omega) he hji hie)
  exact key

/-- the edges of `m` between vertices `< m.n` -/
def E (m : Matrix) (a b : Nat) : Prop := a < m.n ∧ b < m.n ∧ m.hasEdge a b = true

theorem closure_inv (m : Matrix) (hm : Ok m m.n) :
    Le m m.closure ∧ Sub (Relation.TransGen m.E) m.n m.closure ∧
      ∀ a b, a < m.n → b < m.n → PathLt m.E m.n a b → m.closure.hasEdge a b = true := by
  have hR : ∀ a b c, Relation.TransGen m.E a b → Relation.TransGen m.E b c → Relation.TransGen m.E a c :=
    fun _ _ _ => transGen_trans
  have key := forUpTo_inv
    (fun k s => Le m s ∧ Sub (Relation.TransGen m.E) m.n s ∧
      ∀ a b, a < m.n → b < m.n → PathLt m.E k a b → s.hasEdge a b = true)
    m.n (fun i s => closureJ m.n i s) m
    ⟨Le.refl m, fun a b ha hb h => .single ⟨ha, hb, h⟩, by
      intro a b ha hb p
      generalize hk : 0 = k at p
      induction p with
      | edge h => exact h.2.2
      | trans hc _ _ _ _ => omega⟩
    (by
      intro k s hk ⟨hle, hs, hdone⟩
      have hsok : Ok s m.n := hle.ok hm
      obtain ⟨l1, l2, l3⟩ := closureJ_spec hR hsok hk hs
      refine ⟨hle.trans l1, l2, ?_⟩
      intro a b ha hb p
      rcases p.split with p | ⟨p1, p2⟩
      · exact l1.2.2 _ _ (hdone a b ha hb p)
      · exact l3 a b ha hb (hdone a k ha hk p1) (hdone k b hk hb p2))
  unfold closure
  exact key

theorem closure_spec (m : Matrix) (hm : m.set.size = m.n * m.n) (a b : Nat) (ha : a < m.n) (hb : b < m.n) :
    m.closure.hasEdge a b = true ↔ Relation.TransGen m.E a b := by
  obtain ⟨_, l2, l3⟩ := closure_inv m ⟨rfl, hm⟩
  exact ⟨l2 a b ha hb, fun p => l3 a b ha hb (PathLt.of_transGen (fun _ _ h => h.2.1) p)⟩

end Matrix
/-! ### specification vocabulary on adjacency lists; the matrix built from a graph -/

/-- `a → b` is an edge of `g` -/
def Edge (g : Graph) (a b : Nat) : Prop := b ∈ succs g a

/-- all successors are vertices (the condition under which the Go code does not panic) -/
def Wf (g : Graph) : Prop := ∀ a b, Edge g a b → b < g.length

theorem Edge.lt_left {g : Graph} {a b : Nat} (h : Edge g a b) : a < g.length := by
  unfold Edge succs at h
  by_cases ha : a < g.length
  · exact ha
  · simp [Nat.le_of_not_lt ha] at h

theorem wfB_iff (g : Graph) : wfB g = true ↔ Wf g := by
  unfold wfB Wf Edge succs
  simp only [List.all_eq_true, decide_eq_true_eq]
  constructor
  · intro h a b hb
    by_cases ha : a < g.length
    · simp [ha] at hb
      exact h _ (List.getElem_mem ha) b hb
    · simp [Nat.le_of_not_lt ha] at hb
  · intro h es hes b hb
    obtain ⟨i, hi, rfl⟩ := List.getElem_of_mem hes
    exact h i b (by simp [hi, hb])

instance (g : Graph) : Decidable (Wf g) := decidable_of_iff _ (wfB_iff g)

namespace Matrix

theorem ok_new (n : Nat) : Ok (new n) n := ⟨rfl, by simp [new]⟩

theorem hasEdge_new (n a b : Nat) : (new n).hasEdge a b = false := by
  simp only [new, hasEdge]
  rw [Array.getElem?_replicate]
  split <;> rfl

theorem foldl_addEdge {n src : Nat} (hs : src < n) (es : List Nat) (m : Matrix) (hm : Ok m n)
    (hes : ∀ e ∈ es, e < n) :
    Le m (es.foldl (fun m e => m.addEdge src e) m) ∧
    ∀ a b, a < n → b < n →
      ((es.foldl (fun m e => m.addEdge src e) m).hasEdge a b = true ↔
        m.hasEdge a b = true ∨ (a = src ∧ b ∈ es)) := by
  induction es generalizing m with
  | nil => simp [Le.refl]
  | cons e es ih =>
    have he : e < n := hes e (by simp)
    have hm' : Ok (m.addEdge src e) n := (le_addEdge m src e).ok hm
    obtain ⟨l1, l2⟩ := ih (m.addEdge src e) hm' (fun x hx => hes x (by simp [hx]))
    refine ⟨(le_addEdge m src e).trans l1, ?_⟩
    intro a b ha hb
    simp only [List.foldl_cons]
    rw [l2 a b ha hb]
    constructor
    · rintro (h | ⟨rfl, h⟩)
      · rcases hasEdge_addEdge hm he hb h with h | ⟨rfl, rfl⟩
        · exact .inl h
        · exact .inr ⟨rfl, by simp⟩
      · exact .inr ⟨rfl, by simp [h]⟩
    · rintro (h | ⟨rfl, h⟩)
      · exact .inl ((le_addEdge m src e).2.2 _ _ h)
      · simp at h
        rcases h with rfl | h
        · exact .inl (hasEdge_addEdge_self hm ha he)
        · exact .inr ⟨rfl, h⟩

theorem ofGraphFrom_spec {n : Nat} (rest : Graph) (src : Nat) (m : Matrix) (hm : Ok m n)
    (hlen : src + rest.length ≤ n) (hes : ∀ es ∈ rest, ∀ e ∈ es, e < n) :
    Ok (ofGraphFrom m src rest) n ∧
    ∀ a b, a < n → b < n →
      ((ofGraphFrom m src rest).hasEdge a b = true ↔
        m.hasEdge a b = true ∨ (src ≤ a ∧ b ∈ succs rest (a - src))) := by
  induction rest generalizing m src with
  | nil => simp [ofGraphFrom, hm, succs]
  | cons es rest ih =>
    simp only [List.length_cons] at hlen
    obtain ⟨f1, f2⟩ := foldl_addEdge (n := n) (src := src) (by omega) es m hm (hes es (by simp))
    obtain ⟨l1, l2⟩ := ih (src + 1) _ (f1.ok hm) (by omega) (fun x hx => hes x (by simp [hx]))
    refine ⟨l1, ?_⟩
    intro a b ha hb
    simp only [ofGraphFrom]
    rw [l2 a b ha hb, f2 a b ha hb]
    by_cases h1 : a = src
    · subst h1; simp [succs]; omega
    · by_cases h2 : src ≤ a
      · have h3 : a - src = (a - (src + 1)) + 1 := by omega
        have h4 : src + 1 ≤ a := by omega
        simp [h1, h2, h3, h4, succs]
      · have h4 : ¬ src + 1 ≤ a := by omega
        simp [h1, h2, h4]

theorem ok_ofGraph (g : Graph) (h : Wf g) : Ok (ofGraph g) g.length :=
  (ofGraphFrom_spec g 0 (new g.length) (ok_new _) (by omega) (by
    intro es hes e he
    obtain ⟨i, hi, rfl⟩ := List.getElem_of_mem hes
    exact h i e (by simp [Edge, succs, hi, he]))).1

theorem n_ofGraph (g : Graph) (h : Wf g) : (ofGraph g).n = g.length := (ok_ofGraph g h).1

theorem hasEdge_ofGraph (g : Graph) (h : Wf g) (a b : Nat) (ha : a < g.length) (hb : b < g.length) :
    (ofGraph g).hasEdge a b = true ↔ Edge g a b := by
  have := (ofGraphFrom_spec g 0 (new g.length) (ok_new _) (by omega) (by
    intro es hes e he
    obtain ⟨i, hi, rfl⟩ := List.getElem_of_mem hes
    exact h i e (by simp [Edge, succs, hi, he]))).2 a b ha hb
  unfold ofGraph
  rw [this]
  simp [hasEdge_new, Edge]

theorem E_ofGraph (g : Graph) (h : Wf g) (a b : Nat) : (ofGraph g).E a b ↔ Edge g a b := by
  unfold E
  rw [n_ofGraph g h]
  constructor
  · rintro ⟨ha, hb, hab⟩; exact (hasEdge_ofGraph g h a b ha hb).1 hab
  · intro e; exact ⟨e.lt_left, h _ _ e, (hasEdge_ofGraph g h a b e.lt_left (h _ _ e)).2 e⟩

theorem closure_ofGraph (g : Graph) (h : Wf g) (a b : Nat) (ha : a < g.length) (hb : b < g.length) :
    (ofGraph g).closure.hasEdge a b = true ↔ Relation.TransGen (Edge g) a b := by
  have hok := ok_ofGraph g h
  rw [closure_spec (ofGraph g) (by rw [hok.2, hok.1]) a b (by rw [hok.1]; exact ha) (by rw [hok.1]; exact hb)]
  constructor
  · exact transGen_mono (fun a b e => (E_ofGraph g h a b).1 e)
  · exact transGen_mono (fun a b e => (E_ofGraph g h a b).2 e)

end Matrix
end TmVerif.Graph
