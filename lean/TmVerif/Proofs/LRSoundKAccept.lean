/-
Helper lemmas for C07 soundness, part 4: the stack in the final state (adapted from
Proofs/LRSoundAccept.lean).
-/
import TmVerif.Proofs.LRSoundKStep
namespace TmVerif.LRSoundK
open TmVerif.LR TmVerif.CFG TmVerif.LRSound

theorem finalOk_elimK {g : Grammar} {t : Tables} {cert : Cert} {i : Nat}
    (h : finalOk g t cert i = true) :
    ∃ (gi : GInput) (f l : Int), g.inputs[i]? = some gi ∧ t.finalStates[i]? = some f ∧
      gotoState t i gi.sym = some l ∧ (g.inputs.size : Int) ≤ l ∧ (g.inputs.size : Int) ≤ f ∧
      reachOk t cert i = true ∧
      (∀ p x q, (p, x, q) ∈ edges t → p ∈ reachOf cert i → q = l → p = i ∧ x = gi.sym) ∧
      ((gi.eoi = true ∧ f ≠ l ∧
          ∀ p x q, (p, x, q) ∈ edges t → p ∈ reachOf cert i → q = f → (p : Int) = l ∧ x = 0) ∨
       (gi.eoi = false ∧ f = l)) := by
  unfold finalOk at h
  split at h
  · rename_i gi f hgi hf
    split at h
    · rename_i l hl
      simp only [Bool.and_eq_true, decide_eq_true_eq, List.all_eq_true] at h
      obtain ⟨⟨⟨⟨h1, h2⟩, hr⟩, h3⟩, h4⟩ := h
      refine ⟨gi, f, l, hgi, hf, hl, h1, h2, hr, ?_, ?_⟩
      · intro p x q hm hp hq
        have := h3 (p, x, q) hm
        simp only [Bool.or_eq_true, Bool.not_eq_true', List.contains_eq_mem, decide_eq_false_iff_not,
          bne_iff_ne, ne_eq, Bool.and_eq_true, beq_iff_eq] at this
        rcases this with (h | h) | h
        · exact absurd hp h
        · exact absurd hq h
        · exact h
      · cases he : gi.eoi with
        | true =>
          rw [he] at h4
          simp only [if_true, Bool.and_eq_true, decide_eq_true_eq, List.all_eq_true] at h4
          refine Or.inl ⟨rfl, h4.1, ?_⟩
          intro p x q hm hp hq
          have := h4.2 (p, x, q) hm
          simp only [Bool.or_eq_true, Bool.not_eq_true', List.contains_eq_mem,
            decide_eq_false_iff_not, bne_iff_ne, ne_eq, Bool.and_eq_true, beq_iff_eq] at this
          rcases this with (h | h) | h
          · exact absurd hp h
          · exact absurd hq h
          · exact h
        | false =>
          rw [he] at h4
          simp only [Bool.false_eq_true, if_false, beq_iff_eq] at h4
          exact Or.inr ⟨rfl, h4⟩
    · cases h
  · cases h

theorem reachOk_elimK {t : Tables} {cert : Cert} {i : Nat} (h : reachOk t cert i = true) :
    i ∈ reachOf cert i ∧
    ∀ p x (q : Nat), (p, x, (q : Int)) ∈ edges t → p ∈ reachOf cert i → q ∈ reachOf cert i := by
  unfold reachOk at h
  simp only [Bool.and_eq_true, List.contains_eq_mem, decide_eq_true_eq, List.all_eq_true] at h
  refine ⟨h.1, ?_⟩
  intro p x q hm hp
  have := h.2 (p, x, (q : Int)) hm
  simp only [Bool.or_eq_true, Bool.not_eq_true', decide_eq_false_iff_not,
    decide_eq_true_eq, Int.toNat_natCast] at this
  rcases this with (h | h) | h
  · exact absurd hp h
  · omega
  · exact h

/-- every state on the stack is in the reachable set of the certificate -/
theorem StackOkK.reach {g : Grammar} {t : Tables} {cert : Cert} {i : Nat}
    (hr : reachOk t cert i = true)
    {stk : List Entry} {s : Nat} {syms : List Int} {w : List Nat}
    (h : StackOkK g t i stk s syms w) : s ∈ reachOf cert i := by
  induction h with
  | base e he => exact (reachOk_elimK hr).1
  | push e rest p X q syms w y _ _ _ hE _ ih => exact (reachOk_elimK hr).2 p X q (edge_memK hE) ih

/-- below an entry state there is nothing -/
theorem StackOkK.entry {g : Grammar} {t : Tables} {cert : Cert} {i : Nat} (hc : CertFactsK g t cert)
    {stk : List Entry} {s : Nat} {syms : List Int} {w : List Nat}
    (h : StackOkK g t i stk s syms w) (hs : s < g.inputs.size) : w = [] := by
  cases h with
  | base e he => rfl
  | push e rest p X q syms w y _ _ _ hE _ =>
    obtain ⟨q', h1, h2, _, _⟩ := edgeOk_elim (edge_okK hc hE)
    omega

theorem final_yieldK {g : Grammar} {t : Tables} {cert : Cert} {i : Nat} (hc : CertFactsK g t cert)
    (hi : i < g.inputs.size) {stk : List Entry} {s : Nat} {syms : List Int} {w : List Nat}
    (hstk : StackOkK g t i stk s syms w) (f : Int) (hf : t.finalStates[i]? = some f)
    (hsf : (s : Int) = f) :
    ∃ gi u, g.inputs[i]? = some gi ∧ Derives g gi.sym u ∧
      ((gi.eoi = true ∧ w = u ++ [0]) ∨ (gi.eoi = false ∧ w = u)) := by
  obtain ⟨gi, f', l, hgi, hf', hl, hl1, hf1, hr, hedge, hcase⟩ := finalOk_elimK (hc.finals i hi)
  rw [hf] at hf'
  injection hf' with hf'
  subst hf' hsf
  cases hstk with
  | base e he => omega
  | push e rest p X q syms w y hrest _ _ hE hD =>
    have hm := edge_memK hE
    have hpr := hrest.reach hr
    rcases hcase with ⟨he, hne, hedge2⟩ | ⟨he, hfl⟩
    · obtain ⟨hp, hX⟩ := hedge2 _ _ _ hm hpr rfl
      subst hX
      have hy := derives_zero (wfFacts hc.wf) hD
      subst hy
      cases hrest with
      | base e he => omega
      | push e' rest' p' X' q' syms' w' y' hrest' _ _ hE' hD' =>
        obtain ⟨hp', hX'⟩ := hedge _ _ _ (edge_memK hE') (hrest'.reach hr) hp
        subst hp' hX'
        have := hrest'.entry hc hi
        subst this
        exact ⟨gi, y', hgi, hD', Or.inl ⟨he, by simp⟩⟩
    · obtain ⟨hp, hX⟩ := hedge _ _ _ hm hpr hfl
      subst hp hX
      have := hrest.entry hc hi
      subst this
      exact ⟨gi, y, hgi, hD, Or.inr ⟨he, by simp⟩⟩


end TmVerif.LRSoundK
