import TmVerif.Model.EventNesting
import TmVerif.Proofs.LRX
/-!
C20 — nesting of the listener events of the extended runtime model.

Invariant (`Core`): the stack entries form a chain of ordered ranges below the offset `N` of the next
unconsumed token; every event reported so far is (closed-interval) before, after or inside every
stack entry; the events are pairwise `Compat` in report order. A reduce reports ranges whose end
points are end points of popped entries (`Anch`), inner first; recovery replaces popped entries and
skipped tokens by one `error` entry spanning them.
-/
namespace TmVerif.EventNesting
open TmVerif.LR TmVerif.LRX TmVerif.TreeBuilder

/-! ### tokens -/

theorem tok_eoi (inp : Input) (i : Nat) (h : inp.toks.size ≤ i) : inp.tok i = ⟨0, inp.endOff, inp.endOff⟩ := by
  unfold Input.tok
  rw [Array.getElem?_eq_none (by omega)]

theorem tok_facts {inp : Input} (hw : InputWF inp) (i : Nat) :
    (inp.tok i).off ≤ (inp.tok i).endo ∧ (inp.tok i).endo ≤ (inp.tok (i + 1)).off ∧
    ((inp.tok i).sym = 0 → (inp.tok i).off = (inp.tok i).endo) := by
  rcases Nat.lt_or_ge i inp.toks.size with h | h
  · obtain ⟨h1, h2, h3⟩ := hw i h
    exact ⟨h2, h3, fun h0 => absurd h0 h1⟩
  · rw [tok_eoi inp i h, tok_eoi inp (i + 1) (by omega)]
    simp

theorem tok_off_mono {inp : Input} (hw : InputWF inp) : ∀ i j, i ≤ j → (inp.tok i).off ≤ (inp.tok j).off := by
  intro i j hij
  induction j with
  | zero => have : i = 0 := by omega
            subst this; exact Nat.le_refl _
  | succ j ih =>
    rcases Nat.lt_or_ge i (j + 1) with h | h
    · have h1 := ih (by omega)
      have h2 := tok_facts hw j
      omega
    · have : i = j + 1 := by omega
      subst this; exact Nat.le_refl _

theorem tok_off_le_end {inp : Input} (hw : InputWF inp) (i : Nat) : (inp.tok i).off ≤ inp.endOff := by
  have h1 := tok_off_mono hw i (i + inp.toks.size) (by omega)
  rw [tok_eoi inp (i + inp.toks.size) (by omega)] at h1
  exact h1

/-! ### the abstract invariant -/

/-- closed-interval trichotomy of an event against a stack entry -/
def CompatE (p : TreeBuilder.Ev) (e : Entry) : Prop :=
  p.endo ≤ e.off ∨ e.endo ≤ p.off ∨ (e.off ≤ p.off ∧ p.endo ≤ e.endo)

/-- `st` top first, `evs` most recent first, `N` = offset of the next unconsumed token -/
structure Core (N : Nat) (st : List Entry) (evs : List TreeBuilder.Ev) : Prop where
  chain : st.Pairwise (fun a b => b.endo ≤ a.off)
  ent : ∀ e ∈ st, e.off ≤ e.endo ∧ e.endo ≤ N
  evb : ∀ p ∈ evs, p.off ≤ p.endo ∧ p.endo ≤ N
  evc : ∀ p ∈ evs, ∀ e ∈ st, CompatE p e
  pw : evs.Pairwise (fun later earlier => Compat earlier later)

theorem Core.mono {N N' st evs} (h : Core N st evs) (hN : N ≤ N') : Core N' st evs :=
  ⟨h.chain, fun e he => ⟨(h.ent e he).1, Nat.le_trans (h.ent e he).2 hN⟩,
   fun p hp => ⟨(h.evb p hp).1, Nat.le_trans (h.evb p hp).2 hN⟩, h.evc, h.pw⟩

/-- pushing an entry that starts at or after `N` (a shifted token, an empty reduction without
events, the `error` entry on top of the whole stack) -/
theorem Core.push {N N' st evs} (h : Core N st evs) (g : Entry) (h1 : N ≤ g.off) (h2 : g.off ≤ g.endo)
    (h3 : g.endo ≤ N') : Core N' (g :: st) evs := by
  have hN : N ≤ N' := by omega
  refine ⟨?_, ?_, (h.mono hN).evb, ?_, h.pw⟩
  · rw [List.pairwise_cons]
    exact ⟨fun e he => by have := (h.ent e he).2; omega, h.chain⟩
  · intro e he
    rcases List.mem_cons.1 he with rfl | he
    · exact ⟨h2, h3⟩
    · exact (h.mono hN).ent e he
  · intro p hp e he
    rcases List.mem_cons.1 he with rfl | he
    · have := (h.evb p hp).2
      exact .inl (by omega)
    · exact h.evc p hp e he

/-- a range whose end points are end points of stack entries (or empty at the start of an entry) -/
def Anch (st : List Entry) (o e : Nat) : Prop :=
  (∃ A ∈ st, ∃ B ∈ st, o = A.off ∧ e = B.endo) ∨ (∃ A ∈ st, o = A.off ∧ e = A.off)

theorem compat_of_anch {N st evs} (h : Core N st evs) {o e : Nat} (ha : Anch st o e)
    {p : TreeBuilder.Ev} (hp : p ∈ evs) :
    p.endo ≤ o ∨ e ≤ p.off ∨ (o ≤ p.off ∧ p.endo ≤ e) := by
  have hpb := (h.evb p hp).1
  rcases ha with ⟨A, hA, B, hB, rfl, rfl⟩ | ⟨A, hA, rfl, rfl⟩
  · have h1 := h.evc p hp A hA
    have h2 := h.evc p hp B hB
    have h3 := (h.ent A hA).1
    have h4 := (h.ent B hB).1
    unfold CompatE at h1 h2
    omega
  · have h1 := h.evc p hp A hA
    have h3 := (h.ent A hA).1
    unfold CompatE at h1
    omega

/-- The general reduce step: pop `ln` entries, report `fs` (time order), push `g`. -/
theorem Core.reduce {N st evs} (h : Core N st evs) (ln : Nat) (g : Entry) (fs : List TreeBuilder.Ev)
    (g1 : g.off ≤ g.endo ∧ g.endo ≤ N)
    (g2 : ∀ e ∈ st.drop ln, e.endo ≤ g.off)
    (g3 : ∀ p ∈ evs, CompatE p g)
    (f1 : ∀ f ∈ fs, f.off ≤ f.endo ∧ f.endo ≤ N)
    (f2 : ∀ f ∈ fs, ∀ p ∈ evs, Compat p f)
    (f3 : ∀ f ∈ fs, CompatE f g ∧ ∀ e ∈ st.drop ln, CompatE f e)
    (f4 : fs.Pairwise Compat) :
    Core N (g :: st.drop ln) (fs.reverse ++ evs) := by
  have hsub : ∀ e ∈ st.drop ln, e ∈ st := fun e he => List.mem_of_mem_drop he
  refine ⟨?_, ?_, ?_, ?_, ?_⟩
  · rw [List.pairwise_cons]
    exact ⟨g2, h.chain.sublist (List.drop_sublist ln st)⟩
  · intro e he
    rcases List.mem_cons.1 he with rfl | he
    · exact g1
    · exact h.ent e (hsub e he)
  · intro p hp
    rcases List.mem_append.1 hp with hp | hp
    · exact f1 p (List.mem_reverse.1 hp)
    · exact h.evb p hp
  · intro p hp e he
    rcases List.mem_append.1 hp with hp | hp
    · have := f3 p (List.mem_reverse.1 hp)
      rcases List.mem_cons.1 he with rfl | he
      · exact this.1
      · exact this.2 e he
    · rcases List.mem_cons.1 he with rfl | he
      · exact g3 p hp
      · exact h.evc p hp e (hsub e he)
  · rw [List.pairwise_append]
    refine ⟨?_, h.pw, ?_⟩
    · rw [List.pairwise_reverse]
      exact f4
    · intro f hf p hp
      exact f2 f (List.mem_reverse.1 hf) p hp

/-- events only (what survives in configurations of aborted steps) -/
structure EvsOK (N : Nat) (evs : List TreeBuilder.Ev) : Prop where
  evb : ∀ p ∈ evs, p.off ≤ p.endo ∧ p.endo ≤ N
  pw : evs.Pairwise (fun later earlier => Compat earlier later)

theorem Core.evsOK {N st evs} (h : Core N st evs) : EvsOK N evs := ⟨h.evb, h.pw⟩

theorem EvsOK.mono {N N' evs} (h : EvsOK N evs) (hN : N ≤ N') : EvsOK N' evs :=
  ⟨fun p hp => ⟨(h.evb p hp).1, Nat.le_trans (h.evb p hp).2 hN⟩, h.pw⟩

theorem EvsOK.append {N evs} (h : EvsOK N evs) (fs : List TreeBuilder.Ev)
    (f1 : ∀ f ∈ fs, f.off ≤ f.endo ∧ f.endo ≤ N)
    (f2 : ∀ f ∈ fs, ∀ p ∈ evs, Compat p f)
    (f4 : fs.Pairwise Compat) : EvsOK N (fs.reverse ++ evs) := by
  refine ⟨?_, ?_⟩
  · intro p hp
    rcases List.mem_append.1 hp with hp | hp
    · exact f1 p (List.mem_reverse.1 hp)
    · exact h.evb p hp
  · rw [List.pairwise_append]
    refine ⟨?_, h.pw, ?_⟩
    · rw [List.pairwise_reverse]; exact f4
    · intro f hf p hp
      exact f2 f (List.mem_reverse.1 hf) p hp

/-! ### a chain of entries, bottom first -/

structure Chain (l : List Entry) : Prop where
  ord : l.Pairwise (fun a b => a.endo ≤ b.off)
  wf : ∀ a ∈ l, a.off ≤ a.endo

theorem Chain.rel {l : List Entry} (h : Chain l) {i j : Nat} {a b : Entry}
    (hi : l[i]? = some a) (hj : l[j]? = some b) :
    (i < j → a.endo ≤ b.off) ∧ (i ≤ j → a.off ≤ b.off ∧ a.endo ≤ b.endo) ∧
    (i = j → a.off = b.off ∧ a.endo = b.endo) ∧ a.off ≤ a.endo ∧ b.off ≤ b.endo := by
  obtain ⟨hi1, hi2⟩ := List.getElem?_eq_some_iff.1 hi
  obtain ⟨hj1, hj2⟩ := List.getElem?_eq_some_iff.1 hj
  have ha := h.wf a (List.mem_of_getElem? hi)
  have hb := h.wf b (List.mem_of_getElem? hj)
  have hlt : i < j → a.endo ≤ b.off := by
    intro hij
    have := (List.pairwise_iff_getElem.1 h.ord) i j hi1 hj1 hij
    rw [hi2, hj2] at this
    exact this
  have heq : i = j → a = b := by
    intro hij; subst hij; rw [hi] at hj; exact Option.some.inj hj
  refine ⟨hlt, ?_, ?_, ha, hb⟩
  · intro hij
    rcases Nat.lt_or_ge i j with h1 | h1
    · have := hlt h1; omega
    · have := heq (by omega); subst this; omega
  · intro hij; have := heq hij; subst this; exact ⟨rfl, rfl⟩

/-- what a report `r` of a rule may put out for the right-hand side `l` (bottom first):
an empty range sits at the start of the entry that follows it; a non-empty range runs from the
start of its first entry to the end of entry `b`, its last entry (`fw = false`) or its last
non-empty entry (`fw = true`: `reportRange` drops trailing empty entries but keeps one). -/
def RepSpec (fw : Bool) (l : List Entry) (r : Report) (f : TreeBuilder.Ev) : Prop :=
  (r.start = r.stop ∧ ∃ A, l[r.stop]? = some A ∧ f.off = A.off ∧ f.endo = A.off) ∨
  (r.start < r.stop ∧ ∃ b A B, l[r.start]? = some A ∧ l[b]? = some B ∧ r.start ≤ b ∧ b < r.stop ∧
     f.off = A.off ∧ f.endo = B.endo ∧
     (∀ (j : Nat) (E : Entry), b < j → j < r.stop → l[j]? = some E → E.off = E.endo) ∧
     (if fw then (b = r.start ∨ B.off ≠ B.endo) else b + 1 = r.stop))

theorem RepSpec.pair {fw : Bool} {l : List Entry} (hc : Chain l) {r1 r2 : Report} {f1 f2 : TreeBuilder.Ev}
    (hn : RepNested r1 r2) (h1 : RepSpec fw l r1 f1) (h2 : RepSpec fw l r2 f2) : Compat f1 f2 := by
  unfold RepNested at hn
  unfold Compat
  rcases h1 with ⟨e1, A1, hA1, o1, n1⟩ | ⟨lt1, b1, A1, B1, hA1, hB1, sb1, bt1, o1, n1, em1, md1⟩
  · rcases h2 with ⟨e2, A2, hA2, o2, n2⟩ | ⟨lt2, b2, A2, B2, hA2, hB2, sb2, bt2, o2, n2, em2, md2⟩
    · have := (hc.rel hA1 hA2).2.1
      have := (hc.rel hA2 hA1).2.1
      omega
    · have h3 := (hc.rel hA1 hA2).2.1
      have h4 := (hc.rel hA2 hA1).2.1
      have h5 := (hc.rel hA1 hB2).2.1
      have h6 := (hc.rel hB2 hA1).1
      have h7 := (hc.rel hA1 hA1).2.2.2.1
      omega
  · rcases h2 with ⟨e2, A2, hA2, o2, n2⟩ | ⟨lt2, b2, A2, B2, hA2, hB2, sb2, bt2, o2, n2, em2, md2⟩
    · have h3 := (hc.rel hA2 hA1).2.1
      have h4 := (hc.rel hB1 hA2).1
      omega
    · rcases hn with hn | hn | ⟨hn1, hn2⟩
      · have := (hc.rel hB1 hA2).1
        omega
      · have := (hc.rel hB2 hA1).1
        omega
      · have h3 := (hc.rel hA2 hA1).2.1 hn1
        rcases Nat.lt_or_ge b2 b1 with hb | hb
        · have hemp := em2 b1 B1 hb (by omega) hB1
          have h4 := (hc.rel hB2 hB1).1 hb
          cases fw
          · simp only [Bool.false_eq_true, if_false] at md1 md2
            omega
          · simp only [if_true] at md1
            rcases md1 with md1 | md1
            · subst md1
              have hAB : A1 = B1 := by rw [hA1] at hB1; exact Option.some.inj hB1
              subst hAB
              omega
            · omega
        · have h4 := (hc.rel hB1 hB2).2.1 hb
          omega

/-- the range of the rule's own entry/node over a non-empty right-hand side `l` -/
def GSpec (fixWS : Bool) (l : List Entry) (off endo : Nat) : Prop :=
  ∃ A, l[0]? = some A ∧ off = A.off ∧
    (if fixWS then
       ((∃ (L : Nat) (B : Entry), l[L]? = some B ∧ B.off ≠ B.endo ∧ endo = B.endo ∧
           ∀ (j : Nat) (E : Entry), L < j → l[j]? = some E → E.off = E.endo) ∨
        ((∀ (j : Nat) (E : Entry), l[j]? = some E → E.off = E.endo) ∧ endo = off))
     else ∃ B : Entry, l[l.length - 1]? = some B ∧ endo = B.endo)

theorem RepSpec.inRule {fw fixWS : Bool} {l : List Entry} (hc : Chain l) {r : Report} {f : TreeBuilder.Ev}
    {off endo : Nat} (hfw : fixWS = true → fw = true) (h1 : RepSpec fw l r f) (hg : GSpec fixWS l off endo) :
    f.endo ≤ off ∨ endo ≤ f.off ∨ (off ≤ f.off ∧ f.endo ≤ endo) := by
  obtain ⟨A0, hA0, rfl, hg⟩ := hg
  rcases h1 with ⟨e1, A1, hA1, o1, n1⟩ | ⟨lt1, b1, A1, B1, hA1, hB1, sb1, bt1, o1, n1, em1, md1⟩
  · cases fixWS
    · simp only [Bool.false_eq_true, if_false] at hg
      obtain ⟨B, hB, rfl⟩ := hg
      have := hc.rel hA0 hA1
      have := hc.rel hA1 hB
      have hlen := (List.getElem?_eq_some_iff.1 hA1).1
      omega
    · simp only [if_true] at hg
      rcases hg with ⟨L, B, hB, hne, rfl, hem⟩ | ⟨hall, rfl⟩
      · have := hc.rel hA0 hA1
        have := hc.rel hA1 hB
        have := hc.rel hB hA1
        omega
      · have := hc.rel hA0 hA1
        omega
  · cases fixWS
    · simp only [Bool.false_eq_true, if_false] at hg
      obtain ⟨B, hB, rfl⟩ := hg
      have := hc.rel hA0 hA1
      have := hc.rel hB1 hB
      have hlen := (List.getElem?_eq_some_iff.1 hB1).1
      omega
    · simp only [if_true] at hg
      have hfw' := hfw rfl
      subst hfw'
      simp only [if_true] at md1
      rcases hg with ⟨L, B, hB, hne, rfl, hem⟩ | ⟨hall, rfl⟩
      · have := hc.rel hA0 hA1
        have := hc.rel hB1 hB
        have := hc.rel hB hB1
        have := hc.rel hA1 hB1
        have hemp := fun hl => hem b1 B1 hl hB1
        rcases md1 with md1 | md1
        · subst md1
          have hAB : A1 = B1 := by rw [hA1] at hB1; exact Option.some.inj hB1
          subst hAB
          omega
        · omega
      · have := hc.rel hA0 hA1
        have := hc.rel hA1 hB1
        have := hall b1 B1 hB1
        rcases md1 with md1 | md1
        · subst md1
          have hAB : A1 = B1 := by rw [hA1] at hB1; exact Option.some.inj hB1
          subst hAB
          omega
        · omega

/-! ### what `applyRuleEvents` reports -/

theorem rhsAt_eq (rhsTop : List Entry) (j : Nat) : rhsAt rhsTop rhsTop.length j = rhsTop.reverse[j]? := by
  unfold rhsAt
  split
  · next h => rw [List.getElem?_reverse h]
  · next h => rw [List.getElem?_eq_none (by simpa using Nat.le_of_not_lt h)]

theorem trimTrailing_spec : ∀ (sl : List Entry), sl ≠ [] → ∃ m, m < sl.length ∧ trimTrailing sl = sl.drop m ∧
    (∀ (i : Nat) (E : Entry), i < m → sl[i]? = some E → E.off = E.endo) ∧
    (m + 1 = sl.length ∨ ∃ E : Entry, sl[m]? = some E ∧ E.off ≠ E.endo) := by
  intro sl
  induction sl with
  | nil => intro h; exact absurd rfl h
  | cons e rest ih =>
    intro _
    cases rest with
    | nil => exact ⟨0, by simp, by simp [trimTrailing], by intro i E hi; omega, .inl rfl⟩
    | cons e' rest' =>
      by_cases he : e.off = e.endo
      · obtain ⟨m, hm, htrim, hemp, hlast⟩ := ih (by simp)
        refine ⟨m + 1, by simp at hm ⊢; omega, ?_, ?_, ?_⟩
        · rw [trimTrailing, if_pos he, htrim]; rfl
        · intro i E hi hE
          cases i with
          | zero => simp at hE; subst hE; exact he
          | succ i => exact hemp i E (by omega) (by simpa using hE)
        · rcases hlast with h | ⟨E, hE, hne⟩
          · exact .inl (by simp at h ⊢; omega)
          · exact .inr ⟨E, by simpa using hE, hne⟩
      · refine ⟨0, by simp, ?_, by intro i E hi; omega, .inr ⟨e, by simp, he⟩⟩
        rw [trimTrailing, if_neg he]; rfl

theorem filterMap_full {α β : Type} (f : α → Option β) : ∀ xs : List α,
    (xs.filterMap f).length = xs.length → ∀ i : Nat, (xs.filterMap f)[i]? = xs[i]?.bind f := by
  intro xs
  induction xs with
  | nil => intro _ i; simp
  | cons a xs ih =>
    intro hlen i
    cases hf : f a with
    | none =>
      rw [List.filterMap_cons_none hf] at hlen
      have := List.length_filterMap_le f xs
      simp at hlen; omega
    | some b =>
      rw [List.filterMap_cons_some hf] at hlen ⊢
      cases i with
      | zero => simp [hf]
      | succ i => simpa using ih (by simpa using hlen) i

/-- the slice `rhs[s:t]` as the model builds it (last element first) -/
theorem slice_get (l : List Entry) (s n : Nat)
    (hlen : ((List.range n).reverse.filterMap fun k => l[s + k]?).length = n) (i : Nat) (hi : i < n) :
    ((List.range n).reverse.filterMap fun k => l[s + k]?)[i]? = l[s + (n - 1 - i)]? := by
  rw [filterMap_full _ _ (by simpa using hlen)]
  rw [List.getElem?_reverse (by simpa using hi)]
  simp only [List.length_range]
  rw [List.getElem?_range (by omega)]
  rfl

/-- the listener call of one report (the body of the fold in `applyRuleEvents`) -/
def repEv (fw : Bool) (rhsTop : List Entry) (ln : Nat) (r : Report) : Option XEv :=
  if r.start = r.stop then
    match rhsAt rhsTop ln r.stop with
    | some e => some (XEv.node r.type e.off e.off)
    | none => none
  else if fw then
    let slice := ((List.range (r.stop - r.start)).reverse.filterMap fun k => rhsAt rhsTop ln (r.start + k))
    if slice.length ≠ r.stop - r.start then none
    else match trimTrailing slice with
      | [] => none
      | last :: rest => some (XEv.node r.type ((rest.getLast?).getD last).off last.endo)
  else
    match rhsAt rhsTop ln r.start, rhsAt rhsTop ln (r.stop - 1) with
    | some a, some b => some (XEv.node r.type a.off b.endo)
    | _, _ => none

theorem repEv_spec {fw : Bool} {rhsTop : List Entry} {r : Report} {ev : XEv}
    (hr : r.start ≤ r.stop) (h : repEv fw rhsTop rhsTop.length r = some ev) :
    ∃ t o e, ev = XEv.node t o e ∧ RepSpec fw rhsTop.reverse r ⟨t, o, e⟩ := by
  unfold repEv at h
  simp only [rhsAt_eq] at h
  split at h
  · next heq =>
    split at h
    · next A hA =>
      simp only [Option.some.injEq] at h
      exact ⟨_, _, _, h.symm, .inl ⟨heq, A, hA, rfl, rfl⟩⟩
    · cases h
  · next hne =>
    have hlt : r.start < r.stop := by omega
    split at h
    · next hfw =>
      subst hfw
      split at h
      · cases h
      · next hlen =>
        have hlen' := Decidable.of_not_not hlen
        generalize hsl : ((List.range (r.stop - r.start)).reverse.filterMap fun k => rhsTop.reverse[r.start + k]?) = sl at h hlen'
        have hget := fun i hi => slice_get rhsTop.reverse r.start (r.stop - r.start) (by rw [hsl]; exact hlen') i hi
        rw [hsl] at hget
        have hne' : sl ≠ [] := by
          intro h0; rw [h0] at hlen'; simp at hlen'; omega
        obtain ⟨m, hm, htrim, hemp, hlast⟩ := trimTrailing_spec sl hne'
        rw [htrim] at h
        split at h
        · cases h
        · next last rest hdrop =>
          simp only [Option.some.injEq] at h
          -- last = sl[m], first = sl.getLast
          have hlast' : sl[m]? = some last := by
            have : (sl.drop m)[0]? = some last := by rw [hdrop]; rfl
            simpa using this
          have hfirst : sl[sl.length - 1]? = some ((rest.getLast?).getD last) := by
            have h1 : (sl.drop m).getLast? = some ((rest.getLast?).getD last) := by
              rw [hdrop, List.getLast?_cons]
            rw [List.getLast?_drop, if_neg (by omega), List.getLast?_eq_getElem?] at h1
            exact h1
          rw [hget m (by omega)] at hlast'
          rw [hget (sl.length - 1) (by omega)] at hfirst
          have hA : rhsTop.reverse[r.start]? = some ((rest.getLast?).getD last) := by
            have : r.start + (r.stop - r.start - 1 - (sl.length - 1)) = r.start := by omega
            rw [this] at hfirst; exact hfirst
          refine ⟨_, _, _, h.symm, .inr ⟨hlt, r.start + (r.stop - r.start - 1 - m), _, _, hA, hlast', by omega, by omega, rfl, rfl, ?_, ?_⟩⟩
          · intro j E hj1 hj2 hE
            -- j = start + (n - 1 - i) with i < m
            have hi : r.stop - 1 - j < m := by omega
            have := hget (r.stop - 1 - j) (by omega)
            have hj : r.start + (r.stop - r.start - 1 - (r.stop - 1 - j)) = j := by omega
            rw [hj, hE] at this
            exact hemp _ E hi this
          · simp only [if_true]
            rcases hlast with hl | ⟨E, hE, hne2⟩
            · exact .inl (by omega)
            · rw [hget m (by omega), hlast'] at hE
              cases hE
              exact .inr hne2
    · next hfw =>
      have hfw' : fw = false := by cases fw <;> simp_all
      subst hfw'
      split at h
      · next A B hA hB =>
        simp only [Option.some.injEq] at h
        refine ⟨_, _, _, h.symm, .inr ⟨hlt, r.stop - 1, A, B, hA, hB, by omega, by omega, rfl, rfl, ?_, ?_⟩⟩
        · intro j E hj1 hj2; omega
        · simp only [Bool.false_eq_true, if_false]; omega
      · cases h

/-- all reports of a rule, in order -/
def repEvs (fw : Bool) (rhsTop : List Entry) (ln : Nat) : List Report → Option (List XEv)
  | [] => some []
  | r :: rs =>
    match repEv fw rhsTop ln r, repEvs fw rhsTop ln rs with
    | some e, some es => some (e :: es)
    | _, _ => none

inductive All₂ {α β : Type} (R : α → β → Prop) : List α → List β → Prop
  | nil : All₂ R [] []
  | cons {a b as bs} : R a b → All₂ R as bs → All₂ R (a :: as) (b :: bs)

theorem All₂.exists_left {α β : Type} {R : α → β → Prop} {as : List α} {bs : List β} (h : All₂ R as bs) :
    ∀ b ∈ bs, ∃ a ∈ as, R a b := by
  induction h with
  | nil => intro b hb; cases hb
  | cons hab _ ih =>
    intro b hb
    rcases List.mem_cons.1 hb with rfl | hb
    · exact ⟨_, List.mem_cons_self .., hab⟩
    · obtain ⟨a, ha, hr⟩ := ih b hb
      exact ⟨a, List.mem_cons_of_mem _ ha, hr⟩

theorem All₂.pairwise {α β : Type} {R : α → β → Prop} {P : α → α → Prop} {Q : β → β → Prop}
    (hPQ : ∀ a1 a2 b1 b2, P a1 a2 → R a1 b1 → R a2 b2 → Q b1 b2)
    {as : List α} {bs : List β} (h : All₂ R as bs) (hp : as.Pairwise P) : bs.Pairwise Q := by
  induction h with
  | nil => exact .nil
  | cons hab hrest ih =>
    rw [List.pairwise_cons] at hp ⊢
    refine ⟨?_, ih hp.2⟩
    intro b' hb'
    obtain ⟨a', ha', hr'⟩ := hrest.exists_left b' hb'
    exact hPQ _ _ _ _ (hp.1 a' ha') hab hr'

theorem foldl_reports (f : Option (List XEv) → Report → Option (List XEv)) (g : Report → Option XEv)
    (hnone : ∀ r, f none r = none)
    (hsome : ∀ acc r, f (some acc) r = (g r).map (fun e => acc ++ [e])) :
    ∀ (reports : List Report) (acc out : List XEv), reports.foldl f (some acc) = some out →
      ∃ fs, out = acc ++ fs ∧ All₂ (fun r e => g r = some e) reports fs := by
  have hn : ∀ reports : List Report, reports.foldl f none = none := by
    intro reports
    induction reports with
    | nil => rfl
    | cons r rs ih => simp [List.foldl_cons, hnone, ih]
  intro reports
  induction reports with
  | nil => intro acc out h; simp at h; subst h; exact ⟨[], by simp, .nil⟩
  | cons r rs ih =>
    intro acc out h
    rw [List.foldl_cons, hsome] at h
    cases hg : g r with
    | none => rw [hg] at h; simp [hn] at h
    | some e =>
      rw [hg] at h
      obtain ⟨fs, rfl, hfs⟩ := ih _ _ h
      exact ⟨e :: fs, by simp, .cons hg hfs⟩

theorem nodeEvs_append (a b : List XEv) : nodeEvs (a ++ b) = nodeEvs a ++ nodeEvs b := by
  induction a with
  | nil => rfl
  | cons e a ih => cases e <;> simp [nodeEvs, ih]

theorem nodeEvs_reverse (a : List XEv) : nodeEvs a.reverse = (nodeEvs a).reverse := by
  induction a with
  | nil => rfl
  | cons e a ih => cases e <;> simp [nodeEvs, nodeEvs_append, ih]

def toX (e : TreeBuilder.Ev) : XEv := .node e.ty e.off e.endo

theorem nodeEvs_map_toX (es : List TreeBuilder.Ev) : nodeEvs (es.map toX) = es := by
  induction es with
  | nil => rfl
  | cons e es ih => simp [toX, nodeEvs, ih]

/-- the events of all reports of a rule, with their description -/
theorem reports_spec {fw : Bool} {rhsTop : List Entry} {reports : List Report} {fs : List XEv}
    (hr : ∀ r ∈ reports, r.start ≤ r.stop)
    (h : All₂ (fun r e => repEv fw rhsTop rhsTop.length r = some e) reports fs) :
    ∃ es : List TreeBuilder.Ev, fs = es.map toX ∧ All₂ (RepSpec fw rhsTop.reverse) reports es := by
  induction h with
  | nil => exact ⟨[], rfl, .nil⟩
  | cons hab _ ih =>
    obtain ⟨es, rfl, hes⟩ := ih (fun r hr' => hr r (List.mem_cons_of_mem _ hr'))
    obtain ⟨t, o, e, rfl, hspec⟩ := repEv_spec (hr _ (List.mem_cons_self ..)) hab
    exact ⟨⟨t, o, e⟩ :: es, rfl, .cons hspec hes⟩

/-- `applyRuleEvents` in terms of `repEv` -/
theorem applyRuleEvents_spec {x : XTables} {rule : Int} {ln off endo : Nat} {st : List Entry}
    {evs : List XEv} {endo' : Nat} (h : applyRuleEvents x rule ln off endo st = some (evs, endo')) :
    ((if rule < 0 then none else x.rules[rule.toNat]?) = none ∧ evs = [] ∧ endo' = endo) ∨
    (∃ info, (if rule < 0 then none else x.rules[rule.toNat]?) = some info ∧
      ∃ fs, All₂ (fun r e => repEv x.fixWhitespace (st.take ln) ln r = some e) info.reports fs ∧
        endo' = (if info.fixWS then fixTrailingWS off endo (st.take ln) else endo) ∧
        evs = (if info.ruleType ≠ 0 then fs ++ [XEv.node info.ruleType off endo'] else fs)) := by
  unfold applyRuleEvents at h
  simp only at h
  split at h
  · next hnone =>
    simp only [Option.some.injEq, Prod.mk.injEq] at h
    exact .inl ⟨hnone, h.1.symm, h.2.symm⟩
  · next info hinfo =>
    split at h
    · cases h
    · next evs0 hf =>
      obtain ⟨fs, hfs, hall⟩ := foldl_reports _ (repEv x.fixWhitespace (st.take ln) ln) (fun r => rfl) (by
        intro acc r
        unfold repEv
        repeat' split
        all_goals first | rfl | simp_all) _ _ _ hf
      simp only [List.nil_append] at hfs
      subst hfs
      simp only [Option.some.injEq, Prod.mk.injEq] at h
      obtain ⟨h1, h2⟩ := h
      refine .inr ⟨info, hinfo, evs0, hall, h2.symm, ?_⟩
      rw [← h1, h2]

/-- the range of the reduced entry over a non-empty right-hand side -/
theorem gspec_of_rhs (fixWS : Bool) (rhs : List Entry) (hne : rhs ≠ []) :
    GSpec fixWS rhs.reverse ((rhs.getLast?.map (·.off)).getD 0)
      (if fixWS then fixTrailingWS ((rhs.getLast?.map (·.off)).getD 0) ((rhs.head?.map (·.endo)).getD 0) rhs
       else (rhs.head?.map (·.endo)).getD 0) := by
  obtain ⟨A, hA⟩ : ∃ A, rhs.getLast? = some A := by
    cases h : rhs.getLast? with
    | none => exact absurd (List.getLast?_eq_none_iff.1 h) hne
    | some A => exact ⟨A, rfl⟩
  obtain ⟨B, hB⟩ : ∃ B, rhs.head? = some B := by
    cases rhs with
    | nil => exact absurd rfl hne
    | cons b _ => exact ⟨b, rfl⟩
  refine ⟨A, by rw [← List.head?_eq_getElem?, List.head?_reverse]; exact hA, by simp [hA], ?_⟩
  cases fixWS
  · simp only [Bool.false_eq_true, if_false]
    refine ⟨B, ?_, by simp [hB]⟩
    rw [← List.getLast?_eq_getElem?, List.getLast?_reverse]; exact hB
  · simp only [if_true]
    unfold fixTrailingWS
    have hemp : rhs.isEmpty = false := by cases rhs <;> simp_all
    simp only [hemp, Bool.false_eq_true, if_false]
    split
    · next e hfind =>
      rw [List.find?_eq_some_iff_append] at hfind
      obtain ⟨hp, as, bs, hrhs, has⟩ := hfind
      refine .inl ⟨bs.length, e, ?_, by simpa using hp, rfl, ?_⟩
      · rw [hrhs]; simp
      · intro j E hj hE
        rw [hrhs] at hE
        have hsplit : (as ++ e :: bs).reverse = (e :: bs).reverse ++ as.reverse := by simp
        rw [hsplit, List.getElem?_append_right (by simp; omega)] at hE
        have hmem : E ∈ as := List.mem_reverse.1 (List.mem_of_getElem? hE)
        have := has E hmem
        simpa using this
    · next hfind =>
      rw [List.find?_eq_none] at hfind
      refine .inr ⟨?_, by simp [hA]⟩
      intro j E hE
      have hmem : E ∈ rhs := List.mem_reverse.1 (List.mem_of_getElem? hE)
      have := hfind E hmem
      simpa using this

theorem mem_rules_of_get {x : XTables} {rule : Int} {info : RuleInfo}
    (h : (if rule < 0 then none else x.rules[rule.toNat]?) = some info) : info ∈ x.rules.toList := by
  split at h
  · cases h
  · rw [Array.mem_toList_iff]
    exact Array.mem_of_getElem? h

/-- The reduce step preserves the invariant. `st` is the stack before the right-hand side is popped,
`evsN` the listener events so far (most recent first). -/
theorem reduce_core {x : XTables} (hx : XWF x) {N : Nat} {st : List Entry} {evsN : List TreeBuilder.Ev}
    (hc : Core N st evsN) {rule : Int} {ln off endo : Nat} {fs : List XEv} {endo' : Nat}
    (hln : ln ≤ st.length)
    (hoff : if ln = 0 then off = N ∧ endo = N
            else off = (((st.take ln).getLast?.map (·.off)).getD 0) ∧
                 endo = (((st.take ln).head?.map (·.endo)).getD 0))
    (h : applyRuleEvents x rule ln off endo st = some (fs, endo')) (lhs q : Int) :
    Core N (⟨lhs, off, endo', q⟩ :: st.drop ln) ((nodeEvs fs).reverse ++ evsN) := by
  -- the popped part as a chain
  have hst : st = st.take ln ++ st.drop ln := (List.take_append_drop ln st).symm
  have hchain := hc.chain
  rw [hst, List.pairwise_append] at hchain
  obtain ⟨hrhs, _, hcross⟩ := hchain
  have hmemr : ∀ a ∈ st.take ln, a ∈ st := fun a ha => List.mem_of_mem_take ha
  have hmeml : ∀ a ∈ (st.take ln).reverse, a ∈ st := fun a ha => hmemr a (List.mem_reverse.1 ha)
  have hC : Chain (st.take ln).reverse :=
    ⟨List.pairwise_reverse.2 hrhs, fun a ha => (hc.ent a (hmeml a ha)).1⟩
  have hlen : (st.take ln).length = ln := by simp; omega
  -- an event whose start is the start of a popped entry lies after every lower entry
  have lower : ∀ (A : Entry), A ∈ st.take ln → ∀ (f : TreeBuilder.Ev), f.off = A.off →
      ∀ e ∈ st.drop ln, CompatE f e := by
    intro A hA f hf e he
    have := hcross A hA e he
    exact .inr (.inl (by omega))
  rcases Nat.eq_zero_or_pos ln with h0 | hpos
  · -- empty right-hand side: no report can succeed
    subst h0
    simp only [if_true] at hoff
    obtain ⟨ho, he0⟩ := hoff
    rw [ho, he0] at h
    rw [ho]
    have key : ∀ (fs' : List TreeBuilder.Ev), (∀ f ∈ fs', f.off = N ∧ f.endo = N) → endo' = N →
        Core N (⟨lhs, N, endo', q⟩ :: st.drop 0) (fs'.reverse ++ evsN) := by
      intro fs' hfs' he
      subst he
      refine hc.reduce 0 _ fs' ⟨Nat.le_refl _, Nat.le_refl _⟩ ?_ ?_ ?_ ?_ ?_ ?_
      · intro e he; exact (hc.ent e (List.mem_of_mem_drop he)).2
      · intro p hp; exact .inl (hc.evb p hp).2
      · intro f hf; have := hfs' f hf; omega
      · intro f hf p hp
        have := hfs' f hf
        have := (hc.evb p hp).2
        exact .inl (by omega)
      · intro f hf
        have := hfs' f hf
        refine ⟨.inl (by simp; omega), ?_⟩
        intro e he
        have := (hc.ent e (List.mem_of_mem_drop he)).2
        exact .inr (.inl (by omega))
      · refine List.pairwise_of_forall_mem_list ?_
        intro a ha b hb
        have := hfs' a ha
        have := hfs' b hb
        exact .inl (by omega)
    rcases applyRuleEvents_spec h with ⟨_, rfl, rfl⟩ | ⟨info, hinfo, fs0, hall, hendo, hevs⟩
    · exact key [] (by simp) rfl
    · have hwf := hx _ (mem_rules_of_get hinfo)
      have hfs0 : fs0 = [] := by
        generalize hreps : info.reports = reps at hall
        cases hall with
        | nil => rfl
        | @cons r0 e0 _ _ hab _ =>
          exfalso
          have hr := hwf.2.1 r0 (by rw [hreps]; exact List.mem_cons_self ..)
          have hab' : repEv x.fixWhitespace (List.take 0 st) (List.take 0 st).length r0 = some e0 := by
            simpa using hab
          obtain ⟨t, o, e, _, hspec⟩ := repEv_spec hr hab'
          rcases hspec with ⟨_, A, hA, _⟩ | ⟨_, b, A, B, hA, _⟩ <;> simp at hA
      subst hfs0
      have he : endo' = N := by
        rw [hendo]; split
        · simp [fixTrailingWS]
        · rfl
      rw [hevs]
      split
      · simp only [List.nil_append, nodeEvs]
        exact key [⟨info.ruleType, N, endo'⟩] (by simp [he]) he
      · exact key [] (by simp) he
  · -- non-empty right-hand side
    have hne0 : ln ≠ 0 := by omega
    simp only [hne0, if_false] at hoff
    obtain ⟨hoff1, hoff2⟩ := hoff
    have hrne : st.take ln ≠ [] := by
      intro h0; rw [h0] at hlen; simp at hlen; omega
    -- description of the new entry
    have entry : ∀ (fixWS : Bool), (fixWS = true → x.fixWhitespace = true) →
        endo' = (if fixWS then fixTrailingWS off endo (st.take ln) else endo) →
        ∀ (es : List TreeBuilder.Ev),
        (∀ f ∈ es, ∃ r, RepSpec x.fixWhitespace (st.take ln).reverse r f) →
        es.Pairwise Compat → (tyNode : Option Int) →
        Core N (⟨lhs, off, endo', q⟩ :: st.drop ln)
          ((es ++ (match tyNode with | some ty => [⟨ty, off, endo'⟩] | none => [])).reverse ++ evsN) := by
      intro fixWS hfw hendo es hes hpw tyNode
      have hG : GSpec fixWS (st.take ln).reverse off endo' := by
        have := gspec_of_rhs fixWS (st.take ln) hrne
        rw [← hoff1, ← hoff2] at this
        rw [hendo]; exact this
      -- the entry's range is anchored at popped entries
      have hA : Anch st off endo' ∧ off ≤ endo' ∧ endo' ≤ N ∧ ∃ A ∈ st.take ln, off = A.off := by
        obtain ⟨A, hA0, ho, hg⟩ := hG
        have hAm := hmeml A (List.mem_of_getElem? hA0)
        have hAr : A ∈ st.take ln := List.mem_reverse.1 (List.mem_of_getElem? hA0)
        cases fixWS
        · simp only [Bool.false_eq_true, if_false] at hg
          obtain ⟨B, hB, he⟩ := hg
          have hBm := hmeml B (List.mem_of_getElem? hB)
          have := (hC.rel hA0 hB).2.1 (by omega)
          have := (hC.rel hA0 hB).2.2.2
          have := (hc.ent B hBm).2
          exact ⟨.inl ⟨A, hAm, B, hBm, ho, he⟩, by omega, by omega, A, hAr, ho⟩
        · simp only [if_true] at hg
          rcases hg with ⟨L, B, hB, _, he, _⟩ | ⟨_, he⟩
          · have hBm := hmeml B (List.mem_of_getElem? hB)
            have := (hC.rel hA0 hB).2.1 (by omega)
            have := (hC.rel hA0 hB).2.2.2
            have := (hc.ent B hBm).2
            exact ⟨.inl ⟨A, hAm, B, hBm, ho, he⟩, by omega, by omega, A, hAr, ho⟩
          · have := (hc.ent A hAm)
            exact ⟨.inr ⟨A, hAm, ho, by omega⟩, by omega, by omega, A, hAr, ho⟩
      obtain ⟨hanch, hle, hN, A0, hA0, hA0o⟩ := hA
      -- facts about each report event
      have hrep : ∀ f ∈ es, (f.off ≤ f.endo ∧ f.endo ≤ N) ∧ Anch st f.off f.endo ∧
          (f.endo ≤ off ∨ endo' ≤ f.off ∨ (off ≤ f.off ∧ f.endo ≤ endo')) ∧
          ∃ A ∈ st.take ln, f.off = A.off := by
        intro f hf
        obtain ⟨r, hspec⟩ := hes f hf
        have hin := RepSpec.inRule hC hfw hspec hG
        rcases hspec with ⟨_, A, hA, o1, n1⟩ | ⟨_, b, A, B, hA, hB, sb, bt, o1, n1, _, _⟩
        · have hAm := hmeml A (List.mem_of_getElem? hA)
          have := hc.ent A hAm
          exact ⟨⟨by omega, by omega⟩, .inr ⟨A, hAm, o1, n1⟩, hin, A,
            List.mem_reverse.1 (List.mem_of_getElem? hA), o1⟩
        · have hAm := hmeml A (List.mem_of_getElem? hA)
          have hBm := hmeml B (List.mem_of_getElem? hB)
          have := (hC.rel hA hB).2.1 sb
          have := (hC.rel hA hB).2.2.2
          have := hc.ent B hBm
          exact ⟨⟨by omega, by omega⟩, .inl ⟨A, hAm, B, hBm, o1, n1⟩, hin, A,
            List.mem_reverse.1 (List.mem_of_getElem? hA), o1⟩
      have hall : ∀ f ∈ es ++ (match tyNode with | some ty => [⟨ty, off, endo'⟩] | none => []),
          (f.off ≤ f.endo ∧ f.endo ≤ N) ∧ Anch st f.off f.endo ∧
          (f.endo ≤ off ∨ endo' ≤ f.off ∨ (off ≤ f.off ∧ f.endo ≤ endo')) ∧
          ∃ A ∈ st.take ln, f.off = A.off := by
        intro f hf
        rcases List.mem_append.1 hf with hf | hf
        · exact hrep f hf
        · cases tyNode with
          | none => cases hf
          | some ty =>
            simp only [List.mem_singleton] at hf
            subst hf
            exact ⟨⟨hle, hN⟩, hanch, .inr (.inr ⟨Nat.le_refl _, Nat.le_refl _⟩), A0, hA0, hA0o⟩
      refine hc.reduce ln _ _ ⟨hle, hN⟩ ?_ ?_ ?_ ?_ ?_ ?_
      · intro e he
        have := hcross A0 hA0 e he
        simp only; omega
      · intro p hp
        exact compat_of_anch hc hanch hp
      · intro f hf; exact (hall f hf).1
      · intro f hf p hp
        exact compat_of_anch hc (hall f hf).2.1 hp
      · intro f hf
        obtain ⟨_, _, h3, A, hA, hAo⟩ := hall f hf
        exact ⟨h3, lower A hA f hAo⟩
      · rw [List.pairwise_append]
        refine ⟨hpw, ?_, ?_⟩
        · cases tyNode <;> simp
        · intro f hf g hg
          cases tyNode with
          | none => cases hg
          | some ty =>
            simp only [List.mem_singleton] at hg
            subst hg
            exact (hrep f hf).2.2.1
    rcases applyRuleEvents_spec h with ⟨_, rfl, rfl⟩ | ⟨info, hinfo, fs0, hall, hendo, hevs⟩
    · have := entry false (by simp) (by simp) [] (by simp) .nil none
      simpa [nodeEvs] using this
    · have hwf := hx _ (mem_rules_of_get hinfo)
      rw [← hlen] at hall
      obtain ⟨es, rfl, hspec⟩ := reports_spec (rhsTop := st.take ln) hwf.2.1 (by
        have : (st.take ln).length = ln := hlen
        simpa [this] using hall)
      have hpw : es.Pairwise Compat :=
        hspec.pairwise (P := RepNested) (Q := Compat) (fun _ _ _ _ hn h1 h2 => RepSpec.pair hC hn h1 h2) hwf.2.2
      have hes : ∀ f ∈ es, ∃ r, RepSpec x.fixWhitespace (st.take ln).reverse r f := by
        intro f hf
        obtain ⟨r, _, hr⟩ := hspec.exists_left f hf
        exact ⟨r, hr⟩
      rw [hevs]
      split
      · have := entry info.fixWS hwf.1 hendo es hes hpw (some info.ruleType)
        simpa [nodeEvs_append, nodeEvs_map_toX, nodeEvs] using this
      · have := entry info.fixWS hwf.1 hendo es hes hpw none
        simpa [nodeEvs_map_toX] using this

/-! ### the invariant on configurations -/

/-- index of the next unconsumed token -/
def nx (c : XCfg) : Nat := if c.next.isSome then c.pos - 1 else c.pos

/-- offset of the next unconsumed token -/
def NOff (inp : Input) (c : XCfg) : Nat := (inp.tok (nx c)).off

structure SInv (inp : Input) (c : XCfg) : Prop where
  next_ok : ∀ t, c.next = some t → 1 ≤ c.pos ∧ t = inp.tok (c.pos - 1)
  core : Core (NOff inp c) c.stack (nodeEvs c.evs)

/-- the events alone -/
def EInv (inp : Input) (c : XCfg) : Prop := ∃ N, N ≤ inp.endOff ∧ EvsOK N (nodeEvs c.evs)

theorem SInv.einv {inp : Input} (hw : InputWF inp) {c : XCfg} (h : SInv inp c) : EInv inp c :=
  ⟨_, tok_off_le_end hw _, h.core.evsOK⟩

theorem sinv_init (inp : Input) (start : Int) : SInv inp (xinit inp start) := by
  refine ⟨?_, ?_⟩
  · intro t ht
    simp only [xinit, Option.some.injEq] at ht
    exact ⟨Nat.le_refl _, ht.symm⟩
  · refine ⟨by simp [xinit], ?_, by simp [xinit, nodeEvs], by simp [xinit, nodeEvs], by simp [xinit, nodeEvs]⟩
    intro e he
    simp only [xinit, List.mem_singleton] at he
    subst he
    simp

theorem fetch_spec {inp : Input} {c : XCfg} (h : SInv inp c) :
    SInv inp (c.fetch inp).1 ∧ NOff inp (c.fetch inp).1 = NOff inp c ∧
    (c.fetch inp).2 = inp.tok (nx c) ∧ (c.fetch inp).1.stack = c.stack ∧ (c.fetch inp).1.evs = c.evs ∧
    (c.fetch inp).1.next = some (c.fetch inp).2 ∧ nx (c.fetch inp).1 = nx c := by
  unfold XCfg.fetch
  split
  · next t ht =>
    have := h.next_ok t ht
    refine ⟨h, rfl, ?_, rfl, rfl, ht, rfl⟩
    simp only [nx, ht, Option.isSome_some, if_true]
    exact this.2
  · next ht =>
    have hN : NOff inp { c with next := some (inp.tok c.pos), pos := c.pos + 1 } = NOff inp c := by
      simp [NOff, nx, ht]
    refine ⟨⟨?_, ?_⟩, hN, by simp [nx, ht], rfl, rfl, rfl, by simp [nx, ht]⟩
    · intro t ht'
      simp only [Option.some.injEq] at ht'
      exact ⟨by simp, by simp [ht']⟩
    · rw [hN]; exact h.core

/-- dropping the fetched token (it has been consumed) -/
theorem dropNext_spec {inp : Input} (hw : InputWF inp) {c : XCfg} (h : SInv inp c) {tk : Tok}
    (ht : c.next = some tk) :
    tk.off = NOff inp c ∧ tk.off ≤ tk.endo ∧ tk.endo ≤ NOff inp { c with next := none } ∧
    (tk.sym = 0 → tk.off = tk.endo) ∧ NOff inp c ≤ NOff inp { c with next := none } := by
  have h1 := h.next_ok tk ht
  have hf := tok_facts hw (c.pos - 1)
  have hN : NOff inp c = tk.off := by simp [NOff, nx, ht, h1.2]
  have hN' : NOff inp { c with next := none } = (inp.tok c.pos).off := by simp [NOff, nx]
  have hpos : c.pos - 1 + 1 = c.pos := by omega
  rw [hpos] at hf
  rw [hN, hN', h1.2]
  refine ⟨rfl, hf.1, hf.2.1, hf.2.2, by omega⟩

theorem sinv_dropNext {inp : Input} (hw : InputWF inp) {c : XCfg} (h : SInv inp c) {tk : Tok}
    (ht : c.next = some tk) : SInv inp { c with next := none } := by
  have := dropNext_spec hw h ht
  exact ⟨(by intro t ht'; cases ht'), h.core.mono this.2.2.2.2⟩

/-- shift of the fetched token -/
theorem sinv_shift {inp : Input} (hw : InputWF inp) {c : XCfg} (h : SInv inp c) {tk : Tok}
    (ht : c.next = some tk) (q : Int) (r sc : Nat) :
    SInv inp { c with stack := ⟨tk.sym, tk.off, tk.endo, q⟩ :: c.stack, state := q,
                      next := if tk.sym ≠ 0 then none else c.next,
                      recovering := r, shiftCounter := sc } := by
  have hd := dropNext_spec hw h ht
  by_cases hs : tk.sym ≠ 0
  · rw [if_pos hs]
    refine ⟨(by intro t ht'; cases ht'), ?_⟩
    have : NOff inp { c with stack := ⟨tk.sym, tk.off, tk.endo, q⟩ :: c.stack, state := q, next := none,
                             recovering := r, shiftCounter := sc } = NOff inp { c with next := none } := rfl
    rw [this]
    exact h.core.push _ (by simp; omega) hd.2.1 hd.2.2.1
  · rw [if_neg hs]
    have hs' : tk.sym = 0 := by simpa using hs
    refine ⟨h.next_ok, ?_⟩
    have : NOff inp { c with stack := ⟨tk.sym, tk.off, tk.endo, q⟩ :: c.stack, state := q, next := c.next,
                             recovering := r, shiftCounter := sc } = NOff inp c := rfl
    rw [this]
    have := hd.2.2.2.1 hs'
    exact h.core.push _ (by simp; omega) hd.2.1 (by simp; omega)

theorem sinv_xdecode {x : XTables} {inp : Input} {c c1 : XCfg} {a : Act} (h : SInv inp c)
    (hd : xdecode x inp c = some (c1, a)) : SInv inp c1 := by
  rcases xdecode_cases hd with rfl | rfl
  · exact h
  · exact (fetch_spec h).1

/-! ### one loop iteration up to the error branch -/

def PreOK (inp : Input) : XPre → Prop
  | .cont c => SInv inp c
  | .err c => SInv inp c
  | .done _ c => EInv inp c

theorem xreduceTail_ok {x : XTables} (hx : XWF x) {inp : Input} (hw : InputWF inp) {c2 : XCfg}
    (h : SInv inp c2) {rule : Int} {ln : Nat} {lhs : Int} {off endo : Nat} (hln : ln ≤ c2.stack.length)
    (hoff : if ln = 0 then off = NOff inp c2 ∧ endo = NOff inp c2
            else off = (((c2.stack.take ln).getLast?.map (·.off)).getD 0) ∧
                 endo = (((c2.stack.take ln).head?.map (·.endo)).getD 0)) :
    PreOK inp (xreduceTail x c2 rule ln lhs off endo) := by
  unfold xreduceTail
  split
  · exact h.einv hw
  · next evs endo' happ =>
    have hcore := fun q => reduce_core hx h.core hln hoff happ lhs q
    have hev : nodeEvs (evs.reverse ++ c2.evs) = (nodeEvs evs).reverse ++ nodeEvs c2.evs := by
      rw [nodeEvs_append, nodeEvs_reverse]
    have heinv : EInv inp { c2 with evs := evs.reverse ++ c2.evs } :=
      ⟨_, tok_off_le_end hw _, by
        show EvsOK _ (nodeEvs (evs.reverse ++ c2.evs))
        rw [hev]; exact (hcore 0).evsOK⟩
    split
    · exact heinv
    · split
      · exact heinv
      · next q _ =>
        split
        · exact ⟨h.next_ok, by
            show Core (NOff inp c2) _ (nodeEvs (evs.reverse ++ c2.evs))
            rw [hev]; exact hcore q⟩
        · exact ⟨h.next_ok, by
            show Core (NOff inp c2) _ (nodeEvs (evs.reverse ++ c2.evs))
            rw [hev]; exact hcore q⟩

theorem xreducePre_ok {x : XTables} (hx : XWF x) {inp : Input} (hw : InputWF inp) {c1 : XCfg}
    (h : SInv inp c1) (rule : Int) : PreOK inp (xreducePre x inp c1 rule) := by
  unfold xreducePre
  split
  · next ln lhs _ _ =>
    split
    · exact h.einv hw
    · next hle =>
      split
      · next h0 =>
        obtain ⟨hs, hN, htk, hst, _⟩ := fetch_spec (inp := inp) h
        refine xreduceTail_ok hx hw hs (by rw [h0]; exact Nat.zero_le _) ?_
        rw [if_pos h0, hN, htk]
        exact ⟨rfl, rfl⟩
      · next h0 =>
        refine xreduceTail_ok hx hw h (by omega) ?_
        rw [if_neg h0]
        exact ⟨rfl, rfl⟩
  · exact h.einv hw

theorem xshiftPre_ok {x : XTables} {inp : Input} (hw : InputWF inp) {c1 : XCfg}
    (h : SInv inp c1) (k : Nat) (q : Int) : PreOK inp (xshiftPre x k c1 q) := by
  unfold xshiftPre
  split
  · exact SInv.einv hw (c := { c1 with shiftCounter := c1.shiftCounter + 1 }) ⟨h.next_ok, h.core⟩
  · split
    · exact h.einv hw
    · next tk ht => exact sinv_shift hw h ht q _ _

theorem xerrorPre_ok {x : XTables} {inp : Input} (hw : InputWF inp) {c1 : XCfg}
    (h : SInv inp c1) (k : Nat) : PreOK inp (xerrorPre x k c1) := by
  unfold xerrorPre
  have h' : SInv inp { c1 with shiftCounter := c1.shiftCounter + 1 } := ⟨h.next_ok, h.core⟩
  split
  · split
    · exact h'.einv hw
    · exact h'
  · exact h

theorem xpre_ok {x : XTables} (hx : XWF x) {inp : Input} (hw : InputWF inp) {c : XCfg}
    (h : SInv inp c) (k : Nat) : PreOK inp (xpre x inp k c) := by
  unfold xpre
  split
  · exact h.einv hw
  · next c1 rule hd => exact xreducePre_ok hx hw (sinv_xdecode h hd) rule
  · next c1 q hd => exact xshiftPre_ok hw (sinv_xdecode h hd) k q
  · next c1 hd => exact xerrorPre_ok hw (sinv_xdecode h hd) k

/-! ### recovery -/

theorem skipBroken_spec {inp : Input} (hw : InputWF inp) (can : Int → Bool) :
    ∀ (fuel : Nat) (c : XCfg) (e0 : Nat), SInv inp c →
      SInv inp (skipBroken inp can fuel c e0).1 ∧
      (skipBroken inp can fuel c e0).1.stack = c.stack ∧
      (skipBroken inp can fuel c e0).1.evs = c.evs ∧
      NOff inp c ≤ NOff inp (skipBroken inp can fuel c e0).1 ∧
      (e0 ≤ NOff inp c → (skipBroken inp can fuel c e0).2 ≤ NOff inp (skipBroken inp can fuel c e0).1) := by
  intro fuel
  induction fuel with
  | zero => intro c e0 h; exact ⟨h, rfl, rfl, Nat.le_refl _, id⟩
  | succ n ih =>
    intro c e0 h
    obtain ⟨hs, hN, htk, hst, hev, hnext, _⟩ := fetch_spec (inp := inp) h
    unfold skipBroken
    simp only
    split
    · have hd := dropNext_spec hw hs hnext
      have hs' := sinv_dropNext hw hs hnext
      obtain ⟨i1, i2, i3, i4, i5⟩ := ih { (c.fetch inp).1 with next := none } (c.fetch inp).2.endo hs'
      refine ⟨i1, by rw [i2]; exact hst, by rw [i3]; exact hev, ?_, fun _ => i5 hd.2.2.1⟩
      exact Nat.le_trans (by rw [← hN]; exact hd.2.2.2.2) i4
    · refine ⟨hs, hst, hev, ?_, ?_⟩
      · show NOff inp c ≤ NOff inp (c.fetch inp).1
        omega
      · intro he
        show e0 ≤ NOff inp (c.fetch inp).1
        omega

/-- `recoverFromError` replaces the entries above position `pos` (and the skipped tokens) by one
`error` entry; `s` is the offset of the token at which the error was detected. -/
theorem core_recover {N s : Nat} {st : List Entry} {evs : List TreeBuilder.Ev} (hc : Core s st evs)
    (e2 : Nat) (hse : s ≤ e2) (he2 : e2 ≤ N) (pos : Nat) (below : Entry)
    (hpos : st.reverse[pos - 1]? = some below) (sym q : Int) :
    Core N (⟨sym,
        (if pos < st.length then
            ((Option.map (fun x => x.off) st.reverse[pos]?).getD s,
              if s = e2 then (Option.map (fun x => x.endo) st.head?).getD e2 else e2)
          else (s, e2)).fst,
        (if pos < st.length then
            ((Option.map (fun x => x.off) st.reverse[pos]?).getD s,
              if s = e2 then (Option.map (fun x => x.endo) st.head?).getD e2 else e2)
          else (s, e2)).snd, q⟩ :: (st.reverse.take pos).reverse) evs := by
  have hsN : s ≤ N := by omega
  have hlen : pos - 1 < st.length := by
    have := (List.getElem?_eq_some_iff.1 hpos).1
    simpa using this
  rw [List.take_reverse, List.reverse_reverse]
  by_cases hp : pos < st.length
  · simp only [hp, if_true]
    -- the lowest popped entry
    have hk : st.length - pos - 1 < st.length := by omega
    have hA : st.reverse[pos]? = some st[st.length - pos - 1] := by
      rw [List.getElem?_reverse hp]
      have : st.length - 1 - pos = st.length - pos - 1 := by omega
      rw [this]
      exact List.getElem?_eq_getElem hk
    have htop : st.head? = some st[0] := by
      rw [List.head?_eq_getElem?]; exact List.getElem?_eq_getElem (by omega)
    rw [hA, htop]
    simp only [Option.map_some, Option.getD_some]
    have hAmem : st[st.length - pos - 1] ∈ st.take (st.length - pos) := by
      have : (st.take (st.length - pos))[st.length - pos - 1]? = some st[st.length - pos - 1] := by
        rw [List.getElem?_take]; simp only [show st.length - pos - 1 < st.length - pos by omega, if_true]
        exact List.getElem?_eq_getElem hk
      exact List.mem_of_getElem? this
    have hAst : st[st.length - pos - 1] ∈ st := List.getElem_mem hk
    have htopst : st[0] ∈ st := List.getElem_mem (by omega)
    have hchain := hc.chain
    have hcross : ∀ e ∈ st.drop (st.length - pos), e.endo ≤ st[st.length - pos - 1].off := by
      have h2 := hchain
      rw [← List.take_append_drop (st.length - pos) st, List.pairwise_append] at h2
      intro e he
      exact h2.2.2 _ hAmem e he
    have hAtop : st[st.length - pos - 1].off ≤ st[0].endo := by
      have h1 := (hc.ent _ hAst).1
      have h2 := (hc.ent _ htopst).1
      rcases Nat.eq_zero_or_pos (st.length - pos - 1) with h0 | h0
      · simp only [h0]; omega
      · have := (List.pairwise_iff_getElem.1 hchain) 0 (st.length - pos - 1) (by omega) hk h0
        omega
    have hAe := hc.ent _ hAst
    have htope := hc.ent _ htopst
    refine (hc.mono hsN).reduce (st.length - pos) _ [] ?_ ?_ ?_ (by simp) (by simp) (by simp) .nil
    · simp only
      split <;> omega
    · intro e he
      exact hcross e he
    · intro p hp'
      have h1 := hc.evc p hp' _ hAst
      have h2 := hc.evc p hp' _ htopst
      have h3 := hc.evb p hp'
      unfold CompatE at h1 h2 ⊢
      simp only
      split <;> omega
  · have hpl : pos = st.length := by omega
    simp only [hp, if_false]
    subst hpl
    simp only [Nat.sub_self, List.drop_zero]
    exact hc.push _ (Nat.le_refl _) hse he2

theorem recoverLoop_spec {x : XTables} {inp : Input} (hw : InputWF inp) {fin : Int} {rp : List Nat} :
    ∀ (fuel : Nat) (c : XCfg) (syms : List Int) (s e : Nat) (c' : XCfg),
      SInv inp c → Core s c.stack (nodeEvs c.evs) → s ≤ e → e ≤ NOff inp c →
      recoverLoop x inp fin rp fuel c syms s e = some (some c') → SInv inp c' := by
  intro fuel
  induction fuel with
  | zero => intro c syms s e c' _ _ _ _ h; simp [recoverLoop] at h
  | succ n ih =>
    intro c syms s e c' hs hcs hse heN h
    unfold recoverLoop at h
    simp only at h
    have hsk := skipBroken_spec hw (fun sym => syms.contains sym) (inp.toks.size + 2) c 0 hs
    generalize skipBroken inp (fun sym => syms.contains sym) (inp.toks.size + 2) c 0 = r at h hsk
    obtain ⟨c1, endoff⟩ := r
    simp only at h hsk
    obtain ⟨hs1, hst1, hev1, hN1, hend⟩ := hsk
    have hend' := hend (Nat.zero_le _)
    split at h
    · cases h
    · split at h
      · cases h
      · split at h
        · cases h
        · refine ih _ _ _ _ _ hs1 (by rw [hst1, hev1]; exact hcs) ?_ ?_ h
          · split <;> omega
          · split <;> omega
      · split at h
        · cases h
        · split at h
          · cases h
          · simp only [Option.some.injEq] at h
            subst h
            refine ⟨hs1.next_ok, ?_⟩
            show Core (NOff inp c1) _ (nodeEvs c1.evs)
            have hcs1 : Core s c1.stack (nodeEvs c1.evs) := by rw [hst1, hev1]; exact hcs
            rename_i _ tk htk _ pos hmatch _ below hbelow _ q hq
            exact core_recover hcs1 _ (by split <;> omega) (by split <;> omega) pos below hbelow _ _

theorem recoverFromError_spec {x : XTables} {inp : Input} (hw : InputWF inp) {fin : Int} (c c' : XCfg)
    (hs : SInv inp c) (h : recoverFromError x inp fin c = some (some c')) : SInv inp c' := by
  unfold recoverFromError at h
  simp only at h
  split at h
  · cases h
  · cases h
  · obtain ⟨hs1, hN, htk, _⟩ := fetch_spec (inp := inp) hs
    refine recoverLoop_spec hw _ _ _ _ _ _ hs1 ?_ (Nat.le_refl _) ?_ h
    · have : (c.fetch inp).2.off = NOff inp (c.fetch inp).1 := by rw [hN, htk]; rfl
      rw [this]; exact hs1.core
    · have : (c.fetch inp).2.off = NOff inp (c.fetch inp).1 := by rw [hN, htk]; rfl
      rw [this]; exact Nat.le_refl _

/-! ### the loop -/

def StepOK (inp : Input) : XStep → Prop
  | .cont c => SInv inp c
  | .done _ c => EInv inp c

theorem sinv_errPrelude {inp : Input} {c : XCfg} (h : SInv inp c) : SInv inp (errPrelude inp c) := by
  unfold errPrelude
  split
  · have := (fetch_spec (inp := inp) h).1
    exact ⟨this.next_ok, this.core⟩
  · exact h

theorem onError_ok {x : XTables} {inp : Input} (hw : InputWF inp) (fin : Int) (stop : Bool) {c : XCfg}
    (h : SInv inp c) : StepOK inp (onError x inp fin stop c) := by
  cases hr : x.recovering
  · rw [onError_eq_norec inp fin stop c hr]
    exact (fetch_spec (inp := inp) h).1.einv hw
  · rw [onError_eq_rec inp fin stop c hr]
    have h1 := sinv_errPrelude (inp := inp) h
    have h2 : SInv inp { errPrelude inp c with recovering := 4 } := ⟨h1.next_ok, h1.core⟩
    split
    · exact h1.einv hw
    · split
      · exact h2.einv hw
      · exact h2.einv hw
      · next c3 hrec => exact recoverFromError_spec hw _ _ h2 hrec

theorem xstep_ok {x : XTables} (hx : XWF x) {inp : Input} (hw : InputWF inp) (fin : Int) (stop : Bool)
    (k : Nat) {c : XCfg} (h : SInv inp c) : StepOK inp (xstep x inp fin stop k c) := by
  rw [xstep_pre]
  have := xpre_ok hx hw h k
  cases hp : xpre x inp k c with
  | cont c' => rw [hp] at this; exact this
  | done r c' => rw [hp] at this; exact this
  | err c' => rw [hp] at this; exact onError_ok hw fin stop this

theorem xrunLoop_ok {x : XTables} (hx : XWF x) {inp : Input} (hw : InputWF inp) (fin : Int) (stop : Bool)
    (k : Nat) : ∀ (fuel : Nat) (c : XCfg), SInv inp c → EInv inp (xrunLoop x inp fin stop k fuel c).2 := by
  intro fuel
  induction fuel with
  | zero => intro c h; exact h.einv hw
  | succ n ih =>
    intro c h
    unfold xrunLoop
    split
    · exact h.einv hw
    · have := xstep_ok hx hw fin stop k h
      split
      · next c' hc' => rw [hc'] at this; exact ih c' this
      · next r c' hc' => rw [hc'] at this; exact this

theorem einv_wellNested {inp : Input} {c : XCfg} (h : EInv inp c) :
    WellNested inp.endOff (listenerStream c) := by
  obtain ⟨N, hN, hev⟩ := h
  unfold listenerStream
  rw [nodeEvs_reverse]
  refine ⟨?_, ?_⟩
  · intro e he
    have := hev.evb e (List.mem_reverse.1 he)
    omega
  · rw [List.pairwise_reverse]
    exact hev.pw

/-- Every run of the extended runtime model — any fuel, with or without error recovery, cancelled or
not — reports a well-nested listener stream, for tables whose reports are listed inner first and
tokens in source order. -/
theorem xrun_wellNested {x : XTables} (hx : XWF x) {inp : Input} (hw : InputWF inp) (input : Nat)
    (stop : Bool) (cancelAt fuel : Nat) :
    WellNested inp.endOff (listenerStream (xrun x inp input stop cancelAt fuel).2) := by
  unfold xrun
  split
  · exact einv_wellNested ((sinv_init inp _).einv hw)
  · exact einv_wellNested (xrunLoop_ok hx hw _ stop cancelAt fuel _ (sinv_init inp _))

end TmVerif.EventNesting
