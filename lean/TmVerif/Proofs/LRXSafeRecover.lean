/-
Helper lemmas for C19 panic-freedom, part 4: recovery (`skipBroken`, `recoverLoop`,
`recoverFromError`, `onError`) neither panics nor runs out of its internal fuel, and hands back a
configuration satisfying the invariant.
-/
import TmVerif.Proofs.LRXSafeStep
namespace TmVerif.LRX
open TmVerif.LR TmVerif.CFG TmVerif.LRSound
variable {g : Grammar} {x : XTables} {cert : Cert} {xc : XCert} {i : Nat}

/-! ### `skipBroken` -/

/-- index of the token the parser looks at next -/
def xidx (c : XCfg) : Nat :=
  match c.next with
  | some _ => c.pos - 1
  | none => c.pos

theorem tok_ne_zero_lt (inp : Input) (j : Nat) (h : (inp.tok j).sym ≠ 0) : j < inp.toks.size := by
  rcases Nat.lt_or_ge j inp.toks.size with h' | h'
  · exact h'
  · exfalso; apply h
    unfold Input.tok
    rw [Array.getElem?_eq_none h']

theorem xfetch_idx (inp : Input) (c : XCfg) (h : XNextOk inp c) :
    (c.fetch inp).2 = inp.tok (xidx c) ∧ (c.fetch inp).1.pos = xidx c + 1 := by
  cases hn : c.next with
  | some tk =>
    rw [xfetch_some hn]
    obtain ⟨h1, h2⟩ := h tk hn
    unfold xidx; rw [hn]
    exact ⟨h2, by simp only; omega⟩
  | none =>
    rw [xfetch_none hn]
    unfold xidx; rw [hn]
    exact ⟨rfl, rfl⟩

/-- `skipBroken` with enough fuel: stops at EOI or a recovery token, keeps the stack, and the result
does not depend on surplus fuel -/
theorem skipBroken_spec (inp : Input) (can : Int → Bool) :
    ∀ (fuel : Nat) (c : XCfg) (e : Nat), XNextOk inp c → 1 ≤ fuel →
      inp.toks.size + 1 ≤ fuel + xidx c →
      (∃ tk, (skipBroken inp can fuel c e).1.next = some tk ∧ (tk.sym = 0 ∨ can tk.sym = true)) ∧
      (skipBroken inp can fuel c e).1.stack = c.stack ∧
      (skipBroken inp can fuel c e).1.state = c.state ∧
      XNextOk inp (skipBroken inp can fuel c e).1 ∧
      xidx c ≤ xidx (skipBroken inp can fuel c e).1 ∧
      (∀ tk, c.next = some tk → tk.sym ≠ 0 → can tk.sym = false →
        xidx c + 1 ≤ xidx (skipBroken inp can fuel c e).1) ∧
      (∀ extra, skipBroken inp can (fuel + extra) c e = skipBroken inp can fuel c e)
  | 0, _, _, _, h1, _ => by omega
  | fuel + 1, c, e, hn, _, hf => by
    obtain ⟨f1, _, f3, f4, f5⟩ := xfetch_spec inp c hn
    obtain ⟨g1, g2⟩ := xfetch_idx inp c hn
    have hidx1 : xidx (c.fetch inp).1 = xidx c := by
      unfold xidx; rw [f1]; simp only; rw [g2]; unfold xidx; omega
    by_cases hdrop : (c.fetch inp).2.sym ≠ 0 ∧ (!can (c.fetch inp).2.sym) = true
    · have hlt : xidx c < inp.toks.size := tok_ne_zero_lt inp _ (by rw [← g1]; exact hdrop.1)
      have hn' : XNextOk inp { (c.fetch inp).1 with next := none } := by
        intro tk htk; cases htk
      have hidx' : xidx { (c.fetch inp).1 with next := none } = xidx c + 1 := by
        unfold xidx; simp only; exact g2
      obtain ⟨i1, i2, i3, i4, i5, _, i7⟩ := skipBroken_spec inp can fuel
        { (c.fetch inp).1 with next := none } (c.fetch inp).2.endo hn' (by omega) (by omega)
      have hstep : ∀ n, skipBroken inp can (n + 1) c e =
          skipBroken inp can n { (c.fetch inp).1 with next := none } (c.fetch inp).2.endo := by
        intro n
        rw [skipBroken]
        simp only []
        rw [if_pos hdrop]
      rw [hstep]
      refine ⟨i1, i2.trans f3, i3.trans f4, i4, by omega, fun _ _ _ _ => by omega, ?_⟩
      intro extra
      rw [show fuel + 1 + extra = (fuel + extra) + 1 by omega, hstep]
      exact i7 extra
    · have hstep : ∀ n, skipBroken inp can (n + 1) c e = ((c.fetch inp).1, e) := by
        intro n
        rw [skipBroken]
        simp only []
        rw [if_neg hdrop]
      rw [hstep]
      refine ⟨⟨_, f1, ?_⟩, f3, f4, f5, by rw [hidx1]; exact Nat.le_refl _, ?_, ?_⟩
      · by_cases hz : (c.fetch inp).2.sym = 0
        · exact Or.inl hz
        · right
          cases hcan : can (c.fetch inp).2.sym with
          | true => rfl
          | false => exact absurd ⟨hz, by rw [hcan]; rfl⟩ hdrop
      · intro tk htk h1 h2
        exfalso; apply hdrop
        rw [xfetch_some htk]
        exact ⟨h1, by rw [h2]; rfl⟩
      · intro extra
        rw [show fuel + 1 + extra = (fuel + extra) + 1 by omega, hstep]
/-! ### one round of `recoverLoop` -/

/-- the search for a recovery position of `recoverLoop` -/
def matchPos (x : XTables) (endState : Int) (stk : List Entry) (sym : Int) (recoverPos : List Nat) :
    Option (Option Nat) :=
  recoverPos.foldl (fun acc pos =>
    match acc with
    | none => none
    | some (some p) => some (some p)
    | some none =>
      match stk.reverse[pos - 1]? with
      | none => none
      | some below =>
        match gotoState x.t below.state x.errSym with
        | none => none
        | some q =>
          let states := ((stk.reverse.take pos).map (·.state)).reverse
          match reduceAll x states q sym endState with
          | none => none
          | some true => some (some pos)
          | some false => some none) (some none)

/-- one round of `recoverLoop` with its four exits as continuations -/
def recoverRoundK {α : Type} (kPanic kGiveUp : α) (kAgain : XCfg → List Int → Nat → Nat → α)
    (kDone : XCfg → α) (x : XTables) (inp : Input) (endState : Int) (recoverPos : List Nat)
    (c : XCfg) (recoverSyms : List Int) (s e : Nat) : α :=
  let (c1, endoff) := skipBroken inp (fun sym => recoverSyms.contains sym) (inp.toks.size + 2) c 0
  let e := if endoff > e then endoff else e
  match c1.next with
  | none => kPanic
  | some tk =>
    match matchPos x endState c1.stack tk.sym recoverPos with
    | none => kPanic
    | some none =>
      if tk.sym = 0 then kGiveUp
      else kAgain c1 (recoverSyms.filter (· ≠ tk.sym)) s e
    | some (some pos) =>
      let (s, e) :=
        if pos < c1.stack.length then
          let e := if s = e then (c1.stack.head?.map (·.endo)).getD e else e
          ((c1.stack.reverse[pos]?.map (·.off)).getD s, e)
        else (s, e)
      match c1.stack.reverse[pos - 1]? with
      | none => kPanic
      | some below =>
        match gotoState x.t below.state x.errSym with
        | none => kPanic
        | some q =>
          kDone { c1 with stack := ⟨x.errSym, s, e, q⟩ :: (c1.stack.reverse.take pos).reverse, state := q }

theorem recoverLoop_succ (x : XTables) (inp : Input) (fin : Int) (rp : List Nat) (fuel : Nat)
    (c : XCfg) (syms : List Int) (s e : Nat) :
    recoverLoop x inp fin rp (fuel + 1) c syms s e =
      recoverRoundK none (some none) (fun c1 syms' s' e' => recoverLoop x inp fin rp fuel c1 syms' s' e')
        (fun c3 => some (some c3)) x inp fin rp c syms s e := by
  rw [recoverLoop]
  rfl

/-! ### stack positions -/

/-- the recovery positions: 1-based sizes `pos` of stack prefixes whose top state has a goto on the
error symbol -/
def RPOk (x : XTables) (stk : List Entry) (rp : List Nat) : Prop :=
  ∀ pos ∈ rp, 1 ≤ pos ∧ pos ≤ stk.length ∧ ∃ below q, stk.reverse[pos - 1]? = some below ∧
    gotoState x.t below.state x.errSym = some q ∧ q ≠ -1

/-- the bottom `pos` entries of a certified stack -/
theorem stack_prefix {stk : List Entry} {s : Nat} {rest : List Nat} {syms : List Int}
    (hstk : StOk g x cert i (s :: rest) syms)
    (hmap : stk.map (·.state) = (s :: rest).map Int.ofNat) {pos : Nat} (h1 : 1 ≤ pos)
    (h2 : pos ≤ stk.length) {below : Entry} (hb : stk.reverse[pos - 1]? = some below) :
    ∃ (p : Nat) (rest' : List Nat) (syms' : List Int), StOk g x cert i (p :: rest') syms' ∧
      below.state = (p : Int) ∧
      ((stk.reverse.take pos).map (·.state)).reverse = (p :: rest').map Int.ofNat ∧
      ((stk.reverse.take pos).reverse).map (·.state) = (p :: rest').map Int.ofNat := by
  have hlen : stk.length = (s :: rest).length := by
    have := congrArg List.length hmap
    simpa using this
  have hk : stk.length - pos < (s :: rest).length := by omega
  have hd := hstk.drop (stk.length - pos) hk
  have e1 : (stk.reverse.take pos).reverse = stk.drop (stk.length - pos) := by
    rw [List.take_reverse, List.reverse_reverse]
  have e2 : (stk.drop (stk.length - pos)).map (·.state) =
      ((s :: rest).drop (stk.length - pos)).map Int.ofNat := by
    rw [List.map_drop, hmap, List.map_drop]
  cases hz : (s :: rest).drop (stk.length - pos) with
  | nil =>
    have := congrArg List.length hz
    simp only [List.length_drop, List.length_nil] at this
    omega
  | cons p rest' =>
    rw [hz] at hd e2
    refine ⟨p, rest', _, hd, ?_, ?_, ?_⟩
    · rw [List.getElem?_reverse (by omega)] at hb
      have e3 : stk.length - 1 - (pos - 1) = stk.length - pos := by omega
      rw [e3] at hb
      have : (stk.map (·.state))[stk.length - pos]? = some below.state := by
        rw [List.getElem?_map, hb]; rfl
      have h4 : ((stk.drop (stk.length - pos)).map (·.state))[0]? = some below.state := by
        rw [List.map_drop, List.getElem?_drop]; simpa using this
      rw [e2] at h4
      simpa using h4.symm
    · rw [← List.map_reverse, e1]; exact e2
    · rw [e1]; exact e2

theorem errEdge_mem (hrec : x.recovering = true) {p : Nat} {q : Int} (hp : p < x.t.nStates)
    (hg : gotoState x.t p x.errSym = some q) (hq : 0 ≤ q) :
    (p, x.errSym.toNat, q) ∈ xedges x := by
  unfold xedges errEdges
  apply List.mem_append_right
  simp only [hrec, if_true]
  rw [List.mem_filterMap]
  refine ⟨p, List.mem_range.mpr hp, ?_⟩
  rw [hg]
  simp [hq]

/-- pushing the error symbol's goto on a certified stack -/
theorem err_push (hc : CertFacts g x.t cert) (hx : XFacts g x cert xc) (hrec : x.recovering = true)
    {p : Nat} {rest' : List Nat} {syms' : List Int} (h : StOk g x cert i (p :: rest') syms')
    {q : Int} (hg : gotoState x.t p x.errSym = some q) (hq : q ≠ -1) :
    ∃ q' : Nat, q = (q' : Int) ∧ StOk g x cert i (q' :: p :: rest') (x.errSym :: syms') := by
  have hp : p < x.t.nStates := h.lt hc p (by simp)
  obtain ⟨q0, hg0, hok⟩ := hx.errGoto hrec p hp
  rw [hg] at hg0
  injection hg0 with hg0
  subst hg0
  rcases hok with hok | hok
  · exact absurd hok hq
  · obtain ⟨q', hq', _, hq2, hq3⟩ := edgeOk_elim hok
    subst hq'
    have h0 := hx.errNonneg hrec
    have e : ((x.errSym.toNat : Nat) : Int) = x.errSym := Int.toNat_of_nonneg h0
    refine ⟨q', rfl, ?_⟩
    have hedge := errEdge_mem hrec hp hg (by omega)
    have := StOk.push q' p rest' x.errSym.toNat syms' h
      hedge hq2 (by rw [e]; exact hq3)
      ((hx.closed hc i h.input_lt).2 p _ q' hedge (h.mem_reach p (by simp)))
    rw [e] at this
    exact this

/-! ### `matchPos`, rounds, `recoverLoop`, `recoverFromError` -/

/-- the simulated reductions succeed when the error symbol's goto is pushed on the bottom `pos`
entries -/
def CommitAt (x : XTables) (fin : Int) (stk : List Entry) (a pos : Nat) : Prop :=
  ∃ (q' p : Nat) (rest' : List Nat) (n : Nat),
    ((stk.reverse.take pos).reverse).map (·.state) = (p :: rest').map Int.ofNat ∧
    (∃ below, stk.reverse[pos - 1]? = some below ∧
      gotoState x.t below.state x.errSym = some (q' : Int)) ∧
    simC x a fin n (q' :: p :: rest') = some true

theorem matchPos_spec (hc : CertFacts g x.t cert) (hx : XFacts g x cert xc)
    (hrec : x.recovering = true) (fin : Int) (hfi : fin = finOf x i) {stk : List Entry} {s : Nat}
    {rest : List Nat} {syms : List Int} (hstk : StOk g x cert i (s :: rest) syms)
    (hmap : stk.map (·.state) = (s :: rest).map Int.ofNat) {a : Nat} (ha : a < x.t.nTerms)
    {rp : List Nat} (hrp : RPOk x stk rp) :
    ∃ m, matchPos x fin stk (a : Int) rp = some m ∧
      ∀ pos, m = some pos → pos ∈ rp ∧ CommitAt x fin stk a pos := by
  unfold matchPos
  refine foldl_opt_inv _ (fun m => ∀ pos, m = some pos → pos ∈ rp ∧ CommitAt x fin stk a pos) rp none
    (fun _ h => nomatch h) ?_
  intro m pos hpos hm
  cases m with
  | some p => exact ⟨some p, rfl, hm⟩
  | none =>
    obtain ⟨h1, h2, below, q, hb, hg, hq⟩ := hrp pos hpos
    obtain ⟨p, rest', syms', hp, hbs, hst1, hst2⟩ := stack_prefix hstk hmap h1 h2 hb
    simp only [hb, hg, hst1]
    have hg0 := hg
    rw [hbs] at hg
    obtain ⟨q', hq', hnew⟩ := err_push hc hx hrec hp hg hq
    subst hq'
    obtain ⟨b, hb1, _, hb3⟩ := reduceAll_total hc hx ha fin hfi hnew
    rw [hb1]
    cases b with
    | true =>
      refine ⟨some pos, rfl, fun pos' h => ?_⟩
      injection h with h; subst h
      exact ⟨hpos, q', p, rest', _, hst2, ⟨below, hb, hg0⟩, hb3 0⟩
    | false => exact ⟨none, rfl, fun _ h => nomatch h⟩

theorem xidx_next {c : XCfg} {tk : Tok} (h : c.next = some tk) : xidx c = c.pos - 1 := by
  unfold xidx; rw [h]

theorem xfetch_xidx (inp : Input) (c : XCfg) (h : XNextOk inp c) :
    xidx (c.fetch inp).1 = xidx c := by
  obtain ⟨f1, _⟩ := xfetch_spec inp c h
  obtain ⟨_, g2⟩ := xfetch_idx inp c h
  rw [xidx_next f1, g2]; omega

theorem map_ofNat_inj : ∀ (l1 l2 : List Nat), l1.map Int.ofNat = l2.map Int.ofNat → l1 = l2
  | [], [], _ => rfl
  | [], _ :: _, h => by simp at h
  | _ :: _, [], h => by simp at h
  | a :: l1, b :: l2, h => by
    simp only [List.map_cons, List.cons.injEq] at h
    rw [Int.ofNat.inj h.1, map_ofNat_inj l1 l2 h.2]

theorem xidx_some {inp : Input} {c : XCfg} {tk : Tok} (hn : XNextOk inp c) (h : c.next = some tk) :
    tk = inp.tok (xidx c) := by
  unfold xidx; rw [h]; exact (hn tk h).2

/-- the simulated reductions from the configuration's stack under its next token end in a shift
(or in the final state at EOI): what `reduceAll` has checked when recovery hands back `c` -/
def Committed (x : XTables) (inp : Input) (fin : Int) (c : XCfg) : Prop :=
  ∃ (sts : List Nat) (n : Nat), c.stack.map (·.state) = sts.map Int.ofNat ∧
    simC x (symAt inp (xidx c)) fin n sts = some true

/-- what recovery hands back: the invariant holds, no token is given back, the stack is a
suffix of the old one plus one entry, and the simulated reductions have succeeded -/
def RecPost (g : Grammar) (x : XTables) (cert : Cert) (i : Nat) (inp : Input) (fin : Int)
    (c c3 : XCfg) : Prop :=
  XInv g x cert i inp c3 ∧ xidx c ≤ xidx c3 ∧
  (∃ e n, n < c.stack.length ∧ c3.stack = e :: c.stack.drop n) ∧ Committed x inp fin c3

/-- one round of `recoverLoop` under the invariant: gives up, finishes with a configuration that
satisfies the invariant, or goes on after stopping at a token `tk ≠ EOI` which is removed from
the recovery set — never a panic -/
theorem recoverRound_spec (hc : CertFacts g x.t cert) (hx : XFacts g x cert xc)
    (hrec : x.recovering = true) {inp : Input} (htok : TokOk x.t inp) (fin : Int)
    (hfi : fin = finOf x i) (rp : List Nat)
    (c : XCfg) (syms : List Int) (s e : Nat) (hinv : XInv g x cert i inp c)
    (hrp : RPOk x c.stack rp) :
    (∀ (α : Type) (kP kG : α) kA kD, recoverRoundK kP kG kA kD x inp fin rp c syms s e = kG) ∨
    (∃ c3, RecPost g x cert i inp fin c c3 ∧
      ∀ (α : Type) (kP kG : α) kA kD, recoverRoundK kP kG kA kD x inp fin rp c syms s e = kD c3) ∨
    (∃ tk s' e',
      (skipBroken inp (fun sym => syms.contains sym) (inp.toks.size + 2) c 0).1.next = some tk ∧
      tk.sym ≠ 0 ∧
      ∀ (α : Type) (kP kG : α) kA kD, recoverRoundK kP kG kA kD x inp fin rp c syms s e =
        kA (skipBroken inp (fun sym => syms.contains sym) (inp.toks.size + 2) c 0).1
          (syms.filter (· ≠ tk.sym)) s' e') := by
  obtain ⟨s0, rest, sy, hstk, hmap, hst, hn⟩ := hinv
  have h0 : 0 < x.t.nTerms := by have := (wfFacts hc.wf).nTermsPos; have := hc.nTerms; omega
  obtain ⟨⟨tk, k1, _⟩, k2, k3, k4, k5, _, _⟩ := skipBroken_spec inp (fun sym => syms.contains sym)
    (inp.toks.size + 2) c 0 hn (by omega) (by omega)
  generalize hr : skipBroken inp (fun sym => syms.contains sym) (inp.toks.size + 2) c 0 = r
    at k1 k2 k3 k4 k5
  obtain ⟨c1, endoff⟩ := r
  simp only at k1 k2 k3 k4 k5
  obtain ⟨hpos, htk⟩ := k4 tk k1
  obtain ⟨a, ha1, ha2⟩ := tok_range htok h0 (c1.pos - 1)
  rw [← htk] at ha1
  have hmap1 : c1.stack.map (·.state) = (s0 :: rest).map Int.ofNat := by rw [k2]; exact hmap
  have hrp1 : RPOk x c1.stack rp := by rw [k2]; exact hrp
  obtain ⟨m, hm, hmem⟩ := matchPos_spec hc hx hrec fin hfi hstk hmap1 ha2 hrp1
  rw [← ha1] at hm
  cases m with
  | none =>
    by_cases hz : tk.sym = 0
    · left
      intro α kP kG kA kD
      unfold recoverRoundK
      rw [hr]
      simp only [k1]
      rw [hm]
      simp only [hz, if_true]
    · right; right
      refine ⟨tk, s, (if endoff > e then endoff else e), k1, hz, ?_⟩
      intro α kP kG kA kD
      unfold recoverRoundK
      rw [hr]
      simp only [k1]
      rw [hm]
      simp only [hz, if_false]
  | some pos =>
    right; left
    obtain ⟨hp, q'', p0, rest0, nsim, hc1, ⟨below0, hb0, hg0⟩, hsim⟩ := hmem pos rfl
    obtain ⟨h1, h2, below, q, hb, hg, hq⟩ := hrp1 pos hp
    obtain ⟨p, rest', syms', hpst, hbs, _, hst2⟩ :=
      stack_prefix hstk hmap1 h1 h2 hb
    have hg' := hg
    rw [hbs] at hg'
    obtain ⟨q', hq', hnew⟩ := err_push hc hx hrec hpst hg' hq
    subst hq'
    have hqq : q'' = q' := by
      rw [hb] at hb0; injection hb0 with hb0; subst hb0
      rw [hg] at hg0; injection hg0 with hg0; omega
    subst hqq
    have hsts : (p0 :: rest0) = (p :: rest') := by
      exact map_ofNat_inj _ _ (hc1.symm.trans hst2)
    rw [hsts] at hsim
    refine ⟨?c3, ?hinv, ?heq⟩
    case heq =>
      intro α kP kG kA kD
      unfold recoverRoundK
      rw [hr]
      simp only [k1]
      rw [hm]
      simp only [hb, hg]
      rfl
    case hinv =>
      have hx3 : XNextOk inp { c1 with
          stack := ⟨x.errSym, (if pos < c1.stack.length then
              ((Option.map (fun x => x.off) c1.stack.reverse[pos]?).getD s,
                if s = if endoff > e then endoff else e then
                  (Option.map (fun x => x.endo) c1.stack.head?).getD (if endoff > e then endoff else e)
                else if endoff > e then endoff else e)
            else (s, if endoff > e then endoff else e)).fst,
            (if pos < c1.stack.length then
              ((Option.map (fun x => x.off) c1.stack.reverse[pos]?).getD s,
                if s = if endoff > e then endoff else e then
                  (Option.map (fun x => x.endo) c1.stack.head?).getD (if endoff > e then endoff else e)
                else if endoff > e then endoff else e)
            else (s, if endoff > e then endoff else e)).snd, (q'' : Int)⟩ ::
            (List.take pos c1.stack.reverse).reverse,
          state := (q'' : Int), next := some tk } := fun tk' h => k4 tk' (k1.trans h)
      refine ⟨⟨q'', p :: rest', _, hnew, ?_, rfl, hx3⟩, ?_, ?_, ?_⟩
      · simp only [List.map_cons, List.cons.injEq]
        exact ⟨rfl, by simpa using hst2⟩
      · refine Nat.le_trans k5 (Nat.le_of_eq ?_)
        rw [xidx_next k1]
        rfl
      · have hk : (List.take pos c1.stack.reverse).reverse = c.stack.drop (c.stack.length - pos) := by
          rw [List.take_reverse, List.reverse_reverse, k2]
        exact ⟨_, c.stack.length - pos, by rw [← k2]; omega, by rw [← hk]⟩
      · refine ⟨q'' :: p :: rest', nsim, ?_, ?_⟩
        · simp only [List.map_cons, List.cons.injEq]
          exact ⟨rfl, by simpa using hst2⟩
        · show simC x (symAt inp (c1.pos - 1)) fin nsim _ = some true
          have : symAt inp (c1.pos - 1) = a := by
            unfold symAt; rw [← htk, ha1]; rfl
          rw [this]; exact hsim

/-- the token in `next` is going to be dropped by the next `skipBroken` -/
def Pending (c : XCfg) (syms : List Int) : Prop :=
  ∃ tk, c.next = some tk ∧ tk.sym ≠ 0 ∧ syms.contains tk.sym = false

/-- `recoverLoop` with enough fuel: defined (no panic, no fuel-out), independent of surplus fuel,
and a resulting configuration satisfies the invariant -/
theorem recoverLoop_total (hc : CertFacts g x.t cert) (hx : XFacts g x cert xc)
    (hrec : x.recovering = true) {inp : Input} (htok : TokOk x.t inp) (fin : Int)
    (hfi : fin = finOf x i) (rp : List Nat) :
    ∀ (fuel : Nat) (c : XCfg) (syms : List Int) (s e : Nat), XInv g x cert i inp c →
      RPOk x c.stack rp → 1 ≤ fuel → inp.toks.size + 1 ≤ fuel + xidx c →
      (Pending c syms ∨ inp.toks.size + 2 ≤ fuel + xidx c) →
      ∃ res, (∀ c3, res = some c3 → RecPost g x cert i inp fin c c3) ∧
        ∀ extra, recoverLoop x inp fin rp (fuel + extra) c syms s e = some res
  | 0, _, _, _, _, _, _, h, _, _ => by omega
  | fuel + 1, c, syms, s, e, hinv, hrp, _, hf1, hf2 => by
    have hsucc : ∀ extra, recoverLoop x inp fin rp (fuel + 1 + extra) c syms s e =
        recoverRoundK none (some none)
          (fun c1 syms' s' e' => recoverLoop x inp fin rp (fuel + extra) c1 syms' s' e')
          (fun c3 => some (some c3)) x inp fin rp c syms s e := by
      intro extra
      rw [show fuel + 1 + extra = (fuel + extra) + 1 by omega, recoverLoop_succ]
    rcases recoverRound_spec hc hx hrec htok fin hfi rp c syms s e hinv hrp with hA | ⟨c3, h3, hB⟩ |
      ⟨tk, s', e', hnx, hz, hC⟩
    · exact ⟨none, (fun _ h => nomatch h), fun extra => by rw [hsucc, hA]⟩
    · exact ⟨some c3, fun c3' h => by injection h with h; subst h; exact h3,
        fun extra => by rw [hsucc, hB]⟩
    · obtain ⟨s0, rest, sy, hstk, hmap, hst, hn⟩ := hinv
      obtain ⟨_, k2, k3, k4, k5, k6, _⟩ := skipBroken_spec inp (fun sym => syms.contains sym)
        (inp.toks.size + 2) c 0 hn (by omega) (by omega)
      have hinv1 : XInv g x cert i inp
          (skipBroken inp (fun sym => syms.contains sym) (inp.toks.size + 2) c 0).1 :=
        ⟨s0, rest, sy, hstk, by rw [k2]; exact hmap, by rw [k3]; exact hst, k4⟩
      have hlt : xidx (skipBroken inp (fun sym => syms.contains sym) (inp.toks.size + 2) c 0).1 <
          inp.toks.size := by
        apply tok_ne_zero_lt inp
        rw [← xidx_some k4 hnx]; exact hz
      have hpend : Pending (skipBroken inp (fun sym => syms.contains sym) (inp.toks.size + 2) c 0).1
          (syms.filter (· ≠ tk.sym)) := ⟨tk, hnx, hz, by simp⟩
      have hadv : inp.toks.size + 1 ≤
          fuel + xidx (skipBroken inp (fun sym => syms.contains sym) (inp.toks.size + 2) c 0).1 := by
        rcases hf2 with ⟨tk0, p1, p2, p3⟩ | hf2
        · have := k6 tk0 p1 p2 p3
          omega
        · omega
      obtain ⟨res, hres, hrec'⟩ := recoverLoop_total hc hx hrec htok fin hfi rp fuel _
        (syms.filter (· ≠ tk.sym)) s' e' hinv1 (by rw [k2]; exact hrp) (by omega) hadv (Or.inl hpend)
      refine ⟨res, fun c3 h3 => ?_, fun extra => by rw [hsucc, hC]; exact hrec' extra⟩
      obtain ⟨r1, r2, ⟨e3, n3, r3, r4⟩, r5⟩ := hres c3 h3
      exact ⟨r1, by omega, ⟨e3, n3, by rw [← k2]; exact r3, by rw [← k2]; exact r4⟩, r5⟩

/-- the candidate positions of `recoverFromError` -/
def candPos (x : XTables) (stk : List Entry) : Option (List Nat) :=
  (List.range stk.length).reverse.foldl (fun acc k =>
    match acc with
    | none => none
    | some l =>
      match stk.reverse[k]? with
      | none => none
      | some e =>
        match gotoState x.t e.state x.errSym with
        | none => none
        | some q => if q = -1 then some l else some (l ++ [k + 1])) (some [])

theorem recoverFromError_eq (x : XTables) (inp : Input) (fin : Int) (c : XCfg) :
    recoverFromError x inp fin c =
      match candPos x c.stack with
      | none => none
      | some [] => some none
      | some rp => recoverLoop x inp fin rp (inp.toks.size + 3) (c.fetch inp).1 x.afterErr
          (c.fetch inp).2.off (c.fetch inp).2.off := by
  unfold recoverFromError candPos
  rfl

theorem candPos_spec (hc : CertFacts g x.t cert) (hx : XFacts g x cert xc)
    (hrec : x.recovering = true) {stk : List Entry} {s : Nat} {rest : List Nat} {syms : List Int}
    (hstk : StOk g x cert i (s :: rest) syms)
    (hmap : stk.map (·.state) = (s :: rest).map Int.ofNat) :
    ∃ rp, candPos x stk = some rp ∧ RPOk x stk rp := by
  unfold candPos
  refine foldl_opt_inv _ (fun l => RPOk x stk l) _ [] (fun _ h => nomatch h) ?_
  intro l k hk hl
  simp only [List.mem_reverse, List.mem_range] at hk
  have hk' : k < stk.reverse.length := by simpa using hk
  have he : stk.reverse[k]? = some stk.reverse[k] := List.getElem?_eq_getElem hk'
  have hmem : stk.reverse[k] ∈ stk := by
    exact List.mem_reverse.1 (List.getElem_mem hk')
  have hst : (stk.reverse[k]).state ∈ stk.map (·.state) := List.mem_map.2 ⟨_, hmem, rfl⟩
  rw [hmap, List.mem_map] at hst
  obtain ⟨p, hp, hpe⟩ := hst
  have hplt := hstk.lt hc p hp
  obtain ⟨q, hq, _⟩ := hx.errGoto hrec p hplt
  simp only [he]
  rw [← hpe, show Int.ofNat p = (p : Int) from rfl, hq]
  simp only
  by_cases h1 : q = -1
  · simp only [h1, if_true]; exact ⟨l, rfl, hl⟩
  · simp only [h1, if_false]
    refine ⟨_, rfl, ?_⟩
    intro pos hpos
    rcases List.mem_append.1 hpos with h | h
    · exact hl pos h
    · simp only [List.mem_singleton] at h
      subst h
      refine ⟨by omega, by omega, stk.reverse[k], q, ?_, ?_, h1⟩
      · simpa using he
      · rw [← hpe]; exact hq

theorem recoverFromError_total (hc : CertFacts g x.t cert) (hx : XFacts g x cert xc)
    (hrec : x.recovering = true) {inp : Input} (htok : TokOk x.t inp) (fin : Int)
    (hfi : fin = finOf x i) (c : XCfg) (hinv : XInv g x cert i inp c) :
    ∃ res, recoverFromError x inp fin c = some res ∧
      ∀ c3, res = some c3 → RecPost g x cert i inp fin c c3 := by
  rw [recoverFromError_eq]
  have hinv' := hinv
  obtain ⟨s0, rest, sy, hstk, hmap, hst, hn⟩ := hinv
  obtain ⟨rp, hrp, hok⟩ := candPos_spec hc hx hrec hstk hmap
  rw [hrp]
  cases rp with
  | nil => exact ⟨none, rfl, fun _ h => nomatch h⟩
  | cons p0 rp0 =>
    simp only
    obtain ⟨_, _, f3, _, _⟩ := xfetch_spec inp c hn
    obtain ⟨res, hres, hrl⟩ := recoverLoop_total hc hx hrec htok fin hfi (p0 :: rp0) (inp.toks.size + 3)
      (c.fetch inp).1 x.afterErr (c.fetch inp).2.off (c.fetch inp).2.off hinv'.fetch
      (by rw [f3]; exact hok) (by omega) (by omega) (Or.inr (by omega))
    refine ⟨res, hrl 0, fun c3 h3 => ?_⟩
    obtain ⟨r1, r2, ⟨e3, n3, r3, r4⟩, r5⟩ := hres c3 h3
    rw [xfetch_xidx inp c hn] at r2
    exact ⟨r1, r2, ⟨e3, n3, by rw [← f3]; exact r3, by rw [← f3]; exact r4⟩, r5⟩

end TmVerif.LRX
