import TmVerif.Proofs.DiffMyersL
/-!
C27, Myers search, part 2: furthest-reaching points.
`Dle A B d x y`: the point `(x, y)` of the (unbounded) edit graph is at distance at most `d` from
the origin. `FR A B d k v`: `v` is the largest `x` on diagonal `k` (`x - y = k`) with distance ≤ `d`.
One round of the search computes `FR (d+1)` from `FR d` of the neighbouring diagonals.
-/
namespace TmVerif.Diff
set_option linter.unusedSectionVars false
variable {α : Type} [DecidableEq α]

/-- distance of `(x, y)` from the origin is at most `d` (`x + y - 2·LCS ≤ d`) -/
def Dle (A B : List α) (d x y : Nat) : Prop := x + y ≤ d + 2 * Lp A B x y

/-- no diagonal edge leaves `(x, y)` -/
def NoMatch (A B : List α) (x y : Nat) : Prop :=
  ¬ ∃ (hx : x < A.length) (hy : y < B.length), A[x] = B[y]

theorem dle_origin (A B : List α) (d : Nat) : Dle A B d 0 0 := by
  unfold Dle; omega

theorem dle_mono (A B : List α) (d d' x y : Nat) (h : Dle A B d x y) (hd : d ≤ d') :
    Dle A B d' x y := by
  unfold Dle at *; omega

theorem dle_right (A B : List α) (d x y : Nat) (h : Dle A B d x y) : Dle A B (d + 1) (x + 1) y := by
  have := (Lp_succ_x A B x y).1
  unfold Dle at *; omega

theorem dle_down (A B : List α) (d x y : Nat) (h : Dle A B d x y) : Dle A B (d + 1) x (y + 1) := by
  have := (Lp_succ_y A B x y).1
  unfold Dle at *; omega

theorem dle_match (A B : List α) (d x y : Nat) (hx : x < A.length) (hy : y < B.length)
    (he : A[x] = B[y]) : Dle A B d (x + 1) (y + 1) ↔ Dle A B d x y := by
  unfold Dle
  rw [Lp_match A B x y hx hy he]
  omega

theorem dle_diag (A B : List α) (d x y : Nat) (h : Dle A B d (x + 1) (y + 1)) : Dle A B d x y := by
  have := Lp_diag A B x y
  unfold Dle at *; omega

theorem dle_diag_n (A B : List α) (d x y t : Nat) (h : Dle A B d (x + t) (y + t)) :
    Dle A B d x y := by
  induction t with
  | zero => simpa using h
  | succ t ih => exact ih (dle_diag A B d (x + t) (y + t) h)

/-- a point is at least as far as its diagonal number -/
theorem dle_diagonal_bound (A B : List α) (d x y : Nat) (h : Dle A B d x y) :
    x ≤ y + d ∧ y ≤ x + d := by
  have := Lp_le_x A B x y
  have := Lp_le_y A B x y
  unfold Dle at h; omega

theorem dle_nomatch_zero (A B : List α) (x y : Nat) (hn : NoMatch A B x y) :
    ¬ Dle A B 0 (x + 1) (y + 1) := by
  intro h
  unfold Dle at h
  rw [Lp_nomatch A B x y hn] at h
  have := Lp_le_x A B x (y + 1)
  have := Lp_le_y A B x (y + 1)
  have := Lp_le_x A B (x + 1) y
  have := Lp_le_y A B (x + 1) y
  omega

theorem dle_nomatch_succ (A B : List α) (d x y : Nat) (hn : NoMatch A B x y)
    (h : Dle A B (d + 1) (x + 1) (y + 1)) : Dle A B d x (y + 1) ∨ Dle A B d (x + 1) y := by
  unfold Dle at *
  rw [Lp_nomatch A B x y hn] at h
  omega

/-- `v` is the furthest `x` on diagonal `k` at distance ≤ `d`; `y` is its partner -/
def FR (A B : List α) (d : Nat) (k : Int) (v : Nat) : Prop :=
  (∃ y : Nat, (v : Int) - y = k ∧ Dle A B d v y) ∧
    ∀ x y : Nat, (x : Int) - y = k → Dle A B d x y → x ≤ v

/-! ### the slide loop -/

/-- the equality test of the search agrees with the lists inside the grid -/
def EqSpec (eqAt : Nat → Nat → Bool) (A B : List α) : Prop :=
  ∀ x y (hx : x < A.length) (hy : y < B.length), eqAt x y = true ↔ A[x] = B[y]

theorem slide_spec (eqAt : Nat → Nat → Bool) (A B : List α) (hs : EqSpec eqAt A B) (k : Int)
    (fuel x y : Nat) (hk : (x : Int) - y = k) :
    ∃ t, slide eqAt A.length B.length k fuel x = x + t ∧
      (∀ i, i < t → ∃ (hx : x + i < A.length) (hy : y + i < B.length), A[x + i] = B[y + i]) ∧
      (A.length < x + fuel → NoMatch A B (x + t) (y + t)) := by
  induction fuel generalizing x y with
  | zero =>
    refine ⟨0, rfl, fun i hi => by omega, fun h => ?_⟩
    intro ⟨hx, _, _⟩; omega
  | succ fuel ih =>
    unfold slide
    have ey : ((x : Int) - k).toNat = y := by omega
    split
    case isTrue hc =>
      obtain ⟨c1, c2, c3, c4⟩ := hc
      rw [ey] at c3 c4
      obtain ⟨t, e1, e2, e3⟩ := ih (x + 1) (y + 1) (by omega)
      refine ⟨t + 1, by rw [e1]; omega, ?_, ?_⟩
      · intro i hi
        cases i with
        | zero => exact ⟨c1, c3, (hs x y c1 c3).mp c4⟩
        | succ i =>
          obtain ⟨hx, hy, he⟩ := e2 i (by omega)
          have q1 : x + (i + 1) = x + 1 + i := by omega
          have q2 : y + (i + 1) = y + 1 + i := by omega
          simp only [q1, q2]
          exact ⟨hx, hy, he⟩
      · intro hf
        have q1 : x + (t + 1) = x + 1 + t := by omega
        have q2 : y + (t + 1) = y + 1 + t := by omega
        rw [q1, q2]
        exact e3 (by omega)
    case isFalse hc =>
      refine ⟨0, rfl, fun i hi => by omega, fun _ => ?_⟩
      intro ⟨hx, hy, he⟩
      apply hc
      rw [ey]
      exact ⟨hx, by omega, hy, (hs x y hx hy).mpr he⟩

theorem dle_slide (A B : List α) (d x y t : Nat) (h : Dle A B d x y)
    (hm : ∀ i, i < t → ∃ (hx : x + i < A.length) (hy : y + i < B.length), A[x + i] = B[y + i]) :
    Dle A B d (x + t) (y + t) := by
  induction t with
  | zero => simpa using h
  | succ t ih =>
    obtain ⟨hx, hy, he⟩ := hm t (by omega)
    have := (dle_match A B d (x + t) (y + t) hx hy he).mpr (ih (fun i hi => hm i (by omega)))
    simpa [Nat.add_assoc] using this

/-! ### one step of the recurrence -/

/-- round 0 -/
theorem fr_zero (A B : List α) (t : Nat)
    (hm : ∀ i, i < t → ∃ (hx : 0 + i < A.length) (hy : 0 + i < B.length), A[0 + i] = B[0 + i])
    (hn : NoMatch A B (0 + t) (0 + t)) : FR A B 0 0 t := by
  constructor
  · refine ⟨t, by omega, ?_⟩
    have := dle_slide A B 0 0 0 t (dle_origin A B 0) hm
    simpa using this
  · intro x y hk hd
    have exy : y = x := by omega
    subst exy
    apply Classical.byContradiction
    intro hlt
    have e : y = (t + 1) + (y - t - 1) := by omega
    have h1 : Dle A B 0 (t + 1 + (y - t - 1)) (t + 1 + (y - t - 1)) := by rw [← e]; exact hd
    have h2 := dle_diag_n A B 0 (t + 1) (t + 1) (y - t - 1) h1
    have hn' : NoMatch A B t t := by simpa using hn
    exact dle_nomatch_zero A B t t hn' h2

/-- round `d+1`: start from `(x0, y0)` on diagonal `k`, which is one edit after a point of round
`d`; everything of round `d` on diagonal `k-1` is strictly left of `x0`, everything on diagonal
`k+1` is not right of `x0`; then slide. -/
theorem fr_succ (A B : List α) (d : Nat) (k : Int) (x0 y0 t : Nat)
    (hk : (x0 : Int) - y0 = k) (hreach : Dle A B (d + 1) x0 y0)
    (hlow : ∀ x y : Nat, (x : Int) - y = k - 1 → Dle A B d x y → x < x0)
    (hhigh : ∀ x y : Nat, (x : Int) - y = k + 1 → Dle A B d x y → x ≤ x0)
    (hm : ∀ i, i < t → ∃ (hx : x0 + i < A.length) (hy : y0 + i < B.length), A[x0 + i] = B[y0 + i])
    (hn : NoMatch A B (x0 + t) (y0 + t)) : FR A B (d + 1) k (x0 + t) := by
  constructor
  · exact ⟨y0 + t, by omega, dle_slide A B (d + 1) x0 y0 t hreach hm⟩
  · intro x y hxy hd
    apply Classical.byContradiction
    intro hlt
    have ex : x = (x0 + t + 1) + (x - (x0 + t) - 1) := by omega
    have ey : y = (y0 + t + 1) + (x - (x0 + t) - 1) := by omega
    have h1 : Dle A B (d + 1) (x0 + t + 1 + (x - (x0 + t) - 1)) (y0 + t + 1 + (x - (x0 + t) - 1)) := by
      rw [← ex, ← ey]; exact hd
    have h2 := dle_diag_n A B (d + 1) (x0 + t + 1) (y0 + t + 1) _ h1
    rcases dle_nomatch_succ A B d (x0 + t) (y0 + t) hn h2 with h3 | h3
    · have := hlow (x0 + t) (y0 + t + 1) (by omega) h3
      omega
    · have := hhigh (x0 + t + 1) (y0 + t) (by omega) h3
      omega

end TmVerif.Diff
