import TmVerif.Proofs.SetClosureSlow
/-!
`Compute`: the callback is invoked once per strongly connected component, successors first. Each
invocation only writes the sets of its own component, so what was established for a component
(`CompGood`) still holds at the end.
-/
namespace TmVerif.SetClosure
open TmVerif.IntSet TmVerif.Graph

theorem any_inter_iff (sys : Sys) (comp : List Nat) :
    comp.any (fun q => opOf sys q == .inter) = true ↔ ∃ q ∈ comp, opOf sys q = .inter := by
  simp

theorem cb_stepOk {sys : Sys} {comp snap : List Nat} {s : St} (c : CompCtx sys comp snap s) :
    StepOk sys comp snap s (closureCb sys s (comp, snap)) := by
  unfold closureCb
  split
  · rename_i h
    obtain ⟨q, hq, hqi⟩ := (any_inter_iff sys comp).1 h
    exact slow_stepOk c hq hqi _ (Nat.lt_succ_self _)
  · exact simple_stepOk c

theorem cb_good {sys : Sys} {comp snap : List Nat} {s : St} (c : CompCtx sys comp snap s)
    (herr : (closureCb sys s (comp, snap)).err = []) (htmo : (closureCb sys s (comp, snap)).timeout = false) :
    CompGood sys comp (closureCb sys s (comp, snap)) := by
  unfold closureCb at herr htmo ⊢
  split
  · rename_i h
    rw [if_pos h] at herr htmo
    obtain ⟨q, hq, hqi⟩ := (any_inter_iff sys comp).1 h
    exact slow_good c hq hqi _ herr htmo
  · rename_i h
    rw [if_neg h] at herr
    apply simple_good c ?_ herr
    intro q hq hqi
    exact h ((any_inter_iff sys comp).2 ⟨q, hq, hqi⟩)

/-- `CompGood` only reads the component and its successors -/
theorem CompGood.congr {sys : Sys} {comp : List Nat} {s t : St} (h : CompGood sys comp s)
    (h1 : ∀ v ∈ comp, t.get v = s.get v) (h2 : ∀ v ∈ comp, ∀ w ∈ edgesOf sys v, t.get w = s.get w) :
    CompGood sys comp t := by
  have ha : ∀ v ∈ comp, ∀ x, t.asg v x ↔ s.asg v x := by
    intro v hv x; unfold St.asg; rw [h1 v hv]
  have hb : ∀ v ∈ comp, ∀ w ∈ edgesOf sys v, ∀ x, t.asg w x ↔ s.asg w x := by
    intro v hv w hw x; unfold St.asg; rw [h2 v hv w hw]
  refine ⟨fun v hv => (eqAt_congr (ha v hv) (hb v hv)).2 (h.1 v hv), ?_⟩
  intro b hbe hbo v hv x hx
  apply h.2 b hbe ?_ v hv x ((ha v hv x).1 hx)
  intro u hu w hw hwc
  obtain ⟨p1, p2⟩ := hbo u hu w hw hwc
  exact ⟨fun x hx => p1 x ((hb u hu w hw x).2 hx), fun hop x hx => (hb u hu w hw x).1 (p2 hop x hx)⟩

/-- the component sequence: pairwise, an earlier component neither meets a later one nor has an edge
into it; every entry is a strongly connected component with an exact `onStack` snapshot -/
structure Listing (sys : Sys) (cs : List (List Nat × List Nat)) : Prop where
  pw : cs.Pairwise (fun c c' => ∀ v ∈ c.1, v ∉ c'.1 ∧ ∀ w ∈ edgesOf sys v, w ∉ c'.1)
  scc : ∀ c ∈ cs, ∀ u ∈ c.1, ∀ w, w ∈ c.1 ↔ SC (graphOf sys) u w
  lt : ∀ c ∈ cs, ∀ v ∈ c.1, v < sys.length
  snap : ∀ c ∈ cs, SnapOk (graphOf sys) c

theorem Listing.tail {sys : Sys} {c : List Nat × List Nat} {cs : List (List Nat × List Nat)}
    (h : Listing sys (c :: cs)) : Listing sys cs :=
  ⟨(List.pairwise_cons.1 h.pw).2, fun c' hc' => h.scc c' (by simp [hc']), fun c' hc' => h.lt c' (by simp [hc']),
    fun c' hc' => h.snap c' (by simp [hc'])⟩

structure RunOk (sys : Sys) (cs : List (List Nat × List Nat)) (s t : St) : Prop where
  len : t.sets.length = sys.length
  sorted : ∀ v, Sorted (t.get v).set
  frame : ∀ u, (∀ c ∈ cs, u ∉ c.1) → t.get u = s.get u
  err : ∃ extra, t.err = s.err ++ extra ∧ ∀ e ∈ extra, ∃ c ∈ cs, e ∈ c.1 ∧ Offends sys c.2 e
  offend : (∃ c ∈ cs, ∃ v ∈ c.1, Offends sys c.2 v) → t.err ≠ []
  tmo : s.timeout = true → t.timeout = true
  good : t.err = [] → t.timeout = false → ∀ c ∈ cs, CompGood sys c.1 t
  bounded : Bounded sys s → Bounded sys t
  tmoF : Bounded sys s → s.timeout = false → t.timeout = false

theorem run_spec {sys : Sys} (hwf : Wf sys) :
    ∀ (cs : List (List Nat × List Nat)) (s : St), Listing sys cs → s.sets.length = sys.length →
      (∀ v, Sorted (s.get v).set) → (∀ c ∈ cs, ∀ v ∈ c.1, s.get v = ⟨false, initOf sys v⟩) →
      RunOk sys cs s (cs.foldl (closureCb sys) s) := by
  intro cs
  induction cs with
  | nil =>
    intro s _ hlen hs _
    exact ⟨hlen, hs, fun _ _ => rfl, ⟨[], by simp, by simp⟩, by simp, fun h => h, by simp, fun h => h, fun _ h => h⟩
  | cons c cs ih =>
    intro s hL hlen hs hfresh
    simp only [List.foldl_cons]
    obtain ⟨comp, snap⟩ := c
    have ctx : CompCtx sys comp snap s :=
      ⟨hwf, hlen, hs, hfresh (comp, snap) (by simp), hL.lt (comp, snap) (by simp),
        hL.scc (comp, snap) (by simp), hL.snap (comp, snap) (by simp)⟩
    have S := cb_stepOk ctx
    have hpw := List.pairwise_cons.1 hL.pw
    have hfresh' : ∀ c' ∈ cs, ∀ v ∈ c'.1, (closureCb sys s (comp, snap)).get v = ⟨false, initOf sys v⟩ := by
      intro c' hc' v hv
      have hvc : v ∉ comp := fun h => (hpw.1 c' hc' v h).1 hv
      rw [S.frame v hvc]
      exact hfresh c' (by simp [hc']) v hv
    have R := ih (closureCb sys s (comp, snap)) hL.tail S.len S.sorted hfresh'
    obtain ⟨ex1, e1, e2⟩ := S.err
    obtain ⟨ex2, e3, e4⟩ := R.err
    refine ⟨R.len, R.sorted, ?_, ⟨ex1 ++ ex2, by rw [e3, e1]; simp, ?_⟩, ?_, fun h => R.tmo (S.tmo h), ?_,
      fun hB => R.bounded (S.bounded hB), fun hB h => R.tmoF (S.bounded hB) (S.tmoF hB h)⟩
    · intro u hu
      rw [R.frame u (fun c' hc' => hu c' (by simp [hc']))]
      exact S.frame u (hu (comp, snap) (by simp))
    · intro e he
      simp only [List.mem_append] at he
      rcases he with he | he
      · exact ⟨(comp, snap), by simp, e2 e he⟩
      · obtain ⟨c', hc', h⟩ := e4 e he
        exact ⟨c', by simp [hc'], h⟩
    · rintro ⟨c', hc', v, hv, ho⟩
      simp only [List.mem_cons] at hc'
      rcases hc' with rfl | hc'
      · have := S.offend ⟨v, hv, ho⟩
        rw [e3]; intro h; exact this (List.append_eq_nil_iff.1 h).1
      · exact R.offend ⟨c', hc', v, hv, ho⟩
    · intro herr htmo c' hc'
      simp only [List.mem_cons] at hc'
      rcases hc' with rfl | hc'
      · have herr1 : (closureCb sys s (comp, snap)).err = [] := by
          rw [e3] at herr; exact (List.append_eq_nil_iff.1 herr).1
        have htmo1 : (closureCb sys s (comp, snap)).timeout = false := by
          cases h : (closureCb sys s (comp, snap)).timeout with
          | false => rfl
          | true => rw [R.tmo h] at htmo; cases htmo
        refine (cb_good ctx herr1 htmo1).congr ?_ ?_
        · intro v hv
          exact R.frame v (fun c'' hc'' => (hpw.1 c'' hc'' v hv).1)
        · intro v hv w hw
          exact R.frame w (fun c'' hc'' => (hpw.1 c'' hc'' v hv).2 w hw)
      · exact R.good herr htmo c' hc'

/-! ### the component sequence of `Tarjan` is a `Listing` -/

theorem initSt_get (sys : Sys) (v : Nat) : (initSt sys).get v = ⟨false, initOf sys v⟩ := by
  unfold initSt St.get initOf
  simp only [List.getElem?_map]
  cases sys[v]? <;> rfl

theorem listing_tarjan {sys : Sys} (hwf : Wf sys) (h2 : 2 ≤ sys.length) :
    Listing sys (tarjanRun (graphOf sys)) ∧
    ∀ v, v < sys.length → ∃ c ∈ tarjanRun (graphOf sys), v ∈ c.1 := by
  have hg := hwf.graph
  have hlen := graphOf_length sys
  have hord := tarjan_correct hg (by rw [hlen]; exact h2)
  rw [← tarjanRun_comps] at hord
  have hsnap : ∀ e ∈ tarjanRun (graphOf sys), SnapOk (graphOf sys) e := tarjanRun_snap hg
  generalize tarjanRun (graphOf sys) = cs at hord hsnap
  refine ⟨⟨?_, ?_, ?_, ?_⟩, ?_⟩
  · have : (cs.map (·.1)).Pairwise (fun c c' => ∀ v ∈ c, v ∉ c' ∧ ∀ w ∈ edgesOf sys v, w ∉ c') := by
      rw [List.pairwise_iff_getElem]
      intro i j hi hj hij v hv
      refine ⟨fun hv' => ?_, fun w hw hw' => ?_⟩
      · have := mem_unique hord.nodup hi hj hv hv'
        omega
      · have := hord.order i j hi hj v w hv hw' (Reach.edge hw)
        omega
    exact (List.pairwise_map.1 this)
  · intro c hc
    exact hord.scc c.1 (List.mem_map.2 ⟨c, hc, rfl⟩)
  · intro c hc v hv
    have := (hord.cover v).1 (List.mem_flatten.2 ⟨c.1, List.mem_map.2 ⟨c, hc, rfl⟩, hv⟩)
    rw [hlen] at this; exact this
  · exact hsnap
  · intro v hv
    have := (hord.cover v).2 (by rw [hlen]; exact hv)
    obtain ⟨l, hl, hvl⟩ := List.mem_flatten.1 this
    obtain ⟨c, hc, rfl⟩ := List.mem_map.1 hl
    exact ⟨c, hc, hvl⟩

end TmVerif.SetClosure
