import TmVerif.Proofs.ExpandExpr
/-!
C13 helper lemmas, part 3: shape invariants of the expansion (produced alternatives are plain rule
bodies, extracted nonterminals only mention earlier symbols), congruence and monotonicity of `den`.
-/
namespace TmVerif.Expand

/-! ### plain rule bodies and their symbol strings -/

mutual
/-- a rule body `generateTables` can flatten without loss: references, sequences, wrappers,
state markers, commands -/
def plain : Expr → Bool
  | .empty => true
  | .ref _ => true
  | .command _ => true
  | .marker _ => true
  | .seq es => plainList es
  | .arrow _ e => plain e
  | .assign _ e => plain e
  | .append _ e => plain e
  | .prec _ e => plain e
  | _ => false
def plainList : List Expr → Bool
  | [] => true
  | e :: es => plain e && plainList es
end

mutual
/-- every referenced symbol is `< n` -/
def refsLt (n : Nat) : Expr → Bool
  | .ref s => s < n
  | .opt e => refsLt n e
  | .seq es => refsLtList n es
  | .choice es => refsLtList n es
  | .list _ _ e s => refsLt n e && refsLt n s
  | .arrow _ e => refsLt n e
  | .assign _ e => refsLt n e
  | .append _ e => refsLt n e
  | .prec _ e => refsLt n e
  | _ => true
def refsLtList (n : Nat) : List Expr → Bool
  | [] => true
  | e :: es => refsLt n e && refsLtList n es
end

/-- the language of a symbol string -/
def SeqLang (ρ : Nat → Lang) : List Nat → Lang
  | [] => Lang.eps
  | s :: ss => Lang.cat (ρ s) (SeqLang ρ ss)

theorem SeqLang_append (ρ : Nat → Lang) (a b : List Nat) :
    SeqLang ρ (a ++ b) = Lang.cat (SeqLang ρ a) (SeqLang ρ b) := by
  induction a with
  | nil => simp [SeqLang, Lang.eps_cat]
  | cons x a ih => simp [SeqLang, ih, Lang.cat_assoc]

theorem SeqLang_mono {ρ ρ' : Nat → Lang} (h : ∀ s, Lang.le (ρ s) (ρ' s)) (α : List Nat) :
    Lang.le (SeqLang ρ α) (SeqLang ρ' α) := by
  induction α with
  | nil => exact Lang.le_refl _
  | cons x α ih => exact Lang.cat_mono (h x) ih

theorem SeqLang_congr {ρ ρ' : Nat → Lang} (α : List Nat) (h : ∀ s ∈ α, ρ s = ρ' s) :
    SeqLang ρ α = SeqLang ρ' α := by
  induction α with
  | nil => rfl
  | cons x α ih =>
    simp only [SeqLang]
    rw [h x (by simp), ih (fun s hs => h s (by simp [hs]))]

section
variable (sets : Nat → List Nat) (ρ : Nat → Lang)

mutual
theorem den_flat : ∀ (e : Expr), plain e = true → den sets ρ e = SeqLang ρ (flat e)
  | .empty, _ => by simp [den, flat, SeqLang]
  | .ref s, _ => by simp [den, flat, SeqLang, Lang.cat_eps]
  | .command _, _ => by simp [den, flat, SeqLang]
  | .marker _, _ => by simp [den, flat, SeqLang]
  | .seq es, h => by
    simp only [plain] at h
    simp only [den, flat]; exact denSeq_flatList es h
  | .arrow _ e, h => by simp only [plain] at h; simp only [den, flat]; exact den_flat e h
  | .assign _ e, h => by simp only [plain] at h; simp only [den, flat]; exact den_flat e h
  | .append _ e, h => by simp only [plain] at h; simp only [den, flat]; exact den_flat e h
  | .prec _ e, h => by simp only [plain] at h; simp only [den, flat]; exact den_flat e h
  | .opt _, h => by simp [plain] at h
  | .choice _, h => by simp [plain] at h
  | .list _ _ _ _, h => by simp [plain] at h
  | .set _, h => by simp [plain] at h
  | .lookahead _, h => by simp [plain] at h
theorem denSeq_flatList : ∀ (es : List Expr), plainList es = true →
    denSeq sets ρ es = SeqLang ρ (flatList es)
  | [], _ => by simp [denSeq, flatList, SeqLang]
  | e :: es, h => by
    simp only [plainList, Bool.and_eq_true] at h
    simp only [denSeq, flatList, SeqLang_append]
    rw [den_flat e h.1, denSeq_flatList es h.2]
end

/- the symbols of a plain body are bounded like its references -/
mutual
theorem flat_lt (n : Nat) : ∀ (e : Expr), refsLt n e = true → ∀ s ∈ flat e, s < n
  | .ref s, h => by simp [refsLt] at h; simp [flat]; exact h
  | .seq es, h => by simp only [refsLt] at h; simp only [flat]; exact flatList_lt n es h
  | .arrow _ e, h => by simp only [refsLt] at h; simp only [flat]; exact flat_lt n e h
  | .assign _ e, h => by simp only [refsLt] at h; simp only [flat]; exact flat_lt n e h
  | .append _ e, h => by simp only [refsLt] at h; simp only [flat]; exact flat_lt n e h
  | .prec _ e, h => by simp only [refsLt] at h; simp only [flat]; exact flat_lt n e h
  | .empty, _ => by simp [flat]
  | .command _, _ => by simp [flat]
  | .marker _, _ => by simp [flat]
  | .opt _, _ => by simp [flat]
  | .choice _, _ => by simp [flat]
  | .list _ _ _ _, _ => by simp [flat]
  | .set _, _ => by simp [flat]
  | .lookahead _, _ => by simp [flat]
theorem flatList_lt (n : Nat) : ∀ (es : List Expr), refsLtList n es = true → ∀ s ∈ flatList es, s < n
  | [], _ => by simp [flatList]
  | e :: es, h => by
    simp only [refsLtList, Bool.and_eq_true] at h
    intro s hs
    simp only [flatList, List.mem_append] at hs
    rcases hs with hs | hs
    · exact flat_lt n e h.1 s hs
    · exact flatList_lt n es h.2 s hs
end

end

/-! ### congruence and monotonicity of the denotation -/

section
variable (sets : Nat → List Nat)

mutual
theorem den_congr (n : Nat) {ρ ρ' : Nat → Lang} (h : ∀ s, s < n → ρ s = ρ' s) :
    ∀ (e : Expr), refsLt n e = true → den sets ρ e = den sets ρ' e
  | .empty, _ => by simp [den]
  | .ref s, hr => by simp [refsLt] at hr; simp [den, h s hr]
  | .opt e, hr => by simp only [refsLt] at hr; simp only [den]; rw [den_congr n h e hr]
  | .seq es, hr => by simp only [refsLt] at hr; simp only [den]; exact denSeq_congr n h es hr
  | .choice es, hr => by simp only [refsLt] at hr; simp only [den]; exact denAlt_congr n h es hr
  | .list ne rr e s, hr => by
    simp only [refsLt, Bool.and_eq_true] at hr
    simp only [den]; rw [den_congr n h e hr.1, den_congr n h s hr.2]
  | .set _, _ => by simp [den]
  | .lookahead _, _ => by simp [den]
  | .arrow _ e, hr => by simp only [refsLt] at hr; simp only [den]; exact den_congr n h e hr
  | .assign _ e, hr => by simp only [refsLt] at hr; simp only [den]; exact den_congr n h e hr
  | .append _ e, hr => by simp only [refsLt] at hr; simp only [den]; exact den_congr n h e hr
  | .prec _ e, hr => by simp only [refsLt] at hr; simp only [den]; exact den_congr n h e hr
  | .command _, _ => by simp [den]
  | .marker _, _ => by simp [den]
theorem denSeq_congr (n : Nat) {ρ ρ' : Nat → Lang} (h : ∀ s, s < n → ρ s = ρ' s) :
    ∀ (es : List Expr), refsLtList n es = true → denSeq sets ρ es = denSeq sets ρ' es
  | [], _ => by simp [denSeq]
  | e :: es, hr => by
    simp only [refsLtList, Bool.and_eq_true] at hr
    simp only [denSeq]; rw [den_congr n h e hr.1, denSeq_congr n h es hr.2]
theorem denAlt_congr (n : Nat) {ρ ρ' : Nat → Lang} (h : ∀ s, s < n → ρ s = ρ' s) :
    ∀ (es : List Expr), refsLtList n es = true → denAlt sets ρ es = denAlt sets ρ' es
  | [], _ => by simp [denAlt]
  | e :: es, hr => by
    simp only [refsLtList, Bool.and_eq_true] at hr
    simp only [denAlt]; rw [den_congr n h e hr.1, denAlt_congr n h es hr.2]
end

mutual
theorem den_mono {ρ ρ' : Nat → Lang} (h : ∀ s, Lang.le (ρ s) (ρ' s)) :
    ∀ (e : Expr), Lang.le (den sets ρ e) (den sets ρ' e)
  | .empty => by simp only [den]; exact Lang.le_refl _
  | .ref s => by simp only [den]; exact h s
  | .opt e => by simp only [den]; exact Lang.union_mono (den_mono h e) (Lang.le_refl _)
  | .seq es => by simp only [den]; exact denSeq_mono h es
  | .choice es => by simp only [den]; exact denAlt_mono h es
  | .list ne rr e s => by
    simp only [den]
    have := Lang.sepIter_mono (den_mono h e) (den_mono h s)
    cases ne
    · exact Lang.union_mono this (Lang.le_refl _)
    · exact this
  | .set _ => by simp only [den]; exact Lang.le_refl _
  | .lookahead _ => by simp only [den]; exact Lang.le_refl _
  | .arrow _ e => by simp only [den]; exact den_mono h e
  | .assign _ e => by simp only [den]; exact den_mono h e
  | .append _ e => by simp only [den]; exact den_mono h e
  | .prec _ e => by simp only [den]; exact den_mono h e
  | .command _ => by simp only [den]; exact Lang.le_refl _
  | .marker _ => by simp only [den]; exact Lang.le_refl _
theorem denSeq_mono {ρ ρ' : Nat → Lang} (h : ∀ s, Lang.le (ρ s) (ρ' s)) :
    ∀ (es : List Expr), Lang.le (denSeq sets ρ es) (denSeq sets ρ' es)
  | [] => by simp only [denSeq]; exact Lang.le_refl _
  | e :: es => by simp only [denSeq]; exact Lang.cat_mono (den_mono h e) (denSeq_mono h es)
theorem denAlt_mono {ρ ρ' : Nat → Lang} (h : ∀ s, Lang.le (ρ s) (ρ' s)) :
    ∀ (es : List Expr), Lang.le (denAlt sets ρ es) (denAlt sets ρ' es)
  | [] => by simp only [denAlt]; exact Lang.le_refl _
  | e :: es => by simp only [denAlt]; exact Lang.union_mono (den_mono h e) (denAlt_mono h es)
end

end

/-! ### monotonicity of `refsLt`, closure of `plain`/`refsLt` under `concat` -/

mutual
theorem refsLt_mono {n m : Nat} (hnm : n ≤ m) : ∀ (e : Expr), refsLt n e = true → refsLt m e = true
  | .ref s, h => by simp [refsLt] at h ⊢; omega
  | .opt e, h => by simp only [refsLt] at h ⊢; exact refsLt_mono hnm e h
  | .seq es, h => by simp only [refsLt] at h ⊢; exact refsLtList_mono hnm es h
  | .choice es, h => by simp only [refsLt] at h ⊢; exact refsLtList_mono hnm es h
  | .list _ _ e s, h => by
    simp only [refsLt, Bool.and_eq_true] at h ⊢
    exact ⟨refsLt_mono hnm e h.1, refsLt_mono hnm s h.2⟩
  | .arrow _ e, h => by simp only [refsLt] at h ⊢; exact refsLt_mono hnm e h
  | .assign _ e, h => by simp only [refsLt] at h ⊢; exact refsLt_mono hnm e h
  | .append _ e, h => by simp only [refsLt] at h ⊢; exact refsLt_mono hnm e h
  | .prec _ e, h => by simp only [refsLt] at h ⊢; exact refsLt_mono hnm e h
  | .empty, _ => by simp [refsLt]
  | .set _, _ => by simp [refsLt]
  | .lookahead _, _ => by simp [refsLt]
  | .command _, _ => by simp [refsLt]
  | .marker _, _ => by simp [refsLt]
theorem refsLtList_mono {n m : Nat} (hnm : n ≤ m) :
    ∀ (es : List Expr), refsLtList n es = true → refsLtList m es = true
  | [], _ => by simp [refsLtList]
  | e :: es, h => by
    simp only [refsLtList, Bool.and_eq_true] at h ⊢
    exact ⟨refsLt_mono hnm e h.1, refsLtList_mono hnm es h.2⟩
end

theorem plainList_append (a b : List Expr) :
    plainList (a ++ b) = (plainList a && plainList b) := by
  induction a with
  | nil => simp [plainList]
  | cons x a ih => simp [plainList, ih, Bool.and_assoc]

theorem refsLtList_append (n : Nat) (a b : List Expr) :
    refsLtList n (a ++ b) = (refsLtList n a && refsLtList n b) := by
  induction a with
  | nil => simp [refsLtList]
  | cons x a ih => simp [refsLtList, ih, Bool.and_assoc]

theorem plainList_iff (l : List Expr) : plainList l = true ↔ ∀ a ∈ l, plain a = true := by
  induction l with
  | nil => simp [plainList]
  | cons x l ih => simp [plainList, ih]

theorem refsLtList_iff (n : Nat) (l : List Expr) : refsLtList n l = true ↔ ∀ a ∈ l, refsLt n a = true := by
  induction l with
  | nil => simp [refsLtList]
  | cons x l ih => simp [refsLtList, ih]

/-- a body that is plain and bounded -/
def Good (n : Nat) (e : Expr) : Prop := plain e = true ∧ refsLt n e = true

theorem Good.mono {n m : Nat} {e : Expr} (h : Good n e) (hnm : n ≤ m) : Good m e :=
  ⟨h.1, refsLt_mono hnm e h.2⟩

theorem concatPart_good {n : Nat} {e : Expr} (h : Good n e) : ∀ a ∈ concatPart e, Good n a := by
  intro a ha
  cases e <;> simp [concatPart] at ha <;> try (subst ha; exact h)
  · -- seq
    obtain ⟨h1, h2⟩ := h
    simp only [plain] at h1; simp only [refsLt] at h2
    exact ⟨(plainList_iff _).1 h1 a ha, (refsLtList_iff n _).1 h2 a ha⟩

theorem concat_good {n : Nat} {l : List Expr} (h : ∀ e ∈ l, Good n e) : Good n (concat l) := by
  have hall : ∀ a ∈ l.flatMap concatPart, Good n a := by
    intro a ha
    obtain ⟨e, he, hae⟩ := List.mem_flatMap.1 ha
    exact concatPart_good (h e he) a hae
  unfold concat
  split
  · exact ⟨by simp [plain], by simp [refsLt]⟩
  · next x hx => exact hall x (by simp [hx])
  · constructor
    · simp only [plain]; exact (plainList_iff _).2 (fun a ha => (hall a ha).1)
    · simp only [refsLt]; exact (refsLtList_iff n _).2 (fun a ha => (hall a ha).2)

theorem multiConcat_good {n : Nat} {a b : List Expr} (ha : ∀ e ∈ a, Good n e) (hb : ∀ e ∈ b, Good n e) :
    ∀ e ∈ multiConcat a b, Good n e := by
  intro e he
  simp only [multiConcat, List.mem_flatMap, List.mem_map] at he
  obtain ⟨x, hx, y, hy, rfl⟩ := he
  apply concat_good
  intro z hz
  simp at hz
  rcases hz with rfl | rfl
  · exact ha _ hx
  · exact hb _ hy

end TmVerif.Expand
