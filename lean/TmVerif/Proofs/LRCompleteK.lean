/-
Helper lemmas for C07 completeness, part 1: string sets (`catD`, `firstSeq` over-approximate
FIRST_k when `first` is closed), the next `k` symbols of the token stream (`nextK`), and the
unpacking of `complKOk`.
-/
import TmVerif.Model.LRCompleteK
import TmVerif.Proofs.LRCompleteAccept
namespace TmVerif.LRCompleteK
open TmVerif.LR TmVerif.CFG TmVerif.LRSound TmVerif.LRRef TmVerif.LRK
open TmVerif.LRComplete (Reads rhsOf_rule rhsOf_input rule_index Steps TopState Pushed)

/-! ### string sets -/

theorem subStr_sub {A B : List Str} (h : subStr A B = true) : ∀ x ∈ A, x ∈ B := by
  intro x hx
  unfold subStr at h
  rw [List.all_eq_true] at h
  simpa using h x hx

/-- `(u ++ y) | k ∈ A ⊕ₖ B` when `u | k ∈ A` and `y ∈ B` -/
theorem cat_mem {k : Nat} {A B : List Str} {u y : Str} (hu : u.take k ∈ A) (hy : y ∈ B) :
    (u ++ y).take k ∈ catD k A B := by
  unfold catD
  rw [List.mem_flatMap]
  refine ⟨u.take k, hu, ?_⟩
  by_cases hl : k ≤ u.length
  · have h1 : (u.take k).length ≥ k := by rw [List.length_take]; omega
    rw [if_pos h1, List.take_take, Nat.min_self, List.take_append_of_le_length hl]
    exact List.mem_singleton.mpr rfl
  · have h1 : ¬ (u.take k).length ≥ k := by rw [List.length_take]; omega
    rw [if_neg h1, List.take_of_length_le (by omega)]
    exact List.mem_map.mpr ⟨y, hy, rfl⟩

theorem take_append_take (k : Nat) (a b : Str) : (a ++ b.take k).take k = (a ++ b).take k := by
  rw [List.take_append, List.take_append, List.take_take]
  congr 2
  omega

theorem cat_take {k : Nat} {A B : List Str} {u v : Str} (hu : u.take k ∈ A) (hv : v.take k ∈ B) :
    (u ++ v).take k ∈ catD k A B := by
  rw [← take_append_take]
  exact cat_mem hu hv

/-! ### the next `k` symbols of the token stream -/

def nextK (inp : Input) : Nat → Nat → Str
  | _, 0 => []
  | p, k + 1 => symAt inp p :: nextK inp (p + 1) k

theorem nextK_length (inp : Input) : ∀ (k p : Nat), (nextK inp p k).length = k
  | 0, _ => rfl
  | k + 1, p => by simp [nextK, nextK_length inp k]

theorem nextK_get (inp : Input) : ∀ (k p j : Nat) (h : j < (nextK inp p k).length),
    (nextK inp p k)[j] = symAt inp (p + j)
  | 0, _, _, h => by simp [nextK] at h
  | k + 1, p, 0, _ => by simp [nextK]
  | k + 1, p, j + 1, h => by
    simp only [nextK, List.getElem_cons_succ]
    rw [nextK_get inp k (p + 1) j]
    congr 1
    omega

theorem reads_get {inp : Input} : ∀ {u : Str} {p : Nat}, Reads inp p u →
    ∀ j (h : j < u.length), symAt inp (p + j) = u[j]
  | [], _, _, j, h => by simp at h
  | a :: u, p, hr, 0, _ => hr.1
  | a :: u, p, hr, j + 1, h => by
    have := reads_get hr.2 j (by simpa using h)
    rw [List.getElem_cons_succ, ← this]
    congr 1
    omega

/-- reading `u` first: the next `k` symbols are `u` followed by the next `k` symbols after `u` -/
theorem nextK_reads {inp : Input} {u : Str} {p : Nat} (k : Nat) (h : Reads inp p u) :
    nextK inp p k = (u ++ nextK inp (p + u.length) k).take k := by
  apply List.ext_getElem
  · rw [nextK_length, List.length_take, List.length_append, nextK_length]; omega
  · intro j h1 h2
    rw [nextK_get, List.getElem_take]
    by_cases hj : j < u.length
    · rw [List.getElem_append_left hj]
      exact reads_get h j hj
    · rw [List.getElem_append_right (by omega), nextK_get]
      congr 1
      omega

theorem nextK_eoi (inp : Input) : ∀ (k p : Nat), inp.toks.size ≤ p →
    nextK inp p k = List.replicate k 0
  | 0, _, _ => rfl
  | k + 1, p, h => by
    rw [nextK, symAt_ge inp h, nextK_eoi inp k (p + 1) (by omega)]
    rfl

theorem nextK_allStrings {t : Tables} {inp : Input} (htok : TokOk t inp) (h0 : 0 < t.nTerms) :
    ∀ (k p : Nat), nextK inp p k ∈ allStrings t.nTerms k
  | 0, _ => by simp [nextK, allStrings]
  | k + 1, p => by
    unfold allStrings
    simp only [List.mem_cons]
    by_cases hz : symAt inp p = 0
    · left
      have hp : inp.toks.size ≤ p := by
        rcases Nat.lt_or_ge p inp.toks.size with h | h
        · have := symAt_pos htok h; omega
        · exact h
      exact nextK_eoi inp (k + 1) p hp
    · right
      rw [List.mem_flatMap]
      refine ⟨symAt inp p, ?_, ?_⟩
      · rw [List.mem_filter, List.mem_range]
        exact ⟨(LRComplete.tok_sym htok h0 p).2, by simpa using hz⟩
      · rw [List.mem_map]
        exact ⟨nextK inp (p + 1) k, nextK_allStrings htok h0 k (p + 1), rfl⟩

/-! ### unpacking the checker -/

/-- set inclusion -/
def Sub (A B : List Str) : Prop := ∀ x ∈ A, x ∈ B

theorem Sub.refl (A : List Str) : Sub A A := fun _ h => h

theorem Sub.trans {A B C : List Str} (h1 : Sub A B) (h2 : Sub B C) : Sub A C :=
  fun x h => h2 x (h1 x h)

theorem hasItem_elim {cc : KCert} {s r d : Nat} {L : List Str} (h : hasItem cc s r d L = true) :
    ∃ it ∈ itemsOf cc s, it.rule = r ∧ it.dot = d ∧ Sub L it.la := by
  unfold hasItem at h
  rw [List.any_eq_true] at h
  obtain ⟨it, hm, h⟩ := h
  simp only [Bool.and_eq_true, beq_iff_eq] at h
  exact ⟨it, hm, h.1.1, h.1.2, subStr_sub h.2⟩

/-- an item with the same rule, the dot moved by `n`, and a lookahead set at least as large -/
def Adv (cc : KCert) (q : Nat) (it : KItem) (n : Nat) (it' : KItem) : Prop :=
  it' ∈ itemsOf cc q ∧ it'.rule = it.rule ∧ it'.dot = it.dot + n ∧ Sub it.la it'.la

theorem hasItem_adv {cc : KCert} {q : Nat} {it : KItem}
    (h : hasItem cc q it.rule (it.dot + 1) it.la = true) : ∃ it', Adv cc q it 1 it' := by
  obtain ⟨it', h1, h2, h3, h4⟩ := hasItem_elim h
  exact ⟨it', h1, h2, h3, h4⟩

structure KFacts (g : Grammar) (t : Tables) (k : Nat) (cc : KCert) : Prop where
  wf : g.wf = true
  nTerms : t.nTerms = g.nTerms
  kpos : 1 ≤ k
  firstC : ∀ r ∈ g.rules.toList, Sub (firstSeq g k cc.first r.rhs) (cc.first.getD r.lhs [])
  start : ∀ i inp, g.inputs[i]? = some inp →
    ∃ it ∈ itemsOf cc i, it.rule = g.rules.size + i ∧ it.dot = 0 ∧
      Sub (if inp.eoi then [List.replicate k 0] else allStrings g.nTerms k) it.la
  item : ∀ s it, it ∈ itemsOf cc s → itemOk g t k cc s it = true

theorem kFacts {g : Grammar} {t : Tables} {k : Nat} {cc : KCert}
    (h : complKOk g t k cc = true) : KFacts g t k cc := by
  unfold complKOk at h
  simp only [Bool.and_eq_true, decide_eq_true_eq] at h
  obtain ⟨⟨⟨⟨⟨h1, h2⟩, h3⟩, h4⟩, h5⟩, h7⟩ := h
  refine ⟨h1, h2, h3, ?_, ?_, ?_⟩
  · intro r hr
    unfold firstOk at h4
    rw [List.all_eq_true] at h4
    exact subStr_sub (h4 r hr)
  · intro i inp hi
    unfold startOk at h5
    rw [List.all_eq_true] at h5
    have hlt : i < g.inputs.size := by
      rcases Nat.lt_or_ge i g.inputs.size with h | h
      · exact h
      · rw [Array.getElem?_eq_none h] at hi; cases hi
    have := h5 i (List.mem_range.mpr hlt)
    rw [hi] at this
    exact hasItem_elim this
  · intro s it hm
    rw [List.all_eq_true] at h7
    have hlt : s < cc.items.size := by
      rcases Nat.lt_or_ge s cc.items.size with h | h
      · exact h
      · unfold itemsOf at hm
        rw [Array.getD_eq_getD_getElem?, Array.getElem?_eq_none h] at hm
        cases hm
    have := h7 s (List.mem_range.mpr hlt)
    rw [List.all_eq_true] at this
    exact this it hm

section facts
variable {g : Grammar} {t : Tables} {k : Nat} {cc : KCert} (hf : KFacts g t k cc)
include hf
set_option linter.unusedSectionVars false

theorem move_term {s : Nat} {it : KItem} (hm : it ∈ itemsOf cc s) {x : Nat}
    (hx : (rhsOf g it.rule)[it.dot]? = some x) (hlt : x < g.nTerms) :
    needsTok t s = some true ∧ ∀ u ∈ catD k [[x]] (contrib g k cc it),
      ∃ q : Nat, actOfU t s u = some (.shift q) ∧ ∃ it', Adv cc q it 1 it' := by
  have h := hf.item s it hm
  unfold itemOk at h
  simp only [Bool.and_eq_true] at h
  have h := h.1.1.2
  unfold moveOk at h
  rw [hx] at h
  simp only [hlt, if_true, Bool.and_eq_true, beq_iff_eq, List.all_eq_true] at h
  refine ⟨h.1, ?_⟩
  intro u hu
  have h := h.2 u hu
  split at h
  · rename_i q hq
    simp only [Bool.and_eq_true, decide_eq_true_eq] at h
    refine ⟨q.toNat, ?_, hasItem_adv h.2⟩
    rw [hq, Int.toNat_of_nonneg h.1]
  · cases h

theorem move_nt {s : Nat} {it : KItem} (hm : it ∈ itemsOf cc s) {x : Nat}
    (hx : (rhsOf g it.rule)[it.dot]? = some x) (hge : g.nTerms ≤ x) :
    ∃ q : Nat, gotoState t s x = some (q : Int) ∧ ∃ it', Adv cc q it 1 it' := by
  have h := hf.item s it hm
  unfold itemOk at h
  simp only [Bool.and_eq_true] at h
  have h := h.1.1.2
  unfold moveOk at h
  rw [hx] at h
  have hn : ¬ x < g.nTerms := by omega
  simp only [hn, if_false] at h
  split at h
  · rename_i q hq
    simp only [Bool.and_eq_true, decide_eq_true_eq] at h
    refine ⟨q.toNat, ?_, hasItem_adv h.2⟩
    rw [hq, Int.toNat_of_nonneg h.1]
  · cases h

theorem clos {s : Nat} {it : KItem} (hm : it ∈ itemsOf cc s) {x : Nat}
    (hx : (rhsOf g it.rule)[it.dot]? = some x) (hge : g.nTerms ≤ x)
    {r' : Nat} {rule : Rule} (hr : g.rules[r']? = some rule) (hl : rule.lhs = x) :
    ∃ it' ∈ itemsOf cc s, it'.rule = r' ∧ it'.dot = 0 ∧ Sub (contrib g k cc it) it'.la := by
  have h := hf.item s it hm
  unfold itemOk at h
  simp only [Bool.and_eq_true] at h
  have h := h.1.1.1
  unfold closOk at h
  rw [hx] at h
  have hn : ¬ x < g.nTerms := by omega
  simp only [Bool.or_eq_true, decide_eq_true_eq, hn, false_or, List.all_eq_true] at h
  have hlt : r' < g.rules.size := by
    rcases Nat.lt_or_ge r' g.rules.size with h | h
    · exact h
    · rw [Array.getElem?_eq_none h] at hr; cases hr
  have hmem : r' ∈ rulesOf g x := by
    unfold rulesOf
    rw [List.mem_filter]
    exact ⟨List.mem_range.mpr hlt, by rw [hr]; simp [hl]⟩
  exact hasItem_elim (h r' hmem)

theorem red {s : Nat} {it : KItem} (hm : it ∈ itemsOf cc s) {rule : Rule}
    (hr : g.rules[it.rule]? = some rule) (hd : it.dot = rule.rhs.length) :
    geti t.ruleLen it.rule = some (rule.rhs.length : Int) ∧
    geti t.ruleSymbol it.rule = some (rule.lhs : Int) ∧
    ((needsTok t s = some true ∧ ∀ u ∈ it.la, u.length = k →
        actOfU t s u = some (.reduce (it.rule : Int))) ∨
     (needsTok t s = some false ∧ (it.la ≠ [] →
        actOf t noDeep s 0 = some (.reduce (it.rule : Int))))) := by
  have h := hf.item s it hm
  unfold itemOk at h
  simp only [Bool.and_eq_true] at h
  have h := h.1.2
  unfold redOk at h
  rw [hr] at h
  simp only [Bool.or_eq_true, bne_iff_ne, ne_eq, hd, not_true_eq_false, false_or,
    Bool.and_eq_true, beq_iff_eq] at h
  refine ⟨h.1.1, h.1.2, ?_⟩
  have h := h.2
  split at h
  · cases h
  · rename_i hb
    left
    refine ⟨hb, ?_⟩
    intro u hu hlen
    rw [List.all_eq_true] at h
    have := h u hu
    simpa [hlen] using this
  · rename_i hb
    right
    refine ⟨hb, ?_⟩
    intro hne
    simp only [Bool.or_eq_true, List.isEmpty_iff, beq_iff_eq] at h
    rcases h with h | h
    · exact absurd h hne
    · exact h

theorem fin {s : Nat} {it : KItem} (hm : it ∈ itemsOf cc s)
    (hr : g.rules.size ≤ it.rule) (hd : it.dot = (rhsOf g it.rule).length) :
    t.finalStates[it.rule - g.rules.size]? = some (s : Int) := by
  have h := hf.item s it hm
  unfold itemOk at h
  simp only [Bool.and_eq_true] at h
  have h := h.2
  unfold finOk at h
  have hn : ¬ it.rule < g.rules.size := by omega
  simpa [hn, hd] using h

/-! ### FIRST_k -/

/-- the set of a single symbol inside `firstSeq` -/
def symFirst (g : Grammar) (first : Array (List Str)) (s : Nat) : List Str :=
  if s < g.nTerms then [[s]] else first.getD s []

mutual
theorem derives_firstK :
    ∀ {X : Nat} {u : Str}, Derives g X u → u.take k ∈ symFirst g cc.first X
  | _, _, .term a ha => by
    unfold symFirst
    rw [if_pos ha]
    have := hf.kpos
    rw [List.take_of_length_le (by simpa using this)]
    exact List.mem_singleton.mpr rfl
  | _, _, .rule r w hm hs => by
    have hge := ((wfFacts hf.wf).rules r hm).1
    unfold symFirst
    rw [if_neg (by omega)]
    exact hf.firstC r hm _ (derivesSeq_firstK hs)
theorem derivesSeq_firstK :
    ∀ {α : List Nat} {u : Str}, DerivesSeq g α u → u.take k ∈ firstSeq g k cc.first α
  | _, _, .nil => by simp [firstSeq]
  | _, _, .cons X α u v hX hα => by
    rw [firstSeq]
    exact cat_take (derives_firstK hX) (derivesSeq_firstK hα)
end

/-- the lookahead string seen before the symbol after the dot, when the rest of the rule derives
`u` and `y` (in the item's set) follows -/
theorem contrib_mem (it : KItem) {u y : Str}
    (hd : DerivesSeq g ((rhsOf g it.rule).drop (it.dot + 1)) u) (hy : y ∈ it.la) :
    (u ++ y).take k ∈ contrib g k cc it := by
  unfold contrib
  exact cat_mem (derivesSeq_firstK hf hd) hy

end facts

end TmVerif.LRCompleteK
