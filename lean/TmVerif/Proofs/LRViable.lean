/-
Helper lemmas for C01 error position, part 1: unpacking of `viableOk`, productive nonterminals,
and the semantic notion "item valid for the consumed word" with its three steps (start, goto,
closure) and the conclusion that the consumed word is a prefix of a word of the language.
-/
import TmVerif.Model.LRViable
import TmVerif.Proofs.LRCompleteAccept
namespace TmVerif.LRViable
open TmVerif.LR TmVerif.CFG TmVerif.LRSound TmVerif.LRRef
open TmVerif.LRComplete (rhsOf_rule rhsOf_input rule_index)

/-! ### (P) productive -/

theorem seq_prod {g : Grammar} : ∀ (α : List Nat), (∀ s ∈ α, ∃ w, Derives g s w) →
    ∃ u, DerivesSeq g α u
  | [], _ => ⟨[], .nil⟩
  | X :: α, h => by
    obtain ⟨w, hw⟩ := h X (by simp)
    obtain ⟨u, hu⟩ := seq_prod α (fun s hs => h s (by simp [hs]))
    exact ⟨w ++ u, .cons X α w u hw hu⟩

theorem hasProdRule_sound {g : Grammar} {pre : List Nat} {X : Nat}
    (h : hasProdRule g pre X = true) (hpre : ∀ Y ∈ pre, ∃ w, Derives g Y w) :
    ∃ w, Derives g X w := by
  unfold hasProdRule at h
  rw [List.any_eq_true] at h
  obtain ⟨r, hr, h⟩ := h
  simp only [Bool.and_eq_true, beq_iff_eq, List.all_eq_true, Bool.or_eq_true,
    decide_eq_true_eq] at h
  obtain ⟨hl, hall⟩ := h
  obtain ⟨u, hu⟩ := seq_prod (g := g) r.rhs (by
    intro s hs
    rcases hall s hs with h1 | h1
    · exact ⟨[s], .term s h1⟩
    · exact hpre s (by simpa using h1))
  exact ⟨u, hl ▸ Derives.rule r u hr hu⟩

theorem prodFrom_sound {g : Grammar} : ∀ (order pre : List Nat), prodFrom g pre order = true →
    (∀ Y ∈ pre, ∃ w, Derives g Y w) → ∀ X ∈ order, ∃ w, Derives g X w
  | [], _, _, _, X, hX => by cases hX
  | Y :: rest, pre, h, hpre, X, hX => by
    rw [prodFrom, Bool.and_eq_true] at h
    have hY := hasProdRule_sound h.1 hpre
    rcases List.mem_cons.mp hX with e | e
    · subst e; exact hY
    · refine prodFrom_sound rest (Y :: pre) h.2 ?_ X e
      intro Z hZ
      rcases List.mem_cons.mp hZ with e' | e'
      · subst e'; exact hY
      · exact hpre Z e'

/-- every nonterminal of a grammar with a productivity witness derives a terminal string -/
theorem productive_nt {g : Grammar} {order : List Nat} (h : productiveOk g order = true)
    {X : Nat} (h1 : g.nTerms ≤ X) (h2 : X < g.nSyms) : ∃ w, Derives g X w := by
  unfold productiveOk at h
  rw [Bool.and_eq_true, List.all_eq_true] at h
  have hm := h.2 (X - g.nTerms) (List.mem_range.mpr (by omega))
  have e : g.nTerms + (X - g.nTerms) = X := by omega
  rw [e] at hm
  exact prodFrom_sound order [] h.1 (fun _ h => by cases h) X (by simpa using hm)

theorem productive_sym {g : Grammar} {order : List Nat} (h : productiveOk g order = true)
    {X : Nat} (h2 : X < g.nSyms) : ∃ w, Derives g X w := by
  rcases Nat.lt_or_ge X g.nTerms with h1 | h1
  · exact ⟨[X], .term X h1⟩
  · exact productive_nt h h1 h2

/-- the symbols of a (possibly augmented) right-hand side are symbols of the grammar -/
theorem rhsOf_syms {g : Grammar} (hwf : WfFacts g) (r : Nat) : ∀ s ∈ rhsOf g r, s < g.nSyms := by
  intro s hs
  unfold rhsOf at hs
  split at hs
  · rename_i hlt
    rw [Array.getElem?_eq_getElem hlt] at hs
    simp only [Option.map_some, Option.getD_some] at hs
    exact ((hwf.rules g.rules[r] (by simp)).2.2 s hs).2
  · split at hs
    · rename_i inp hinp
      have hm := (hwf.inputs inp (by
        rw [Array.mem_toList_iff]; exact Array.mem_of_getElem? hinp)).2
      have := hwf.nTermsPos
      have := hwf.le
      split at hs
      · simp only [List.mem_cons, List.not_mem_nil, or_false] at hs
        rcases hs with e | e <;> omega
      · simp only [List.mem_cons, List.not_mem_nil, or_false] at hs
        omega
    · cases hs

theorem productive_seq {g : Grammar} {order : List Nat} (h : productiveOk g order = true)
    (α : List Nat) (hα : ∀ s ∈ α, s < g.nSyms) : ∃ u, DerivesSeq g α u :=
  seq_prod α (fun s hs => productive_sym h (hα s hs))

/-! ### unpacking the checker -/

structure ViableFacts (g : Grammar) (t : Tables) (vc : VCert) : Prop where
  wf : g.wf = true
  prod : productiveOk g vc.order = true
  entry : ∀ s, s < g.inputs.size →
    (g.rules.size + s, 0) ∈ itemsOf vc s ∧ ∀ it ∈ itemsOf vc s, it.2 = 0
  just : ∀ s, justFrom g s [] (itemsOf vc s) = true
  edges : ∀ p X q, (p, X, q) ∈ edges t → relevant g vc p X = true → kernelOk g vc p X q = true
  red : ∀ s, s < t.nStates → reduceOk g t vc s = true

theorem viableFacts {g : Grammar} {t : Tables} {vc : VCert} (h : viableOk g t vc = true) :
    ViableFacts g t vc := by
  unfold viableOk at h
  simp only [Bool.and_eq_true, List.all_eq_true, List.mem_range] at h
  obtain ⟨⟨⟨⟨⟨h1, h2⟩, h3⟩, h4⟩, h5⟩, h6⟩ := h
  refine ⟨h1, h2, ?_, ?_, ?_, h6⟩
  · intro s hs
    unfold entryOk at h3
    rw [List.all_eq_true] at h3
    have := h3 s (List.mem_range.mpr hs)
    simp only [Bool.and_eq_true, List.contains_iff_mem, List.all_eq_true, beq_iff_eq] at this
    exact this
  · intro s
    rcases Nat.lt_or_ge s vc.items.size with h | h
    · exact h4 s h
    · unfold itemsOf
      rw [Array.getD_eq_getD_getElem?, Array.getElem?_eq_none h]
      rfl
  · intro p X q hm hrel
    unfold edgesOk at h5
    rw [List.all_eq_true] at h5
    have := h5 (p, X, q) hm
    simp only [hrel, Bool.not_true, Bool.false_or] at this
    exact this

theorem kernelOk_elim {g : Grammar} {vc : VCert} {p X : Nat} {q : Int}
    (h : kernelOk g vc p X q = true) :
    0 ≤ q ∧ itemsOf vc q.toNat ≠ [] ∧ ∀ it ∈ itemsOf vc q.toNat, it.2 ≠ 0 →
      (rhsOf g it.1)[it.2 - 1]? = some X ∧ (it.1, it.2 - 1) ∈ itemsOf vc p := by
  unfold kernelOk at h
  simp only [Bool.and_eq_true, decide_eq_true_eq, Bool.not_eq_true', List.isEmpty_eq_false_iff,
    List.all_eq_true, Bool.or_eq_true, beq_iff_eq, List.contains_iff_mem] at h
  refine ⟨h.1.1, h.1.2, ?_⟩
  intro it hm hd
  rcases h.2 it hm with h' | h'
  · exact absurd h' hd
  · exact h'

/-- (J): an item with dot 0 of a grammar rule has an item asking for its left-hand side -/
theorem justFrom_mem {g : Grammar} {s : Nat} : ∀ (l pre : List Item),
    justFrom g s pre l = true → ∀ it ∈ l, it.2 = 0 → ∀ rule, g.rules[it.1]? = some rule →
    ∃ p, (p ∈ pre ∨ p ∈ l) ∧ symAfterDot g p = some rule.lhs
  | [], _, _, it, hm, _, _, _ => by cases hm
  | x :: rest, pre, h, it, hm, hd, rule, hr => by
    rw [justFrom, Bool.and_eq_true] at h
    rcases List.mem_cons.mp hm with e | e
    · subst e
      have h1 := h.1
      simp only [hd, bne_self_eq_false, Bool.false_or, hr, List.any_eq_true, beq_iff_eq] at h1
      obtain ⟨p, hp, hs⟩ := h1
      exact ⟨p, Or.inl hp, hs⟩
    · obtain ⟨p, hp, hs⟩ := justFrom_mem rest (x :: pre) h.2 it e hd rule hr
      refine ⟨p, ?_, hs⟩
      rcases hp with hp | hp
      · rcases List.mem_cons.mp hp with e' | e'
        · exact Or.inr (e' ▸ List.mem_cons_self)
        · exact Or.inl e'
      · exact Or.inr (List.mem_cons_of_mem _ hp)

/-! ### valid items -/

/-- the words of input `i` (followed by EOI for an input with the end-of-input requirement) -/
def Lang (g : Grammar) (i : Nat) (x : List Nat) : Prop :=
  DerivesSeq g (rhsOf g (g.rules.size + i)) x

/-- `[A → α . β]` is valid for the consumed word `w`: `w = u · (yield of α)` and every word of `A`
in the context `u` can be completed to a word of the language -/
def Valid (g : Grammar) (i : Nat) (it : Item) (w : List Nat) : Prop :=
  ∃ u ua, w = u ++ ua ∧ DerivesSeq g ((rhsOf g it.1).take it.2) ua ∧
    ∀ v, DerivesSeq g (rhsOf g it.1) v → ∃ z, Lang g i (u ++ v ++ z)

theorem valid_start (g : Grammar) (i : Nat) : Valid g i (g.rules.size + i, 0) [] :=
  ⟨[], [], rfl, .nil, fun v hv => ⟨[], by simpa [Lang] using hv⟩⟩

theorem valid_goto {g : Grammar} {i : Nat} {r d X : Nat} {w y : List Nat}
    (h : Valid g i (r, d) w) (hx : (rhsOf g r)[d]? = some X) (hy : Derives g X y) :
    Valid g i (r, d + 1) (w ++ y) := by
  obtain ⟨u, ua, hw, hua, hctx⟩ := h
  refine ⟨u, ua ++ y, by rw [hw, List.append_assoc], ?_, hctx⟩
  show DerivesSeq g ((rhsOf g r).take (d + 1)) (ua ++ y)
  rw [List.take_add_one, hx]
  exact derivesSeq_append _ _ _ _ hua (derivesSeq_single hy)

theorem split_at_dot {l : List Nat} {d X : Nat} (h : l[d]? = some X) :
    l = l.take d ++ X :: l.drop (d + 1) := by
  have hlt : d < l.length := by
    rcases Nat.lt_or_ge d l.length with h' | h'
    · exact h'
    · rw [List.getElem?_eq_none h'] at h; cases h
  rw [List.getElem?_eq_getElem hlt] at h
  injection h with h
  rw [← h, List.getElem_cons_drop hlt, List.take_append_drop]

theorem valid_clos {g : Grammar} {i : Nat} {order : List Nat} (hwf : WfFacts g)
    (hp : productiveOk g order = true) {p : Item} {w : List Nat} (h : Valid g i p w)
    {r' : Nat} {rule : Rule} (hr : g.rules[r']? = some rule)
    (hx : symAfterDot g p = some rule.lhs) : Valid g i (r', 0) w := by
  obtain ⟨u, ua, hw, hua, hctx⟩ := h
  have hsplit := split_at_dot hx
  obtain ⟨ub, hub⟩ := productive_seq hp ((rhsOf g p.1).drop (p.2 + 1))
    (fun s hs => rhsOf_syms hwf p.1 s (List.mem_of_mem_drop hs))
  have hmem : rule ∈ g.rules.toList := by
    rw [Array.mem_toList_iff]; exact Array.mem_of_getElem? hr
  refine ⟨w, [], by simp, .nil, ?_⟩
  intro v hv
  rw [show rhsOf g (r', 0).1 = rule.rhs from rhsOf_rule hr] at hv
  have hB : Derives g rule.lhs v := Derives.rule rule v hmem hv
  have hA : DerivesSeq g (rhsOf g p.1) (ua ++ (v ++ ub)) := by
    rw [hsplit]
    exact derivesSeq_append _ _ _ _ hua (.cons _ _ _ _ hB hub)
  obtain ⟨z, hz⟩ := hctx _ hA
  refine ⟨ub ++ z, ?_⟩
  rw [hw]
  simpa [List.append_assoc] using hz

/-- the consumed word is a prefix of a word of the language -/
theorem valid_prefix {g : Grammar} {i : Nat} {order : List Nat} (hwf : WfFacts g)
    (hp : productiveOk g order = true) {p : Item} {w : List Nat} (h : Valid g i p w) :
    ∃ z, Lang g i (w ++ z) := by
  obtain ⟨u, ua, hw, hua, hctx⟩ := h
  obtain ⟨ub, hub⟩ := productive_seq hp ((rhsOf g p.1).drop p.2)
    (fun s hs => rhsOf_syms hwf p.1 s (List.mem_of_mem_drop hs))
  have hA : DerivesSeq g (rhsOf g p.1) (ua ++ ub) := by
    have := derivesSeq_append _ _ _ _ hua hub
    rwa [List.take_append_drop] at this
  obtain ⟨z, hz⟩ := hctx _ hA
  refine ⟨ub ++ z, ?_⟩
  rw [hw]
  simpa [List.append_assoc] using hz

/-- all items of a state are valid once its kernel items are (and the start item, in an entry
state, for the empty word) -/
theorem justFrom_valid {g : Grammar} {i s : Nat} {order : List Nat} (hwf : WfFacts g)
    (hp : productiveOk g order = true) {w : List Nat}
    (hentry : s < g.inputs.size → s = i ∧ w = []) : ∀ (l pre : List Item),
    justFrom g s pre l = true → (∀ p ∈ pre, Valid g i p w) →
    (∀ it ∈ l, it.2 ≠ 0 → Valid g i it w) → ∀ it ∈ l, Valid g i it w
  | [], _, _, _, _, it, hm => by cases hm
  | x :: rest, pre, h, hpre, hker, it, hm => by
    rw [justFrom, Bool.and_eq_true] at h
    have hx : Valid g i x w := by
      by_cases hd : x.2 = 0
      · have h1 := h.1
        simp only [hd, bne_self_eq_false, Bool.false_or] at h1
        split at h1
        · rename_i rule hr
          rw [List.any_eq_true] at h1
          obtain ⟨p, hpm, hs⟩ := h1
          have := valid_clos hwf hp (hpre p hpm) hr (by simpa using hs)
          rwa [← hd] at this
        · simp only [Bool.and_eq_true, beq_iff_eq, decide_eq_true_eq] at h1
          obtain ⟨e1, e2⟩ := hentry h1.2
          have : x = (g.rules.size + i, 0) := by
            rw [← e1, ← h1.1, ← hd]
          rw [this, e2]
          exact valid_start g i
      · exact hker x List.mem_cons_self hd
    rcases List.mem_cons.mp hm with e | e
    · rw [e]; exact hx
    · refine justFrom_valid hwf hp hentry rest (x :: pre) h.2 ?_ ?_ it e
      · intro p hpm
        rcases List.mem_cons.mp hpm with e' | e'
        · rw [e']; exact hx
        · exact hpre p e'
      · intro it' hm' hd'
        exact hker it' (List.mem_cons_of_mem _ hm') hd'

end TmVerif.LRViable
