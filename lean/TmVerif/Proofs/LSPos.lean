import TmVerif.Model.LS
/-!
C23 — lemmas about the position functions of the language server model (`Model/LS.lean`):
UTF-8 decoding on prefixes, the line walk, the column walk, `lineCol`.
-/
namespace TmVerif.LS

/-! ### decoding -/

theorem contBytes_take (n : Nat) : ∀ (lo hi : Nat) (t : Bytes) (j : Nat), n ≤ j →
    contBytes n lo hi (t.take j) = contBytes n lo hi t := by
  induction n with
  | zero => intro lo hi t j _; simp [contBytes]
  | succ n ih =>
    intro lo hi t j hj
    obtain ⟨j, rfl⟩ : ∃ j', j = j' + 1 := ⟨j - 1, by omega⟩
    cases t with
    | nil => simp [contBytes]
    | cons b t =>
      simp only [List.take_succ_cons, contBytes]
      rw [ih 0x80 0xBF t j (by omega)]

theorem contBytes_take_none (n : Nat) : ∀ (lo hi : Nat) (t : Bytes) (j : Nat),
    contBytes n lo hi t = none → contBytes n lo hi (t.take j) = none := by
  induction n with
  | zero => intro lo hi t j h; simp [contBytes] at h
  | succ n ih =>
    intro lo hi t j h
    cases t with
    | nil => simp [contBytes]
    | cons b t =>
      cases j with
      | zero => simp [contBytes]
      | succ j =>
        simp only [List.take_succ_cons, contBytes] at h ⊢
        split
        · rename_i hb
          rw [if_pos hb] at h
          cases hc : contBytes n 0x80 0xBF t with
          | none => rw [ih _ _ t j hc]
          | some v => rw [hc] at h; exact nomatch h
        · rfl

/-- Decoding looks at no byte beyond the rune it returns. -/
theorem decodeRune_take (s : Bytes) (k : Nat) (hk : (decodeRune s).2 ≤ k) (hk0 : 0 < k) :
    decodeRune (s.take k) = decodeRune s := by
  cases s with
  | nil => simp
  | cons b t =>
    obtain ⟨j, rfl⟩ : ∃ j, k = j + 1 := ⟨k - 1, by omega⟩
    simp only [List.take_succ_cons]
    simp only [decodeRune] at hk ⊢
    split
    · rfl
    · rfl
    · rename_i n lo hi hl
      rw [hl] at hk
      simp only at hk
      cases hc : contBytes n lo hi t with
      | none => rw [contBytes_take_none n lo hi t j hc]
      | some v =>
        rw [hc] at hk
        simp only at hk
        rw [contBytes_take n lo hi t j (by omega), hc]

theorem decodeRune_width_le (s : Bytes) : (decodeRune s).2 ≤ s.length := by
  cases s with
  | nil => simp [decodeRune]
  | cons b t =>
    simp only [decodeRune]
    split
    · simp
    · simp
    · rename_i n lo hi _
      cases hc : contBytes n lo hi t with
      | none => simp
      | some v =>
        simp only [List.length_cons]
        have : ∀ (n lo hi : Nat) (t : Bytes) (v : Nat), contBytes n lo hi t = some v → n ≤ t.length := by
          intro n
          induction n with
          | zero => intros; omega
          | succ n ih =>
            intro lo hi t v h
            cases t with
            | nil => simp [contBytes] at h
            | cons b t =>
              simp only [contBytes] at h
              split at h
              · cases hc : contBytes n 0x80 0xBF t with
                | none => rw [hc] at h; exact nomatch h
                | some w => have := ih _ _ _ _ hc; simp only [List.length_cons]; omega
              · exact nomatch h
        have := this n lo hi t v hc
        omega

theorem decodeRune_width_zero (s : Bytes) : (decodeRune s).2 = 0 ↔ s = [] := by
  cases s with
  | nil => simp [decodeRune]
  | cons b t =>
    have := decodeRune_width_pos b t
    constructor
    · intro h; omega
    · intro h; exact nomatch h

theorem contBytes_ge (n : Nat) : ∀ (lo hi : Nat) (t : Bytes) (v : Nat), 0x80 ≤ lo →
    contBytes n lo hi t = some v → ∀ x ∈ t.take n, 0x80 ≤ x := by
  induction n with
  | zero => intro lo hi t v _ _ x hx; simp at hx
  | succ n ih =>
    intro lo hi t v hlo h x hx
    cases t with
    | nil => simp at hx
    | cons b t =>
      simp only [contBytes] at h
      split at h
      · rename_i hb
        cases hc : contBytes n 0x80 0xBF t with
        | none => rw [hc] at h; exact nomatch h
        | some w =>
          simp only [List.take_succ_cons, List.mem_cons] at hx
          rcases hx with rfl | hx
          · omega
          · exact ih _ _ _ _ (by omega) hc x hx
      · exact nomatch h

theorem lead_multi_ge (b n lo hi : Nat) (h : lead b = .multi n lo hi) : 0x80 ≤ lo ∧ 0x80 ≤ b := by
  unfold lead at h
  repeat' split at h
  all_goals first | (simp at h; done) | (simp at h; omega)

/-- A rune other than `'\n'` contains no byte `'\n'`. -/
theorem decodeRune_no_nl (s : Bytes) (h : (decodeRune s).1 ≠ 10) :
    ∀ x ∈ s.take (decodeRune s).2, x ≠ 10 := by
  cases s with
  | nil => simp
  | cons b t =>
    simp only [decodeRune] at h ⊢
    split
    · rename_i hl
      rw [hl] at h
      simp only at h
      intro x hx
      simp at hx
      omega
    · rename_i hl
      intro x hx
      simp at hx
      subst hx
      unfold lead at hl
      intro hb
      subst hb
      simp at hl
    · rename_i n lo hi hl
      have ⟨hlo, hb⟩ := lead_multi_ge b n lo hi hl
      cases hc : contBytes n lo hi t with
      | none =>
        intro x hx
        simp at hx
        omega
      | some v =>
        intro x hx
        simp only [List.take_succ_cons, List.mem_cons] at hx
        rcases hx with rfl | hx
        · omega
        · have := contBytes_ge n lo hi t v hlo hc x hx
          omega

theorem utf16Len_nil : utf16Len [] = 0 := by
  rw [utf16Len]

theorem utf16Len_cons (b : Nat) (t : Bytes) :
    utf16Len (b :: t) = units (decodeRune (b :: t)).1 + utf16Len ((b :: t).drop (decodeRune (b :: t)).2) := by
  rw [utf16Len]

theorem utf16Len_ne_nil (s : Bytes) (h : s ≠ []) :
    utf16Len s = units (decodeRune s).1 + utf16Len (s.drop (decodeRune s).2) := by
  cases s with
  | nil => exact absurd rfl h
  | cons b t => exact utf16Len_cons b t

/-! ### the line walk -/

def nlCount : Bytes → Nat
  | [] => 0
  | b :: t => (if b = 10 then 1 else 0) + nlCount t

/-- `pre` is empty or ends with `'\n'`: the next byte starts a line. -/
def AtLineStart (pre : Bytes) : Prop := pre = [] ∨ pre.getLast? = some 10

theorem lineWalk_nil (l ret : Nat) : lineWalk (l + 1) [] ret = none := by
  simp [lineWalk, indexNL]

theorem lineWalk_cons (l : Nat) (b : Nat) (t : Bytes) (ret : Nat) :
    lineWalk (l + 1) (b :: t) ret =
      if b = 10 then lineWalk l t (ret + 1) else lineWalk (l + 1) t (ret + 1) := by
  by_cases hb : b = 10
  · simp [lineWalk, indexNL, hb]
  · cases h : indexNL t with
    | none => simp [lineWalk, indexNL, hb, h]
    | some nl =>
      simp only [lineWalk, indexNL, hb, h, if_false, List.drop_succ_cons]
      have : ret + (nl + 1) + 1 = ret + 1 + nl + 1 := by omega
      rw [this]

theorem AtLineStart_tail (b : Nat) (t : Bytes) (h : AtLineStart (b :: t)) (ht : t ≠ []) : AtLineStart t := by
  rcases h with h | h
  · exact nomatch h
  · right
    cases t with
    | nil => exact absurd rfl ht
    | cons c t' => simpa [List.getLast?_cons_cons] using h

theorem nlCount_pos_of_getLast (t : Bytes) (h : t.getLast? = some 10) : 1 ≤ nlCount t := by
  induction t with
  | nil => simp at h
  | cons b t ih =>
    cases t with
    | nil =>
      simp at h
      simp [nlCount, h]
    | cons c t' =>
      rw [List.getLast?_cons_cons] at h
      have := ih h
      simp only [nlCount] at this ⊢
      omega

/-- Forward: after a prefix `pre` that ends a line, the walk over `nlCount pre` lines stops right there. -/
theorem lineWalk_pre (pre : Bytes) : ∀ (c : Bytes) (ret : Nat), AtLineStart pre →
    lineWalk (nlCount pre) (pre ++ c) ret = some (ret + pre.length, c) := by
  induction pre with
  | nil => intro c ret _; simp [nlCount, lineWalk]
  | cons b t ih =>
    intro c ret h
    by_cases hb : b = 10
    · subst hb
      have e : nlCount (10 :: t) = nlCount t + 1 := by simp [nlCount]; omega
      rw [e, List.cons_append, lineWalk_cons, if_pos rfl]
      by_cases ht : t = []
      · subst ht; simp [nlCount, lineWalk]
      · rw [ih c (ret + 1) (AtLineStart_tail _ _ h ht)]
        simp only [List.length_cons]
        congr 2
        omega
    · have ht : t ≠ [] := by
        intro ht
        subst ht
        rcases h with h | h
        · exact nomatch h
        · simp at h; exact hb h
      have hs := AtLineStart_tail _ _ h ht
      have hpos : 1 ≤ nlCount t := by
        rcases hs with hs | hs
        · exact absurd hs ht
        · exact nlCount_pos_of_getLast t hs
      have e : nlCount (b :: t) = (nlCount t - 1) + 1 := by simp [nlCount, hb]; omega
      rw [e, List.cons_append, lineWalk_cons, if_neg hb]
      have e2 : nlCount t - 1 + 1 = nlCount t := by omega
      rw [e2, ih c (ret + 1) hs]
      simp only [List.length_cons]
      congr 2
      omega

theorem AtLineStart_cons_nl_nil : AtLineStart [10] := Or.inr rfl

theorem AtLineStart_cons (b : Nat) (t : Bytes) (ht : t ≠ []) (h : AtLineStart t) : AtLineStart (b :: t) := by
  rcases h with h | h
  · exact absurd h ht
  · right
    cases t with
    | nil => exact absurd rfl ht
    | cons c t' => rw [List.getLast?_cons_cons]; exact h

/-- Backward: a successful walk stops after a prefix that ends a line and has `l` newlines. -/
theorem lineWalk_inv (c : Bytes) : ∀ (l ret ret' : Nat) (rest : Bytes),
    lineWalk l c ret = some (ret', rest) →
    ∃ pre, c = pre ++ rest ∧ ret' = ret + pre.length ∧ nlCount pre = l ∧ AtLineStart pre := by
  induction c with
  | nil =>
    intro l ret ret' rest h
    cases l with
    | zero =>
      simp [lineWalk] at h
      exact ⟨[], by simp [h.2], by simp [h.1], rfl, Or.inl rfl⟩
    | succ l => rw [lineWalk_nil] at h; exact nomatch h
  | cons b t ih =>
    intro l ret ret' rest h
    cases l with
    | zero =>
      simp [lineWalk] at h
      exact ⟨[], by simp [h.2], by simp [h.1], rfl, Or.inl rfl⟩
    | succ l =>
      rw [lineWalk_cons] at h
      by_cases hb : b = 10
      · rw [if_pos hb] at h
        obtain ⟨pre, h1, h2, h3, h4⟩ := ih l (ret + 1) ret' rest h
        refine ⟨b :: pre, by simp [h1], by simp [h2]; omega, by simp [nlCount, hb, h3]; omega, ?_⟩
        by_cases hp : pre = []
        · subst hp; subst hb; exact AtLineStart_cons_nl_nil
        · exact AtLineStart_cons b pre hp h4
      · rw [if_neg hb] at h
        obtain ⟨pre, h1, h2, h3, h4⟩ := ih (l + 1) (ret + 1) ret' rest h
        have hp : pre ≠ [] := by
          intro hp; subst hp; simp [nlCount] at h3
        refine ⟨b :: pre, by simp [h1], by simp [h2]; omega, by simp [nlCount, hb, h3], ?_⟩
        exact AtLineStart_cons b pre hp h4

/-- The walk fails exactly when the content has fewer than `l` newlines. -/
theorem lineWalk_none_iff (c : Bytes) : ∀ (l ret : Nat), lineWalk l c ret = none ↔ nlCount c < l := by
  induction c with
  | nil =>
    intro l ret
    cases l with
    | zero => simp [lineWalk, nlCount]
    | succ l => simp [lineWalk_nil, nlCount]
  | cons b t ih =>
    intro l ret
    cases l with
    | zero => simp [lineWalk]
    | succ l =>
      rw [lineWalk_cons]
      by_cases hb : b = 10
      · rw [if_pos hb, ih]; simp [nlCount, hb]; omega
      · rw [if_neg hb, ih]; simp [nlCount, hb]

/-! ### the column walk -/

/-- `Bnd rest k u`: the first `k` bytes of `rest` are whole runes (decoded in the context of `rest`), none of
them `'\n'`, together `u` UTF-16 code units. -/
inductive Bnd : Bytes → Nat → Nat → Prop
  | zero (rest : Bytes) : Bnd rest 0 0
  | step (rest : Bytes) (k u : Nat) : rest ≠ [] → (decodeRune rest).1 ≠ 10 →
      Bnd (rest.drop (decodeRune rest).2) k u →
      Bnd rest ((decodeRune rest).2 + k) (units (decodeRune rest).1 + u)

theorem walkCols_zero (rest : Bytes) (ret : Nat) : walkCols 0 rest ret = .ok ret := by
  rw [walkCols.eq_def]

theorem walkCols_succ (col : Nat) (rest : Bytes) (ret : Nat) :
    walkCols (col + 1) rest ret =
      if (decodeRune rest).1 = 10 ∨ (decodeRune rest).2 = 0 then .error .badCol
      else if (decodeRune rest).1 > 0xffff then
        match col with
        | 0 => .error .midPair
        | col' + 1 => walkCols col' (rest.drop (decodeRune rest).2) (ret + (decodeRune rest).2)
      else walkCols col (rest.drop (decodeRune rest).2) (ret + (decodeRune rest).2) := by
  rw [walkCols.eq_def]
  rfl

/-- Walking over a boundary: the columns of the runes before it are consumed, the walk goes on behind it. -/
theorem walkCols_Bnd_add {rest : Bytes} {k u : Nat} (h : Bnd rest k u) :
    ∀ m ret, walkCols (u + m) rest ret = walkCols m (rest.drop k) (ret + k) := by
  induction h with
  | zero rest => intro m ret; simp
  | step rest k u hne hnl _ ih =>
    intro m ret
    have hw : (decodeRune rest).2 ≠ 0 := by
      intro h0; exact hne ((decodeRune_width_zero rest).1 h0)
    have hd : List.drop ((decodeRune rest).2 + k) rest = List.drop k (List.drop (decodeRune rest).2 rest) := by
      rw [List.drop_drop]
    have ha : ret + ((decodeRune rest).2 + k) = ret + (decodeRune rest).2 + k := by omega
    by_cases hr : (decodeRune rest).1 > 0xffff
    · have e : units (decodeRune rest).1 + u + m = (u + m + 1) + 1 := by simp [units, hr]; omega
      rw [e, walkCols_succ]
      simp only [hnl, hw, or_self, if_false, hr, if_true]
      rw [ih, hd, ha]
    · have e : units (decodeRune rest).1 + u + m = (u + m) + 1 := by simp [units, hr]; omega
      rw [e, walkCols_succ]
      simp only [hnl, hw, or_self, if_false, hr]
      rw [ih, hd, ha]

theorem walkCols_of_Bnd {rest : Bytes} {k u : Nat} (h : Bnd rest k u) :
    ∀ ret, walkCols u rest ret = .ok (ret + k) := by
  intro ret
  have := walkCols_Bnd_add h 0 ret
  rw [Nat.add_zero, walkCols_zero] at this
  exact this

theorem Bnd_of_walkCols (col : Nat) : ∀ (rest : Bytes) (ret x : Nat),
    walkCols col rest ret = .ok x → ∃ k, x = ret + k ∧ Bnd rest k col := by
  induction col using Nat.strongRecOn with
  | _ col ih =>
    intro rest ret x h
    cases col with
    | zero =>
      rw [walkCols_zero] at h
      cases h
      exact ⟨0, rfl, .zero rest⟩
    | succ col =>
      rw [walkCols_succ] at h
      split at h
      · exact nomatch h
      · rename_i hc
        have hnl : (decodeRune rest).1 ≠ 10 := fun e => hc (Or.inl e)
        have hne : rest ≠ [] := fun e => hc (Or.inr ((decodeRune_width_zero rest).2 e))
        split at h
        · rename_i hr
          cases col with
          | zero => exact nomatch h
          | succ col' =>
            simp only at h
            obtain ⟨k, hk, hb⟩ := ih col' (by omega) _ _ _ h
            refine ⟨(decodeRune rest).2 + k, by omega, ?_⟩
            have := Bnd.step rest k col' hne hnl hb
            have e : units (decodeRune rest).1 + col' = col' + 1 + 1 := by simp [units, hr]; omega
            rw [e] at this
            exact this
        · rename_i hr
          obtain ⟨k, hk, hb⟩ := ih col (by omega) _ _ _ h
          refine ⟨(decodeRune rest).2 + k, by omega, ?_⟩
          have := Bnd.step rest k col hne hnl hb
          have e : units (decodeRune rest).1 + col = col + 1 := by simp [units, hr]; omega
          rw [e] at this
          exact this

theorem Bnd_le_length {rest : Bytes} {k u : Nat} (h : Bnd rest k u) : k ≤ rest.length := by
  induction h with
  | zero rest => omega
  | step rest k u _ _ _ ih =>
    have := decodeRune_width_le rest
    simp only [List.length_drop] at ih
    omega

/-- The units of a boundary are the UTF-16 length of the text before it, decoded on its own. -/
theorem Bnd_units {rest : Bytes} {k u : Nat} (h : Bnd rest k u) : utf16Len (rest.take k) = u := by
  induction h with
  | zero rest => simp [utf16Len_nil]
  | step rest k u hne hnl hb ih =>
    have hpos : 0 < (decodeRune rest).2 := by
      have := (decodeRune_width_zero rest)
      rcases Nat.eq_zero_or_pos (decodeRune rest).2 with h0 | h0
      · exact absurd (this.1 h0) hne
      · exact h0
    have hle := decodeRune_width_le rest
    have hne' : rest.take ((decodeRune rest).2 + k) ≠ [] := by
      intro e
      have := congrArg List.length e
      simp only [List.length_take, List.length_nil] at this
      have : rest.length = 0 ∨ (decodeRune rest).2 + k = 0 := by omega
      rcases this with h | h
      · exact hne (List.eq_nil_of_length_eq_zero h)
      · omega
    rw [utf16Len_ne_nil _ hne', decodeRune_take rest _ (by omega) (by omega)]
    rw [List.drop_take]
    have : (decodeRune rest).2 + k - (decodeRune rest).2 = k := by omega
    rw [this, ih]

theorem Bnd_no_nl {rest : Bytes} {k u : Nat} (h : Bnd rest k u) : ∀ x ∈ rest.take k, x ≠ 10 := by
  induction h with
  | zero rest => intro x hx; simp at hx
  | step rest k u _ hnl _ ih =>
    intro x hx
    rw [List.take_add] at hx
    simp only [List.mem_append] at hx
    rcases hx with hx | hx
    · exact decodeRune_no_nl rest hnl x hx
    · exact ih x hx

/-- Boundaries are ordered: more bytes, at least as many units. -/
theorem Bnd_mono {rest : Bytes} {k u : Nat} (h : Bnd rest k u) :
    ∀ {k' u' : Nat}, Bnd rest k' u' → k ≤ k' → u ≤ u' := by
  induction h with
  | zero rest => intros; omega
  | step rest k u hne hnl hb ih =>
    intro k' u' h' hk
    cases h' with
    | zero =>
      have : 0 < (decodeRune rest).2 := by
        rcases Nat.eq_zero_or_pos (decodeRune rest).2 with h0 | h0
        · exact absurd ((decodeRune_width_zero rest).1 h0) hne
        · exact h0
      omega
    | step _ k2 u2 _ _ hb2 =>
      have := ih hb2 (by omega)
      omega

/-! ### `lineCol` -/

theorem lineColFrom_pre (pre : Bytes) : ∀ (line col : Nat) (x : Bytes) (n : Nat), AtLineStart pre →
    (pre = [] → col = 0) →
    lineColFrom line col (pre ++ x) (pre.length + n) = lineColFrom (line + nlCount pre) 0 x n := by
  induction pre with
  | nil => intro line col x n _ h; simp [nlCount, h rfl]
  | cons b t ih =>
    intro line col x n h _
    have e : (b :: t).length + n = (t.length + n) + 1 := by simp only [List.length_cons]; omega
    rw [List.cons_append, e, lineColFrom]
    by_cases hb : b = 10
    · rw [if_pos hb]
      by_cases ht : t = []
      · subst ht; simp [nlCount, hb]
      · rw [ih (line + 1) 0 x n (AtLineStart_tail _ _ h ht) (fun _ => rfl)]
        simp only [nlCount, hb, if_true]
        congr 1
        omega
    · rw [if_neg hb]
      have ht : t ≠ [] := by
        intro ht
        subst ht
        rcases h with h | h
        · exact nomatch h
        · simp at h; exact hb h
      rw [ih line (col + 1) x n (AtLineStart_tail _ _ h ht) (fun e => absurd e ht)]
      simp [nlCount, hb]

theorem lineColFrom_seg (seg : Bytes) : ∀ (line col : Nat) (post : Bytes), (∀ x ∈ seg, x ≠ 10) →
    lineColFrom line col (seg ++ post) seg.length = (line, col + seg.length) := by
  induction seg with
  | nil => intro line col post _; cases post <;> simp [lineColFrom]
  | cons b t ih =>
    intro line col post h
    have hb : b ≠ 10 := h b (by simp)
    simp only [List.cons_append, List.length_cons, lineColFrom, if_neg hb]
    rw [ih line (col + 1) post (fun x hx => h x (by simp [hx]))]
    congr 1
    omega

/-- `lineCol` at the end of `pre ++ seg` when `pre` ends a line and `seg` has no newline. -/
theorem lineCol_decomp (pre seg post : Bytes) (hp : AtLineStart pre) (hs : ∀ x ∈ seg, x ≠ 10) :
    lineCol (pre ++ seg ++ post) (pre.length + seg.length) = (nlCount pre, seg.length) := by
  unfold lineCol
  rw [List.append_assoc, lineColFrom_pre pre 0 0 (seg ++ post) seg.length hp (fun _ => rfl)]
  rw [lineColFrom_seg seg _ 0 post hs]
  simp

theorem slice_decomp (pre seg post : Bytes) :
    slice (pre ++ seg ++ post) pre.length (pre.length + seg.length) = seg := by
  unfold slice
  rw [List.append_assoc, List.drop_left]
  have : pre.length + seg.length - pre.length = seg.length := by omega
  rw [this, List.take_left]

/-! ### rune boundaries -/

def NoNL (s : Bytes) : Prop := ∀ x ∈ s, x ≠ 10

/-- `off` is a rune boundary of `c`: the content splits into `pre` (empty or ending with a newline), a run
`seg` of whole runes none of which is a newline (decoded in the context of what follows), and the rest. -/
def RuneBoundary (c : Bytes) (off : Nat) : Prop :=
  ∃ pre seg post u, c = pre ++ seg ++ post ∧ off = pre.length + seg.length ∧ AtLineStart pre ∧
    Bnd (seg ++ post) seg.length u

theorem Bnd_seg_noNL {seg post : Bytes} {u : Nat} (h : Bnd (seg ++ post) seg.length u) : NoNL seg := by
  have := Bnd_no_nl h
  rw [List.take_left] at this
  exact this

theorem Bnd_seg_units {seg post : Bytes} {u : Nat} (h : Bnd (seg ++ post) seg.length u) :
    utf16Len seg = u := by
  have := Bnd_units h
  rw [List.take_left] at this
  exact this

theorem utf16Pos_decomp (pre seg post : Bytes) (hp : AtLineStart pre) (hs : NoNL seg) :
    utf16Pos (pre ++ seg ++ post) (pre.length + seg.length) = (nlCount pre, utf16Len seg) := by
  unfold utf16Pos
  rw [lineCol_decomp pre seg post hp hs]
  simp only
  have : pre.length + seg.length - seg.length = pre.length := by omega
  rw [this, slice_decomp]

/-- Every offset inside the content has a line decomposition. -/
theorem decomp_exists (c : Bytes) : ∀ off, off ≤ c.length →
    ∃ pre seg post, c = pre ++ seg ++ post ∧ off = pre.length + seg.length ∧ AtLineStart pre ∧ NoNL seg := by
  intro off
  induction off with
  | zero => intro _; exact ⟨[], [], c, by simp, by simp, Or.inl rfl, fun x hx => by simp at hx⟩
  | succ off ih =>
    intro h
    obtain ⟨pre, seg, post, hc, ho, hp, hs⟩ := ih (by omega)
    cases post with
    | nil =>
      have := congrArg List.length hc
      simp at this
      omega
    | cons b post =>
      by_cases hb : b = 10
      · refine ⟨pre ++ seg ++ [b], [], post, by simp [hc], by simp; omega, Or.inr ?_, fun x hx => by simp at hx⟩
        simp [hb]
      · refine ⟨pre, seg ++ [b], post, by simp [hc], by simp; omega, hp, ?_⟩
        intro x hx
        simp only [List.mem_append, List.mem_singleton] at hx
        rcases hx with hx | hx
        · exact hs x hx
        · rw [hx]; exact hb

end TmVerif.LS
