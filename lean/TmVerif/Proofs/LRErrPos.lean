/-
Helper lemmas for C01 error position, part 3: what the loop returns when it stops with a syntax
error (the offsets of the first unshifted token, in a configuration satisfying the invariant);
the run depends only on the tokens up to the first unshifted one (`Agree`); results other than
`fuel` do not depend on the fuel.
-/
import TmVerif.Proofs.LRViableInv
namespace TmVerif.LRViable
open TmVerif.LR TmVerif.CFG TmVerif.LRSound TmVerif.LRRef

/-! ### `apply`/`step` ending in a syntax error -/

theorem apply_reduce_err {t : Tables} {inp : Input} {c1 c' : Cfg} {r : Int} {a b : Nat}
    (h : apply t inp c1 (.reduce r) = .done (.syntaxError a b) c') :
    ∃ (c2 : Cfg) (stk : List Entry) (st : Int) (off endo : Nat),
      (c2 = c1 ∨ c2 = (c1.fetch inp).1) ∧
      c' = { c2 with stack := stk, state := st, evs := .reduce r off endo :: c2.evs } := by
  rw [apply] at h
  split at h
  · rename_i ln lhs hln hlhs
    simp only at h
    split at h
    · cases h
    · generalize hP : (if ln.toNat = 0 then ((Cfg.fetch inp c1).fst, (Cfg.fetch inp c1).snd.off, (Cfg.fetch inp c1).snd.off)
            else
              (c1, (Option.map (fun x => x.off) (List.take ln.toNat c1.stack).getLast?).getD 0,
                (Option.map (fun x => x.endo) (List.take ln.toNat c1.stack).head?).getD 0)) = P at h
      have hP1 : P.1 = c1 ∨ P.1 = (c1.fetch inp).1 := by
        rw [← hP]; split
        · right; rfl
        · left; rfl
      split at h
      · cases h
      · rename_i top rest hrest
        split at h
        · cases h
        · rename_i q hq
          split at h
          · injection h with _ h
            exact ⟨P.1, _, _, P.2.1, P.2.2, hP1, h.symm⟩
          · cases h
  · cases h

theorem fetch_evs (inp : Input) (c : Cfg) : (c.fetch inp).1.evs = c.evs := by
  unfold Cfg.fetch; split <;> rfl

section err
variable {g : Grammar} {t : Tables} {cert : Cert} {i : Nat} {inp : Input}
  (hc : CertFacts g t cert) (htok : TokOk t inp) (hi : i < g.inputs.size)
include hc htok hi

/-- a step that stops with a syntax error has shifted nothing and leaves the next token alone -/
theorem step_err_spec (c c' : Cfg) (a b : Nat) (h : Inv g t i inp c)
    (hs : step t inp c = .done (.syntaxError a b) c') :
    nshift c'.evs = nshift c.evs ∧ NextOk inp c' (nshift c.evs) := by
  obtain ⟨s, syms, hstk, hst, hn⟩ := h
  have hlt := hstk.lt hc hi
  have h0 : 0 < t.nTerms := by have := (wfFacts hc.wf).nTermsPos; have := hc.nTerms; omega
  unfold step at hs
  cases hd : decode t inp c with
  | none => rw [hd] at hs; cases hs
  | some p =>
    obtain ⟨c1, act⟩ := p
    rw [hd] at hs
    simp only at hs
    obtain ⟨_, _, e3, hn1, hact⟩ := decode_spec hc htok h0 c c1 act s _ hlt hst hn hd
    cases act with
    | error =>
      rw [apply] at hs
      injection hs with _ hs
      subst hs
      exact ⟨by rw [e3], hn1⟩
    | shift q =>
      rw [apply] at hs
      split at hs <;> cases hs
    | reduce r =>
      obtain ⟨c2, stk, st, off, endo, h2, h3⟩ := apply_reduce_err hs
      have hc2 : c2.evs = c.evs ∧ NextOk inp c2 (nshift c.evs) := by
        rcases h2 with h2 | h2
        · subst h2; exact ⟨e3, hn1⟩
        · obtain ⟨_, _, _, _, f5, f6⟩ := fetch_spec inp c1 _ hn1
          subst h2; exact ⟨by rw [f5, e3], f6⟩
      subst h3
      exact ⟨by simp only [nshift]; rw [hc2.1], hc2.2⟩

/-- shifts are never undone -/
theorem step_nshift_le (c c' : Cfg) (h : Inv g t i inp c) (hs : step t inp c = .cont c') :
    nshift c.evs ≤ nshift c'.evs := by
  obtain ⟨s, syms, hstk, hst, hn⟩ := h
  have hlt := hstk.lt hc hi
  have h0 : 0 < t.nTerms := by have := (wfFacts hc.wf).nTermsPos; have := hc.nTerms; omega
  unfold step at hs
  cases hd : decode t inp c with
  | none => rw [hd] at hs; cases hs
  | some p =>
    obtain ⟨c1, act⟩ := p
    rw [hd] at hs
    simp only at hs
    obtain ⟨_, _, e3, hn1, hact⟩ := decode_spec hc htok h0 c c1 act s _ hlt hst hn hd
    cases act with
    | error => rw [apply] at hs; cases hs
    | shift q =>
      rw [apply] at hs
      split at hs
      · cases hs
      · injection hs with hs
        subst hs
        simp only [nshift]
        rw [e3]; omega
    | reduce r =>
      obtain ⟨ln, lhs, c2, off, endo, top, rest, q, _, _, h3, _, _, _, h7⟩ :=
        apply_reduce_cont hs
      have hc2 : c2.evs = c.evs := by
        rcases h3 with h3 | h3
        · rw [h3, e3]
        · rw [h3, fetch_evs, e3]
      subst h7
      simp only [nshift]
      rw [hc2]
      exact Nat.le_refl _

end err

section loop
variable {g : Grammar} {t : Tables} {cert : Cert} {vc : VCert} {i : Nat} {inp : Input}
  (hc : CertFacts g t cert) (hv : ViableFacts g t vc) (htok : TokOk t inp)
  (hi : i < g.inputs.size)
include hc hv htok hi

/-- a run that ends with a syntax error: the error was detected in a configuration `c0` that
satisfies the invariant, nothing was shifted afterwards, and the reported range is that of the
first unshifted token -/
theorem runLoop_err (fin : Int) : ∀ (fuel : Nat) (c c' : Cfg) (off endo : Nat),
    VInv g t vc i inp c → runLoop t inp fin fuel c = (.syntaxError off endo, c') →
    ∃ c0, VInv g t vc i inp c0 ∧ nshift c.evs ≤ nshift c0.evs ∧
      nshift c'.evs = nshift c0.evs ∧
      off = (inp.tok (nshift c0.evs)).off ∧ endo = (inp.tok (nshift c0.evs)).endo
  | 0, c, c', _, _, _, h => by rw [runLoop] at h; cases h
  | fuel + 1, c, c', off, endo, hinv, h => by
    rw [runLoop] at h
    split at h
    · cases h
    · split at h
      · rename_i c1 hstep
        obtain ⟨c0, h1, h2, h3⟩ :=
          runLoop_err fin fuel c1 c' off endo (step_vinv hc hv htok hi c c1 hinv hstep) h
        exact ⟨c0, h1, Nat.le_trans (step_nshift_le hc htok hi c c1 hinv.1 hstep) h2, h3⟩
      · rename_i a b c1 hstep
        obtain ⟨e1, e2⟩ := step_err_spec hc htok hi c c1 a b hinv.1 hstep
        obtain ⟨f1, _, _, _, f5, _⟩ := fetch_spec inp c1 _ e2
        unfold errorAt at h
        simp only at h
        injection h with h1 h2
        injection h1 with h3 h4
        refine ⟨c, hinv, Nat.le_refl _, ?_, ?_, ?_⟩
        · rw [← h2, f5, e1]
        · rw [← h3, f1]
        · rw [← h4, f1]
      · rename_i r c1 hne hstep
        injection h with h1 h2
        exact absurd h1 (hne off endo)

end loop

/-! ### the run reads only the tokens up to the first unshifted one -/

/-- two token streams with the same first `k + 1` tokens -/
def Agree (k : Nat) (inp inp' : Input) : Prop := ∀ j, j ≤ k → inp.tok j = inp'.tok j

theorem fetch_agree {inp inp' : Input} {c : Cfg} {m k : Nat} (hn : NextOk inp c m) (hk : m ≤ k)
    (hag : Agree k inp inp') : c.fetch inp = c.fetch inp' := by
  cases hnext : c.next with
  | some tk => rw [fetch_some hnext, fetch_some hnext]
  | none =>
    unfold NextOk at hn
    rw [hnext] at hn
    rw [fetch_none hnext, fetch_none hnext, hn, hag m hk]

section agree
variable {g : Grammar} {t : Tables} {cert : Cert} {i : Nat} {inp inp' : Input}
  (hc : CertFacts g t cert) (htok : TokOk t inp) (hi : i < g.inputs.size)
include hc htok hi

theorem step_agree (c : Cfg) (k : Nat) (h : Inv g t i inp c) (hk : nshift c.evs ≤ k)
    (hag : Agree k inp inp') : step t inp c = step t inp' c := by
  obtain ⟨s, syms, hstk, hst, hn⟩ := h
  have hlt := hstk.lt hc hi
  have h0 : 0 < t.nTerms := by have := (wfFacts hc.wf).nTermsPos; have := hc.nTerms; omega
  have hfe := fetch_agree hn hk hag
  have hdec : decode t inp c = decode t inp' c := by
    unfold decode
    rw [hst]
    cases hnt : needsTok t (s : Int) with
    | none => rfl
    | some b =>
      cases b with
      | false => rfl
      | true =>
        simp only
        rw [← hfe]
        obtain ⟨f1, _⟩ := fetch_spec inp c _ hn
        obtain ⟨a, ha1, ha2⟩ := tok_range htok h0 (nshift c.evs)
        rw [f1, ha1]
        have hmem : (some a, actOf t noDeep s a) ∈ stateActs t s := by
          unfold stateActs
          rw [hnt]
          simp only [List.mem_map, List.mem_range]
          exact ⟨a, ha2, rfl⟩
        have hok := hc.acts s hlt _ hmem
        cases hx : actOf t noDeep s a with
        | none => rw [hx] at hok; simp [actOk] at hok
        | some x => rw [actOf_noDeep t _ s a x hx, actOf_noDeep t _ s a x hx]
  unfold step
  rw [← hdec]
  cases hd : decode t inp c with
  | none => rfl
  | some p =>
    obtain ⟨c1, act⟩ := p
    simp only
    obtain ⟨_, _, _, hn1, _⟩ := decode_spec hc htok h0 c c1 act s _ hlt hst hn hd
    cases act with
    | error => rfl
    | shift q => rfl
    | reduce r =>
      have hfe1 := fetch_agree hn1 hk hag
      unfold apply
      rw [hfe1]

/-- a run that ends with a syntax error after `k` shifts gives the same result on every token
stream with the same first `k + 1` tokens -/
theorem runLoop_agree (fin : Int) : ∀ (fuel : Nat) (c c' : Cfg) (off endo : Nat),
    Inv g t i inp c → runLoop t inp fin fuel c = (.syntaxError off endo, c') →
    Agree (nshift c'.evs) inp inp' →
    nshift c.evs ≤ nshift c'.evs ∧ runLoop t inp' fin fuel c = (.syntaxError off endo, c')
  | 0, c, c', _, _, _, h, _ => by rw [runLoop] at h; cases h
  | fuel + 1, c, c', off, endo, hinv, h, hag => by
    rw [runLoop] at h
    split at h
    · cases h
    · rename_i hfin
      split at h
      · rename_i c1 hstep
        obtain ⟨h1, h2⟩ :=
          runLoop_agree fin fuel c1 c' off endo (step_inv hc htok hi c c1 hinv hstep) h hag
        have hle := Nat.le_trans (step_nshift_le hc htok hi c c1 hinv hstep) h1
        refine ⟨hle, ?_⟩
        rw [runLoop, if_neg hfin, ← step_agree hc htok hi c _ hinv hle hag, hstep]
        exact h2
      · rename_i a b c1 hstep
        obtain ⟨e1, e2⟩ := step_err_spec hc htok hi c c1 a b hinv hstep
        have hev : nshift c'.evs = nshift c.evs := by
          unfold errorAt at h
          simp only at h
          injection h with _ h2
          rw [← h2, fetch_evs, e1]
        rw [hev] at hag
        refine ⟨by rw [hev]; exact Nat.le_refl _, ?_⟩
        rw [runLoop, if_neg hfin, ← step_agree hc htok hi c _ hinv (Nat.le_refl _) hag, hstep]
        simp only
        unfold errorAt at h ⊢
        rw [← fetch_agree e2 (Nat.le_refl _) hag]
        exact h
      · rename_i r c1 hne hstep
        injection h with h1 h2
        exact absurd h1 (hne off endo)

end agree

/-! ### fuel -/

/-- a result other than `fuel` does not change when more fuel is given -/
theorem runLoop_mono (t : Tables) (inp : Input) (fin : Int) : ∀ (fuel fuel' : Nat) (c c' : Cfg)
    (r : Result), runLoop t inp fin fuel c = (r, c') → r ≠ .fuel → fuel ≤ fuel' →
    runLoop t inp fin fuel' c = (r, c')
  | 0, _, c, c', r, h, hr, _ => by
    rw [runLoop] at h
    injection h with h1 _
    exact absurd h1.symm hr
  | fuel + 1, 0, _, _, _, _, _, hle => by omega
  | fuel + 1, fuel' + 1, c, c', r, h, hr, hle => by
    rw [runLoop] at h ⊢
    split
    · rename_i hfin
      rw [if_pos hfin] at h
      exact h
    · rename_i hfin
      rw [if_neg hfin] at h
      split at h
      · rename_i c1 hstep
        exact runLoop_mono t inp fin fuel fuel' c1 c' r h hr (by omega)
      · exact h
      · exact h

/-- two runs of the same input that both return (not `fuel`) return the same -/
theorem run_det (t : Tables) (inp : Input) (i : Nat) {f1 f2 : Nat} {r1 r2 : Result} {c1 c2 : Cfg}
    (h1 : run t inp i f1 = (r1, c1)) (hr1 : r1 ≠ .fuel)
    (h2 : run t inp i f2 = (r2, c2)) (hr2 : r2 ≠ .fuel) : r1 = r2 := by
  unfold run at h1 h2
  cases hfin : t.finalStates[i]? with
  | none =>
    rw [hfin] at h1 h2
    injection h1 with e1 _
    injection h2 with e2 _
    rw [← e1, ← e2]
  | some fin =>
    rw [hfin] at h1 h2
    simp only at h1 h2
    have m1 := runLoop_mono t inp fin f1 (f1 + f2) _ _ _ h1 hr1 (by omega)
    have m2 := runLoop_mono t inp fin f2 (f1 + f2) _ _ _ h2 hr2 (by omega)
    rw [m1] at m2
    injection m2

end TmVerif.LRViable
