import TmVerif.Proofs.DiffMyersRound
import TmVerif.Proofs.DiffMyersMid
/-!
C27, Myers search, part 6: the overlap test.
Soundness: if the furthest forward point of cost `d` on diagonal `k` is not left of the furthest
reverse point of cost `d'` on the same diagonal, the edit distance is at most `d + d'`; if it is
exactly `d + d'`, the reverse point lies on a shortest path.
Completeness: if the edit distance is `d + d'`, some diagonal of the two rounds overlaps.
-/
namespace TmVerif.Diff
set_option linter.unusedSectionVars false
variable {α : Type} [DecidableEq α]

/-- what the tight case of the overlap test says about the returned point `(x2, y2)` and the forward
point `xf` -/
def SplitFacts (a b : List α) (d d' : Nat) (k : Int) (xf x2 y2 : Nat) : Prop :=
  x2 ≤ a.length ∧ y2 ≤ b.length ∧ Lp a b x2 y2 + Ls a b x2 y2 = lcsRec a b ∧
  x2 + y2 = d + 2 * Lp a b x2 y2 ∧
  (0 < x2 → 0 < y2 → NoMatch a b (x2 - 1) (y2 - 1)) ∧
  x2 ≤ xf ∧ (∀ yf : Nat, (xf : Int) - yf = k → NoMatch a b xf yf)

/-- forward point `(xf, ·)` on diagonal `k`, reverse point `xr` on diagonal `-delta-k` of the
reversed lists, `m - xr ≤ xf` -/
theorem overlap_sound (a b : List α) (d d' : Nat) (k : Int) (xf xr : Nat)
    (hk : -(b.length : Int) ≤ k ∧ k ≤ (a.length : Int))
    (hf : FR a b d k xf)
    (hr : FR a.reverse b.reverse d' (-((b.length : Int) - a.length) - k) xr)
    (hov : (a.length : Int) - xr ≤ xf) :
    a.length + b.length ≤ d + d' + 2 * lcsRec a b ∧
    (a.length + b.length = d + d' + 2 * lcsRec a b →
      0 ≤ (a.length : Int) - xr ∧ 0 ≤ (a.length : Int) - xr - k ∧
      ∀ x2 y2 : Nat, (x2 : Int) = (a.length : Int) - xr → (y2 : Int) = (x2 : Int) - k →
        SplitFacts a b d d' k xf x2 y2) := by
  obtain ⟨⟨yf, hyf, hdf⟩, hfmax⟩ := hf
  obtain ⟨⟨yr, hyr, hdr⟩, hrmax⟩ := hr
  -- a grid point of diagonal k between the reverse and the forward point
  have key : ∀ P Py : Nat, (P : Int) - Py = k → P ≤ xf → (a.length : Int) - xr ≤ P →
      P ≤ a.length → Py ≤ b.length →
      P + Py ≤ d + 2 * Lp a b P Py ∧
        (a.length - P) + (b.length - Py) ≤ d' + 2 * Ls a b P Py := by
    intro P Py hP h1 h2 h3 h4
    constructor
    · have e1 : xf = P + (xf - P) := by omega
      have e2 : yf = Py + (xf - P) := by omega
      have : Dle a b d (P + (xf - P)) (Py + (xf - P)) := by rw [← e1, ← e2]; exact hdf
      exact dle_diag_n a b d P Py (xf - P) this
    · have e1 : xr = (a.length - P) + (xr - (a.length - P)) := by omega
      have e2 : yr = (b.length - Py) + (xr - (a.length - P)) := by omega
      have : Dle a.reverse b.reverse d' ((a.length - P) + (xr - (a.length - P)))
          ((b.length - Py) + (xr - (a.length - P))) := by rw [← e1, ← e2]; exact hdr
      have h5 := dle_diag_n _ _ d' _ _ _ this
      unfold Dle at h5
      rw [Lp_reverse] at h5
      have q1 : a.length - (a.length - P) = P := by omega
      have q2 : b.length - (b.length - Py) = Py := by omega
      rw [q1, q2] at h5
      exact h5
  -- choose P = max (m - xr) (max 0 k)
  have hex : ∃ P Py : Nat, (P : Int) - Py = k ∧ P ≤ xf ∧ (a.length : Int) - xr ≤ P ∧
      P ≤ a.length ∧ Py ≤ b.length ∧
      (∀ x2 y2 : Nat, (x2 : Int) = (a.length : Int) - xr → (y2 : Int) = (x2 : Int) - k →
        x2 = P ∧ y2 = Py) := by
    by_cases c1 : (a.length : Int) - xr ≤ 0
    · by_cases c2 : k ≤ 0
      · exact ⟨0, (-k).toNat, by omega, by omega, by omega, by omega, by omega,
          fun x2 y2 h1 h2 => by omega⟩
      · exact ⟨k.toNat, 0, by omega, by omega, by omega, by omega, by omega,
          fun x2 y2 h1 h2 => by omega⟩
    · by_cases c2 : (a.length : Int) - xr ≤ k
      · exact ⟨k.toNat, 0, by omega, by omega, by omega, by omega, by omega,
          fun x2 y2 h1 h2 => by omega⟩
      · exact ⟨((a.length : Int) - xr).toNat, ((a.length : Int) - xr - k).toNat, by omega,
          by omega, by omega, by omega, by omega, fun x2 y2 h1 h2 => by omega⟩
  obtain ⟨P, Py, h1, h2, h3, h4, h5, huniq⟩ := hex
  obtain ⟨g1, g2⟩ := key P Py h1 h2 h3 h4 h5
  have tri := Lp_add_Ls_le a b P Py
  refine ⟨by omega, ?_⟩
  intro htight
  -- the reverse point is inside the grid
  have hrd := hdr
  unfold Dle at hrd
  rw [Lp_reverse] at hrd
  have b1 := Lp_add_Ls_le a b (a.length - xr) (b.length - yr)
  have b2 := dle_diagonal_bound a b d xf yf hdf
  have hx0 : 0 ≤ (a.length : Int) - xr := by omega
  have hy0 : 0 ≤ (a.length : Int) - xr - k := by omega
  refine ⟨hx0, hy0, ?_⟩
  intro x2 y2 e1 e2
  obtain ⟨rfl, rfl⟩ := huniq x2 y2 e1 e2
  refine ⟨h4, h5, by omega, by omega, ?_, h2, ?_⟩
  · -- the reverse point cannot be extended: no match just before the split
    intro hp1 hp2 hmatch
    obtain ⟨hx, hy, he⟩ := hmatch
    have exr : xr = a.length - x2 := by omega
    have eyr : yr = b.length - y2 := by omega
    have hxr : xr < a.reverse.length := by simp; omega
    have hyr' : yr < b.reverse.length := by simp; omega
    have hrev : a.reverse[xr] = b.reverse[yr] := by
      rw [List.getElem_reverse, List.getElem_reverse]
      have i1 : a.length - 1 - xr = x2 - 1 := by omega
      have i2 : b.length - 1 - yr = y2 - 1 := by omega
      simp only [i1, i2]
      exact he
    have := (dle_match a.reverse b.reverse d' xr yr hxr hyr' hrev).mpr hdr
    have := hrmax (xr + 1) (yr + 1) (by omega) this
    omega
  · -- the forward point cannot be extended
    intro yf' hyf' hmatch
    obtain ⟨hx, hy, he⟩ := hmatch
    have ey : yf' = yf := by omega
    subst ey
    have := (dle_match a b d xf yf' hx hy he).mpr hdf
    have := hfmax (xf + 1) (yf' + 1) (by omega) this
    omega

/-- a point whose distance is exactly `d` lies on a diagonal that round `d` visits -/
theorem inRange_of_exact (A B : List α) (d x y : Nat) (hx : x ≤ A.length) (hy : y ≤ B.length)
    (h : x + y = d + 2 * Lp A B x y) :
    InRange A.length B.length d ((x : Int) - y) := by
  have := Lp_le_x A B x y
  have := Lp_le_y A B x y
  unfold InRange roundStart roundLimit
  split <;> split <;> omega

/-- if the distance is exactly `d + d'`, the two rounds overlap on some diagonal -/
theorem overlap_complete (a b : List α) (d d' : Nat)
    (hc : a.length + b.length = d + d' + 2 * lcsRec a b) :
    ∃ k : Int, InRange a.length b.length d k ∧
      InRange a.length b.length d' (-((b.length : Int) - a.length) - k) ∧
      ∀ xf xr : Nat, FR a b d k xf →
        FR a.reverse b.reverse d' (-((b.length : Int) - a.length) - k) xr →
        (a.length : Int) - xr ≤ xf := by
  obtain ⟨px, py, ⟨hx, hy, ho⟩, hg⟩ := opt_midpoint a b d (by omega)
  have hrev : (a.length - px) + (b.length - py) =
      d' + 2 * Lp a.reverse b.reverse (a.length - px) (b.length - py) := by
    rw [Lp_reverse]
    have q1 : a.length - (a.length - px) = px := by omega
    have q2 : b.length - (b.length - py) = py := by omega
    rw [q1, q2]; omega
  refine ⟨(px : Int) - py, inRange_of_exact a b d px py hx hy hg, ?_, ?_⟩
  · have := inRange_of_exact a.reverse b.reverse d' (a.length - px) (b.length - py)
      (by simp) (by simp) hrev
    simp only [List.length_reverse] at this
    have e : ((a.length - px : Nat) : Int) - ((b.length - py : Nat) : Int) =
        -((b.length : Int) - a.length) - ((px : Int) - py) := by omega
    rw [← e]; exact this
  · intro xf xr hf hr
    have h1 := hf.2 px py rfl (by unfold Dle; omega)
    have h2 := hr.2 (a.length - px) (b.length - py) (by omega) (by unfold Dle; omega)
    omega

end TmVerif.Diff
