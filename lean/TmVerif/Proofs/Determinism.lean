/-
Helper lemmas for C18 (Props/C18.lean): distinct keys, existence of a sort satisfying `SortSpec`.
-/
import TmVerif.Model.Determinism
namespace TmVerif.Determinism

theorem nodup_key_inj {α κ : Type} {key : α → κ} {xs : List α} (hd : DistinctBy key xs) :
    ∀ a ∈ xs, ∀ b ∈ xs, key a = key b → a = b := by
  induction xs with
  | nil => intro a ha; cases ha
  | cons x t ih =>
    simp only [DistinctBy, List.map_cons, List.nodup_cons, List.mem_map, not_exists, not_and] at hd
    intro a ha b hb hk
    rcases List.mem_cons.mp ha with rfl | ha' <;> rcases List.mem_cons.mp hb with rfl | hb'
    · rfl
    · exact absurd hk.symm (hd.1 b hb')
    · exact absurd hk (hd.1 a ha')
    · exact ih hd.2 a ha' b hb' hk

/-- keys of single-item collections: distinct keys make the key order antisymmetric on the items -/
theorem anti_of_distinct_keys {α β : Type} (f : α → β) (k : β → Nat) {xs : List α}
    (hd : DistinctBy (fun a => k (f a)) xs) :
    ∀ a ∈ xs.flatMap (fun e => [f e]), ∀ b ∈ xs.flatMap (fun e => [f e]), k a ≤ k b → k b ≤ k a → a = b := by
  intro a ha b hb h1 h2
  simp only [List.mem_flatMap, List.mem_singleton] at ha hb
  obtain ⟨x, hx, rfl⟩ := ha
  obtain ⟨y, hy, rfl⟩ := hb
  rw [nodup_key_inj hd x hx y hy (Nat.le_antisymm h1 h2)]

/-- A sort satisfying `SortSpec` exists (core's merge sort), so the theorems above are not vacuous. -/
theorem sortSpec_mergeSort : SortSpec (fun l : List Nat => l.mergeSort (· ≤ ·)) (fun a b => a ≤ b) := by
  intro l
  refine ⟨List.mergeSort_perm l _, ?_⟩
  have := List.pairwise_mergeSort (le := fun (a b : Nat) => decide (a ≤ b))
    (by intro a b c; simp; omega) (by intro a b; simp; omega) l
  simpa using this

end TmVerif.Determinism
