/-
Helper lemmas for C02, part 3: the simulation invariant between an accepted run of the extended
runtime (`LRX.xrunLoop`, listener events computed from stack offsets) and the core runtime
(`LR.runLoop`, shift/reduce trace), together with the derivation forest of the trace and its
stack-free layout.
-/
import TmVerif.Proofs.EventsStep
namespace TmVerif.Events
open TmVerif.LR TmVerif.LRX

/-- tokens consumed (non-EOI shifts) in a core trace; the expression used by `eventsOf` -/
def consumed (evs : List Ev) : Nat :=
  (evs.filter fun e => match e with | .shift s _ _ => s ≠ 0 | _ => false).length

theorem consumed_nil : consumed [] = 0 := rfl

theorem consumed_shift (s : Int) (o e : Nat) (evs : List Ev) :
    consumed (.shift s o e :: evs) = if s ≠ 0 then consumed evs + 1 else consumed evs := by
  unfold consumed
  by_cases h : s = 0 <;> simp [h]

theorem consumed_reduce (r : Int) (o e : Nat) (evs : List Ev) :
    consumed (.reduce r o e :: evs) = consumed evs := by
  unfold consumed
  simp

/-- What is recorded about the origin of a stack entry: a leaf is a token of the input whose symbol
is the entry's symbol, and an end-of-input leaf is the current lookahead token (shifting symbol 0
does not consume it); a node's rule has the entry's symbol as left-hand side. -/
def Tag (inp : Input) (t : Tables) (j : Nat) (e : Entry) : PTree → Prop
  | .tok tk => e.sym = tk.sym ∧ (∃ i, tk = inp.tok i) ∧ (tk.sym = 0 → tk = inp.tok j)
  | .node r _ => geti t.ruleSymbol (r : Int) = some e.sym

/-- The forest of the stack: one tree per entry above the bottom; each entry's range is the range
`layout` assigns to its tree when the following token starts at the offset of the entry above it
(`after` for the top entry); `evs` are the events of all trees, bottom first. -/
inductive StackLaid (x : XTables) (inp : Input) (j : Nat) : Nat → List Entry → List PTree → List XEv → Prop
  | base (after : Nat) (b : Entry) : StackLaid x inp j after [b] [] []
  | cons {after : Nat} {e : Entry} {es : List Entry} {t : PTree} {ts : List PTree}
      {evs ev evs' : List XEv} :
      layout x t after = some ⟨e.off, e.endo, ev⟩ → Tag inp x.t j e t →
      StackLaid x inp j e.off es ts evs → evs' = evs ++ ev →
      StackLaid x inp j after (e :: es) (t :: ts) evs'

theorem StackLaid.length {x : XTables} {inp : Input} {j after : Nat} {es : List Entry} {ts : List PTree}
    {evs : List XEv} (h : StackLaid x inp j after es ts evs) : es.length = ts.length + 1 := by
  induction h with
  | base => rfl
  | cons _ _ _ _ ih => simp [ih]

/-- the consumed-token index only matters for end-of-input leaves -/
theorem StackLaid.rejag {x : XTables} {inp : Input} {j j' after : Nat} {es : List Entry}
    {ts : List PTree} {evs : List XEv} (h : StackLaid x inp j after es ts evs)
    (hj : (inp.tok j).sym ≠ 0) : StackLaid x inp j' after es ts evs := by
  induction h with
  | base => exact .base _ _
  | @cons after e es t ts evs ev evs' hl ht _ he ih =>
    refine .cons hl ?_ ih he
    cases t with
    | tok tk =>
      obtain ⟨h1, h2, h3⟩ := ht
      refine ⟨h1, h2, fun h0 => ?_⟩
      have := h3 h0
      rw [this] at h0
      exact absurd h0 hj
    | node r k => exact ht

/-- only the top tree depends on `after` -/
theorem StackLaid.after_irrel {x : XTables} {inp : Input} {j after after' : Nat} {e : Entry}
    {es : List Entry} {tk : Tok} {ts : List PTree} {evs : List XEv}
    (h : StackLaid x inp j after (e :: es) (.tok tk :: ts) evs) :
    StackLaid x inp j after' (e :: es) (.tok tk :: ts) evs := by
  cases h with
  | cons hl ht hs he =>
    rw [layout_tok] at hl
    exact .cons (by rw [layout_tok]; exact hl) ht hs he

theorem StackLaid.cons_inv {x : XTables} {inp : Input} {j after : Nat} {e : Entry} {es : List Entry}
    {F : List PTree} {evs : List XEv} (h : StackLaid x inp j after (e :: es) F evs) (hne : es ≠ []) :
    ∃ t ts evs1 ev, F = t :: ts ∧ layout x t after = some ⟨e.off, e.endo, ev⟩ ∧ Tag inp x.t j e t ∧
      StackLaid x inp j e.off es ts evs1 ∧ evs = evs1 ++ ev := by
  cases h with
  | base => exact absurd rfl hne
  | cons hl ht hs he => exact ⟨_, _, _, _, rfl, hl, ht, hs, he⟩

def firstOff (top : List Entry) (after : Nat) : Nat := ((top.getLast?).map (·.off)).getD after

/-- Popping the top `|top|` entries: their trees, read left to right, are laid out by `layoutList`
with exactly the entries' ranges; the rest of the stack keeps its layout. -/
theorem StackLaid.split {x : XTables} {inp : Input} {j : Nat} : ∀ (top : List Entry) {after : Nat}
    {rest : List Entry} {F : List PTree} {evs : List XEv},
    StackLaid x inp j after (top ++ rest) F evs → rest ≠ [] →
    ∃ (ll : LaidList) (evR : List XEv),
      layoutList x (F.take top.length).reverse after = some ll ∧
      ll.items = top.reverse.map rng ∧
      StackLaid x inp j (firstOff top after) rest (F.drop top.length) evR ∧
      evs = evR ++ ll.evs
  | [], after, rest, F, evs, h, _ => by
    refine ⟨⟨[], []⟩, evs, ?_, rfl, ?_, by simp⟩
    · simp [layoutList_nil]
    · simpa [firstOff] using h
  | e :: top, after, rest, F, evs, h, hne => by
    obtain ⟨t, ts, evs1, ev, hF, hl, ht, hs, he⟩ :=
      StackLaid.cons_inv (es := top ++ rest) h (by simp [hne])
    subst hF
    · obtain ⟨ll, evR, h1, h2, h3, h4⟩ := StackLaid.split top hs hne
      refine ⟨⟨ll.items ++ [(e.off, e.endo)], ll.evs ++ ev⟩, evR, ?_, ?_, ?_, ?_⟩
      · simp only [List.length_cons, List.take_succ_cons, List.reverse_cons]
        rw [layoutList_snoc, hl]
        simp only
        rw [h1]
      · simp [h2, rng]
      · simp only [List.length_cons, List.drop_succ_cons]
        have : firstOff (e :: top) after = firstOff top e.off := by
          unfold firstOff
          cases top with
          | nil => simp
          | cons a l =>
            rw [List.getLast?_cons_cons]
            cases hg : (a :: l).getLast? with
            | none => simp at hg
            | some b => simp
        rw [this]; exact h3
      · rw [he, h4]; simp

/-- The simulation invariant. -/
structure Inv (x : XTables) (inp : Input) (cx : XCfg) (cl : Cfg) (F : List PTree) : Prop where
  state : cl.state = cx.state
  pos : cl.pos = cx.pos
  next : cl.next = cx.next
  stk : cl.stack.map (·.state) = cx.stack.map (·.state)
  build : ∀ rest, buildForest x.t.ruleLen (cl.evs.reverse ++ rest) [] = buildForest x.t.ruleLen rest F
  look : Look inp cx.next cx.pos (consumed cl.evs)
  laid : StackLaid x inp (consumed cl.evs) (inp.tok (consumed cl.evs)).off cx.stack F cx.evs.reverse

theorem inv_init (x : XTables) (inp : Input) (start : Int) :
    Inv x inp (xinit inp start) (initCfg inp start) [] where
  state := rfl
  pos := rfl
  next := rfl
  stk := rfl
  build := fun _ => rfl
  look := Or.inl ⟨rfl, rfl⟩
  laid := .base _ _

theorem inv_fetch {x : XTables} {inp : Input} {cx : XCfg} {cl : Cfg} {F : List PTree}
    (h : Inv x inp cx cl F) :
    Inv x inp (cx.fetch inp).1 (cl.fetch inp).1 F ∧
    (cx.fetch inp).2 = inp.tok (consumed cl.evs) ∧ (cl.fetch inp).2 = inp.tok (consumed cl.evs) ∧
    (cx.fetch inp).1.stack = cx.stack ∧ (cx.fetch inp).1.evs = cx.evs ∧
    (cl.fetch inp).1.evs = cl.evs ∧ (cx.fetch inp).1.state = cx.state ∧
    (cx.fetch inp).1.next = some (inp.tok (consumed cl.evs)) := by
  have hl := h.look
  have hl' : Look inp cl.next cl.pos (consumed cl.evs) := by rw [h.next, h.pos]; exact hl
  rw [xfetch_look hl, fetch_look hl']
  refine ⟨⟨h.state, rfl, rfl, h.stk, h.build, Or.inl ⟨rfl, rfl⟩, h.laid⟩, rfl, rfl, rfl, rfl, rfl, rfl, rfl⟩

/-- decoding commutes with the simulation -/
theorem inv_decode {x : XTables} {inp : Input} {cx cx1 : XCfg} {cl : Cfg} {F : List PTree} {a : Act}
    (h : Inv x inp cx cl F) (hd : xdecode x inp cx = some (cx1, a)) :
    ∃ cl1, decode x.t inp cl = some (cl1, a) ∧ Inv x inp cx1 cl1 F ∧ cl1.evs = cl.evs := by
  obtain ⟨hf, h1, h2, _, _, h6, _⟩ := inv_fetch h
  rcases xdecode_cases hd with ⟨hn, hc, ha⟩ | ⟨hn, hc, ha⟩
  · refine ⟨(cl.fetch inp).1, decode_tok (by rw [h.state]; exact hn) ?_, by rw [hc]; exact hf, h6⟩
    rw [hf.pos, h2, ← h1, h.state]; exact ha
  · exact ⟨cl, decode_notok (by rw [h.state]; exact hn) (by rw [h.state]; exact ha), by rw [hc]; exact h, rfl⟩

/-- a shift step -/
theorem inv_shift {x : XTables} {inp : Input} {cx1 : XCfg} {cl1 : Cfg} {F : List PTree} {q : Int} {tk : Tok}
    (h : Inv x inp cx1 cl1 F) (hn : cx1.next = some tk) :
    ∃ cl' F', apply x.t inp cl1 (.shift q) = .cont cl' ∧
      Inv x inp { cx1 with stack := ⟨tk.sym, tk.off, tk.endo, q⟩ :: cx1.stack, state := q,
                           next := if tk.sym ≠ 0 then none else cx1.next,
                           recovering := cx1.recovering - 1,
                           shiftCounter := if x.cancellable then cx1.shiftCounter + 1 else cx1.shiftCounter }
        cl' F' := by
  have hn' : cl1.next = some tk := by rw [h.next]; exact hn
  refine ⟨_, .tok tk :: F, apply_shift_eq x.t inp cl1 q tk hn', ?_⟩
  have hl := h.look
  have htk : tk = inp.tok (consumed cl1.evs) ∧ cx1.pos = consumed cl1.evs + 1 := by
    rcases hl with ⟨h1, h2⟩ | ⟨h1, _⟩
    · rw [hn] at h1; injection h1 with h1; exact ⟨h1, h2⟩
    · rw [hn] at h1; cases h1
  have hlaid := h.laid
  refine ⟨rfl, h.pos, ?_, ?_, ?_, ?_, ?_⟩
  · simp only [h.next]
  · simp only [List.map_cons, h.stk]
  · intro rest
    simp only [List.reverse_cons, List.append_assoc, List.singleton_append]
    rw [h.build]
    rfl
  · simp only [consumed_shift]
    by_cases h0 : tk.sym = 0
    · simp only [h0, ne_eq, not_true_eq_false, if_false]
      left; rw [hn, htk.1]; exact ⟨rfl, htk.2⟩
    · simp only [h0, ne_eq, not_false_eq_true, if_true]
      right; exact ⟨rfl, htk.2⟩
  · simp only [consumed_shift]
    refine .cons (ev := []) (evs := cx1.evs.reverse) (layout_tok x tk _) ?_ ?_ (by simp)
    · refine ⟨rfl, ⟨_, htk.1⟩, fun h0 => ?_⟩
      simp only [h0, ne_eq, not_true_eq_false, if_false]
      exact htk.1
    · simp only
      have hoff : tk.off = (inp.tok (consumed cl1.evs)).off := by rw [← htk.1]
      rw [hoff]
      by_cases h0 : tk.sym = 0
      · simp only [h0, ne_eq, not_true_eq_false, if_false]; exact hlaid
      · simp only [h0, ne_eq, not_false_eq_true, if_true]
        exact hlaid.rejag (by rw [← htk.1]; exact h0)

theorem geti_nonneg {a : Array Int} {i v : Int} (h : geti a i = some v) : 0 ≤ i := by
  unfold geti at h
  split at h
  · cases h
  · omega

/-- a reduce step -/
theorem inv_reduce {x : XTables} {inp : Input} {cx1 cx' : XCfg} {cl1 : Cfg} {F : List PTree} {rule : Int}
    (hwf : reportsWF x = true)
    (h : Inv x inp cx1 cl1 F) (hr : XReduce x inp cx1 cx' rule) :
    ∃ cl' F', apply x.t inp cl1 (.reduce rule) = .cont cl' ∧ Inv x inp cx' cl' F' := by
  obtain ⟨ln, lhs, cx2, off, endo, endo', evs, top, rest, q, hln, hlhs, hle, hc2, hap, hrest, hq, hq1, hc'⟩ := hr.ex
  have hrule := geti_nonneg hln
  obtain ⟨hf, hf1, hf2, hf3, hf4, hf5, hf6, _⟩ := inv_fetch h
  -- the configuration after the optional fetch, on both sides
  have hex : ∃ cl2, ((ln.toNat = 0 ∧ cl2 = (cl1.fetch inp).1) ∨ (ln.toNat ≠ 0 ∧ cl2 = cl1)) ∧
      Inv x inp cx2 cl2 F ∧ cl2.evs = cl1.evs ∧ cx2.stack = cx1.stack ∧ cx2.evs = cx1.evs := by
    rcases hc2 with ⟨h0, hc, _, _⟩ | ⟨h0, hc, _, _⟩
    · exact ⟨_, Or.inl ⟨h0, rfl⟩, by rw [hc]; exact hf, hf5, by rw [hc]; exact hf3, by rw [hc]; exact hf4⟩
    · exact ⟨_, Or.inr ⟨h0, rfl⟩, by rw [hc]; exact h, rfl, by rw [hc], by rw [hc]⟩
  obtain ⟨cl2, hcl2, hinv2, hevs2, hstk2, hxevs2⟩ := hex
  have hlen : cl1.stack.length = cx1.stack.length := by
    have := congrArg List.length h.stk
    simpa using this
  -- the core runtime performs the same reduction
  have hstk := hinv2.stk
  have hdrop : (cl2.stack.drop ln.toNat).map (·.state) = (top :: rest).map (·.state) := by
    rw [← hrest, List.map_drop, List.map_drop, hstk]
  obtain ⟨top', rest', hrest'⟩ : ∃ top' rest', cl2.stack.drop ln.toNat = top' :: rest' := by
    cases hd : cl2.stack.drop ln.toNat with
    | nil => rw [hd] at hdrop; simp at hdrop
    | cons a l => exact ⟨a, l, rfl⟩
  have htop : top'.state = top.state := by
    rw [hrest'] at hdrop
    simp only [List.map_cons, List.cons.injEq] at hdrop
    exact hdrop.1
  obtain ⟨off', endo'', happ⟩ := apply_reduce_eq x.t inp cl1 cl2 rule ln lhs top' rest' q hln hlhs
    (by rw [hlen]; exact hle) hcl2 hrest' (by rw [htop]; exact hq) hq1
  refine ⟨_, .node rule.toNat (F.take ln.toNat).reverse :: F.drop ln.toNat, happ, ?_⟩
  -- the forest
  have hlaid := hinv2.laid
  rw [hevs2] at hlaid
  have hFlen := hlaid.length
  have hsplit : cx2.stack = cx2.stack.take ln.toNat ++ (top :: rest) := by
    rw [← hrest, List.take_append_drop]
  have htl : (cx2.stack.take ln.toNat).length = ln.toNat := by
    rw [List.length_take, hstk2]; omega
  rw [hsplit] at hlaid
  obtain ⟨ll, evR, hll, hitems, hrestLaid, hevsEq⟩ := StackLaid.split _ hlaid (by simp)
  rw [htl] at hll hrestLaid
  -- offsets of the new entry
  have hoff : off = headOff ll.items (inp.tok (consumed cl1.evs)).off ∧
      endo = lastEnd ll.items (inp.tok (consumed cl1.evs)).off ∧
      off = firstOff (cx2.stack.take ln.toNat) (inp.tok (consumed cl1.evs)).off := by
    rw [hitems]
    rcases hc2 with ⟨h0, _, ho, he⟩ | ⟨h0, hc, ho, he⟩
    · rw [ho, he, hf1, h0]
      simp [headOff, lastEnd, firstOff]
    · rw [ho, he, ← hc]
      have hne : cx2.stack.take ln.toNat ≠ [] := by
        intro hnil; rw [hnil] at htl; simp at htl; omega
      generalize cx2.stack.take ln.toNat = T at hne
      unfold headOff lastEnd firstOff
      rw [List.head?_map, List.head?_reverse, List.getLast?_map, List.getLast?_reverse]
      cases hT : T.getLast? with
      | none => rw [List.getLast?_eq_none_iff] at hT; exact absurd hT hne
      | some a =>
        cases hT' : T.head? with
        | none => rw [List.head?_eq_none_iff] at hT'; exact absurd hT' hne
        | some b => simp [rng]
  have hlay := applyRule_layout x rule hrule cx2.stack ln.toNat (by rw [hstk2]; exact hle)
    (F.take ln.toNat).reverse _ ll hll hitems hwf off endo endo' evs hoff.1 hoff.2.1 hap
  have hlen2 : ln.toNat ≤ F.length := by
    have : (cx2.stack.take ln.toNat ++ top :: rest).length = F.length + 1 := by
      rw [← hsplit]; exact hFlen
    simp only [List.length_append, htl, List.length_cons] at this
    omega
  subst hc'
  refine ⟨rfl, hinv2.pos, hinv2.next, ?_, ?_, ?_, ?_⟩
  · simp only [List.map_cons, List.cons.injEq, true_and]
    rw [hrest'] at hdrop
    simpa using hdrop
  · intro rest0
    simp only [List.reverse_cons, List.append_assoc, List.singleton_append]
    rw [hinv2.build]
    rw [buildForest, hln]
    simp only
    rw [if_neg (by omega)]
  · simp only [consumed_reduce]; exact hinv2.look
  · simp only [consumed_reduce, hevs2]
    have hrestLaid' := hrestLaid
    rw [← hoff.2.2] at hrestLaid'
    refine .cons hlay ?_ hrestLaid' ?_
    · show geti x.t.ruleSymbol ((rule.toNat : Nat) : Int) = some lhs
      rw [Int.toNat_of_nonneg hrule]; exact hlhs
    · simp only [List.reverse_append, List.reverse_reverse]
      rw [hevsEq]; simp

/-- one continuing step -/
theorem inv_step {x : XTables} {inp : Input} {fin : Int} {cx cx' : XCfg} {cl : Cfg} {F : List PTree}
    (hx : x.recovering = false) (hwf : reportsWF x = true)
    (h : Inv x inp cx cl F) (hs : xstep x inp fin false 0 cx = .cont cx') :
    ∃ cl' F', step x.t inp cl = .cont cl' ∧ Inv x inp cx' cl' F' := by
  obtain ⟨cx1, a, hd, hcase⟩ := xstep_cont hx hs
  obtain ⟨cl1, hd', hinv1, _⟩ := inv_decode h hd
  unfold step
  rw [hd']
  simp only
  rcases hcase with ⟨q, tk, ha, hn, hc'⟩ | ⟨rule, ha, hr⟩
  · subst ha hc'
    exact inv_shift hinv1 hn
  · subst ha
    exact inv_reduce hwf hinv1 hr

/-- the whole loop -/
theorem inv_loop {x : XTables} {inp : Input} {fin : Int} (hx : x.recovering = false)
    (hwf : reportsWF x = true) : ∀ (fuel : Nat) {cx c : XCfg} {cl : Cfg} {F : List PTree},
    Inv x inp cx cl F → xrunLoop x inp fin false 0 fuel cx = (.accept, c) →
    ∃ cl' F', runLoop x.t inp fin fuel cl = (.accept, cl') ∧ Inv x inp c cl' F'
  | 0, _, _, _, _, _, hr => by simp [xrunLoop] at hr
  | fuel + 1, cx, c, cl, F, h, hr => by
    rw [xrunLoop] at hr
    rw [runLoop]
    by_cases hfin : cx.state = fin
    · rw [if_pos hfin] at hr
      rw [if_pos (by rw [h.state]; exact hfin)]
      injection hr with _ hr
      subst hr
      exact ⟨cl, F, rfl, h⟩
    · rw [if_neg hfin] at hr
      rw [if_neg (by rw [h.state]; exact hfin)]
      cases hs : xstep x inp fin false 0 cx with
      | cont cx' =>
        rw [hs] at hr
        obtain ⟨cl', F', hstep, hinv'⟩ := inv_step hx hwf h hs
        rw [hstep]
        exact inv_loop hx hwf fuel hinv' hr
      | done r c' =>
        rw [hs] at hr
        simp only [Prod.mk.injEq] at hr
        rw [hr.1] at hs
        exact absurd hs (xstep_not_accept hx)

end TmVerif.Events
