import TmVerif.Proofs.Diff
/-!
C27, Myers search, part 1: the table of prefix LCS lengths `Lp A B x y = LCS(A[:x], B[:y])`
(for all `x y : Nat`; `take` saturates, which is exactly how the Go search treats points
outside the grid: only horizontal and vertical moves there).
-/
namespace TmVerif.Diff
open scoped List
set_option linter.unusedSectionVars false
variable {α : Type} [DecidableEq α]

/-! ### one more element on one side -/

theorem lcsRec_cons_left_ge (x : α) (a b : List α) : lcsRec a b ≤ lcsRec (x :: a) b := by
  obtain ⟨s, h1, h2, h3⟩ := lcsRec_witness a b
  have := lcsRec_upper (x :: a) b s (h1.cons x) h2
  omega

theorem lcsRec_cons_left_le (x : α) (a b : List α) : lcsRec (x :: a) b ≤ lcsRec a b + 1 := by
  obtain ⟨s, h1, h2, h3⟩ := lcsRec_witness (x :: a) b
  rcases List.sublist_cons_iff.mp h1 with h | ⟨r, e, h⟩
  · have := lcsRec_upper a b s h h2
    omega
  · subst e
    have hr : r <+ b := (List.sublist_cons_self x r).trans h2
    have := lcsRec_upper a b r h hr
    simp at h3; omega

theorem lcsRec_cons_right_ge (y : α) (a b : List α) : lcsRec a b ≤ lcsRec a (y :: b) := by
  rw [lcsRec_comm a b, lcsRec_comm a (y :: b)]; exact lcsRec_cons_left_ge y b a

theorem lcsRec_cons_right_le (y : α) (a b : List α) : lcsRec a (y :: b) ≤ lcsRec a b + 1 := by
  rw [lcsRec_comm a b, lcsRec_comm a (y :: b)]; exact lcsRec_cons_left_le y b a

theorem lcsRec_cons_cons_le (x y : α) (a b : List α) :
    lcsRec (x :: a) (y :: b) ≤ lcsRec a b + 1 := by
  rw [lcsRec]
  split
  · omega
  · have := lcsRec_cons_right_le y a b
    have := lcsRec_cons_left_le x a b
    omega

theorem lcsRec_cons_cons_ne (x y : α) (a b : List α) (h : x ≠ y) :
    lcsRec (x :: a) (y :: b) = max (lcsRec a (y :: b)) (lcsRec (x :: a) b) := by
  rw [lcsRec]; simp [h]

/-! the same at the end of the lists -/

theorem lcsRec_snoc_left_ge (x : α) (a b : List α) : lcsRec a b ≤ lcsRec (a ++ [x]) b := by
  rw [← lcsRec_reverse a b, ← lcsRec_reverse (a ++ [x]) b]
  simpa using lcsRec_cons_left_ge x a.reverse b.reverse

theorem lcsRec_snoc_left_le (x : α) (a b : List α) : lcsRec (a ++ [x]) b ≤ lcsRec a b + 1 := by
  rw [← lcsRec_reverse a b, ← lcsRec_reverse (a ++ [x]) b]
  simpa using lcsRec_cons_left_le x a.reverse b.reverse

theorem lcsRec_snoc_right_ge (y : α) (a b : List α) : lcsRec a b ≤ lcsRec a (b ++ [y]) := by
  rw [← lcsRec_reverse a b, ← lcsRec_reverse a (b ++ [y])]
  simpa using lcsRec_cons_right_ge y a.reverse b.reverse

theorem lcsRec_snoc_right_le (y : α) (a b : List α) : lcsRec a (b ++ [y]) ≤ lcsRec a b + 1 := by
  rw [← lcsRec_reverse a b, ← lcsRec_reverse a (b ++ [y])]
  simpa using lcsRec_cons_right_le y a.reverse b.reverse

theorem lcsRec_snoc_snoc_eq (x : α) (a b : List α) :
    lcsRec (a ++ [x]) (b ++ [x]) = lcsRec a b + 1 := by
  simpa using lcsRec_suffix [x] a b

theorem lcsRec_snoc_snoc_ne (x y : α) (a b : List α) (h : x ≠ y) :
    lcsRec (a ++ [x]) (b ++ [y]) = max (lcsRec a (b ++ [y])) (lcsRec (a ++ [x]) b) := by
  rw [← lcsRec_reverse (a ++ [x]) (b ++ [y]), ← lcsRec_reverse a (b ++ [y]),
    ← lcsRec_reverse (a ++ [x]) b]
  simpa using lcsRec_cons_cons_ne x y a.reverse b.reverse h

/-- appending on both sides: the parts add up to at most the whole -/
theorem lcsRec_append_ge (a1 a2 b1 b2 : List α) :
    lcsRec a1 b1 + lcsRec a2 b2 ≤ lcsRec (a1 ++ a2) (b1 ++ b2) := by
  obtain ⟨s1, h1, h2, h3⟩ := lcsRec_witness a1 b1
  obtain ⟨s2, g1, g2, g3⟩ := lcsRec_witness a2 b2
  have := lcsRec_upper (a1 ++ a2) (b1 ++ b2) (s1 ++ s2) (h1.append g1) (h2.append g2)
  simp at this; omega

/-! ### the table of prefixes -/

/-- `LCS(A[:x], B[:y])` -/
def Lp (A B : List α) (x y : Nat) : Nat := lcsRec (A.take x) (B.take y)

theorem Lp_zero_left (A B : List α) (y : Nat) : Lp A B 0 y = 0 := by
  simp [Lp, lcsRec]

theorem Lp_zero_right (A B : List α) (x : Nat) : Lp A B x 0 = 0 := by
  simp [Lp, lcsRec_nil_right]

theorem Lp_le_x (A B : List α) (x y : Nat) : Lp A B x y ≤ x := by
  have := lcsRec_le_left (A.take x) (B.take y)
  simp at this; unfold Lp; omega

theorem Lp_le_y (A B : List α) (x y : Nat) : Lp A B x y ≤ y := by
  have := lcsRec_le_right (A.take x) (B.take y)
  simp at this; unfold Lp; omega

theorem take_succ_lt (A : List α) (x : Nat) (h : x < A.length) :
    A.take (x + 1) = A.take x ++ [A[x]] := by
  rw [List.take_add_one]; simp [h]

theorem take_succ_ge (A : List α) (x : Nat) (h : A.length ≤ x) : A.take (x + 1) = A.take x := by
  rw [List.take_of_length_le (by omega), List.take_of_length_le h]

theorem Lp_succ_x (A B : List α) (x y : Nat) :
    Lp A B x y ≤ Lp A B (x + 1) y ∧ Lp A B (x + 1) y ≤ Lp A B x y + 1 := by
  unfold Lp
  by_cases h : x < A.length
  · rw [take_succ_lt A x h]
    exact ⟨lcsRec_snoc_left_ge _ _ _, lcsRec_snoc_left_le _ _ _⟩
  · rw [take_succ_ge A x (by omega)]; omega

theorem Lp_succ_y (A B : List α) (x y : Nat) :
    Lp A B x y ≤ Lp A B x (y + 1) ∧ Lp A B x (y + 1) ≤ Lp A B x y + 1 := by
  unfold Lp
  by_cases h : y < B.length
  · rw [take_succ_lt B y h]
    exact ⟨lcsRec_snoc_right_ge _ _ _, lcsRec_snoc_right_le _ _ _⟩
  · rw [take_succ_ge B y (by omega)]; omega

/-- a diagonal step over equal elements -/
theorem Lp_match (A B : List α) (x y : Nat) (hx : x < A.length) (hy : y < B.length)
    (he : A[x] = B[y]) : Lp A B (x + 1) (y + 1) = Lp A B x y + 1 := by
  unfold Lp
  rw [take_succ_lt A x hx, take_succ_lt B y hy, he]
  exact lcsRec_snoc_snoc_eq _ _ _

/-- everywhere else (unequal elements, or outside the grid) -/
theorem Lp_nomatch (A B : List α) (x y : Nat)
    (h : ¬ ∃ (hx : x < A.length) (hy : y < B.length), A[x] = B[y]) :
    Lp A B (x + 1) (y + 1) = max (Lp A B x (y + 1)) (Lp A B (x + 1) y) := by
  by_cases hx : x < A.length
  · by_cases hy : y < B.length
    · have hne : A[x] ≠ B[y] := fun e => h ⟨hx, hy, e⟩
      unfold Lp
      rw [take_succ_lt A x hx, take_succ_lt B y hy]
      exact lcsRec_snoc_snoc_ne _ _ _ _ hne
    · have e : B.take (y + 1) = B.take y := take_succ_ge B y (by omega)
      have := (Lp_succ_x A B x y).1
      unfold Lp at this ⊢
      rw [e]
      have h2 := (Lp_succ_x A B x y).1
      unfold Lp at h2
      omega
  · have e : A.take (x + 1) = A.take x := take_succ_ge A x (by omega)
    have h2 := (Lp_succ_y A B x y).1
    unfold Lp at h2 ⊢
    rw [e]
    omega

theorem Lp_diag (A B : List α) (x y : Nat) : Lp A B (x + 1) (y + 1) ≤ Lp A B x y + 1 := by
  by_cases h : ∃ (hx : x < A.length) (hy : y < B.length), A[x] = B[y]
  · obtain ⟨hx, hy, he⟩ := h
    rw [Lp_match A B x y hx hy he]; exact Nat.le_refl _
  · rw [Lp_nomatch A B x y h]
    have := (Lp_succ_y A B x y).2
    have := (Lp_succ_x A B x y).2
    omega

/-- `LCS(A[x:], B[y:])` -/
def Ls (A B : List α) (x y : Nat) : Nat := lcsRec (A.drop x) (B.drop y)

theorem Lp_add_Ls_le (A B : List α) (x y : Nat) : Lp A B x y + Ls A B x y ≤ lcsRec A B := by
  have := lcsRec_append_ge (A.take x) (A.drop x) (B.take y) (B.drop y)
  simpa [Lp, Ls] using this

theorem Lp_full (A B : List α) : Lp A B A.length B.length = lcsRec A B := by
  simp [Lp]

theorem Ls_zero (A B : List α) : Ls A B 0 0 = lcsRec A B := by
  simp [Ls]

end TmVerif.Diff
