import TmVerif.Proofs.LexDeriv
/-!
C09 helper lemmas, part 5: the executable `scanSpec` (derivative vectors) computes the relation `ScanResult`,
which states the property with languages only.
-/
namespace TmVerif.LexSpec
open TmVerif.Charset TmVerif.Regex

/-! ### priority -/

/-- What `bestFrom` returns, for an accumulator `acc` that came from earlier rules. -/
theorem bestFrom_spec : ∀ (rs : List Rule) (ds : List Regex) (acc : Option (Int × Int)), ds.length = rs.length →
    (bestFrom acc rs ds = none ↔ acc = none ∧ ∀ k (h : k < ds.length), nullable ds[k] = false) ∧
    (∀ p a, bestFrom acc rs ds = some (p, a) →
      (acc = some (p, a) ∧ ∀ k (h : k < ds.length) (h' : k < rs.length), nullable ds[k] = true → rs[k].prec ≤ p) ∨
      (∃ k, ∃ (h : k < ds.length) (h' : k < rs.length), nullable ds[k] = true ∧ rs[k].prec = p ∧ rs[k].action = a ∧
        (∀ p0 a0, acc = some (p0, a0) → p0 < p) ∧
        (∀ j (hj : j < ds.length) (hj' : j < rs.length), j < k → nullable ds[j] = true → rs[j].prec < p) ∧
        (∀ j (hj : j < ds.length) (hj' : j < rs.length), k < j → nullable ds[j] = true → rs[j].prec ≤ p)))
  | [], ds, acc, hl => by
    have : ds = [] := by cases ds with
      | nil => rfl
      | cons _ _ => simp at hl
    subst this
    simp only [bestFrom]
    refine ⟨⟨fun h => ⟨h, fun k hk => by simp at hk⟩, fun h => h.1⟩, ?_⟩
    intro p a h
    exact Or.inl ⟨h, fun k hk => by simp at hk⟩
  | r :: rs, [], acc, hl => by simp at hl
  | r :: rs, d :: ds, acc, hl => by
    have hl' : ds.length = rs.length := by simpa using hl
    simp only [bestFrom]
    cases hn : nullable d with
    | false =>
      simp only [Bool.false_eq_true, if_false]
      obtain ⟨ih1, ih2⟩ := bestFrom_spec rs ds acc hl'
      refine ⟨?_, ?_⟩
      · rw [ih1]
        constructor
        · rintro ⟨h1, h2⟩
          refine ⟨h1, ?_⟩
          intro k hk
          cases k with
          | zero => simpa using hn
          | succ k => simpa using h2 k (by simpa using hk)
        · rintro ⟨h1, h2⟩
          refine ⟨h1, fun k hk => ?_⟩
          have := h2 (k + 1) (by simpa using hk)
          simpa only [List.getElem_cons_succ] using this
      · intro p a h
        rcases ih2 p a h with ⟨h1, h2⟩ | ⟨k, hk, hk', h1, h2, h3, h4, h5, h6⟩
        · left
          refine ⟨h1, ?_⟩
          intro k hk hk' hnk
          cases k with
          | zero => simp [hn] at hnk
          | succ k => simpa using h2 k (by simpa using hk) (by simpa using hk') (by simpa using hnk)
        · right
          refine ⟨k + 1, by simpa using hk, by simpa using hk', by simpa using h1, by simpa using h2,
            by simpa using h3, h4, ?_, ?_⟩
          · intro j hj hj' hjk hnj
            cases j with
            | zero => simp [hn] at hnj
            | succ j => simpa using h5 j (by simpa using hj) (by simpa using hj') (by omega) (by simpa using hnj)
          · intro j hj hj' hjk hnj
            cases j with
            | zero => omega
            | succ j => simpa using h6 j (by simpa using hj) (by simpa using hj') (by omega) (by simpa using hnj)
    | true =>
      simp only [if_true]
      -- the new accumulator
      have key : ∀ acc' : Option (Int × Int), acc' = bestUpd acc r →
          (acc' = some (r.prec, r.action) ∧ ∀ p0 a0, acc = some (p0, a0) → p0 < r.prec) ∨
          (acc' = acc ∧ ∃ p0 a0, acc = some (p0, a0) ∧ r.prec ≤ p0) := by
        intro acc' h
        unfold bestUpd at h
        cases acc with
        | none => left; exact ⟨h, fun _ _ h => by cases h⟩
        | some pa =>
          obtain ⟨p0, a0⟩ := pa
          simp only at h
          split at h
          · rename_i hlt
            left
            refine ⟨h, ?_⟩
            intro p1 a1 h1
            simp only [Option.some.injEq, Prod.mk.injEq] at h1
            omega
          · right; exact ⟨h, p0, a0, rfl, by omega⟩
      generalize hacc' : bestUpd acc r = acc'
      obtain ⟨ih1, ih2⟩ := bestFrom_spec rs ds acc' hl'
      have hk := key acc' hacc'.symm
      refine ⟨?_, ?_⟩
      · rw [ih1]
        constructor
        · rintro ⟨h1, _⟩
          rcases hk with ⟨h, _⟩ | ⟨h, p0, a0, h', _⟩
          · rw [h] at h1; cases h1
          · rw [h, h'] at h1; cases h1
        · rintro ⟨_, h2⟩
          have := h2 0 (by simp)
          simp [hn] at this
      · intro p a h
        rcases ih2 p a h with ⟨h1, h2⟩ | ⟨k, hk1, hk', h1, h2, h3, h4, h5, h6⟩
        · -- the accumulator after this rule survives
          rcases hk with ⟨hnew, hlt⟩ | ⟨hsame, p0, a0, hacc, hle⟩
          · -- this rule wins
            right
            rw [hnew] at h1
            simp only [Option.some.injEq, Prod.mk.injEq] at h1
            obtain ⟨rfl, rfl⟩ := h1
            refine ⟨0, by simp, by simp, by simpa using hn, rfl, rfl, hlt, ?_, ?_⟩
            · intro j _ _ hj; omega
            · intro j hj hj' hjk hnj
              cases j with
              | zero => omega
              | succ j => simpa using h2 j (by simpa using hj) (by simpa using hj') (by simpa using hnj)
          · left
            rw [hsame] at h1
            refine ⟨h1, ?_⟩
            rw [hacc] at h1
            simp only [Option.some.injEq, Prod.mk.injEq] at h1
            obtain ⟨rfl, rfl⟩ := h1
            intro k hk hk' hnk
            cases k with
            | zero => simpa using hle
            | succ k => simpa using h2 k (by simpa using hk) (by simpa using hk') (by simpa using hnk)
        · right
          have hrp : r.prec ≤ p ∧ (∀ p0 a0, acc = some (p0, a0) → p0 < p) := by
            rcases hk with ⟨hnew, hlt⟩ | ⟨hsame, p0, a0, hacc, hle⟩
            · have := h4 _ _ hnew
              exact ⟨by omega, fun p0 a0 h0 => by have := hlt p0 a0 h0; omega⟩
            · have := h4 p0 a0 (by rw [hsame, hacc])
              refine ⟨by omega, ?_⟩
              intro p1 a1 h1'
              rw [hacc] at h1'
              simp only [Option.some.injEq, Prod.mk.injEq] at h1'
              omega
          have hstrict : r.prec < p := by
            rcases hk with ⟨hnew, _⟩ | ⟨hsame, p0, a0, hacc, hle⟩
            · exact h4 _ _ hnew
            · have := h4 p0 a0 (by rw [hsame, hacc]); omega
          refine ⟨k + 1, by simpa using hk1, by simpa using hk', by simpa using h1, by simpa using h2,
            by simpa using h3, hrp.2, ?_, ?_⟩
          · intro j hj hj' hjk hnj
            cases j with
            | zero => simpa using hstrict
            | succ j => simpa using h5 j (by simpa using hj) (by simpa using hj') (by omega) (by simpa using hnj)
          · intro j hj hj' hjk hnj
            cases j with
            | zero => omega
            | succ j => simpa using h6 j (by simpa using hj) (by simpa using hj') (by omega) (by simpa using hnj)

/-! ### derivative vectors -/

/-- The derivatives of the rules active in `sc` by the word `u`. -/
def vecAt (rules : List Rule) (sc : Int) (u : List Int) : List Regex :=
  (initVec rules sc).map fun d => derivsN d u

theorem vecAt_nil (rules : List Rule) (sc : Int) : vecAt rules sc [] = initVec rules sc := by
  unfold vecAt derivsN
  simp

theorem stepVec_vecAt (rules : List Rule) (sc : Int) (u : List Int) (s : Int) :
    stepVec s (vecAt rules sc u) = vecAt rules sc (u ++ [s]) := by
  unfold stepVec vecAt derivsN
  simp [List.foldl_append]

theorem vecAt_length (rules : List Rule) (sc : Int) (u : List Int) : (vecAt rules sc u).length = rules.length := by
  simp [vecAt, initVec]

theorem L_vecAt (rules : List Rule) (sc : Int) (u : List Int) (k : Nat) (h : k < (vecAt rules sc u).length)
    (v : List Int) : L (vecAt rules sc u)[k] v ↔ RuleMatches rules sc k (u ++ v) := by
  have hk : k < rules.length := by rw [vecAt_length] at h; exact h
  unfold RuleMatches
  simp only [vecAt, initVec, List.getElem_map]
  rw [derivsN_correct]
  rw [List.getElem?_eq_getElem hk]
  constructor
  · intro hl
    split at hl
    · rename_i hc
      exact ⟨rules[k], rfl, by simpa using hc, hl⟩
    · exact absurd hl (L_empty _)
  · rintro ⟨r, hr, hsc, hl⟩
    simp only [Option.some.injEq] at hr
    subst hr
    rw [if_pos (by simpa using hsc)]
    exact hl

theorem nullable_vecAt (rules : List Rule) (sc : Int) (u : List Int) (k : Nat) (h : k < (vecAt rules sc u).length) :
    nullable (vecAt rules sc u)[k] = true ↔ RuleMatches rules sc k u := by
  rw [nullable_iff, L_vecAt, List.append_nil]

theorem ruleMatches_lt {rules : List Rule} {sc : Int} {k : Nat} {w : List Int} (h : RuleMatches rules sc k w) :
    k < rules.length := by
  obtain ⟨r, hr, _⟩ := h
  exact (List.getElem?_eq_some_iff.1 hr).1

theorem dead_vecAt (rules : List Rule) (sc : Int) (u : List Int) :
    dead (vecAt rules sc u) = true ↔ ¬ Viable rules sc u := by
  unfold dead Viable
  rw [List.all_eq_true]
  constructor
  · rintro hall ⟨i, v, hm⟩
    have hi : i < (vecAt rules sc u).length := by rw [vecAt_length]; exact ruleMatches_lt hm
    have := hall _ (List.getElem_mem hi)
    rw [emptyB_iff] at this
    exact this v ((L_vecAt rules sc u i hi v).2 hm)
  · intro hnv d hd
    rw [emptyB_iff]
    intro v hl
    obtain ⟨k, hk, rfl⟩ := List.getElem_of_mem hd
    exact hnv ⟨k, v, (L_vecAt rules sc u k hk v).1 hl⟩

theorem accept_vecAt_none (rules : List Rule) (sc : Int) (u : List Int) :
    accept rules (vecAt rules sc u) = none ↔ ¬ ∃ i, RuleMatches rules sc i u := by
  unfold accept
  rw [Option.map_eq_none_iff, (bestFrom_spec rules _ none (vecAt_length rules sc u)).1]
  constructor
  · rintro ⟨_, h⟩ ⟨i, hm⟩
    have hi : i < (vecAt rules sc u).length := by rw [vecAt_length]; exact ruleMatches_lt hm
    have := h i hi
    rw [(nullable_vecAt rules sc u i hi).2 hm] at this
    cases this
  · intro h
    refine ⟨rfl, fun k hk => ?_⟩
    cases hn : nullable (vecAt rules sc u)[k] with
    | false => rfl
    | true => exact absurd ⟨k, (nullable_vecAt rules sc u k hk).1 hn⟩ h

theorem accept_vecAt_some (rules : List Rule) (sc : Int) (u : List Int) (a : Int)
    (h : accept rules (vecAt rules sc u) = some a) :
    ∃ i r, IsBest rules sc i u ∧ rules[i]? = some r ∧ a = r.action := by
  unfold accept at h
  rw [Option.map_eq_some_iff] at h
  obtain ⟨⟨p, a'⟩, hb, rfl⟩ := h
  rcases (bestFrom_spec rules _ none (vecAt_length rules sc u)).2 p a' hb with ⟨h, _⟩ | ⟨k, hk, hk', h1, h2, h3, _, h5, h6⟩
  · cases h
  · refine ⟨k, rules[k], ⟨(nullable_vecAt rules sc u k hk).1 h1, ?_⟩, List.getElem?_eq_getElem hk', h3.symm⟩
    intro j hj ri rj hri hrj
    have hjl := ruleMatches_lt hj
    have hjd : j < (vecAt rules sc u).length := by rw [vecAt_length]; exact hjl
    have hnj := (nullable_vecAt rules sc u j hjd).2 hj
    rw [List.getElem?_eq_getElem hk'] at hri
    rw [List.getElem?_eq_getElem hjl] at hrj
    simp only [Option.some.injEq] at hri hrj
    subst hri; subst hrj
    by_cases hjk : j < k
    · left; have := h5 j hjd hjl hjk hnj; omega
    · by_cases hkj : k < j
      · have := h6 j hjd hjl hkj hnj
        by_cases he : rules[j].prec = rules[k].prec
        · right; exact ⟨he, by omega⟩
        · left; omega
      · have : j = k := by omega
        subst this
        right; exact ⟨rfl, Nat.le_refl _⟩

/-! ### the scan -/

theorem viable_prefix {rules : List Rule} {sc : Int} {u x : List Int} (h : Viable rules sc (u ++ x)) :
    Viable rules sc u := by
  obtain ⟨i, v, hm⟩ := h
  exact ⟨i, x ++ v, by rw [← List.append_assoc]; exact hm⟩

theorem viable_of_matches {rules : List Rule} {sc : Int} {i : Nat} {u : List Int}
    (h : RuleMatches rules sc i u) : Viable rules sc u := ⟨i, [], by rw [List.append_nil]; exact h⟩

def MatchAt (rules : List Rule) (sc : Int) (stream : List (Int × Nat)) (n : Nat) : Prop :=
  0 < n ∧ n ≤ stream.length ∧ ∃ i, RuleMatches rules sc i (symsOf (stream.take n))

def ViableAt (rules : List Rule) (sc : Int) (stream : List (Int × Nat)) (n : Nat) : Prop :=
  n ≤ stream.length ∧ (n = 0 ∨ Viable rules sc (symsOf (stream.take n)))

/-- The body of `ScanResult` for a given stream. -/
def ResultOf (rules : List Rule) (sc : Int) (stream : List (Int × Nat)) (res : Nat × Int) : Prop :=
  (∃ n, MatchAt rules sc stream n ∧ (∀ m, MatchAt rules sc stream m → m ≤ n) ∧
      ∃ i r, IsBest rules sc i (symsOf (stream.take n)) ∧ rules[i]? = some r ∧
        res = (bytesOf (stream.take n), r.action)) ∨
  ((¬ ∃ n, MatchAt rules sc stream n) ∧
    ∃ n, ViableAt rules sc stream n ∧ (∀ m, ViableAt rules sc stream m → m ≤ n) ∧ res = (bytesOf (stream.take n), 0))

theorem scanResult_iff (rules : List Rule) (sc : Int) (chars : List (Int × Nat)) (res : Nat × Int) :
    ScanResult rules sc chars res ↔ ResultOf rules sc (chars ++ [(eoiSym, 0)]) res := Iff.rfl

/-- `last` holds the longest match among the first `n` characters. -/
def LastOk (rules : List Rule) (sc : Int) (stream : List (Int × Nat)) (n : Nat) (last : Option (Nat × Int)) : Prop :=
  (last = none ∧ ∀ m, m ≤ n → ¬ MatchAt rules sc stream m) ∨
  (∃ k, k ≤ n ∧ MatchAt rules sc stream k ∧ (∀ m, m ≤ n → MatchAt rules sc stream m → m ≤ k) ∧
    ∃ i r, IsBest rules sc i (symsOf (stream.take k)) ∧ rules[i]? = some r ∧
      last = some (bytesOf (stream.take k), r.action))

theorem symsOf_take_le (stream : List (Int × Nat)) (n m : Nat) (h : n ≤ m) :
    ∃ x, symsOf (stream.take m) = symsOf (stream.take n) ++ x := by
  refine ⟨symsOf ((stream.take m).drop n), ?_⟩
  unfold symsOf
  rw [← List.map_append]
  congr 1
  have : stream.take n = (stream.take m).take n := by
    rw [List.take_take, Nat.min_eq_left h]
  rw [this, List.take_append_drop]

/-- The scan has stopped after `n` characters: nothing longer matches or is viable. -/
theorem finish (rules : List Rule) (sc : Int) (stream : List (Int × Nat)) (n : Nat) (last : Option (Nat × Int))
    (pos : Nat) (hmm : ∀ m, MatchAt rules sc stream m → m ≤ n) (hmv : ∀ m, ViableAt rules sc stream m → m ≤ n)
    (hv : ViableAt rules sc stream n) (hlast : LastOk rules sc stream n last)
    (hpos : pos = bytesOf (stream.take n)) : ResultOf rules sc stream (last.getD (pos, 0)) := by
  rcases hlast with ⟨h1, h2⟩ | ⟨k, hk, hmk, hmax, i, r, hb, hr, hl⟩
  · right
    subst h1
    refine ⟨?_, n, hv, hmv, by rw [hpos]; rfl⟩
    rintro ⟨m, hm⟩
    exact h2 m (hmm m hm) hm
  · left
    subst hl
    exact ⟨k, hmk, fun m hm => hmax m (hmm m hm) hm, i, r, hb, hr, rfl⟩

theorem specLoop_result (rules : List Rule) (sc : Int) (stream : List (Int × Nat)) :
    ∀ (rest pre : List (Int × Nat)), stream = pre ++ rest → ∀ (last : Option (Nat × Int)),
      (pre = [] ∨ Viable rules sc (symsOf pre)) → LastOk rules sc stream pre.length last →
      ResultOf rules sc stream (specLoop rules (vecAt rules sc (symsOf pre)) (bytesOf pre) last rest) := by
  intro rest
  induction rest with
  | nil =>
    intro pre hs last hv hlast
    simp only [List.append_nil] at hs
    subst hs
    simp only [specLoop]
    apply finish rules sc stream stream.length last _ (fun m hm => hm.2.1) (fun m hm => hm.1) _ hlast
    · rw [List.take_length]
    · refine ⟨Nat.le_refl _, ?_⟩
      rcases hv with h | h
      · left; rw [h]; rfl
      · right; rw [List.take_length]; exact h
  | cons x rest ih =>
    intro pre hs last hv hlast
    obtain ⟨s, w⟩ := x
    have htake : stream.take pre.length = pre := by rw [hs]; simp
    have htake1 : stream.take (pre.length + 1) = pre ++ [(s, w)] := by
      rw [hs, List.take_append]
      simp [List.take_of_length_le]
    have hlen : pre.length + 1 ≤ stream.length := by rw [hs]; simp
    have hsyms : symsOf (pre ++ [(s, w)]) = symsOf pre ++ [s] := by simp [symsOf]
    simp only [specLoop, stepVec_vecAt]
    rw [← hsyms]
    by_cases hd : dead (vecAt rules sc (symsOf (pre ++ [(s, w)]))) = true
    · rw [if_pos hd]
      rw [dead_vecAt] at hd
      have hnv : ∀ m, pre.length + 1 ≤ m → ¬ Viable rules sc (symsOf (stream.take m)) := by
        intro m hm hvm
        obtain ⟨x, hx⟩ := symsOf_take_le stream (pre.length + 1) m hm
        rw [hx, htake1] at hvm
        exact hd (viable_prefix hvm)
      apply finish rules sc stream pre.length last _ _ _ _ hlast (by rw [htake])
      · intro m hm
        by_cases hle : m ≤ pre.length
        · exact hle
        · obtain ⟨_, _, i, hi⟩ := hm
          exact absurd (viable_of_matches hi) (hnv m (by omega))
      · intro m hm
        by_cases hle : m ≤ pre.length
        · exact hle
        · rcases hm.2 with h | h
          · omega
          · exact absurd h (hnv m (by omega))
      · refine ⟨by omega, ?_⟩
        rcases hv with h | h
        · left; rw [h]; rfl
        · right; rw [htake]; exact h
    · rw [if_neg hd]
      have hviable : Viable rules sc (symsOf (pre ++ [(s, w)])) := by
        apply Classical.byContradiction
        intro hnv
        exact hd ((dead_vecAt rules sc (symsOf (pre ++ [(s, w)]))).2 hnv)
      have hbytes : bytesOf (pre ++ [(s, w)]) = bytesOf pre + w := by simp [bytesOf]
      rw [← hbytes]
      have hs' : stream = (pre ++ [(s, w)]) ++ rest := by rw [hs]; simp
      apply ih (pre ++ [(s, w)]) hs' _ (Or.inr hviable)
      have hlen' : (pre ++ [(s, w)]).length = pre.length + 1 := by simp
      rw [hlen']
      cases hacc : accept rules (vecAt rules sc (symsOf (pre ++ [(s, w)]))) with
      | some a =>
        obtain ⟨i, r, hb, hr, ha⟩ := accept_vecAt_some rules sc _ a hacc
        right
        refine ⟨pre.length + 1, Nat.le_refl _, ⟨by omega, hlen, i, by rw [htake1]; exact hb.1⟩,
          fun m hm _ => hm, i, r, by rw [htake1]; exact hb, hr, ?_⟩
        simp only
        rw [htake1, ha]
      | none =>
        simp only
        have hnm : ¬ MatchAt rules sc stream (pre.length + 1) := by
          rintro ⟨_, _, i, hi⟩
          rw [htake1] at hi
          exact (accept_vecAt_none rules sc _).1 hacc ⟨i, hi⟩
        rcases hlast with ⟨h1, h2⟩ | ⟨k, hk, hmk, hmax, hrest⟩
        · left
          refine ⟨h1, ?_⟩
          intro m hm
          by_cases hle : m ≤ pre.length
          · exact h2 m hle
          · have : m = pre.length + 1 := by omega
            subst this; exact hnm
        · right
          refine ⟨k, by omega, hmk, ?_, hrest⟩
          intro m hm hmm
          by_cases hle : m ≤ pre.length
          · exact hmax m hle hmm
          · have : m = pre.length + 1 := by omega
            subst this; exact absurd hmm hnm

/-- `scanSpec` computes the relation `ScanResult`. -/
theorem scanSpec_meets (rules : List Rule) (sc : Int) (chars : List (Int × Nat)) :
    ScanResult rules sc chars (scanSpec rules sc chars) := by
  rw [scanResult_iff]
  unfold scanSpec
  have := specLoop_result rules sc (chars ++ [(eoiSym, 0)]) (chars ++ [(eoiSym, 0)]) [] rfl none (Or.inl rfl)
    (Or.inl ⟨rfl, fun m hm hmm => by have := hmm.1; simp at hm; omega⟩)
  simpa [symsOf, bytesOf, vecAt_nil] using this

/-- The relation determines the result. -/
theorem resultOf_unique (rules : List Rule) (sc : Int) (stream : List (Int × Nat)) (r1 r2 : Nat × Int)
    (h1 : ResultOf rules sc stream r1) (h2 : ResultOf rules sc stream r2) : r1 = r2 := by
  rcases h1 with ⟨n1, hm1, hmax1, i1, ru1, hb1, hr1, e1⟩ | ⟨hno1, n1, hv1, hmax1, e1⟩ <;>
  rcases h2 with ⟨n2, hm2, hmax2, i2, ru2, hb2, hr2, e2⟩ | ⟨hno2, n2, hv2, hmax2, e2⟩
  · have hn : n1 = n2 := Nat.le_antisymm (hmax2 n1 hm1) (hmax1 n2 hm2)
    subst hn
    have hi : i1 = i2 := by
      have a := hb1.2 i2 hb2.1 ru1 ru2 hr1 hr2
      have b := hb2.2 i1 hb1.1 ru2 ru1 hr2 hr1
      omega
    subst hi
    rw [hr1] at hr2
    simp only [Option.some.injEq] at hr2
    subst hr2
    rw [e1, e2]
  · exact absurd ⟨n1, hm1⟩ hno2
  · exact absurd ⟨n2, hm2⟩ hno1
  · have hn : n1 = n2 := Nat.le_antisymm (hmax2 n1 hv1) (hmax1 n2 hv2)
    subst hn
    rw [e1, e2]

end TmVerif.LexSpec
