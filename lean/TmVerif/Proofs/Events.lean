/-
Helper lemmas for C02, part 1: one reduction. The listener calls of `LRX.applyRuleEvents` (computed
from stack entries) coincide with the report / own-node events that `Events.layout` computes from
the children's ranges.
-/
import TmVerif.Model.Events
namespace TmVerif.Events
open TmVerif.LR TmVerif.LRX

/-- the range of a stack entry -/
def rng (e : Entry) : Nat × Nat := (e.off, e.endo)

/-- every report range of every rule is ordered (`start ≤ stop`); decidable, evaluated by the driver
on the real tables. -/
def reportsWF (x : XTables) : Bool :=
  x.rules.toList.all fun info => info.reports.all fun r => decide (r.start ≤ r.stop)

theorem reportsWF_get {x : XTables} (h : reportsWF x = true) {i : Nat} {info : RuleInfo}
    (hi : x.rules[i]? = some info) {r : Report} (hr : r ∈ info.reports) : r.start ≤ r.stop := by
  unfold reportsWF at h
  rw [List.all_eq_true] at h
  have hm : info ∈ x.rules.toList := by
    rw [Array.mem_toList_iff]; exact Array.mem_of_getElem? hi
  have := h info hm
  rw [List.all_eq_true] at this
  simpa using this r hr

/-! ### list facts -/

theorem rhsAt_eq (rhsTop : List Entry) (ln j : Nat) (h : rhsTop.length = ln) :
    rhsAt rhsTop ln j = rhsTop.reverse[j]? := by
  unfold rhsAt
  split
  · rename_i hj
    rw [List.getElem?_reverse (by omega), h]
  · rename_i hj
    rw [List.getElem?_eq_none (by simp; omega)]

theorem filterMap_range_get {α : Type} (l : List α) (s : Nat) : ∀ n : Nat,
    (List.range n).filterMap (fun k => l[s + k]?) = (l.drop s).take n
  | 0 => by simp
  | n + 1 => by
    rw [List.range_succ, List.filterMap_append, filterMap_range_get l s n, List.take_succ,
      List.getElem?_drop]
    cases h : l[s + n]? <;> simp [h]

theorem trim_map : ∀ l : List Entry,
    reportEvent.trim (l.map rng) = (trimTrailing l).map rng
  | [] => by simp [reportEvent.trim, trimTrailing]
  | [e] => by simp [reportEvent.trim, trimTrailing]
  | e :: e' :: rest => by
    have ih := trim_map (e' :: rest)
    simp only [List.map_cons] at ih ⊢
    rw [reportEvent.trim, trimTrailing]
    simp only [rng]
    split
    · simpa [rng] using ih
    · simp [rng]

/-! ### one report -/

/-- the listener call of `applyRuleEvents` for one report -/
def repX (fw : Bool) (rhsTop : List Entry) (ln : Nat) (r : Report) : Option XEv :=
  if r.start = r.stop then
    match rhsAt rhsTop ln r.stop with
    | some e => some (XEv.node r.type e.off e.off)
    | none => none
  else if fw then
    let slice := ((List.range (r.stop - r.start)).reverse.filterMap fun k => rhsAt rhsTop ln (r.start + k))
    if slice.length ≠ r.stop - r.start then none
    else match trimTrailing slice with
      | [] => none
      | last :: rest => some (XEv.node r.type ((rest.getLast?).getD last).off last.endo)
  else
    match rhsAt rhsTop ln r.start, rhsAt rhsTop ln (r.stop - 1) with
    | some a, some b => some (XEv.node r.type a.off b.endo)
    | _, _ => none

theorem foldl_none {α β : Type} (f : Option β → α → Option β) (h : ∀ a, f none a = none) :
    ∀ l : List α, l.foldl f none = none
  | [] => rfl
  | a :: l => by rw [List.foldl_cons, h, foldl_none f h l]

theorem foldl_opt {α β : Type} (f : Option (List β) → α → Option (List β)) (g : α → Option β)
    (hnone : ∀ a, f none a = none)
    (hsome : ∀ evs a, f (some evs) a = (g a).map (fun e => evs ++ [e])) :
    ∀ (l : List α) (acc : List β), l.foldl f (some acc) = (l.mapM g).map (acc ++ ·)
  | [], acc => by simp
  | a :: l, acc => by
    rw [List.foldl_cons, hsome]
    cases hg : g a with
    | none => simp [foldl_none f hnone, hg]
    | some e =>
      simp only [Option.map_some]
      rw [foldl_opt f g hnone hsome l]
      simp only [List.mapM_cons, hg]
      cases List.mapM g l <;> simp

/-- `applyRuleEvents` in terms of `repX` and `mapM`. -/
theorem applyRuleEvents_eq (x : XTables) (rule : Int) (ln off endo : Nat) (stackTop : List Entry) :
    applyRuleEvents x rule ln off endo stackTop =
      match (if rule < 0 then none else x.rules[rule.toNat]?) with
      | none => some ([], endo)
      | some info =>
        let endo' := if info.fixWS then fixTrailingWS off endo (stackTop.take ln) else endo
        match info.reports.mapM (repX x.fixWhitespace (stackTop.take ln) ln) with
        | none => none
        | some evs =>
          some (if info.ruleType ≠ 0 then evs ++ [XEv.node info.ruleType off endo'] else evs, endo') := by
  unfold applyRuleEvents
  split
  · rfl
  · rename_i info hinfo
    simp only
    rw [foldl_opt _ (repX x.fixWhitespace (stackTop.take ln) ln) (fun _ => rfl)]
    · cases List.mapM (repX x.fixWhitespace (List.take ln stackTop) ln) info.reports <;> simp
    · intro evs r
      unfold repX
      simp only
      split
      · split <;> simp_all
      · split
        · split
          · simp
          · split <;> simp_all
        · split <;> simp_all

end TmVerif.Events
