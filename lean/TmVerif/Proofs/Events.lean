/-
Helper lemmas for C02, part 1: one reduction. The listener calls of `LRX.applyRuleEvents` (computed
from stack entries) coincide with the report / own-node events that `Events.layout` computes from
the children's ranges.
-/
import TmVerif.Model.EventsWF
namespace TmVerif.Events
open TmVerif.LR TmVerif.LRX

/-- the range of a stack entry -/
def rng (e : Entry) : Nat × Nat := (e.off, e.endo)

theorem reportsWF_get {x : XTables} (h : reportsWF x = true) {i : Nat} {info : RuleInfo}
    (hi : x.rules[i]? = some info) {r : Report} (hr : r ∈ info.reports) : r.start ≤ r.stop := by
  unfold reportsWF at h
  rw [List.all_eq_true] at h
  have hm : info ∈ x.rules.toList := by
    rw [Array.mem_toList_iff]; exact Array.mem_of_getElem? hi
  have := h info hm
  rw [List.all_eq_true] at this
  simpa using this r hr

/-! ### list facts -/

theorem rhsAt_eq (rhsTop : List Entry) (ln j : Nat) (h : rhsTop.length = ln) :
    rhsAt rhsTop ln j = rhsTop.reverse[j]? := by
  unfold rhsAt
  split
  · rename_i hj
    rw [List.getElem?_reverse (by omega), h]
  · rename_i hj
    rw [List.getElem?_eq_none (by simp; omega)]

theorem filterMap_range_get {α : Type} (l : List α) (s : Nat) : ∀ n : Nat,
    (List.range n).filterMap (fun k => l[s + k]?) = (l.drop s).take n
  | 0 => by simp
  | n + 1 => by
    rw [List.range_succ, List.filterMap_append, filterMap_range_get l s n, List.take_add_one,
      List.getElem?_drop]
    cases h : l[s + n]? <;> simp [h]

theorem trim_map : ∀ l : List Entry,
    reportEvent.trim (l.map rng) = (trimTrailing l).map rng
  | [] => by simp [reportEvent.trim, trimTrailing]
  | [e] => by simp [reportEvent.trim, trimTrailing]
  | e :: e' :: rest => by
    have ih := trim_map (e' :: rest)
    simp only [List.map_cons] at ih ⊢
    rw [reportEvent.trim, trimTrailing]
    by_cases h : e.off = e.endo
    · simpa [rng, h] using ih
    · simp [rng, h]

/-! ### one report -/

/-- the listener call of `applyRuleEvents` for one report -/
def repX (fw : Bool) (rhsTop : List Entry) (ln : Nat) (r : Report) : Option XEv :=
  if r.start = r.stop then
    match rhsAt rhsTop ln r.stop with
    | some e => some (XEv.node r.type e.off e.off)
    | none => none
  else if fw then
    let slice := ((List.range (r.stop - r.start)).reverse.filterMap fun k => rhsAt rhsTop ln (r.start + k))
    if slice.length ≠ r.stop - r.start then none
    else match trimTrailing slice with
      | [] => none
      | last :: rest => some (XEv.node r.type ((rest.getLast?).getD last).off last.endo)
  else
    match rhsAt rhsTop ln r.start, rhsAt rhsTop ln (r.stop - 1) with
    | some a, some b => some (XEv.node r.type a.off b.endo)
    | _, _ => none

theorem foldl_none {α β : Type} (f : Option β → α → Option β) (h : ∀ a, f none a = none) :
    ∀ l : List α, l.foldl f none = none
  | [] => rfl
  | a :: l => by rw [List.foldl_cons, h, foldl_none f h l]

theorem foldl_opt {α β : Type} (f : Option (List β) → α → Option (List β)) (g : α → Option β)
    (hnone : ∀ a, f none a = none)
    (hsome : ∀ evs a, f (some evs) a = (g a).map (fun e => evs ++ [e])) :
    ∀ (l : List α) (acc : List β), l.foldl f (some acc) = (l.mapM g).map (acc ++ ·)
  | [], acc => by simp
  | a :: l, acc => by
    rw [List.foldl_cons, hsome]
    cases hg : g a with
    | none => simp [foldl_none f hnone, hg]
    | some e =>
      simp only [Option.map_some]
      rw [foldl_opt f g hnone hsome l]
      simp only [List.mapM_cons, hg]
      cases List.mapM g l <;> simp

/-- `applyRuleEvents` in terms of `repX` and `mapM`. -/
theorem applyRuleEvents_eq (x : XTables) (rule : Int) (ln off endo : Nat) (stackTop : List Entry) :
    applyRuleEvents x rule ln off endo stackTop =
      match (if rule < 0 then none else x.rules[rule.toNat]?) with
      | none => some ([], endo)
      | some info =>
        let endo' := if info.fixWS then fixTrailingWS off endo (stackTop.take ln) else endo
        match info.reports.mapM (repX x.fixWhitespace (stackTop.take ln) ln) with
        | none => none
        | some evs =>
          some (if info.ruleType ≠ 0 then evs ++ [XEv.node info.ruleType off endo'] else evs, endo') := by
  unfold applyRuleEvents
  generalize (if rule < 0 then none else x.rules[rule.toNat]?) = info
  cases info with
  | none => rfl
  | some info =>
    simp only
    rw [foldl_opt _ (repX x.fixWhitespace (stackTop.take ln) ln) (fun _ => rfl)]
    · cases List.mapM (repX x.fixWhitespace (List.take ln stackTop) ln) info.reports <;> simp
    · intro evs r
      unfold repX
      simp only
      split
      · split <;> simp_all
      · split
        · split
          · simp
          · split <;> simp_all
        · split <;> simp_all

/-- One report: the runtime's listener call (from stack entries) is the event the specification
assigns (from the children's ranges). -/
theorem repX_reportEvent (fw : Bool) (rhsTop : List Entry) (ln after : Nat) (r : Report) (ev : XEv)
    (hlen : rhsTop.length = ln) (hr : r.start ≤ r.stop)
    (h : repX fw rhsTop ln r = some ev) :
    reportEvent fw (rhsTop.reverse.map rng) after r = some ev := by
  have hAt : ∀ j, rhsAt rhsTop ln j = rhsTop.reverse[j]? := fun j => rhsAt_eq rhsTop ln j hlen
  have hRlen : rhsTop.reverse.length = ln := by simp [hlen]
  generalize rhsTop.reverse = R at hAt hRlen
  unfold repX at h
  unfold reportEvent
  simp only [hAt] at h
  by_cases hse : r.start = r.stop
  · simp only [hse, if_true] at h ⊢
    cases hR : R[r.stop]? with
    | none => simp [hR] at h
    | some e =>
      simp only [hR] at h
      simp only [List.getElem?_map, hR, Option.map_some, rng]
      exact h
  · simp only [hse, if_false] at h ⊢
    have hlt : r.start < r.stop := by omega
    cases fw with
    | true =>
      simp only [if_true] at h ⊢
      rw [List.filterMap_reverse, filterMap_range_get] at h
      simp only [List.length_reverse] at h
      rw [← List.map_drop, ← List.map_take]
      simp only [List.length_map]
      generalize (R.drop r.start).take (r.stop - r.start) = S at h ⊢
      split at h
      · cases h
      · rename_i hS
        rw [if_neg hS]
        simp only [← List.map_reverse, trim_map]
        split at h
        · cases h
        · rename_i last rest hT
          rw [hT]
          simp only [List.map_reverse, List.head?_reverse, List.getLast?_reverse]
          simp only [List.map_cons, List.head?_cons]
          injection h with h
          rw [← h]
          cases rest with
          | nil => simp [rng]
          | cons a rest =>
            simp only [List.getLast?_cons_cons, List.map_cons]
            rw [← List.map_cons, List.getLast?_map]
            cases hgl : (a :: rest).getLast? with
            | none => simp at hgl
            | some b => simp [rng]
    | false =>
      simp only [Bool.false_eq_true, if_false] at h ⊢
      cases ha : R[r.start]? with
      | none => simp [ha] at h
      | some a =>
        cases hb : R[r.stop - 1]? with
        | none => simp [ha, hb] at h
        | some b =>
          simp only [ha, hb] at h
          have hb' : r.stop - 1 < R.length := by
            rcases Nat.lt_or_ge (r.stop - 1) R.length with h1 | h1
            · exact h1
            · rw [List.getElem?_eq_none h1] at hb; cases hb
          have hl : ((R.map rng).drop r.start |>.take (r.stop - r.start)).length = r.stop - r.start := by
            simp; omega
          rw [if_neg (by omega)]
          have h1 : ((R.map rng).drop r.start |>.take (r.stop - r.start)).head? = some (rng a) := by
            rw [List.head?_take, if_neg (by omega), List.head?_drop, List.getElem?_map, ha]; rfl
          have h2 : ((R.map rng).drop r.start |>.take (r.stop - r.start)).getLast? = some (rng b) := by
            rw [List.getLast?_eq_getElem?, hl, List.getElem?_take, if_pos (by omega),
              List.getElem?_drop, List.getElem?_map]
            have : r.start + (r.stop - r.start - 1) = r.stop - 1 := by omega
            rw [this, hb]; rfl
          rw [h1, h2]
          simpa [rng] using h

/-- all reports of a rule -/
theorem mapM_repX_reportEvent (fw : Bool) (rhsTop : List Entry) (ln after : Nat)
    (hlen : rhsTop.length = ln) : ∀ (rs : List Report) (evs : List XEv),
    (∀ r ∈ rs, r.start ≤ r.stop) → rs.mapM (repX fw rhsTop ln) = some evs →
    rs.mapM (reportEvent fw (rhsTop.reverse.map rng) after) = some evs
  | [], evs, _, h => by simpa using h
  | r :: rs, evs, hwf, h => by
    simp only [List.mapM_cons] at h ⊢
    cases h1 : repX fw rhsTop ln r with
    | none => simp [h1] at h
    | some e =>
      cases h2 : rs.mapM (repX fw rhsTop ln) with
      | none => simp [h1, h2] at h
      | some es =>
        rw [repX_reportEvent fw rhsTop ln after r e hlen (hwf r (by simp)) h1,
          mapM_repX_reportEvent fw rhsTop ln after hlen rs es (fun r hr => hwf r (by simp [hr])) h2]
        simpa [h1, h2] using h

/-- `fixTrailingWS` on the stack entries is the `find?` of `layout` on the children's ranges. -/
theorem fixTrailingWS_eq (off endo : Nat) (rhsTop : List Entry) :
    fixTrailingWS off endo rhsTop =
      match (rhsTop.reverse.map rng).reverse.find? (fun p => p.1 ≠ p.2) with
      | some p => p.2
      | none => if (rhsTop.reverse.map rng).isEmpty then endo else off := by
  unfold fixTrailingWS
  rw [← List.map_reverse, List.reverse_reverse, List.find?_map]
  cases rhsTop with
  | nil => simp
  | cons e es =>
    simp only [List.isEmpty_cons, Bool.false_eq_true, if_false]
    have : ((fun p : Nat × Nat => decide (p.1 ≠ p.2)) ∘ rng) = fun e : Entry => decide (e.off ≠ e.endo) := by
      funext e; rfl
    rw [this]
    cases List.find? (fun e : Entry => decide (e.off ≠ e.endo)) (e :: es) <;> simp [rng]

/-! ### `layout` / `layoutList` equations with named projections -/

/-- start offset of a laid-out child list (`after` if it is empty) -/
def headOff (items : List (Nat × Nat)) (after : Nat) : Nat :=
  match items.head? with | some (o, _) => o | none => after

/-- end offset of a laid-out child list (`after` if it is empty) -/
def lastEnd (items : List (Nat × Nat)) (after : Nat) : Nat :=
  match items.getLast? with | some (_, e) => e | none => after

/-- `fixTrailingWS` on ranges -/
def fixEnd (items : List (Nat × Nat)) (off endo : Nat) : Nat :=
  match items.reverse.find? (fun p => p.1 ≠ p.2) with
  | some p => p.2
  | none => if items.isEmpty then endo else off

theorem layout_tok (x : XTables) (t : Tok) (after : Nat) :
    layout x (.tok t) after = some ⟨t.off, t.endo, []⟩ := by rw [layout]

theorem layout_node (x : XTables) (rule : Nat) (children : List PTree) (after : Nat) (ll : LaidList)
    (h : layoutList x children after = some ll) :
    layout x (.node rule children) after =
      (((x.rules[rule]?).getD {}).reports.mapM (reportEvent x.fixWhitespace ll.items after)).map fun reps =>
        ⟨headOff ll.items after,
         if ((x.rules[rule]?).getD {}).fixWS then
           fixEnd ll.items (headOff ll.items after) (lastEnd ll.items after) else lastEnd ll.items after,
         ll.evs ++ reps ++
           (if ((x.rules[rule]?).getD {}).ruleType ≠ 0 then
             [XEv.node ((x.rules[rule]?).getD {}).ruleType (headOff ll.items after)
               (if ((x.rules[rule]?).getD {}).fixWS then
                 fixEnd ll.items (headOff ll.items after) (lastEnd ll.items after) else lastEnd ll.items after)]
            else [])⟩ := by
  rw [layout, h]
  simp only
  cases List.mapM (reportEvent x.fixWhitespace ll.items after) ((x.rules[rule]?).getD {}).reports <;> rfl

theorem layout_node_none (x : XTables) (rule : Nat) (children : List PTree) (after : Nat)
    (h : layoutList x children after = none) : layout x (.node rule children) after = none := by
  rw [layout, h]

theorem layoutList_nil (x : XTables) (after : Nat) : layoutList x [] after = some ⟨[], []⟩ := by
  rw [layoutList]

theorem layoutList_cons (x : XTables) (c : PTree) (rest : List PTree) (after : Nat) :
    layoutList x (c :: rest) after =
      match layoutList x rest after with
      | none => none
      | some lr =>
        match layout x c (headOff lr.items after) with
        | none => none
        | some lc => some ⟨(lc.off, lc.endo) :: lr.items, lc.evs ++ lr.evs⟩ := by
  rw [layoutList]
  cases layoutList x rest after <;> rfl

/-! ### `layoutList` from the right -/

theorem layoutList_snoc (x : XTables) (c : PTree) (after : Nat) : ∀ cs : List PTree,
    layoutList x (cs ++ [c]) after =
      match layout x c after with
      | none => none
      | some lc =>
        match layoutList x cs lc.off with
        | none => none
        | some lr => some ⟨lr.items ++ [(lc.off, lc.endo)], lr.evs ++ lc.evs⟩
  | [] => by
    simp only [List.nil_append, layoutList_cons, layoutList_nil, headOff, List.head?_nil]
    cases h : layout x c after <;> simp
  | d :: cs => by
    simp only [List.cons_append]
    rw [layoutList_cons, layoutList_snoc x c after cs]
    cases hc : layout x c after with
    | none => simp
    | some lc =>
      simp only
      rw [layoutList_cons]
      cases hr : layoutList x cs lc.off with
      | none => simp
      | some lr =>
        simp only
        have : headOff (lr.items ++ [(lc.off, lc.endo)]) after = headOff lr.items lc.off := by
          unfold headOff; cases lr.items <;> simp
        rw [this]
        cases layout x d (headOff lr.items lc.off) <;> simp

/-- **One reduction.** If the children (`kids`, left to right) are laid out with ranges equal to the
ranges of the popped stack entries, then the listener calls of `applyRuleEvents` are exactly the
report events and the own node of `layout` for the new tree, and the new stack entry's range
`(off, endo')` is the tree's range. -/
theorem applyRule_layout (x : XTables) (rule : Int) (hrule : 0 ≤ rule) (stack : List Entry) (ln : Nat)
    (hln : ln ≤ stack.length) (kids : List PTree) (after : Nat) (ll : LaidList)
    (hll : layoutList x kids after = some ll)
    (hitems : ll.items = (stack.take ln).reverse.map rng)
    (hwf : reportsWF x = true) (off endo endo' : Nat) (evs : List XEv)
    (hoff : off = headOff ll.items after)
    (hendo : endo = lastEnd ll.items after)
    (h : applyRuleEvents x rule ln off endo stack = some (evs, endo')) :
    layout x (.node rule.toNat kids) after = some ⟨off, endo', ll.evs ++ evs⟩ := by
  rw [applyRuleEvents_eq, if_neg (by omega)] at h
  rw [layout_node x _ _ _ ll hll, ← hoff, ← hendo]
  have hlen : (stack.take ln).length = ln := by simp; omega
  cases hinfo : x.rules[rule.toNat]? with
  | none =>
    rw [hinfo] at h
    simp only [Option.some.injEq, Prod.mk.injEq] at h
    obtain ⟨h1, h2⟩ := h
    subst h1 h2
    simp
  | some info =>
    rw [hinfo] at h
    simp only [Option.getD_some]
    simp only at h
    cases hm : info.reports.mapM (repX x.fixWhitespace (stack.take ln) ln) with
    | none => rw [hm] at h; cases h
    | some reps =>
      rw [hm] at h
      simp only [Option.some.injEq, Prod.mk.injEq] at h
      obtain ⟨h1, h2⟩ := h
      have hm' := mapM_repX_reportEvent x.fixWhitespace (stack.take ln) ln after hlen info.reports reps
        (fun r hr => reportsWF_get hwf hinfo hr) hm
      rw [hitems, hm']
      simp only [Option.map_some]
      have hfix : (if info.fixWS = true then
            fixEnd (List.map rng (List.take ln stack).reverse) off endo else endo) = endo' := by
        rw [← h2, fixTrailingWS_eq]; rfl
      rw [hfix, ← h1, h2]
      split <;> simp_all

end TmVerif.Events
