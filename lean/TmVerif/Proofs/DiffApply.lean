import TmVerif.Proofs.DiffHunks
/-!
Helper lemmas for C27: the hunks `LineDiff` writes apply to the first text and produce the second,
provided no run of deleted or inserted lines is longer than 14 (`hunk.add` elides longer runs).
-/
namespace TmVerif.Diff

/-! ### hunk bodies -/

theorem applyBody_minus (ls rest : List Line) :
    applyBody (ls.map fun l => ('-', l)) (ls ++ rest) = some ([], ls.length, 0, rest) := by
  induction ls with
  | nil => simp [applyBody]
  | cons l ls ih => simp [applyBody, ih]

theorem applyBody_plus (ls a : List Line) :
    applyBody (ls.map fun l => ('+', l)) a = some (ls, 0, ls.length, a) := by
  induction ls with
  | nil => simp [applyBody]
  | cons l ls ih => simp [applyBody, ih]

theorem applyBody_ctx (ls rest : List Line) :
    applyBody (ls.map fun l => (' ', l)) (ls ++ rest) = some (ls, ls.length, ls.length, rest) := by
  induction ls with
  | nil => simp [applyBody]
  | cons l ls ih => simp [applyBody, ih]

theorem applyBody_append (b1 b2 : List (Char × Line)) (a : List Line)
    (o1 : List Line) (nl1 nr1 : Nat) (r1 : List Line) (o2 : List Line) (nl2 nr2 : Nat) (r2 : List Line)
    (h1 : applyBody b1 a = some (o1, nl1, nr1, r1)) (h2 : applyBody b2 r1 = some (o2, nl2, nr2, r2)) :
    applyBody (b1 ++ b2) a = some (o1 ++ o2, nl1 + nl2, nr1 + nr2, r2) := by
  induction b1 generalizing a o1 nl1 nr1 with
  | nil =>
    simp [applyBody] at h1
    obtain ⟨rfl, rfl, rfl, rfl⟩ := h1
    simpa using h2
  | cons p b1 ih =>
    obtain ⟨c, l⟩ := p
    simp only [List.cons_append, applyBody] at h1 ⊢
    split at h1
    case isTrue hc =>
      simp only [hc, if_true]
      cases hr : applyBody b1 a with
      | none => simp [hr] at h1
      | some r =>
        obtain ⟨o, nl, nr, rest⟩ := r
        simp [hr] at h1
        obtain ⟨rfl, rfl, rfl, rfl⟩ := h1
        rw [ih a o nl nr hr]
        simp; omega
    case isFalse hc =>
      simp only [hc, if_false]
      cases a with
      | nil => simp at h1
      | cons x a' =>
        simp only at h1 ⊢
        split at h1
        case isTrue => cases h1
        case isFalse hx =>
          simp only [hx, if_false]
          split at h1
          case isTrue hm =>
            simp only [hm, if_true]
            cases hr : applyBody b1 a' with
            | none => simp [hr] at h1
            | some r =>
              obtain ⟨o, nl, nr, rest⟩ := r
              simp [hr] at h1
              obtain ⟨rfl, rfl, rfl, rfl⟩ := h1
              rw [ih a' o nl nr hr]
              simp; omega
          case isFalse hm =>
            simp only [hm, if_false]
            split at h1
            case isTrue hs =>
              simp only [hs, if_true]
              cases hr : applyBody b1 a' with
              | none => simp [hr] at h1
              | some r =>
                obtain ⟨o, nl, nr, rest⟩ := r
                simp [hr] at h1
                obtain ⟨rfl, rfl, rfl, rfl⟩ := h1
                rw [ih a' o nl nr hr]
                simp; omega
            case isFalse => cases h1

/-! ### applying a list of hunks, keeping the state -/

/-- `applyHunksFrom` that also returns where it stopped -/
def applyPrefix : List Hunk → Nat → Nat → List Line → Option (List Line × Nat × Nat × List Line)
  | [], pos, outLen, a => some ([], pos, outLen, a)
  | h :: hs, pos, outLen, a =>
    if h.leftLine < pos + 1 then none
    else
      let gap := h.leftLine - 1 - pos
      if gap > a.length then none
      else if outLen + gap + 1 ≠ h.rightLine then none
      else
        match applyBody h.body (a.drop gap) with
        | none => none
        | some (o, nl, nr, rest) =>
          if nl ≠ h.leftSize ∨ nr ≠ h.rightSize then none
          else
            (applyPrefix hs (pos + gap + nl) (outLen + gap + nr) rest).map
              fun (p, pos', outLen', rest') => (a.take gap ++ o ++ p, pos', outLen', rest')

theorem applyHunksFrom_eq (hs : List Hunk) (pos outLen : Nat) (a : List Line) :
    applyHunksFrom hs pos outLen a =
      (applyPrefix hs pos outLen a).map fun (p, _, _, rest) => p ++ rest := by
  induction hs generalizing pos outLen a with
  | nil => simp [applyHunksFrom, applyPrefix]
  | cons h hs ih =>
    unfold applyHunksFrom applyPrefix
    simp only [ih]
    by_cases c1 : h.leftLine < pos + 1
    · simp [c1]
    · by_cases c2 : h.leftLine - 1 - pos > a.length
      · simp [c1, c2]
      · by_cases c3 : outLen + (h.leftLine - 1 - pos) + 1 ≠ h.rightLine
        · simp [c1, c2, c3]
        · simp only [c1, c2, c3, if_false]
          cases hb : applyBody h.body (List.drop (h.leftLine - 1 - pos) a) with
          | none => simp
          | some r =>
            obtain ⟨o, nl, nr, rest⟩ := r
            simp only
            by_cases c4 : nl ≠ h.leftSize ∨ nr ≠ h.rightSize
            · simp [c4]
            · simp only [c4, if_false]
              cases applyPrefix hs (pos + (h.leftLine - 1 - pos) + nl)
                  (outLen + (h.leftLine - 1 - pos) + nr) rest with
              | none => simp
              | some r2 => obtain ⟨p, pos', outLen', rest'⟩ := r2; simp

theorem applyPrefix_append (hs1 hs2 : List Hunk) (pos outLen : Nat) (a : List Line)
    (p1 : List Line) (pos1 outLen1 : Nat) (rest1 : List Line)
    (h1 : applyPrefix hs1 pos outLen a = some (p1, pos1, outLen1, rest1)) :
    applyPrefix (hs1 ++ hs2) pos outLen a =
      (applyPrefix hs2 pos1 outLen1 rest1).map
        fun (p, pos', outLen', rest') => (p1 ++ p, pos', outLen', rest') := by
  induction hs1 generalizing pos outLen a p1 with
  | nil =>
    simp [applyPrefix] at h1
    obtain ⟨rfl, rfl, rfl, rfl⟩ := h1
    simp only [List.nil_append]
    cases hr : applyPrefix hs2 pos outLen a with
    | none => rfl
    | some r => obtain ⟨p, pos', outLen', rest'⟩ := r; simp
  | cons h hs1 ih =>
    simp only [List.cons_append]
    generalize hX : applyPrefix hs2 pos1 outLen1 rest1 = X at ih ⊢
    unfold applyPrefix at h1 ⊢
    by_cases c1 : h.leftLine < pos + 1
    · simp [c1] at h1
    · by_cases c2 : h.leftLine - 1 - pos > a.length
      · simp [c1, c2] at h1
      · by_cases c3 : outLen + (h.leftLine - 1 - pos) + 1 ≠ h.rightLine
        · simp [c1, c2, c3] at h1
        · simp only [c1, c2, c3, if_false] at h1 ⊢
          cases hb : applyBody h.body (List.drop (h.leftLine - 1 - pos) a) with
          | none => simp [hb] at h1
          | some r =>
            obtain ⟨o, nl, nr, rest⟩ := r
            simp only [hb] at h1 ⊢
            by_cases c4 : nl ≠ h.leftSize ∨ nr ≠ h.rightSize
            · simp [c4] at h1
            · simp only [c4, if_false] at h1 ⊢
              cases hr : applyPrefix hs1 (pos + (h.leftLine - 1 - pos) + nl)
                  (outLen + (h.leftLine - 1 - pos) + nr) rest with
              | none => simp [hr] at h1
              | some r =>
                obtain ⟨p, pos', outLen', rest'⟩ := r
                simp [hr] at h1
                obtain ⟨rfl, rfl, rfl, rfl⟩ := h1
                rw [ih _ _ _ _ hr]
                cases X with
                | none => rfl
                | some r2 => obtain ⟨q, pos2, outLen2, rest2⟩ := r2; simp

/-- one hunk placed after a gap of equal lines -/
theorem applyPrefix_single (h : Hunk) (pos outLen : Nat) (G HA HB R : List Line)
    (hl : h.leftLine = pos + G.length + 1) (hr : h.rightLine = outLen + G.length + 1)
    (hls : h.leftSize = HA.length) (hrs : h.rightSize = HB.length)
    (hb : applyBody h.body (HA ++ R) = some (HB, HA.length, HB.length, R)) :
    applyPrefix [h] pos outLen (G ++ (HA ++ R)) =
      some (G ++ HB, pos + G.length + HA.length, outLen + G.length + HB.length, R) := by
  unfold applyPrefix
  have e : h.leftLine - 1 - pos = G.length := by omega
  simp only [e]
  rw [if_neg (by omega), if_neg (by simp), if_neg (by omega)]
  simp only [List.drop_left, hb, List.take_left]
  rw [if_neg (by omega)]
  simp [applyPrefix]

/-! ### the loop invariant of `LineDiff` -/

/-- the hunks written so far turn the prefix `A0` into `B0`, whatever follows -/
def Written (out : List Hunk) (A0 B0 : List Line) : Prop :=
  ∀ R, applyPrefix out 0 0 (A0 ++ R) = some (B0, A0.length, B0.length, R)

theorem written_nil : Written [] [] [] := by
  intro R; simp [applyPrefix]

/-- `h` starts at lines `L`/`R`, consumes `HA` and produces `HB` -/
def HunkDesc (h : Hunk) (L R : Nat) (HA HB : List Line) : Prop :=
  h.leftLine = L ∧ h.rightLine = R ∧ h.leftSize = HA.length ∧ h.rightSize = HB.length ∧
    ∀ T, applyBody h.body (HA ++ T) = some (HB, HA.length, HB.length, T)

theorem written_snoc (out : List Hunk) (h : Hunk) (A0 B0 G HA HB : List Line)
    (hw : Written out A0 B0)
    (hd : HunkDesc h (A0.length + G.length + 1) (B0.length + G.length + 1) HA HB) :
    Written (out ++ [h]) (A0 ++ G ++ HA) (B0 ++ G ++ HB) := by
  intro R
  obtain ⟨hl, hr, hls, hrs, hb⟩ := hd
  have := applyPrefix_append out [h] 0 0 (A0 ++ (G ++ (HA ++ R))) B0 A0.length B0.length
    (G ++ (HA ++ R)) (hw _)
  rw [applyPrefix_single h _ _ G HA HB R hl hr hls hrs (hb R)] at this
  simp only [List.append_assoc]
  rw [this]
  simp [Nat.add_assoc]

def Final (a b : List Line) (out : List Hunk) : Prop :=
  ∃ A0 B0 T, a = A0 ++ T ∧ b = B0 ++ T ∧ Written out A0 B0

theorem final_applies (a b : List Line) (out : List Hunk) (h : Final a b out) :
    applyHunks out a = some b := by
  obtain ⟨A0, B0, T, ha, hb, hw⟩ := h
  unfold applyHunks
  rw [applyHunksFrom_eq, ha, hw T, hb]
  rfl

theorem add_short (h : Hunk) (c : Char) (ls : List Line) (hl : ls.length ≤ 14) :
    h.add c ls = h.addPlain c ls := by
  unfold Hunk.add
  rw [if_neg (by omega)]

theorem desc_add_minus (h : Hunk) (L R : Nat) (HA HB D : List Line) (hd : HunkDesc h L R HA HB)
    (hl : D.length ≤ 14) : HunkDesc (h.add '-' D) L R (HA ++ D) HB := by
  obtain ⟨h1, h2, h3, h4, h5⟩ := hd
  rw [add_short h _ _ hl]
  refine ⟨h1, h2, by simp [Hunk.addPlain, h3], by simp [Hunk.addPlain, h4], ?_⟩
  intro T
  have := applyBody_append h.body (D.map fun l => ('-', l)) (HA ++ (D ++ T)) _ _ _ _ _ _ _ _
    (h5 (D ++ T)) (applyBody_minus D T)
  simpa [Hunk.addPlain] using this

theorem desc_add_plus (h : Hunk) (L R : Nat) (HA HB I : List Line) (hd : HunkDesc h L R HA HB)
    (hl : I.length ≤ 14) : HunkDesc (h.add '+' I) L R HA (HB ++ I) := by
  obtain ⟨h1, h2, h3, h4, h5⟩ := hd
  rw [add_short h _ _ hl]
  refine ⟨h1, h2, by simp [Hunk.addPlain, h3], by simp [Hunk.addPlain, h4], ?_⟩
  intro T
  have := applyBody_append h.body (I.map fun l => ('+', l)) (HA ++ T) _ _ _ _ _ _ _ _
    (h5 T) (applyBody_plus I T)
  simpa [Hunk.addPlain] using this

theorem desc_add_ctx (h : Hunk) (L R : Nat) (HA HB E : List Line) (hd : HunkDesc h L R HA HB)
    (hl : E.length ≤ 14) : HunkDesc (h.add ' ' E) L R (HA ++ E) (HB ++ E) := by
  obtain ⟨h1, h2, h3, h4, h5⟩ := hd
  rw [add_short h _ _ hl]
  refine ⟨h1, h2, by simp [Hunk.addPlain, h3], by simp [Hunk.addPlain, h4], ?_⟩
  intro T
  have := applyBody_append h.body (E.map fun l => (' ', l)) (HA ++ (E ++ T)) _ _ _ _ _ _ _ _
    (h5 (E ++ T)) (applyBody_ctx E T)
  simpa [Hunk.addPlain] using this

theorem desc_fresh (L R : Nat) : HunkDesc { leftLine := L, rightLine := R } L R [] [] := by
  refine ⟨rfl, rfl, rfl, rfl, ?_⟩
  intro T; simp [applyBody]

theorem slice_decomp {β : Type} (X M S l : List β) (i j : Nat) (hl : l = X ++ M ++ S)
    (hi : i = X.length) (hj : j = X.length + M.length) : slice l i j = M := by
  subst hl; subst hi; subst hj
  unfold slice
  simp

def Inv (a b : List Line) (st : LDState) (RA RB : List Line) : Prop :=
  ∃ A0 B0 G HA HB, a = A0 ++ G ++ HA ++ RA ∧ b = B0 ++ G ++ HB ++ RB ∧
    st.ai = A0.length + G.length + HA.length ∧ st.bi = B0.length + G.length + HB.length ∧
    Written st.out A0 B0 ∧
    HunkDesc st.h (A0.length + G.length + 1) (B0.length + G.length + 1) HA HB

theorem inv_init (a b : List Line) : Inv a b {} a b :=
  ⟨[], [], [], [], [], by simp, by simp, rfl, rfl, written_nil, desc_fresh 1 1⟩

theorem split3 (E : List Line) (h : 6 < E.length) :
    ∃ E1 E2 E3, E = E1 ++ E2 ++ E3 ∧ E1.length = 3 ∧ E3.length = 3 := by
  refine ⟨E.take 3, (E.drop 3).take (E.length - 6), E.drop (E.length - 3), ?_, by simp; omega,
    by simp; omega⟩
  have e : E.drop (E.length - 3) = (E.drop 3).drop (E.length - 6) := by
    rw [List.drop_drop]; congr 1; omega
  rw [e, List.append_assoc, List.take_append_drop, List.take_append_drop]

/-- one iteration that is not the "leading equal lines" case -/
theorem ldStep_inv (a b : List Line) (st : LDState) (c : Chunk) (last : Bool)
    (D I E RA RB : List Line)
    (hinv : Inv a b st (D ++ E ++ RA) (I ++ E ++ RB))
    (hD : D.length = c.del) (hI : I.length = c.ins) (hE : E.length = c.eq)
    (hsd : c.del ≤ 14) (hsi : c.ins ≤ 14)
    (hlast : last = true → RA = [] ∧ RB = []) :
    (last = false → Inv a b (ldStep a b st c false last) RA RB) ∧
      (last = true → Final a b (ldStep a b st c false last).out) := by
  obtain ⟨A0, B0, G, HA, HB, ha, hb, hai, hbi, hw, hd⟩ := hinv
  have sD : slice a st.ai (st.ai + c.del) = D :=
    slice_decomp (A0 ++ G ++ HA) D (E ++ RA) a _ _ (by simp [ha]) (by simp [hai]; omega)
      (by simp [hai, hD]; omega)
  have sI : slice b st.bi (st.bi + c.ins) = I :=
    slice_decomp (B0 ++ G ++ HB) I (E ++ RB) b _ _ (by simp [hb]) (by simp [hbi]; omega)
      (by simp [hbi, hI]; omega)
  have d1 := desc_add_plus _ _ _ _ _ I (desc_add_minus _ _ _ _ _ D hd (by omega)) (by omega)
  unfold ldStep
  simp only [Bool.false_eq_true, false_and, if_false, sD, sI]
  by_cases h6 : c.eq > 6
  · simp only [h6, if_true]
    obtain ⟨E1, E2, E3, hE3, hl1, hl3⟩ := split3 E (by omega)
    subst hE3
    simp only [List.length_append] at hE
    have s1 : slice a (st.ai + c.eq + c.del - c.eq) (st.ai + c.eq + c.del - c.eq + 3) = E1 :=
      slice_decomp (A0 ++ G ++ HA ++ D) E1 (E2 ++ E3 ++ RA) a _ _ (by simp [ha])
        (by simp [hai]; omega) (by simp [hai]; omega)
    have s3 : slice a (st.ai + c.eq + c.del - 3) (st.ai + c.eq + c.del) = E3 :=
      slice_decomp (A0 ++ G ++ HA ++ D ++ E1 ++ E2) E3 RA a _ _ (by simp [ha])
        (by simp [hai]; omega) (by simp [hai]; omega)
    simp only [s1, s3]
    have d2 := desc_add_ctx _ _ _ _ _ E1 d1 (by omega)
    have hne : ¬ ((((st.h.add '-' D).add '+' I).add ' ' E1).leftSize = 0 ∧
        (((st.h.add '-' D).add '+' I).add ' ' E1).rightSize = 0) := by
      have := d2.2.2.1
      simp only [List.length_append] at this
      omega
    have hwr : writeHunk st.out (((st.h.add '-' D).add '+' I).add ' ' E1) =
        st.out ++ [((st.h.add '-' D).add '+' I).add ' ' E1] := by
      unfold writeHunk; rw [if_neg hne]
    rw [hwr]
    have hw' := written_snoc _ _ _ _ G _ _ hw d2
    have d3 := desc_add_ctx _ _ _ _ _ E3
      (desc_fresh (st.ai + c.eq + c.del - 2) (st.bi + c.eq + c.ins - 2)) (by omega)
    simp only [List.nil_append] at d3
    constructor
    · intro _
      refine ⟨_, _, E2, E3, E3, ?_, ?_, ?_, ?_, hw', ?_⟩
      · simp [ha]
      · simp [hb]
      · simp [hai]; omega
      · simp [hbi]; omega
      · have e1 : st.ai + c.eq + c.del - 2 =
            (A0 ++ G ++ (HA ++ D ++ E1)).length + E2.length + 1 := by simp [hai]; omega
        have e2 : st.bi + c.eq + c.ins - 2 =
            (B0 ++ G ++ (HB ++ I ++ E1)).length + E2.length + 1 := by simp [hbi]; omega
        rw [← e1, ← e2]; exact d3
    · intro hl
      obtain ⟨rfl, rfl⟩ := hlast hl
      exact ⟨_, _, E2 ++ E3, by simp [ha], by simp [hb], hw'⟩
  · simp only [h6, if_false]
    by_cases hl : last = true
    · simp only [hl, if_true]
      obtain ⟨rfl, rfl⟩ := hlast hl
      refine ⟨fun h => (by cases h), fun _ => ?_⟩
      have hal : a.length = A0.length + G.length + HA.length + D.length + E.length := by
        rw [ha]; simp; omega
      have s1 : slice a (st.ai + c.eq + c.del - c.eq)
          (min (st.ai + c.eq + c.del - c.eq + 3) a.length) = E.take 3 :=
        slice_decomp (A0 ++ G ++ HA ++ D) (E.take 3) (E.drop 3) a _ _
          (by simp [ha]) (by simp [hai]; omega) (by simp [hai, hal]; omega)
      simp only [s1]
      have d2 := desc_add_ctx _ _ _ _ _ (E.take 3) d1 (by simp; omega)
      by_cases hz : (((st.h.add '-' D).add '+' I).add ' ' (E.take 3)).leftSize = 0 ∧
          (((st.h.add '-' D).add '+' I).add ' ' (E.take 3)).rightSize = 0
      · -- nothing in the current hunk: everything after the last written hunk is equal
        have hwr : writeHunk st.out (((st.h.add '-' D).add '+' I).add ' ' (E.take 3)) = st.out := by
          unfold writeHunk; rw [if_pos hz]
        rw [hwr]
        have z1 := d2.2.2.1
        have z2 := d2.2.2.2.1
        rw [hz.1] at z1
        rw [hz.2] at z2
        simp only [List.length_append, List.length_take] at z1 z2
        have eHA : HA = [] := List.eq_nil_of_length_eq_zero (by omega)
        have eHB : HB = [] := List.eq_nil_of_length_eq_zero (by omega)
        have eD : D = [] := List.eq_nil_of_length_eq_zero (by omega)
        have eI : I = [] := List.eq_nil_of_length_eq_zero (by omega)
        have eE : E = [] := List.eq_nil_of_length_eq_zero (by omega)
        subst eHA eHB eD eI eE
        exact ⟨A0, B0, G, by simp [ha], by simp [hb], hw⟩
      · have hwr : writeHunk st.out (((st.h.add '-' D).add '+' I).add ' ' (E.take 3)) =
            st.out ++ [((st.h.add '-' D).add '+' I).add ' ' (E.take 3)] := by
          unfold writeHunk; rw [if_neg hz]
        rw [hwr]
        have hw' := written_snoc _ _ _ _ G _ _ hw d2
        refine ⟨_, _, E.drop 3, ?_, ?_, hw'⟩
        · simp [ha]
        · simp [hb]
    · simp only [hl]
      refine ⟨fun _ => ?_, fun h => (by cases h)⟩
      have s1 : slice a (st.ai + c.eq + c.del - c.eq) (st.ai + c.eq + c.del) = E :=
        slice_decomp (A0 ++ G ++ HA ++ D) E RA a _ _
          (by simp [ha]) (by simp [hai]; omega) (by simp [hai]; omega)
      simp only [s1]
      have d2 := desc_add_ctx _ _ _ _ _ E d1 (by omega)
      refine ⟨A0, B0, G, _, _, ?_, ?_, ?_, ?_, hw, d2⟩
      · simp [ha]
      · simp [hb]
      · simp [hai]; omega
      · simp [hbi]; omega

theorem valid_cons_decomp (c : Chunk) (cs : List Chunk) (ra rb : List Line)
    (h : Valid (c :: cs) ra rb) :
    ∃ D I E ra' rb', ra = D ++ E ++ ra' ∧ rb = I ++ E ++ rb' ∧ D.length = c.del ∧
      I.length = c.ins ∧ E.length = c.eq ∧ Valid cs ra' rb' := by
  obtain ⟨p1, p2, p3, p4⟩ := h
  refine ⟨ra.take c.del, rb.take c.ins, (ra.drop c.del).take c.eq, ra.drop (c.del + c.eq),
    rb.drop (c.ins + c.eq), ?_, ?_, by simp; omega, by simp; omega, by simp; omega, p4⟩
  · rw [List.append_assoc, ← List.drop_drop, List.take_append_drop, List.take_append_drop]
  · rw [p3, List.append_assoc, ← List.drop_drop, List.take_append_drop, List.take_append_drop]

theorem valid_nil_eq (ra rb : List Line) (h : Valid [] ra rb) : ra = [] ∧ rb = [] := h

theorem ldLoop_final (a b : List Line) (cs : List Chunk) (st : LDState) (RA RB : List Line)
    (hinv : Inv a b st RA RB) (hv : Valid cs RA RB)
    (hshort : ∀ c ∈ cs, c.del ≤ 14 ∧ c.ins ≤ 14) (hne : cs ≠ []) :
    Final a b (ldLoop a b st false cs).out := by
  induction cs generalizing st RA RB with
  | nil => exact absurd rfl hne
  | cons c cs ih =>
    obtain ⟨D, I, E, ra', rb', e1, e2, hD, hI, hE, hv'⟩ := valid_cons_decomp c cs RA RB hv
    subst e1; subst e2
    have hs := hshort c (by simp)
    have step := ldStep_inv a b st c cs.isEmpty D I E ra' rb' hinv hD hI hE hs.1 hs.2 (by
      intro hl
      have : cs = [] := by simpa using hl
      subst this
      exact valid_nil_eq _ _ hv')
    unfold ldLoop
    cases cs with
    | nil => simpa [ldLoop] using step.2 rfl
    | cons c' cs' =>
      exact ih _ _ _ (step.1 rfl) hv' (fun x hx => hshort x (by simp [hx])) (by simp)

theorem add_nil (h : Hunk) (c : Char) : h.add c [] = h := by
  simp [Hunk.add, Hunk.addPlain]

theorem slice_self {β : Type} (l : List β) (i : Nat) : slice l i (i + 0) = [] := by
  simp [slice]

theorem ldStep_first_irrelevant (a b : List Line) (st : LDState) (c : Chunk) (last : Bool)
    (h : ¬ (c.del = 0 ∧ c.ins = 0 ∧ c.eq > 3)) :
    ldStep a b st c true last = ldStep a b st c false last := by
  have h' : ¬ (True ∧ c.del = 0 ∧ c.ins = 0 ∧ c.eq > 3) := fun x => h x.2
  unfold ldStep
  simp only [Bool.false_eq_true, false_and, if_false]
  rw [if_neg h']

/-- the hunks written for a valid script without long runs apply -/
theorem hunksOfChunks_apply (a b : List Line) (cs : List Chunk) (hv : Valid cs a b)
    (hshort : ∀ c ∈ cs, c.del ≤ 14 ∧ c.ins ≤ 14) :
    applyHunks (hunksOfChunks a b cs) a = some b := by
  apply final_applies
  unfold hunksOfChunks
  cases cs with
  | nil =>
    obtain ⟨rfl, rfl⟩ := valid_nil_eq _ _ hv
    exact ⟨[], [], [], rfl, rfl, written_nil⟩
  | cons c cs =>
    by_cases h1 : c.del = 0 ∧ c.ins = 0 ∧ c.eq > 3
    · -- leading run of equal lines: only its last three lines are shown
      obtain ⟨hdel, hins, heq⟩ := h1
      obtain ⟨D, I, E, ra', rb', e1, e2, hD, hI, hE, hv'⟩ := valid_cons_decomp c cs a b hv
      have eD : D = [] := List.eq_nil_of_length_eq_zero (by omega)
      have eI : I = [] := List.eq_nil_of_length_eq_zero (by omega)
      subst eD; subst eI
      simp only [List.nil_append] at e1 e2
      have s3 : slice a (c.eq - 3) c.eq = E.drop (c.eq - 3) :=
        slice_decomp (E.take (c.eq - 3)) (E.drop (c.eq - 3)) ra' a _ _
          (by simp [e1]) (by simp; omega) (by simp; omega)
      have hst : ldStep a b {} c true cs.isEmpty =
          { out := [], ai := c.eq, bi := c.eq,
            h := ({ leftLine := c.eq - 2, rightLine := c.eq - 2 } : Hunk).add ' ' (E.drop (c.eq - 3)) } := by
        unfold ldStep
        simp only [hdel, hins, slice_self, add_nil]
        rw [if_pos (by simp; omega)]
        simp [s3]
      have d3 := desc_add_ctx _ _ _ _ _ (E.drop (c.eq - 3)) (desc_fresh (c.eq - 2) (c.eq - 2))
        (by simp; omega)
      simp only [List.nil_append] at d3
      have hinv : Inv a b (ldStep a b {} c true cs.isEmpty) ra' rb' := by
        rw [hst]
        refine ⟨[], [], E.take (c.eq - 3), E.drop (c.eq - 3), E.drop (c.eq - 3), ?_, ?_, ?_, ?_,
          written_nil, ?_⟩
        · simp [e1]
        · simp [e2]
        · simp; omega
        · simp; omega
        · have e : c.eq - 2 = ([] : List Line).length + (E.take (c.eq - 3)).length + 1 := by
            simp; omega
          rw [← e]; exact d3
      unfold ldLoop
      cases cs with
      | nil =>
        obtain ⟨rfl, rfl⟩ := valid_nil_eq _ _ hv'
        simp only [ldLoop, hst]
        exact ⟨[], [], a, rfl, by simp [e1, e2], written_nil⟩
      | cons c' cs' =>
        exact ldLoop_final a b _ _ _ _ hinv hv' (fun x hx => hshort x (by simp [hx])) (by simp)
    · have : ldLoop a b {} true (c :: cs) = ldLoop a b {} false (c :: cs) := by
        unfold ldLoop
        rw [ldStep_first_irrelevant a b {} c _ h1]
      rw [this]
      exact ldLoop_final a b _ _ a b (inv_init a b) hv hshort (by simp)

end TmVerif.Diff
