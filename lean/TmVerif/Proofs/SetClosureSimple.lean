import TmVerif.Proofs.SetClosure
/-!
`closure` on a component without intersection nodes (`simpleClosure`): what the two nested loops
accumulate, and that the common result satisfies the equations of the component and is the least such.
-/
namespace TmVerif.SetClosure
open TmVerif.IntSet TmVerif.Graph

/-- what one edge `w` of a node contributes to `res` -/
def contrib (s : St) (isC : Bool) (w : Nat) (x : Int) : Prop :=
  if isC = true then ¬ (s.get w).Mem x else (s.get w).Mem x

theorem mem_emptySet (x : Int) : ¬ (⟨false, []⟩ : IntSet).Mem x := by simp [IntSet.Mem]

theorem mem_fresh (l : List Int) (x : Int) : (⟨false, l⟩ : IntSet).Mem x ↔ x ∈ l := by simp [IntSet.Mem]

theorem simpleEdges_spec (s : St) (snap : List Nat) (v : Nat) (isC : Bool)
    (hS : ∀ v, Sorted (s.get v).set) :
    ∀ (ws : List Nat) (acc : IntSet × List Nat), Sorted acc.1.set →
      Sorted (ws.foldl (simpleEdgeStep s snap v isC) acc).1.set ∧
      (∀ x, (ws.foldl (simpleEdgeStep s snap v isC) acc).1.Mem x ↔
        acc.1.Mem x ∨ ∃ w ∈ ws, w ∉ snap ∧ contrib s isC w x) ∧
      (∃ extra, (ws.foldl (simpleEdgeStep s snap v isC) acc).2 = acc.2 ++ extra ∧ (∀ e ∈ extra, e = v) ∧
        (extra = [] ↔ ¬ (isC = true ∧ ∃ w ∈ ws, w ∈ snap))) := by
  intro ws
  induction ws with
  | nil => intro acc h; exact ⟨h, by simp, [], by simp, by simp, by simp⟩
  | cons w ws ih =>
    intro acc hacc
    simp only [List.foldl_cons]
    by_cases hw : w ∈ snap
    · have hc : snap.contains w = true := List.contains_iff_mem.2 hw
      cases isC with
      | true =>
        have e : simpleEdgeStep s snap v true acc w = (acc.1, acc.2 ++ [v]) := by
          simp [simpleEdgeStep, hw]
        rw [e]
        obtain ⟨h1, h2, extra, h3, h4, h5⟩ := ih (acc.1, acc.2 ++ [v]) hacc
        refine ⟨h1, ?_, [v] ++ extra, by rw [h3]; simp, ?_, ?_⟩
        · intro x; rw [h2 x]
          constructor
          · rintro (h | ⟨w', hw', h⟩)
            · exact .inl h
            · exact .inr ⟨w', by simp [hw'], h⟩
          · rintro (h | ⟨w', hw', h⟩)
            · exact .inl h
            · simp only [List.mem_cons] at hw'
              rcases hw' with rfl | hw'
              · exact absurd hw h.1
              · exact .inr ⟨w', hw', h⟩
        · intro e he
          simp only [List.mem_append, List.mem_singleton] at he
          rcases he with he | he
          · exact he
          · exact h4 e he
        · constructor
          · intro h; cases h
          · intro h; exact absurd ⟨rfl, w, by simp, hw⟩ h
      | false =>
        have e : simpleEdgeStep s snap v false acc w = acc := by
          simp [simpleEdgeStep, hw]
        rw [e]
        obtain ⟨h1, h2, extra, h3, h4, h5⟩ := ih acc hacc
        refine ⟨h1, ?_, extra, h3, h4, ?_⟩
        · intro x; rw [h2 x]
          constructor
          · rintro (h | ⟨w', hw', h⟩)
            · exact .inl h
            · exact .inr ⟨w', by simp [hw'], h⟩
          · rintro (h | ⟨w', hw', h⟩)
            · exact .inl h
            · simp only [List.mem_cons] at hw'
              rcases hw' with rfl | hw'
              · exact absurd hw h.1
              · exact .inr ⟨w', hw', h⟩
        · rw [h5]; simp
    · have hc : snap.contains w = false := by
        cases h : snap.contains w with
        | false => rfl
        | true => exact absurd (List.contains_iff_mem.1 h) hw
      have e : simpleEdgeStep s snap v isC acc w =
          (acc.1.merge (if isC = true then (s.get w).complement else s.get w), acc.2) := by
        simp [simpleEdgeStep, hw]
      rw [e]
      have hsrt : Sorted (if isC = true then (s.get w).complement else s.get w).set := by
        split
        · exact hS w
        · exact hS w
      obtain ⟨h1, h2, extra, h3, h4, h5⟩ := ih (acc.1.merge _, acc.2) (sorted_merge _ _ hacc hsrt)
      refine ⟨h1, ?_, extra, h3, h4, ?_⟩
      · intro x; rw [h2 x, mem_merge _ _ hacc hsrt]
        have hcx : (if isC = true then (s.get w).complement else s.get w).Mem x ↔ contrib s isC w x := by
          unfold contrib
          split
          · exact mem_complement _ _
          · exact Iff.rfl
        rw [hcx]
        constructor
        · rintro ((h | h) | ⟨w', hw', h⟩)
          · exact .inl h
          · exact .inr ⟨w, by simp, hw, h⟩
          · exact .inr ⟨w', by simp [hw'], h⟩
        · rintro (h | ⟨w', hw', h⟩)
          · exact .inl (.inl h)
          · simp only [List.mem_cons] at hw'
            rcases hw' with rfl | hw'
            · exact .inl (.inr h.2)
            · exact .inr ⟨w', hw', h⟩
      · rw [h5]
        constructor
        · rintro h ⟨hc', w', hw', hs⟩
          simp only [List.mem_cons] at hw'
          rcases hw' with rfl | hw'
          · exact hw hs
          · exact h ⟨hc', w', hw', hs⟩
        · rintro h ⟨hc', w', hw', hs⟩
          exact h ⟨hc', w', by simp [hw'], hs⟩

/-- the offence recorded by `closure`: a complement node with its edge on the stack -/
def Offends (sys : Sys) (snap : List Nat) (v : Nat) : Prop :=
  opOf sys v = .compl ∧ ∃ w ∈ edgesOf sys v, w ∈ snap

theorem simpleNodes_spec (sys : Sys) (s : St) (snap : List Nat) (hS : ∀ v, Sorted (s.get v).set) :
    ∀ (vs : List Nat) (acc : IntSet × List Nat), Sorted acc.1.set →
      Sorted (vs.foldl (simpleNodeStep sys s snap) acc).1.set ∧
      (∀ x, (vs.foldl (simpleNodeStep sys s snap) acc).1.Mem x ↔
        acc.1.Mem x ∨ ∃ v ∈ vs, (s.get v).Mem x ∨
          ∃ w ∈ edgesOf sys v, w ∉ snap ∧ contrib s (opOf sys v == .compl) w x) ∧
      (∃ extra, (vs.foldl (simpleNodeStep sys s snap) acc).2 = acc.2 ++ extra ∧
        (∀ e ∈ extra, e ∈ vs ∧ Offends sys snap e) ∧
        (extra = [] ↔ ∀ v ∈ vs, ¬ Offends sys snap v)) := by
  intro vs
  induction vs with
  | nil => intro acc h; exact ⟨h, by simp, [], by simp, by simp, by simp⟩
  | cons v vs ih =>
    intro acc hacc
    simp only [List.foldl_cons]
    have hm := sorted_merge _ _ hacc (hS v)
    obtain ⟨e1, e2, ex1, e3, e4, e5⟩ :=
      simpleEdges_spec s snap v (opOf sys v == .compl) hS (edgesOf sys v) (acc.1.merge (s.get v), acc.2) hm
    have hstep : simpleNodeStep sys s snap acc v =
        (edgesOf sys v).foldl (simpleEdgeStep s snap v (opOf sys v == .compl)) (acc.1.merge (s.get v), acc.2) := rfl
    rw [hstep]
    generalize (edgesOf sys v).foldl (simpleEdgeStep s snap v (opOf sys v == .compl))
      (acc.1.merge (s.get v), acc.2) = mid at e1 e2 e3
    obtain ⟨h1, h2, ex2, h3, h4, h5⟩ := ih mid e1
    have hoff : (opOf sys v == Op.compl) = true ∧ (∃ w ∈ edgesOf sys v, w ∈ snap) ↔ Offends sys snap v := by
      unfold Offends; simp
    refine ⟨h1, ?_, ex1 ++ ex2, by rw [h3, e3]; simp, ?_, ?_⟩
    · intro x
      rw [h2 x, e2 x, mem_merge _ _ hacc (hS v)]
      constructor
      · rintro (((h | h) | h) | ⟨v', hv', h⟩)
        · exact .inl h
        · exact .inr ⟨v, by simp, .inl h⟩
        · exact .inr ⟨v, by simp, .inr h⟩
        · exact .inr ⟨v', by simp [hv'], h⟩
      · rintro (h | ⟨v', hv', h⟩)
        · exact .inl (.inl (.inl h))
        · simp only [List.mem_cons] at hv'
          rcases hv' with rfl | hv'
          · rcases h with h | h
            · exact .inl (.inl (.inr h))
            · exact .inl (.inr h)
          · exact .inr ⟨v', hv', h⟩
    · intro e he
      simp only [List.mem_append] at he
      rcases he with he | he
      · have := e4 e he
        subst this
        refine ⟨by simp, ?_⟩
        by_cases hx : ex1 = []
        · rw [hx] at he; cases he
        · have := (not_congr e5).1 hx
          exact hoff.1 (Classical.not_not.1 this)
      · exact ⟨by simp [(h4 e he).1], (h4 e he).2⟩
    · simp only [List.append_eq_nil_iff, e5, h5, hoff]
      constructor
      · rintro ⟨ha, hb⟩ v' hv'
        simp only [List.mem_cons] at hv'
        rcases hv' with rfl | hv'
        · exact ha
        · exact hb v' hv'
      · intro h
        exact ⟨h v (by simp), fun v' hv' => h v' (by simp [hv'])⟩

/-! ### the accumulated result only mentions elements of the system -/

/-- sorted, and all explicit elements are mentioned by the system -/
def Tidy (sys : Sys) (a : IntSet) : Prop := Sorted a.set ∧ ∀ e ∈ a.set, e ∈ mlist sys

theorem Tidy.merge {sys : Sys} {a b : IntSet} (ha : Tidy sys a) (hb : Tidy sys b) : Tidy sys (a.merge b) :=
  ⟨sorted_merge _ _ ha.1 hb.1, fun e he => by
    rcases set_merge_sub a b ha.1 hb.1 he with h | h
    · exact ha.2 e h
    · exact hb.2 e h⟩

theorem Tidy.inter {sys : Sys} {a b : IntSet} (ha : Tidy sys a) (hb : Tidy sys b) : Tidy sys (a.inter b) :=
  ⟨sorted_inter _ _ ha.1 hb.1, fun e he => by
    rcases set_inter_sub a b ha.1 hb.1 he with h | h
    · exact ha.2 e h
    · exact hb.2 e h⟩

theorem Tidy.complement {sys : Sys} {a : IntSet} (ha : Tidy sys a) : Tidy sys a.complement := ha

theorem foldl_pres {α β : Type} (P : β → Prop) (f : β → α → β) (h : ∀ b a, P b → P (f b a)) :
    ∀ (l : List α) (b : β), P b → P (l.foldl f b)
  | [], _, hb => hb
  | a :: l, b, hb => foldl_pres P f h l (f b a) (h b a hb)

theorem simpleEdgeStep_tidy {sys : Sys} (s : St) (hT : ∀ v, Tidy sys (s.get v)) (snap : List Nat) (v : Nat)
    (isC : Bool) (acc : IntSet × List Nat) (w : Nat) (h : Tidy sys acc.1) :
    Tidy sys (simpleEdgeStep s snap v isC acc w).1 := by
  unfold simpleEdgeStep
  simp only
  split
  · exact h
  · split
    · apply h.merge
      split
      · exact (hT w).complement
      · exact hT w
    · exact h

theorem simpleNodes_tidy {sys : Sys} (s : St) (hT : ∀ v, Tidy sys (s.get v)) (snap : List Nat)
    (vs : List Nat) (acc : IntSet × List Nat) (h : Tidy sys acc.1) :
    Tidy sys (vs.foldl (simpleNodeStep sys s snap) acc).1 := by
  apply foldl_pres (fun acc : IntSet × List Nat => Tidy sys acc.1) _ _ vs acc h
  intro b v hb
  unfold simpleNodeStep
  apply foldl_pres (fun acc : IntSet × List Nat => Tidy sys acc.1) _ _ _ _ (hb.merge (hT v))
  intro b' w hb'
  exact simpleEdgeStep_tidy s hT snap v _ b' w hb'

/-! ### one callback invocation: context, frame, result -/

/-- what holds when the callback is invoked for `comp` in state `s` -/
structure CompCtx (sys : Sys) (comp snap : List Nat) (s : St) : Prop where
  wf : Wf sys
  len : s.sets.length = sys.length
  sorted : ∀ v, Sorted (s.get v).set
  fresh : ∀ v ∈ comp, s.get v = ⟨false, initOf sys v⟩
  lt : ∀ v ∈ comp, v < sys.length
  scc : ∀ u ∈ comp, ∀ w, w ∈ comp ↔ SC (graphOf sys) u w
  snap : SnapOk (graphOf sys) (comp, snap)

/-- frame conditions of one callback invocation -/
structure StepOk (sys : Sys) (comp snap : List Nat) (s t : St) : Prop where
  len : t.sets.length = sys.length
  sorted : ∀ v, Sorted (t.get v).set
  frame : ∀ u, u ∉ comp → t.get u = s.get u
  err : ∃ extra, t.err = s.err ++ extra ∧ ∀ e ∈ extra, e ∈ comp ∧ Offends sys snap e
  offend : (∃ v ∈ comp, Offends sys snap v) → t.err ≠ []
  tmo : s.timeout = true → t.timeout = true
  bounded : Bounded sys s → Bounded sys t
  tmoF : Bounded sys s → s.timeout = false → t.timeout = false

/-- the result for one component: its equations hold, and it is below every assignment that satisfies
these equations and is above the computed one on the successors outside (equal below complement nodes) -/
def CompGood (sys : Sys) (comp : List Nat) (t : St) : Prop :=
  (∀ v ∈ comp, EqAt sys t.asg v) ∧
  ∀ b : Asg, (∀ v ∈ comp, EqAt sys b v) →
    (∀ v ∈ comp, ∀ w ∈ edgesOf sys v, w ∉ comp →
      (∀ x, t.asg w x → b w x) ∧ (opOf sys v = .compl → ∀ x, b w x → t.asg w x)) →
    ∀ v ∈ comp, ∀ x, t.asg v x → b v x

theorem CompCtx.snapIff {sys : Sys} {comp snap : List Nat} {s : St} (c : CompCtx sys comp snap s)
    {v w : Nat} (hv : v ∈ comp) (hw : w ∈ edgesOf sys v) : w ∈ snap ↔ w ∈ comp := c.snap v hv w hw

theorem simple_stepOk {sys : Sys} {comp snap : List Nat} {s : St} (c : CompCtx sys comp snap s) :
    StepOk sys comp snap s (simpleClosure sys comp snap s) := by
  obtain ⟨h1, h2, extra, h3, h4, h5⟩ :=
    simpleNodes_spec sys s snap c.sorted comp (⟨false, []⟩, s.err) (by trivial)
  have hr1B : Bounded sys s → ∀ e ∈ (comp.foldl (simpleNodeStep sys s snap) (⟨false, []⟩, s.err)).1.set, e ∈ mlist sys :=
    fun hB => (simpleNodes_tidy s (fun v => ⟨c.sorted v, hB v⟩) snap comp (⟨false, []⟩, s.err)
      ⟨by trivial, by intro e he; cases he⟩).2
  unfold simpleClosure
  simp only
  generalize comp.foldl (simpleNodeStep sys s snap) (⟨false, []⟩, s.err) = r at h1 h2 h3 hr1B
  simp only at h3
  split
  · refine ⟨c.len, c.sorted, fun _ _ => rfl, ⟨extra, h3, h4⟩, ?_, fun h => h, fun h => h, fun _ h => h⟩
    intro ⟨v, hv, ho⟩
    show r.2 ≠ []
    rw [h3]
    intro he
    have := (List.append_eq_nil_iff.1 he).2
    exact (h5.1 this) v hv ho
  · rename_i hne
    refine ⟨by simp [assignAll_length, c.len], ?_, ?_, ⟨extra, h3, h4⟩, ?_, fun h => h, ?_, fun _ h => h⟩
    rotate_right
    · intro hB v
      show ∀ e ∈ ((assignAll s.sets comp r.1)[v]?.getD ⟨false, []⟩).set, e ∈ mlist sys
      rw [assignAll_getD]
      split
      · exact hr1B hB
      · exact hB v
    · intro v
      show Sorted ((assignAll s.sets comp r.1)[v]?.getD ⟨false, []⟩).set
      rw [assignAll_getD]
      split
      · exact h1
      · exact c.sorted v
    · intro u hu
      show (assignAll s.sets comp r.1)[u]?.getD ⟨false, []⟩ = s.get u
      rw [assignAll_getD]
      simp [hu, St.get]
    · intro ⟨v, hv, ho⟩
      exfalso
      apply hne
      have : r.2 ≠ [] := by
        rw [h3]
        intro he
        exact (h5.1 (List.append_eq_nil_iff.1 he).2) v hv ho
      cases hr : r.2 with
      | nil => exact absurd hr this
      | cons a l => simp

theorem simple_good {sys : Sys} {comp snap : List Nat} {s : St} (c : CompCtx sys comp snap s)
    (hni : ∀ q ∈ comp, opOf sys q ≠ .inter)
    (herr : (simpleClosure sys comp snap s).err = []) : CompGood sys comp (simpleClosure sys comp snap s) := by
  obtain ⟨_, h2, extra, h3, _, h5⟩ :=
    simpleNodes_spec sys s snap c.sorted comp (⟨false, []⟩, s.err) (by trivial)
  -- the shape of the result
  have hr2 : (comp.foldl (simpleNodeStep sys s snap) (⟨false, []⟩, s.err)).2 = [] := by
    unfold simpleClosure at herr
    simp only at herr
    split at herr <;> exact herr
  have hT : simpleClosure sys comp snap s =
      { s with err := [], sets := assignAll s.sets comp (comp.foldl (simpleNodeStep sys s snap) (⟨false, []⟩, s.err)).1 } := by
    unfold simpleClosure
    simp only [hr2]
    simp
  rw [hT]
  generalize comp.foldl (simpleNodeStep sys s snap) (⟨false, []⟩, s.err) = r at h2 h3 hr2
  simp only at h2 h3
  have hextra : extra = [] := by rw [hr2] at h3; exact (List.append_eq_nil_iff.1 h3.symm).2
  have hno := h5.1 hextra
  generalize hT' : ({ s with err := [], sets := assignAll s.sets comp r.1 } : St) = t
  have hget : ∀ u, t.get u = if u ∈ comp then r.1 else s.get u := by
    intro u
    rw [← hT']
    show (assignAll s.sets comp r.1)[u]?.getD ⟨false, []⟩ = _
    rw [assignAll_getD]
    by_cases hu : u ∈ comp
    · have := c.lt u hu
      simp [hu, c.len, this]
    · simp [hu, St.get]
  have hR : ∀ x, r.1.Mem x ↔ ∃ v ∈ comp, (s.get v).Mem x ∨
      ∃ w ∈ edgesOf sys v, w ∉ snap ∧ contrib s (opOf sys v == .compl) w x := by
    intro x
    rw [h2 x]
    simp [mem_emptySet]
  have hin : ∀ u ∈ comp, ∀ x, t.asg u x ↔ r.1.Mem x := by
    intro u hu x; unfold St.asg; rw [hget u]; simp [hu]
  have hout : ∀ u, u ∉ comp → ∀ x, t.asg u x ↔ (s.get u).Mem x := by
    intro u hu x; unfold St.asg; rw [hget u]; simp [hu]
  -- F2: a complement node of the component has no edge on the stack
  have hF2 : ∀ v ∈ comp, opOf sys v = .compl → ∀ w ∈ edgesOf sys v, w ∉ comp := by
    intro v hv hop w hw hwc
    exact hno v hv ⟨hop, w, hw, (c.snapIff hv hw).2 hwc⟩
  -- F3: a node with an edge into the component is a union node
  have hF3 : ∀ v ∈ comp, ∀ w ∈ edgesOf sys v, w ∈ comp → opOf sys v = .union := by
    intro v hv w hw hwc
    cases hop : opOf sys v with
    | union => rfl
    | inter => exact absurd hop (hni v hv)
    | compl => exact absurd hwc (hF2 v hv hop w hw)
  refine ⟨?_, ?_⟩
  · intro v hv
    cases hop : opOf sys v with
    | inter => exact absurd hop (hni v hv)
    | union =>
      rw [eqAt_union hop]
      intro x
      rw [hin v hv x]
      constructor
      · intro hx
        rcases scc_edge_or_single c.scc hv with ⟨w0, hw0, hw0c⟩ | hsingle
        · exact .inr ⟨w0, hw0, (hin w0 hw0c x).2 hx⟩
        · obtain ⟨u, hu, h⟩ := (hR x).1 hx
          have := hsingle u hu
          subst this
          rcases h with h | ⟨w, hw, hws, h⟩
          · rw [c.fresh u hu, mem_fresh] at h
            exact .inl h
          · have hwc : w ∉ comp := fun hh => hws ((c.snapIff hu hw).2 hh)
            refine .inr ⟨w, hw, (hout w hwc x).2 ?_⟩
            simpa [contrib, hop] using h
      · rintro (hx | ⟨w, hw, hx⟩)
        · exact (hR x).2 ⟨v, hv, .inl (by rw [c.fresh v hv, mem_fresh]; exact hx)⟩
        · by_cases hwc : w ∈ comp
          · exact (hin w hwc x).1 hx
          · have hws : w ∉ snap := fun hh => hwc ((c.snapIff hv hw).1 hh)
            refine (hR x).2 ⟨v, hv, .inr ⟨w, hw, hws, ?_⟩⟩
            have := (hout w hwc x).1 hx
            simpa [contrib, hop] using this
    | compl =>
      rw [eqAt_compl hop]
      obtain ⟨w, hw⟩ := c.wf.compl1 v (c.lt v hv) hop
      have hwm : w ∈ edgesOf sys v := by rw [hw]; simp
      have hwc : w ∉ comp := hF2 v hv hop w hwm
      have hws : w ∉ snap := fun hh => hwc ((c.snapIff hv hwm).1 hh)
      have hsingle : ∀ u ∈ comp, u = v := by
        rcases scc_edge_or_single c.scc hv with ⟨w0, hw0, hw0c⟩ | hsingle
        · exfalso
          have : w0 ∈ edgesOf sys v := hw0
          rw [hw] at this
          simp only [List.mem_singleton] at this
          subst this
          exact hwc hw0c
        · exact hsingle
      refine ⟨w, hw, fun x => ?_⟩
      rw [hin v hv x, hout w hwc x, hR x]
      constructor
      · rintro ⟨u, hu, h⟩
        have := hsingle u hu
        subst this
        rcases h with h | ⟨w', hw', _, h⟩
        · rw [c.fresh u hu, mem_fresh, c.wf.initE u (by rw [hop]; simp)] at h
          cases h
        · rw [hw] at hw'
          simp only [List.mem_singleton] at hw'
          subst hw'
          simpa [contrib, hop] using h
      · intro h
        exact ⟨v, hv, .inr ⟨w, hwm, hws, by simpa [contrib, hop] using h⟩⟩
  · intro b hb hbo v hv x hx
    rw [hin v hv x] at hx
    obtain ⟨u, hu, h⟩ := (hR x).1 hx
    have hbu : b u x := by
      rcases h with h | ⟨w, hw, hws, h⟩
      · rw [c.fresh u hu, mem_fresh] at h
        have hop : opOf sys u = .union := by
          cases hop : opOf sys u with
          | union => rfl
          | inter => rw [c.wf.initE u (by rw [hop]; simp)] at h; cases h
          | compl => rw [c.wf.initE u (by rw [hop]; simp)] at h; cases h
        exact ((eqAt_union hop).1 (hb u hu) x).2 (.inl h)
      · have hwc : w ∉ comp := fun hh => hws ((c.snapIff hu hw).2 hh)
        cases hop : opOf sys u with
        | inter => exact absurd hop (hni u hu)
        | union =>
          have h' : (s.get w).Mem x := by simpa [contrib, hop] using h
          have := (hbo u hu w hw hwc).1 x ((hout w hwc x).2 h')
          exact ((eqAt_union hop).1 (hb u hu) x).2 (.inr ⟨w, hw, this⟩)
        | compl =>
          have h' : ¬ (s.get w).Mem x := by simpa [contrib, hop] using h
          obtain ⟨w', he, hbw⟩ := (eqAt_compl hop).1 (hb u hu)
          have : w = w' := by rw [he] at hw; simpa using hw
          subst this
          rw [hbw x]
          intro hbx
          exact h' ((hout w hwc x).1 ((hbo u hu w hw hwc).2 hop x hbx))
    refine scc_flow c.scc b ?_ hv hu x hbu
    intro z hz w hzw hwc y hy
    have hop := hF3 z hz w hzw hwc
    exact ((eqAt_union hop).1 (hb z hz) y).2 (.inr ⟨w, hzw, hy⟩)

end TmVerif.SetClosure
