import TmVerif.Model.AstTypes
/-!
Helper lemmas for C21: derivatives of `AstTypes.Re` (the direction the checker needs:
a word of the language stays in the language of the derivative; an accepted empty word means `nullable`).
-/
namespace TmVerif.AstTypes.Re

theorem L_empty_false {w : List Nat} : ¬ L .empty w := by
  intro h; cases h

theorem L_eps {w : List Nat} (h : L .eps w) : w = [] := by
  cases h; rfl

theorem nullable_of_nil {r : Re} {w : List Nat} (h : L r w) (hw : w = []) : nullable r = true := by
  induction h with
  | eps => rfl
  | sym a => cases hw
  | altL _ ih => simp [nullable, ih hw]
  | altR _ ih => simp [nullable, ih hw]
  | seq _ _ ih1 ih2 =>
    have h1 := List.append_eq_nil_iff.mp hw
    simp [nullable, ih1 h1.1, ih2 h1.2]
  | starNil => rfl
  | starCons _ _ _ _ => rfl

/-! ### smart constructors keep the words -/

theorem L_mkSeq {r s : Re} {w : List Nat} (h : L (.seq r s) w) : L (mkSeq r s) w := by
  cases h with
  | seq h1 h2 =>
    rename_i u v
    unfold mkSeq
    split
    · exact absurd h1 L_empty_false
    · exact absurd h2 L_empty_false
    · have := L_eps h1; subst this; simpa using h2
    · have := L_eps h2; subst this; simpa using h1
    · exact L.seq h1 h2

theorem L_toList {r : Re} {w : List Nat} (h : L r w) : ∃ x ∈ toList r, L x w := by
  induction r generalizing w with
  | empty => exact absurd h L_empty_false
  | eps => exact ⟨_, by simp [toList], h⟩
  | sym a => exact ⟨_, by simp [toList], h⟩
  | seq r s _ _ => exact ⟨_, by simp [toList], h⟩
  | star r _ => exact ⟨_, by simp [toList], h⟩
  | alt r s ihr ihs =>
    cases h with
    | altL h1 =>
      obtain ⟨x, hx, hl⟩ := ihr h1
      exact ⟨x, by simp [toList, hx], hl⟩
    | altR h1 =>
      obtain ⟨x, hx, hl⟩ := ihs h1
      exact ⟨x, by simp [toList, hx], hl⟩

theorem L_fromList {l : List Re} {x : Re} {w : List Nat} (hx : x ∈ l) (h : L x w) : L (fromList l) w := by
  induction l with
  | nil => cases hx
  | cons y ys ih =>
    cases ys with
    | nil =>
      simp at hx; subst hx; simpa [fromList] using h
    | cons z zs =>
      simp only [fromList]
      rcases List.mem_cons.mp hx with rfl | hx'
      · exact L.altL h
      · exact L.altR (ih hx')

theorem mem_insert {r x : Re} {l : List Re} : x ∈ insert r l ↔ x = r ∨ x ∈ l := by
  induction l with
  | nil => simp [insert]
  | cons y ys ih =>
    unfold insert
    split
    · rename_i h; subst h; simp
    · split
      · simp
      · simp [ih]; constructor
        · rintro (h | h | h)
          · exact Or.inr (Or.inl h)
          · exact Or.inl h
          · exact Or.inr (Or.inr h)
        · rintro (h | h | h)
          · exact Or.inr (Or.inl h)
          · exact Or.inl h
          · exact Or.inr (Or.inr h)

theorem mem_insertAll {l acc : List Re} {x : Re} : x ∈ insertAll l acc ↔ x ∈ l ∨ x ∈ acc := by
  unfold insertAll
  induction l generalizing acc with
  | nil => simp
  | cons y ys ih =>
    simp only [List.foldl_cons, List.mem_cons]
    rw [ih, mem_insert]
    constructor
    · rintro (h | h | h)
      · exact Or.inl (Or.inr h)
      · exact Or.inl (Or.inl h)
      · exact Or.inr h
    · rintro ((h | h) | h)
      · exact Or.inr (Or.inl h)
      · exact Or.inl h
      · exact Or.inr (Or.inr h)

theorem L_mkAlt {r s : Re} {w : List Nat} (h : L (.alt r s) w) : L (mkAlt r s) w := by
  unfold mkAlt
  cases h with
  | altL h1 =>
    obtain ⟨x, hx, hl⟩ := L_toList h1
    exact L_fromList (mem_insertAll.mpr (Or.inl (List.mem_append.mpr (Or.inl hx)))) hl
  | altR h1 =>
    obtain ⟨x, hx, hl⟩ := L_toList h1
    exact L_fromList (mem_insertAll.mpr (Or.inl (List.mem_append.mpr (Or.inr hx)))) hl

/-! ### derivative -/

theorem L_deriv {r : Re} {x : List Nat} (h : L r x) : ∀ {a w}, x = a :: w → L (deriv a r) w := by
  induction h with
  | eps => intro a w hx; cases hx
  | sym b =>
    intro a w hx
    cases hx
    simp [deriv]; exact L.eps
  | altL _ ih =>
    intro a w hx
    simp only [deriv]
    exact L_mkAlt (L.altL (ih hx))
  | altR _ ih =>
    intro a w hx
    simp only [deriv]
    exact L_mkAlt (L.altR (ih hx))
  | @seq r s u v h1 h2 ih1 ih2 =>
    intro a w hx
    simp only [deriv]
    cases u with
    | nil =>
      have hn := nullable_of_nil h1 rfl
      simp only [hn, if_true]
      simp at hx
      exact L_mkAlt (L.altR (ih2 hx))
    | cons b u' =>
      simp at hx
      obtain ⟨hb, hw⟩ := hx
      subst hb; subst hw
      have h3 : L (mkSeq (deriv b r) s) (u' ++ v) := L_mkSeq (L.seq (ih1 rfl) h2)
      split
      · exact L_mkAlt (L.altL h3)
      · exact h3
  | starNil => intro a w hx; cases hx
  | @starCons r u v h1 h2 ih1 ih2 =>
    intro a w hx
    cases u with
    | nil => simp at hx; exact ih2 hx
    | cons b u' =>
      simp at hx
      obtain ⟨hb, hw⟩ := hx
      subst hb; subst hw
      simp only [deriv]
      exact L_mkSeq (L.seq (ih1 rfl) h2)

theorem L_deriv_cons {r : Re} {a : Nat} {w : List Nat} (h : L r (a :: w)) : L (deriv a r) w :=
  L_deriv h rfl

/-- The first symbol of a word occurs in the expression. -/
theorem first_mem_syms {r : Re} {x : List Nat} (h : L r x) : ∀ {a w}, x = a :: w → a ∈ syms r := by
  induction h with
  | eps => intro a w hx; cases hx
  | sym b => intro a w hx; cases hx; simp [syms]
  | altL _ ih => intro a w hx; simp [syms, ih hx]
  | altR _ ih => intro a w hx; simp [syms, ih hx]
  | @seq r s u v h1 h2 ih1 ih2 =>
    intro a w hx
    cases u with
    | nil => simp at hx; simp [syms, ih2 hx]
    | cons b u' => simp at hx; simp [syms, ih1 (by rw [hx.1] : b :: u' = a :: u')]
  | starNil => intro a w hx; cases hx
  | @starCons r u v h1 h2 ih1 ih2 =>
    intro a w hx
    cases u with
    | nil => simp at hx; exact ih2 hx
    | cons b u' => simp at hx; simp [syms, ih1 (by rw [hx.1] : b :: u' = a :: u')]

/-- `accepts` is complete for membership (one direction suffices for the driver's use). -/
theorem accepts_of_L {r : Re} {w : List Nat} (h : L r w) : accepts r w = true := by
  unfold accepts
  induction w generalizing r with
  | nil => exact nullable_of_nil h rfl
  | cons a w ih => exact ih (L_deriv_cons h)

/-! ### building blocks of `approx` -/

theorem L_altAll {l : List Re} {x : Re} {w : List Nat} (hx : x ∈ l) (h : L x w) : L (altAll l) w := by
  induction l with
  | nil => cases hx
  | cons y ys ih =>
    simp only [altAll]
    rcases List.mem_cons.mp hx with rfl | hx'
    · exact L.altL h
    · exact L.altR (ih hx')

theorem L_starOf {l w : List Nat} (h : ∀ a ∈ w, a ∈ l) : L (starOf l) w := by
  unfold starOf
  induction w with
  | nil => exact L.starNil
  | cons a w ih =>
    have h1 : L (altAll (l.map .sym)) [a] :=
      L_altAll (List.mem_map.mpr ⟨a, h a (by simp), rfl⟩) (L.sym a)
    have := L.starCons h1 (ih (fun b hb => h b (by simp [hb])))
    simpa using this

theorem L_seqAll_syms (l : List Nat) : L (seqAll (l.map .sym)) l := by
  induction l with
  | nil => exact L.eps
  | cons a l ih =>
    have := L.seq (L.sym a) ih
    simpa [seqAll] using this

end TmVerif.AstTypes.Re
