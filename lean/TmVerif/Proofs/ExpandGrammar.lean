import TmVerif.Proofs.ExpandShape
/-!
C13 helper lemmas, part 5: the plain grammar produced by the mirror derives exactly the least
solution of the extended grammar.
-/
namespace TmVerif.Expand
open TmVerif.CFG

/-! ### derivation languages of plain grammars -/

/-- the language derived from a symbol -/
def DLang (G : Grammar) : Nat → Lang := fun X w => Derives G X w

mutual
/-- `Derives` is the least environment closed under the rules -/
theorem derives_least {G : Grammar} {ρ : Nat → Lang}
    (ht : ∀ a, a < G.nTerms → ρ a [a])
    (hr : ∀ r ∈ G.rules.toList, Lang.le (SeqLang ρ r.rhs) (ρ r.lhs)) :
    ∀ {X : Nat} {w : List Nat}, Derives G X w → ρ X w
  | _, _, .term a ha => ht a ha
  | _, _, .rule r w hm hs => hr r hm w (derivesSeq_least ht hr hs)
theorem derivesSeq_least {G : Grammar} {ρ : Nat → Lang}
    (ht : ∀ a, a < G.nTerms → ρ a [a])
    (hr : ∀ r ∈ G.rules.toList, Lang.le (SeqLang ρ r.rhs) (ρ r.lhs)) :
    ∀ {α : List Nat} {w : List Nat}, DerivesSeq G α w → SeqLang ρ α w
  | _, _, .nil => rfl
  | _, _, .cons X α u v hX hα => ⟨u, v, derives_least ht hr hX, derivesSeq_least ht hr hα, rfl⟩
end

theorem seqLang_derivesSeq {G : Grammar} : ∀ (α : List Nat) (w : List Nat),
    SeqLang (DLang G) α w → DerivesSeq G α w
  | [], w, h => by cases h; exact .nil
  | X :: α, _, ⟨u, v, hu, hv, rfl⟩ => .cons X α u v hu (seqLang_derivesSeq α v hv)

theorem dlang_closed (G : Grammar) : ∀ r ∈ G.rules.toList, Lang.le (SeqLang (DLang G) r.rhs) (DLang G r.lhs) :=
  fun r hm w h => Derives.rule r w hm (seqLang_derivesSeq r.rhs w h)

theorem derives_cases {G : Grammar} {X : Nat} {w : List Nat} (h : Derives G X w) :
    (X < G.nTerms ∧ w = [X]) ∨ ∃ r ∈ G.rules.toList, r.lhs = X ∧ SeqLang (DLang G) r.rhs w := by
  cases h with
  | term a ha => exact Or.inl ⟨ha, rfl⟩
  | rule r w hm hs =>
    exact Or.inr ⟨r, hm, rfl, derivesSeq_least (fun a ha => Derives.term a ha) (dlang_closed G) hs⟩

/-! ### list rules: one unfolding step and its least solution -/

/-- the right-hand sides of the list rules as an operator on the list's own language `L` -/
def listStep (ne rr : Bool) (L E S : Lang) : Lang :=
  Lang.union (if rr then Lang.cat E (Lang.cat S L) else Lang.cat (Lang.cat L S) E)
    (if ne then E else Lang.eps)

/-- `e (s e)*`, resp. `(e (s e)*)?` -/
def listDen (ne : Bool) (E S : Lang) : Lang :=
  if ne then Lang.sepIter E S else Lang.union (Lang.sepIter E S) Lang.eps

theorem list_closed (ne rr : Bool) (E S : Lang) (h : ne = true ∨ S = Lang.eps) :
    Lang.le (listStep ne rr (listDen ne E S) E S) (listDen ne E S) := by
  cases ne
  · have hS : S = Lang.eps := by rcases h with h | h; cases h; exact h
    subst hS
    simp only [listDen, listStep, Bool.false_eq_true, if_false, sepIter_eps_union]
    cases rr
    · rintro w (h | h)
      · rw [Lang.cat_eps] at h; exact star_left_closed E w h
      · exact star_base E w h
    · rintro w (h | h)
      · rw [Lang.eps_cat] at h; exact star_right_closed E w h
      · exact star_base E w h
  · simp only [listDen, listStep, if_true]
    cases rr
    · rintro w (h | h)
      · exact sepIter_left_closed E S w h
      · exact sepIter_base E S w h
    · rintro w (h | h)
      · exact sepIter_right_closed E S w h
      · exact sepIter_base E S w h

theorem list_least (ne rr : Bool) (E S L : Lang) (h : ne = true ∨ S = Lang.eps)
    (hL : Lang.le (listStep ne rr L E S) L) : Lang.le (listDen ne E S) L := by
  cases ne
  · have hS : S = Lang.eps := by rcases h with h | h; cases h; exact h
    subst hS
    simp only [listDen, Bool.false_eq_true, if_false, sepIter_eps_union]
    simp only [listStep, Bool.false_eq_true, if_false] at hL
    cases rr
    · refine star_left_least E L (fun w hw => hL w (Or.inr hw)) (fun w hw => hL w (Or.inl ?_))
      simp only [Bool.false_eq_true, if_false]; rw [Lang.cat_eps]; exact hw
    · refine star_right_least E L (fun w hw => hL w (Or.inr hw)) (fun w hw => hL w (Or.inl ?_))
      simp only [if_true]; rw [Lang.eps_cat]; exact hw
  · simp only [listDen, if_true]
    simp only [listStep, if_true] at hL
    cases rr
    · exact sepIter_left_least E S L (fun w hw => hL w (Or.inr hw))
        (fun w hw => hL w (Or.inl (by simpa using hw)))
    · exact sepIter_right_least E S L (fun w hw => hL w (Or.inr hw))
        (fun w hw => hL w (Or.inl (by simpa using hw)))

/-! ### what the synthesized rules denote -/

/-- terminals are interpreted as themselves -/
def TermEnv (nT : Nat) (ρ : Nat → Lang) : Prop := ∀ t, t < nT → ρ t = fun w => w = [t]

/-- the right-hand sides of the rules `synth` gives a nonterminal with value `v`, as a language:
one unfolding for lists, the denotation itself otherwise -/
def stepDen (cx : Ctx) (ρ : Nat → Lang) (self : Nat) : Expr → Lang
  | .list ne rr elem sep => listStep ne rr (ρ self) (den cx.sets ρ elem) (den cx.sets ρ sep)
  | v => den cx.sets ρ v

/-- every set used has at least one terminal, and only terminals -/
def SetsOk (cx : Ctx) : Prop :=
  ∀ i, i < cx.setTerms.length → cx.sets i ≠ [] ∧ ∀ t ∈ cx.sets i, t < cx.nT

/-- `SetsOk` without the non-emptiness: only terminals -/
def SetsTerm (cx : Ctx) : Prop := ∀ i, i < cx.setTerms.length → ∀ t ∈ cx.sets i, t < cx.nT

theorem elemOk_refsLt {n : Nat} {e : Expr} (h : ElemOk n e) : refsLt n e = true := by
  rcases h with h | ⟨subs, rfl, h⟩
  · exact h.2
  · simp only [refsLt]; exact (refsLtList_iff n subs).2 (fun a ha => (h a ha).2)

theorem valOk_refsLt {cx : Ctx} {k : Nat} {v : Expr} (h : ValOk cx k v) : refsLt (cx.base + k) v = true := by
  cases v <;> simp only [ValOk] at h <;> try (simp [refsLt]; done)
  · next e =>
    cases e <;> simp only [ValOk] at h
    simpa [refsLt] using h
  · next ne rr elem sep =>
    simp only [refsLt, Bool.and_eq_true]
    exact ⟨elemOk_refsLt h.2.1, h.2.2.2⟩

theorem den_rec (cx : Ctx) (ρ : Nat → Lang) (self : Nat) (rr : Bool) (sep : Expr) :
    den cx.sets ρ (listRec self rr sep) =
    if rr then Lang.cat (den cx.sets ρ sep) (ρ self) else Lang.cat (ρ self) (den cx.sets ρ sep) := by
  unfold listRec
  by_cases hs : isEmptyExpr sep = true
  · rw [if_pos hs, isEmptyExpr_eq hs]
    cases rr <;> simp [den, denSeq, Lang.cat_eps, Lang.eps_cat]
  · rw [if_neg hs]
    cases rr <;> simp [den_concat, den, denSeq, Lang.cat_eps]

theorem good_rec {n self : Nat} (rr : Bool) {sep : Expr} (hs : Good n sep) (hself : self < n) :
    Good n (listRec self rr sep) := by
  unfold listRec
  have hl : Good n (Expr.seq [.ref self]) :=
    ⟨by simp [plain, plainList], by simpa [refsLt, refsLtList] using hself⟩
  split
  · exact hl
  · split
    · exact concat_good (by intro e he; simp at he; rcases he with rfl | rfl <;> assumption)
    · exact concat_good (by intro e he; simp at he; rcases he with rfl | rfl <;> assumption)

/-- the synthesized rules exist, are plain, and mention only earlier symbols and the nonterminal itself -/
theorem synth_good (cx : Ctx) (hsets : SetsTerm cx) (k : Nat) (v : Expr) (hv : ValOk cx k v) :
    ∃ alts, synth cx (cx.base + k) v = some alts ∧ ∀ a ∈ alts, Good (cx.base + k + 1) a := by
  cases v <;> simp only [ValOk] at hv
  case set i =>
    simp only [synth]
    split
    · exact ⟨_, rfl, fun a ha => by simp at ha; subst ha; exact ⟨by simp [plain], by simp [refsLt]⟩⟩
    · next ts hts =>
      refine ⟨_, rfl, fun a ha => ?_⟩
      simp only [List.mem_map] at ha
      obtain ⟨t, ht, rfl⟩ := ha
      have := hsets i hv t ht
      have hb : cx.nT ≤ cx.base := by simp [Ctx.base]
      exact good_ref (by omega)
  case lookahead ps =>
    exact ⟨_, rfl, fun a ha => by simp at ha; subst ha; exact ⟨by simp [plain], by simp [refsLt]⟩⟩
  case opt e =>
    cases e <;> simp only [ValOk] at hv
    next s =>
    refine ⟨_, rfl, fun a ha => ?_⟩
    simp at ha
    rcases ha with rfl | rfl
    · exact good_ref (by omega)
    · exact ⟨by simp [plain], by simp [refsLt]⟩
  case list ne rr elem sep =>
    obtain ⟨_, helem, hsep⟩ := hv
    have hrec := good_rec (n := cx.base + k + 1) (self := cx.base + k) rr
      (hsep.mono (by omega)) (by omega)
    have hemp : Good (cx.base + k + 1) Expr.empty := ⟨by simp [plain], by simp [refsLt]⟩
    rcases helem with hg | ⟨subs, rfl, hsubs⟩
    · have hg' := hg.mono (Nat.le_succ _)
      have hnc : ∀ subs, elem ≠ .choice subs := by
        intro subs h; subst h; simp [Good, plain] at hg
      have : synth cx (cx.base + k) (.list ne rr elem sep) =
          some [if rr then concat [elem, listRec (cx.base + k) rr sep] else concat [listRec (cx.base + k) rr sep, elem],
            if ne then elem else .empty] := by
        cases elem <;> first | rfl | exact absurd rfl (hnc _)
      refine ⟨_, this, fun a ha => ?_⟩
      simp at ha
      rcases ha with rfl | rfl
      · split
        · exact concat_good (by intro e he; simp at he; rcases he with rfl | rfl <;> assumption)
        · exact concat_good (by intro e he; simp at he; rcases he with rfl | rfl <;> assumption)
      · split <;> assumption
    · have hsubs' : ∀ a ∈ subs, Good (cx.base + k + 1) a := fun a ha => (hsubs a ha).mono (Nat.le_succ _)
      refine ⟨_, rfl, fun a ha => ?_⟩
      rcases List.mem_append.1 ha with ha | ha
      · split at ha
        · exact multiConcat_good hsubs' (by intro e he; simp at he; subst he; exact hrec) a ha
        · exact multiConcat_good (by intro e he; simp at he; subst he; exact hrec) hsubs' a ha
      · split at ha
        · exact hsubs' a ha
        · simp at ha; subst ha; exact hemp

/-- the language of the synthesized rules -/
theorem synth_den (cx : Ctx) (ρ : Nat → Lang) (hρ : TermEnv cx.nT ρ) (hsets : SetsOk cx)
    (k : Nat) (self : Nat) (v : Expr) (hv : ValOk cx k v) (alts : List Expr)
    (ha : synth cx self v = some alts) : denAlts cx.sets ρ alts = stepDen cx ρ self v := by
  cases v <;> simp only [ValOk] at hv
  case set i =>
    obtain ⟨hne, hts⟩ := hsets i hv
    have hsyn : synth cx self (.set i) = some ((cx.sets i).map .ref) := by
      simp only [synth]
    rw [hsyn] at ha; cases ha
    simp only [stepDen, den]
    apply Lang.ext; intro w
    simp only [denAlts, List.mem_map]
    constructor
    · rintro ⟨_, ⟨t, ht, rfl⟩, hw⟩
      simp only [den] at hw
      rw [hρ t (hts t ht)] at hw
      exact ⟨t, ht, hw⟩
    · rintro ⟨t, ht, rfl⟩
      refine ⟨.ref t, ⟨t, ht, rfl⟩, ?_⟩
      simp only [den]
      rw [hρ t (hts t ht)]
  case lookahead ps =>
    simp only [synth] at ha; cases ha
    simp [stepDen, den, denAlts_singleton]
  case opt e =>
    cases e <;> simp only [ValOk] at hv
    next s =>
    simp only [synth] at ha; cases ha
    rw [denAlts_cons, denAlts_singleton]
    simp [stepDen, den]
  case list ne rr elem sep =>
    obtain ⟨_, helem, hsep⟩ := hv
    simp only [stepDen, listStep]
    have hrec := den_rec cx ρ self rr sep
    rcases helem with hg | ⟨subs, rfl, hsubs⟩
    · have hnc : ∀ subs, elem ≠ .choice subs := by
        intro subs h; subst h; simp [Good, plain] at hg
      have : synth cx self (.list ne rr elem sep) =
          some [if rr then concat [elem, listRec self rr sep] else concat [listRec self rr sep, elem],
            if ne then elem else .empty] := by
        cases elem <;> first | rfl | exact absurd rfl (hnc _)
      rw [this] at ha; cases ha
      rw [denAlts_cons, denAlts_singleton]
      congr 1
      · cases rr
        · simp only [Bool.false_eq_true, if_false] at hrec ⊢
          rw [den_concat]; simp only [denSeq, Lang.cat_eps]; rw [hrec]
        · simp only [if_true] at hrec ⊢
          rw [den_concat]; simp only [denSeq, Lang.cat_eps]; rw [hrec]
      · cases ne <;> simp [den]
    · simp only [synth] at ha; cases ha
      rw [denAlts_append]
      congr 1
      · cases rr
        · simp only [Bool.false_eq_true, if_false] at hrec ⊢
          rw [denAlts_multiConcat, denAlts_singleton, hrec]
          simp [den, denAlt_eq_denAlts]
        · simp only [if_true] at hrec ⊢
          rw [denAlts_multiConcat, denAlts_singleton, hrec]
          simp [den, denAlt_eq_denAlts]
      · cases ne
        · simp [denAlts_singleton, den]
        · simp [den, denAlt_eq_denAlts]

/-! ### a consistent extension of an environment to the extracted nonterminals -/

def extendEnv (cx : Ctx) (ρ : Nat → Lang) : List NT → Nat → (Nat → Lang)
  | [], _ => ρ
  | nt :: rest, k =>
    extendEnv cx (fun s => if s = cx.base + k then den cx.sets ρ nt.value else ρ s) rest (k + 1)

theorem extendEnv_below (cx : Ctx) : ∀ (l : List NT) (ρ : Nat → Lang) (k s : Nat), s < cx.base + k →
    extendEnv cx ρ l k s = ρ s
  | [], _, _, _, _ => rfl
  | nt :: rest, ρ, k, s, h => by
    simp only [extendEnv]
    rw [extendEnv_below cx rest _ (k + 1) s (by omega)]
    simp; intro h'; omega

theorem extendEnv_consistent (cx : Ctx) : ∀ (l : List NT) (ρ : Nat → Lang) (k : Nat),
    (∀ j nt, l[j]? = some nt → refsLt (cx.base + k + j) nt.value = true) →
    ∀ j nt, l[j]? = some nt →
      extendEnv cx ρ l k (cx.base + k + j) = den cx.sets (extendEnv cx ρ l k) nt.value
  | [], _, _, _, j, nt, h => by simp at h
  | nt0 :: rest, ρ, k, hb, j, nt, h => by
    simp only [extendEnv]
    cases j with
    | zero =>
      simp at h; subst h
      rw [extendEnv_below cx rest _ (k + 1) _ (by omega)]
      simp only [Nat.add_zero, if_true]
      apply den_congr cx.sets (cx.base + k) _ _ (by simpa using hb 0 nt0 (by simp))
      intro s hs
      rw [extendEnv_below cx rest _ (k + 1) s (by omega)]
      simp; intro h'; omega
    | succ j =>
      simp at h
      have := extendEnv_consistent cx rest
        (fun s => if s = cx.base + k then den cx.sets ρ nt0.value else ρ s) (k + 1)
        (fun j' nt' h' => by
          have := hb (j' + 1) nt' (by simpa using h')
          rw [show cx.base + (k + 1) + j' = cx.base + k + (j' + 1) by omega]; exact this)
        j nt h
      rw [show cx.base + k + (j + 1) = cx.base + (k + 1) + j by omega]
      exact this

end TmVerif.Expand
