/-
Helper lemmas for C07 soundness, part 3: `step` preserves the invariant (adapted from
Proofs/LRSoundStep.lean).
-/
import TmVerif.Proofs.LRSoundKInv
namespace TmVerif.LRSoundK
open TmVerif.LR TmVerif.CFG TmVerif.LRSound

theorem shift_invK {g : Grammar} {t : Tables} {cert : Cert} {inp : Input} {i : Nat}
    (hc : CertFactsK g t cert) (htok : TokOk t inp)
    (c1 c' : Cfg) (s a : Nat) (q : Int) (syms : List Int)
    (hstk : StackOkK g t i c1.stack s syms (consumed inp (nshift c1.evs)))
    (hn1 : NextOk inp c1 (nshift c1.evs))
    (hnext : c1.next = some (inp.tok (nshift c1.evs)))
    (ha1 : (inp.tok (nshift c1.evs)).sym = (a : Int)) (hE : TermEdgeK t s a q)
    (happ : apply t inp c1 (.shift q) = .cont c') : InvK g t i inp c' := by
  rw [apply, hnext] at happ
  simp only at happ
  injection happ with happ
  subst happ
  obtain ⟨q', hq', _, _, _⟩ := edgeOk_elim (edge_okK hc (Or.inl hE))
  subst hq'
  have ha : symAt inp (nshift c1.evs) = a := by unfold symAt; rw [ha1]; rfl
  refine ⟨q', (a : Int) :: syms, ?_, rfl, ?_⟩
  · simp only [nshift, consumed_succ, ha]
    refine StackOkK.push _ _ s a q' syms _ [a] hstk ha1 rfl (Or.inl hE) (Derives.term a ?_)
    rw [← hc.nTerms]; exact hE.2.1
  · unfold NextOk at hn1 ⊢
    rw [hnext] at hn1
    simp only [nshift]
    by_cases hz : (inp.tok (nshift c1.evs)).sym = 0
    · simp only [hz, ne_eq, not_true_eq_false, if_false]
      exact ⟨(tok_zero_next htok _ hz).symm, fun h => h.elim⟩
    · simp only [ne_eq, hz, not_false_eq_true, if_true]
      exact hn1.2 hz

theorem reduce_invK {g : Grammar} {t : Tables} {cert : Cert} {inp : Input} {i : Nat}
    (hc : CertFactsK g t cert) (hi : i < g.inputs.size)
    (c1 c' : Cfg) (s : Nat) (r : Int) (syms : List Int)
    (hstk : StackOkK g t i c1.stack s syms (consumed inp (nshift c1.evs)))
    (hn1 : NextOk inp c1 (nshift c1.evs))
    (hok : ruleOk g t cert s r = true)
    (happ : apply t inp c1 (.reduce r) = .cont c') : InvK g t i inp c' := by
  unfold ruleOk at hok
  simp only [Bool.and_eq_true, decide_eq_true_eq] at hok
  obtain ⟨hr0, hok⟩ := hok
  cases hrule : g.rules[r.toNat]? with
  | none => rw [hrule] at hok; cases hok
  | some rule =>
    rw [hrule] at hok
    simp only [Bool.and_eq_true, beq_iff_eq, List.isPrefixOf_iff_prefix] at hok
    obtain ⟨⟨hlen, hsym⟩, hpre⟩ := hok
    have hmem : rule ∈ g.rules.toList := by
      rw [Array.mem_toList_iff]; exact Array.mem_of_getElem? hrule
    have hwf := (wfFacts hc.wf).rules rule hmem
    obtain ⟨syms', hsyms⟩ := hpre.trans (hstk.past hc hi)
    obtain ⟨s', w', v, hrest, hder, hw⟩ :=
      StackOkK.pop rule.rhs.reverse _ s syms syms' _ hstk hsyms.symm
    rw [List.reverse_reverse] at hder
    rw [List.length_reverse] at hrest
    obtain ⟨ln, lhs, c2, off, endo, top, rest, q, h1, h2, h3, h4, h5, h6, h7⟩ :=
      apply_reduce_cont happ
    rw [hlen] at h1; rw [hsym] at h2
    injection h1 with h1; injection h2 with h2
    subst h1 h2
    have hc2 : c2.stack = c1.stack ∧ c2.evs = c1.evs ∧ NextOk inp c2 (nshift c1.evs) := by
      rcases h3 with h3 | h3
      · subst h3; exact ⟨rfl, rfl, hn1⟩
      · obtain ⟨_, _, f3, _, f5, f6⟩ := fetch_spec inp c1 _ hn1
        subst h3; exact ⟨f3, f5, f6⟩
    obtain ⟨e1, e2, e3⟩ := hc2
    rw [e1, Int.toNat_natCast] at h4
    rw [h4] at hrest
    obtain ⟨e, rest', he, hes⟩ := hrest.top
    injection he with he1 he2
    subst he1 he2
    have hs' := hrest.lt hc hi
    have hg := hc.gotos s' hs' (rule.lhs - t.nTerms) (by have := hc.nTerms; have := hc.nSyms; omega)
    have e4 : t.nTerms + (rule.lhs - t.nTerms) = rule.lhs := by have := hc.nTerms; omega
    unfold gotoOk at hg
    rw [e4, ← hes, h5] at hg
    simp only [Bool.or_eq_true, beq_iff_eq] at hg
    rcases hg with hg | hg
    · exact absurd hg h6
    · obtain ⟨q', hq', hq1, hq2, _⟩ := edgeOk_elim hg
      subst hq' h7
      have hE : EdgeK t s' rule.lhs (q' : Int) := by
        refine Or.inr ⟨hs', by have := hc.nTerms; omega, by have := hc.nSyms; omega, ?_, by omega⟩
        rw [← hes]; exact h5
      refine ⟨q', (rule.lhs : Int) :: syms', ?_, rfl, ?_⟩
      · simp only [nshift, e2, hw]
        exact StackOkK.push _ _ s' rule.lhs q' syms' w' v hrest rfl rfl hE
          (Derives.rule rule v hmem hder)
      · simp only [nshift, e2]
        exact e3

theorem step_invK {g : Grammar} {t : Tables} {cert : Cert} {inp : Input} {i : Nat}
    (hc : CertFactsK g t cert) (htok : TokOk t inp) (hi : i < g.inputs.size)
    (c c' : Cfg) (h : InvK g t i inp c) (hs : step t inp c = .cont c') : InvK g t i inp c' := by
  obtain ⟨s, syms, hstk, hst, hn⟩ := h
  have hlt := hstk.lt hc hi
  have h0 : 0 < t.nTerms := by have := (wfFacts hc.wf).nTermsPos; have := hc.nTerms; omega
  unfold step at hs
  cases hd : decode t inp c with
  | none => rw [hd] at hs; cases hs
  | some p =>
    obtain ⟨c1, act⟩ := p
    rw [hd] at hs
    simp only at hs
    obtain ⟨e1, e2, e3, hn1, hact⟩ := decode_specK hc htok h0 c c1 act s _ hlt hst hn hd
    rw [← e1, ← e3] at hstk
    rw [← e3] at hn1
    cases act with
    | error => rw [apply] at hs; cases hs
    | shift q =>
      rcases hact with ⟨a, ha1, ha2, ha3, ha4, ha5, _⟩ | hact
      · rw [← e3] at ha1 ha2
        exact shift_invK hc htok c1 c' s a q syms hstk hn1 ha1 ha2 ⟨hlt, ha3, ha4, ha5 q rfl⟩ hs
      · simp [actOk] at hact
    | reduce r =>
      have hok : ruleOk g t cert s r = true := by
        rcases hact with ⟨a, _, _, _, _, _, hact⟩ | hact
        · exact hact
        · exact hact
      exact reduce_invK hc hi c1 c' s r syms hstk hn1 hok hs

theorem runLoop_acceptK {g : Grammar} {t : Tables} {cert : Cert} {inp : Input} {i : Nat}
    (hc : CertFactsK g t cert) (htok : TokOk t inp) (hi : i < g.inputs.size) (fin : Int) :
    ∀ (fuel : Nat) (c c' : Cfg), InvK g t i inp c → runLoop t inp fin fuel c = (.accept, c') →
      InvK g t i inp c' ∧ c'.state = fin
  | 0, c, c', _, h => by rw [runLoop] at h; cases h
  | fuel + 1, c, c', hinv, h => by
    rw [runLoop] at h
    split at h
    · rename_i hfin
      injection h with _ h
      subst h
      exact ⟨hinv, hfin⟩
    · split at h
      · rename_i c1 hstep
        exact runLoop_acceptK hc htok hi fin fuel c1 c' (step_invK hc htok hi c c1 hinv hstep) h
      · exact absurd h errorAt_not_accept
      · rename_i r c1 _ hstep
        injection h with h1 h2
        subst h1 h2
        exact absurd hstep step_not_accept


end TmVerif.LRSoundK
