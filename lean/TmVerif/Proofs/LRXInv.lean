import TmVerif.Proofs.LRXStep
/-!
Invariants of the elementary moves (hence of every function of the extended runtime model).
-/
namespace TmVerif.LRX
open TmVerif.LR

/-! ### events only grow -/

theorem Move.evs_suffix {inp b c c'} (h : Move inp b c c') : c.evs <:+ c'.evs := by
  cases h with
  | emitNodes _ _ evs _ => exact List.suffix_append _ _
  | emitError => exact List.suffix_cons _ _
  | _ => exact List.suffix_refl _

theorem Moves.evs_suffix {inp b c c'} (h : Moves inp b c c') : c.evs <:+ c'.evs := by
  induction h with
  | refl => exact List.suffix_refl _
  | tail _ hm ih => exact ih.trans hm.evs_suffix

theorem nodeCount_mono {c c' : XCfg} (h : c.evs <:+ c'.evs) : c.nodeCount ≤ c'.nodeCount := by
  unfold XCfg.nodeCount
  exact (h.filter _).length_le

theorem nodeCount_congr {c c' : XCfg} (h : c'.evs = c.evs) : c'.nodeCount = c.nodeCount := by
  unfold XCfg.nodeCount; rw [h]

/-! ### `shiftCounter` is only touched by `shift` and `bump` -/

theorem Move.shiftCounter_eq {inp e c c'} (h : Move inp (false, e) c c') : c'.shiftCounter = c.shiftCounter := by
  cases h <;> rfl

theorem Moves.shiftCounter_eq {inp e c c'} (h : Moves inp (false, e) c c') : c'.shiftCounter = c.shiftCounter := by
  induction h with
  | refl => rfl
  | tail _ hm ih => rw [hm.shiftCounter_eq, ih]

/-! ### a non-zero `recovering` counter implies that an error has been reported -/

def hasErr (evs : List XEv) : Prop := ∃ e ∈ evs, e.isError = true

theorem hasErr_of_suffix {l l' : List XEv} (h : l <:+ l') (he : hasErr l) : hasErr l' := by
  obtain ⟨e, hm, hb⟩ := he
  exact ⟨e, h.subset hm, hb⟩

/-- `recovering ≠ 0` only after a handler call -/
def RecInv (c : XCfg) : Prop := c.recovering = 0 ∨ hasErr c.evs

theorem Move.recInv {inp b c c'} (h : Move inp b c c') (hc : RecInv c) : RecInv c' := by
  cases h with
  | fetch => exact hc
  | dropNext => exact hc
  | setStack => exact hc
  | emitNodes _ _ evs _ =>
    rcases hc with h | h
    · exact .inl h
    · exact .inr (hasErr_of_suffix (List.suffix_append _ _) h)
  | emitError _ _ tk _ _ => exact .inr ⟨_, List.mem_cons_self, rfl⟩
  | setRec _ _ hp =>
    rcases hc with h | h
    · obtain ⟨o, e, rest, hr⟩ := hp h
      exact .inr ⟨_, by rw [hr]; exact List.mem_cons_self, rfl⟩
    · exact .inr h
  | shift _ _ tk q sc _ =>
    rcases hc with h | h
    · left; show c.recovering - 1 = 0; omega
    · exact .inr h
  | bump => exact hc

theorem Moves.recInv {inp b c c'} (h : Moves inp b c c') (hc : RecInv c) : RecInv c' := by
  induction h with
  | refl => exact hc
  | tail _ hm ih => exact hm.recInv ih

end TmVerif.LRX
