import TmVerif.Model.LexRun
/-!
The keyword switch (`gen/funcs.go: asStringSwitch`, and the code go_lexer.go.tmpl generates from it):
looking a text up with the hash the generator would compute for it returns exactly `m[text]`.
-/
namespace TmVerif.LexRun

/-! ### insertion sort keeps the elements -/

theorem mem_insertBy {α : Type} (lt : α → α → Bool) (x y : α) (l : List α) :
    y ∈ insertBy lt x l ↔ y = x ∨ y ∈ l := by
  induction l with
  | nil => simp [insertBy]
  | cons z zs ih =>
    simp only [insertBy]
    split
    · simp
    · simp only [List.mem_cons, ih]
      constructor
      · rintro (h | h | h)
        · exact Or.inr (Or.inl h)
        · exact Or.inl h
        · exact Or.inr (Or.inr h)
      · rintro (h | h | h)
        · exact Or.inr (Or.inl h)
        · exact Or.inl h
        · exact Or.inr (Or.inr h)

theorem mem_sortBy {α : Type} (lt : α → α → Bool) (y : α) (l : List α) : y ∈ sortBy lt l ↔ y ∈ l := by
  unfold sortBy
  induction l with
  | nil => simp
  | cons x xs ih => simp only [List.foldr_cons, mem_insertBy, ih, List.mem_cons]

/-! ### the size is a power of two -/

theorem switchSizeLoop_pow (n : Nat) : ∀ fuel size, (∃ k, size = 2 ^ k) → ∃ k, switchSizeLoop n fuel size = 2 ^ k := by
  intro fuel
  induction fuel with
  | zero => intro size h; simpa [switchSizeLoop] using h
  | succ fuel ih =>
    intro size h
    simp only [switchSizeLoop]
    split
    · obtain ⟨k, hk⟩ := h
      exact ih _ ⟨k + 1, by rw [hk, Nat.pow_succ]⟩
    · exact h

theorem switchSize_pow (n : Nat) : ∃ k, switchSize n = 2 ^ k :=
  switchSizeLoop_pow n n 8 ⟨3, rfl⟩

/-! ### building the cases -/

/-- Invariant of the case list while keys are being added. -/
structure CasesInv (hashf : List UInt8 → Nat) (size : Nat) (m : List (List UInt8 × Int))
    (keys : List (List UInt8)) (cases : List HashCase) : Prop where
  nodup : (cases.map (·.value)).Nodup
  sub_ok : ∀ c ∈ cases, ∀ sc ∈ c.subcases, sc.hash = hashf sc.str ∧ sc.hash % size = c.value ∧
    sc.str ∈ keys ∧ sc.action = (mapLookup m sc.str).getD 0
  covered : ∀ k ∈ keys, ∃ c ∈ cases, c.value = hashf k % size ∧ ∃ sc ∈ c.subcases, sc.str = k

theorem addSubcase_values (rng : Nat) (sc : SwitchCase) (cases : List HashCase) :
    (addSubcase rng sc cases).map (·.value) =
      if rng ∈ cases.map (·.value) then cases.map (·.value) else cases.map (·.value) ++ [rng] := by
  induction cases with
  | nil => simp [addSubcase]
  | cons c cs ih =>
    simp only [addSubcase]
    by_cases h : c.value = rng
    · simp [h]
    · have h' : ¬ rng = c.value := fun e => h e.symm
      simp only [beq_iff_eq, h, if_false, List.map_cons, ih, List.mem_cons, h', false_or]
      split <;> simp

theorem mem_addSubcase (rng : Nat) (sc : SwitchCase) (cases : List HashCase) (c' : HashCase)
    (h : c' ∈ addSubcase rng sc cases) :
    (c' ∈ cases ∧ c'.value ≠ rng) ∨ (c'.value = rng ∧ ((c' = ⟨rng, [sc]⟩ ∧ rng ∉ cases.map (·.value)) ∨
      ∃ c ∈ cases, c.value = rng ∧ c' = ⟨c.value, c.subcases ++ [sc]⟩)) ∨ (c' ∈ cases) := by
  induction cases with
  | nil =>
    simp only [addSubcase, List.mem_singleton] at h
    subst h
    exact Or.inr (Or.inl ⟨rfl, Or.inl ⟨rfl, by simp⟩⟩)
  | cons c cs ih =>
    simp only [addSubcase] at h
    by_cases hv : c.value = rng
    · simp only [hv, beq_self_eq_true, if_true, List.mem_cons] at h
      rcases h with h | h
      · subst h
        exact Or.inr (Or.inl ⟨rfl, Or.inr ⟨c, by simp, hv, by rw [hv]⟩⟩)
      · exact Or.inr (Or.inr (by simp [h]))
    · simp only [beq_iff_eq, hv, if_false, List.mem_cons] at h
      rcases h with h | h
      · subst h; exact Or.inl ⟨by simp, hv⟩
      · rcases ih h with ⟨h1, h2⟩ | ⟨h1, h2⟩ | h1
        · exact Or.inl ⟨by simp [h1], h2⟩
        · refine Or.inr (Or.inl ⟨h1, ?_⟩)
          rcases h2 with ⟨h2, h3⟩ | ⟨c0, hc0, h2, h3⟩
          · left
            refine ⟨h2, ?_⟩
            simp only [List.map_cons, List.mem_cons, not_or]
            exact ⟨fun e => hv e.symm, h3⟩
          · right; exact ⟨c0, by simp [hc0], h2, h3⟩
        · exact Or.inr (Or.inr (by simp [h1]))

/-- In a list whose values are pairwise different, a member is determined by its value. -/
theorem eq_of_value_eq (cases : List HashCase) (h : (cases.map (·.value)).Nodup) (c c' : HashCase)
    (hc : c ∈ cases) (hc' : c' ∈ cases) (hv : c.value = c'.value) : c = c' := by
  induction cases with
  | nil => simp at hc
  | cons x xs ih =>
    simp only [List.map_cons, List.nodup_cons, List.mem_map, not_exists, not_and] at h
    simp only [List.mem_cons] at hc hc'
    rcases hc with rfl | hc <;> rcases hc' with rfl | hc'
    · rfl
    · exact absurd hv.symm (h.1 c' hc')
    · exact absurd hv (h.1 c hc)
    · exact ih h.2 hc hc'

theorem casesInv_add (hashf : List UInt8 → Nat) (size : Nat) (m : List (List UInt8 × Int))
    (keys : List (List UInt8)) (cases : List HashCase) (str : List UInt8)
    (inv : CasesInv hashf size m keys cases) :
    CasesInv hashf size m (keys ++ [str])
      (addSubcase (hashf str % size) ⟨hashf str, str, (mapLookup m str).getD 0⟩ cases) := by
  refine ⟨?_, ?_, ?_⟩
  · rw [addSubcase_values]
    split
    · exact inv.nodup
    · rename_i hn
      rw [List.nodup_append]
      refine ⟨inv.nodup, by simp, ?_⟩
      intro a ha b hb
      simp only [List.mem_singleton] at hb
      subst hb
      intro e; subst e; exact hn ha
  · intro c' hc' sc hsc
    rcases mem_addSubcase _ _ _ _ hc' with ⟨h1, _⟩ | ⟨_, h2⟩ | h1
    · obtain ⟨a, b, c, d⟩ := inv.sub_ok c' h1 sc hsc
      exact ⟨a, b, by simp [c], d⟩
    · rcases h2 with ⟨h2, _⟩ | ⟨c0, hc0, hv, h2⟩
      · subst h2
        simp only [List.mem_singleton] at hsc
        subst hsc
        exact ⟨rfl, rfl, by simp, rfl⟩
      · subst h2
        simp only [List.mem_append, List.mem_singleton] at hsc
        rcases hsc with hsc | hsc
        · obtain ⟨a, b, c, d⟩ := inv.sub_ok c0 hc0 sc hsc
          exact ⟨a, b, by simp [c], d⟩
        · subst hsc
          exact ⟨rfl, hv.symm, by simp, rfl⟩
    · obtain ⟨a, b, c, d⟩ := inv.sub_ok c' h1 sc hsc
      exact ⟨a, b, by simp [c], d⟩
  · intro k hk
    simp only [List.mem_append, List.mem_singleton] at hk
    -- membership in the new list
    have key : ∀ (cs : List HashCase) (rng : Nat) (nsc : SwitchCase),
        (∀ c ∈ cs, c.value ≠ rng → c ∈ addSubcase rng nsc cs) ∧
        (∀ c ∈ cs, c.value = rng → (cs.map (·.value)).Nodup → (⟨c.value, c.subcases ++ [nsc]⟩ : HashCase) ∈ addSubcase rng nsc cs) ∧
        (rng ∉ cs.map (·.value) → (⟨rng, [nsc]⟩ : HashCase) ∈ addSubcase rng nsc cs) := by
      intro cs rng nsc
      induction cs with
      | nil => simp [addSubcase]
      | cons x xs ih =>
        obtain ⟨i1, i2, i3⟩ := ih
        refine ⟨?_, ?_, ?_⟩
        · intro c hc hne
          simp only [addSubcase]
          simp only [List.mem_cons] at hc
          by_cases hx : x.value = rng
          · simp only [hx, beq_self_eq_true, if_true, List.mem_cons]
            rcases hc with rfl | hc
            · exact absurd hx hne
            · exact Or.inr hc
          · simp only [beq_iff_eq, hx, if_false, List.mem_cons]
            rcases hc with rfl | hc
            · exact Or.inl rfl
            · exact Or.inr (i1 c hc hne)
        · intro c hc he hnd
          simp only [addSubcase]
          simp only [List.mem_cons] at hc
          simp only [List.map_cons, List.nodup_cons, List.mem_map, not_exists, not_and] at hnd
          by_cases hx : x.value = rng
          · simp only [hx, beq_self_eq_true, if_true, List.mem_cons]
            rcases hc with rfl | hc
            · left; rw [hx]
            · exact absurd (hx.trans he.symm).symm (hnd.1 c hc)
          · simp only [beq_iff_eq, hx, if_false, List.mem_cons]
            rcases hc with rfl | hc
            · exact absurd he hx
            · exact Or.inr (i2 c hc he hnd.2)
        · intro hn
          simp only [List.map_cons, List.mem_cons, not_or] at hn
          simp only [addSubcase]
          have hx : ¬ x.value = rng := fun e => hn.1 e.symm
          simp only [beq_iff_eq, hx, if_false, List.mem_cons]
          exact Or.inr (i3 hn.2)
    obtain ⟨k1, k2, k3⟩ := key cases (hashf str % size) ⟨hashf str, str, (mapLookup m str).getD 0⟩
    rcases hk with hk | hk
    · obtain ⟨c, hc, hv, sc, hsc, hstr⟩ := inv.covered k hk
      by_cases hne : c.value = hashf str % size
      · exact ⟨_, k2 c hc hne inv.nodup, hv, sc, by simp [hsc], hstr⟩
      · exact ⟨c, k1 c hc hne, hv, sc, hsc, hstr⟩
    · subst hk
      by_cases hin : hashf k % size ∈ cases.map (·.value)
      · simp only [List.mem_map] at hin
        obtain ⟨c, hc, hv⟩ := hin
        exact ⟨_, k2 c hc hv inv.nodup, hv, ⟨hashf k, k, (mapLookup m k).getD 0⟩, by simp, rfl⟩
      · exact ⟨_, k3 hin, rfl, ⟨hashf k, k, (mapLookup m k).getD 0⟩, by simp, rfl⟩

theorem casesInv_foldl (hashf : List UInt8 → Nat) (size : Nat) (m : List (List UInt8 × Int)) :
    ∀ (list keys : List (List UInt8)) (cases : List HashCase), CasesInv hashf size m keys cases →
    CasesInv hashf size m (keys ++ list)
      (list.foldl (fun cases str =>
        addSubcase (hashf str % size) ⟨hashf str, str, (mapLookup m str).getD 0⟩ cases) cases) := by
  intro list
  induction list with
  | nil => intro keys cases h; simpa using h
  | cons x xs ih =>
    intro keys cases h
    simp only [List.foldl_cons]
    have := ih (keys ++ [x]) _ (casesInv_add hashf size m keys cases x h)
    simpa using this

theorem mapLookup_some_mem (m : List (List UInt8 × Int)) (k : List UInt8) (x : Int)
    (h : mapLookup m k = some x) : (k, x) ∈ m := by
  unfold mapLookup at h
  cases hf : m.find? (·.1 == k) with
  | none => rw [hf] at h; simp at h
  | some p =>
    rw [hf] at h
    simp only [Option.map_some, Option.some.injEq] at h
    have h1 := List.mem_of_find?_eq_some hf
    have h2 := List.find?_some hf
    simp only [beq_iff_eq] at h2
    rw [← h2, ← h]
    exact h1

theorem mapLookup_isSome_of_mem (m : List (List UInt8 × Int)) (k : List UInt8)
    (h : k ∈ m.map (·.1)) : ∃ x, mapLookup m k = some x := by
  unfold mapLookup
  cases hf : m.find? (·.1 == k) with
  | none =>
    rw [List.find?_eq_none] at hf
    simp only [List.mem_map] at h
    obtain ⟨p, hp, he⟩ := h
    exact absurd (by simpa using he) (hf p hp)
  | some p => exact ⟨p.2, rfl⟩

theorem mapLookup_none_of_not_mem (m : List (List UInt8 × Int)) (k : List UInt8)
    (h : k ∉ m.map (·.1)) : mapLookup m k = none := by
  unfold mapLookup
  cases hf : m.find? (·.1 == k) with
  | none => rfl
  | some p =>
    have h1 := List.mem_of_find?_eq_some hf
    have h2 := List.find?_some hf
    simp only [beq_iff_eq] at h2
    exact absurd (List.mem_map.mpr ⟨p, h1, h2⟩) h

/-- Main lemma: the generated switch, entered with the generator's hash of the text, finds `m[text]`.
Without any assumption on the hash, a hit is always the entry of the text (`lookup_sound`). -/
theorem lookup_sound (hashf : List UInt8 → Nat) (m : List (List UInt8 × Int)) (hash : Nat)
    (text : List UInt8) (x : Int) (h : (asStringSwitch hashf m).lookup hash text = some x) :
    mapLookup m text = some x := by
  unfold StringSwitch.lookup asStringSwitch at h
  simp only at h
  have inv := casesInv_foldl hashf (switchSize m.length) m (sortBy strLt (m.map (·.1))) [] []
    ⟨by simp, by simp, by simp⟩
  simp only [List.nil_append] at inv
  generalize (sortBy strLt (m.map (·.1))).foldl _ [] = cases at h inv
  cases hf : (sortBy (fun a b => decide (a.value < b.value)) cases).find? (·.value == hash &&& (switchSize m.length - 1)) with
  | none => rw [hf] at h; simp at h
  | some c =>
    rw [hf] at h
    simp only at h
    cases hs : c.subcases.find? (fun s => s.hash == hash && s.str == text) with
    | none => rw [hs] at h; simp at h
    | some sc =>
      rw [hs] at h
      simp only [Option.map_some, Option.some.injEq] at h
      have hc : c ∈ cases := (mem_sortBy _ _ _).mp (List.mem_of_find?_eq_some hf)
      have hsc := List.mem_of_find?_eq_some hs
      have hp := List.find?_some hs
      simp only [Bool.and_eq_true, beq_iff_eq] at hp
      obtain ⟨_, _, hk, ha⟩ := inv.sub_ok c hc sc hsc
      rw [hp.2] at hk ha
      have hk' : text ∈ m.map (·.1) := (mem_sortBy _ _ _).mp hk
      obtain ⟨y, hy⟩ := mapLookup_isSome_of_mem m text hk'
      rw [hy] at ha ⊢
      simp only [Option.getD_some] at ha
      rw [← h, ha]

theorem lookup_complete (hashf : List UInt8 → Nat) (m : List (List UInt8 × Int))
    (text : List UInt8) (x : Int) (h : mapLookup m text = some x) :
    (asStringSwitch hashf m).lookup (hashf text) text = some x := by
  have hmem : text ∈ m.map (·.1) := List.mem_map.mpr ⟨(text, x), mapLookup_some_mem m text x h, rfl⟩
  unfold StringSwitch.lookup asStringSwitch
  simp only
  have inv := casesInv_foldl hashf (switchSize m.length) m (sortBy strLt (m.map (·.1))) [] []
    ⟨by simp, by simp, by simp⟩
  simp only [List.nil_append] at inv
  generalize (sortBy strLt (m.map (·.1))).foldl _ [] = cases at inv ⊢
  obtain ⟨k, hk⟩ := switchSize_pow m.length
  have hmask : hashf text &&& (switchSize m.length - 1) = hashf text % switchSize m.length := by
    rw [hk]; exact Nat.and_two_pow_sub_one_eq_mod _ _
  rw [hmask]
  obtain ⟨c, hc, hv, sc, hsc, hstr⟩ := inv.covered text ((mem_sortBy _ _ _).mpr hmem)
  cases hf : (sortBy (fun a b => decide (a.value < b.value)) cases).find? (·.value == hashf text % switchSize m.length) with
  | none =>
    rw [List.find?_eq_none] at hf
    exact absurd (by simpa using hv) (hf c ((mem_sortBy _ _ _).mpr hc))
  | some c0 =>
    simp only
    have hc0 : c0 ∈ cases := (mem_sortBy _ _ _).mp (List.mem_of_find?_eq_some hf)
    have hv0 := List.find?_some hf
    simp only [beq_iff_eq] at hv0
    have : c0 = c := eq_of_value_eq cases inv.nodup c0 c hc0 hc (hv0.trans hv.symm)
    subst this
    cases hs : c0.subcases.find? (fun s => s.hash == hashf text && s.str == text) with
    | none =>
      rw [List.find?_eq_none] at hs
      obtain ⟨a, _, _, _⟩ := inv.sub_ok c0 hc0 sc hsc
      exact absurd (by simp [a, hstr]) (hs sc hsc)
    | some s0 =>
      simp only [Option.map_some, Option.some.injEq]
      have hs0 := List.mem_of_find?_eq_some hs
      have hp := List.find?_some hs
      simp only [Bool.and_eq_true, beq_iff_eq] at hp
      obtain ⟨_, _, _, ha⟩ := inv.sub_ok c0 hc0 s0 hs0
      rw [ha, hp.2, h]
      rfl

/-- `lookup (asStringSwitch m) (hash of text) text = m[text]?`, collisions included. -/
theorem lookup_correct (hashf : List UInt8 → Nat) (m : List (List UInt8 × Int)) (text : List UInt8) :
    (asStringSwitch hashf m).lookup (hashf text) text = mapLookup m text := by
  cases h : mapLookup m text with
  | some x => exact lookup_complete hashf m text x h
  | none =>
    cases h' : (asStringSwitch hashf m).lookup (hashf text) text with
    | none => rfl
    | some x => rw [lookup_sound hashf m _ text x h'] at h; exact nomatch h

end TmVerif.LexRun
