import TmVerif.Proofs.DiffMyersMain
/-!
C27, Myers search, part 8: the loop over the rounds returns, and what it returns lies on a shortest
edit path.
-/
namespace TmVerif.Diff
set_option linter.unusedSectionVars false
variable {α : Type} [DecidableEq α]

/-- what the search returns: no negative number; `(ai, bi)` is a point of a shortest path at
distance `⌈D/2⌉` from the origin, not preceded by a match, and `(ai+mx, bi+mx)` is not followed by
one -/
def GoodSplit (a b : List α) (res : Int × Int × Int) : Prop :=
  0 ≤ res.1 ∧ 0 ≤ res.2.1 ∧ 0 ≤ res.2.2 ∧
  ∀ ai bi mx : Nat, (ai : Int) = res.1 → (bi : Int) = res.2.1 → (mx : Int) = res.2.2 →
    ∃ (d d' : Nat) (k : Int), (d = d' ∨ d = d' + 1) ∧
      a.length + b.length = d + d' + 2 * lcsRec a b ∧ (ai : Int) - bi = k ∧
      SplitFacts a b d d' k (ai + mx) ai bi

/-- state at the beginning of round `d` -/
def MidInv (e : MidEnv) (a b : List α) (d : Nat) (v1 v2 : Array Nat) (ps pl : Int) : Prop :=
  v1.size = 2 * e.base ∧ 2 * e.base ≤ v2.size ∧
  2 * d + 2 * lcsRec a b ≤ a.length + b.length + 1 ∧
  (d = 0 → v1.getD (vidx e.base 1) 0 = 0 ∧ v2.getD (vidx e.base 1) 0 = 0 ∧ ps = 0 ∧ pl = 0) ∧
  (∀ d0, d = d0 + 1 → VInv a b e.base v1 d0 ∧ VInv a.reverse b.reverse e.base v2 d0 ∧
    ps = roundStart b.length d0 ∧ pl = roundLimit a.length d0)

theorem lcs_le_sum (a b : List α) : 2 * lcsRec a b ≤ a.length + b.length := by
  have := lcsRec_le_left a b
  have := lcsRec_le_right a b
  omega

/-- forward detection is sound -/
theorem fwd_detect_sound (e : MidEnv) (a b : List α) (ok : EnvOK e a b) (d : Nat)
    (v1 v2 : Array Nat) (ps pl : Int) (hinv : MidInv e a b d v1 v2 ps pl) (hdb : d ≤ e.base)
    (k : Int) (hk : InRange a.length b.length d k) (res : Int × Int × Int)
    (hc : fwdCheck e ps pl v2 k (stepX e.eqF e.m e.n e.base d v1 k) = some res) :
    GoodSplit a b res := by
  obtain ⟨hs1, hs2, hI4, h0, hsucc⟩ := hinv
  have hfr := round_fr e.eqF a b ok.hF e.base d v1 (fun h => (h0 h).1)
    (fun d0 h => (hsucc d0 h).1) k hk
  rw [← ok.hm, ← ok.hn] at hfr
  unfold fwdCheck at hc
  simp only at hc
  split at hc
  case isFalse => cases hc
  case isTrue hcond =>
    obtain ⟨c1, c2, c3, c4⟩ := hcond
    cases hc
    have hodd := ok.hodd.mp c1
    cases d with
    | zero =>
      obtain ⟨_, _, e1, e2⟩ := h0 rfl
      have := inRange_zero _ _ _ hk
      rw [ok.hdelta] at hodd c2 c3
      omega
    | succ d0 =>
      obtain ⟨_, hv2, e1, e2⟩ := hsucc d0 rfl
      have hk2 : InRange a.length b.length d0 (-e.delta - k) := by
        obtain ⟨r1, r2, r3⟩ := hk
        refine ⟨by rw [← e1]; exact c2, by rw [← e2]; exact c3, ?_⟩
        rw [ok.hdelta] at hodd ⊢
        omega
      have hrr := hv2 (-e.delta - k) (by simpa using hk2)
      rw [ok.hdelta] at hrr
      have hg := inRange_grid _ _ _ _ hk
      have hsound := overlap_sound a b (d0 + 1) d0 k _ _ hg hfr hrr
        (by
          rw [ok.hdelta] at c4
          have : (e.m : Int) = a.length := by rw [ok.hm]
          omega)
      have := lcs_le_sum a b
      have em : (e.m : Int) = a.length := by rw [ok.hm]
      rw [ok.hdelta] at c4
      obtain ⟨z1, z2, z3⟩ := hsound.2 (by omega)
      refine ⟨by simp only; rw [ok.hdelta]; omega, by simp only; rw [ok.hdelta]; omega,
        by simp only; rw [ok.hdelta]; omega, ?_⟩
      intro ai bi mx h1 h2 h3
      simp only at h1 h2 h3
      rw [ok.hdelta] at h1 h2 h3
      refine ⟨d0 + 1, d0, k, Or.inr rfl, by omega, by omega, ?_⟩
      have hx : ai + mx = stepX e.eqF e.m e.n e.base (d0 + 1) v1 k := by omega
      rw [hx]
      exact z3 ai bi (by omega) (by omega)

/-- no forward detection in round `d`: the distance is at least `2d` -/
theorem fwd_complete (e : MidEnv) (a b : List α) (ok : EnvOK e a b) (d : Nat)
    (v1 v2 : Array Nat) (ps pl : Int) (hinv : MidInv e a b d v1 v2 ps pl)
    (hnone : ∀ k, InRange a.length b.length d k →
      fwdCheck e ps pl v2 k (stepX e.eqF e.m e.n e.base d v1 k) = none) :
    2 * d + 2 * lcsRec a b ≤ a.length + b.length := by
  obtain ⟨hs1, hs2, hI4, h0, hsucc⟩ := hinv
  apply Classical.byContradiction
  intro hlt
  have hl := lcs_le_sum a b
  cases d with
  | zero => omega
  | succ d0 =>
    obtain ⟨_, hv2, e1, e2⟩ := hsucc d0 rfl
    obtain ⟨k, hk, hk2, hov⟩ := overlap_complete a b (d0 + 1) d0 (by omega)
    have hfr := round_fr e.eqF a b ok.hF e.base (d0 + 1) v1 (fun h => by omega)
      (fun d1 h => by have : d1 = d0 := by omega
                      subst this; exact (hsucc d1 rfl).1) k hk
    have hrr := hv2 _ (by simpa using hk2)
    have hle := hov _ _ hfr hrr
    have := hnone k hk
    unfold fwdCheck at this
    simp only at this
    rw [if_pos] at this
    · cases this
    · refine ⟨ok.hodd.mpr ?_, ?_, ?_, ?_⟩
      · rw [ok.hdelta]; omega
      · rw [e1, ok.hdelta]; exact hk2.1
      · rw [e2, ok.hdelta]; exact hk2.2.1
      · rw [ok.hdelta, ← ok.hm, ← ok.hn]
        rw [← ok.hm, ← ok.hn] at hle
        have : (e.m : Int) = a.length := by rw [ok.hm]
        omega

/-- reverse detection is sound -/
theorem rev_detect_sound (e : MidEnv) (a b : List α) (ok : EnvOK e a b) (d : Nat)
    (v1 v1' v2 : Array Nat) (ps pl : Int) (hinv : MidInv e a b d v1 v2 ps pl)
    (hge : 2 * d + 2 * lcsRec a b ≤ a.length + b.length)
    (hv1 : VInv a b e.base v1' d)
    (k : Int) (hk : InRange a.length b.length d k) (res : Int × Int × Int)
    (hc : revCheck e (roundStart e.n d) (roundLimit e.m d) v1' k
      (stepX e.eqR e.m e.n e.base d v2 k) = some res) :
    GoodSplit a b res := by
  obtain ⟨hs1, hs2, hI4, h0, hsucc⟩ := hinv
  have hrr := round_fr e.eqR a.reverse b.reverse ok.hR e.base d v2 (fun h => (h0 h).2.1)
    (fun d0 h => (hsucc d0 h).2.1) k (by simpa using hk)
  simp only [List.length_reverse] at hrr
  rw [← ok.hm, ← ok.hn] at hrr
  unfold revCheck at hc
  simp only at hc
  split at hc
  case isFalse => cases hc
  case isTrue hcond =>
    obtain ⟨c1, c2, c3, c4⟩ := hcond
    cases hc
    have heven : e.delta % 2 = 0 := by
      have := ok.hodd
      rw [c1] at this
      simp at this
      omega
    have hk1 : InRange a.length b.length d (-e.delta - k) := by
      obtain ⟨r1, r2, r3⟩ := hk
      refine ⟨by rw [← ok.hn]; exact c2, by rw [← ok.hm]; exact c3, ?_⟩
      omega
    have hff := hv1 _ hk1
    have hg := inRange_grid _ _ _ _ hk1
    have ek : -((b.length : Int) - a.length) - (-e.delta - k) = k := by rw [ok.hdelta]; omega
    have hsound := overlap_sound a b d d (-e.delta - k) _ _ hg hff (by rw [ek]; exact hrr)
      (by
        have : (e.m : Int) = a.length := by rw [ok.hm]
        omega)
    have := lcs_le_sum a b
    have em : (e.m : Int) = a.length := by rw [ok.hm]
    have en : (e.n : Int) = b.length := by rw [ok.hn]
    have ed := ok.hdelta
    obtain ⟨z1, z2, z3⟩ := hsound.2 (by omega)
    refine ⟨by simp only; omega, by simp only; omega, by simp only; omega, ?_⟩
    intro ai bi mx h1 h2 h3
    simp only at h1 h2 h3
    refine ⟨d, d, -e.delta - k, Or.inl rfl, by omega, by omega, ?_⟩
    have hx : ai + mx = v1'.getD (vidx e.base (-e.delta - k)) 0 := by omega
    rw [hx]
    exact z3 ai bi (by omega) (by omega)

/-- no reverse detection in round `d`: the distance is at least `2d+1` -/
theorem rev_complete (e : MidEnv) (a b : List α) (ok : EnvOK e a b) (d : Nat)
    (v1 v1' v2 : Array Nat) (ps pl : Int) (hinv : MidInv e a b d v1 v2 ps pl)
    (hge : 2 * d + 2 * lcsRec a b ≤ a.length + b.length)
    (hv1 : VInv a b e.base v1' d)
    (hnone : ∀ k, InRange a.length b.length d k →
      revCheck e (roundStart e.n d) (roundLimit e.m d) v1' k
        (stepX e.eqR e.m e.n e.base d v2 k) = none) :
    2 * d + 1 + 2 * lcsRec a b ≤ a.length + b.length := by
  obtain ⟨hs1, hs2, hI4, h0, hsucc⟩ := hinv
  apply Classical.byContradiction
  intro hlt
  obtain ⟨k, hk, hk2, hov⟩ := overlap_complete a b d d (by omega)
  have ek2 : -((b.length : Int) - a.length) - k = -e.delta - k := by rw [ok.hdelta]
  rw [ek2] at hk2 hov
  have hrr := round_fr e.eqR a.reverse b.reverse ok.hR e.base d v2 (fun h => (h0 h).2.1)
    (fun d0 h => (hsucc d0 h).2.1) _ (by simpa using hk2)
  simp only [List.length_reverse] at hrr
  rw [← ok.hm, ← ok.hn] at hrr
  have hff := hv1 k hk
  have hle := hov _ _ hff hrr
  have := hnone _ hk2
  unfold revCheck at this
  simp only at this
  have ek : -e.delta - (-e.delta - k) = k := by omega
  rw [if_pos] at this
  · cases this
  · refine ⟨?_, ?_, ?_, ?_⟩
    · have h1 := ok.hodd
      cases ho : e.odd with
      | false => rfl
      | true =>
        have := h1.mp ho
        rw [ok.hdelta] at this
        omega
    · rw [ek, ok.hn]; exact hk.1
    · rw [ek, ok.hm]; exact hk.2.1
    · rw [ek]
      have : (e.m : Int) = a.length := by rw [ok.hm]
      omega

theorem vidx_lt (base d : Nat) (k : Int) (hk : -(d : Int) ≤ k ∧ k ≤ (d : Int)) (hd : d < base) :
    vidx base k < 2 * base := by
  unfold vidx; omega

/-- The loop over the rounds returns, and returns a point of a shortest path. -/
theorem midLoop_spec (e : MidEnv) (a b : List α) (ok : EnvOK e a b) :
    ∀ r d v1 v2 ps pl, d + r = e.base + 1 → MidInv e a b d v1 v2 ps pl →
      ∃ res, midLoop e r d v1 v2 ps pl = some res ∧ GoodSplit a b res := by
  intro r
  induction r with
  | zero =>
    intro d v1 v2 ps pl hdr hinv
    obtain ⟨_, _, hI4, _, _⟩ := hinv
    have := ok.hbase
    have := lcs_le_sum a b
    omega
  | succ r ih =>
    intro d v1 v2 ps pl hdr hinv
    have hdb : d ≤ e.base := by omega
    have hIR : ∀ k, InRange e.m e.n d k ↔ InRange a.length b.length d k := by
      intro k; rw [ok.hm, ok.hn]
    have LF := loop_facts e.eqF e.m e.n e.base d (fwdCheck e ps pl v2) v1 hdb
    unfold midLoop
    simp only
    unfold fwdLoop
    generalize diagLoop e.eqF e.m e.n e.base d (fwdCheck e ps pl v2)
      (roundCount (roundStart e.n d) (roundLimit e.m d)) (roundStart e.n d) v1 = pF at LF ⊢
    obtain ⟨v1', rF⟩ := pF
    simp only at LF
    obtain ⟨f1, f2, f3⟩ := LF
    cases rF with
    | some res =>
      obtain ⟨k, hk, hc⟩ := f3 res rfl
      exact ⟨res, rfl, fwd_detect_sound e a b ok d v1 v2 ps pl hinv hdb k ((hIR k).mp hk) res hc⟩
    | none =>
      simp only
      obtain ⟨n1, n2⟩ := f2 rfl
      have hge := fwd_complete e a b ok d v1 v2 ps pl hinv (fun k hk => n1 k ((hIR k).mpr hk))
      have hlt : d < e.base := by
        have := ok.hbase
        have := lcs_le_sum a b
        omega
      obtain ⟨hs1, hs2, hI4, h0, hsucc⟩ := hinv
      have hv1 : VInv a b e.base v1' d := by
        intro k hk
        rw [n2 k ((hIR k).mpr hk) (by rw [hs1]; exact vidx_lt _ _ _ (inRange_abs _ _ _ _ hk) hlt)]
        have := round_fr e.eqF a b ok.hF e.base d v1 (fun h => (h0 h).1)
          (fun d0 h => (hsucc d0 h).1) k hk
        rw [← ok.hm, ← ok.hn] at this
        exact this
      have hinv' : MidInv e a b d v1 v2 ps pl := ⟨hs1, hs2, hI4, h0, hsucc⟩
      have LR := loop_facts e.eqR e.m e.n e.base d
        (revCheck e (roundStart e.n d) (roundLimit e.m d) v1') v2 hdb
      unfold revLoop
      generalize diagLoop e.eqR e.m e.n e.base d
        (revCheck e (roundStart e.n d) (roundLimit e.m d) v1')
        (roundCount (roundStart e.n d) (roundLimit e.m d)) (roundStart e.n d) v2 = pR at LR ⊢
      obtain ⟨v2', rR⟩ := pR
      simp only at LR
      obtain ⟨g1, g2, g3⟩ := LR
      cases rR with
      | some res =>
        obtain ⟨k, hk, hc⟩ := g3 res rfl
        exact ⟨res, rfl, rev_detect_sound e a b ok d v1 v1' v2 ps pl hinv' hge hv1 k
          ((hIR k).mp hk) res hc⟩
      | none =>
        simp only
        obtain ⟨m1, m2⟩ := g2 rfl
        have hge2 := rev_complete e a b ok d v1 v1' v2 ps pl hinv' hge hv1
          (fun k hk => m1 k ((hIR k).mpr hk))
        have hv2 : VInv a.reverse b.reverse e.base v2' d := by
          intro k hk
          simp only [List.length_reverse] at hk
          rw [m2 k ((hIR k).mpr hk) (by
            have := vidx_lt e.base d k (inRange_abs _ _ _ _ hk) hlt
            omega)]
          have := round_fr e.eqR a.reverse b.reverse ok.hR e.base d v2 (fun h => (h0 h).2.1)
            (fun d0 h => (hsucc d0 h).2.1) k (by simpa using hk)
          simp only [List.length_reverse] at this
          rw [← ok.hm, ← ok.hn] at this
          exact this
        apply ih (d + 1) v1' v2' _ _ (by omega)
        refine ⟨by rw [f1]; exact hs1, by rw [g1]; exact hs2, by omega, fun h => by omega, ?_⟩
        intro d0 hd0
        have : d0 = d := by omega
        subst this
        exact ⟨hv1, hv2, by rw [ok.hn], by rw [ok.hm]⟩

end TmVerif.Diff
