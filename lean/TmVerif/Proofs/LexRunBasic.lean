import TmVerif.Model.LexRun
/-!
Basic facts about the model of the generated lexer (`Model/LexRun.lean`): the UTF-8 decoder
(widths, no newline inside a multi-byte character), reading positions (`Sync`), line counting.
-/
namespace TmVerif.LexRun
open TmVerif.LexTables

/-! ### decoder -/

theorem leadInfo_cases (b0 : Nat) :
    (leadInfo b0).1 = 0 ∨
    (0xC2 ≤ b0 ∧ b0 ≤ 0xF4 ∧ 2 ≤ (leadInfo b0).1 ∧ (leadInfo b0).1 ≤ 4 ∧ 0x80 ≤ (leadInfo b0).2.1 ∧ (leadInfo b0).2.2 ≤ 0xBF ∧
      ((leadInfo b0).1 = 2 → b0 ≤ 0xDF) ∧
      ((leadInfo b0).1 = 3 → 0xE0 ≤ b0 ∧ b0 ≤ 0xEF ∧ (b0 = 0xE0 → 0xA0 ≤ (leadInfo b0).2.1)) ∧
      ((leadInfo b0).1 = 4 → 0xF0 ≤ b0 ∧ (b0 = 0xF0 → 0x90 ≤ (leadInfo b0).2.1) ∧
        (b0 = 0xF4 → (leadInfo b0).2.2 ≤ 0x8F))) := by
  unfold leadInfo
  repeat' split
  all_goals simp_all
  all_goals omega

/-- What `decodeRune` returns on a lead byte `≥ 0x80`: an error of width 1, or a character of
`2 ≤ w ≤ 4` bytes all of which are `≥ 0x80`, with a value `≥ 0x80`. -/
theorem decodeRune_cases (b0 : UInt8) (rest : List UInt8) (h : 0x80 ≤ b0.toNat) :
    decodeRune (b0 :: rest) = (runeError, 1) ∨
    (∃ r w, decodeRune (b0 :: rest) = (r, w) ∧ 2 ≤ w ∧ w ≤ rest.length + 1 ∧ 0x80 ≤ r ∧ r < 0x110000 ∧
      ∀ x ∈ (b0 :: rest).take w, 0x80 ≤ x.toNat) := by
  have hl := leadInfo_cases b0.toNat
  unfold decodeRune
  simp only [show ¬ b0.toNat < 0x80 by omega, if_false]
  rcases hi : leadInfo b0.toNat with ⟨sz, lo, hi'⟩
  rw [hi] at hl
  simp only at hl ⊢
  by_cases hsz : sz = 0
  · simp [hsz]
  · simp only [hsz, if_false]
    rcases hl with hl | ⟨h1, h2, h3, h4, h5, h5', h6, h7, h8⟩
    · exact absurd hl hsz
    · match rest with
      | [] => simp
      | b1 :: r2 =>
        simp only
        by_cases hb1 : b1.toNat < lo ∨ hi' < b1.toNat
        · simp [hb1]
        · simp only [hb1, if_false]
          by_cases hs2 : sz ≤ 2
          · right
            simp only [hs2, if_true]
            refine ⟨_, _, rfl, by omega, by simp, ?_, by omega, ?_⟩
            · have : 2 ≤ b0.toNat % 32 := by omega
              omega
            · intro x hx
              simp at hx
              rcases hx with rfl | rfl <;> omega
          · simp only [hs2, if_false]
            match r2 with
            | [] => simp
            | b2 :: r3 =>
              simp only
              by_cases hc2 : isCont b2.toNat = true
              · simp only [hc2, Bool.not_true, Bool.false_eq_true, if_false]
                have hc2' : 0x80 ≤ b2.toNat := by simp [isCont] at hc2; omega
                by_cases hs3 : sz ≤ 3
                · right
                  simp only [hs3, if_true]
                  refine ⟨_, _, rfl, by omega, by simp, ?_, by omega, ?_⟩
                  · have hsz3 : sz = 3 := by omega
                    have := h7 hsz3
                    by_cases he0 : b0.toNat = 0xE0
                    · have := this.2.2 he0
                      have : 32 ≤ b1.toNat % 64 := by omega
                      omega
                    · have : 1 ≤ b0.toNat % 16 := by omega
                      omega
                  · intro x hx
                    simp at hx
                    rcases hx with rfl | rfl | rfl <;> omega
                · simp only [hs3, if_false]
                  match r3 with
                  | [] => simp
                  | b3 :: r4 =>
                    simp only
                    by_cases hc3 : isCont b3.toNat = true
                    · right
                      simp only [hc3, Bool.not_true, Bool.false_eq_true, if_false]
                      have hc3' : 0x80 ≤ b3.toNat := by simp [isCont] at hc3; omega
                      refine ⟨_, _, rfl, by omega, by simp, ?_, ?_, ?_⟩
                      · have hsz4 : sz = 4 := by omega
                        have := h8 hsz4
                        by_cases hf0 : b0.toNat = 0xF0
                        · have := this.2.1 hf0
                          have : 16 ≤ b1.toNat % 64 := by omega
                          omega
                        · have : 1 ≤ b0.toNat % 8 := by omega
                          omega
                      · have hsz4 : sz = 4 := by omega
                        have := h8 hsz4
                        by_cases hf4 : b0.toNat = 0xF4
                        · have := this.2.2 hf4
                          have : b1.toNat % 64 ≤ 15 := by omega
                          omega
                        · have : b0.toNat % 8 ≤ 3 := by omega
                          omega
                      · intro x hx
                        simp at hx
                        rcases hx with rfl | rfl | rfl | rfl <;> omega
                    · simp [hc3]
              · simp [hc2]

theorem countNL_single (b : UInt8) : countNL [b] = if (b.toNat : Int) = 10 then 1 else 0 := by
  unfold countNL
  by_cases h : b = 10
  · subst h; decide
  · have : ¬ ((b.toNat : Int) = 10) := by
      intro h'
      apply h
      apply UInt8.toNat_inj.mp
      have : b.toNat = 10 := by omega
      simpa using this
    simp [this, h]

theorem countNL_high (l : List UInt8) (h : ∀ x ∈ l, 0x80 ≤ x.toNat) : countNL l = 0 := by
  unfold countNL
  rw [List.count_eq_zero]
  intro hm
  have := h 10 hm
  simp at this

/-- One character as the lexer reads it: width between 1 and the remaining length, a non-negative
code, and the bytes of the character contain a newline iff the character IS the newline. -/
theorem readChar_spec (sb : Bool) (b : UInt8) (rest : List UInt8) :
    1 ≤ (readChar sb (b :: rest)).2 ∧ (readChar sb (b :: rest)).2 ≤ rest.length + 1 ∧
    0 ≤ (readChar sb (b :: rest)).1 ∧
    countNL ((b :: rest).take (readChar sb (b :: rest)).2) =
      (if (readChar sb (b :: rest)).1 = 10 then 1 else 0) ∧
    ((readChar sb (b :: rest)).1 = 10 → (readChar sb (b :: rest)).2 = 1) := by
  unfold readChar
  cases sb with
  | true =>
    simp only [if_true, List.take_succ_cons, List.take_zero]
    exact ⟨by omega, by omega, by omega, countNL_single b, fun _ => trivial⟩
  | false =>
    simp only [Bool.false_eq_true, if_false]
    by_cases h : b.toNat ≥ 0x80
    · simp only [h, if_true]
      rcases decodeRune_cases b rest h with he | ⟨r, w, he, h2, h3, h4, _, h5⟩
      · rw [he]
        simp only [List.take_succ_cons, List.take_zero]
        refine ⟨by omega, by omega, by simp [runeError], ?_, fun _ => trivial⟩
        rw [countNL_high [b] (by intro x hx; simp at hx; subst hx; exact h)]
        simp [runeError]
      · rw [he]
        simp only
        have : ¬ r = 10 := by omega
        refine ⟨by omega, h3, by omega, ?_, fun h => absurd h this⟩
        rw [countNL_high _ h5]
        simp [this]
    · simp only [h, if_false, List.take_succ_cons, List.take_zero]
      exact ⟨by omega, by omega, by omega, countNL_single b, fun _ => trivial⟩

/-! ### line bookkeeping -/

theorem countNL_append (a b : List UInt8) : countNL (a ++ b) = countNL a + countNL b := by
  unfold countNL; exact List.count_append

theorem countNL_take_add (s : List UInt8) (a w : Nat) :
    countNL (s.take (a + w)) = countNL (s.take a) + countNL ((s.drop a).take w) := by
  rw [List.take_add, countNL_append]

theorem slice_eq (s : List UInt8) (a b : Nat) : slice s a b = (s.drop a).take (b - a) := rfl

theorem lineStartAux_append (xs ys : List UInt8) (pos acc : Nat) :
    lineStartAux (xs ++ ys) pos acc = lineStartAux ys (pos + xs.length) (lineStartAux xs pos acc) := by
  induction xs generalizing pos acc with
  | nil => simp [lineStartAux]
  | cons x xs ih =>
    simp only [List.cons_append, lineStartAux, List.length_cons]
    rw [ih]
    congr 1
    omega

theorem lineStartAux_noNL (ys : List UInt8) (pos acc : Nat) (h : countNL ys = 0) :
    lineStartAux ys pos acc = acc := by
  induction ys generalizing pos acc with
  | nil => rfl
  | cons y ys ih =>
    unfold countNL at h
    rw [List.count_cons] at h
    have hy : ¬ y = 10 := by
      intro hy; subst hy; simp at h
    simp only [lineStartAux, hy, if_false]
    apply ih
    unfold countNL
    omega

theorem lineStart_add (s : List UInt8) (a w : Nat) (ha : a ≤ s.length) :
    lineStart s (a + w) = lineStartAux ((s.drop a).take w) a (lineStart s a) := by
  unfold lineStart
  rw [List.take_add, lineStartAux_append]
  simp [List.length_take, Nat.min_eq_left ha]

/-- Characterisation of `lineStartAux`. -/
theorem lineStartAux_spec (xs : List UInt8) (pos acc : Nat) (hacc : acc ≤ pos) :
    lineStartAux xs pos acc ≤ pos + xs.length ∧
    ((lineStartAux xs pos acc = acc ∧ ∀ i : Nat, xs[i]? ≠ some 10) ∨
     (pos < lineStartAux xs pos acc ∧ xs[lineStartAux xs pos acc - pos - 1]? = some 10 ∧
       ∀ i : Nat, lineStartAux xs pos acc - pos ≤ i → xs[i]? ≠ some 10)) := by
  induction xs generalizing pos acc with
  | nil => simp [lineStartAux]; omega
  | cons x xs ih =>
    simp only [lineStartAux]
    by_cases hx : x = 10
    · simp only [hx, if_true]
      have := ih (pos + 1) (pos + 1) (Nat.le_refl _)
      generalize lineStartAux xs (pos + 1) (pos + 1) = r at this ⊢
      obtain ⟨h1, h2⟩ := this
      refine ⟨by simp; omega, Or.inr ?_⟩
      rcases h2 with ⟨he, hn⟩ | ⟨hlt, hv, hn⟩
      · subst he
        refine ⟨by omega, by simp, ?_⟩
        intro i hge
        match i with
        | 0 => omega
        | i + 1 => simpa using hn i
      · refine ⟨by omega, ?_, ?_⟩
        · have : r - pos - 1 = (r - (pos + 1) - 1) + 1 := by omega
          rw [this, List.getElem?_cons_succ]
          exact hv
        · intro i hge
          match i with
          | 0 => omega
          | i + 1 =>
            rw [List.getElem?_cons_succ]
            exact hn i (by omega)
    · simp only [hx, if_false]
      have := ih (pos + 1) acc (by omega)
      generalize lineStartAux xs (pos + 1) acc = r at this ⊢
      obtain ⟨h1, h2⟩ := this
      refine ⟨by simp; omega, ?_⟩
      rcases h2 with ⟨he, hn⟩ | ⟨hlt, hv, hn⟩
      · left
        refine ⟨he, ?_⟩
        intro i
        match i with
        | 0 => simpa using hx
        | i + 1 => simpa using hn i
      · right
        refine ⟨by omega, ?_, ?_⟩
        · have : r - pos - 1 = (r - (pos + 1) - 1) + 1 := by omega
          rw [this, List.getElem?_cons_succ]
          exact hv
        · intro i hge
          match i with
          | 0 => omega
          | i + 1 =>
            rw [List.getElem?_cons_succ]
            exact hn i (by omega)

/-- `lineStart s off` is `0` or just after a newline, is `≤ off`, and no newline lies in
`[lineStart, off)`. -/
theorem lineStart_spec (s : List UInt8) (off : Nat) (h : off ≤ s.length) :
    lineStart s off ≤ off ∧
    (lineStart s off = 0 ∨ s[lineStart s off - 1]? = some 10) ∧
    ∀ i, lineStart s off ≤ i → i < off → s[i]? ≠ some 10 := by
  have := lineStartAux_spec (s.take off) 0 0 (Nat.le_refl _)
  simp only [List.length_take, Nat.min_eq_left h, Nat.zero_add, Nat.sub_zero] at this
  unfold lineStart
  generalize lineStartAux (s.take off) 0 0 = r at this ⊢
  obtain ⟨h1, h2⟩ := this
  refine ⟨h1, ?_, ?_⟩
  · rcases h2 with ⟨he, _⟩ | ⟨hlt, hv, _⟩
    · left; exact he
    · right
      rw [List.getElem?_take] at hv
      split at hv
      · exact hv
      · simp at hv
  · intro i hge hlt
    rcases h2 with ⟨_, hn⟩ | ⟨_, _, hn⟩
    · have := hn i
      rw [List.getElem?_take] at this
      simpa [hlt] using this
    · have := hn i hge
      rw [List.getElem?_take] at this
      simpa [hlt] using this

/-! ### reading positions -/

/-- The character at `off` and the offset after it (`(-1, off)` at the end of the input). -/
def peek (sb : Bool) (src : List UInt8) (off : Nat) : Int × Nat :=
  match src.drop off with
  | [] => (-1, off)
  | b :: rest => ((readChar sb (b :: rest)).1, off + (readChar sb (b :: rest)).2)

/-- `lineOffset` as the variant of the template maintains it. -/
def LineOffsetOk (v : Variant) (l : Lexer) : Prop :=
  if v.colFix then l.lineOffset = (lineStart l.source l.offset : Int)
  else l.lineOffset = (lineStart l.source l.offset : Int) ∨
       l.lineOffset + 1 = (lineStart l.source l.offset : Int)

/-- Position invariant of the lexer between any two steps: the look-ahead character `ch/scanOffset`
belongs to `offset`, `line` counts the newlines before `offset`, `lineOffset` is the line start. -/
structure PInv (o : Opts) (v : Variant) (l : Lexer) : Prop where
  le : l.offset ≤ l.source.length
  ch : l.ch = (peek o.scanBytes l.source l.offset).1
  so : l.scanOffset = (peek o.scanBytes l.source l.offset).2
  line : o.tokenLine = true → l.line = 1 + (countNL (l.source.take l.offset) : Int)
  lo : o.hasLineOffset = true → (o.tokenLine = true ∨ v.colFix = true) → LineOffsetOk v l

theorem peek_eoi (sb : Bool) (src : List UInt8) (off : Nat) (h : src.length ≤ off) :
    peek sb src off = (-1, off) := by
  unfold peek
  rw [List.drop_eq_nil_of_le h]

theorem peek_lt (sb : Bool) (src : List UInt8) (off : Nat) (h : off < src.length) :
    0 ≤ (peek sb src off).1 ∧ off < (peek sb src off).2 ∧ (peek sb src off).2 ≤ src.length ∧
    countNL ((src.drop off).take ((peek sb src off).2 - off)) = (if (peek sb src off).1 = 10 then 1 else 0) ∧
    ((peek sb src off).1 = 10 → (peek sb src off).2 = off + 1) := by
  unfold peek
  cases hd : src.drop off with
  | nil =>
    have := List.drop_eq_nil_iff.mp hd
    omega
  | cons b rest =>
    simp only
    have hlen : rest.length + 1 = src.length - off := by
      have := congrArg List.length hd
      simpa using this.symm
    obtain ⟨h1, h2, h3, h4, h5⟩ := readChar_spec sb b rest
    refine ⟨h3, by omega, by omega, ?_, fun h => by rw [h5 h]⟩
    rw [Nat.add_sub_cancel_left]
    exact h4

theorem PInv.ch_neg_iff {o : Opts} {v : Variant} {l : Lexer} (h : PInv o v l) :
    l.ch < 0 ↔ l.offset = l.source.length := by
  constructor
  · intro hc
    by_cases hlt : l.offset < l.source.length
    · have := (peek_lt o.scanBytes l.source l.offset hlt).1
      rw [← h.ch] at this
      omega
    · have := h.le; omega
  · intro he
    rw [h.ch, peek_eoi _ _ _ (by omega)]
    show (-1 : Int) < 0
    omega

theorem PInv.ch_eoi {o : Opts} {v : Variant} {l : Lexer} (h : PInv o v l) (hc : l.ch < 0) :
    l.ch = -1 ∧ l.scanOffset = l.offset := by
  have he := h.ch_neg_iff.mp hc
  rw [h.ch, h.so, peek_eoi _ _ _ (by omega)]
  exact ⟨rfl, rfl⟩

/-- `readCh` establishes the look-ahead part of the invariant and touches nothing else. -/
theorem readCh_spec (o : Opts) (l : Lexer) (hs : l.scanOffset = l.offset) :
    (readCh o l).ch = (peek o.scanBytes l.source l.offset).1 ∧
    (readCh o l).scanOffset = (peek o.scanBytes l.source l.offset).2 ∧
    (readCh o l).source = l.source ∧ (readCh o l).offset = l.offset ∧
    (readCh o l).tokenOffset = l.tokenOffset ∧ (readCh o l).line = l.line ∧
    (readCh o l).tokenLine = l.tokenLine ∧ (readCh o l).lineOffset = l.lineOffset ∧
    (readCh o l).tokenColumn = l.tokenColumn ∧ (readCh o l).state = l.state := by
  unfold readCh peek
  cases hd : l.source.drop l.offset with
  | nil => simp [hs]
  | cons b rest => simp [hs]

theorem lineOffsetOk_congr {v : Variant} {l l' : Lexer} (h1 : l'.lineOffset = l.lineOffset)
    (h2 : l'.source = l.source) (h3 : l'.offset = l.offset) (h : LineOffsetOk v l) : LineOffsetOk v l' := by
  unfold LineOffsetOk at *
  rw [h1, h2, h3]; exact h

theorem readCh_pinv (o : Opts) (v : Variant) (l : Lexer) (hs : l.scanOffset = l.offset)
    (hle : l.offset ≤ l.source.length)
    (hline : o.tokenLine = true → l.line = 1 + (countNL (l.source.take l.offset) : Int))
    (hlo : o.hasLineOffset = true → (o.tokenLine = true ∨ v.colFix = true) → LineOffsetOk v l) :
    PInv o v (readCh o l) := by
  obtain ⟨h1, h2, h3, h4, h5, h6, h7, h8, h9, h10⟩ := readCh_spec o l hs
  refine ⟨by rw [h3, h4]; exact hle, by rw [h1, h3, h4], by rw [h2, h3, h4], ?_, ?_⟩
  · intro ht; rw [h6, h3, h4]; exact hline ht
  · intro a b; exact lineOffsetOk_congr h8 h3 h4 (hlo a b)

theorem countNL_split (s : List UInt8) (a b : Nat) (h : a ≤ b) :
    countNL (s.take b) = countNL (s.take a) + countNL (slice s a b) := by
  have := countNL_take_add s a (b - a)
  rw [Nat.add_sub_cancel' h] at this
  exact this

/-- `rewind` to an offset inside the input: the result, in closed form. -/
theorem rewind_eq (o : Opts) (v : Variant) (l : Lexer) (x : Nat) (hx : x ≤ l.source.length) :
    rewind o v l x = readCh o { l with
      line := if o.tokenLine then
                (if x < l.offset then l.line - (countNL (slice l.source x l.offset) : Int)
                 else l.line + (countNL (slice l.source l.offset x) : Int))
              else l.line,
      lineOffset := if o.hasLineOffset && (o.tokenLine || v.colFix) then (lineStart l.source x : Int) else l.lineOffset,
      scanOffset := x, offset := x } := by
  have hc : ¬ x > l.source.length := by omega
  unfold rewind
  cases ht : o.tokenLine <;> by_cases hlt : x < l.offset <;> simp [ht, hlt, hc]
  all_goals (split <;> rfl)

theorem rewind_pinv_of_line (o : Opts) (v : Variant) (l : Lexer) (x : Nat) (hx : x ≤ l.source.length)
    (hlo : l.offset ≤ l.source.length)
    (hline : o.tokenLine = true → l.line = 1 + (countNL (l.source.take l.offset) : Int)) :
    PInv o v (rewind o v l x) ∧ (rewind o v l x).offset = x ∧ (rewind o v l x).source = l.source ∧
    (rewind o v l x).tokenOffset = l.tokenOffset ∧ (rewind o v l x).state = l.state ∧
    (rewind o v l x).tokenLine = l.tokenLine ∧ (rewind o v l x).tokenColumn = l.tokenColumn := by
  rw [rewind_eq o v l x hx]
  generalize hl0 : ({ l with
      line := if o.tokenLine then
                (if x < l.offset then l.line - (countNL (slice l.source x l.offset) : Int)
                 else l.line + (countNL (slice l.source l.offset x) : Int))
              else l.line,
      lineOffset := if o.hasLineOffset && (o.tokenLine || v.colFix) then (lineStart l.source x : Int) else l.lineOffset,
      scanOffset := x, offset := x } : Lexer) = l0
  have e1 : l0.source = l.source := by subst hl0; rfl
  have e2 : l0.offset = x := by subst hl0; rfl
  have e3 : l0.scanOffset = x := by subst hl0; rfl
  have e4 : l0.tokenOffset = l.tokenOffset := by subst hl0; rfl
  have e5 : l0.state = l.state := by subst hl0; rfl
  have e6 : l0.tokenLine = l.tokenLine := by subst hl0; rfl
  have e7 : l0.tokenColumn = l.tokenColumn := by subst hl0; rfl
  have e8 : l0.line = if o.tokenLine then
                (if x < l.offset then l.line - (countNL (slice l.source x l.offset) : Int)
                 else l.line + (countNL (slice l.source l.offset x) : Int))
              else l.line := by subst hl0; rfl
  have e9 : l0.lineOffset = if o.hasLineOffset && (o.tokenLine || v.colFix) then (lineStart l.source x : Int) else l.lineOffset := by
    subst hl0; rfl
  obtain ⟨_, _, r3, r4, r5, _, r7, _, r9, r10⟩ := readCh_spec o l0 (by rw [e3, e2])
  refine ⟨readCh_pinv o v l0 (by rw [e3, e2]) (by rw [e1, e2]; exact hx) ?_ ?_,
    by rw [r4, e2], by rw [r3, e1], by rw [r5, e4], by rw [r10, e5], by rw [r7, e6], by rw [r9, e7]⟩
  · intro ht
    rw [e8, e1, e2]
    simp only [ht, if_true]
    have hl := hline ht
    by_cases hlt : x < l.offset
    · simp only [hlt, if_true]
      have := countNL_split l.source x l.offset (by omega)
      omega
    · simp only [hlt, if_false]
      have := countNL_split l.source l.offset x (by omega)
      omega
  · intro ha hb
    have hcond : (o.hasLineOffset && (o.tokenLine || v.colFix)) = true := by
      rcases hb with hb | hb <;> simp [ha, hb]
    unfold LineOffsetOk
    rw [e9, e1, e2]
    simp only [hcond, if_true]
    split
    · trivial
    · simp

theorem rewind_pinv (o : Opts) (v : Variant) (l : Lexer) (x : Nat) (hx : x ≤ l.source.length)
    (h : PInv o v l) :
    PInv o v (rewind o v l x) ∧ (rewind o v l x).offset = x ∧ (rewind o v l x).source = l.source ∧
    (rewind o v l x).tokenOffset = l.tokenOffset ∧ (rewind o v l x).state = l.state ∧
    (rewind o v l x).tokenLine = l.tokenLine ∧ (rewind o v l x).tokenColumn = l.tokenColumn :=
  rewind_pinv_of_line o v l x hx h.le h.line

/-- `Init` establishes the invariant at the offset after the byte-order mark. -/
theorem init_pinv (o : Opts) (v : Variant) (src : List UInt8) :
    PInv o v (init o v src) ∧ (init o v src).offset = startOffset o src ∧ (init o v src).source = src ∧
    (init o v src).state = 0 := by
  have hk : startOffset o src ≤ src.length ∧ countNL (src.take (startOffset o src)) = 0 := by
    unfold startOffset
    split
    · rename_i hb
      simp only [Bool.and_eq_true, beq_iff_eq] at hb
      have := congrArg List.length hb.2
      simp only [List.length_take, bom, List.length_cons, List.length_nil] at this
      refine ⟨by omega, ?_⟩
      rw [hb.2]; decide
    · exact ⟨Nat.zero_le _, by simp [countNL]⟩
  obtain ⟨r1, r2, r3, _, r5, _, _⟩ := rewind_pinv_of_line o v (initLexer src (startOffset o src)) (startOffset o src)
    hk.1 hk.1 (by intro _; show (1 : Int) = 1 + (countNL (src.take (startOffset o src)) : Int); rw [hk.2]; rfl)
  exact ⟨r1, r2, r3, r5⟩

/-- Consuming the current character (not at the end of the input). -/
theorem consume_pinv (o : Opts) (v : Variant) (l : Lexer) (h : PInv o v l) (hc : 0 ≤ l.ch) :
    PInv o v (consume o v l) ∧ (consume o v l).offset = l.scanOffset ∧ l.offset < l.scanOffset ∧
    l.scanOffset ≤ l.source.length ∧
    (consume o v l).source = l.source ∧ (consume o v l).tokenOffset = l.tokenOffset ∧
    (consume o v l).state = l.state ∧ (consume o v l).tokenLine = l.tokenLine ∧
    (consume o v l).tokenColumn = l.tokenColumn := by
  have hlt : l.offset < l.source.length := by
    rcases Nat.lt_or_ge l.offset l.source.length with h' | h'
    · exact h'
    · have := h.ch_neg_iff.mpr (by have := h.le; omega)
      omega
  obtain ⟨p1, p2, p3, p4, p5⟩ := peek_lt o.scanBytes l.source l.offset hlt
  rw [← h.ch] at p1 p4 p5
  rw [← h.so] at p2 p3 p4 p5
  -- the lexer after the newline bookkeeping
  have nb : (newlineBook o v l).source = l.source ∧ (newlineBook o v l).offset = l.offset ∧
      (newlineBook o v l).scanOffset = l.scanOffset ∧ (newlineBook o v l).tokenOffset = l.tokenOffset ∧
      (newlineBook o v l).state = l.state ∧ (newlineBook o v l).tokenLine = l.tokenLine ∧
      (newlineBook o v l).tokenColumn = l.tokenColumn ∧ (newlineBook o v l).ch = l.ch := by
    unfold newlineBook
    repeat' split
    all_goals simp
  obtain ⟨n1, n2, n3, n4, n5, n6, n7, n8⟩ := nb
  have hcons : consume o v l = readCh o { newlineBook o v l with offset := (newlineBook o v l).scanOffset } := rfl
  rw [hcons]
  generalize hl0 : ({ newlineBook o v l with offset := (newlineBook o v l).scanOffset } : Lexer) = l0
  have e1 : l0.source = l.source := by subst hl0; exact n1
  have e2 : l0.offset = l.scanOffset := by subst hl0; exact n3
  have e3 : l0.scanOffset = l.scanOffset := by subst hl0; exact n3
  have e4 : l0.tokenOffset = l.tokenOffset := by subst hl0; exact n4
  have e5 : l0.state = l.state := by subst hl0; exact n5
  have e6 : l0.tokenLine = l.tokenLine := by subst hl0; exact n6
  have e7 : l0.tokenColumn = l.tokenColumn := by subst hl0; exact n7
  have e8 : l0.line = (newlineBook o v l).line := by subst hl0; rfl
  have e9 : l0.lineOffset = (newlineBook o v l).lineOffset := by subst hl0; rfl
  obtain ⟨_, _, r3, r4, r5, _, r7, _, r9, r10⟩ := readCh_spec o l0 (by rw [e3, e2])
  have hcount := countNL_take_add l.source l.offset (l.scanOffset - l.offset)
  rw [Nat.add_sub_cancel' (Nat.le_of_lt p2)] at hcount
  refine ⟨readCh_pinv o v l0 (by rw [e3, e2]) (by rw [e1, e2]; exact p3) ?_ ?_,
    by rw [r4, e2], p2, p3, by rw [r3, e1], by rw [r5, e4], by rw [r10, e5], by rw [r7, e6], by rw [r9, e7]⟩
  · intro ht
    have hl := h.line ht
    rw [e8, e1, e2, hcount, p4]
    unfold newlineBook
    by_cases hnl : l.ch = 10
    · simp only [hnl, if_true, ht]
      split <;> simp <;> omega
    · simp only [hnl, if_false]
      omega
  · intro ha hb
    have hl := h.lo ha hb
    unfold LineOffsetOk at hl ⊢
    rw [e9, e1, e2]
    have hls := lineStart_add l.source l.offset (l.scanOffset - l.offset) h.le
    rw [Nat.add_sub_cancel' (Nat.le_of_lt p2)] at hls
    by_cases hnl : l.ch = 10
    · have hw := p5 hnl
      have hchunk : countNL ((l.source.drop l.offset).take 1) = 1 := by
        have := p4; rw [hw] at this; simpa [hnl] using this
      -- the chunk is exactly the newline
      have hls' : lineStart l.source l.scanOffset = l.offset + 1 := by
        rw [hls, hw]
        simp only [Nat.add_sub_cancel_left]
        cases hd : l.source.drop l.offset with
        | nil => rw [hd] at hchunk; simp [countNL] at hchunk
        | cons b rest =>
          rw [hd] at hchunk
          simp only [List.take_succ_cons, List.take_zero] at hchunk ⊢
          have hb10 : b = 10 := by
            unfold countNL at hchunk
            rw [List.count_cons] at hchunk
            by_cases hne : b = 10
            · exact hne
            · simp [hne] at hchunk
          simp [lineStartAux, hb10]
      rw [hls']
      unfold newlineBook
      simp only [hnl, if_true]
      cases hcf : v.colFix with
      | true => simp [ha, hw]
      | false =>
        have ht : o.tokenLine = true := by
          rcases hb with hb | hb
          · exact hb
          · rw [hcf] at hb; exact absurd hb (by simp)
        simp [ht, ha]
    · have hz : countNL ((l.source.drop l.offset).take (l.scanOffset - l.offset)) = 0 := by
        rw [p4]; simp [hnl]
      rw [hls, lineStartAux_noNL _ _ _ hz]
      have : (newlineBook o v l).lineOffset = l.lineOffset := by
        unfold newlineBook; simp [hnl]
      rw [this]
      exact hl

end TmVerif.LexRun
