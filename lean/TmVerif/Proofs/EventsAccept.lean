/-
Helper lemmas for C02, part 4: the accepting configuration. The stack shape `acceptShape` makes the
forest `[EOI leaves…, tree, leaves…]`, so `eventsOf` (first node tree, laid out before the lookahead
token) yields all events of the forest.
-/
import TmVerif.Proofs.EventsSim
namespace TmVerif.Events
open TmVerif.LR TmVerif.LRX

/-- the predicate `eventsOf` uses to pick the tree -/
def isNode (t : PTree) : Bool := match t with | .node _ _ => true | .tok _ => false

structure SymFacts (x : XTables) (inp : Input) : Prop where
  pos : 0 < x.t.nTerms
  tok : ∀ i, (inp.tok i).sym < (x.t.nTerms : Int)
  lhs : ∀ r s, geti x.t.ruleSymbol r = some s → (x.t.nTerms : Int) ≤ s

theorem symFacts {x : XTables} {inp : Input} (h : symsWF x inp = true) : SymFacts x inp := by
  unfold symsWF at h
  simp only [Bool.and_eq_true, decide_eq_true_eq, List.all_eq_true] at h
  obtain ⟨⟨h1, h2⟩, h3⟩ := h
  refine ⟨h1, fun i => ?_, fun r s hr => ?_⟩
  · unfold Input.tok
    cases hi : inp.toks[i]? with
    | none => simp only; omega
    | some t =>
      simp only
      exact h2 t (by rw [Array.mem_toList_iff]; exact Array.mem_of_getElem? hi)
  · unfold geti at hr
    split at hr
    · cases hr
    · exact h3 s (by rw [Array.mem_toList_iff]; exact Array.mem_of_getElem? hr)

/-- a terminal entry carries a leaf -/
theorem tag_leaf {x : XTables} {inp : Input} {j : Nat} {e : Entry} {t : PTree} (hs : SymFacts x inp)
    (ht : Tag inp x.t j e t) (he : e.sym < (x.t.nTerms : Int)) : ∃ tk, t = .tok tk ∧ e.sym = tk.sym ∧
      (tk.sym = 0 → tk = inp.tok j) := by
  cases t with
  | tok tk => exact ⟨tk, rfl, ht.1, ht.2.2⟩
  | node r k =>
    have := hs.lhs _ _ ht
    omega

/-- a nonterminal entry carries a node -/
theorem tag_node {x : XTables} {inp : Input} {j : Nat} {e : Entry} {t : PTree} (hs : SymFacts x inp)
    (ht : Tag inp x.t j e t) (he : (x.t.nTerms : Int) ≤ e.sym) : isNode t = true := by
  cases t with
  | tok tk =>
    obtain ⟨h1, ⟨i, h2⟩, _⟩ := ht
    have := hs.tok i
    rw [← h2, ← h1] at this
    omega
  | node r k => rfl

/-- terminal entries produce no events -/
theorem leaves_no_events {x : XTables} {inp : Input} {j after : Nat} {es : List Entry} {F : List PTree}
    {evs : List XEv} (hs : SymFacts x inp) (h : StackLaid x inp j after es F evs)
    (hl : leavesOnly x.t.nTerms es = true) : evs = [] ∧ F.find? isNode = none := by
  induction h with
  | base => exact ⟨rfl, rfl⟩
  | @cons after e es t ts evs ev evs' hlay ht hrec he ih =>
    have hne : es ≠ [] := by
      intro h0; have := hrec.length; rw [h0] at this; simp at this
    cases es with
    | nil => exact absurd rfl hne
    | cons e2 es2 =>
      rw [leavesOnly] at hl
      · simp only [Bool.and_eq_true, decide_eq_true_eq] at hl
        obtain ⟨tk, htk, _, _⟩ := tag_leaf hs ht hl.1
        subst htk
        rw [layout_tok] at hlay
        injection hlay with hlay
        injection hlay with _ _ hev
        obtain ⟨ih1, ih2⟩ := ih hl.2
        refine ⟨by rw [he, ih1, ← hev]; rfl, ?_⟩
        rw [List.find?_cons]
        simp only [isNode]
        exact ih2
      · intro h0; cases h0

/-- the accepting stack: the first node tree of the forest, laid out before the lookahead token,
carries all events -/
theorem shape_events {x : XTables} {inp : Input} {j after : Nat} {es : List Entry} {F : List PTree}
    {evs : List XEv} (hs : SymFacts x inp) (h : StackLaid x inp j after es F evs)
    (ha : after = (inp.tok j).off) (hsh : shapeOk x.t.nTerms es = true) :
    ∃ tree l, F.find? isNode = some tree ∧ layout x tree (inp.tok j).off = some l ∧ l.evs = evs := by
  induction h with
  | base after b =>
    simp only [shapeOk, leavesOnly] at hsh
    split at hsh
    · cases hsh
    · simp at hsh
  | @cons after e es t ts evs ev evs' hlay ht hrec he ih =>
    rw [shapeOk] at hsh
    by_cases h0 : e.sym = 0
    · rw [if_pos h0] at hsh
      have hpos := hs.pos
      obtain ⟨tk, htk, hsym, hj⟩ := tag_leaf hs ht (by omega)
      subst htk
      rw [layout_tok] at hlay
      injection hlay with hlay
      injection hlay with hoff _ hev
      have htkj := hj (by rw [← hsym]; exact h0)
      obtain ⟨tree, l, h1, h2, h3⟩ := ih (by rw [← hoff, htkj]) hsh
      refine ⟨tree, l, ?_, h2, by rw [he, h3, ← hev]; simp⟩
      rw [List.find?_cons]
      simp only [isNode]
      exact h1
    · rw [if_neg h0] at hsh
      simp only [Bool.and_eq_true, decide_eq_true_eq] at hsh
      have hn := tag_node hs ht hsh.1
      obtain ⟨h1, _⟩ := leaves_no_events hs hrec hsh.2
      refine ⟨t, _, ?_, by rw [← ha]; exact hlay, by rw [he, h1]; simp⟩
      rw [List.find?_cons, hn]

/-- **Accepted runs.** The extended runtime accepts ⇒ the core runtime accepts with the same fuel,
its trace builds a forest, and the forest, laid out stack-free, has the ranges of the final stack
entries and exactly the emitted events. -/
theorem xrun_accept_inv {x : XTables} {inp : Input} {input fuel : Nat} {c : XCfg}
    (hx : x.recovering = false) (hwf : reportsWF x = true)
    (hrun : xrun x inp input false 0 fuel = (XResult.accept, c)) :
    ∃ cl F, run x.t inp input fuel = (Result.accept, cl) ∧
      buildForest x.t.ruleLen cl.evs.reverse [] = some F ∧
      StackLaid x inp (consumed cl.evs) (inp.tok (consumed cl.evs)).off c.stack F c.evs.reverse := by
  unfold xrun at hrun
  unfold run
  cases hfin : x.t.finalStates[input]? with
  | none => rw [hfin] at hrun; cases hrun
  | some fin =>
    rw [hfin] at hrun
    simp only at hrun ⊢
    obtain ⟨cl, F, h1, h2⟩ := inv_loop hx hwf fuel (inv_init x inp input) hrun
    refine ⟨cl, F, h1, ?_, h2.laid⟩
    have := h2.build []
    rw [List.append_nil] at this
    rw [this, buildForest]

theorem eventsOf_eq {x : XTables} {inp : Input} {input fuel : Nat} {cl : Cfg} {F : List PTree}
    (h1 : run x.t inp input fuel = (Result.accept, cl))
    (h2 : buildForest x.t.ruleLen cl.evs.reverse [] = some F) :
    eventsOf x inp input fuel =
      match F.find? isNode with
      | some tree => (layout x tree (inp.tok (consumed cl.evs)).off).map (·.evs)
      | none => none := by
  unfold eventsOf
  rw [h1]
  simp only [h2]
  rfl

/-- Stack-free layout of a whole forest (top of the stack first): every tree is laid out in front of
the tree above it (the top one in front of offset `after`). Result: the ranges (top first) and the
events (bottom tree first, i.e. time order). -/
def forestLayout (x : XTables) : List PTree → Nat → Option (List (Nat × Nat) × List XEv)
  | [], _ => some ([], [])
  | t :: ts, after =>
    match layout x t after with
    | none => none
    | some l =>
      match forestLayout x ts l.off with
      | none => none
      | some (rs, evs) => some ((l.off, l.endo) :: rs, evs ++ l.evs)

theorem forestLayout_of_laid {x : XTables} {inp : Input} {j after : Nat} {es : List Entry}
    {F : List PTree} {evs : List XEv} (h : StackLaid x inp j after es F evs) :
    forestLayout x F after = some (es.dropLast.map rng, evs) := by
  induction h with
  | base => rfl
  | @cons after e es t ts evs ev evs' hl _ hrec he ih =>
    have hne : es ≠ [] := by
      intro h0; have := hrec.length; rw [h0] at this; simp at this
    rw [forestLayout, hl]
    simp only
    rw [ih, he]
    cases es with
    | nil => exact absurd rfl hne
    | cons a l => simp [rng]

end TmVerif.Events
