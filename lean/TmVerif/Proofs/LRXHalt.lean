/-
Helper lemmas for `C19_halts`: under the certificates the potential
`W · (2 · (tokens left) + [not committed]) + weight · (stack height) + rank i (next token) (top state)`
decreases with every iteration of the extended loop `xrunLoop`, recovery included. `Committed`
(Proofs/LRXSafeRecover.lean) holds after a recovery: `reduceAll` has checked that the reductions
under the next token end in a shift, so no second error can occur before a token is consumed.
-/
import TmVerif.Proofs.LRXSafeMain
namespace TmVerif.LRX
open TmVerif.LR TmVerif.CFG TmVerif.LRSound
variable {g : Grammar} {x : XTables} {cert : Cert} {xc : XCert} {i : Nat}

theorem xidx_none {c : XCfg} (h : c.next = none) : xidx c = c.pos := by
  unfold xidx; rw [h]

theorem symAt_lt_nTerms {inp : Input} (htok : TokOk x.t inp) (h0 : 0 < x.t.nTerms) (j : Nat) :
    symAt inp j < x.t.nTerms ∧ (inp.tok j).sym = (symAt inp j : Int) := by
  obtain ⟨a, ha1, ha2⟩ := tok_range htok h0 j
  have : symAt inp j = a := by unfold symAt; rw [ha1]; rfl
  rw [this]; exact ⟨ha2, ha1⟩

/-- the decoded action is the table's action on the symbol of the next token; the configuration
changes by a fetch at most -/
theorem xdecode_act (hc : CertFacts g x.t cert) {inp : Input} (htok : TokOk x.t inp)
    (h0 : 0 < x.t.nTerms) (c c1 : XCfg) (act : Act) (s : Nat) (hs : s < x.t.nStates)
    (hst : c.state = (s : Int)) (hn : XNextOk inp c) (hd : xdecode x inp c = some (c1, act)) :
    actOf x.t noDeep s (symAt inp (xidx c)) = some act ∧ xidx c1 = xidx c ∧
    (∀ q, act = .shift q → c1.next = some (inp.tok (xidx c))) := by
  obtain ⟨ha2, ha1⟩ := symAt_lt_nTerms htok h0 (xidx c)
  obtain ⟨act', hact', hnt⟩ := actOk_of_act hc hs ha2
  unfold xdecode at hd
  rw [hst] at hd
  rcases hnt with ⟨hnt, _⟩ | ⟨hnt, hok⟩
  · rw [hnt] at hd
    simp only [Option.map_eq_some_iff] at hd
    obtain ⟨a', ha', he⟩ := hd
    obtain ⟨f1, _⟩ := xfetch_spec inp c hn
    obtain ⟨g1, _⟩ := xfetch_idx inp c hn
    rw [g1, ha1, actOf_noDeep x.t _ s _ act' hact'] at ha'
    injection ha' with ha'
    injection he with e1 e2
    subst e1
    refine ⟨by rw [hact', ha', e2], xfetch_xidx inp c hn, fun _ _ => ?_⟩
    rw [f1, g1]
  · rw [hnt] at hd
    simp only [Option.map_eq_some_iff] at hd
    obtain ⟨a', ha', he⟩ := hd
    injection he with e1 e2
    subst e1
    have h1 : actOf x.t noDeep (s : Int) 0 = some a' := ha'
    have h2 : actOf x.t noDeep (s : Int) (symAt inp (xidx c) : Nat) = some a' := by
      rw [actOf_ignores x.t noDeep s _ hnt]; exact h1
    refine ⟨by rw [h2, e2], rfl, fun q hq => ?_⟩
    subst hq
    rw [hact'] at h2
    injection h2 with h2
    subst h2
    subst e2
    simp [actOk] at hok

/-- the loop iteration up to the error branch, in full: cancelled, a reduction (potential of the
chain decreases, the simulation advances by one step), a shift, or the error branch -/
theorem xpre_spec (hc : CertFacts g x.t cert) (hx : XFacts g x cert xc) {inp : Input}
    (htok : TokOk x.t inp) (k : Nat) (fin : Int) (c : XCfg) {s : Nat} {rest : List Nat}
    {syms : List Int} (hstk : StOk g x cert i (s :: rest) syms)
    (hmap : c.stack.map (·.state) = (s :: rest).map Int.ofNat) (hst : c.state = (s : Int))
    (hn : XNextOk inp c) (hfi : fin = finOf x i) (hne : c.state ≠ fin) :
    (∃ c', xpre x inp k c = .done .cancelled c') ∨
    (∃ c' r s' rest' syms', xpre x inp k c = .cont c' ∧
      actOf x.t noDeep s (symAt inp (xidx c)) = some (.reduce r) ∧
      StOk g x cert i (s' :: rest') syms' ∧
      c'.stack.map (·.state) = (s' :: rest').map Int.ofNat ∧ c'.state = (s' : Int) ∧
      XNextOk inp c' ∧ xidx c' = xidx c ∧
      phi xc i (symAt inp (xidx c)) (s' :: rest') < phi xc i (symAt inp (xidx c)) (s :: rest) ∧
      (∀ n, simC x (symAt inp (xidx c)) fin (n + 1) (s :: rest) =
        simC x (symAt inp (xidx c)) fin n (s' :: rest'))) ∨
    (∃ (c' : XCfg) (q : Nat) (e : Entry), xpre x inp k c = .cont c' ∧
      actOf x.t noDeep s (symAt inp (xidx c)) = some (.shift (q : Int)) ∧
      c'.stack = e :: c.stack ∧ c'.state = (q : Int) ∧ XInv g x cert i inp c' ∧
      (symAt inp (xidx c) ≠ 0 → xidx c' = xidx c + 1) ∧
      (symAt inp (xidx c) = 0 → xidx c' = xidx c)) ∨
    (∃ c', xpre x inp k c = .err c' ∧
      actOf x.t noDeep s (symAt inp (xidx c)) = some .error ∧
      XInv g x cert i inp c' ∧ c'.stack = c.stack ∧ c'.state = c.state ∧ xidx c' = xidx c) := by
  have hi := hstk.input_lt
  have hne' : (s : Int) ≠ finOf x i := by rw [← hst, ← hfi]; exact hne
  have hnef : (s : Int) ≠ fin := by rw [← hst]; exact hne
  have hs : s < x.t.nStates := hstk.lt hc s (by simp)
  have h0 : 0 < x.t.nTerms := by have := (wfFacts hc.wf).nTermsPos; have := hc.nTerms; omega
  obtain ⟨c1, act, hd, e1, e2, hn1, _⟩ := xdecode_spec hc htok h0 c s hs hst hn
  obtain ⟨hact, hidx1, hshift⟩ := xdecode_act hc htok h0 c c1 act s hs hst hn hd
  obtain ⟨ha2, ha1⟩ := symAt_lt_nTerms htok h0 (xidx c)
  have hmap1 : c1.stack.map (·.state) = (s :: rest).map Int.ofNat := by rw [e1]; exact hmap
  have hinv1 : XInv g x cert i inp c1 := ⟨s, rest, syms, hstk, hmap1, e2.trans hst, hn1⟩
  unfold xpre
  rw [hd]
  cases act with
  | error =>
    simp only
    unfold xerrorPre
    split
    · split
      · exact Or.inl ⟨_, rfl⟩
      · exact Or.inr (Or.inr (Or.inr ⟨_, rfl, hact, hinv1.congr rfl rfl rfl rfl, e1, e2, hidx1⟩))
    · exact Or.inr (Or.inr (Or.inr ⟨_, rfl, hact, hinv1, e1, e2, hidx1⟩))
  | shift q =>
    simp only
    have hnx := hshift q rfl
    obtain ⟨act', hact', hnt⟩ := actOk_of_act hc hs ha2
    rw [hact] at hact'
    injection hact' with hact'
    subst hact'
    have hedgeOk : edgeOk g.inputs.size x.t cert s (symAt inp (xidx c) : Nat) q = true ∧
        needsTok x.t s = some true := by
      rcases hnt with ⟨h1, h⟩ | ⟨_, h⟩
      · exact ⟨h, h1⟩
      · simp [actOk] at h
    obtain ⟨q', hq', _, hq2, hq3⟩ := edgeOk_elim hedgeOk.1
    subst hq'
    unfold xshiftPre
    split
    · exact Or.inl ⟨_, rfl⟩
    · rw [hnx]
      simp only
      have hE : TermEdge x.t s (symAt inp (xidx c)) (q' : Int) := ⟨hs, ha2, hedgeOk.2, hact⟩
      have hedge : (s, symAt inp (xidx c), (q' : Int)) ∈ xedges x :=
        List.mem_append_left _ (termEdge_mem hE)
      have hpos := hn1 _ hnx
      have hxi : xidx c = c1.pos - 1 := by rw [← hidx1, xidx_next hnx]
      refine Or.inr (Or.inr (Or.inl ⟨_, q', _, rfl, hact, by rw [e1], rfl, ?_, ?_, ?_⟩))
      · refine ⟨q', s :: rest, _, StOk.push q' s rest _ syms hstk hedge hq2 hq3
          ((hx.closed hc i hi).2 s _ q' hedge (hstk.mem_reach s (by simp))), ?_, rfl, ?_⟩
        · simp only [List.map_cons, List.cons.injEq]
          exact ⟨rfl, by simpa using hmap1⟩
        · intro tk' htk'
          simp only at htk'
          split at htk'
          · cases htk'
          · exact hn1 tk' (hnx.trans htk')
      · intro hz
        have hz' : (inp.tok (xidx c)).sym ≠ 0 := by rw [ha1]; omega
        refine (xidx_none (by simp only [hz', ne_eq, not_false_eq_true, if_true])).trans ?_
        show c1.pos = xidx c + 1
        omega
      · intro hz
        have hz' : (inp.tok (xidx c)).sym = 0 := by rw [ha1, hz]; rfl
        refine (xidx_next (tk := inp.tok (xidx c))
          (by simp only [hz', ne_eq, not_true_eq_false, if_false])).trans ?_
        show c1.pos - 1 = xidx c
        omega
  | reduce r =>
    simp only
    obtain ⟨rule, p', rest', q, hr0, hrule, hlen, hsym, hdrop, hg, hnew, hrank⟩ :=
      hstk.reduce hc hx.rk (hx.closed hc) ha2 hne' hact
    have hl : rule.rhs.length < c1.stack.length := by
      have h1 := congrArg List.length hmap1
      have h2 := congrArg List.length hdrop
      simp only [List.length_map, List.length_cons, List.length_drop] at h1 h2
      omega
    have hphi : phi xc i (symAt inp (xidx c)) (q :: p' :: rest') <
        phi xc i (symAt inp (xidx c)) (s :: rest) := by
      have h1 := congrArg List.length hdrop
      simp only [List.length_drop, List.length_cons] at h1
      have h2 : (q :: p' :: rest').length + rule.rhs.length = (s :: rest).length + 1 := by
        simp only [List.length_cons]; omega
      have h3 : xc.weight * (q :: p' :: rest').length + xc.weight * rule.rhs.length =
          xc.weight * (s :: rest).length + xc.weight := by
        rw [← Nat.mul_add, h2, Nat.mul_add, Nat.mul_one]
      unfold phi
      simp only [List.headD_cons]
      omega
    have hsim : ∀ n, simC x (symAt inp (xidx c)) fin (n + 1) (s :: rest) =
        simC x (symAt inp (xidx c)) fin n (q :: p' :: rest') := by
      intro n
      rw [simC]
      have hq0 : (0 : Int) ≤ (q : Int) := by omega
      simp only [hnef, if_false, hact, hlen, hsym, Int.toNat_natCast, hdrop, hg, hq0, if_true]
    unfold xreducePre
    rw [hlen, hsym]
    simp only [Int.toNat_natCast]
    have hgt : ¬ rule.rhs.length > c1.stack.length := by omega
    simp only [hgt, if_false]
    by_cases hz : rule.rhs.length = 0
    · simp only [hz, if_true]
      obtain ⟨_, _, f3, _, f5⟩ := xfetch_spec inp c1 hn1
      obtain ⟨c3, hc3, _, ⟨e, hes, hstk3⟩, hst3, hnx3, hpos3⟩ :=
        xreduceTail_safe hx (inp := inp) (c2 := (c1.fetch inp).1)
        (c1.fetch inp).2.off (c1.fetch inp).2.off hr0 hlen (by rw [f3]; exact hmap1) hdrop hg hnew f5
      rw [hz] at hc3
      rw [hc3]
      refine Or.inr (Or.inl ⟨c3, r, q, p' :: rest', _, rfl, hact, hnew, ?_, hst3, ?_, ?_, hphi, hsim⟩)
      · rw [hstk3, List.map_cons, List.map_drop, f3, hmap1, ← List.map_drop, hdrop, hes]; rfl
      · intro tk htk
        rw [hnx3] at htk; rw [hpos3]; exact f5 tk htk
      · have : xidx c3 = xidx (c1.fetch inp).1 := by unfold xidx; rw [hnx3, hpos3]
        rw [this, xfetch_xidx inp c1 hn1, hidx1]
    · simp only [hz, if_false]
      obtain ⟨c3, hc3, _, ⟨e, hes, hstk3⟩, hst3, hnx3, hpos3⟩ :=
        xreduceTail_safe hx (inp := inp) (c2 := c1)
        (((c1.stack.take rule.rhs.length).getLast?.map (·.off)).getD 0)
        (((c1.stack.take rule.rhs.length).head?.map (·.endo)).getD 0) hr0 hlen hmap1 hdrop hg hnew hn1
      rw [hc3]
      refine Or.inr (Or.inl ⟨c3, r, q, p' :: rest', _, rfl, hact, hnew, ?_, hst3, ?_, ?_, hphi, hsim⟩)
      · rw [hstk3, List.map_cons, List.map_drop, hmap1, ← List.map_drop, hdrop, hes]; rfl
      · intro tk htk
        rw [hnx3] at htk; rw [hpos3]; exact hn1 tk htk
      · have : xidx c3 = xidx c1 := by unfold xidx; rw [hnx3, hpos3]
        rw [this, hidx1]

/-! ### the error branch -/

theorem errPrelude_xidx {inp : Input} {c : XCfg} (h : XNextOk inp c) :
    xidx (errPrelude inp c) = xidx c ∧ (errPrelude inp c).stack = c.stack := by
  unfold errPrelude
  split
  · obtain ⟨_, _, f3, _, _⟩ := xfetch_spec inp c h
    refine ⟨?_, f3⟩
    have : xidx { (c.fetch inp).1 with
        lastErr := ((c.fetch inp).2.off, (c.fetch inp).2.endo),
        evs := .error (c.fetch inp).2.off (c.fetch inp).2.endo :: (c.fetch inp).1.evs } =
        xidx (c.fetch inp).1 := rfl
    rw [this, xfetch_xidx inp c h]
  · exact ⟨rfl, rfl⟩

/-- the error branch under the invariant: a result other than `fuel`/`panic`, or recovery hands
back a committed configuration -/
theorem onError_spec (hc : CertFacts g x.t cert) (hx : XFacts g x cert xc) {inp : Input}
    (htok : TokOk x.t inp) (fin : Int) (hfi : fin = finOf x i) (stop : Bool) (c : XCfg)
    (h : XInv g x cert i inp c) :
    (∃ o e c', onError x inp fin stop c = .done (.syntaxError o e) c') ∨
    (∃ c3, onError x inp fin stop c = .cont c3 ∧ RecPost g x cert i inp fin c c3) := by
  have hn : XNextOk inp c := by obtain ⟨_, _, _, _, _, _, hn⟩ := h; exact hn
  cases hr : x.recovering with
  | false =>
    rw [onError_eq_norec inp fin stop c hr]
    exact Or.inl ⟨_, _, _, rfl⟩
  | true =>
    rw [onError_eq_rec inp fin stop c hr]
    split
    · exact Or.inl ⟨_, _, _, rfl⟩
    · have hinv : XInv g x cert i inp { errPrelude inp c with recovering := 4 } :=
        (errPrelude_inv h).congr rfl rfl rfl rfl
      obtain ⟨res, hres, hok⟩ := recoverFromError_total hc hx hr htok fin hfi _ hinv
      rw [hres]
      cases res with
      | none => exact Or.inl ⟨_, _, _, rfl⟩
      | some c3 =>
        obtain ⟨r1, r2, ⟨e3, n3, r3, r4⟩, r5⟩ := hok c3 rfl
        obtain ⟨p1, p2⟩ := errPrelude_xidx hn
        have hx2 : xidx { errPrelude inp c with recovering := 4 } = xidx (errPrelude inp c) := rfl
        rw [hx2, p1] at r2
        have hs2 : ({ errPrelude inp c with recovering := 4 } : XCfg).stack = c.stack := p2
        rw [hs2] at r3 r4
        exact Or.inr ⟨c3, rfl, r1, r2, ⟨e3, n3, r3, r4⟩, r5⟩

/-! ### commitment -/

theorem simC_error {a : Nat} {fin : Int} {s : Nat} {rest : List Nat} (n : Nat)
    (hne : (s : Int) ≠ fin) (hact : actOf x.t noDeep s a = some .error) :
    simC x a fin (n + 1) (s :: rest) = some false := by
  rw [simC]; simp only [hne, if_false, hact]

theorem simC_zero (a : Nat) (fin : Int) (sts : List Nat) : simC x a fin 0 sts = none := by
  rw [simC]

/-! ### the potential of the extended loop -/

/-- what `xhaltOk` says -/
def HaltFacts (g : Grammar) (x : XTables) (cert : Cert) : Prop :=
  ∀ i, i < g.inputs.size → ∀ p X q, (p, X, q) ∈ xedges x → p ∈ reachOf cert i → X = 0 →
    (p : Int) ≠ finOf x i → q = finOf x i

theorem haltFacts (h : xhaltOk g x cert = true) : HaltFacts g x cert := by
  intro i hi p X q hm hp hX hpf
  unfold xhaltOk at h
  simp only [List.all_eq_true, List.mem_range] at h
  have := h i hi (p, X, q) hm
  simp only [Bool.or_eq_true, Bool.not_eq_true', List.contains_eq_mem, decide_eq_false_iff_not,
    bne_iff_ne, ne_eq, beq_iff_eq] at this
  rcases this with ((h1 | h1) | h1) | h1
  · exact absurd hp h1
  · exact absurd hX h1
  · exact absurd h1 hpf
  · exact h1

def xW (x : XTables) (xc : XCert) : Nat := 4 * x.t.nStates + 12 + xc.weight

/-- `W · (2 · (tokens left) + [not committed]) + weight · height + rank + 1` -/
def xpsi (x : XTables) (xc : XCert) (i : Nat) (inp : Input) (b : Bool) (c : XCfg) : Nat :=
  xW x xc * (2 * (inp.toks.size - xidx c) + (if b then 0 else 1)) +
    xc.weight * c.stack.length + rankOf xc i (symAt inp (xidx c)) c.state.toNat + 1

theorem XInv.rank_le (hc : CertFacts g x.t cert) (hx : XFacts g x cert xc) {inp : Input}
    (htok : TokOk x.t inp) {c : XCfg} (h : XInv g x cert i inp c) :
    rankOf xc i (symAt inp (xidx c)) c.state.toNat ≤ 4 * x.t.nStates + 11 := by
  obtain ⟨s, rest, syms, hstk, _, hst, _⟩ := h
  have h0 : 0 < x.t.nTerms := by have := (wfFacts hc.wf).nTermsPos; have := hc.nTerms; omega
  rw [hst, Int.toNat_natCast]
  exact hx.rk.rankB i _ s hstk.input_lt (symAt_lt_nTerms htok h0 _).1 (hstk.lt hc s (by simp))

theorem xrunLoop_halts (hc : CertFacts g x.t cert) (hx : XFacts g x cert xc)
    (hh : HaltFacts g x cert) {inp : Input} (htok : TokOk x.t inp) (fin : Int)
    (hfi : fin = finOf x i) (stop : Bool) (k : Nat) :
    ∀ (fuel : Nat) (c : XCfg) (b : Bool), XInv g x cert i inp c →
      (b = true → Committed x inp fin c) → xpsi x xc i inp b c < fuel →
      (xrunLoop x inp fin stop k fuel c).1 ≠ .fuel
  | 0, _, _, _, _, h => by omega
  | fuel + 1, c, b, hinv, hcom, hpsi => by
    rw [xrunLoop]
    split
    · exact fun h => nomatch h
    · next hne =>
      have hinv0 := hinv
      obtain ⟨s, rest, syms, hstk, hmap, hst, hn⟩ := hinv
      have hi := hstk.input_lt
      have hs : s < x.t.nStates := hstk.lt hc s (by simp)
      have h0 : 0 < x.t.nTerms := by have := (wfFacts hc.wf).nTermsPos; have := hc.nTerms; omega
      have hlen : c.stack.length = (s :: rest).length := by
        have := congrArg List.length hmap; simpa using this
      have hrk0 : rankOf xc i (symAt inp (xidx c)) c.state.toNat =
          rankOf xc i (symAt inp (xidx c)) s := by rw [hst, Int.toNat_natCast]
      rw [xstep_pre]
      rcases xpre_spec hc hx htok k fin c hstk hmap hst hn hfi hne with
        ⟨c', h1⟩ | ⟨c', r, s', rest', syms', h1, hact, hstk', hmap', hst', hn', hidx', hphi, hsim⟩ |
        ⟨c', q, e, h1, hact, hstk', hst', hinv', hidx1, hidx0⟩ | ⟨c', h1, hact, hinv', hstk', hst', hidx'⟩
      · rw [h1]; exact fun h => nomatch h
      · -- reduction
        rw [h1]
        simp only [XPre.run]
        have hinv' : XInv g x cert i inp c' := ⟨s', rest', syms', hstk', hmap', hst', hn'⟩
        refine xrunLoop_halts hc hx hh htok fin hfi stop k fuel c' b hinv' ?_ ?_
        · intro hb
          obtain ⟨sts, n, hm, hs1⟩ := hcom hb
          have : sts = s :: rest := map_ofNat_inj _ _ (hm.symm.trans hmap)
          subst this
          cases n with
          | zero => rw [simC_zero] at hs1; cases hs1
          | succ n =>
            rw [hsim] at hs1
            exact ⟨s' :: rest', n, hmap', by rw [hidx']; exact hs1⟩
        · have hlen' : c'.stack.length = (s' :: rest').length := by
            have := congrArg List.length hmap'; simpa using this
          unfold xpsi at hpsi ⊢
          rw [hidx', hlen', hst', Int.toNat_natCast]
          rw [hlen, hrk0] at hpsi
          unfold phi at hphi
          simp only [List.headD_cons] at hphi
          omega
      · -- shift
        rw [h1]
        simp only [XPre.run]
        by_cases hz : symAt inp (xidx c) = 0
        · -- EOI: the target is the final state
          have hsr : s ∈ reachOf cert i := hstk.mem_reach s (by simp)
          obtain ⟨act', hact', hnt⟩ := actOk_of_act hc hs (symAt_lt_nTerms htok h0 (xidx c)).1
          rw [hact] at hact'
          injection hact' with hact'
          subst hact'
          have hnt' : needsTok x.t s = some true := by
            rcases hnt with ⟨h, _⟩ | ⟨_, h⟩
            · exact h
            · simp [actOk] at h
          have hE : TermEdge x.t s (symAt inp (xidx c)) (q : Int) :=
            ⟨hs, (symAt_lt_nTerms htok h0 (xidx c)).1, hnt', hact⟩
          have hq := hh i hi s _ (q : Int) (List.mem_append_left _ (termEdge_mem hE)) hsr hz
            (by rw [← hst, ← hfi]; exact hne)
          have hfuel : 1 ≤ fuel := by unfold xpsi at hpsi; omega
          obtain ⟨f', hf'⟩ : ∃ f', fuel = f' + 1 := ⟨fuel - 1, by omega⟩
          rw [hf', xrunLoop]
          have : c'.state = fin := by rw [hst', hq, hfi]
          simp only [this, if_true]
          exact fun h => nomatch h
        · have hlt : xidx c < inp.toks.size := by
            rcases Nat.lt_or_ge (xidx c) inp.toks.size with h | h
            · exact h
            · exact absurd (symAt_ge inp h) hz
          have hi1 := hidx1 hz
          refine xrunLoop_halts hc hx hh htok fin hfi stop k fuel c' false hinv'
            (fun h => nomatch h) ?_
          have hr' := hinv'.rank_le hc hx htok
          unfold xpsi at hpsi ⊢
          rw [hi1, hstk', List.length_cons]
          simp only [Bool.false_eq_true, if_false]
          have e4 : inp.toks.size - xidx c = (inp.toks.size - (xidx c + 1)) + 1 := by omega
          rw [e4] at hpsi
          rw [hi1] at hr'
          have hm1 : xc.weight * (c.stack.length + 1) = xc.weight * c.stack.length + xc.weight := by
            rw [Nat.mul_add, Nat.mul_one]
          have hm2 : xW x xc * (2 * (inp.toks.size - (xidx c + 1) + 1) + (if b = true then 0 else 1)) =
              xW x xc * (2 * (inp.toks.size - (xidx c + 1)) + 1) + xW x xc +
                xW x xc * (if b = true then 0 else 1) := by
            rw [show 2 * (inp.toks.size - (xidx c + 1) + 1) + (if b = true then 0 else 1) =
              (2 * (inp.toks.size - (xidx c + 1)) + 1) + 1 + (if b = true then 0 else 1) by omega,
              Nat.mul_add, Nat.mul_add, Nat.mul_one]
          rw [hm2] at hpsi
          rw [hm1]
          unfold xW at hpsi ⊢
          omega
      · -- error branch
        rw [h1]
        simp only [XPre.run]
        have hb : b = false := by
          cases b with
          | false => rfl
          | true =>
            obtain ⟨sts, n, hm, hs1⟩ := hcom rfl
            have : sts = s :: rest := map_ofNat_inj _ _ (hm.symm.trans hmap)
            subst this
            cases n with
            | zero => rw [simC_zero] at hs1; cases hs1
            | succ n =>
              rw [simC_error n (by rw [← hst]; exact hne) hact] at hs1
              cases hs1
        subst hb
        rcases onError_spec hc hx htok fin hfi stop c' hinv' with ⟨o, e, c'', h2⟩ | ⟨c3, h2, h3⟩
        · rw [h2]; exact fun h => nomatch h
        · rw [h2]
          obtain ⟨r1, r2, ⟨e3, n3, r3, r4⟩, r5⟩ := h3
          refine xrunLoop_halts hc hx hh htok fin hfi stop k fuel c3 true r1 (fun _ => r5) ?_
          have hr' := r1.rank_le hc hx htok
          have hlen3 : c3.stack.length ≤ c.stack.length + 1 := by
            rw [r4, List.length_cons, List.length_drop, hstk']; omega
          have hm3 : xc.weight * c3.stack.length ≤ xc.weight * c.stack.length + xc.weight := by
            have := Nat.mul_le_mul_left xc.weight hlen3
            rw [Nat.mul_add, Nat.mul_one] at this; exact this
          rw [hidx'] at r2
          have hm4 : xW x xc * (2 * (inp.toks.size - xidx c3)) ≤
              xW x xc * (2 * (inp.toks.size - xidx c)) :=
            Nat.mul_le_mul_left _ (by omega)
          unfold xpsi at hpsi ⊢
          simp only [Bool.false_eq_true, if_false, if_true, Nat.add_zero] at hpsi ⊢
          rw [Nat.mul_add, Nat.mul_one] at hpsi
          unfold xW at hpsi hm4 ⊢
          omega

end TmVerif.LRX
