import TmVerif.Model.TreeBuilder
/-!
C20 — helper lemmas for the tree builder: what one `addNode` call does to a stack that is sorted by
offset (`addNode_spec`), and the loop invariant `Inv` of `buildFrom` (`inv_step`, `inv_build`).
-/
namespace TmVerif.TreeBuilder

/-! ### traversals -/

theorem idsList_append (a b : List Tree) : idsList (a ++ b) = idsList a ++ idsList b := by
  induction a with
  | nil => simp [idsList]
  | cons t ts ih => simp [idsList, ih, List.append_assoc]

theorem subtreesList_append (a b : List Tree) :
    subtreesList (a ++ b) = subtreesList a ++ subtreesList b := by
  induction a with
  | nil => simp [subtreesList]
  | cons t ts ih => simp [subtreesList, ih, List.append_assoc]

theorem Tree.self_mem_subtrees (t : Tree) : t ∈ t.subtrees := by
  cases t; simp [Tree.subtrees]

theorem Tree.id_mem_ids (t : Tree) : t.id ∈ t.ids := by
  cases t; simp [Tree.ids, Tree.id]

theorem mem_subtreesList_self {R : List Tree} {r : Tree} (h : r ∈ R) : r ∈ subtreesList R := by
  induction R with
  | nil => cases h
  | cons t ts ih =>
    simp only [subtreesList, List.mem_append]
    rcases List.mem_cons.1 h with rfl | h
    · exact .inl r.self_mem_subtrees
    · exact .inr (ih h)

theorem id_mem_idsList {R : List Tree} {r : Tree} (h : r ∈ R) : r.id ∈ idsList R := by
  induction R with
  | nil => cases h
  | cons t ts ih =>
    simp only [idsList, List.mem_append]
    rcases List.mem_cons.1 h with rfl | h
    · exact .inl r.id_mem_ids
    · exact .inr (ih h)

theorem subtreesList_sub {A B : List Tree} (h : ∀ t ∈ A, t ∈ B) :
    ∀ t ∈ subtreesList A, t ∈ subtreesList B := by
  induction A with
  | nil => intro t ht; simp [subtreesList] at ht
  | cons a l ih =>
    intro t ht
    simp only [subtreesList, List.mem_append] at ht
    rcases ht with ht | ht
    · have ha : a ∈ B := h a (List.mem_cons_self ..)
      clear ih h
      induction B with
      | nil => cases ha
      | cons b bs ihb =>
        simp only [subtreesList, List.mem_append]
        rcases List.mem_cons.1 ha with rfl | hb
        · exact .inl ht
        · exact .inr (ihb hb)
    · exact ih (fun t ht => h t (List.mem_cons_of_mem _ ht)) t ht

/-! ### lists sorted by offset -/

theorem mem_takeWhile_true {α : Type} {p : α → Bool} : ∀ {l : List α} {x : α}, x ∈ l.takeWhile p → p x = true := by
  intro l
  induction l with
  | nil => intro x hx; simp at hx
  | cons a l ih =>
    intro x hx
    by_cases ha : p a = true
    · rw [List.takeWhile_cons_of_pos ha] at hx
      rcases List.mem_cons.1 hx with rfl | h
      · exact ha
      · exact ih h
    · rw [List.takeWhile_cons_of_neg ha] at hx
      cases hx

theorem dropWhile_lt_of_sorted (S : List Tree) (o : Nat)
    (hs : S.Pairwise (fun a b => b.off ≤ a.off)) :
    ∀ t ∈ S.dropWhile (fun t => decide (t.off ≥ o)), t.off < o := by
  induction S with
  | nil => simp
  | cons a l ih =>
    rw [List.pairwise_cons] at hs
    intro t ht
    by_cases ha : a.off ≥ o
    · rw [List.dropWhile_cons_of_pos (by simpa using ha)] at ht
      exact ih hs.2 t ht
    · rw [List.dropWhile_cons_of_neg (by simpa using ha)] at ht
      rcases List.mem_cons.1 ht with rfl | h
      · omega
      · have := hs.1 t h; omega

theorem take_drop_count (sb : List Tree) (e : Nat) (hs : sb.Pairwise (fun a b => a.off ≤ b.off)) :
    (∀ t ∈ sb.take (sb.length - sb.countP (fun t => decide (t.off ≥ e))), t.off < e) ∧
    (∀ t ∈ sb.drop (sb.length - sb.countP (fun t => decide (t.off ≥ e))), e ≤ t.off) := by
  induction sb with
  | nil => simp
  | cons a l ih =>
    rw [List.pairwise_cons] at hs
    by_cases ha : a.off ≥ e
    · have hall : ∀ t ∈ a :: l, (fun t : Tree => decide (t.off ≥ e)) t = true := by
        intro t ht
        rcases List.mem_cons.1 ht with rfl | h
        · simpa using ha
        · have := hs.1 t h; simp; omega
      have hc : (a :: l).countP (fun t => decide (t.off ≥ e)) = (a :: l).length :=
        List.countP_eq_length.2 hall
      rw [hc, Nat.sub_self]
      refine ⟨by simp, ?_⟩
      intro t ht
      have := hall t (by simpa using ht)
      simpa using this
    · have hc : (a :: l).countP (fun t => decide (t.off ≥ e)) = l.countP (fun t => decide (t.off ≥ e)) :=
        List.countP_cons_of_neg (by simpa using ha)
      have hle := List.countP_le_length (p := fun t : Tree => decide (t.off ≥ e)) (l := l)
      have hlen : (a :: l).length - l.countP (fun t => decide (t.off ≥ e)) =
          (l.length - l.countP (fun t => decide (t.off ≥ e))) + 1 := by
        simp only [List.length_cons]; omega
      rw [hc, hlen, List.take_succ_cons, List.drop_succ_cons]
      obtain ⟨h1, h2⟩ := ih hs.2
      refine ⟨?_, h2⟩
      intro t ht
      rcases List.mem_cons.1 ht with rfl | h
      · omega
      · exact h1 t h

/-- What one `addNode` call does, in Go order (bottom of the stack first): the stack splits into
`before ++ kids ++ after`; `kids` become the children of the new node, which takes their place. On a
stack sorted by offset the three parts are exactly the roots starting before the new node, inside
its half-open range, and at or after its end. -/
theorem addNode_spec (id : Nat) (S : List Tree) (ev : Ev) :
    ∃ before kids after, S.reverse = before ++ (kids ++ after) ∧
      (addNode id S ev).reverse = before ++ (Tree.node id ev kids :: after) ∧
      (S.Pairwise (fun a b => b.off ≤ a.off) →
        (∀ t ∈ before, t.off < ev.off) ∧ (∀ t ∈ kids, ev.off ≤ t.off ∧ t.off < ev.endo) ∧
        (∀ t ∈ after, ev.off ≤ t.off ∧ ev.endo ≤ t.off)) := by
  let p := fun t : Tree => decide (t.off ≥ ev.off)
  let q := fun t : Tree => decide (t.off ≥ ev.endo)
  let scanned := S.takeWhile p
  let rest := S.dropWhile p
  let sb := scanned.reverse
  let m := sb.length - scanned.countP q
  refine ⟨rest.reverse, sb.take m, sb.drop m, ?_, ?_, ?_⟩
  · rw [List.take_append_drop]
    show S.reverse = rest.reverse ++ scanned.reverse
    rw [← List.reverse_append, List.takeWhile_append_dropWhile]
  · show (addNode id S ev).reverse = _
    unfold addNode
    simp only [List.reverse_append, List.reverse_cons, List.reverse_reverse, List.append_assoc,
      List.singleton_append]
    rfl
  · intro hs
    have hscanned : ∀ t ∈ scanned, ev.off ≤ t.off := by
      intro t ht
      have := mem_takeWhile_true ht
      simpa [p] using this
    have hsb_mem : ∀ t ∈ sb, ev.off ≤ t.off := by
      intro t ht; exact hscanned t (List.mem_reverse.1 ht)
    have hsorted : sb.Pairwise (fun a b => a.off ≤ b.off) := by
      have h1 : scanned.Pairwise (fun a b => b.off ≤ a.off) :=
        hs.sublist (List.takeWhile_sublist p)
      exact List.pairwise_reverse.2 h1
    have hcnt : scanned.countP q = sb.countP q := (List.countP_reverse).symm
    have htd := take_drop_count sb ev.endo hsorted
    refine ⟨?_, ?_, ?_⟩
    · intro t ht
      exact dropWhile_lt_of_sorted S ev.off hs t (List.mem_reverse.1 ht)
    · intro t ht
      refine ⟨hsb_mem t (List.mem_of_mem_take ht), ?_⟩
      have : m = sb.length - sb.countP (fun t => decide (t.off ≥ ev.endo)) := by
        show sb.length - scanned.countP q = _
        rw [hcnt]
      rw [this] at ht
      exact htd.1 t ht
    · intro t ht
      refine ⟨hsb_mem t (List.mem_of_mem_drop ht), ?_⟩
      have : m = sb.length - sb.countP (fun t => decide (t.off ≥ ev.endo)) := by
        show sb.length - scanned.countP q = _
        rw [hcnt]
      rw [this] at ht
      exact htd.2 t ht

/-! ### the specification's parent function -/

theorem parentOf_eq_some {evs : List Ev} {i j : Nat} {p c : Ev}
    (hi : evs[i]? = some p) (hj : evs[j]? = some c) (hij : i < j) (hc : contains c p)
    (hmin : ∀ j', i < j' → j' < j → ∀ c', evs[j']? = some c' → ¬ contains c' p) :
    parentOf evs i = some j := by
  unfold parentOf
  rw [List.find?_range_eq_some]
  refine ⟨by simp [hi, hj, hij, hc], ?_, ?_⟩
  · have := (List.getElem?_eq_some_iff.1 hj).1
    simpa using this
  · intro j' hj'
    by_cases h1 : i < j'
    · cases hc' : evs[j']? with
      | none => simp
      | some c' => simp [hi, h1, hmin j' h1 hj' c' hc']
    · simp [h1]

theorem parentOf_eq_none {evs : List Ev} {i : Nat} {p : Ev} (hi : evs[i]? = some p)
    (hno : ∀ j, i < j → ∀ c, evs[j]? = some c → ¬ contains c p) : parentOf evs i = none := by
  unfold parentOf
  rw [List.find?_range_eq_none]
  intro j _
  by_cases h1 : i < j
  · cases hc' : evs[j]? with
    | none => simp
    | some c' => simp [hi, h1, hno j h1 c' hc']
  · simp [h1]

/-! ### the loop invariant -/

/-- Invariant of the builder after `k` events; `R` is the stack in Go order. -/
structure Inv (evs : List Ev) (k : Nat) (R : List Tree) : Prop where
  /-- every event so far is a node exactly once -/
  ids : (idsList R).Perm (List.range k)
  /-- every node carries its event, its children are attached to their smallest container, in order -/
  good : ∀ t ∈ subtreesList R, NodeOK evs t
  /-- no event so far contains a root -/
  roots : ∀ r ∈ R, ∀ j, r.id < j → j < k → ∀ c, evs[j]? = some c → ¬ contains c r.ev
  /-- the roots are in source order -/
  sorted : R.Pairwise SibOrder

theorem Inv.root_lt {evs k R} (h : Inv evs k R) {r : Tree} (hr : r ∈ R) : r.id < k := by
  have := (h.ids.mem_iff).1 (id_mem_idsList hr)
  simpa using this

theorem Inv.root_ev {evs k R} (h : Inv evs k R) {r : Tree} (hr : r ∈ R) : evs[r.id]? = some r.ev :=
  (h.good r (mem_subtreesList_self hr)).1

theorem inv_nil (evs : List Ev) : Inv evs 0 [] :=
  ⟨by simp [idsList], by simp [subtreesList], by simp, by simp⟩

theorem compat_of_pairwise {evs : List Ev} (hp : evs.Pairwise Compat) {i j : Nat} {p f : Ev}
    (hi : evs[i]? = some p) (hj : evs[j]? = some f) (hij : i < j) : Compat p f := by
  obtain ⟨hi1, hi2⟩ := List.getElem?_eq_some_iff.1 hi
  obtain ⟨hj1, hj2⟩ := List.getElem?_eq_some_iff.1 hj
  have := (List.pairwise_iff_getElem.1 hp) i j hi1 hj1 hij
  rw [hi2, hj2] at this
  exact this

theorem sorted_off {evs : List Ev} {n k : Nat} {R : List Tree} (hb : InBounds n evs) (h : Inv evs k R) :
    R.Pairwise (fun a b => a.off ≤ b.off) := by
  refine List.Pairwise.imp_of_mem ?_ h.sorted
  intro a b ha _ hab
  have hev := h.root_ev ha
  have := hb a.ev (List.mem_of_getElem? hev)
  unfold SibOrder Tree.endo at hab
  unfold Tree.off at *
  omega

theorem inv_step {evs : List Ev} {n k : Nat} {S : List Tree} {ev : Ev}
    (hw : WellNested n evs) (hk : evs[k]? = some ev) (h : Inv evs k S.reverse) :
    Inv evs (k + 1) (addNode k S ev).reverse := by
  obtain ⟨before, kids, after, hR, hR', hparts⟩ := addNode_spec k S ev
  have hsortedS : S.Pairwise (fun a b => b.off ≤ a.off) := by
    have := sorted_off hw.1 h
    exact List.pairwise_reverse.1 (by simpa using this)
  obtain ⟨hbefore, hkids, hafter⟩ := hparts hsortedS
  rw [hR'] at *
  rw [hR] at h
  have hevb := hw.1 ev (List.mem_of_getElem? hk)
  -- membership helpers
  have mb : ∀ t ∈ before, t ∈ before ++ (kids ++ after) := fun t ht => List.mem_append_left _ ht
  have mk : ∀ t ∈ kids, t ∈ before ++ (kids ++ after) :=
    fun t ht => List.mem_append_right _ (List.mem_append_left _ ht)
  have ma : ∀ t ∈ after, t ∈ before ++ (kids ++ after) :=
    fun t ht => List.mem_append_right _ (List.mem_append_right _ ht)
  have hsorted := h.sorted
  rw [List.pairwise_append, List.pairwise_append] at hsorted
  obtain ⟨sb, ⟨sk, sa, ska⟩, sbka⟩ := hsorted
  refine ⟨?_, ?_, ?_, ?_⟩
  · -- ids
    have h1 := h.ids
    simp only [idsList_append, idsList, Tree.ids] at h1 ⊢
    rw [List.range_succ]
    refine List.Perm.trans ?_ ((h1.append_right [k]).trans (by simp))
    simp only [List.append_assoc]
    refine (List.perm_append_left_iff _).2 ?_
    rw [← List.append_assoc (idsList kids)]
    exact (List.perm_append_singleton k _).symm
  · -- good
    intro t ht
    simp only [subtreesList_append, subtreesList, Tree.subtrees, List.mem_append, List.mem_cons] at ht
    have hold : ∀ t ∈ subtreesList (before ++ (kids ++ after)), NodeOK evs t := h.good
    simp only [subtreesList_append, List.mem_append] at hold
    rcases ht with ht | (rfl | ht) | ht
    · exact hold t (.inl ht)
    · refine ⟨hk, ?_, sk⟩
      intro c hc
      have hcev := h.root_ev (mk c hc)
      have hclt := h.root_lt (mk c hc)
      have hin := hkids c hc
      refine ⟨?_, hin.1, ?_⟩
      · refine parentOf_eq_some hcev hk hclt ⟨hin.1, hin.2⟩ ?_
        intro j' h1 h2 c' hc'
        exact h.roots c (mk c hc) j' h1 h2 c' hc'
      · have := compat_of_pairwise hw.2 hcev hk hclt
        have hcb := hw.1 c.ev (List.mem_of_getElem? hcev)
        unfold Compat at this
        unfold Tree.off Tree.endo at *
        simp only [Tree.ev] at *
        omega
    · exact hold t (.inr (.inl ht))
    · exact hold t (.inr (.inr ht))
  · -- roots
    intro r hr j hj1 hj2 c hc
    simp only [List.mem_append, List.mem_cons] at hr
    have hjk : j < k ∨ j = k := by omega
    rcases hr with hr | rfl | hr
    · rcases hjk with hjk | rfl
      · exact h.roots r (mb r hr) j hj1 hjk c hc
      · rw [hk] at hc; cases hc
        have := hbefore r hr
        unfold contains Tree.off at *; omega
    · simp only [Tree.id] at hj1; omega
    · rcases hjk with hjk | rfl
      · exact h.roots r (ma r hr) j hj1 hjk c hc
      · rw [hk] at hc; cases hc
        have := hafter r hr
        unfold contains Tree.off at *; omega
  · -- sorted
    rw [List.pairwise_append]
    refine ⟨sb, ?_, ?_⟩
    · rw [List.pairwise_cons]
      refine ⟨?_, sa⟩
      intro b hb
      have := hafter b hb
      have hlt := h.root_lt (ma b hb)
      unfold SibOrder Tree.off Tree.endo Tree.id at *
      simp only [Tree.ev] at *
      exact ⟨this.2, fun _ => hlt⟩
    · intro a ha b hb
      rcases List.mem_cons.1 hb with rfl | hb
      · have haev := h.root_ev (mb a ha)
        have halt := h.root_lt (mb a ha)
        have := compat_of_pairwise hw.2 haev hk halt
        have hab := hw.1 a.ev (List.mem_of_getElem? haev)
        have hlt := hbefore a ha
        unfold Compat at this
        unfold SibOrder Tree.off Tree.endo Tree.id at *
        simp only [Tree.ev] at *
        omega
      · exact sbka a ha b (List.mem_append_right _ hb)

mutual
theorem Tree.exists_of_mem_ids : ∀ (t : Tree) (i : Nat), i ∈ t.ids → ∃ s ∈ t.subtrees, s.id = i
  | .node id ev kids, i, hi => by
    simp only [Tree.ids, List.mem_cons] at hi
    rcases hi with rfl | hi
    · exact ⟨_, Tree.self_mem_subtrees _, rfl⟩
    · obtain ⟨s, hs, rfl⟩ := exists_of_mem_idsList kids i hi
      exact ⟨s, by simp [Tree.subtrees, hs], rfl⟩
theorem exists_of_mem_idsList : ∀ (l : List Tree) (i : Nat), i ∈ idsList l → ∃ s ∈ subtreesList l, s.id = i
  | [], i, hi => by simp [idsList] at hi
  | a :: l, i, hi => by
    simp only [idsList, List.mem_append] at hi
    rcases hi with hi | hi
    · obtain ⟨s, hs, rfl⟩ := Tree.exists_of_mem_ids a i hi
      exact ⟨s, by simp [subtreesList, hs], rfl⟩
    · obtain ⟨s, hs, rfl⟩ := exists_of_mem_idsList l i hi
      exact ⟨s, by simp [subtreesList, hs], rfl⟩
end

theorem inv_buildFrom {evs : List Ev} {n : Nat} (hw : WellNested n evs) :
    ∀ (rest : List Ev) (k : Nat) (S : List Tree), evs.drop k = rest → Inv evs k S.reverse →
      Inv evs evs.length (buildFrom k S rest).reverse := by
  intro rest
  induction rest with
  | nil =>
    intro k S hd h
    have : evs.length ≤ k := List.drop_eq_nil_iff.1 hd
    have hk : k = evs.length := by
      -- all ids are indices of events
      rcases Nat.lt_or_ge evs.length k with hlt | hge
      · exfalso
        have hmem : evs.length ∈ idsList S.reverse := (h.ids.mem_iff).2 (by simpa using hlt)
        have := exists_of_mem_idsList
        obtain ⟨t, ht, hid⟩ := this _ _ hmem
        have := (h.good t ht).1
        rw [hid] at this
        have := (List.getElem?_eq_some_iff.1 this).1
        omega
      · omega
    subst hk
    exact h
  | cons ev rest ih =>
    intro k S hd h
    have hk : evs[k]? = some ev := by
      have : (evs.drop k)[0]? = some ev := by rw [hd]; rfl
      simpa using this
    have hd' : evs.drop (k + 1) = rest := by
      have : (evs.drop k).drop 1 = rest := by rw [hd]; rfl
      simpa [List.drop_drop, Nat.add_comm] using this
    exact ih (k + 1) (addNode k S ev) hd' (inv_step hw hk h)

theorem inv_build {evs : List Ev} {n : Nat} (hw : WellNested n evs) : Inv evs evs.length (build evs) :=
  inv_buildFrom hw evs 0 [] (by simp) (by simpa using inv_nil evs)

/-! ### all streams: the nodes are exactly the events -/

/-- holds for EVERY event list (no nesting assumption) -/
structure Inv0 (evs : List Ev) (k : Nat) (R : List Tree) : Prop where
  ids : (idsList R).Perm (List.range k)
  evOf : ∀ t ∈ subtreesList R, evs[t.id]? = some t.ev

theorem inv0_step {evs : List Ev} {k : Nat} {S : List Tree} {ev : Ev}
    (hk : evs[k]? = some ev) (h : Inv0 evs k S.reverse) : Inv0 evs (k + 1) (addNode k S ev).reverse := by
  obtain ⟨before, kids, after, hR, hR', _⟩ := addNode_spec k S ev
  rw [hR'] at *
  rw [hR] at h
  refine ⟨?_, ?_⟩
  · have h1 := h.ids
    simp only [idsList_append, idsList, Tree.ids] at h1 ⊢
    rw [List.range_succ]
    refine List.Perm.trans ?_ ((h1.append_right [k]).trans (by simp))
    simp only [List.append_assoc]
    refine (List.perm_append_left_iff _).2 ?_
    rw [← List.append_assoc (idsList kids)]
    exact (List.perm_append_singleton k _).symm
  · intro t ht
    simp only [subtreesList_append, subtreesList, Tree.subtrees, List.mem_append, List.mem_cons] at ht
    have hold := h.evOf
    simp only [subtreesList_append, List.mem_append] at hold
    rcases ht with ht | (rfl | ht) | ht
    · exact hold t (.inl ht)
    · exact hk
    · exact hold t (.inr (.inl ht))
    · exact hold t (.inr (.inr ht))

theorem inv0_buildFrom {evs : List Ev} :
    ∀ (rest : List Ev) (k : Nat) (S : List Tree), evs.drop k = rest → k ≤ evs.length → Inv0 evs k S.reverse →
      Inv0 evs evs.length (buildFrom k S rest).reverse := by
  intro rest
  induction rest with
  | nil =>
    intro k S hd hle h
    have : evs.length ≤ k := List.drop_eq_nil_iff.1 hd
    have hk : k = evs.length := by omega
    subst hk; exact h
  | cons ev rest ih =>
    intro k S hd hle h
    have hk : evs[k]? = some ev := by
      have : (evs.drop k)[0]? = some ev := by rw [hd]; rfl
      simpa using this
    have hd' : evs.drop (k + 1) = rest := by
      have : (evs.drop k).drop 1 = rest := by rw [hd]; rfl
      simpa [List.drop_drop, Nat.add_comm] using this
    have hlt := (List.getElem?_eq_some_iff.1 hk).1
    exact ih (k + 1) (addNode k S ev) hd' (by omega) (inv0_step hk h)

theorem inv0_build (evs : List Ev) : Inv0 evs evs.length (build evs) :=
  inv0_buildFrom evs 0 [] (by simp) (Nat.zero_le _) ⟨by simp [idsList], by simp [subtreesList]⟩

/-! ### the `File` node of `builder.build()` -/

theorem buildFrom_append (k : Nat) (S : List Tree) (a b : List Ev) :
    buildFrom k S (a ++ b) = buildFrom (k + a.length) (buildFrom k S a) b := by
  induction a generalizing k S with
  | nil => simp [buildFrom]
  | cons e a ih =>
    simp only [List.cons_append, buildFrom, List.length_cons]
    rw [ih]
    congr 1
    omega

/-- if no reported node starts at the end offset `n`, the `File` node becomes the single root -/
theorem build_file_single {n : Nat} {evs : List Ev} (fileTy : Int) (hw : WellNested n evs)
    (hlt : ∀ e ∈ evs, e.off < n) :
    ∃ kids, build (evs ++ [⟨fileTy, 0, n⟩]) = [Tree.node evs.length ⟨fileTy, 0, n⟩ kids] := by
  have hinv := inv_build hw
  unfold build at hinv ⊢
  rw [buildFrom_append]
  simp only [buildFrom, Nat.zero_add]
  obtain ⟨before, kids, after, hR, hR', hparts⟩ := addNode_spec evs.length (buildFrom 0 [] evs) ⟨fileTy, 0, n⟩
  have hsorted : (buildFrom 0 [] evs).Pairwise (fun a b => b.off ≤ a.off) := by
    have := sorted_off hw.1 hinv
    exact List.pairwise_reverse.1 (by simpa using this)
  obtain ⟨hb, _, ha⟩ := hparts hsorted
  have hbefore : before = [] := by
    cases before with
    | nil => rfl
    | cons t _ => have := hb t (List.mem_cons_self ..); simp at this
  have hafter : after = [] := by
    cases after with
    | nil => rfl
    | cons t _ =>
      exfalso
      have h1 := (ha t (List.mem_cons_self ..)).2
      have hmem : t ∈ (buildFrom 0 [] evs).reverse := by
        rw [hR]; simp
      have hev := hinv.root_ev hmem
      have := hlt t.ev (List.mem_of_getElem? hev)
      unfold Tree.off at h1
      simp only at h1
      omega
  rw [hR', hbefore, hafter]
  exact ⟨kids, rfl⟩

end TmVerif.TreeBuilder
