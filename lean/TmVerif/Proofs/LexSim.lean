import TmVerif.Proofs.LexClasses
/-!
C09 helper lemmas, part 3: tables that pass the validator make `Tables.Scan` (its mirror in
`Model/LexTables.lean`) compute `scanSpec`.  Loop invariant: the DFA state is paired (in the checked set `V`)
with the derivatives of the rules by the text consumed so far; `size/action` hold the last accepted prefix
whenever the current state does not accept.
-/
namespace TmVerif.LexSpec
open TmVerif.Charset TmVerif.Regex TmVerif.LexTables

/-! ### what `closedOk` gives -/

theorem mem_classReps (t : Tables) (c : Nat) (s : Int) :
    (c, s) ∈ classReps t ↔ c < t.numSymbols.toNat ∧ repOf t (c : Int) = some s := by
  unfold classReps
  simp only [List.mem_filterMap, List.mem_range, Option.map_eq_some_iff, Prod.mk.injEq]
  constructor
  · rintro ⟨c', hc', s', hs', rfl, rfl⟩
    exact ⟨hc', hs'⟩
  · rintro ⟨h1, h2⟩
    exact ⟨c, h1, s, h2, rfl, rfl⟩

theorem bestFrom_action (rs : List Rule) :
    ∀ (D : List Regex) (acc : Option (Int × Int)) (p a : Int), bestFrom acc rs D = some (p, a) →
      acc = some (p, a) ∨ ∃ r ∈ rs, r.action = a := by
  induction rs with
  | nil => intro D acc p a h; left; simpa [bestFrom] using h
  | cons r rs ih =>
    intro D acc p a h
    cases D with
    | nil => left; simpa [bestFrom] using h
    | cons d ds =>
      simp only [bestFrom] at h
      rcases ih ds _ p a h with h' | ⟨r', hr', ha⟩
      · split at h'
        · unfold bestUpd at h'
          split at h'
          · right; refine ⟨r, by simp, ?_⟩
            simp only [Option.some.injEq, Prod.mk.injEq] at h'; exact h'.2
          · split at h'
            · right; refine ⟨r, by simp, ?_⟩
              simp only [Option.some.injEq, Prod.mk.injEq] at h'; exact h'.2
            · left; exact h'
        · left; exact h'
      · right; exact ⟨r', List.mem_cons_of_mem _ hr', ha⟩

theorem accept_pos (rules : List Rule) (hr : rulesOk rules = true) (D : List Regex) (a : Int)
    (h : accept rules D = some a) : 1 ≤ a := by
  unfold accept at h
  simp only [Option.map_eq_some_iff] at h
  obtain ⟨⟨p, a'⟩, hb, rfl⟩ := h
  rcases bestFrom_action rules D none p a' hb with h | ⟨r, hr', ha⟩
  · cases h
  · unfold rulesOk at hr
    have := List.all_eq_true.1 hr r hr'
    simp only [decide_eq_true_eq] at this
    simp only
    omega

/-! ### the end-of-input column -/

theorem noEoiShift_spec (t : Tables) (h : noEoiShift t = true) (hn : 0 < t.numSymbols) (q : Int) (hq : 0 ≤ q)
    (e : Int) (he : getI t.dfa (q * t.numSymbols) = some e) : e ≤ actionStart t := by
  unfold getI at he
  have hnn : 0 ≤ q * t.numSymbols := Int.mul_nonneg hq (by omega)
  rw [if_pos hnn] at he
  have hlt : (q * t.numSymbols).toNat < t.dfa.size := by
    have := Array.getElem?_eq_some_iff.1 he
    exact this.1
  unfold noEoiShift at h
  have := List.all_eq_true.1 h (q * t.numSymbols).toNat (List.mem_range.2 hlt)
  rw [he] at this
  have hmod : (q * t.numSymbols).toNat % t.numSymbols.toNat = 0 := by
    have : (q * t.numSymbols).toNat = q.toNat * t.numSymbols.toNat := by
      apply Int.ofNat.inj
      show ((q * t.numSymbols).toNat : Int) = ((q.toNat * t.numSymbols.toNat : Nat) : Int)
      rw [Int.toNat_of_nonneg hnn, Int.natCast_mul, Int.toNat_of_nonneg hq, Int.toNat_of_nonneg (by omega)]
    rw [this, Nat.mul_mod_left]
  simp only [hmod, bne_self_eq_false, Bool.false_or, decide_eq_true_eq] at this
  exact this

/-! ### the loop invariant -/

/-- What `size`/`action` (of `Scan`) and `last` (of the specification) hold when the rules' derivatives are `D`
after `pos` bytes. -/
def Rel (rules : List Rule) (D : List Regex) (pos : Nat) (last : Option (Nat × Int)) (size : Nat) (action : Int) : Prop :=
  match accept rules D with
  | some a => last = some (pos, a) ∧ 0 < pos
  | none => (last = none ∧ size = 0) ∨ (0 < size ∧ last = some (size, action))

/-- The result of `Scan` on a cell that holds the action of the state. -/
theorem action_cell (rules : List Rule) (t : Tables) (hr : rulesOk rules = true) (D : List Regex) (pos : Nat)
    (last : Option (Nat × Int)) (size : Nat) (action : Int) (hrel : Rel rules D pos last size action) (e : Int)
    (he : e = actionStart t - (accept rules D).getD 0) :
    (if actionStart t = e ∧ size > 0 then some (size, action) else some (pos, actionStart t - e)) =
      some (last.getD (pos, 0)) := by
  unfold Rel at hrel
  cases hacc : accept rules D with
  | some a =>
    rw [hacc] at hrel he
    have ha := accept_pos rules hr D a hacc
    simp only [Option.getD_some] at he
    have hne : ¬ (actionStart t = e ∧ size > 0) := by intro h; omega
    rw [if_neg hne, hrel.1]
    simp only [Option.getD_some, Option.some.injEq, Prod.mk.injEq, true_and]
    omega
  | none =>
    rw [hacc] at hrel he
    simp only [Option.getD_none, Int.sub_zero] at he
    rcases hrel with ⟨h1, h2⟩ | ⟨h1, h2⟩
    · have hne : ¬ (actionStart t = e ∧ size > 0) := by intro h; omega
      rw [if_neg hne, h1]
      simp only [Option.getD_none, Option.some.injEq, Prod.mk.injEq, true_and]
      omega
    · rw [if_pos ⟨he.symm, h1⟩, h2]
      rfl

/-- The characters `Scan` can meet: code points of the scanned alphabet with a positive width. -/
def CharsOk (t : Tables) (chars : List (Int × Nat)) : Prop :=
  ∀ c ∈ chars, 0 ≤ c.1 ∧ c.1 ≤ maxRune t.scanBytes ∧ 1 ≤ c.2

theorem actionStart_neg (t : Tables) : actionStart t ≤ -1 := by
  unfold actionStart; omega

theorem scanLoop_eq (rules : List Rule) (t : Tables) (V : List Pair) (hwf : t.wf = true)
    (hcls : checkClasses rules t = true) (hV : closedOk rules t V = true) (hE : noEoiShift t = true) :
    ∀ (chars : List (Int × Nat)), CharsOk t chars →
    ∀ (q : Int) (D : List Regex) (pos : Nat) (last : Option (Nat × Int)) (size : Nat) (action : Int),
      (q, D) ∈ V → VecSub D (ruleSets rules) → Rel rules D pos last size action →
      scanLoop t chars pos q size action = some (specLoop rules D pos last (chars ++ [(eoiSym, 0)])) := by
  have w := wf_of_wf t hwf
  simp only [closedOk, Bool.and_eq_true] at hV
  obtain ⟨⟨hr, _⟩, hpairs⟩ := hV
  have hpair : ∀ q D, (q, D) ∈ V → 0 ≤ q ∧ ∀ cs ∈ classReps t, cellOk rules t V q D cs = true := by
    intro q D hm
    have := List.all_eq_true.1 hpairs (q, D) hm
    simp only [pairOk, Bool.and_eq_true, decide_eq_true_eq, List.all_eq_true] at this
    exact this
  intro chars
  induction chars with
  | nil =>
    intro _ q D pos last size action hm _ hrel
    obtain ⟨hq, hcells⟩ := hpair q D hm
    have hc0 : ((0 : Nat), eoiSym) ∈ classReps t := by
      rw [mem_classReps]
      refine ⟨?_, by simp [repOf]⟩
      have := w.ns_pos
      omega
    have hcell := hcells _ hc0
    simp only [cellOk, Int.natCast_zero, Int.add_zero] at hcell
    simp only [scanLoop, List.nil_append, specLoop]
    cases hg : getI t.dfa (q * t.numSymbols) with
    | none => rw [hg] at hcell; cases hcell
    | some e =>
      rw [hg] at hcell
      simp only at hcell ⊢
      have hle := noEoiShift_spec t hE w.ns_pos q hq e hg
      have hneg := actionStart_neg t
      by_cases hd : dead (stepVec eoiSym D) = true
      · rw [if_pos hd] at hcell ⊢
        have he : e = actionStart t - (accept rules D).getD 0 := by simpa using hcell
        exact action_cell rules t hr D pos last size action hrel e he
      · rw [if_neg hd] at hcell
        have h1 : ¬ (0 ≤ e) := by omega
        have h2 : ¬ (actionStart t < e) := by omega
        rw [if_neg h1, if_neg h2] at hcell
        cases hcell
  | cons ch rest ih =>
    intro hok q D pos last size action hm hsub hrel
    obtain ⟨r, wd⟩ := ch
    have hch := hok (r, wd) (by simp)
    have hok' : CharsOk t rest := fun c hc => hok c (List.mem_cons_of_mem _ hc)
    obtain ⟨hq, hcells⟩ := hpair q D hm
    obtain ⟨c, s, hsym, hc0, hcN, hrep, hagree⟩ := checkClasses_sound rules t hwf hcls r hch.1 hch.2.1
    have hcc : ((c.toNat : Nat) : Int) = c := Int.toNat_of_nonneg hc0
    have hmem : (c.toNat, s) ∈ classReps t := by
      rw [mem_classReps, hcc]
      exact ⟨by omega, hrep⟩
    have hcell := hcells _ hmem
    have hstep : stepVec r D = stepVec s D := stepVec_congr _ r s hagree D hsub
    simp only [cellOk, hcc] at hcell
    simp only [scanLoop, hsym, List.cons_append, specLoop, hstep]
    cases hg : getI t.dfa (q * t.numSymbols + c) with
    | none => rw [hg] at hcell; cases hcell
    | some e =>
      rw [hg] at hcell
      simp only at hcell ⊢
      have hneg := actionStart_neg t
      have hsub' : VecSub (stepVec s D) (ruleSets rules) := vecSub_stepVec s D _ hsub
      by_cases hd : dead (stepVec s D) = true
      · rw [if_pos hd] at hcell ⊢
        have he : e = actionStart t - (accept rules D).getD 0 := by simpa using hcell
        have hge : 0 ≤ (accept rules D).getD 0 := by
          cases hacc : accept rules D with
          | none => simp
          | some a => have := accept_pos rules hr D a hacc; simp; omega
        have h1 : e < 0 := by omega
        have h2 : ¬ (e > actionStart t) := by omega
        rw [if_pos h1, if_neg h2]
        exact action_cell rules t hr D pos last size action hrel e he
      · rw [if_neg hd] at hcell ⊢
        by_cases hnn : 0 ≤ e
        · rw [if_pos hnn] at hcell
          simp only [Bool.and_eq_true, List.contains_iff_mem, Bool.not_eq_true', Bool.and_eq_false_iff] at hcell
          obtain ⟨hm', hck⟩ := hcell
          have h1 : ¬ (e < 0) := by omega
          rw [if_neg h1]
          apply ih hok' e (stepVec s D) (pos + wd) _ size action hm' hsub'
          unfold Rel at hrel ⊢
          cases hacc' : accept rules (stepVec s D) with
          | some a' => exact ⟨rfl, by omega⟩
          | none =>
            simp only
            rcases hck with hck | hck
            · cases hacc : accept rules D with
              | none => rw [hacc] at hrel; exact hrel
              | some a => rw [hacc] at hck; simp at hck
            · rw [hacc'] at hck; simp at hck
        · rw [if_neg hnn] at hcell
          by_cases hcp : actionStart t < e
          · rw [if_pos hcp] at hcell
            have h1 : e < 0 := by omega
            rw [if_pos h1, if_pos hcp]
            cases hbt : getI t.backtrack (-1 - e) with
            | none => rw [hbt] at hcell; cases hcell
            | some bt =>
              rw [hbt] at hcell
              simp only [Bool.and_eq_true, List.contains_iff_mem, beq_iff_eq] at hcell ⊢
              obtain ⟨hacc, hm'⟩ := hcell
              apply ih hok' bt.nextState (stepVec s D) (pos + wd) _ pos bt.action hm' hsub'
              unfold Rel at hrel ⊢
              rw [hacc] at hrel
              cases hacc' : accept rules (stepVec s D) with
              | some a' => exact ⟨rfl, by omega⟩
              | none => exact Or.inr ⟨hrel.2, hrel.1⟩
          · rw [if_neg hcp] at hcell
            cases hcell

end TmVerif.LexSpec
