import TmVerif.Proofs.DiffMyersLoop
/-!
C27, Myers search, part 4: the value computed for a diagonal of round `d+1` is the furthest
reaching point, provided the array holds the furthest reaching points of round `d`.
-/
namespace TmVerif.Diff
set_option linter.unusedSectionVars false
variable {α : Type} [DecidableEq α]

/-- the diagonals the loops of round `d` visit -/
def InRange (m n d : Nat) (k : Int) : Prop :=
  roundStart n d ≤ k ∧ k ≤ roundLimit m d ∧ (k - (d : Int)) % 2 = 0

theorem inRange_abs (m n d : Nat) (k : Int) (h : InRange m n d k) :
    -(d : Int) ≤ k ∧ k ≤ (d : Int) := by
  unfold InRange roundStart roundLimit at h
  split at h <;> split at h <;> omega

theorem inRange_grid (m n d : Nat) (k : Int) (h : InRange m n d k) :
    -(n : Int) ≤ k ∧ k ≤ (m : Int) := by
  unfold InRange roundStart roundLimit at h
  split at h <;> split at h <;> omega

theorem inRange_pred (m n d : Nat) (k : Int) (h : InRange m n (d + 1) k)
    (hk : k ≠ -((d + 1 : Nat) : Int)) : InRange m n d (k - 1) := by
  unfold InRange roundStart roundLimit at *
  repeat' split at h
  all_goals (repeat' split)
  all_goals omega

theorem inRange_succ (m n d : Nat) (k : Int) (h : InRange m n (d + 1) k)
    (hk : k ≠ ((d + 1 : Nat) : Int)) : InRange m n d (k + 1) := by
  unfold InRange roundStart roundLimit at *
  repeat' split at h
  all_goals (repeat' split)
  all_goals omega

/-- the array holds the furthest reaching points of round `d` -/
def VInv (A B : List α) (base : Nat) (v : Array Nat) (d : Nat) : Prop :=
  ∀ k, InRange A.length B.length d k → FR A B d k (v.getD (vidx base k) 0)

theorem stepX_fr_zero (eqAt : Nat → Nat → Bool) (A B : List α) (hs : EqSpec eqAt A B)
    (base : Nat) (v : Array Nat) (h0 : v.getD (vidx base 1) 0 = 0) :
    FR A B 0 0 (stepX eqAt A.length B.length base 0 v 0) := by
  have hp : pickX v base 0 0 = 0 := by
    unfold pickX
    simp [h0]
  unfold stepX
  rw [hp]
  obtain ⟨t, e1, e2, e3⟩ := slide_spec eqAt A B hs 0 (A.length + 1) 0 0 (by omega)
  rw [e1]
  have := fr_zero A B t e2 (e3 (by omega))
  simpa using this

theorem stepX_fr (eqAt : Nat → Nat → Bool) (A B : List α) (hs : EqSpec eqAt A B)
    (base d : Nat) (v : Array Nat) (k : Int) (hinv : VInv A B base v d)
    (hr : InRange A.length B.length (d + 1) k) :
    FR A B (d + 1) k (stepX eqAt A.length B.length base (d + 1) v k) := by
  have habs := inRange_abs _ _ _ _ hr
  unfold stepX pickX
  by_cases hlo : k = -((d + 1 : Nat) : Int)
  · -- lowest diagonal: come from k+1
    have hp := hinv (k + 1) (inRange_succ _ _ _ _ hr (by omega))
    obtain ⟨⟨yp, hyp, hdp⟩, hup⟩ := hp
    rw [if_pos (Or.inl hlo)]
    generalize v.getD (vidx base (k + 1)) 0 = vp at *
    obtain ⟨t, e1, e2, e3⟩ := slide_spec eqAt A B hs k (A.length + 1) vp (yp + 1) (by omega)
    rw [e1]
    refine fr_succ A B d k vp (yp + 1) t (by omega) (dle_down A B d vp yp hdp) ?_ ?_ e2 (e3 (by omega))
    · intro x y hxy hd
      have := dle_diagonal_bound A B d x y hd
      omega
    · intro x y hxy hd
      exact hup x y hxy hd
  · by_cases hhi : k = ((d + 1 : Nat) : Int)
    · -- highest diagonal: come from k-1
      have hm := hinv (k - 1) (inRange_pred _ _ _ _ hr hlo)
      obtain ⟨⟨ym, hym, hdm⟩, hum⟩ := hm
      rw [if_neg (by
        intro h
        rcases h with h | ⟨h, _⟩
        · exact hlo h
        · exact h hhi)]
      generalize v.getD (vidx base (k - 1)) 0 = vm at *
      obtain ⟨t, e1, e2, e3⟩ := slide_spec eqAt A B hs k (A.length + 1) (vm + 1) ym (by omega)
      rw [e1]
      refine fr_succ A B d k (vm + 1) ym t (by omega) (dle_right A B d vm ym hdm) ?_ ?_ e2
        (e3 (by omega))
      · intro x y hxy hd
        have := hum x y hxy hd
        omega
      · intro x y hxy hd
        have := dle_diagonal_bound A B d x y hd
        omega
    · -- both neighbours
      have hm := hinv (k - 1) (inRange_pred _ _ _ _ hr hlo)
      have hp := hinv (k + 1) (inRange_succ _ _ _ _ hr hhi)
      obtain ⟨⟨ym, hym, hdm⟩, hum⟩ := hm
      obtain ⟨⟨yp, hyp, hdp⟩, hup⟩ := hp
      generalize v.getD (vidx base (k - 1)) 0 = vm at *
      generalize v.getD (vidx base (k + 1)) 0 = vp at *
      by_cases hlt : vm < vp
      · rw [if_pos (Or.inr ⟨hhi, hlt⟩)]
        obtain ⟨t, e1, e2, e3⟩ := slide_spec eqAt A B hs k (A.length + 1) vp (yp + 1) (by omega)
        rw [e1]
        refine fr_succ A B d k vp (yp + 1) t (by omega) (dle_down A B d vp yp hdp) ?_ ?_ e2
          (e3 (by omega))
        · intro x y hxy hd
          have := hum x y hxy hd
          omega
        · intro x y hxy hd
          exact hup x y hxy hd
      · rw [if_neg (by
          intro h
          rcases h with h | ⟨_, h⟩
          · exact hlo h
          · exact hlt h)]
        obtain ⟨t, e1, e2, e3⟩ := slide_spec eqAt A B hs k (A.length + 1) (vm + 1) ym (by omega)
        rw [e1]
        refine fr_succ A B d k (vm + 1) ym t (by omega) (dle_right A B d vm ym hdm) ?_ ?_ e2
          (e3 (by omega))
        · intro x y hxy hd
          have := hum x y hxy hd
          omega
        · intro x y hxy hd
          have := hup x y hxy hd
          omega

end TmVerif.Diff
